(* C03 layer (b), part 3: dynamic shifts, numeric readings of the static shifts, mux, dynamic bit
   and slice selection, arithmetic shift right built from slices, literals. *)
From Gatery Require Import Bits NodeSemDefs NodeSemBits NodeSemSpec NodeSemSpecArith NodeSemSpecShift
  FrontendOpsDefs FrontendOpsBits FrontendOpsSpec FrontendOpsArith.
Import ListNotations.

(* ================================================================== *)
(* Dynamic shifts and rotates (Node_Shift)                               *)

Theorem dshift_spec d f a amt n :
  is_vec (sv_ty a) = true -> sv_ty amt = TU -> sv_w amt <= 64 -> bv_val (sv_bits amt) = Some n ->
  fe_dshift d f a amt =
  Some (mk_sval (sv_ty a) PNone (bv_build (sv_w a) (shift_spec_bit d f (sv_w a) (sv_bits a) n))).
Proof.
  intros Va Ta Hw Hn. unfold fe_dshift. rewrite Ta, Va. cbn [negb].
  replace (64 <? sv_w amt) with false by (symmetry; apply Nat.ltb_ge; exact Hw).
  unfold ret. f_equal. f_equal. apply node1_eq. cbn [map]. apply eval_shift_spec; assumption.
Qed.

(* an amount with an undefined bit makes the whole result undefined *)
Theorem dshift_undef_amount d f a amt :
  is_vec (sv_ty a) = true -> sv_ty amt = TU -> sv_w amt <= 64 -> bv_val (sv_bits amt) = None ->
  fe_dshift d f a amt = Some (mk_sval (sv_ty a) PNone (all_X (sv_w a))).
Proof.
  intros Va Ta Hw Hn. unfold fe_dshift. rewrite Ta, Va. cbn [negb].
  replace (64 <? sv_w amt) with false by (symmetry; apply Nat.ltb_ge; exact Hw).
  unfold ret. f_equal. f_equal. apply node1_eq. cbn [map]. apply eval_shift_undef_amount. exact Hn.
Qed.

(* the static operators in terms of the same definition *)
Theorem fe_shl_spec n a :
  is_vec (sv_ty a) = true ->
  fe_shl n a = Some (mk_sval (sv_ty a) PNone (bv_build (sv_w a) (shift_spec_bit SH_LEFT F_ZERO (sv_w a) (sv_bits a) (N.of_nat n)))).
Proof. intro Va. unfold fe_shl. rewrite Va. unfold ret. rewrite static_shift_spec. reflexivity. Qed.

Theorem fe_shr_spec n a :
  is_vec (sv_ty a) = true ->
  fe_shr n a = Some (mk_sval (sv_ty a) PNone
     (bv_build (sv_w a) (shift_spec_bit SH_RIGHT (match sv_ty a with TS => F_LAST | _ => F_ZERO end) (sv_w a) (sv_bits a) (N.of_nat n)))).
Proof.
  intro Va. unfold fe_shr. destruct (sv_ty a); try discriminate; unfold ret; rewrite static_shift_spec; reflexivity.
Qed.

Theorem fe_rot_spec z a :
  is_vec (sv_ty a) = true ->
  fe_rot z a = Some (mk_sval (sv_ty a) PNone
     (bv_build (sv_w a) (shift_spec_bit (if (0 <? z)%Z then SH_LEFT else SH_RIGHT) F_ROTATE (sv_w a) (sv_bits a) (Z.to_N (Z.abs z))))).
Proof.
  intro Va. unfold fe_rot. rewrite Va. unfold ret. f_equal. f_equal.
  destruct (Z.ltb_spec 0 z) as [P|P]; rewrite static_shift_spec; f_equal; f_equal.
  - apply N2Z.inj. rewrite nat_N_Z, Z2Nat.id, Z2N.id by lia. lia.
  - apply N2Z.inj. rewrite nat_N_Z, Zabs2Nat.id_abs, Z2N.id by lia. reflexivity.
Qed.

(* numeric readings on a defined operand *)
Lemma shl_bits_num w x vx a :
  length x = w -> bv_val x = Some vx ->
  bv_build w (shift_spec_bit SH_LEFT F_ZERO w x a) = bv_of_N w ((vx * 2 ^ a) mod 2 ^ N.of_nat w)%N.
Proof.
  intros Lx Hx. rewrite bv_of_N_mod. apply bv_ext.
  - rewrite bv_build_length, bv_of_N_length. reflexivity.
  - intros i Hi. rewrite bv_build_length in Hi. rewrite bv_get_build, bv_get_of_N.
    apply Nat.ltb_lt in Hi as Hi'. rewrite Hi'. unfold shift_spec_bit. cbn [shift_fillbit].
    rewrite <- N.shiftl_mul_pow2.
    destruct (N.ltb_spec (N.of_nat i) a) as [H|H].
    + rewrite N.shiftl_spec_low by exact H. reflexivity.
    + rewrite N.shiftl_spec_high' by exact H.
      rewrite (bv_get_val x vx) by (try exact Hx; lia). f_equal. f_equal. lia.
Qed.

Lemma shr_bits_num w x vx a :
  length x = w -> bv_val x = Some vx ->
  bv_build w (shift_spec_bit SH_RIGHT F_ZERO w x a) = bv_of_N w (vx / 2 ^ a)%N.
Proof.
  intros Lx Hx. apply bv_ext.
  - rewrite bv_build_length, bv_of_N_length. reflexivity.
  - intros i Hi. rewrite bv_build_length in Hi. rewrite bv_get_build, bv_get_of_N.
    apply Nat.ltb_lt in Hi as Hi'. rewrite Hi'. unfold shift_spec_bit. cbn [shift_fillbit].
    rewrite <- N.shiftr_div_pow2, N.shiftr_spec by lia.
    destruct (N.ltb_spec (N.of_nat i + a) (N.of_nat w)) as [H|H].
    + rewrite (bv_get_val x vx) by (try exact Hx; lia). f_equal. f_equal. lia.
    + pose proof (bv_val_lt x vx Hx) as B. rewrite Lx in B.
      destruct (N.eq_dec vx 0) as [->|Hnz]; [rewrite N.bits_0; reflexivity|].
      rewrite N.bits_above_log2; [reflexivity|].
      apply N.lt_le_trans with (m := N.of_nat w); [|lia].
      apply N.log2_lt_pow2; lia.
Qed.

(* x << n on a defined operand: multiplication by 2^n modulo 2^w, for every n *)
Theorem shl_num n a v :
  is_vec (sv_ty a) = true -> bv_val (sv_bits a) = Some v ->
  fe_shl n a = Some (mk_sval (sv_ty a) PNone (bv_of_N (sv_w a) ((v * 2 ^ N.of_nat n) mod 2 ^ N.of_nat (sv_w a))%N)).
Proof. intros Va Hv. rewrite fe_shl_spec by exact Va. rewrite (shl_bits_num _ _ v) by (try reflexivity; exact Hv). reflexivity. Qed.

(* UInt / BVec x >> n on a defined operand: division by 2^n *)
Theorem shr_num n a v :
  (sv_ty a = TU \/ sv_ty a = TV) -> bv_val (sv_bits a) = Some v ->
  fe_shr n a = Some (mk_sval (sv_ty a) PNone (bv_of_N (sv_w a) (v / 2 ^ N.of_nat n)%N)).
Proof.
  intros Ta Hv. rewrite fe_shr_spec by (destruct Ta as [-> | ->]; reflexivity).
  replace (match sv_ty a with TS => F_LAST | _ => F_ZERO end) with F_ZERO by (destruct Ta as [-> | ->]; reflexivity).
  rewrite (shr_bits_num _ _ v) by (try reflexivity; exact Hv). reflexivity.
Qed.

(* ================================================================== *)
(* mux(selector, table)                                                  *)

Lemma nth_map_some (l : list bv) i d :
  i < length l -> nth i (map (@Some bv) l) None = Some (nth i l d).
Proof. intro H. rewrite (nth_indep _ None (Some d)) by (rewrite map_length; exact H). apply map_nth. Qed.

Lemma node1_mux n w sel s ds :
  bv_val sel = Some s -> n <= length ds -> (forall x, In x ds -> length x = w) ->
  node1 (KMux n w) (sel :: ds) = if (s <? N.of_nat n)%N then nth (N.to_nat s) ds [] else all_X w.
Proof.
  intros Hs Hn Hw. apply node1_eq. cbn [map]. rewrite (eval_mux_spec n w sel s _ Hs). f_equal.
  destruct (N.leb_spec (N.of_nat n) s) as [L|L].
  - replace (s <? N.of_nat n)%N with false by (symmetry; apply N.ltb_ge; exact L). reflexivity.
  - replace (s <? N.of_nat n)%N with true by (symmetry; apply N.ltb_lt; exact L).
    assert (Hlt : N.to_nat s < length ds) by lia.
    rewrite (nth_map_some ds (N.to_nat s) [] Hlt).
    rewrite <- (Hw (nth (N.to_nat s) ds [])) by (apply nth_In; exact Hlt). apply bv_resize_id.
Qed.

Lemma in_firstn {A} n (l : list A) x : In x (firstn n l) -> In x l.
Proof. intro H. rewrite <- (firstn_skipn n l). apply in_or_app. left. exact H. Qed.

Lemma nth_firstn_lt' {A} n (l : list A) i d : i < n -> nth i (firstn n l) d = nth i l d.
Proof.
  revert l i. induction n as [|n IH]; intros l i H; [lia|].
  destruct l as [|a l]; [destruct i; reflexivity|]. destruct i as [|i]; [reflexivity|]. cbn [firstn nth]. apply IH. lia.
Qed.

Lemma last_in {A} (l : list A) d : l <> [] -> In (last l d) l.
Proof.
  induction l as [|a [|b r] IH]; intro H; [contradiction | left; reflexivity |].
  right. apply IH. discriminate.
Qed.

(* the table fits the selector: the selected entry, or undefined beyond the table *)
Theorem mux_spec sel t0 rest s :
  let table := t0 :: rest in
  bv_val (sv_bits sel) = Some s ->
  (N.of_nat (length table) <= 2 ^ N.of_nat (sv_w sel))%N ->
  (forall t, In t table -> sv_w t = sv_w t0) ->
  fe_mux sel table =
  Some (mk_sval (sv_ty t0) PNone
      (if (s <? N.of_nat (length table))%N then sv_bits (nth (N.to_nat s) table t0) else all_X (sv_w t0))).
Proof.
  intros table Hs Hfit Hw. unfold fe_mux. fold table. unfold table at 1. cbv iota. fold table.
  replace (N.of_nat (length table) <=? 2 ^ N.of_nat (sv_w sel))%N with true by (symmetry; apply N.leb_le; exact Hfit).
  cbn [negb andb]. rewrite firstn_all.
  assert (Hl : sv_w (last table t0) = sv_w t0) by (apply Hw, last_in; discriminate).
  rewrite Hl. unfold ret. f_equal. f_equal.
  rewrite (node1_mux _ (sv_w t0) _ s _ Hs).
  - destruct (s <? N.of_nat (length table))%N eqn:E; [|reflexivity].
    apply N.ltb_lt in E. change [] with (sv_bits (mk_sval TU PNone [])).
    rewrite map_nth. f_equal. apply nth_indep. lia.
  - rewrite map_length. lia.
  - intros x Hx. apply in_map_iff in Hx as [t [<- Ht]]. apply Hw. exact Ht.
Qed.

(* more entries than the selector can address: accepted only for a zero-policy selector, the
   table is cut to 2^selwidth entries (every selector value addresses one of them) *)
Theorem mux_truncated_spec sel t0 rest s :
  let table := t0 :: rest in
  bv_val (sv_bits sel) = Some s ->
  (2 ^ N.of_nat (sv_w sel) < N.of_nat (length table))%N -> sv_pol sel = PZero ->
  (forall t, In t table -> sv_w t = sv_w t0) ->
  fe_mux sel table = Some (mk_sval (sv_ty t0) PNone (sv_bits (nth (N.to_nat s) table t0))).
Proof.
  intros table Hs Hbig Hp Hw. unfold fe_mux. fold table. unfold table at 1. cbv iota. fold table.
  replace (N.of_nat (length table) <=? 2 ^ N.of_nat (sv_w sel))%N with false by (symmetry; apply N.leb_gt; exact Hbig).
  rewrite Hp. cbn [negb andb].
  set (size := N.to_nat (2 ^ N.of_nat (sv_w sel))).
  assert (Hsz : size < length table) by (unfold size; lia).
  assert (Hpos : 0 < size) by (unfold size; pose proof (pow2_N_pos (N.of_nat (sv_w sel))); lia).
  pose proof (bv_val_lt _ _ Hs) as Bs. fold (sv_w sel) in Bs.
  assert (Hin : forall t, In t (firstn size table) -> sv_w t = sv_w t0).
  { intros t Ht. apply Hw. eapply in_firstn. exact Ht. }
  assert (Hne : firstn size table <> []).
  { intro E. apply (f_equal (@length sval)) in E. rewrite firstn_length in E. cbn [length] in E. lia. }
  rewrite (Hin _ (last_in _ t0 Hne)). unfold ret. f_equal. f_equal.
  rewrite (node1_mux _ (sv_w t0) _ s _ Hs).
  - replace (s <? N.of_nat size)%N with true by (symmetry; apply N.ltb_lt; unfold size; lia).
    change [] with (sv_bits (mk_sval TU PNone [])). rewrite map_nth. f_equal.
    rewrite (nth_indep _ _ t0) by (rewrite firstn_length; unfold size; lia).
    apply nth_firstn_lt'. unfold size. lia.
  - rewrite map_length, firstn_length. lia.
  - intros x Hx. apply in_map_iff in Hx as [t [<- Ht]]. apply Hin. exact Ht.
Qed.

Theorem mux_rejected sel table :
  table = [] \/ ((2 ^ N.of_nat (sv_w sel) < N.of_nat (length table))%N /\ sv_pol sel <> PZero) ->
  fe_mux sel table = None.
Proof.
  intros [->|[Hbig Hp]]; [reflexivity|]. unfold fe_mux. destruct table as [|t0 rest]; [reflexivity|].
  replace (N.of_nat (length (t0 :: rest)) <=? 2 ^ N.of_nat (sv_w sel))%N with false by (symmetry; apply N.leb_gt; exact Hbig).
  destruct (sv_pol sel); try reflexivity. contradiction.
Qed.

(* mux(Bit; a, b) *)
Corollary mux_bit_spec (c : bool) a b :
  sv_w a = sv_w b ->
  fe_mux (mk_sval TB PNone [of_bool c]) [a; b] = Some (mk_sval (sv_ty a) PNone (sv_bits (if c then b else a))).
Proof.
  intro W. rewrite (mux_spec (mk_sval TB PNone [of_bool c]) a [b] (N.b2n c)).
  - destruct c; reflexivity.
  - destruct c; reflexivity.
  - cbn. lia.
  - intros t [<-|[<-|[]]]; [reflexivity | symmetry; exact W].
Qed.

(* ================================================================== *)
(* Dynamic bit and slice selection                                       *)

Lemma extract_ranges_spec x off cnt :
  node1 (KRewire (extract_ranges (length x) off cnt)) [x] = bv_slice x off cnt.
Proof.
  rewrite node1_rewire. change (map (@Some bv) [x]) with [Some x]. unfold extract_ranges.
  apply bv_ext.
  - rewrite rewire_concat_length, bv_slice_length. unfold rw_add.
    destruct (Nat.ltb_spec off (length x)) as [A|A]; destruct (Nat.ltb_spec (length x) (off + cnt)) as [B|B];
      repeat match goal with |- context [?a =? 0] => destruct (Nat.eqb_spec a 0) end;
      cbn [rewire_width fold_right app rw_width]; lia.
  - intros i Hi. rewrite rewire_concat_length in Hi.
    assert (Hic : i < cnt).
    { revert Hi. unfold rw_add.
      destruct (Nat.ltb_spec off (length x)) as [A|A]; destruct (Nat.ltb_spec (length x) (off + cnt)) as [B|B];
        repeat match goal with |- context [?a =? 0] => destruct (Nat.eqb_spec a 0) end;
        cbn [rewire_width fold_right app rw_width]; lia. }
    rewrite bv_get_slice. apply Nat.ltb_lt in Hic as Hic'. rewrite Hic'.
    unfold rw_add.
    destruct (Nat.ltb_spec off (length x)) as [A|A]; destruct (Nat.ltb_spec (length x) (off + cnt)) as [B|B];
      repeat match goal with |- context [?a =? 0] => destruct (Nat.eqb_spec a 0) end;
      cbn [app map concat]; rewrite ?app_nil_r; try lia.
    + (* partly beyond the end *)
      rewrite piece_input. cbn [rewire_piece rw_src rw_width].
      rewrite bv_get_app, bv_slice_length, bv_get_slice, bv_get_allX.
      replace (Init.Nat.min (off + cnt) (length x) - off) with (length x - off) by lia.
      destruct (Nat.ltb_spec i (length x - off)); [reflexivity|]. symmetry. apply bv_get_overflow. lia.
    + rewrite piece_input, bv_get_slice.
      replace (Init.Nat.min (off + cnt) (length x) - off) with cnt by lia. rewrite Hic'. reflexivity.
    + cbn [rewire_piece rw_src rw_width]. rewrite bv_get_allX. symmetry. apply bv_get_overflow. lia.
Qed.

Lemma pow2_min_spec k bound : pow2_min k bound = N.to_nat (N.min (N.of_nat bound) (2 ^ N.of_nat k)).
Proof.
  unfold pow2_min. destruct (N.leb_spec (N.of_nat bound) (2 ^ N.of_nat k)) as [L|L].
  - rewrite N.min_l by exact L. lia.
  - rewrite N.min_r by lia. reflexivity.
Qed.

(* x[idx] with a UInt index: the addressed bit; beyond the vector: undefined *)
Theorem dynbit_spec a idx i :
  is_vec (sv_ty a) = true -> sv_ty idx = TU -> 0 < sv_w a -> bv_val (sv_bits idx) = Some i ->
  fe_dynbit a idx = Some (mk_sval TB PNone [bv_get (sv_bits a) (N.to_nat i)]).
Proof.
  intros Va Ti Hw Hi. unfold fe_dynbit. rewrite Ti, Va. cbn [negb].
  replace (sv_w a =? 0) with false by (symmetry; apply Nat.eqb_neq; lia).
  unfold ret. f_equal. f_equal.
  set (n := pow2_min (sv_w idx) (sv_w a)).
  pose proof (bv_val_lt _ _ Hi) as Bi. fold (sv_w idx) in Bi.
  assert (Hn : n = N.to_nat (N.min (N.of_nat (sv_w a)) (2 ^ N.of_nat (sv_w idx)))) by apply pow2_min_spec.
  rewrite (node1_mux n 1 _ i _ Hi).
  - destruct (N.ltb_spec i (N.of_nat n)) as [L|L].
    + rewrite (nth_indep _ [] (node1 (KRewire (extract_ranges (sv_w a) 0 1)) [sv_bits a])) by (rewrite map_length, seq_length; lia).
      rewrite (map_nth (fun i0 => node1 (KRewire (extract_ranges (sv_w a) i0 1)) [sv_bits a]) (seq 0 n) 0).
      rewrite seq_nth by lia. cbn [Nat.add]. unfold sv_w at 1. rewrite extract_ranges_spec, bv_slice_one. reflexivity.
    + unfold all_X. cbn [repeat]. f_equal. symmetry. apply bv_get_overflow. fold (sv_w a). lia.
  - rewrite map_length, seq_length. lia.
  - intros x Hx. apply in_map_iff in Hx as [j [<- _]]. unfold sv_w. rewrite extract_ranges_spec. apply bv_slice_length.
Qed.

(* x(offset, size) with a UInt offset: size bits starting at the offset; beyond the vector: undefined *)
Theorem dynslice_spec sz a off o :
  is_vec (sv_ty a) = true -> sv_ty off = TU -> sv_w off <= 16 -> bv_val (sv_bits off) = Some o ->
  fe_dynslice sz a off = Some (mk_sval (sv_ty a) (sv_pol a) (bv_slice (sv_bits a) (N.to_nat o) sz)).
Proof.
  intros Va To Hw Ho. unfold fe_dynslice. rewrite To, Va. cbn [negb].
  replace (16 <? sv_w off) with false by (symmetry; apply Nat.ltb_ge; exact Hw).
  unfold ret. f_equal. f_equal.
  set (n := N.to_nat (2 ^ N.of_nat (sv_w off))).
  pose proof (bv_val_lt _ _ Ho) as Bo. fold (sv_w off) in Bo.
  rewrite (node1_mux n sz _ o _ Ho).
  - replace (o <? N.of_nat n)%N with true by (symmetry; apply N.ltb_lt; unfold n; lia).
    rewrite (nth_indep _ [] (node1 (KRewire (extract_ranges (sv_w a) 0 sz)) [sv_bits a])) by (rewrite map_length, seq_length; unfold n; lia).
    rewrite (map_nth (fun i0 => node1 (KRewire (extract_ranges (sv_w a) i0 sz)) [sv_bits a]) (seq 0 n) 0).
    rewrite seq_nth by (unfold n; lia). cbn [Nat.add]. unfold sv_w at 1. apply extract_ranges_spec.
  - rewrite map_length, seq_length. lia.
  - intros x Hx. apply in_map_iff in Hx as [j [<- _]]. unfold sv_w. rewrite extract_ranges_spec. apply bv_slice_length.
Qed.

(* ================================================================== *)
(* shr(x, n, arithmetic): arithmetic / logic shift right by a constant, built from slices *)

Theorem shra_spec n a c v (vc : bool) :
  sv_ty a = TU -> sv_ty c = TB -> 0 < n -> n <= sv_w a ->
  bv_val (sv_bits a) = Some v -> sv_bits c = [of_bool vc] ->
  fe_shra n a c =
  Some (mk_sval TU PNone (bv_build (sv_w a) (shift_spec_bit SH_RIGHT (if vc then F_LAST else F_ZERO) (sv_w a) (sv_bits a) (N.of_nat n)))).
Proof.
  intros Ta Tc Hn Hnw Hv Hc. unfold fe_shra. rewrite Ta, Tc.
  assert (Hw : 0 < sv_w a) by lia.
  rewrite fe_msb_spec. replace (sv_w a =? 0) with false by (symmetry; apply Nat.eqb_neq; lia). cbn [bind].
  set (msb := bv_get (sv_bits a) (sv_w a - 1)).
  assert (Hm : exists bm, msb = of_bool bm).
  { exists (N.testbit v (N.of_nat (sv_w a - 1))). unfold msb. apply bv_get_val; [exact Hv | unfold sv_w in *; lia]. }
  destruct Hm as [bm Hm]. rewrite Hm.
  assert (Hand : fe_logic L_AND c (mk_sval TB PNone [of_bool bm]) = Some (mk_sval TB PNone [of_bool (vc && bm)])).
  { destruct c as [tc pc bc]. cbn in Tc, Hc. subst tc bc. destruct vc, bm; reflexivity. }
  rewrite Hand. cbn [bind].
  rewrite fe_ext_to_spec. change (sv_w (mk_sval TB PNone [of_bool (vc && bm)])) with 1.
  replace (n <? 1) with false by (symmetry; apply Nat.ltb_ge; lia).
  cbn [sv_bits].
  assert (Hx : expand PSign [of_bool (vc && bm)] n = Some (repeat (of_bool (vc && bm)) n)).
  { rewrite expand_bits.
    - cbn [length fill_bit Nat.sub bv_get nth app]. f_equal. replace n with (S (n - 1)) at 2 by lia. reflexivity.
    - unfold expand_ok. cbn [length]. destruct (Nat.eq_dec 1 n); [left; assumption | right]. repeat split; try lia; discriminate. }
  rewrite Hx. cbn [bind].
  replace (sv_w a <? n) with false by (symmetry; apply Nat.ltb_ge; exact Hnw).
  rewrite fe_slice_spec. replace (sv_w a <? n + (sv_w a - n)) with false by (symmetry; apply Nat.ltb_ge; lia).
  cbn [bind]. rewrite fe_cat_spec. cbn [rev app map concat sv_bits]. rewrite app_nil_r.
  f_equal. f_equal. apply bv_ext.
  - rewrite app_length, firstn_length, skipn_length, repeat_length, bv_build_length. unfold sv_w in *. lia.
  - intros i Hi. rewrite app_length, firstn_length, skipn_length, repeat_length in Hi. fold (sv_w a) in Hi.
    assert (Hiw : i < sv_w a) by lia.
    rewrite bv_get_app, firstn_length, skipn_length, bv_get_repeat, bv_get_build. fold (sv_w a).
    apply Nat.ltb_lt in Hiw as Hiw'. rewrite Hiw'.
    replace (Init.Nat.min (sv_w a - n) (sv_w a - n)) with (sv_w a - n) by lia.
    unfold shift_spec_bit.
    assert (Hfill : (if vc then shift_fillbit SH_RIGHT F_LAST (sv_w a) (sv_bits a) else shift_fillbit SH_RIGHT F_ZERO (sv_w a) (sv_bits a)) = of_bool (vc && bm)).
    { destruct vc; cbn [shift_fillbit andb].
      - replace (sv_w a =? 0) with false by (symmetry; apply Nat.eqb_neq; lia). exact Hm.
      - reflexivity. }
    destruct (Nat.ltb_spec i (sv_w a - n)) as [L|L]; destruct (N.ltb_spec (N.of_nat i + N.of_nat n) (N.of_nat (sv_w a))) as [L'|L']; try lia.
    + rewrite bv_get_firstn. apply Nat.ltb_lt in L as L2. rewrite L2, bv_get_skipn.
      destruct vc; f_equal; lia.
    + replace (i - (sv_w a - n) <? n) with true by (symmetry; apply Nat.ltb_lt; lia).
      destruct vc; cbn [andb] in *; [exact (eq_sym Hfill) | reflexivity].
Qed.

(* ================================================================== *)
(* Literals                                                              *)

Lemma const_bits_small v w : (v < 2 ^ 64)%N -> const_bits v w = bv_of_N w v.
Proof. intro H. unfold const_bits. rewrite N.mod_small by exact H. reflexivity. Qed.

(* ConstUInt(v, w) *)
Theorem const_spec v w : (v < 2 ^ 64)%N -> bv_val (const_bits v w) = Some (v mod 2 ^ N.of_nat w)%N /\ length (const_bits v w) = w.
Proof. intro H. rewrite const_bits_small by exact H. split; [apply bv_val_of_N | apply bv_of_N_length]. Qed.

Lemma nbits_spec v : (v < 2 ^ N.of_nat (nbits v))%N.
Proof. unfold nbits. rewrite N2Nat.id. apply N.size_gt. Qed.

(* UInt(v): exactly the bits of v (no leading zero), value v *)
Theorem lit_uint_spec v :
  (v < 2 ^ 64)%N -> bv_val (lit_uint v) = Some v /\ length (lit_uint v) = N.to_nat (N.size v).
Proof.
  intro H. unfold lit_uint. rewrite const_bits_small by exact H. split; [|apply bv_of_N_length].
  apply bv_of_N_small_val. apply nbits_spec.
Qed.

Lemma size_le_63 m : (m < 2 ^ 63)%N -> (N.size m <= 63)%N.
Proof.
  intro H. destruct (N.eq_dec m 0) as [->|Hm]; [cbn; lia|].
  rewrite N.size_log2 by exact Hm. assert (N.log2 m < 63)%N by (apply N.log2_lt_pow2; lia). lia.
Qed.

(* SInt(z): the smallest two's complement representation of z, value z *)
Theorem lit_sint_spec z :
  (- 2 ^ 63 <= z < 2 ^ 63)%Z -> bv_sval (lit_sint z) = Some z /\ length (lit_sint z) = lit_sint_width z /\ lit_sint_width z <= 64.
Proof.
  intro Hz. unfold lit_sint.
  set (W := lit_sint_width z).
  assert (HW : 0 < W /\ W <= 64 /\ (- 2 ^ Z.of_nat (W - 1) <= z < 2 ^ Z.of_nat (W - 1))%Z).
  { unfold W, lit_sint_width. destruct (Z.leb_spec 0 z) as [P|P].
    - set (m := Z.to_N z). assert (Em : Z.of_N m = z) by (unfold m; apply Z2N.id; lia).
      assert (Bm : (m < 2 ^ 63)%N) by (apply N2Z.inj_lt; rewrite Em; change (Z.of_N (2 ^ 63)) with (2 ^ 63)%Z; lia).
      pose proof (size_le_63 m Bm) as S63. pose proof (nbits_spec m) as G. unfold nbits in *.
      cbn [Nat.sub]. rewrite Nat.sub_0_r. repeat split; try lia.
      all: try (apply N2Z.inj_lt in G; rewrite of_N_pow2, Em in G; exact G).
    - set (m := Z.to_N (- z - 1)). assert (Em : Z.of_N m = (- z - 1)%Z) by (unfold m; apply Z2N.id; lia).
      assert (Bm : (m < 2 ^ 63)%N) by (apply N2Z.inj_lt; rewrite Em; change (Z.of_N (2 ^ 63)) with (2 ^ 63)%Z; lia).
      pose proof (size_le_63 m Bm) as S63. pose proof (nbits_spec m) as G. unfold nbits in *.
      cbn [Nat.sub]. rewrite Nat.sub_0_r.
      apply N2Z.inj_lt in G. rewrite of_N_pow2, Em in G. pose proof (pow2_Z_pos (N.to_nat (N.size m))).
      repeat split; lia. }
  destruct HW as [W0 [W64 Bz]].
  assert (E : const_bits (Z.to_N (z mod 2 ^ 64)) W = bv_of_Z W z).
  { rewrite const_bits_small.
    - apply bv_of_N_as_Z. rewrite Z2N.id by (apply Z.mod_pos_bound; lia).
      apply (eqm_narrow W 64); [exact W64|]. change (Z.of_nat 64) with 64%Z. apply (eqm_mod 64).
    - apply N2Z.inj_lt. rewrite Z2N.id by (apply Z.mod_pos_bound; lia).
      change (Z.of_N (2 ^ 64)) with (2 ^ 64)%Z. apply Z.mod_pos_bound. lia. }
  rewrite E. split; [apply bv_sval_of_Z; assumption|]. split; [apply bv_of_Z_length | exact W64].
Qed.

(* digit strings: value of the digits, least significant digit first *)
Fixpoint lsd_val (bps : nat) (ds : list N) : N :=
  match ds with [] => 0%N | d :: r => (d + 2 ^ N.of_nat bps * lsd_val bps r)%N end.

Lemma digits_val bps (ds : list N) :
  Forall (fun d => (d < 2 ^ N.of_nat bps)%N) ds ->
  bv_val (concat (map (digit_bits bps) (map (@Some N) ds))) = Some (lsd_val bps ds) /\
  length (concat (map (digit_bits bps) (map (@Some N) ds))) = bps * length ds.
Proof.
  induction 1 as [|d r Hd Hr [IHv IHl]]; [split; [reflexivity | cbn; lia]|].
  cbn [map concat lsd_val digit_bits length]. split.
  - rewrite bv_val_app, bv_of_N_small_val by exact Hd. rewrite IHv, bv_of_N_length. reflexivity.
  - rewrite app_length, bv_of_N_length, IHl. lia.
Qed.

(* "[w]b.." "[w]o.." "[w]x.." with defined digits: the number written, zero padded to the width prefix *)
Theorem lit_str_spec wopt b (ds : list N) :
  Forall (fun d => (d < 2 ^ N.of_nat (base_bps b))%N) ds ->
  let body := base_bps b * length ds in
  lit_str wopt b (map (@Some N) ds) =
  if (wopt =? 0) || (body <=? wopt)
  then Some (bv_of_N (if wopt =? 0 then body else wopt) (lsd_val (base_bps b) (rev ds)))
  else None.
Proof.
  intros Hd body. unfold lit_str. rewrite <- map_rev.
  assert (Hr : Forall (fun d => (d < 2 ^ N.of_nat (base_bps b))%N) (rev ds)) by (apply Forall_rev; exact Hd).
  destruct (digits_val (base_bps b) (rev ds) Hr) as [Hv Hl]. rewrite rev_length in Hl. fold body in Hl.
  set (bits := concat (map (digit_bits (base_bps b)) (map (@Some N) (rev ds)))) in *.
  destruct (Nat.eqb_spec wopt 0) as [W0|W0]; cbn [orb].
  - f_equal. rewrite <- Hl. symmetry. apply bv_of_N_val. exact Hv.
  - rewrite Hl. destruct (Nat.ltb_spec wopt body) as [L|L].
    + replace (body <=? wopt) with false by (symmetry; apply Nat.leb_gt; exact L). reflexivity.
    + replace (body <=? wopt) with true by (symmetry; apply Nat.leb_le; exact L). f_equal.
      apply bv_val_inj with (v := lsd_val (base_bps b) (rev ds)).
      * rewrite bv_val_app, Hv, bv_val_repeat0. f_equal. lia.
      * apply bv_of_N_small_val.
        pose proof (bv_val_lt _ _ Hv) as B. rewrite Hl in B.
        apply N.lt_le_trans with (m := (2 ^ N.of_nat body)%N); [exact B|]. apply N.pow_le_mono_r; [discriminate | lia].
      * rewrite app_length, repeat_length, bv_of_N_length, Hl. lia.
Qed.

(* "[w]d<n>" *)
Theorem lit_dec_spec wopt n :
  lit_dec wopt n =
  if (wopt =? 0) || (nbits n <=? wopt) then Some (bv_of_N (if wopt =? 0 then nbits n else wopt) n) else None.
Proof.
  unfold lit_dec. destruct (Nat.eqb_spec wopt 0) as [W0|W0]; cbn [orb]; [reflexivity|].
  destruct (Nat.ltb_spec wopt (nbits n)) as [L|L].
  - replace (nbits n <=? wopt) with false by (symmetry; apply Nat.leb_gt; exact L). reflexivity.
  - replace (nbits n <=? wopt) with true by (symmetry; apply Nat.leb_le; exact L). reflexivity.
Qed.

Theorem lit_dec_value wopt n x : lit_dec wopt n = Some x -> bv_val x = Some n.
Proof.
  rewrite lit_dec_spec. destruct ((wopt =? 0) || (nbits n <=? wopt)) eqn:E; [|discriminate].
  intro H. injection H as <-. apply bv_of_N_small_val.
  pose proof (nbits_spec n) as B.
  destruct (Nat.eqb_spec wopt 0) as [W0|W0]; [exact B|].
  cbn [orb] in E. apply Nat.leb_le in E.
  apply N.lt_le_trans with (m := (2 ^ N.of_nat (nbits n))%N); [exact B|]. apply N.pow_le_mono_r; [discriminate | lia].
Qed.

(* ================================================================== *)
(* SInt >> n as a number: floor division by 2^n (arithmetic shift)       *)

Lemma bv_get_of_Z w z i : i < w -> bv_get (bv_of_Z w z) i = of_bool (Z.testbit z (Z.of_nat i)).
Proof.
  intro Hi. unfold bv_of_Z. rewrite bv_get_of_N. apply Nat.ltb_lt in Hi as Hi'. rewrite Hi'. f_equal.
  pose proof (Z.mod_pos_bound z (2 ^ Z.of_nat w) (pow2_Z_pos w)) as B.
  rewrite <- (Z.mod_pow2_bits_low z (Z.of_nat w) (Z.of_nat i)) by lia.
  set (m := (z mod 2 ^ Z.of_nat w)%Z) in *.
  transitivity (Z.testbit (Z.of_N (Z.to_N m)) (Z.of_N (N.of_nat i))).
  - symmetry. apply Z.testbit_of_N.
  - f_equal; [apply Z2N.id; lia | lia].
Qed.

Lemma sval_low_bits x v j :
  bv_val x = Some v -> j < length x -> Z.testbit (sint (length x) v) (Z.of_nat j) = N.testbit v (N.of_nat j).
Proof.
  intros Hv Hj. pose proof (bv_val_lt x v Hv) as B.
  rewrite <- (Z.mod_pow2_bits_low (sint (length x) v) (Z.of_nat (length x)) (Z.of_nat j)) by lia.
  rewrite sint_mod by exact B. replace (Z.of_nat j) with (Z.of_N (N.of_nat j)) by lia. apply Z.testbit_of_N.
Qed.

Lemma sval_high_bits w s j :
  0 < w -> (- 2 ^ Z.of_nat (w - 1) <= s < 2 ^ Z.of_nat (w - 1))%Z -> w - 1 <= j ->
  Z.testbit s (Z.of_nat j) = (s <? 0)%Z.
Proof.
  intros Hw Hs Hj.
  assert (M : (2 ^ Z.of_nat (w - 1) <= 2 ^ Z.of_nat j)%Z) by (apply pow2_Z_mono; lia).
  destruct (Z.ltb_spec s 0) as [Neg|Pos].
  - destruct (Z.eq_dec s (-1)) as [->|E]; [apply Z.bits_m1; lia|].
    apply Z.bits_above_log2_neg; [exact Neg|]. apply Z.log2_lt_pow2; lia.
  - destruct (Z.eq_dec s 0) as [->|E]; [apply Z.bits_0|].
    apply Z.bits_above_log2; [lia|]. apply Z.log2_lt_pow2; lia.
Qed.

Lemma sshr_bits_num x s a :
  bv_sval x = Some s ->
  bv_build (length x) (shift_spec_bit SH_RIGHT F_LAST (length x) x a) = bv_of_Z (length x) (s / 2 ^ Z.of_N a)%Z.
Proof.
  intro Hs. destruct (bv_sval_val _ _ Hs) as [v [Hv Es]].
  destruct (Nat.eq_dec (length x) 0) as [W0|W0].
  - rewrite W0. reflexivity.
  - assert (Hw : 0 < length x) by lia.
    pose proof (sint_bounds _ v Hw (bv_val_lt _ _ Hv)) as Bs. rewrite <- Es in Bs.
    apply bv_ext.
    + rewrite bv_build_length, bv_of_Z_length. reflexivity.
    + intros i Hi. rewrite bv_build_length in Hi. rewrite bv_get_build, bv_get_of_Z by exact Hi.
      apply Nat.ltb_lt in Hi as Hi'. rewrite Hi'.
      rewrite Z.div_pow2_bits by lia.
      unfold shift_spec_bit. cbn [shift_fillbit].
      replace (length x =? 0) with false by (symmetry; apply Nat.eqb_neq; exact W0).
      destruct (N.ltb_spec (N.of_nat i + a) (N.of_nat (length x))) as [L|L].
      * rewrite (bv_get_val x v) by (try exact Hv; lia). f_equal.
        replace (Z.of_nat i + Z.of_N a)%Z with (Z.of_nat (i + N.to_nat a)) by lia.
        rewrite Es, sval_low_bits by (try exact Hv; lia). reflexivity.
      * rewrite (msb_bool x s Hw Hs). f_equal. symmetry.
        replace (Z.of_nat i + Z.of_N a)%Z with (Z.of_nat (i + N.to_nat a)) by lia.
        apply (sval_high_bits (length x)); [exact Hw | exact Bs | lia].
Qed.

(* SInt x >> n on a defined operand: floor(x / 2^n), for every n *)
Theorem shr_sint_num n a s :
  sv_ty a = TS -> bv_sval (sv_bits a) = Some s ->
  fe_shr n a = Some (mk_sval TS PNone (bv_of_Z (sv_w a) (s / 2 ^ Z.of_nat n)%Z)).
Proof.
  intros Ta Hs. rewrite fe_shr_spec by (rewrite Ta; reflexivity). rewrite Ta.
  unfold sv_w. rewrite (sshr_bits_num _ s (N.of_nat n) Hs). rewrite nat_N_Z. reflexivity.
Qed.
