(* Four-state bits as the reference simulator sees them (DefaultConfig: VALUE/DEFINED
   planes collapsed to 0,1,X) and the two orders used throughout (DESIGN.md 3.1). *)
From Coq Require Export List Bool Arith ZArith NArith Lia.
Import ListNotations.

Inductive tbit := B0 | B1 | BX.

Definition tbit_eqb (a b : tbit) : bool :=
  match a, b with B0, B0 | B1, B1 | BX, BX => true | _, _ => false end.

Lemma tbit_eqb_eq a b : tbit_eqb a b = true <-> a = b.
Proof. destruct a, b; simpl; split; intro H; try reflexivity; discriminate. Qed.

Definition tbit_eq_dec (a b : tbit) : {a = b} + {a <> b}.
Proof. decide equality. Defined.

(* LSB first *)
Definition bv := list tbit.

Definition is_def (a : tbit) : bool := match a with BX => false | _ => true end.
Definition bit_val (a : tbit) : bool := match a with B1 => true | _ => false end.
Definition of_bool (b : bool) : tbit := if b then B1 else B0.
(* (value plane, defined plane) -> tbit ; a cleared DEFINED bit hides the value *)
Definition of_planes (v d : bool) : tbit := if d then of_bool v else BX.

(* a [= b : b is at least as defined as a and agrees where a is defined *)
Definition le_def (a b : tbit) : Prop := a = BX \/ a = b.
(* a ~ b : never contradict *)
Definition compat (a b : tbit) : Prop := a = BX \/ b = BX \/ a = b.

Definition le_defb (a b : tbit) : bool := match a with BX => true | _ => tbit_eqb a b end.
Definition compatb (a b : tbit) : bool :=
  match a, b with BX, _ | _, BX => true | _, _ => tbit_eqb a b end.

Lemma le_defb_spec a b : le_defb a b = true <-> le_def a b.
Proof. destruct a, b; unfold le_def; simpl; split; intro H; auto; try discriminate;
  destruct H as [H|H]; discriminate. Qed.
Lemma compatb_spec a b : compatb a b = true <-> compat a b.
Proof. destruct a, b; unfold compat; simpl; split; intro H; auto; try discriminate;
  destruct H as [H|[H|H]]; discriminate. Qed.

Lemma le_def_refl a : le_def a a.  Proof. right; reflexivity. Qed.
Lemma le_def_trans a b c : le_def a b -> le_def b c -> le_def a c.
Proof. unfold le_def; intros [-> | ->] H; auto. Qed.
Lemma le_def_antisym a b : le_def a b -> le_def b a -> a = b.
Proof. unfold le_def; intros [-> | ->] [H|H]; auto. Qed.
Lemma compat_refl a : compat a a.  Proof. right; right; reflexivity. Qed.
Lemma compat_sym a b : compat a b -> compat b a.
Proof. unfold compat; intros [H|[H|H]]; auto. Qed.
Lemma le_def_compat a b : le_def a b -> compat a b.
Proof. unfold le_def, compat; intros [H|H]; auto. Qed.
Lemma le_def_common_compat a b c : le_def a c -> le_def b c -> compat a b.
Proof. unfold le_def, compat; intros [-> | ->] [-> | ->]; auto. Qed.
Lemma compat_le_l a a' b : le_def a' a -> compat a b -> compat a' b.
Proof. unfold le_def, compat; intros [-> | ->] H; auto. Qed.
Lemma compat_defined_eq a b : compat a b -> is_def a = true -> is_def b = true -> a = b.
Proof. destruct a, b; unfold compat; simpl; intros [H|[H|H]] Ha Hb; congruence. Qed.
Lemma le_def_defined_eq a b : le_def a b -> is_def a = true -> a = b.
Proof. destruct a; unfold le_def; simpl; intros [H|H] Ha; congruence. Qed.

(* pointwise lifting *)
Definition bv_le (x y : bv) : Prop := Forall2 le_def x y.
Definition bv_compat (x y : bv) : Prop := Forall2 compat x y.

Lemma bv_le_refl x : bv_le x x.
Proof. induction x; constructor; auto using le_def_refl. Qed.
Lemma bv_compat_refl x : bv_compat x x.
Proof. induction x; constructor; auto using compat_refl. Qed.
Lemma bv_le_trans x y z : bv_le x y -> bv_le y z -> bv_le x z.
Proof. intros H; revert z; induction H as [|a b x y Hab Hxy IH]; intros z Hz; inversion Hz; subst;
  constructor; [eapply le_def_trans; eassumption | apply IH; assumption]. Qed.
Lemma bv_compat_sym x y : bv_compat x y -> bv_compat y x.
Proof. induction 1; constructor; auto using compat_sym. Qed.
Lemma bv_le_compat x y : bv_le x y -> bv_compat x y.
Proof. induction 1; constructor; auto using le_def_compat. Qed.
Lemma bv_le_length x y : bv_le x y -> length x = length y.
Proof. induction 1; simpl; auto. Qed.
Lemma bv_compat_length x y : bv_compat x y -> length x = length y.
Proof. induction 1; simpl; auto. Qed.

Definition all_def (x : bv) : bool := forallb is_def x.
Definition all_X (n : nat) : bv := repeat BX n.

Lemma all_X_le n y : length y = n -> bv_le (all_X n) y.
Proof. revert n; induction y; intros [|n] H; simpl in *; try discriminate; constructor;
  [left; reflexivity | apply IHy; lia]. Qed.

Lemma bv_le_all_def_eq x y : bv_le x y -> all_def x = true -> x = y.
Proof. induction 1 as [|a b x y Hab Hxy IH]; simpl; intro Hd; auto.
  apply andb_prop in Hd as [Ha Hx]. f_equal; auto using le_def_defined_eq. Qed.

(* unsigned value; None if any bit undefined *)
Fixpoint bv_val (x : bv) : option N :=
  match x with
  | [] => Some 0%N
  | b :: r => match b, bv_val r with
              | BX, _ | _, None => None
              | B0, Some v => Some (2 * v)%N
              | B1, Some v => Some (2 * v + 1)%N
              end
  end.

Fixpoint bv_of_N (w : nat) (n : N) : bv :=
  match w with
  | O => []
  | S w' => of_bool (N.odd n) :: bv_of_N w' (N.div2 n)
  end.

Lemma bv_of_N_length w n : length (bv_of_N w n) = w.
Proof. revert n; induction w; simpl; auto. Qed.

Lemma bv_of_N_all_def w n : all_def (bv_of_N w n) = true.
Proof. revert n; induction w; simpl; intro n; auto. rewrite IHw. destruct (N.odd n); reflexivity. Qed.

Lemma bv_val_of_N w n : bv_val (bv_of_N w n) = Some (n mod 2 ^ N.of_nat w)%N.
Proof.
  revert n; induction w as [|w IH]; intro n.
  - simpl. rewrite N.mod_1_r. reflexivity.
  - cbn [bv_of_N bv_val]. rewrite IH.
    replace (N.of_nat (S w)) with (N.succ (N.of_nat w)) by lia.
    rewrite N.pow_succ_r'.
    assert (Hn : n = (2 * N.div2 n + N.b2n (N.odd n))%N) by apply N.div2_odd.
    set (q := N.div2 n) in *. set (m := (2 ^ N.of_nat w)%N).
    assert (Hm : m <> 0%N) by (apply N.pow_nonzero; discriminate).
    assert (Hq : (q = m * (q / m) + q mod m)%N) by (apply N.div_mod; exact Hm).
    assert (Hlt : (q mod m < m)%N) by (apply N.mod_lt; exact Hm).
    destruct (N.odd n); simpl N.b2n in Hn; simpl of_bool; cbv iota; f_equal;
      apply N.mod_unique with (q := (q / m)%N); lia.
Qed.
