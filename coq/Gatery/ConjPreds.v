(* C14 — soundness of the Conjunction predicates and of build (ConjDefs.v). *)
From Coq Require Import List Bool Arith Lia Permutation.
From Gatery Require Import Bits ConjDefs ConjProofs.
Import ListNotations.

Section Preds.
Variable vals : list bool.
Variable u : bool.

Notation litv := (lit vals u).
Definition lits_true (l : list term) : Prop := forallb litv l = true.
Definition keys (l : list term) : list nat := map t_driver l.

Lemma term_find_NoDup l t : NoDup (keys l) -> In t l -> term_find l (t_driver t) = Some t.
Proof.
  induction l as [|x l IH]; intros Hnd Hin; [destruct Hin|].
  simpl in Hnd. inversion Hnd as [|? ? Hni Hnd']; subst. simpl.
  destruct Hin as [->|Hin]; [rewrite Nat.eqb_refl; reflexivity|].
  destruct (t_driver x =? t_driver t) eqn:E; [|auto].
  apply Nat.eqb_eq in E. exfalso. apply Hni. rewrite E. apply in_map; auto.
Qed.

Lemma same_in_lit other t : same_in other t = true -> lits_true other -> litv t = true.
Proof.
  unfold same_in, lits_true. destruct (term_find other (t_driver t)) as [t'|] eqn:E; [|discriminate].
  intros Hn Hl. destruct (term_find_In _ _ _ E) as [Hin Hd].
  rewrite forallb_forall in Hl. assert (H := Hl t' Hin). unfold lit in *.
  rewrite Hd in H. apply Bool.eqb_prop in Hn. rewrite <- Hn. exact H.
Qed.

Lemma opposite_in_lit other t : opposite_in other t = true -> lits_true other -> litv t = false.
Proof.
  unfold opposite_in, lits_true. destruct (term_find other (t_driver t)) as [t'|] eqn:E; [|discriminate].
  intros Hn Hl. destruct (term_find_In _ _ _ E) as [Hin Hd].
  rewrite forallb_forall in Hl. assert (H := Hl t' Hin). unfold lit in *.
  rewrite Hd in H. destruct (t_neg t'), (t_neg t), (nth (t_driver t) vals u); simpl in *; congruence.
Qed.

Lemma all_same_lits a b : forallb (same_in b) a = true -> lits_true b -> lits_true a.
Proof.
  intros Hs Hb. unfold lits_true. apply forallb_forall. intros t Hin.
  rewrite forallb_forall in Hs. eapply same_in_lit; eauto.
Qed.

Lemma all_same_sym a b :
  NoDup (keys a) -> NoDup (keys b) -> length a = length b ->
  forallb (same_in b) a = true -> forallb (same_in a) b = true.
Proof.
  intros Ha Hb Hlen Hs. rewrite forallb_forall in Hs. apply forallb_forall. intros t' Hin'.
  assert (Hincl : incl (keys a) (keys b)).
  { intros k Hk. apply in_map_iff in Hk as [t [<- Hin]]. specialize (Hs t Hin).
    unfold same_in in Hs. destruct (term_find b (t_driver t)) as [t2|] eqn:E; [|discriminate].
    destruct (term_find_In _ _ _ E) as [Hin2 Hd]. rewrite <- Hd. apply in_map; auto. }
  assert (Hincl' : incl (keys b) (keys a)).
  { apply NoDup_length_incl; auto. unfold keys. rewrite !map_length. lia. }
  assert (Hk : In (t_driver t') (keys a)) by (apply Hincl'; apply in_map; auto).
  apply in_map_iff in Hk as [t [Hd Hin]].
  specialize (Hs t Hin). unfold same_in in Hs. rewrite Hd in Hs.
  rewrite (term_find_NoDup b t' Hb Hin') in Hs.
  unfold same_in. rewrite <- Hd. rewrite (term_find_NoDup a t Ha Hin).
  apply Bool.eqb_prop in Hs. rewrite Hs. apply Bool.eqb_reflx.
Qed.

Lemma bool_eq_iff (x y : bool) : (x = true <-> y = true) -> x = y.
Proof. destruct x, y; intros [H1 H2]; auto; try (symmetry; apply H1; reflexivity); try (apply H2; reflexivity). Qed.

Theorem isEqualTo_sound a b :
  NoDup (keys (c_terms a)) -> NoDup (keys (c_terms b)) ->
  isEqualTo a b = true -> conj_val vals u a = conj_val vals u b.
Proof.
  intros Ha Hb. unfold isEqualTo, conj_val.
  destruct (c_undef a || c_undef b); [discriminate|].
  destruct (c_contra a) eqn:Eca, (c_contra b) eqn:Ecb; simpl; try discriminate; auto.
  destruct (length (c_terms a) =? length (c_terms b)) eqn:El; simpl; [|discriminate].
  apply Nat.eqb_eq in El. intro Hs.
  apply bool_eq_iff. split; intro H.
  - apply (all_same_lits (c_terms b) (c_terms a)); [apply all_same_sym; auto|exact H].
  - apply (all_same_lits (c_terms a) (c_terms b)); auto.
Qed.

Theorem isNegationOf_sound a b :
  isNegationOf a b = true -> conj_val vals u a = negb (conj_val vals u b).
Proof.
  unfold isNegationOf, conj_val.
  destruct (c_undef a || c_undef b); [discriminate|].
  destruct (c_contra a) eqn:Eca.
  - destruct (c_contra b); simpl; [discriminate|]. intro H. apply Nat.eqb_eq in H.
    destruct (c_terms b); [reflexivity|discriminate].
  - destruct (c_contra b) eqn:Ecb.
    + simpl. intro H. apply Nat.eqb_eq in H. destruct (c_terms a); [reflexivity|discriminate].
    + simpl. destruct (length (c_terms a) =? length (c_terms b)) eqn:El; simpl; [|discriminate].
      destruct (length (c_terms a) =? 1) eqn:E1; simpl; [|discriminate].
      apply Nat.eqb_eq in El, E1. intro H. apply andb_prop in H as [H _].
      destruct (c_terms a) as [|t [|? ?]]; try discriminate.
      destruct (c_terms b) as [|t' [|? ?]]; try discriminate.
      simpl in *. rewrite andb_true_r in *. unfold opposite_in in H. simpl in H.
      destruct (t_driver t' =? t_driver t) eqn:E; [|discriminate]. apply Nat.eqb_eq in E.
      unfold lit. rewrite E. destruct (t_neg t'), (t_neg t), (nth (t_driver t) vals u); simpl in *; congruence.
Qed.

Theorem isSubsetOf_sound a b :
  isSubsetOf a b = true -> conj_val vals u b = true -> conj_val vals u a = true.
Proof.
  unfold isSubsetOf, conj_val.
  destruct (c_undef a || c_undef b); [discriminate|].
  destruct (c_contra a), (c_contra b); simpl; try discriminate.
  intros Hs Hb. eapply all_same_lits; eauto.
Qed.

Theorem cannotBothBeTrue_sound a b :
  cannotBothBeTrue a b = true -> conj_val vals u a && conj_val vals u b = false.
Proof.
  unfold cannotBothBeTrue, conj_val.
  destruct (c_undef a || c_undef b); [discriminate|].
  destruct (c_contra a), (c_contra b); simpl; auto using andb_false_r.
  intro H. apply existsb_exists in H as [t [Hin Ho]].
  destruct (forallb litv (c_terms b)) eqn:Eb; [|apply andb_false_r].
  rewrite andb_true_r. apply not_true_is_false. intro Ha.
  rewrite forallb_forall in Ha. specialize (Ha t Hin).
  rewrite (opposite_in_lit _ _ Ho Eb) in Ha. discriminate.
Qed.

(* intersectTermsWith keeps only literals common to both: implied by either side *)
Theorem intersect_sound a b :
  (lits_true (c_terms a) -> lits_true (c_terms (intersectTermsWith a b))) /\
  (lits_true (c_terms b) -> lits_true (c_terms (intersectTermsWith a b))).
Proof.
  unfold intersectTermsWith, lits_true; simpl. split; intro H; apply forallb_forall; intros t Hin;
    apply filter_In in Hin as [Hin Hs].
  - rewrite forallb_forall in H; auto.
  - eapply same_in_lit; eauto.
Qed.

(* removeTerms splits the conjunction: a = (a \ b) /\ b *)
Theorem removeTerms_sound a b :
  NoDup (keys (c_terms a)) ->
  removeTerms_pre a b = true ->
  forallb litv (c_terms a) = forallb litv (c_terms (removeTerms a b)) && forallb litv (c_terms b).
Proof.
  unfold removeTerms_pre, removeTerms; simpl. intros Hnd Hpre.
  apply bool_eq_iff. split; intro H.
  - apply andb_true_intro. split.
    + apply forallb_forall. intros t Hin. apply filter_In in Hin as [Hin _].
      rewrite forallb_forall in H; auto.
    + eapply all_same_lits; eauto.
  - apply andb_prop in H as [H1 H2]. apply forallb_forall. intros t Hin.
    destruct (term_find (c_terms b) (t_driver t)) as [t'|] eqn:E.
    + destruct (term_find_In _ _ _ E) as [Hin' Hd].
      rewrite forallb_forall in Hpre. assert (Hs := Hpre t' Hin').
      rewrite forallb_forall in H2. assert (Hl := H2 t' Hin').
      unfold same_in in Hs. rewrite Hd in Hs. rewrite (term_find_NoDup _ t Hnd Hin) in Hs.
      apply Bool.eqb_prop in Hs. unfold lit in *. rewrite Hd in Hl. rewrite Hs. exact Hl.
    + rewrite forallb_forall in H1. apply H1. apply filter_In. split; auto. rewrite E. reflexivity.
Qed.

End Preds.
