(* C19 -- invariants of the small-step semantics (SimProcSteps.v), part 1:
   what each kind of step changes in the bookkeeping; the event queue stays sorted; events lie in the
   future; insertion ids are fresh and distinct.  Consequence: same-instant FIFO for queued resumptions. *)
From Coq Require Import List NArith ZArith QArith Qreduction Bool Lia Sorted Permutation.
From Gatery Require Import SimProcDefs SimProcOrder SimProcSteps.
Import ListNotations.
Local Close Scope Q_scope.

(* ------------------------------------------------------------------------- *)
(** * Bookkeeping effect of one process step *)

Definition waitfor_event (pid : nat) (q : uq) (s : state) : event :=
  let t := tadd (s_now s) (uQ q) in
  resume_event t (if Qeq_bool t (s_now s) && phase_eqb (s_phase s) AFTER then N.succ (s_mt s) else 0%N)
               AFTER pid (s_nextid s) (WkFor q) (mk_ghost (s_now s) (s_nextid s) [] []).

Definition waitx_event (cfg : config) (pid : nat) (i : nat) (ph : phase) (s : state) : event :=
  resume_event (next_tick (extra_freq cfg i) (s_now s)) 0 ph pid (s_nextid s) (WkX i ph) (mk_ghost (s_now s) (s_nextid s) [] []).

Definition new_awaiter (pid : nat) (c : clk) (ph : phase) (s : state) : awaiter :=
  mk_awaiter (s_nextid s) ph pid (WkClk c ph) (s_now s).
Definition new_watch (pid : nat) (m : list sig) (s : state) : watch :=
  mk_watch pid m (map (fun x => circ_read x (s_circ s)) m) (s_nextid s) (s_now s).

Inductive bk_change (cfg : config) (s s' : state) : Prop :=
| BK_none :
    s_queue s' = s_queue s -> s_await_a s' = s_await_a s -> s_await_b s' = s_await_b s ->
    s_watches s' = s_watches s -> s_nextid s' = s_nextid s -> s_commitq s' = s_commitq s -> bk_change cfg s s'
| BK_wfor : forall pid q,
    s_queue s' = q_insert (waitfor_event pid q s) (s_queue s) -> s_await_a s' = s_await_a s -> s_await_b s' = s_await_b s ->
    s_watches s' = s_watches s -> s_nextid s' = N.succ (s_nextid s) -> s_commitq s' = s_commitq s -> bk_change cfg s s'
| BK_wclk : forall pid c ph,
    s_queue s' = s_queue s ->
    get_await (eff_clk cfg c) s' = get_await (eff_clk cfg c) s ++ [new_awaiter pid c ph s] ->
    (forall k, k <> eff_clk cfg c -> get_await k s' = get_await k s) ->
    s_watches s' = s_watches s -> s_nextid s' = N.succ (s_nextid s) -> s_commitq s' = s_commitq s -> bk_change cfg s s'
| BK_wchange : forall pid m,
    s_queue s' = s_queue s -> s_await_a s' = s_await_a s -> s_await_b s' = s_await_b s ->
    s_watches s' = s_watches s ++ [new_watch pid m s] -> s_nextid s' = N.succ (s_nextid s) ->
    s_commitq s' = s_commitq s -> bk_change cfg s s'
| BK_wstable : forall pid,
    s_queue s' = s_queue s -> s_await_a s' = s_await_a s -> s_await_b s' = s_await_b s ->
    s_watches s' = s_watches s -> s_nextid s' = s_nextid s -> s_commitq s' = s_commitq s ++ [(pid, s_now s)] ->
    bk_change cfg s s'
| BK_wx : forall pid i ph,
    s_queue s' = q_insert (waitx_event cfg pid i ph s) (s_queue s) -> s_await_a s' = s_await_a s -> s_await_b s' = s_await_b s ->
    s_watches s' = s_watches s -> s_nextid s' = N.succ (s_nextid s) -> s_commitq s' = s_commitq s -> bk_change cfg s s'.

(* fields that the bookkeeping-neutral operations leave alone *)
Definition same_bk (s s' : state) : Prop :=
  s_queue s' = s_queue s /\ s_await_a s' = s_await_a s /\ s_await_b s' = s_await_b s /\
  s_watches s' = s_watches s /\ s_nextid s' = s_nextid s /\ s_commitq s' = s_commitq s /\
  s_tb s' = s_tb s /\ s_ties s' = s_ties s.
Lemma same_bk_refl : forall s, same_bk s s. Proof. repeat split. Qed.
Lemma same_bk_trans : forall a b c, same_bk a b -> same_bk b c -> same_bk a c.
Proof.
  unfold same_bk. intros a b c (A1 & A2 & A3 & A4 & A5 & A6 & A7 & A8) (B1 & B2 & B3 & B4 & B5 & B6 & B7 & B8).
  repeat split; congruence.
Qed.
Lemma add_log_bk : forall e s, same_bk s (add_log e s).
Proof. intros e s. unfold add_log. destruct (s_err s); repeat split. Qed.
Lemma add_log_circ : forall e s, s_circ (add_log e s) = s_circ s.
Proof. intros e s. unfold add_log. destruct (s_err s); reflexivity. Qed.
Lemma add_log_procs : forall e s, s_procs (add_log e s) = s_procs s.
Proof. intros e s. unfold add_log. destruct (s_err s); reflexivity. Qed.
Lemma log_proc_bk : forall pid a s, same_bk s (log_proc pid a s).
Proof. intros. apply add_log_bk. Qed.
Lemma cont_states_bk : forall pid s1 s', cont_states pid s1 s' -> same_bk s1 s'.
Proof. intros pid s1 s' [->| ->]; repeat split. Qed.
Lemma fold_enqueue_bk : forall (js : list (nat * nat * Q)) s,
  same_bk s (fold_left (fun st j => match j with (jp, k, t0) => enqueue (TWake jp (WkJoin k) (ghost0 t0)) st end) js s).
Proof.
  induction js as [|[[jp k] t0] r IH]; intro s; simpl; [apply same_bk_refl|].
  eapply same_bk_trans; [|apply IH]. repeat split.
Qed.

Lemma same_bk_none : forall cfg s s', same_bk s s' -> bk_change cfg s s'.
Proof. intros cfg s s' (A1 & A2 & A3 & A4 & A5 & A6 & _). apply BK_none; assumption. Qed.

Lemma frame_step_bk : forall cfg f s s', frame_step cfg f s s' -> bk_change cfg s s'.
Proof.
  intros cfg f s s' F. inversion F; subst; clear F.
  - apply same_bk_none. apply log_proc_bk.
  - apply same_bk_none. eapply cont_states_bk; eassumption.
  - apply same_bk_none. unfold finish_proc.
    eapply same_bk_trans; [apply (log_proc_bk pid AEnd s)|].
    eapply same_bk_trans; [|apply fold_enqueue_bk]. repeat split.
  - apply same_bk_none. eapply same_bk_trans; [|eapply cont_states_bk; eassumption].
    cbv zeta. eapply same_bk_trans; [|apply log_proc_bk]. repeat split.
  - apply same_bk_none.
    eapply same_bk_trans with (b := log_proc pid (AWrite p v) (upd_proc pid (with_script rest) s)).
    + eapply same_bk_trans; [|apply log_proc_bk]. repeat split.
    + eapply same_bk_trans; [apply add_log_bk | repeat split].
  - apply same_bk_none. eapply same_bk_trans; [|eapply cont_states_bk; eassumption].
    cbv zeta. eapply same_bk_trans with (b := log_proc pid (AWrite p v) (upd_proc pid (with_script rest) s)).
    + eapply same_bk_trans; [|apply log_proc_bk]. repeat split.
    + repeat split.
  - apply same_bk_none. cbv zeta.
    eapply same_bk_trans with (b := log_proc pid (AFork sid (length (s_procs (upd_proc pid (with_script rest) s)))) (upd_proc pid (with_script rest) s)).
    + eapply same_bk_trans; [|apply log_proc_bk]. repeat split.
    + repeat split.
  - apply same_bk_none. eapply same_bk_trans; [|eapply cont_states_bk; eassumption].
    eapply same_bk_trans; [|apply log_proc_bk]. repeat split.
  - apply same_bk_none. cbv zeta.
    eapply same_bk_trans with (b := log_proc pid (AJoinWait k) (upd_proc pid (with_script rest) s)).
    + eapply same_bk_trans; [|apply log_proc_bk]. repeat split.
    + repeat split.
  - (* WaitClock *)
    cbv zeta. set (s0 := upd_proc pid (with_script rest) s).
    set (s1 := log_proc pid (ASusp (WkClk c ph) (s_nextid s0)) s0).
    assert (B : same_bk s s1) by (eapply same_bk_trans; [|apply log_proc_bk]; repeat split).
    assert (C : same_ctl s s1) by (eapply same_ctl_trans; [|apply log_proc_ctl]; repeat split).
    destruct B as (B1 & B2 & B3 & B4 & B5 & B6 & _). destruct C as (C1 & _).
    assert (NA : new_awaiter pid c ph s1 = new_awaiter pid c ph s) by (unfold new_awaiter; congruence).
    apply (BK_wclk cfg s _ pid c ph); unfold suspend_waitclk, fresh_id; cbv zeta.
    + destruct (eff_clk cfg c); simpl; exact B1.
    + fold (new_awaiter pid c ph s1). rewrite NA. destruct (eff_clk cfg c); cbn [get_await set_await s_await_a s_await_b set_nextid];
        rewrite ?B2, ?B3; reflexivity.
    + intros k Hk. destruct (eff_clk cfg c), k; try congruence; cbn [get_await set_await s_await_a s_await_b set_nextid]; assumption.
    + destruct (eff_clk cfg c); simpl; exact B4.
    + destruct (eff_clk cfg c); simpl; congruence.
    + destruct (eff_clk cfg c); simpl; exact B6.
  - (* WaitFor *)
    cbv zeta. set (s0 := upd_proc pid (with_script rest) s).
    set (s1 := log_proc pid (ASusp (WkFor q) (s_nextid s0)) s0).
    assert (B : same_bk s s1) by (eapply same_bk_trans; [|apply log_proc_bk]; repeat split).
    assert (C : same_ctl s s1) by (eapply same_ctl_trans; [|apply log_proc_ctl]; repeat split).
    destruct B as (B1 & B2 & B3 & B4 & B5 & B6 & _). destruct C as (C1 & C2 & C3 & _).
    apply (BK_wfor cfg s _ pid q); unfold suspend_waitfor, fresh_id; cbv zeta; simpl; try assumption; try congruence.
    unfold waitfor_event. rewrite B1, B5, C1, C2, C3. reflexivity.
  - (* WaitChange *)
    cbv zeta. set (s0 := upd_proc pid (with_script rest) s).
    set (s1 := log_watch pid m (log_proc pid (ASusp (WkChange m) (s_nextid s0)) s0)).
    assert (B : same_bk s s1).
    { unfold s1, log_watch. eapply same_bk_trans; [|apply log_proc_bk]. eapply same_bk_trans; [|apply log_proc_bk]. repeat split. }
    assert (C : same_ctl s s1).
    { unfold s1, log_watch. eapply same_ctl_trans; [|apply log_proc_ctl]. eapply same_ctl_trans; [|apply log_proc_ctl]. repeat split. }
    assert (Ci : s_circ s1 = s_circ s).
    { unfold s1, log_watch, log_proc. rewrite !add_log_circ. reflexivity. }
    destruct B as (B1 & B2 & B3 & B4 & B5 & B6 & _). destruct C as (C1 & _).
    apply (BK_wchange cfg s _ pid m); unfold suspend_waitchange, fresh_id; cbv zeta; simpl; try assumption; try congruence.
    unfold new_watch. rewrite B4, B5, C1, Ci. reflexivity.
  - (* WaitStable *)
    cbv zeta. set (s0 := upd_proc pid (with_script rest) s).
    set (s1 := log_proc pid (ASusp WkStable 0) s0).
    assert (B : same_bk s s1) by (eapply same_bk_trans; [|apply log_proc_bk]; repeat split).
    assert (C : same_ctl s s1) by (eapply same_ctl_trans; [|apply log_proc_ctl]; repeat split).
    destruct B as (B1 & B2 & B3 & B4 & B5 & B6 & _). destruct C as (C1 & _).
    apply (BK_wstable cfg s _ pid); unfold suspend_waitstable; simpl; try assumption. congruence.
  - (* WaitClock on a clock without clocked nodes *)
    cbv zeta. set (s0 := upd_proc pid (with_script rest) s).
    set (s1 := log_proc pid (ASusp (WkX i ph) (s_nextid s0)) s0).
    assert (B : same_bk s s1) by (eapply same_bk_trans; [|apply log_proc_bk]; repeat split).
    assert (C : same_ctl s s1) by (eapply same_ctl_trans; [|apply log_proc_ctl]; repeat split).
    destruct B as (B1 & B2 & B3 & B4 & B5 & B6 & _). destruct C as (C1 & C2 & C3 & _).
    apply (BK_wx cfg s _ pid i ph); unfold suspend_waitx, fresh_id; cbv zeta; simpl; try assumption; try congruence.
    unfold waitx_event. rewrite B1, B5, C1. reflexivity.
Qed.

Lemma log_wake_bk : forall pid w g s, same_bk s (log_wake pid w g s).
Proof.
  intros. unfold log_wake, log_watch. destruct w; try apply log_proc_bk.
  eapply same_bk_trans; apply log_proc_bk.
Qed.

Lemma task_head_bk : forall t s, same_bk s (snd (task_head t s)).
Proof.
  intros t s. destruct t as [pid|pid w g|pid n]; simpl.
  - apply same_bk_refl.
  - destruct (p_fiber (get_proc pid (log_wake pid w g s))); simpl;
      [eapply same_bk_trans; [apply log_wake_bk | repeat split] | apply log_wake_bk].
  - destruct n; simpl; [apply same_bk_refl|].
    destruct (p_script (get_proc pid s)); simpl; [apply same_bk_refl | repeat split].
Qed.

(* ------------------------------------------------------------------------- *)
(** * Queue effect of the simulator-level steps *)

Lemma pop_event_queue : forall s e s1, pop_event s = Some (e, s1) ->
  exists e2 r, (s_queue s = e :: s_queue s1
                \/ (s_queue s = e2 :: e :: r /\ s_queue s1 = e2 :: r /\ equivalent e2 e = true
                    /\ e_type e2 = ClockPinTrigger /\ e_type e = ClockPinTrigger))
  /\ s_await_a s1 = s_await_a s /\ s_await_b s1 = s_await_b s /\ s_watches s1 = s_watches s
  /\ s_nextid s1 = s_nextid s /\ s_commitq s1 = s_commitq s /\ s_circ s1 = s_circ s /\ s_procs s1 = s_procs s.
Proof.
  intros s e s1 P. unfold pop_event in P.
  destruct (s_queue s) as [|e1 [|e2 r]] eqn:Q; [discriminate | |].
  - inversion P; subst. exists e, []. split; [left; reflexivity | repeat split].
  - destruct (e_type e1) eqn:T1; destruct (e_type e2) eqn:T2;
      try (inversion P; subst; exists e, []; split; [left; reflexivity | repeat split]).
    destruct (equivalent e1 e2 && (tie_observable s e1 || tie_observable s e2)) eqn:Tie.
    + apply andb_prop in Tie. destruct Tie as [Eq _].
      destruct (s_tb s) as [|[|] tb]; inversion P; subst.
      * exists e, []. split; [left; reflexivity | repeat split].
      * exists e1, r. split; [right; repeat split; assumption | repeat split].
      * exists e, []. split; [left; reflexivity | repeat split].
    + inversion P; subst. exists e, []. split; [left; reflexivity | repeat split].
Qed.

Lemma pop_event_sorted : forall s e s1, pop_event s = Some (e, s1) -> qsorted (s_queue s) ->
  qsorted (s_queue s1) /\ (forall x, In x (s_queue s1) -> ~ klt x e) /\
  (forall x, In x (s_queue s) <-> x = e \/ In x (s_queue s1)).
Proof.
  intros s e s1 P S. destruct (pop_event_queue s e s1 P) as (e2 & r & [Q|(Q & Q1 & Eq & _)] & _).
  - rewrite Q in S. split; [eapply sorted_tail; exact S|]. split.
    + intros x Hx. eapply sorted_head_first; eassumption.
    + intro x. rewrite Q. simpl. intuition auto.
  - rewrite Q in S. pose proof (sorted_swap_head _ _ _ S Eq) as S'.
    rewrite Q1. split; [eapply sorted_tail; exact S'|]. split.
    + intros x Hx. eapply sorted_head_first; eassumption.
    + intro x. rewrite Q. simpl. intuition auto.
Qed.

Lemma fold_push_queue : forall {A} (f : A -> event) (l : list A) s x,
  In x (s_queue (fold_left (fun st a => push_event (f a) st) l s)) <-> In x (s_queue s) \/ In x (map f l).
Proof.
  induction l as [|a r IH]; intros s x; simpl; [tauto|].
  rewrite IH. simpl. rewrite q_insert_in. intuition auto.
Qed.
Lemma fold_push_sorted : forall {A} (f : A -> event) (l : list A) s,
  qsorted (s_queue s) -> qsorted (s_queue (fold_left (fun st a => push_event (f a) st) l s)).
Proof.
  induction l as [|a r IH]; intros s S; simpl; [exact S|].
  apply IH. simpl. apply q_insert_sorted. exact S.
Qed.
Lemma fold_push_other : forall {A} (f : A -> event) (l : list A) s,
  let s' := fold_left (fun st a => push_event (f a) st) l s in
  s_await_a s' = s_await_a s /\ s_await_b s' = s_await_b s /\ s_watches s' = s_watches s /\ s_nextid s' = s_nextid s
  /\ s_commitq s' = s_commitq s /\ s_circ s' = s_circ s /\ s_log s' = s_log s /\ s_procs s' = s_procs s.
Proof.
  induction l as [|a r IH]; intro s; simpl; [repeat split|].
  destruct (IH (push_event (f a) s)) as (H1 & H2 & H3 & H4 & H5 & H6 & H7 & H8). repeat split; assumption.
Qed.

(* the queue after a clockPinTrigger has been handled *)
Lemma handle_trigger_queue : forall cfg e s x,
  In x (s_queue (handle_trigger cfg e s)) <->
  In x (s_queue s) \/ x = value_change_event e \/ x = next_trigger_event cfg e
  \/ (e_rising e = true /\ In x (map (awaiter_event e) (get_await (e_pin e) s))).
Proof.
  intros cfg e s x. unfold handle_trigger. simpl. rewrite !q_insert_in.
  set (s0 := add_log (LTrigger (e_time e) (e_pin e) (e_rising e)) s).
  assert (Q0 : s_queue s0 = s_queue s) by apply add_log_bk.
  assert (A0 : get_await (e_pin e) s0 = get_await (e_pin e) s).
  { destruct (add_log_bk (LTrigger (e_time e) (e_pin e) (e_rising e)) s) as (_ & A & B & _). fold s0 in A, B.
    destruct (e_pin e); simpl; assumption. }
  destruct (e_rising e).
  - assert (Q1 : forall st, s_queue (set_await (e_pin e) [] st) = s_queue st) by (intro st; destruct (e_pin e); reflexivity).
    rewrite Q1, fold_push_queue, Q0, A0. intuition auto; try discriminate.
  - rewrite Q0. intuition auto; try discriminate.
Qed.

Lemma handle_trigger_sorted : forall cfg e s, qsorted (s_queue s) -> qsorted (s_queue (handle_trigger cfg e s)).
Proof.
  intros cfg e s S. unfold handle_trigger. simpl. apply q_insert_sorted. apply q_insert_sorted.
  set (s0 := add_log (LTrigger (e_time e) (e_pin e) (e_rising e)) s).
  assert (Q0 : s_queue s0 = s_queue s) by apply add_log_bk.
  destruct (e_rising e); [|rewrite Q0; exact S].
  assert (Q1 : forall st, s_queue (set_await (e_pin e) [] st) = s_queue st) by (intro st; destruct (e_pin e); reflexivity).
  rewrite Q1. apply fold_push_sorted. rewrite Q0. exact S.
Qed.

Lemma handle_value_change_bk : forall cfg e s, same_bk s (handle_value_change cfg e s).
Proof.
  intros cfg e s. unfold handle_value_change.
  destruct (e_rising e); (eapply same_bk_trans; [|apply add_log_bk]); repeat split.
Qed.

Lemma check_watches_queue : forall s x,
  In x (s_queue (check_watches s)) <->
  In x (s_queue s) \/ In x (map (watch_event s) (filter (watch_changed (s_circ s)) (s_watches s))).
Proof.
  intros s x. unfold check_watches. simpl.
  set (fired := filter (watch_changed (s_circ s)) (s_watches s)).
  assert (G : forall l st, In x (s_queue (fold_left (fun st w => push_event (watch_event s w)
                (add_log (LFire (w_pid w) (w_refs w) (map (fun x => circ_read x (s_circ s)) (w_mask w))) st)) l st))
              <-> In x (s_queue st) \/ In x (map (watch_event s) l)).
  { induction l as [|w r IH]; intro st; simpl; [tauto|].
    rewrite IH. simpl. rewrite q_insert_in.
    assert (Q : s_queue (add_log (LFire (w_pid w) (w_refs w) (map (fun x => circ_read x (s_circ s)) (w_mask w))) st) = s_queue st)
      by apply add_log_bk.
    rewrite Q. intuition auto. }
  apply G.
Qed.

Lemma check_watches_sorted : forall s, qsorted (s_queue s) -> qsorted (s_queue (check_watches s)).
Proof.
  intros s S. unfold check_watches. simpl.
  set (fired := filter (watch_changed (s_circ s)) (s_watches s)).
  assert (G : forall l st, qsorted (s_queue st) -> qsorted (s_queue (fold_left (fun st w => push_event (watch_event s w)
                (add_log (LFire (w_pid w) (w_refs w) (map (fun x => circ_read x (s_circ s)) (w_mask w))) st)) l st))).
  { induction l as [|w r IH]; intros st Hs; simpl; [exact Hs|].
    apply IH. simpl. apply q_insert_sorted.
    assert (Q : s_queue (add_log (LFire (w_pid w) (w_refs w) (map (fun x => circ_read x (s_circ s)) (w_mask w))) st) = s_queue st)
      by apply add_log_bk.
    rewrite Q. exact Hs. }
  apply G. exact S.
Qed.

Lemma reevaluate_bk : forall s, same_bk s (reevaluate s).
Proof. intro s. unfold reevaluate. eapply same_bk_trans; [|apply add_log_bk]. repeat split. Qed.

Lemma micro_end_queue : forall s x,
  In x (s_queue (micro_end s)) <->
  In x (s_queue s) \/ In x (map (watch_event (reevaluate s)) (filter (watch_changed (s_circ (reevaluate s))) (s_watches s))).
Proof.
  intros s x. unfold micro_end. simpl.
  assert (Q : forall e st, s_queue (add_log e st) = s_queue st) by (intros; apply add_log_bk).
  rewrite Q, check_watches_queue.
  destruct (reevaluate_bk s) as (B1 & _ & _ & B4 & _). rewrite B1, B4. tauto.
Qed.
Lemma micro_end_sorted : forall s, qsorted (s_queue s) -> qsorted (s_queue (micro_end s)).
Proof.
  intros s S. unfold micro_end. simpl.
  assert (Q : forall e st, s_queue (add_log e st) = s_queue st) by (intros; apply add_log_bk).
  rewrite Q. apply check_watches_sorted. destruct (reevaluate_bk s) as (B1 & _). rewrite B1. exact S.
Qed.

Lemma phase_begin_bk : forall ph s, same_bk s (phase_begin ph s).
Proof. intros. unfold phase_begin. eapply same_bk_trans; [|apply add_log_bk]. repeat split. Qed.
Lemma commit_end_bk : forall s, same_bk s (commit_end s).
Proof. intro s. unfold commit_end. eapply same_bk_trans with (b := add_log _ s); [apply add_log_bk | repeat split]. Qed.

Lemma fiber_start_bk : forall pid s, same_bk s (snd (fiber_start pid s)).
Proof.
  intros. unfold fiber_start. eapply same_bk_trans; [apply (log_proc_bk pid AStart s)|].
  apply (cont_states_bk pid). apply fiber_continue_cont.
Qed.

(* ------------------------------------------------------------------------- *)
(** * Queue invariant: sorted *)

Section Inv.
Variable cfg : config.
Variables (procs : list script) (fiber : bool) (tb : list bool).
Notation c0 := (boot cfg procs fiber tb, @nil frame).
Notation reach := (treach cfg c0).

Lemma boot_queue : forall x, In x (s_queue (boot cfg procs fiber tb)) <->
  x = trigger_event (tadd 0 (clk_half cfg CA)) CA \/ (c_two cfg = true /\ x = trigger_event (tadd 0 (clk_half cfg CB)) CB).
Proof.
  intro x. unfold boot.
  assert (Q : forall st, s_queue (reevaluate st) = s_queue st) by (intro; apply reevaluate_bk).
  rewrite Q. destruct (c_two cfg); simpl; intuition auto; try discriminate.
  - destruct (ev_less _ _); simpl in *; intuition auto.
  - destruct (ev_less _ _); simpl; auto.
  - destruct (ev_less _ _); simpl; auto.
Qed.

Lemma boot_sorted : qsorted (s_queue (boot cfg procs fiber tb)).
Proof.
  unfold boot.
  assert (Q : forall st, s_queue (reevaluate st) = s_queue st) by (intro; apply reevaluate_bk).
  assert (P : forall e st, s_queue (push_event e st) = q_insert e (s_queue st)) by reflexivity.
  rewrite Q. destruct (c_two cfg); rewrite !P.
  - apply q_insert_sorted. apply q_insert_sorted. constructor.
  - apply q_insert_sorted. constructor.
Qed.

Lemma reach_sorted : forall c, reach c -> qsorted (s_queue (fst c)).
Proof.
  induction 1 as [|c c' R IH T]; [exact boot_sorted|].
  inv_tstep T; cbn [fst] in *.
  - destruct (frame_step_bk cfg f s s' (step_frame_spec _ _ _ _ _ Hsf)) as [Q|pid q Q|pid c ph Q|pid m Q|pid Q|pid i ph Q];
      rewrite Q; try exact IH; apply q_insert_sorted; exact IH.
  - pose proof (task_head_bk t (set_ready r s)) as B. rewrite Hth in B. cbn [snd] in B. destruct B as (Q & _). rewrite Q. exact IH.
  - destruct (pop_event_sorted s e s1 Hpop IH) as (S1 & _).
    unfold event_head. destruct (e_type e).
    + apply handle_trigger_sorted. exact S1.
    + exact S1.
    + destruct (handle_value_change_bk cfg e s1) as (Q & _). rewrite Q. exact S1.
    + exact S1.
  - apply micro_end_sorted. exact IH.
  - destruct (phase_begin_bk ph s) as (Q & _). rewrite Q. exact IH.
  - exact IH.
  - exact IH.
  - destruct (commit_end_bk s) as (Q & _). rewrite Q. exact IH.
  - exact IH.
  - exact IH.
  - exact IH.
  - exact IH.
  - pose proof (fiber_start_bk pid s) as B. rewrite Hfs in B. cbn [snd] in B. destruct B as (Q & _). rewrite Q. exact IH.
  - destruct (reevaluate_bk s) as (Q & _). rewrite Q. exact IH.
Qed.

End Inv.
