(* C04 -- the REGENERATED Event::operator< (gen/EventOrder.v) is a strict weak order whose
   incomparability classes are exactly "same time, phase, micro tick, type and (for process
   resumptions) insertion id"; consequences for the priority queue model (prio_sort). *)
From Coq Require Import QArith Qreduction Permutation Sorted Lia.
Require Import Gatery.Bits.
Require Import Gatery.gen.EventOrder.
Require Import Gatery.SchedDefs.
Import ListNotations.
Local Close Scope Q_scope.

(* ------------------------------------------------------------------------- *)
(** * Three-way comparisons that behave like a total preorder *)

Record ord_cmp {A} (cmp : A -> A -> comparison) : Prop := mk_ord_cmp {
  oc_refl : forall x, cmp x x = Eq;
  oc_anti : forall x y, cmp y x = CompOpp (cmp x y);
  oc_trans : forall x y z, cmp x y = Lt -> cmp y z = Lt -> cmp x z = Lt;
  oc_eq_l : forall x y z, cmp x y = Eq -> cmp x z = cmp y z }.

Lemma oc_eq_r {A} (cmp : A -> A -> comparison) (H : ord_cmp cmp) x y z :
  cmp x y = Eq -> cmp z x = cmp z y.
Proof.
  intro E. rewrite (oc_anti _ H x z), (oc_anti _ H y z). f_equal. apply (oc_eq_l _ H); exact E.
Qed.

Lemma oc_eq_sym {A} (cmp : A -> A -> comparison) (H : ord_cmp cmp) x y : cmp x y = Eq -> cmp y x = Eq.
Proof. intro E. rewrite (oc_anti _ H x y), E. reflexivity. Qed.

Lemma oc_trans_gt {A} (cmp : A -> A -> comparison) (H : ord_cmp cmp) x y z :
  cmp x y = Gt -> cmp y z = Gt -> cmp x z = Gt.
Proof.
  intros E1 E2.
  assert (L1 : cmp y x = Lt) by (rewrite (oc_anti _ H x y), E1; reflexivity).
  assert (L2 : cmp z y = Lt) by (rewrite (oc_anti _ H y z), E2; reflexivity).
  pose proof (oc_trans _ H _ _ _ L2 L1) as L. rewrite (oc_anti _ H z x), L. reflexivity.
Qed.

Definition lexc (c1 c2 : comparison) : comparison := match c1 with Eq => c2 | c => c end.

Lemma ord_cmp_lex {A} (c1 c2 : A -> A -> comparison) :
  ord_cmp c1 -> ord_cmp c2 -> ord_cmp (fun a b => lexc (c1 a b) (c2 a b)).
Proof.
  intros H1 H2. constructor.
  - intro x. rewrite (oc_refl _ H1). simpl. apply (oc_refl _ H2).
  - intros x y. rewrite (oc_anti _ H1 x y), (oc_anti _ H2 x y).
    destruct (c1 x y), (c2 x y); reflexivity.
  - intros x y z. unfold lexc.
    destruct (c1 x y) eqn:E1; try discriminate.
    + rewrite (oc_eq_l _ H1 x y z E1).
      destruct (c1 y z) eqn:E2; try discriminate; auto.
      apply (oc_trans _ H2).
    + intros _. destruct (c1 y z) eqn:E2; try discriminate; intros _.
      * rewrite <- (oc_eq_r _ H1 y z x E2), E1. reflexivity.
      * rewrite (oc_trans _ H1 _ _ _ E1 E2). reflexivity.
  - intros x y z. unfold lexc.
    destruct (c1 x y) eqn:E1; try discriminate. intro E2.
    rewrite (oc_eq_l _ H1 x y z E1), (oc_eq_l _ H2 x y z E2). reflexivity.
Qed.

Lemma ord_cmp_pull {A B} (f : A -> B) (c : B -> B -> comparison) :
  ord_cmp c -> ord_cmp (fun a b => c (f a) (f b)).
Proof.
  intros H. constructor; intros.
  - apply (oc_refl _ H).
  - apply (oc_anti _ H).
  - eapply (oc_trans _ H); eassumption.
  - apply (oc_eq_l _ H); assumption.
Qed.

Lemma ord_cmp_N : ord_cmp N.compare.
Proof.
  constructor.
  - apply N.compare_refl.
  - intros x y. apply N.compare_antisym.
  - intros x y z. rewrite !N.compare_lt_iff. lia.
  - intros x y z E. apply N.compare_eq_iff in E. subst. reflexivity.
Qed.

Lemma ord_cmp_Q : ord_cmp Qcompare.
Proof.
  constructor.
  - intro x. apply Qeq_alt. reflexivity.
  - intros x y. symmetry. apply Qcompare_antisym.
  - intros x y z. rewrite <- !Qlt_alt. apply Qlt_trans.
  - intros x y z E. apply Qeq_alt in E. rewrite E. reflexivity.
Qed.

(* ------------------------------------------------------------------------- *)
(** * The key of an event and the regenerated comparison *)

(* insertion id counts only for process resumptions *)
Definition ins_key (e : event) : N := if evtype_eqb (ev_type e) simProcResume then ev_insertion e else 0%N.

Definition ev_cmp (a b : event) : comparison :=
  lexc (Qcompare (ev_time a) (ev_time b))
  (lexc (N.compare (phase_rank (ev_phase a)) (phase_rank (ev_phase b)))
  (lexc (N.compare (ev_microtick a) (ev_microtick b))
  (lexc (N.compare (type_rank (ev_type a)) (type_rank (ev_type b)))
        (N.compare (ins_key a) (ins_key b))))).

Lemma ord_cmp_ev : ord_cmp ev_cmp.
Proof.
  unfold ev_cmp.
  apply (ord_cmp_lex (fun a b => Qcompare (ev_time a) (ev_time b))).
  { apply (ord_cmp_pull ev_time), ord_cmp_Q. }
  apply (ord_cmp_lex (fun a b => N.compare (phase_rank (ev_phase a)) (phase_rank (ev_phase b)))).
  { apply (ord_cmp_pull (fun e => phase_rank (ev_phase e))), ord_cmp_N. }
  apply (ord_cmp_lex (fun a b => N.compare (ev_microtick a) (ev_microtick b))).
  { apply (ord_cmp_pull ev_microtick), ord_cmp_N. }
  apply (ord_cmp_lex (fun a b => N.compare (type_rank (ev_type a)) (type_rank (ev_type b)))).
  { apply (ord_cmp_pull (fun e => type_rank (ev_type e))), ord_cmp_N. }
  apply (ord_cmp_pull ins_key), ord_cmp_N.
Qed.

(* The regenerated chain is the lexicographic comparison of (time, phase, micro tick, type, insertion id
   of process resumptions), greater key = lower priority.  If the header changes the chain, this lemma
   (and with it every theorem of the package) stops compiling. *)
Lemma event_lt_cmp a b : event_lt a b = match ev_cmp a b with Gt => true | _ => false end.
Proof.
  unfold event_lt, ev_cmp, Qmore, Qless, Nmore, Nless, lexc.
  destruct (ev_time a ?= ev_time b)%Q; try reflexivity.
  destruct (phase_rank (ev_phase a) ?= phase_rank (ev_phase b))%N; try reflexivity.
  destruct (ev_microtick a ?= ev_microtick b)%N; try reflexivity.
  destruct (type_rank (ev_type a) ?= type_rank (ev_type b))%N eqn:ET; try reflexivity.
  apply N.compare_eq_iff in ET.
  unfold ins_key, evtype_eqb. rewrite <- ET.
  destruct (type_rank (ev_type a) =? type_rank simProcResume)%N; [reflexivity|].
  rewrite N.compare_refl. reflexivity.
Qed.

Lemma event_lt_irrefl a : event_lt a a = false.
Proof. rewrite event_lt_cmp, (oc_refl _ ord_cmp_ev). reflexivity. Qed.

Lemma event_lt_trans a b c : event_lt a b = true -> event_lt b c = true -> event_lt a c = true.
Proof.
  rewrite !event_lt_cmp.
  destruct (ev_cmp a b) eqn:E1; try discriminate.
  destruct (ev_cmp b c) eqn:E2; try discriminate.
  rewrite (oc_trans_gt _ ord_cmp_ev _ _ _ E1 E2). reflexivity.
Qed.

Lemma event_lt_asym a b : event_lt a b = true -> event_lt b a = false.
Proof.
  rewrite !event_lt_cmp, (oc_anti _ ord_cmp_ev a b).
  destruct (ev_cmp a b); simpl; congruence.
Qed.

(* negative transitivity: "not lower priority than" is transitive *)
Lemma event_lt_negtrans a b c : event_lt a b = false -> event_lt b c = false -> event_lt a c = false.
Proof.
  rewrite !event_lt_cmp. intros H1 H2.
  destruct (ev_cmp a c) eqn:E; try reflexivity. exfalso.
  destruct (ev_cmp a b) eqn:E1; try discriminate.
  - rewrite (oc_eq_l _ ord_cmp_ev a b c E1) in E. rewrite E in H2. discriminate.
  - destruct (ev_cmp b c) eqn:E2; try discriminate.
    + rewrite <- (oc_eq_r _ ord_cmp_ev b c a E2) in E. congruence.
    + pose proof (oc_trans _ ord_cmp_ev _ _ _ E1 E2). congruence.
Qed.

Definition same_key (a b : event) : Prop :=
  (ev_time a == ev_time b)%Q /\ ev_phase a = ev_phase b /\ ev_microtick a = ev_microtick b /\
  ev_type a = ev_type b /\ (ev_type a = simProcResume -> ev_insertion a = ev_insertion b).

Lemma type_rank_inj x y : type_rank x = type_rank y -> x = y.
Proof. destruct x, y; simpl; intro H; try reflexivity; discriminate. Qed.
Lemma phase_rank_inj x y : phase_rank x = phase_rank y -> x = y.
Proof. destruct x, y; simpl; intro H; try reflexivity; discriminate. Qed.

Lemma ev_cmp_eq_same_key a b : ev_cmp a b = Eq <-> same_key a b.
Proof.
  unfold ev_cmp, same_key, lexc. split.
  - destruct (ev_time a ?= ev_time b)%Q eqn:E1; try discriminate.
    destruct (phase_rank (ev_phase a) ?= phase_rank (ev_phase b))%N eqn:E2; try discriminate.
    destruct (ev_microtick a ?= ev_microtick b)%N eqn:E3; try discriminate.
    destruct (type_rank (ev_type a) ?= type_rank (ev_type b))%N eqn:E4; try discriminate.
    intro E5.
    apply Qeq_alt in E1. apply N.compare_eq_iff in E2, E3, E4, E5.
    apply phase_rank_inj in E2. apply type_rank_inj in E4.
    repeat split; auto.
    intro Hs. unfold ins_key in E5. rewrite <- E4, Hs in E5. exact E5.
  - intros (H1 & H2 & H3 & H4 & H5).
    apply Qeq_alt in H1. rewrite H1, H2, H3, H4, !N.compare_refl.
    apply N.compare_eq_iff. unfold ins_key. rewrite <- H4.
    destruct (evtype_eqb (ev_type a) simProcResume) eqn:E; [|reflexivity].
    apply H5. apply type_rank_inj. apply N.eqb_eq. exact E.
Qed.

Lemma event_lt_trichotomy a b : event_lt a b = true \/ event_lt b a = true \/ same_key a b.
Proof.
  rewrite !event_lt_cmp, (oc_anti _ ord_cmp_ev a b).
  destruct (ev_cmp a b) eqn:E; simpl; auto.
  right; right. apply ev_cmp_eq_same_key. exact E.
Qed.

Lemma same_key_not_lt a b : same_key a b -> event_lt a b = false /\ event_lt b a = false.
Proof.
  intro H. apply ev_cmp_eq_same_key in H.
  rewrite !event_lt_cmp, (oc_anti _ ord_cmp_ev a b), H. split; reflexivity.
Qed.

(* at one time / phase / micro tick the type decides, in enum order *)
Lemma event_lt_by_type a b :
  ev_time a = ev_time b -> ev_phase a = ev_phase b -> ev_microtick a = ev_microtick b ->
  (type_rank (ev_type b) < type_rank (ev_type a))%N -> event_lt a b = true.
Proof.
  intros H1 H2 H3 H4. rewrite event_lt_cmp. unfold ev_cmp, lexc.
  rewrite H1, H2, H3.
  assert (E : (ev_time b ?= ev_time b)%Q = Eq) by (apply Qeq_alt; reflexivity).
  rewrite E, !N.compare_refl.
  apply N.compare_gt_iff in H4. rewrite H4. reflexivity.
Qed.

(* ------------------------------------------------------------------------- *)
(** * prio_sort *)

Definition not_after (a b : event) : Prop := event_lt a b = false.   (* a may be popped before b *)

Lemma prio_insert_perm e l : Permutation (prio_insert e l) (e :: l).
Proof.
  induction l as [|x t IH]; simpl; [apply Permutation_refl|].
  destruct (event_lt e x).
  - eapply perm_trans; [apply perm_skip, IH | apply perm_swap].
  - apply Permutation_refl.
Qed.

Lemma prio_sort_perm l : Permutation (prio_sort l) l.
Proof.
  induction l as [|x t IH]; simpl; [constructor|].
  eapply perm_trans; [apply prio_insert_perm | apply perm_skip, IH].
Qed.

Lemma prio_insert_sorted e l :
  StronglySorted not_after l -> StronglySorted not_after (prio_insert e l).
Proof.
  induction l as [|x t IH]; simpl; intro H.
  - constructor; constructor.
  - inversion H as [|? ? Ht Hx]; subst.
    destruct (event_lt e x) eqn:E.
    + constructor; [apply IH, Ht|].
      eapply Permutation_Forall; [symmetry; apply prio_insert_perm|].
      constructor; [apply event_lt_asym; exact E | exact Hx].
    + constructor; [exact H|].
      constructor; [exact E|].
      rewrite Forall_forall in *. intros y Hy. eapply event_lt_negtrans; [exact E | apply Hx, Hy].
Qed.

Lemma prio_sort_sorted l : StronglySorted not_after (prio_sort l).
Proof. induction l; simpl; [constructor | apply prio_insert_sorted; assumption]. Qed.

Lemma StronglySorted_filter_ {A} (R : A -> A -> Prop) (f : A -> bool) l :
  StronglySorted R l -> StronglySorted R (filter f l).
Proof.
  induction 1 as [|x t Ht IH Hx]; simpl; [constructor|].
  destruct (f x); [|exact IH].
  constructor; [exact IH|].
  rewrite Forall_forall in *. intros y Hy. apply filter_In in Hy. apply Hx, Hy.
Qed.

Lemma Permutation_filter_ {A} (f : A -> bool) l l' :
  Permutation l l' -> Permutation (filter f l) (filter f l').
Proof.
  induction 1; simpl.
  - constructor.
  - destruct (f x); [apply perm_skip|]; assumption.
  - destruct (f x), (f y); try apply Permutation_refl. apply perm_swap.
  - eapply perm_trans; eassumption.
Qed.

(* a sorted list in which every "late" element (f = false) is strictly after every "early" one
   (f = true) is the early part followed by the late part *)
Lemma sorted_split (f : event -> bool) l :
  StronglySorted not_after l ->
  (forall a b, In a l -> In b l -> f a = false -> f b = true -> event_lt a b = true) ->
  l = filter f l ++ filter (fun e => negb (f e)) l.
Proof.
  induction 1 as [|x t Ht IH Hx]; intro Hsep; [reflexivity|].
  simpl. destruct (f x) eqn:Fx; simpl.
  - f_equal. apply IH. intros a b Ha Hb. apply Hsep; right; assumption.
  - assert (Hall : forall y, In y t -> f y = false).
    { intros y Hy. destruct (f y) eqn:Fy; [|reflexivity]. exfalso.
      rewrite Forall_forall in Hx. specialize (Hx y Hy). unfold not_after in Hx.
      rewrite (Hsep x y (or_introl eq_refl) (or_intror Hy) Fx Fy) in Hx. discriminate. }
    assert (E1 : filter f t = []).
    { clear - Hall. induction t as [|y t IH]; [reflexivity|]. simpl.
      rewrite (Hall y (or_introl eq_refl)). apply IH. intros z Hz. apply Hall. right; exact Hz. }
    assert (E2 : filter (fun e => negb (f e)) t = t).
    { clear - Hall. induction t as [|y t IH]; [reflexivity|]. simpl.
      rewrite (Hall y (or_introl eq_refl)). simpl. f_equal. apply IH. intros z Hz. apply Hall. right; exact Hz. }
    rewrite E1, E2. reflexivity.
Qed.

Lemma event_lt_total_distinct_ids a b :
  ev_type a = simProcResume -> ev_type b = simProcResume -> ev_insertion a <> ev_insertion b ->
  event_lt a b = true \/ event_lt b a = true.
Proof.
  intros Ha Hb Hne. destruct (event_lt_trichotomy a b) as [H|[H|H]]; auto.
  exfalso. destruct H as (_ & _ & _ & _ & H). apply Hne, H, Ha.
Qed.
