(* C07 / C08 for memories: undefined address / enable / data bits can only make read data and memory
   contents undefined, never wrong.  The congruence of [compat] ("never contradict") for
   mem_read / mem_latch_write / mem_commit / cycle / run. *)
From Gatery Require Import Bits MemDefs.
Import ListNotations.

(* ------------------------------------------------------------------ bits and words *)

Lemma le_compat_le x y u v : le_def x u -> le_def y v -> compat u v -> compat x y.
Proof. unfold le_def, compat. intros [-> | ->] [-> | ->] H; auto. Qed.

Lemma bv_le_compat_le : forall x u, bv_le x u -> forall y v, bv_le y v -> bv_compat u v -> bv_compat x y.
Proof.
  induction 1 as [|a b x u Hab Hxu IH]; intros y v Hyv Huv.
  - inversion Huv; subst. inversion Hyv; subst. constructor.
  - inversion Huv as [|? b' ? v' Hbb Huv']; subst. inversion Hyv as [|a' ? y' ? Hab' Hyv']; subst.
    constructor; [eapply le_compat_le; eassumption | eapply IH; eassumption].
Qed.

Lemma bv_compat_le_l x y z : bv_le x y -> bv_compat y z -> bv_compat x z.
Proof. intros H1 H2. eapply bv_le_compat_le; eauto. apply bv_le_refl. Qed.

Lemma all_X_length n : length (all_X n) = n.
Proof. apply repeat_length. Qed.

Lemma all_X_compat n y : length y = n -> bv_compat (all_X n) y.
Proof. intro H. apply bv_le_compat, all_X_le, H. Qed.

Lemma compat_all_X n y : length y = n -> bv_compat y (all_X n).
Proof. intro H. apply bv_compat_sym, all_X_compat, H. Qed.

Lemma merge_bit_le_l a b : le_def (merge_bit a b) a.
Proof. destruct a, b; simpl; unfold le_def; auto. Qed.
Lemma merge_bit_le_r a b : le_def (merge_bit a b) b.
Proof. destruct a, b; simpl; unfold le_def; auto. Qed.

Lemma merge_word_length a b : length (merge_word a b) = length a.
Proof. revert b; induction a as [|x a IH]; intros [|y b]; simpl; auto. Qed.

Lemma merge_word_le_l a : forall b, bv_le (merge_word a b) a.
Proof.
  induction a as [|x a IH]; intros [|y b]; simpl; try apply bv_le_refl.
  constructor; [apply merge_bit_le_l | apply IH].
Qed.

Lemma merge_word_le_r a : forall b, length a = length b -> bv_le (merge_word a b) b.
Proof.
  induction a as [|x a IH]; intros [|y b] H; simpl in *; try discriminate; [constructor|].
  constructor; [apply merge_bit_le_r | apply IH; lia].
Qed.

Lemma merge_word_all_X a n : length a = n -> merge_word a (all_X n) = all_X n.
Proof.
  unfold all_X. revert n; induction a as [|x a IH]; intros [|n] H; simpl in *; try discriminate; auto.
  rewrite IH by lia. destruct x; reflexivity.
Qed.

Lemma any_def_false_all_X x : any_def x = false -> x = all_X (length x).
Proof.
  induction x as [|a x IH]; simpl; auto. intro H. apply orb_false_elim in H as [Ha Hx].
  destruct a; try discriminate. unfold all_X in *. simpl. f_equal. apply IH; exact Hx.
Qed.

Lemma compat_defined_eq_bv x y : bv_compat x y -> all_def x = true -> all_def y = true -> x = y.
Proof.
  induction 1 as [|a b x y Hab Hxy IH]; simpl; auto. intros Hx Hy.
  apply andb_prop in Hx as [Ha Hx]; apply andb_prop in Hy as [Hb Hy].
  f_equal; auto using compat_defined_eq.
Qed.

(* ------------------------------------------------------------------ memory shape *)

Definition mem_wf (w : nat) (m : memory) : Prop := Forall (fun x => length x = w) m.

Lemma word_at_length w m a : mem_wf w m -> length (word_at w m a) = w.
Proof.
  intro H. unfold word_at. destruct (Nat.ltb_spec (N.to_nat a) (length m)).
  - unfold mem_wf in H. rewrite Forall_forall in H. apply H, nth_In; assumption.
  - rewrite nth_overflow by assumption. apply all_X_length.
Qed.

Lemma word_at_compat w m m' a : Forall2 bv_compat m m' -> bv_compat (word_at w m a) (word_at w m' a).
Proof.
  intro H. unfold word_at. generalize (N.to_nat a). clear a.
  induction H as [|x y m m' Hxy Hm IH]; intros [|n]; simpl; auto; apply bv_compat_refl.
Qed.

Lemma Forall2_length_eq {A B} (R : A -> B -> Prop) l l' : Forall2 R l l' -> length l = length l'.
Proof. induction 1; simpl; auto. Qed.

Lemma out_of_range_same w m m' a : length m = length m' -> out_of_range w m a = out_of_range w m' a.
Proof. intro H. unfold out_of_range. rewrite H. reflexivity. Qed.

(* ------------------------------------------------------------------ candidates *)

Lemma cands_defined a : all_def a = true -> cands a = [addr_val a].
Proof.
  induction a as [|b r IH]; cbn [cands addr_val all_def forallb]; auto. intro H. apply andb_prop in H as [Hb Hr].
  rewrite (IH Hr). cbn [flat_map app]. destruct b; try discriminate; cbn [bit_val N.b2n app]; f_equal; lia.
Qed.

Lemma cands_common a a' : bv_compat a a' -> exists n, In n (cands a) /\ In n (cands a').
Proof.
  induction 1 as [|x y a a' Hxy Ha IH].
  - exists 0%N; simpl; auto.
  - destruct IH as (h & H1 & H2). cbn [cands].
    assert (Hsel : exists bit : bool,
              In (if bit then (2 * h + 1)%N else (2 * h)%N)
                 (match x with B0 => [(2 * h)%N] | B1 => [(2 * h + 1)%N] | BX => [(2 * h)%N; (2 * h + 1)%N] end) /\
              In (if bit then (2 * h + 1)%N else (2 * h)%N)
                 (match y with B0 => [(2 * h)%N] | B1 => [(2 * h + 1)%N] | BX => [(2 * h)%N; (2 * h + 1)%N] end)).
    { destruct x, y; unfold compat in Hxy;
        try (exists false; simpl; tauto); try (exists true; simpl; tauto);
        exfalso; destruct Hxy as [H|[H|H]]; discriminate. }
    destruct Hsel as (bit & Hx & Hy).
    exists (if bit then (2 * h + 1)%N else (2 * h)%N). split; apply in_flat_map; exists h; auto.
Qed.

(* ------------------------------------------------------------------ base read *)

Lemma exact_loop_spec w m : mem_wf w m -> forall cs first acc, length acc = w ->
  let r := exact_loop w m cs first acc in
  length r = w /\ (first = false -> bv_le r acc) /\ forall n, In n cs -> bv_le r (word_at w m n).
Proof.
  intros Hm. induction cs as [|a cs IH]; intros first acc Hacc; cbn [exact_loop].
  - split; auto. split; [intros; apply bv_le_refl | intros n []].
  - destruct (out_of_range w m a).
    { split; [apply all_X_length|]. split; intros; apply all_X_le; auto using word_at_length. }
    destruct first.
    + destruct (IH false (word_at w m a) (word_at_length w m a Hm)) as (Hl & Hle & Hin).
      split; auto. split; [discriminate|]. intros n [<- | Hn]; auto.
    + pose proof (merge_word_length acc (word_at w m a)) as Hml.
      pose proof (merge_word_le_l acc (word_at w m a)) as Hl1.
      pose proof (merge_word_le_r acc (word_at w m a) ltac:(rewrite word_at_length by exact Hm; exact Hacc)) as Hl2.
      destruct (any_def (merge_word acc (word_at w m a))) eqn:E; cbn [negb].
      * destruct (IH false (merge_word acc (word_at w m a)) ltac:(lia)) as (Hl & Hle & Hin).
        split; auto. split.
        -- intros _. eapply bv_le_trans; [apply Hle; reflexivity | exact Hl1].
        -- intros n [<- | Hn]; auto. eapply bv_le_trans; [apply Hle; reflexivity | exact Hl2].
      * apply any_def_false_all_X in E. rewrite Hml, Hacc in E. rewrite E.
        split; [apply all_X_length|]. split; intros; apply all_X_le; auto using word_at_length.
Qed.

Lemma read_base_length c m a : mem_wf (c_width c) m -> length (read_base c m a) = c_width c.
Proof.
  intro Hm. unfold read_base. destruct (all_def a).
  - destruct (out_of_range _ _ _); auto using all_X_length, word_at_length.
  - destruct (c_ub c); [apply all_X_length|].
    apply (exact_loop_spec (c_width c) m Hm (cands a) true (all_X (c_width c)) (all_X_length _)).
Qed.

Lemma in_cands_defined a a' : bv_compat a a' -> all_def a = true -> In (addr_val a) (cands a').
Proof.
  intros H Hd. destruct (cands_common a a' H) as (n & H1 & H2).
  rewrite (cands_defined a Hd) in H1. destruct H1 as [<- | []]. exact H2.
Qed.

Lemma read_base_compat c m m' a a' :
  mem_wf (c_width c) m -> mem_wf (c_width c) m' -> Forall2 bv_compat m m' -> bv_compat a a' ->
  bv_compat (read_base c m a) (read_base c m' a').
Proof.
  intros Hm Hm' Hmm Haa.
  pose proof (Forall2_length_eq _ _ _ Hmm) as Hlen.
  set (w := c_width c) in *.
  assert (Hex : forall mm aa, mem_wf w mm ->
            forall n, In n (cands aa) -> bv_le (exact_loop w mm (cands aa) true (all_X w)) (word_at w mm n)).
  { intros mm aa Hmw. apply (exact_loop_spec w mm Hmw (cands aa) true (all_X w) (all_X_length _)). }
  unfold read_base. fold w.
  destruct (all_def a) eqn:Da, (all_def a') eqn:Da'.
  - rewrite (compat_defined_eq_bv a a' Haa Da Da'). rewrite (out_of_range_same w m m' _ Hlen).
    destruct (out_of_range _ _ _); [apply bv_compat_refl | apply word_at_compat; exact Hmm].
  - destruct (c_ub c).
    + destruct (out_of_range _ _ _); [apply bv_compat_refl | apply compat_all_X, word_at_length, Hm].
    + destruct (out_of_range w m (addr_val a)).
      * apply all_X_compat. apply (exact_loop_spec w m' Hm' (cands a') true (all_X w) (all_X_length _)).
      * apply bv_compat_sym. eapply bv_compat_le_l.
        -- apply (Hex m' a' Hm' (addr_val a)). apply in_cands_defined; auto.
        -- apply bv_compat_sym, word_at_compat, Hmm.
  - destruct (c_ub c).
    + destruct (out_of_range _ _ _); [apply bv_compat_refl | apply all_X_compat, word_at_length, Hm'].
    + destruct (out_of_range w m' (addr_val a')).
      * apply compat_all_X. apply (exact_loop_spec w m Hm (cands a) true (all_X w) (all_X_length _)).
      * eapply bv_compat_le_l.
        -- apply (Hex m a Hm (addr_val a')). apply in_cands_defined; auto using bv_compat_sym.
        -- apply word_at_compat, Hmm.
  - destruct (c_ub c); [apply bv_compat_refl|].
    destruct (cands_common a a' Haa) as (n & H1 & H2).
    eapply bv_le_compat_le; [apply (Hex m a Hm n H1) | apply (Hex m' a' Hm' n H2) | apply word_at_compat, Hmm].
Qed.

(* ------------------------------------------------------------------ forwarding *)

Definition latch_rel (w : nat) (l l' : latch) : Prop :=
  bv_compat (l_addr l) (l_addr l') /\ length (l_data l) = w /\ length (l_data l') = w /\
  match l_wr l, l_wr l' with
  | true, true => bv_compat (l_data l) (l_data l')
  | true, false => l_data l = all_X w
  | false, true => l_data l' = all_X w
  | false, false => True
  end.

Lemma can_collide_split wa ra ra' :
  all_def wa = true -> bv_compat ra ra' ->
  can_collide wa ra = true -> can_collide wa ra' = false -> all_def ra = false.
Proof.
  intros Hwa Hrr. revert wa Hwa. induction Hrr as [|x y ra ra' Hxy Hr IH]; intros [|b wa] Hwa H1 H2;
    cbn [can_collide all_def forallb] in *; try discriminate.
  apply andb_prop in Hwa as [Hb Hwa]. apply andb_prop in H1 as [Hc1 H1].
  destruct (compatb b y) eqn:E; cbn [andb] in H2.
  - pose proof (IH wa Hwa H1 H2) as E0. unfold all_def in E0. rewrite E0. apply andb_false_r.
  - destruct b, x, y; unfold compat in Hxy; cbn in *; try discriminate; auto;
      exfalso; destruct Hxy as [H|[H|H]]; discriminate.
Qed.

Lemma fwd_one_length w ra out l : length out = w -> length (l_data l) = w -> length (fwd_one w ra out l) = w.
Proof.
  intros Ho Hd. unfold fwd_one. destruct (l_wr l); auto.
  destruct (all_def (l_addr l)); cbn [negb]; [|apply all_X_length].
  destruct (can_collide _ _); auto. destruct (all_def ra); auto. rewrite merge_word_length; exact Ho.
Qed.

Lemma fwd_one_compat w ra ra' out out' l l' :
  length out = w -> length out' = w -> bv_compat out out' -> bv_compat ra ra' -> latch_rel w l l' ->
  bv_compat (fwd_one w ra out l) (fwd_one w ra' out' l').
Proof.
  intros Ho Ho' Hoo Hrr (Haa & Hd & Hd' & Hwr).
  pose proof (fwd_one_length w ra out l Ho Hd) as HL.
  pose proof (fwd_one_length w ra' out' l' Ho' Hd') as HL'.
  unfold fwd_one in *.
  destruct (l_wr l) eqn:W, (l_wr l') eqn:W'; auto.
  - (* both write *)
    destruct (all_def (l_addr l)) eqn:D; cbn [negb] in *; [|apply all_X_compat; exact HL'].
    destruct (all_def (l_addr l')) eqn:D'; cbn [negb] in *; [|apply compat_all_X; exact HL].
    rewrite <- (compat_defined_eq_bv _ _ Haa D D') in *.
    destruct (can_collide (l_addr l) ra) eqn:C, (can_collide (l_addr l) ra') eqn:C'.
    + destruct (all_def ra), (all_def ra'); auto.
      * apply bv_compat_sym. eapply bv_compat_le_l; [apply merge_word_le_r; lia | apply bv_compat_sym; exact Hwr].
      * eapply bv_compat_le_l; [apply merge_word_le_r; lia | exact Hwr].
      * eapply bv_le_compat_le; [apply merge_word_le_r; lia | apply merge_word_le_r; lia | exact Hwr].
    + rewrite (can_collide_split _ _ _ D Hrr C C').
      eapply bv_compat_le_l; [apply merge_word_le_l | exact Hoo].
    + rewrite (can_collide_split _ _ _ D (bv_compat_sym _ _ Hrr) C' C).
      apply bv_compat_sym. eapply bv_compat_le_l; [apply merge_word_le_l | apply bv_compat_sym; exact Hoo].
    + exact Hoo.
  - (* only the left one writes: its data is all X *)
    rewrite Hwr in *.
    destruct (all_def (l_addr l)); cbn [negb] in *; [|apply all_X_compat; exact Ho'].
    destruct (can_collide _ _); auto.
    destruct (all_def ra); [apply all_X_compat; exact Ho'|].
    rewrite merge_word_all_X by exact Ho. apply all_X_compat; exact Ho'.
  - rewrite Hwr in *.
    destruct (all_def (l_addr l')); cbn [negb] in *; [|apply compat_all_X; exact Ho].
    destruct (can_collide _ _); auto.
    destruct (all_def ra'); [apply compat_all_X; exact Ho|].
    rewrite merge_word_all_X by exact Ho'. apply compat_all_X; exact Ho.
Qed.

Lemma fwd_fold_compat w ra ra' ls ls' : Forall2 (latch_rel w) ls ls' -> bv_compat ra ra' ->
  forall out out', length out = w -> length out' = w -> bv_compat out out' ->
  bv_compat (fold_left (fwd_one w ra) ls out) (fold_left (fwd_one w ra') ls' out') /\
  length (fold_left (fwd_one w ra) ls out) = w /\ length (fold_left (fwd_one w ra') ls' out') = w.
Proof.
  intros H Hrr. induction H as [|l l' ls ls' Hl Hls IH]; intros out out' Ho Ho' Hoo; simpl; auto.
  destruct Hl as (Haa & Hd & Hd' & Hwr).
  apply IH; auto using fwd_one_length.
  apply fwd_one_compat; auto. repeat split; auto.
Qed.

Lemma Forall2_rev {A B} (R : A -> B -> Prop) l l' : Forall2 R l l' -> Forall2 R (rev l) (rev l').
Proof. induction 1; simpl; auto. apply Forall2_app; auto. Qed.

(* ------------------------------------------------------------------ pins *)

Definition ocompat_bit (a b : option tbit) : Prop :=
  match a, b with None, None => True | Some x, Some y => compat x y | _, _ => False end.
Definition ocompat_bv (a b : option bv) : Prop :=
  match a, b with None, None => True | Some x, Some y => bv_compat x y | _, _ => False end.

Definition pin_compat (p q : port_in) : Prop :=
  ocompat_bv (pi_addr p) (pi_addr q) /\ ocompat_bit (pi_en p) (pi_en q) /\
  ocompat_bit (pi_wren p) (pi_wren q) /\ ocompat_bv (pi_wdata p) (pi_wdata q).

Definition pin_wf (c : mem_cfg) (p : port_in) : Prop :=
  match pi_wdata p with Some d => length d = c_width c | None => True end.

Lemma mem_read_length c m prev pin : mem_wf (c_width c) m ->
  Forall (fun l => length (l_data l) = c_width c) prev -> length (mem_read c m prev pin) = c_width c.
Proof.
  intros Hm Hp. unfold mem_read. destruct (pi_addr pin) as [a|]; [|apply all_X_length].
  destruct (en_sure (pi_en pin)); cbn [negb]; [|apply all_X_length].
  apply Forall_rev in Hp. revert Hp. generalize (read_base_length c m a Hm). generalize (read_base c m a).
  induction (rev prev) as [|l ls IH]; intros out Ho Hp; simpl; auto.
  inversion Hp; subst. apply IH; auto using fwd_one_length.
Qed.

Lemma latch_rel_data w ls ls' : Forall2 (latch_rel w) ls ls' ->
  Forall (fun l => length (l_data l) = w) ls /\ Forall (fun l => length (l_data l) = w) ls'.
Proof. induction 1 as [|l l' ls ls' (H1 & H2 & H3 & H4) Hr [IH1 IH2]]; split; constructor; auto. Qed.

Lemma mem_read_compat_proof c m m' prev prev' pin pin' :
  mem_wf (c_width c) m -> mem_wf (c_width c) m' -> Forall2 bv_compat m m' ->
  Forall2 (latch_rel (c_width c)) prev prev' -> pin_compat pin pin' ->
  bv_compat (mem_read c m prev pin) (mem_read c m' prev' pin').
Proof.
  intros Hm Hm' Hmm Hpp (Ha & He & _ & _).
  destruct (latch_rel_data _ _ _ Hpp) as [Hpd Hpd'].
  pose proof (mem_read_length c m prev pin Hm Hpd) as HL.
  pose proof (mem_read_length c m' prev' pin' Hm' Hpd') as HL'.
  unfold mem_read in *.
  destruct (pi_addr pin) as [a|], (pi_addr pin') as [a'|]; simpl in Ha; try contradiction; [|apply bv_compat_refl].
  destruct (en_sure (pi_en pin)) eqn:E; cbn [negb] in *; [|apply all_X_compat; exact HL'].
  destruct (en_sure (pi_en pin')) eqn:E'; cbn [negb] in *; [|apply compat_all_X; exact HL].
  apply fwd_fold_compat; auto using Forall2_rev, read_base_length, read_base_compat.
Qed.

Lemma latch_write_rel c pin pin' : pin_wf c pin -> pin_wf c pin' -> pin_compat pin pin' ->
  latch_rel (c_width c) (mem_latch_write c pin) (mem_latch_write c pin').
Proof.
  intros Hw Hw' (Ha & He & Hwe & Hd). unfold pin_wf in *. unfold latch_rel, mem_latch_write; cbn [l_addr l_data l_wr].
  assert (Hdd : exists d d', (match pi_wdata pin with Some d => d | None => all_X (c_width c) end) = d /\
                             (match pi_wdata pin' with Some d => d | None => all_X (c_width c) end) = d' /\
                             length d = c_width c /\ length d' = c_width c /\ bv_compat d d').
  { destruct (pi_wdata pin) as [d|], (pi_wdata pin') as [d'|]; simpl in Hd; try contradiction.
    - exists d, d'; auto.
    - exists (all_X (c_width c)), (all_X (c_width c)). repeat split; auto using all_X_length, bv_compat_refl. }
  destruct Hdd as (d & d' & -> & -> & Hl & Hl' & Hdc). rewrite Hl, Hl'.
  split.
  { destruct (pi_addr pin) as [a|], (pi_addr pin') as [a'|]; simpl in Ha; try contradiction; auto.
    apply bv_compat_refl. }
  split; [destruct (_ && _); auto using all_X_length|].
  split; [destruct (_ && _); auto using all_X_length|].
  assert (Hle : forall b : bool, bv_le (if b then d else all_X (c_width c)) d)
    by (intros [|]; [apply bv_le_refl | apply all_X_le; exact Hl]).
  assert (Hle' : forall b : bool, bv_le (if b then d' else all_X (c_width c)) d')
    by (intros [|]; [apply bv_le_refl | apply all_X_le; exact Hl']).
  destruct (pi_en pin) as [[| |]|], (pi_en pin') as [[| |]|]; simpl in He; unfold compat in He;
    try contradiction; try (exfalso; destruct He as [H|[H|H]]; discriminate);
  destruct (pi_wren pin) as [[| |]|], (pi_wren pin') as [[| |]|]; simpl in Hwe; unfold compat in Hwe;
    try contradiction; try (exfalso; destruct Hwe as [H|[H|H]]; discriminate);
  cbn [en_maybe en_defined andb]; auto;
    try (eapply bv_le_compat_le; [apply (Hle true) | apply (Hle' true) | exact Hdc]);
    try (eapply bv_le_compat_le; [apply (Hle false) | apply (Hle' true) | exact Hdc]);
    try (eapply bv_le_compat_le; [apply (Hle true) | apply (Hle' false) | exact Hdc]);
    try (eapply bv_le_compat_le; [apply (Hle false) | apply (Hle' false) | exact Hdc]).
Qed.

(* ------------------------------------------------------------------ commit *)

Lemma replace_nth_wf w n x m : mem_wf w m -> length x = w -> mem_wf w (replace_nth n x m).
Proof.
  intros Hm Hx. revert n; induction Hm as [|y r Hy Hr IH]; intros [|n]; simpl; constructor; auto.
  apply IH.
Qed.

Lemma replace_nth_compat n x y m m' : Forall2 bv_compat m m' -> bv_compat x y ->
  Forall2 bv_compat (replace_nth n x m) (replace_nth n y m').
Proof. intros H Hxy. revert n; induction H; intros [|n]; simpl; constructor; auto. Qed.

Lemma replace_nth_X_compat w n m m' : Forall2 bv_compat m m' -> mem_wf w m' ->
  Forall2 bv_compat (replace_nth n (all_X w) m) m'.
Proof.
  intros H. revert n; induction H as [|x y m m' Hxy Hm IH]; intros n Hw; [destruct n; constructor|].
  inversion Hw as [|? ? Hy Hw']; subst. destruct n as [|n]; simpl; constructor; auto.
  apply all_X_compat; reflexivity.
Qed.

Lemma nuke_compat m m' : Forall2 bv_compat m m' -> Forall2 bv_compat (map (fun x => all_X (length x)) m) m'.
Proof.
  induction 1 as [|x y m m' Hxy Hm IH]; simpl; constructor; auto.
  apply all_X_compat. symmetry. apply (bv_compat_length _ _ Hxy).
Qed.

Lemma Forall2_compat_sym m m' : Forall2 bv_compat m m' -> Forall2 bv_compat m' m.
Proof. induction 1; constructor; auto using bv_compat_sym. Qed.

Lemma mem_commit_wf c m l : mem_wf (c_width c) m -> length (l_data l) = c_width c -> mem_wf (c_width c) (mem_commit c m l).
Proof.
  intros Hm Hd. unfold mem_commit. destruct (l_wr l); auto.
  destruct (all_def (l_addr l)); cbn [negb].
  - destruct (out_of_range _ _ _); auto using replace_nth_wf.
  - unfold mem_wf in *. rewrite Forall_map. eapply Forall_impl; [|exact Hm].
    intros x Hx. cbv beta. rewrite all_X_length. exact Hx.
Qed.

Lemma mem_commit_length c m l : length (mem_commit c m l) = length m.
Proof.
  unfold mem_commit. destruct (l_wr l); auto. destruct (all_def (l_addr l)); cbn [negb].
  - destruct (out_of_range _ _ _); auto. clear. generalize (N.to_nat (addr_val (l_addr l))).
    induction m as [|y r IH]; intros [|n]; simpl; auto.
  - apply map_length.
Qed.

Lemma nuke_any w : forall m mm, mem_wf w m -> mem_wf w mm -> length m = length mm ->
  Forall2 bv_compat (map (fun x => all_X (length x)) m) mm.
Proof.
  induction m as [|x m IH]; intros [|y mm] Hm Hmm Hl; simpl in *; try discriminate; auto.
  inversion Hm; inversion Hmm; subst. constructor; [|apply IH; auto].
  apply all_X_compat. congruence.
Qed.

Lemma mem_commit_compat c m m' l l' :
  mem_wf (c_width c) m -> mem_wf (c_width c) m' -> Forall2 bv_compat m m' -> latch_rel (c_width c) l l' ->
  Forall2 bv_compat (mem_commit c m l) (mem_commit c m' l').
Proof.
  intros Hm Hm' Hmm (Haa & Hd & Hd' & Hwr).
  pose proof (Forall2_length_eq _ _ _ Hmm) as Hlen.
  pose proof (mem_commit_wf c m l Hm Hd) as HWl. pose proof (mem_commit_wf c m' l' Hm' Hd') as HWr.
  pose proof (mem_commit_length c m l) as HLl. pose proof (mem_commit_length c m' l') as HLr.
  destruct (l_wr l) eqn:W, (l_wr l') eqn:W'.
  - destruct (all_def (l_addr l)) eqn:D.
    + destruct (all_def (l_addr l')) eqn:D'.
      * unfold mem_commit. rewrite W, W', D, D'. cbn [negb].
        rewrite <- (compat_defined_eq_bv _ _ Haa D D'). rewrite <- (out_of_range_same _ m m' _ Hlen).
        destruct (out_of_range _ _ _); auto using replace_nth_compat.
      * apply Forall2_compat_sym.
        replace (mem_commit c m' l') with (map (fun x => all_X (length x)) m')
          by (unfold mem_commit; rewrite W', D'; reflexivity).
        apply nuke_any with (c_width c); auto. lia.
    + replace (mem_commit c m l) with (map (fun x => all_X (length x)) m)
        by (unfold mem_commit; rewrite W, D; reflexivity).
      apply nuke_any with (c_width c); auto. lia.
  - unfold mem_commit. rewrite W, W', Hwr. destruct (all_def (l_addr l)); cbn [negb].
    + destruct (out_of_range _ _ _); auto using replace_nth_X_compat.
    + apply nuke_any with (c_width c); auto.
  - unfold mem_commit. rewrite W, W', Hwr. destruct (all_def (l_addr l')); cbn [negb].
    + destruct (out_of_range _ _ _); auto.
      apply Forall2_compat_sym, replace_nth_X_compat; auto using Forall2_compat_sym.
    + apply Forall2_compat_sym, nuke_any with (c_width c); auto.
  - unfold mem_commit. rewrite W, W'. exact Hmm.
Qed.

(* ------------------------------------------------------------------ one cycle, all cycles *)

Definition st_rel (w : nat) (st st' : pstate) : Prop :=
  Forall2 (latch_rel w) (ps_fwd st) (ps_fwd st') /\ Forall2 (latch_rel w) (ps_all st) (ps_all st').

Lemma eval_ports_compat c m m' :
  mem_wf (c_width c) m -> mem_wf (c_width c) m' -> Forall2 bv_compat m m' ->
  forall ps ins ins' st st',
  st_rel (c_width c) st st' ->
  Forall (pin_wf c) ins -> Forall (pin_wf c) ins' -> Forall2 pin_compat ins ins' ->
  Forall2 ocompat_bv (fst (eval_ports c m st ps ins)) (fst (eval_ports c m' st' ps ins')) /\ st_rel (c_width c) (snd (eval_ports c m st ps ins)) (snd (eval_ports c m' st' ps ins')).
Proof.
  intros Hm Hm' Hmm. induction ps as [|pt ps IH]; intros ins ins' st st' Hst Hw Hw' Hc.
  - simpl. auto.
  - inversion Hc as [|pin pin' r r' Hp Hr]; subst; [destruct ps; simpl; auto|].
    inversion Hw; inversion Hw'; subst. cbn [eval_ports]. unfold port_step.
    destruct Hst as [Hf Ha].
    set (st1 := if p_write pt then _ else st). set (st1' := if p_write pt then _ else st').
    assert (Hst1 : st_rel (c_width c) st1 st1').
    { unfold st1, st1'. destruct (p_write pt); [|split; auto].
      pose proof (latch_write_rel c pin pin' ltac:(assumption) ltac:(assumption) Hp) as Hl.
      split; cbn [ps_fwd ps_all].
      - destruct (c_noconf c); auto.
      - apply Forall2_app; auto. }
    specialize (IH r r' st1 st1' Hst1 ltac:(assumption) ltac:(assumption) Hr).
    destruct (eval_ports c m st1 ps r) as [rds s2]. destruct (eval_ports c m' st1' ps r') as [rds' s2'].
    cbn [fst snd] in *. destruct IH as [IH1 IH2]. split; auto. constructor; auto.
    destruct (p_read pt); simpl; auto. apply mem_read_compat_proof; auto.
Qed.

Lemma commits_compat c : forall ls ls' m m',
  Forall2 (latch_rel (c_width c)) ls ls' ->
  mem_wf (c_width c) m -> mem_wf (c_width c) m' -> Forall2 bv_compat m m' ->
  Forall2 bv_compat (fold_left (mem_commit c) ls m) (fold_left (mem_commit c) ls' m') /\ mem_wf (c_width c) (fold_left (mem_commit c) ls m) /\ mem_wf (c_width c) (fold_left (mem_commit c) ls' m').
Proof.
  intros ls ls' m m' H. revert m m'. induction H as [|l l' ls ls' Hl Hls IH]; intros m m' Hm Hm' Hmm; simpl; auto.
  pose proof Hl as (_ & Hd & Hd' & _).
  apply IH; auto using mem_commit_wf, mem_commit_compat.
Qed.

Lemma cycle_compat_proof : forall c ps m m' ins ins',
  mem_wf (c_width c) m -> mem_wf (c_width c) m' -> Forall2 bv_compat m m' ->
  Forall (pin_wf c) ins -> Forall (pin_wf c) ins' -> Forall2 pin_compat ins ins' ->
  Forall2 ocompat_bv (fst (cycle c ps m ins)) (fst (cycle c ps m' ins')) /\ Forall2 bv_compat (snd (cycle c ps m ins)) (snd (cycle c ps m' ins')) /\ mem_wf (c_width c) (snd (cycle c ps m ins)) /\ mem_wf (c_width c) (snd (cycle c ps m' ins')).
Proof.
  intros c ps m m' ins ins' Hm Hm' Hmm Hw Hw' Hc. unfold cycle.
  assert (H0 : st_rel (c_width c) ps_init ps_init) by (split; constructor).
  destruct (eval_ports_compat c m m' Hm Hm' Hmm ps ins ins' ps_init ps_init H0 Hw Hw' Hc) as [H1 [_ H2]].
  destruct (eval_ports c m ps_init ps ins) as [rds st]. destruct (eval_ports c m' ps_init ps ins') as [rds' st'].
  cbn [fst snd] in *. split; auto. apply commits_compat; auto.
Qed.

Lemma run_compat_proof : forall c ps cycles cycles' m m',
  mem_wf (c_width c) m -> mem_wf (c_width c) m' -> Forall2 bv_compat m m' ->
  Forall (Forall (pin_wf c)) cycles -> Forall (Forall (pin_wf c)) cycles' ->
  Forall2 (Forall2 pin_compat) cycles cycles' ->
  Forall2 (Forall2 ocompat_bv) (fst (run c ps m cycles)) (fst (run c ps m' cycles')) /\ Forall2 bv_compat (snd (run c ps m cycles)) (snd (run c ps m' cycles')).
Proof.
  intros c ps cycles cycles' m m' Hm Hm' Hmm Hw Hw' Hc. revert m m' Hm Hm' Hmm Hw Hw'.
  induction Hc as [|ins ins' cs cs' Hi Hcs IH]; intros m m' Hm Hm' Hmm Hw Hw'; simpl; auto.
  inversion Hw as [|? ? Hwi Hws]; inversion Hw' as [|? ? Hwi' Hws']; subst.
  destruct (cycle_compat_proof c ps m m' ins ins' Hm Hm' Hmm Hwi Hwi' Hi) as (G1 & G2 & G3 & G4).
  destruct (cycle c ps m ins) as [rds m1]. destruct (cycle c ps m' ins') as [rds' m1'].
  cbn [fst snd] in *.
  specialize (IH m1 m1' G3 G4 G2 Hws Hws').
  destruct (run c ps m1 cs) as [o m2]. destruct (run c ps m1' cs') as [o' m2'].
  cbn [fst snd] in *. destruct IH. split; auto.
Qed.
