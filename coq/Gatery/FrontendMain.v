(* C05 -- induction over programs: blocks, IF / ELSEIF / ELSE chains of any length and depth. *)
From Gatery Require Import Bits FrontendDefs FrontendGraph FrontendWrite FrontendSteps FrontendProofs.
Import ListNotations.

Section Main.
Variable inp : list bv.
Notation V := (V inp).
Notation rel := (rel inp).
Notation lreads := (lreads inp).
Notation live := (live inp).
Notation dead := (dead inp).
Notation keep := (keep inp).
Notation dead_pres := (dead_pres inp).
Notation P_dead := (P_dead inp).
Notation P_live := (P_live inp).

Definition Ps (s : stmt) : Prop := forall st, WF st ->
  let st' := elab_stmt s st in
  WF st' /\ frame st st' /\ P_dead st st' /\ P_live (run_stmt inp s) st st'.

Definition Pb (b : block) : Prop := forall st, WF st ->
  let st' := elab_block b st in
  WF st' /\ frame st st' /\ P_dead st st' /\ P_live (run_block inp b) st st'.

Definition Pc (ch : chain) : Prop := forall st, WF st ->
  let st' := elab_chain ch st in
  WF st' /\ frame st st' /\ length (eSigs st') = length (eSigs st) /\ P_dead st st' /\
  (* some earlier branch of the chain was taken: m_lastCondition is true, the rest is skipped *)
  (forall l, eLast st = Some l -> V (eG st) l = [B1] -> dead_pres (eNext st) st st') /\
  (* no earlier branch was taken: m_lastCondition is false, the chain goes on like software *)
  (forall l, eLast st = Some l -> V (eG st) l = [B0] -> P_live (run_chain inp ch) st st').

(* ---- helpers ---- *)

Lemma keep_post D G G1 G2 S S' :
  Forall2 (keep D G G1) S S' -> ext G1 G2 -> sigs_bounded (length G1) S' -> Forall2 (keep D G G2) S S'.
Proof.
  intros H He Hb. induction H as [|a b S S' (K1 & K2 & K3 & K4) H IH]; constructor.
  - inversion Hb; subst. unfold keep. repeat split; auto. intro Hd. rewrite (V_ext inp G1 G2); auto.
  - inversion Hb; subst. auto.
Qed.

Lemma keep_pre D G G1 G2 S S' :
  Forall2 (keep D G1 G2) S S' -> ext G G1 -> sigs_bounded (length G) S -> Forall2 (keep D G G2) S S'.
Proof.
  intros H He Hb. induction H as [|a b S S' (K1 & K2 & K3 & K4) H IH]; constructor.
  - inversion Hb; subst. unfold keep. repeat split; auto. intro Hd. rewrite K4; auto. apply V_ext; auto.
  - inversion Hb; subst. auto.
Qed.

Lemma dead_stable D st st' : WF st -> frame st st' -> dead D st -> dead D st'.
Proof.
  intros Hw Hf (sc & rest & Hs & Hv & Hd). exists sc, rest. rewrite (fr_stack _ _ Hf). split; auto. split; auto.
  rewrite (V_ext inp (eG st) (eG st')); auto. apply (fr_ext _ _ Hf).
  destruct Hw as [_ _ H3 _ _]. rewrite Hs in H3. inversion H3 as [|? ? (?&?&?) _]; auto.
Qed.

Lemma live_stable st st' : WF st -> frame st st' -> live st -> live st'.
Proof.
  intros Hw Hf Hl. unfold FrontendProofs.live in *. rewrite (fr_stack _ _ Hf).
  destruct (eStack st) as [|sc rest] eqn:Hs; auto.
  rewrite (V_ext inp (eG st) (eG st')); auto. apply (fr_ext _ _ Hf).
  destruct Hw as [_ _ H3 _ _]. rewrite Hs in H3. inversion H3 as [|? ? (?&?&?) _]; auto.
Qed.

Lemma new_reads_self st : new_reads st st = [].
Proof. unfold new_reads. apply skipn_all. Qed.

(* ---- a block inside one conditional scope: elab_block, leave_block, dtor ---- *)

Lemma scoped_ok b : Pb b -> forall st1 sc stk,
  WF st1 -> eStack st1 = sc :: stk ->
  let st2 := elab_block b st1 in
  let st4 := dtor (leave_block (length (eSigs st1)) st2) in
  WF st4 /\ ext (eG st1) (eG st4) /\ eStack st4 = stk /\ eNext st1 <= eNext st4 /\
  eReads st4 = eReads st1 ++ new_reads st1 st2 /\
  length (eSigs st4) = length (eSigs st1) /\
  (forall c, sc_comb sc = Some c -> eLast st4 = Some c) /\
  (sc_comb sc = None -> sc_loe sc = None -> eLast st4 = Some (sc_cond sc)) /\
  (forall D, V (eG st1) (sc_full sc) = [B0] -> D <= sc_id sc ->
      Forall2 (keep D (eG st1) (eG st4)) (eSigs st1) (eSigs st4) /\
      lreads (eG st4) (new_reads st1 st2) = []) /\
  (forall E E' R, V (eG st1) (sc_full sc) = [B1] -> rel (eG st1) (eSigs st1) E ->
      run_block inp b E = Some (E', R) ->
      rel (eG st4) (eSigs st4) (lastn (length E) E') /\ lreads (eG st4) (new_reads st1 st2) = R).
Proof.
  intros HPb st1 sc stk W1 Hs st2 st4.
  destruct (HPb st1 W1) as (W2 & F12 & PD & PL). fold st2 in W2, F12, PD, PL.
  set (st3 := leave_block (length (eSigs st1)) st2) in *.
  assert (W3 : WF st3) by (apply leave_block_WF; exact W2).
  assert (Hs3 : eStack st3 = sc :: stk) by (simpl; rewrite (fr_stack _ _ F12); exact Hs).
  destruct (dtor_spec st3 sc stk W3 Hs3) as (W4 & E34 & S4 & N4 & G4 & R4 & LC1 & LC2).
  fold st4 in W4, E34, S4, N4, G4, R4, LC1, LC2.
  assert (E14 : ext (eG st1) (eG st4)) by (eapply ext_trans; [apply (fr_ext _ _ F12)|exact E34]).
  assert (E24 : ext (eG st2) (eG st4)) by exact E34.
  assert (Hsigs4 : eSigs st4 = lastn (length (eSigs st1)) (eSigs st2)) by (refine (eq_trans G4 _); reflexivity).
  assert (Hb4 : sigs_bounded (length (eG st2)) (eSigs st4)).
  { rewrite Hsigs4. apply Forall_lastn. apply (WF_sigs_bounded _ W2). }
  assert (Hnr : Forall (rd_ok (length (eG st2))) (new_reads st1 st2)) by (apply frame_new_reads_ok; auto).
  split; [exact W4|]. split; [exact E14|]. split; [exact S4|].
  split; [rewrite N4; simpl; apply (fr_next _ _ F12)|].
  split; [rewrite R4; simpl; apply new_reads_spec; exact F12|].
  split; [rewrite Hsigs4, lastn_length; pose proof (fr_sigs _ _ F12); lia|].
  split; [exact LC1|]. split; [exact LC2|]. split.
  - intros D Hv HD.
    assert (Hd : dead D st1) by (exists sc, stk; auto).
    destruct (PD D Hd) as [K R]. split.
    + rewrite Hsigs4. eapply keep_post; [exact K|exact E24|]. rewrite <- Hsigs4. exact Hb4.
    + rewrite (lreads_ext inp (eG st2) (eG st4)); auto.
  - intros E E' R Hv HR Hrun.
    assert (Hl : live st1) by (unfold FrontendProofs.live; rewrite Hs; exact Hv).
    destruct (PL E E' R Hl HR Hrun) as [HR2 HRd]. split.
    + rewrite Hsigs4. rewrite <- (rel_length inp _ _ _ HR).
      eapply rel_ext; [exact E24| |apply Forall2_lastn; exact HR2].
      rewrite <- Hsigs4. exact Hb4.
    + rewrite (lreads_ext inp (eG st2) (eG st4)); auto.
Qed.

(* the scope that a whole statement/chain sees on top of the stack stays dead / live *)
Lemma par_full_stable st G' : WF st -> ext (eG st) G' ->
  forall par rest, eStack st = par :: rest -> V G' (sc_full par) = V (eG st) (sc_full par).
Proof.
  intros Hw He par rest Hs. apply V_ext; auto.
  destruct Hw as [_ _ H3 _ _]. rewrite Hs in H3. inversion H3 as [|? ? (?&?&?) _]; auto.
Qed.

Lemma last_stable st G' l : WF st -> ext (eG st) G' -> eLast st = Some l -> V G' l = V (eG st) l.
Proof.
  intros Hw He Hl. apply V_ext; auto. destruct Hw as [_ _ _ H4 _]. rewrite Hl in H4. exact H4.
Qed.

(* everything between a scope constructor and its destructor *)
Lemma branch_ok b : Pb b -> forall st st1 sc,
  WF st -> WF st1 -> ext (eG st) (eG st1) -> eStack st1 = sc :: eStack st ->
  sc_id sc = eNext st -> eNext st1 = S (eNext st) -> eSigs st1 = eSigs st -> eReads st1 = eReads st ->
  let st4 := dtor (leave_block (length (eSigs st)) (elab_block b st1)) in
  WF st4 /\ frame st st4 /\ length (eSigs st4) = length (eSigs st) /\
  (forall c, sc_comb sc = Some c -> eLast st4 = Some c) /\
  (sc_comb sc = None -> sc_loe sc = None -> eLast st4 = Some (sc_cond sc)) /\
  (V (eG st1) (sc_full sc) = [B0] -> forall D, D <= eNext st -> dead_pres D st st4) /\
  (V (eG st1) (sc_full sc) = [B1] -> forall E E' R, rel (eG st) (eSigs st) E ->
      run_block inp b E = Some (E', R) ->
      rel (eG st4) (eSigs st4) (lastn (length E) E') /\ lreads (eG st4) (new_reads st st4) = R).
Proof.
  intros HPb st st1 sc W W1 E01 Hs Hid Hn HS HR st4.
  pose proof (scoped_ok b HPb st1 sc (eStack st) W1 Hs) as H. rewrite HS in H. cbv zeta in H.
  fold st4 in H. destruct H as (W4 & E14 & S4 & N4 & R4 & L4 & LC1 & LC2 & HD & HL).
  assert (F : frame st st4).
  { constructor; auto.
    - eapply ext_trans; eauto.
    - lia.
    - rewrite R4, HR. eexists; reflexivity.
    - lia. }
  assert (NR : new_reads st st4 = new_reads st1 (elab_block b st1)).
  { unfold new_reads at 1. rewrite R4, HR, skipn_app, skipn_all, Nat.sub_diag. reflexivity. }
  pose proof (WF_sigs_bounded _ W) as Hb.
  split; [exact W4|]. split; [exact F|]. split; [exact L4|]. split; [exact LC1|]. split; [exact LC2|]. split.
  - intros Hv D HDle. destruct (HD D Hv ltac:(lia)) as [K Rd]. split.
    + rewrite <- L4, lastn_all. eapply keep_pre; [exact K|exact E01|exact Hb].
    + rewrite NR. exact Rd.
  - intros Hv E E' R HRel Hrun. rewrite NR. apply HL; auto. eapply rel_ext; eauto.
Qed.

(* ---- unfolding equations ---- *)

Lemma elab_if_eq c th ch st :
  elab_stmt (If c th ch) st =
  let (cn, G1) := elab_expr (eSigs st) c (eG st) in
  let st1 := ctor_if cn (set_G st G1) in
  elab_chain ch (dtor (leave_block (length (eSigs st)) (elab_block th st1))).
Proof. reflexivity. Qed.

Lemma elab_celse_eq b st :
  elab_chain (CElse b) st = dtor (leave_block (length (eSigs st)) (elab_block b (ctor_else st))).
Proof. reflexivity. Qed.

Lemma elab_celseif_eq c b ch st :
  elab_chain (CElseIf c b ch) st =
  let (cn, G1) := elab_expr (eSigs st) c (eG st) in
  let st1 := ctor_elseif cn (set_G st G1) in
  elab_chain ch (dtor (leave_block (length (eSigs st)) (elab_block b st1))).
Proof. reflexivity. Qed.

Lemma run_if_eq c th ch E :
  run_stmt inp (If c th ch) E =
  match cond_val (eval_expr inp E c) with
  | None => None
  | Some true => match run_block inp th E with Some (E', r) => Some (lastn (length E) E', r) | None => None end
  | Some false => run_chain inp ch E
  end.
Proof. reflexivity. Qed.

Lemma run_celse_eq b E :
  run_chain inp (CElse b) E =
  match run_block inp b E with Some (E', r) => Some (lastn (length E) E', r) | None => None end.
Proof. reflexivity. Qed.

Lemma run_celseif_eq c b ch E :
  run_chain inp (CElseIf c b ch) E =
  match cond_val (eval_expr inp E c) with
  | None => None
  | Some true => match run_block inp b E with Some (E', r) => Some (lastn (length E) E', r) | None => None end
  | Some false => run_chain inp ch E
  end.
Proof. reflexivity. Qed.

Lemma elab_celsesp_eq c b ch st :
  elab_chain (CElseSp c b ch) st =
  let st1 := ctor_else st in
  let (cn, G1) := elab_expr (eSigs st1) c (eG st1) in
  let st2 := ctor_if cn (set_G st1 G1) in
  let st3 := dtor (leave_block (length (eSigs st)) (elab_block b st2)) in
  elab_chain ch (dtor st3).
Proof. reflexivity. Qed.

Lemma run_celsesp_eq c b ch E :
  run_chain inp (CElseSp c b ch) E =
  match cond_val (eval_expr inp E c) with
  | None => None
  | Some true => match run_block inp b E with Some (E', r) => Some (lastn (length E) E', r) | None => None end
  | Some false => run_chain inp ch E
  end.
Proof. reflexivity. Qed.

Lemma run_bcons_eq s b E :
  run_block inp (BCons s b) E =
  match run_stmt inp s E with
  | Some (E1, r1) => match run_block inp b E1 with Some (E2, r2) => Some (E2, r1 ++ r2) | None => None end
  | None => None
  end.
Proof. reflexivity. Qed.

(* ---- blocks ---- *)

Lemma dead_pres_refl D st : WF st -> dead_pres D st st.
Proof.
  intro W. split.
  - rewrite lastn_all. apply keep_refl_ext; [apply ext_refl|apply WF_sigs_bounded; exact W].
  - rewrite new_reads_self. reflexivity.
Qed.

Lemma bnil_ok : Pb BNil.
Proof.
  intros st W. simpl. split; [exact W|]. split; [apply frame_refl|]. split.
  - intros D _. apply dead_pres_refl; exact W.
  - intros E E' R _ HR Hrun. simpl in Hrun. inversion Hrun; subst. split; auto.
    rewrite new_reads_self. reflexivity.
Qed.

(* sequencing two elaboration steps that both satisfy the dead / live claims *)
Lemma seq_dead a b c D : WF a -> WF b -> frame a b -> frame b c ->
  dead D a -> dead_pres D a b -> (dead D b -> dead_pres D b c) -> dead_pres D a c.
Proof.
  intros Wa Wb Fab Fbc Hd H1 H2. apply (dead_pres_trans inp D a b c Wb Fab Fbc H1). apply H2. eapply dead_stable; [exact Wa|exact Fab|exact Hd].
Qed.

Lemma seq_reads a b c R1 R2 : WF b -> frame a b -> frame b c ->
  lreads (eG b) (new_reads a b) = R1 -> lreads (eG c) (new_reads b c) = R2 ->
  lreads (eG c) (new_reads a c) = R1 ++ R2.
Proof.
  intros Wb Fab Fbc H1 H2. rewrite (new_reads_trans a b c Fab Fbc), lreads_app, H2.
  rewrite (lreads_ext inp (eG b) (eG c)); [rewrite H1; reflexivity | apply (fr_ext _ _ Fbc) | apply frame_new_reads_ok; auto].
Qed.

Lemma bcons_ok s b : Ps s -> Pb b -> Pb (BCons s b).
Proof.
  intros Hs Hb st W. change (elab_block (BCons s b) st) with (elab_block b (elab_stmt s st)). cbv zeta.
  destruct (Hs st W) as (W1 & F1 & D1 & L1). set (st1 := elab_stmt s st) in *.
  destruct (Hb st1 W1) as (W2 & F2 & D2 & L2). set (st2 := elab_block b st1) in *.
  split; [exact W2|]. split; [eapply frame_trans; eauto|]. split.
  - intros D Hd. apply (seq_dead st st1 st2 D W W1 F1 F2 Hd (D1 D Hd)). apply D2.
  - intros E E' R Hl HR Hrun. rewrite run_bcons_eq in Hrun.
    destruct (run_stmt inp s E) as [[E1 r1]|] eqn:H1; [|discriminate].
    destruct (run_block inp b E1) as [[E2 r2]|] eqn:H2; [|discriminate].
    inversion Hrun; subst. clear Hrun.
    destruct (L1 E E1 r1 Hl HR H1) as [HR1 Hr1].
    assert (Hl1 : live st1) by (eapply live_stable; [exact W|exact F1|exact Hl]).
    destruct (L2 E1 E' r2 Hl1 HR1 H2) as [HR2 Hr2].
    split; [exact HR2|]. apply (seq_reads st st1 st2 r1 r2 W1 F1 F2 Hr1 Hr2).
Qed.

(* ---- what follows a closed branch: the rest of the chain ---- *)

Lemma lastn_eq_len {A} n (l : list A) : length l = n -> lastn n l = l.
Proof. intros <-. apply lastn_all. Qed.

Lemma chain_after ch : Pc ch -> forall st st4,
  WF st -> WF st4 -> frame st st4 -> length (eSigs st4) = length (eSigs st) ->
  let st5 := elab_chain ch st4 in
  WF st5 /\ frame st st5 /\ length (eSigs st5) = length (eSigs st) /\
  (forall D, dead D st -> dead_pres D st st4 -> dead_pres D st st5) /\
  (forall l4, eLast st4 = Some l4 -> V (eG st4) l4 = [B1] ->
     dead_pres (eNext st) st st4 -> dead_pres (eNext st) st st5) /\
  (forall l4 E' R, eLast st4 = Some l4 -> V (eG st4) l4 = [B1] ->
     rel (eG st4) (eSigs st4) E' -> lreads (eG st4) (new_reads st st4) = R ->
     rel (eG st5) (eSigs st5) E' /\ lreads (eG st5) (new_reads st st5) = R) /\
  (forall l4 E E' R, eLast st4 = Some l4 -> V (eG st4) l4 = [B0] -> live st ->
     rel (eG st) (eSigs st) E -> dead_pres (eNext st) st st4 ->
     run_chain inp ch E = Some (E', R) ->
     rel (eG st5) (eSigs st5) E' /\ lreads (eG st5) (new_reads st st5) = R).
Proof.
  intros HPc st st4 W W4 F4 L4 st5.
  destruct (HPc st4 W4) as (W5 & F5 & L5 & PD & PS & PL). fold st5 in W5, F5, L5, PD, PS, PL.
  assert (F : frame st st5) by (eapply frame_trans; eauto).
  split; [exact W5|]. split; [exact F|]. split; [congruence|]. split; [|split; [|split]].
  - intros D Hd H4. apply (seq_dead st st4 st5 D W W4 F4 F5 Hd H4). apply PD.
  - intros l4 Hl4 Hv4 H4. apply (dead_pres_trans inp _ st st4 st5 W4 F4 F5 H4).
    eapply dead_pres_weaken; [|apply (PS l4 Hl4 Hv4)]. apply (fr_next _ _ F4).
  - intros l4 E' R Hl4 Hv4 HR4 Hr4. destruct (PS l4 Hl4 Hv4) as [K Rd]. split.
    + rewrite (lastn_eq_len _ _ L5) in K. eapply rel_keep; [exact HR4|exact K|apply WF_isc_lt; exact W4].
    + rewrite <- (app_nil_r R). apply (seq_reads st st4 st5 R [] W4 F4 F5 Hr4 Rd).
  - intros l4 E E' R Hl4 Hv4 Hl HR [K Rd] Hrun.
    rewrite (lastn_eq_len _ _ L4) in K.
    assert (HR4 : rel (eG st4) (eSigs st4) E) by (eapply rel_keep; [exact HR|exact K|apply WF_isc_lt; exact W]).
    assert (Hl4' : live st4) by (eapply live_stable; [exact W|exact F4|exact Hl]).
    destruct (PL l4 Hl4 Hv4 E E' R Hl4' HR4 Hrun) as [HR5 Hr5]. split; [exact HR5|].
    change R with ([] ++ R). apply (seq_reads st st4 st5 [] R W4 F4 F5 Rd Hr5).
Qed.

Lemma cend_ok : Pc CEnd.
Proof.
  intros st W. simpl. split; [exact W|]. split; [apply frame_refl|]. split; [reflexivity|]. split; [|split].
  - intros D _. apply dead_pres_refl; exact W.
  - intros l _ _. apply dead_pres_refl; exact W.
  - intros l _ _ E E' R _ HR Hrun. simpl in Hrun. inversion Hrun; subst. split; auto.
    rewrite new_reads_self. reflexivity.
Qed.

Lemma stack_top_lt st par rest : WF st -> eStack st = par :: rest -> sc_id par < eNext st.
Proof. intros [_ _ H3 _ _] Hs. rewrite Hs in H3. inversion H3 as [|? ? (?&?&?&?) _]; auto. Qed.

Lemma if_ok c th ch : Pb th -> Pc ch -> Ps (If c th ch).
Proof.
  intros Hth Hch st W. rewrite elab_if_eq. cbv zeta.
  destruct (elab_expr (eSigs st) c (eG st)) as [cn G1] eqn:He.
  pose proof (WF_sigs_bounded _ W) as Hb.
  destruct (elab_expr_struct _ _ _ _ _ Hb He) as [E01 Bc].
  set (stA := set_G st G1).
  assert (WA : WF stA) by (apply WF_set_G; auto).
  destruct (ctor_if_spec inp cn stA WA Bc) as (W1 & EA1 & sc & (P1 & P2 & P3 & P4 & P5) & Ccond & Ccomb & Cloe & Vfull).
  set (st1 := ctor_if cn stA) in *.
  assert (E1 : ext (eG st) (eG st1)) by (eapply ext_trans; [exact E01|exact EA1]).
  destruct (branch_ok th Hth st st1 sc W W1 E1 P1 P2 P3 P4 P5) as (W4 & F4 & L4 & _ & LC2 & BD & BL).
  set (st4 := dtor (leave_block (length (eSigs st)) (elab_block th st1))) in *.
  destruct (chain_after ch Hch st st4 W W4 F4 L4) as (W5 & F5 & L5 & CB & _ & CC & CD).
  set (st5 := elab_chain ch st4) in *.
  assert (HL4 : eLast st4 = Some cn) by (rewrite <- Ccond; apply LC2; auto).
  assert (Vcn4 : V (eG st4) cn = V G1 cn).
  { apply V_ext; auto. eapply ext_trans; [exact EA1|]. 
    destruct (scoped_ok th Hth st1 sc (eStack st) W1 P1) as (_ & Ex & _). rewrite P4 in Ex. exact Ex. }
  split; [exact W5|]. split; [exact F5|]. split.
  - intros D Hd. apply CB; auto. destruct Hd as (par & rest & Hs & Hv & HD).
    apply BD.
    + rewrite Vfull. change (eStack stA) with (eStack st). rewrite Hs. change (eG stA) with G1.
      rewrite (par_full_stable st G1 W E01 par rest Hs), Hv. apply cand_B0_r.
    + pose proof (stack_top_lt st par rest W Hs). lia.
  - intros E E' R Hl HR Hrun. rewrite run_if_eq in Hrun.
    pose proof (elab_expr_sem inp _ _ _ _ _ _ Hb HR He) as Hcv.
    destruct (cond_val (eval_expr inp E c)) as [[|]|] eqn:Hc; [| |discriminate].
    + (* condition true: the THEN block runs, the chain is skipped *)
      apply cond_val_true in Hc.
      destruct (run_block inp th E) as [[E1' r1]|] eqn:Hrb; [|discriminate].
      injection Hrun as <- <-.
      assert (Hf : V (eG st1) (sc_full sc) = [B1]).
      { rewrite Vfull. change (eStack stA) with (eStack st). change (eG stA) with G1. rewrite Hcv, Hc.
        unfold FrontendProofs.live in Hl. destruct (eStack st) as [|par rest] eqn:Hs; auto.
        rewrite (par_full_stable st G1 W E01 par rest Hs), Hl. reflexivity. }
      destruct (BL Hf E E1' r1 HR Hrb) as [HR4 Hr4].
      apply (CC cn _ _ HL4); [rewrite Vcn4, Hcv, Hc; reflexivity | exact HR4 | exact Hr4].
    + (* condition false: the THEN block is skipped, the chain decides *)
      apply cond_val_false in Hc.
      assert (Hf : V (eG st1) (sc_full sc) = [B0]).
      { rewrite Vfull. change (eStack stA) with (eStack st). change (eG stA) with G1. rewrite Hcv, Hc.
        destruct (eStack st) as [|par rest]; auto. }
      apply (CD cn E E' R HL4); [rewrite Vcn4, Hcv, Hc; reflexivity | exact Hl | exact HR | apply BD; auto | exact Hrun].
Qed.

Lemma celse_ok b : Pb b -> Pc (CElse b).
Proof.
  intros Hb0 st W. rewrite elab_celse_eq. cbv zeta.
  destruct (ctor_else_spec inp st W) as (W1 & E1 & sc & lv & (P1 & P2 & P3 & P4 & P5) & Ccomb & Hlv & _ & Vfull).
  set (st1 := ctor_else st) in *.
  destruct (branch_ok b Hb0 st st1 sc W W1 E1 P1 P2 P3 P4 P5) as (W4 & F4 & L4 & _ & _ & BD & BL).
  set (st4 := dtor (leave_block (length (eSigs st)) (elab_block b st1))) in *.
  split; [exact W4|]. split; [exact F4|]. split; [exact L4|]. split; [|split].
  - intros D (par & rest & Hs & Hv & HD). apply BD.
    + rewrite Vfull, Hs, Hv. apply cand_B0_r.
    + pose proof (stack_top_lt st par rest W Hs). lia.
  - intros l Hl Hv. apply BD; auto.
    rewrite Vfull, (Hlv l Hl), Hv. destruct (eStack st); reflexivity.
  - intros l Hl Hv E E' R Hlive HR Hrun. rewrite run_celse_eq in Hrun.
    destruct (run_block inp b E) as [[E1' r1]|] eqn:Hrb; [|discriminate].
    injection Hrun as <- <-.
    apply BL; auto. rewrite Vfull, (Hlv l Hl), Hv.
    unfold FrontendProofs.live in Hlive. destruct (eStack st) as [|par rest]; auto. rewrite Hlive. reflexivity.
Qed.

Lemma celseif_ok c b ch : Pb b -> Pc ch -> Pc (CElseIf c b ch).
Proof.
  intros Hb0 Hch st W. rewrite elab_celseif_eq. cbv zeta.
  destruct (elab_expr (eSigs st) c (eG st)) as [cn G1] eqn:He.
  pose proof (WF_sigs_bounded _ W) as Hb.
  destruct (elab_expr_struct _ _ _ _ _ Hb He) as [E01 Bc].
  set (stA := set_G st G1).
  assert (WA : WF stA) by (apply WF_set_G; auto).
  destruct (ctor_elseif_spec inp cn stA WA Bc)
    as (W1 & EA1 & sc & orn & lv & (P1 & P2 & P3 & P4 & P5) & Ccomb & Born & Hlv & Vorn & Vfull).
  set (st1 := ctor_elseif cn stA) in *.
  assert (E1 : ext (eG st) (eG st1)) by (eapply ext_trans; [exact E01|exact EA1]).
  destruct (branch_ok b Hb0 st st1 sc W W1 E1 P1 P2 P3 P4 P5) as (W4 & F4 & L4 & LC1 & _ & BD & BL).
  set (st4 := dtor (leave_block (length (eSigs st)) (elab_block b st1))) in *.
  destruct (chain_after ch Hch st st4 W W4 F4 L4) as (W5 & F5 & L5 & CB & CE & CC & CD).
  set (st5 := elab_chain ch st4) in *.
  assert (HL4 : eLast st4 = Some orn) by (apply LC1; exact Ccomb).
  assert (Vorn4 : V (eG st4) orn = cor lv (V G1 cn)).
  { change (eG stA) with G1 in Vorn. rewrite <- Vorn. apply V_ext; auto.
    destruct (scoped_ok b Hb0 st1 sc (eStack st) W1 P1) as (_ & Ex & _). rewrite P4 in Ex. exact Ex. }
  assert (Hlv' : forall l, eLast st = Some l -> lv = V (eG st) l).
  { intros l Hl. rewrite (Hlv l Hl). change (eG stA) with G1. apply (last_stable st G1 l W E01 Hl). }
  change (eStack stA) with (eStack st) in Vfull. change (eG stA) with G1 in Vfull.
  split; [exact W5|]. split; [exact F5|]. split; [exact L5|]. split; [|split].
  - intros D Hd. apply CB; auto. destruct Hd as (par & rest & Hs & Hv & HD).
    apply BD.
    + rewrite Vfull, Hs. rewrite (par_full_stable st G1 W E01 par rest Hs), Hv. apply cand_B0_r.
    + pose proof (stack_top_lt st par rest W Hs). lia.
  - intros l Hl Hv. apply (CE orn); auto.
    + rewrite Vorn4, (Hlv' l Hl), Hv. reflexivity.
    + apply BD; auto. rewrite Vfull, (Hlv' l Hl), Hv.
      replace (cand (V G1 cn) (cnot [B1])) with [B0] by (symmetry; apply cand_B0_r).
      destruct (eStack st); reflexivity.
  - intros l Hl Hv E E' R Hlive HR Hrun. rewrite run_celseif_eq in Hrun.
    pose proof (elab_expr_sem inp _ _ _ _ _ _ Hb HR He) as Hcv.
    destruct (cond_val (eval_expr inp E c)) as [[|]|] eqn:Hc; [| |discriminate].
    + apply cond_val_true in Hc.
      destruct (run_block inp b E) as [[E1' r1]|] eqn:Hrb; [|discriminate].
      injection Hrun as <- <-.
      assert (Hf : V (eG st1) (sc_full sc) = [B1]).
      { rewrite Vfull, (Hlv' l Hl), Hv, Hcv, Hc.
        unfold FrontendProofs.live in Hlive. destruct (eStack st) as [|par rest] eqn:Hs; auto.
        rewrite (par_full_stable st G1 W E01 par rest Hs), Hlive. reflexivity. }
      destruct (BL Hf E E1' r1 HR Hrb) as [HR4 Hr4].
      apply (CC orn _ _ HL4); [rewrite Vorn4, (Hlv' l Hl), Hv, Hcv, Hc; reflexivity | exact HR4 | exact Hr4].
    + apply cond_val_false in Hc.
      assert (Hf : V (eG st1) (sc_full sc) = [B0]).
      { rewrite Vfull, (Hlv' l Hl), Hv, Hcv, Hc. destruct (eStack st); reflexivity. }
      apply (CD orn E E' R HL4); [rewrite Vorn4, (Hlv' l Hl), Hv, Hcv, Hc; reflexivity | exact Hlive | exact HR | apply BD; auto | exact Hrun].
Qed.

(* ---- ELSE IF (with a space): an IF scope nested in an ELSE scope, then the chain goes on ---- *)

Lemma cor_B1_r a : cor a [B1] = [B1].
Proof. unfold cor; simpl. destruct (bit_of a); reflexivity. Qed.

Arguments elab_dyn_read : simpl never.

Lemma elab_expr_fresh S c G n G' :
  fresh_cond c = true -> sigs_bounded (length G) S -> elab_expr S c G = (n, G') -> length G <= n.
Proof.
  intros Hf Hb H. destruct c; simpl in Hf; try discriminate; simpl in H;
    try (inversion H; subst; apply le_n).
  - destruct (elab_expr S c G) as [na G1] eqn:H1. apply elab_expr_struct in H1 as [E1 _]; auto.
    inversion H; subst. apply ext_length; exact E1.
  - destruct (elab_expr S c1 G) as [na G1] eqn:H1. destruct (elab_expr S c2 G1) as [nb G2] eqn:H2.
    apply elab_expr_struct in H1 as [E1 _]; auto.
    apply elab_expr_struct in H2 as [E2 _]; [|eapply sigs_bounded_mono; [apply ext_length; exact E1|exact Hb]].
    inversion H; subst. apply ext_length. eapply ext_trans; eauto.
  - destruct (elab_expr S c1 G) as [na G1] eqn:H1. destruct (elab_expr S c2 G1) as [nb G2] eqn:H2.
    apply elab_expr_struct in H1 as [E1 _]; auto.
    apply elab_expr_struct in H2 as [E2 _]; [|eapply sigs_bounded_mono; [apply ext_length; exact E1|exact Hb]].
    inversion H; subst. apply ext_length. eapply ext_trans; eauto.
  - destruct (elab_expr S c1 G) as [na G1] eqn:H1. destruct (elab_expr S c2 G1) as [nb G2] eqn:H2.
    apply elab_expr_struct in H1 as [E1 _]; auto.
    apply elab_expr_struct in H2 as [E2 _]; [|eapply sigs_bounded_mono; [apply ext_length; exact E1|exact Hb]].
    inversion H; subst. apply ext_length. eapply ext_trans; eauto.
  - destruct (elab_expr S c1 G) as [na G1] eqn:H1. destruct (elab_expr S c2 G1) as [nb G2] eqn:H2.
    apply elab_expr_struct in H1 as [E1 _]; auto.
    apply elab_expr_struct in H2 as [E2 _]; [|eapply sigs_bounded_mono; [apply ext_length; exact E1|exact Hb]].
    inversion H; subst. apply ext_length. eapply ext_trans; eauto.
  - destruct (elab_expr S c1 G) as [na G1] eqn:H1. destruct (elab_expr S c2 G1) as [nb G2] eqn:H2.
    apply elab_expr_struct in H1 as [E1 _]; auto.
    apply elab_expr_struct in H2 as [E2 _]; [|eapply sigs_bounded_mono; [apply ext_length; exact E1|exact Hb]].
    inversion H; subst. apply ext_length. eapply ext_trans; eauto.
  - destruct (elab_expr S c G) as [na G1] eqn:H1. apply elab_expr_struct in H1 as [E1 _]; auto.
    inversion H; subst. apply ext_length; exact E1.
  - destruct (elab_expr S c1 G) as [na G1] eqn:H1. destruct (elab_expr S c2 G1) as [nb G2] eqn:H2.
    apply elab_expr_struct in H1 as [E1 _]; auto.
    apply elab_expr_struct in H2 as [E2 _]; [|eapply sigs_bounded_mono; [apply ext_length; exact E1|exact Hb]].
    apply elab_dyn_read_fresh in H. apply ext_length in E1. apply ext_length in E2. lia.
  - destruct (elab_expr S c1 G) as [na G1] eqn:H1. destruct (elab_expr S c2 G1) as [nb G2] eqn:H2.
    apply elab_expr_struct in H1 as [E1 _]; auto.
    apply elab_expr_struct in H2 as [E2 _]; [|eapply sigs_bounded_mono; [apply ext_length; exact E1|exact Hb]].
    apply elab_dyn_read_fresh in H. apply ext_length in E1. apply ext_length in E2. lia.
  - destruct (elab_expr S c1 G) as [na G1] eqn:H1. destruct (elab_expr S c2 G1) as [nb G2] eqn:H2.
    apply elab_expr_struct in H1 as [E1 _]; auto.
    apply elab_expr_struct in H2 as [E2 _]; [|eapply sigs_bounded_mono; [apply ext_length; exact E1|exact Hb]].
    apply elab_dyn_read_fresh in H. apply ext_length in E1. apply ext_length in E2. lia.
Qed.

Lemma celsesp_ok c b ch : fresh_cond c = true -> Pb b -> Pc ch -> Pc (CElseSp c b ch).
Proof.
  intros Hfresh Hb0 Hch st W. rewrite elab_celsesp_eq. cbv zeta.
  (* the ELSE scope *)
  destruct (ctor_else_spec inp st W)
    as (W1 & E01 & sc1 & lv & (P1 & P2 & P3 & P4 & P5) & Ccomb1 & Hlv & (l' & Hloe & Bl' & Vl') & Vfull1).
  set (st1 := ctor_else st) in *.
  destruct (elab_expr (eSigs st1) c (eG st1)) as [cn G1] eqn:He.
  pose proof (WF_sigs_bounded _ W1) as Hb1.
  destruct (elab_expr_struct _ _ _ _ _ Hb1 He) as [E1A Bc].
  pose proof (elab_expr_fresh _ _ _ _ _ Hfresh Hb1 He) as Hcn.
  set (stA := set_G st1 G1).
  assert (WA : WF stA) by (apply WF_set_G; auto).
  (* the IF scope inside it *)
  destruct (ctor_if_spec inp cn stA WA Bc) as (W2 & EA2 & sc2 & (Q1 & Q2 & Q3 & Q4 & Q5) & Ccond2 & Ccomb2 & Cloe2 & Vfull2).
  set (st2 := ctor_if cn stA) in *.
  assert (SA : eStack stA = sc1 :: eStack st) by exact P1.
  rewrite SA in Vfull2. change (eG stA) with G1 in Vfull2.
  assert (Vf1 : V G1 (sc_full sc1) = V (eG st1) (sc_full sc1)).
  { apply V_ext; auto. destruct W1 as [_ _ H3 _ _]. rewrite P1 in H3. inversion H3 as [|? ? (?&?&?) _]; auto. }
  rewrite Vf1 in Vfull2.
  destruct (branch_ok b Hb0 stA st2 sc2 WA W2 EA2 Q1 Q2 Q3 Q4 Q5) as (W3 & F3 & L3 & _ & LC2 & BD & BL).
  assert (HlenA : length (eSigs stA) = length (eSigs st)) by (change (eSigs stA) with (eSigs st1); rewrite P4; reflexivity).
  rewrite HlenA in W3, F3, L3, LC2, BD, BL.
  set (st3 := dtor (leave_block (length (eSigs st)) (elab_block b st2))) in *.
  assert (HL3 : eLast st3 = Some cn) by (rewrite <- Ccond2; apply LC2; auto).
  (* the ELSE destructor *)
  assert (S3 : eStack st3 = sc1 :: eStack st) by (rewrite (fr_stack _ _ F3); exact SA).
  destruct (dtor_spec st3 sc1 (eStack st) W3 S3) as (W4 & E34 & S4 & N4 & G4 & R4 & _ & _).
  assert (Hne : cn <> l').
  { pose proof (ext_length _ _ E01). lia. }
  destruct (dtor_else_or inp st3 sc1 (eStack st) l' cn W3 S3 Ccomb1 Hloe HL3 Hne) as (orn & HL4 & Vorn).
  set (st4 := dtor st3) in *.
  assert (E0A : ext (eG st) (eG stA)) by (eapply ext_trans; [exact E01|exact E1A]).
  assert (EA3 : ext (eG stA) (eG st3)) by apply (fr_ext _ _ F3).
  assert (E04 : ext (eG st) (eG st4)) by (eapply ext_trans; [exact E0A|]; eapply ext_trans; [exact EA3|exact E34]).
  assert (F4 : frame st st4).
  { constructor.
    - exact E04.
    - exact S4.
    - rewrite N4. pose proof (fr_next _ _ F3). change (eNext stA) with (eNext st1) in H. lia.
    - destruct (fr_reads _ _ F3) as [NR HNR]. exists NR. rewrite R4, HNR. change (eReads stA) with (eReads st1). rewrite P5. reflexivity.
    - rewrite G4, L3. apply le_n. }
  assert (L4 : length (eSigs st4) = length (eSigs st)) by (rewrite G4; exact L3).
  assert (NR4 : new_reads st st4 = new_reads stA st3).
  { unfold new_reads. rewrite R4. change (eReads stA) with (eReads st1). rewrite P5. reflexivity. }
  assert (Vcn3 : V (eG st3) cn = V G1 cn) by (apply V_ext; auto).
  assert (Vl3 : V (eG st3) l' = lv).
  { rewrite <- Vl'. apply V_ext; auto. eapply ext_trans; [exact E1A|exact EA3]. }
  rewrite Vcn3, Vl3 in Vorn.
  pose proof (WF_sigs_bounded _ W) as Hb.
  (* lifting what branch_ok says about stA .. st3 to st .. st4 *)
  assert (Lift : forall D, dead_pres D stA st3 -> dead_pres D st st4).
  { intros D [K Rd]. split.
    - rewrite <- L4, lastn_all. rewrite G4.
      change (eSigs stA) with (eSigs st1) in K. rewrite P4 in K. rewrite <- L3, lastn_all in K.
      eapply keep_post; [|exact E34|apply (WF_sigs_bounded _ W3)].
      eapply keep_pre; [exact K|exact E0A|exact Hb].
    - rewrite NR4. rewrite (lreads_ext inp (eG st3) (eG st4)); [exact Rd|exact E34|apply frame_new_reads_ok; auto]. }
  destruct (chain_after ch Hch st st4 W W4 F4 L4) as (W5 & F5 & L5 & CB & CE & CC & CD).
  set (st5 := elab_chain ch st4) in *.
  split; [exact W5|]. split; [exact F5|]. split; [exact L5|]. split; [|split].
  - (* the enclosing code is dead *)
    intros D Hd. apply CB; auto. destruct Hd as (par & rest & Hs & Hv & HD).
    apply Lift. apply BD.
    + rewrite Vfull2, Vfull1, Hs, Hv. rewrite cand_B0_r. apply cand_B0_r.
    + pose proof (stack_top_lt st par rest W Hs). change (eNext stA) with (eNext st1). lia.
  - (* an earlier branch was taken *)
    intros l Hl Hv. apply (CE orn); auto.
    + rewrite Vorn, (Hlv l Hl), Hv. apply cor_B1_r.
    + apply Lift. apply BD.
      * rewrite Vfull2, Vfull1, (Hlv l Hl), Hv.
        replace (match eStack st with [] => cnot [B1] | par :: _ => cand (cnot [B1]) (V (eG st) (sc_full par)) end) with [B0]
          by (destruct (eStack st); reflexivity).
        apply cand_B0_r.
      * change (eNext stA) with (eNext st1). lia.
  - (* no earlier branch was taken *)
    intros l Hl Hv E E' R Hlive HR Hrun. rewrite run_celsesp_eq in Hrun.
    assert (HRA : rel (eG stA) (eSigs stA) E).
    { change (eSigs stA) with (eSigs st1). rewrite P4. eapply rel_ext; [exact E0A|exact Hb|exact HR]. }
    assert (HR1 : rel (eG st1) (eSigs st1) E) by (rewrite P4; eapply rel_ext; [exact E01|exact Hb|exact HR]).
    pose proof (elab_expr_sem inp _ _ _ _ _ _ Hb1 HR1 He) as Hcv.
    assert (Hf1 : V (eG st1) (sc_full sc1) = [B1]).
    { rewrite Vfull1, (Hlv l Hl), Hv. unfold FrontendProofs.live in Hlive.
      destruct (eStack st) as [|par rest]; auto. rewrite Hlive. reflexivity. }
    destruct (cond_val (eval_expr inp E c)) as [[|]|] eqn:Hc; [| |discriminate].
    + apply cond_val_true in Hc.
      destruct (run_block inp b E) as [[E1' r1]|] eqn:Hrb; [|discriminate].
      injection Hrun as <- <-.
      assert (Hf : V (eG st2) (sc_full sc2) = [B1]) by (rewrite Vfull2, Hf1, Hcv, Hc; reflexivity).
      destruct (BL Hf E E1' r1 HRA Hrb) as [HR3 Hr3].
      apply (CC orn _ _ HL4).
      * rewrite Vorn, Hcv, Hc. reflexivity.
      * rewrite G4. eapply rel_ext; [exact E34|apply (WF_sigs_bounded _ W3)|exact HR3].
      * rewrite NR4. rewrite (lreads_ext inp (eG st3) (eG st4)); [exact Hr3|exact E34|apply frame_new_reads_ok; auto].
    + apply cond_val_false in Hc.
      assert (Hf : V (eG st2) (sc_full sc2) = [B0]) by (rewrite Vfull2, Hcv, Hc; reflexivity).
      apply (CD orn E E' R HL4).
      * rewrite Vorn, Hcv, Hc, (Hlv l Hl), Hv. reflexivity.
      * exact Hlive.
      * exact HR.
      * apply Lift. apply BD; auto. change (eNext stA) with (eNext st1). lia.
      * exact Hrun.
Qed.

(* ---- the induction ---- *)

Scheme stmt_mut := Induction for stmt Sort Prop
  with block_mut := Induction for block Sort Prop
  with chain_mut := Induction for chain Sort Prop.
Combined Scheme prog_mutind from stmt_mut, block_mut, chain_mut.

Theorem all_ok :
  (forall s, nbe_stmt s = true -> Ps s) /\ (forall b, nbe_block b = true -> Pb b) /\
  (forall ch, nbe_chain ch = true -> Pc ch).
Proof.
  apply prog_mutind.
  - intros x b e _ st W. apply decl_ok; exact W.
  - intros x p e _ st W. apply assign_ok; exact W.
  - intros t x _ st W. apply read_ok; exact W.
  - intros c th Hth ch Hch H. simpl in H. apply andb_prop in H as [H1 H2]. apply if_ok; auto.
  - intros _. apply bnil_ok.
  - intros s Hs b Hb H. simpl in H. apply andb_prop in H as [H1 H2]. apply bcons_ok; auto.
  - intros _. apply cend_ok.
  - intros b Hb H. simpl in H. apply celse_ok; auto.
  - intros c b Hb ch Hch H. simpl in H. apply andb_prop in H as [H1 H2]. apply celseif_ok; auto.
  - intros c b Hb ch Hch H. simpl in H. apply andb_prop in H as [H12 H3]. apply andb_prop in H12 as [H1 H2].
    apply celsesp_ok; auto.
Qed.

End Main.
