(* C08 for circuits WITH memories: NetRefine.run_compat lifted to NetMemDefs netlists.

   mrun_compat: for EVERY netlist with memories whose ports are consistent (all ports of a
   memory have the memory's word width, the previous write ports of a port are ports of the
   same memory), every schedule, every pair of initial states (register contents AND memory
   contents) that never contradict each other and every pair of stimulus sequences that
   never contradict each other, the pin values of the two runs never contradict each other
   in any cycle.  Taking one run fully defined gives the property's wording, including its
   "undefined initial register and memory contents" clause. *)
From Coq Require Import List Bool Arith NArith Lia.
From Gatery Require Import Bits NodeSemDefs NodeSemBits NodeSemReg NodeSemRefine NetDefs NetRefine
     ProductCert MemDefs MemProofsCompat MachineCert NetMemDefs.
Import ListNotations.

Definition mems_rel (a b : list memory) : Prop := Forall2 (Forall2 bv_compat) a b.
Definition ms_rel (a b : mstate) : Prop := NetRefine.st_rel (ms_regs a) (ms_regs b) /\ mems_rel (ms_mems a) (ms_mems b).

(* static consistency of the memory ports; mw = word width per memory ordinal *)
Definition is_port_of (nl : mnetlist) (mem : nat) (p : nat) : Prop :=
  exists cfg r w prev ins, nth_error nl p = Some (mk_mnode (MMemPort mem cfg r w prev) ins).
Definition mnl_wf (mw : nat -> nat) (nl : mnetlist) : Prop :=
  forall pos mem cfg r w prev ins,
    nth_error nl pos = Some (mk_mnode (MMemPort mem cfg r w prev) ins) ->
    c_width cfg = mw mem /\ Forall (is_port_of nl mem) prev.

Definition mst_wf (mw : nat -> nat) (nl : mnetlist) (st : mstate) : Prop :=
  (forall ord c i, mreg_node nl ord = Some (c, i) -> ord < length (ms_regs st) -> rs_wf c (nth ord (ms_regs st) dflt)) /\
  (forall mem, mem_wf (mw mem) (nth mem (ms_mems st) [])).

(* ---- pins and latches ---- *)
Lemma bit_of_rel o o' : opt_rel compat o o' -> ocompat_bit (bit_of o) (bit_of o').
Proof.
  intros [|x y H]; simpl; auto. unfold bv_get.
  apply (Forall2_nth compat); [exact H|apply compat_refl].
Qed.

Lemma pin_of_compat cfg v v' ins : vals_rel v v' -> pin_compat (pin_of cfg v ins) (pin_of cfg v' ins).
Proof.
  intro H. unfold pin_compat, pin_of; cbn [pi_addr pi_en pi_wren pi_wdata].
  repeat split.
  - destruct (lookup_rel v v' (nth 2 ins None) H); simpl; auto.
  - apply bit_of_rel, lookup_rel, H.
  - apply bit_of_rel, lookup_rel, H.
  - destruct (lookup_rel v v' (nth 3 ins None) H) as [|x y Hxy]; simpl; auto.
    apply resize_compat. exact Hxy.
Qed.

Lemma pin_of_wf cfg v ins : pin_wf cfg (pin_of cfg v ins).
Proof.
  unfold pin_wf, pin_of; cbn [pi_wdata]. destruct (lookup v (nth 3 ins None)); simpl; auto.
  unfold bv_resize. apply bv_build_length.
Qed.

Lemma latch_of_rel mw nl v v' mem p :
  mnl_wf mw nl -> vals_rel v v' -> is_port_of nl mem p ->
  latch_rel (mw mem) (latch_of nl v p) (latch_of nl v' p).
Proof.
  intros W Hv (cfg & r & w & prev & ins & E). unfold latch_of. rewrite E.
  destruct (W _ _ _ _ _ _ _ E) as [<- _].
  apply latch_write_rel; auto using pin_of_wf, pin_of_compat.
Qed.

Lemma latches_rel mw nl v v' mem prev :
  mnl_wf mw nl -> vals_rel v v' -> Forall (is_port_of nl mem) prev ->
  Forall2 (latch_rel (mw mem)) (map (latch_of nl v) prev) (map (latch_of nl v') prev).
Proof.
  intros W Hv H. induction H as [|p prev Hp _ IH]; simpl; constructor; auto.
  eapply latch_of_rel; eauto.
Qed.

(* ---- combinational evaluation ---- *)
Lemma mnode_outputs_rel mw nl st st' ins ins' v v' n :
  mnl_wf mw nl -> In n nl -> mst_wf mw nl st -> mst_wf mw nl st' ->
  ms_rel st st' -> ins_rel ins ins' -> vals_rel v v' ->
  Forall2 bv_compat (mnode_outputs nl st ins v n) (mnode_outputs nl st' ins' v' n).
Proof.
  intros W Hin [_ Wm] [_ Wm'] [Hr Hm] Hi Hv. unfold mnode_outputs.
  destruct n as [[k|mem cfg isRead isWrite prev|] nins]; cbn [mn_kind mn_ins].
  - apply node_outputs_rel; assumption.
  - apply In_nth_error in Hin as [pos E].
    destruct (W _ _ _ _ _ _ _ E) as [Hw Hprev].
    constructor; [|repeat constructor].
    destruct isRead; [|apply bv_compat_refl].
    apply mem_read_compat_proof.
    + rewrite Hw. apply Wm.
    + rewrite Hw. apply Wm'.
    + apply (Forall2_nth (Forall2 bv_compat)); [exact Hm|constructor].
    + rewrite Hw. eapply latches_rel; eauto.
    + apply pin_of_compat. exact Hv.
  - repeat constructor.
Qed.

Lemma mcomb_eval_rel mw nl st st' ins ins' :
  mnl_wf mw nl -> mst_wf mw nl st -> mst_wf mw nl st' -> ms_rel st st' -> ins_rel ins ins' ->
  vals_rel (mcomb_eval nl st ins) (mcomb_eval nl st' ins').
Proof.
  intros W Ws Wt Hs Hi. unfold mcomb_eval.
  assert (G : forall l acc acc', incl l nl -> vals_rel acc acc' ->
            vals_rel (fold_left (fun v n => v ++ [mnode_outputs nl st ins v n]) l acc)
                     (fold_left (fun v n => v ++ [mnode_outputs nl st' ins' v n]) l acc')).
  { induction l as [|n l IH]; intros acc acc' Hincl Ha; simpl; auto.
    apply IH; [intros x Hx; apply Hincl; right; exact Hx|].
    apply Forall2_app; [exact Ha|]. constructor; [|constructor].
    eapply mnode_outputs_rel; eauto. apply Hincl. left. reflexivity. }
  apply G; [apply incl_refl|constructor].
Qed.

Lemma moutputs_rel nl v v' : vals_rel v v' -> Forall2 bv_compat (moutputs nl v) (moutputs nl v').
Proof. intro H. unfold moutputs. apply outputs_rel. exact H. Qed.

(* ---- write ports ---- *)
Lemma combine_seq_nth {A} (l : list A) : forall k q n,
  In (q, n) (combine (seq k (length l)) l) -> k <= q /\ nth_error l (q - k) = Some n.
Proof.
  induction l as [|x l IH]; intros k q n Hin; simpl in Hin; [contradiction|].
  destruct Hin as [Heq|Hin].
  - inversion Heq; subst. rewrite Nat.sub_diag. split; [lia|reflexivity].
  - destruct (IH _ _ _ Hin) as [Hle Hn]. split; [lia|].
    replace (q - k) with (S (q - S k)) by lia. exact Hn.
Qed.

Lemma write_ports_spec nl mem p cfg :
  In (p, cfg) (write_ports nl mem) ->
  exists r prev ins, nth_error nl p = Some (mk_mnode (MMemPort mem cfg r true prev) ins).
Proof.
  unfold write_ports. intro H. apply in_flat_map in H as [[q n] [Hin Hx]]. cbn [fst snd] in Hx.
  destruct (combine_seq_nth nl 0 q n Hin) as [_ Hq]. rewrite Nat.sub_0_r in Hq.
  destruct n as [[k|m c r w prev|] nins]; cbn [mn_kind] in Hx; try contradiction.
  destruct w; try contradiction. destruct (Nat.eqb_spec m mem); [|contradiction].
  destruct Hx as [Hx|[]]. inversion Hx; subst. eauto.
Qed.

Lemma commit_fold_rel mw nl v v' mem :
  mnl_wf mw nl -> vals_rel v v' ->
  forall wps, (forall p cfg, In (p, cfg) wps -> exists r prev ins, nth_error nl p = Some (mk_mnode (MMemPort mem cfg r true prev) ins)) ->
  forall m m', mem_wf (mw mem) m -> mem_wf (mw mem) m' -> Forall2 bv_compat m m' ->
  Forall2 bv_compat (fold_left (fun m pc => mem_commit (snd pc) m (latch_of nl v (fst pc))) wps m)
                    (fold_left (fun m pc => mem_commit (snd pc) m (latch_of nl v' (fst pc))) wps m') /\
  mem_wf (mw mem) (fold_left (fun m pc => mem_commit (snd pc) m (latch_of nl v (fst pc))) wps m) /\
  mem_wf (mw mem) (fold_left (fun m pc => mem_commit (snd pc) m (latch_of nl v' (fst pc))) wps m').
Proof.
  intros W Hv. induction wps as [|[p cfg] wps IH]; intros Hw m m' Hm Hm' Hmm; simpl; auto.
  destruct (Hw p cfg (or_introl eq_refl)) as (r & prev & ins & E).
  destruct (W _ _ _ _ _ _ _ E) as [Hcw _].
  assert (HL : latch_rel (mw mem) (latch_of nl v p) (latch_of nl v' p)).
  { eapply latch_of_rel; eauto. repeat eexists. exact E. }
  assert (HLd := HL). destruct HLd as (_ & Hd & Hd' & _).
  apply IH.
  - intros q c Hq. apply Hw. right. exact Hq.
  - rewrite <- Hcw in *. apply mem_commit_wf; assumption.
  - rewrite <- Hcw in *. apply mem_commit_wf; assumption.
  - rewrite <- Hcw in *. apply mem_commit_compat; assumption.
Qed.

(* ---- events ---- *)
Lemma map_seq_Forall2 {A} (R : A -> A -> Prop) (f g : nat -> A) n :
  (forall i, i < n -> R (f i) (g i)) -> Forall2 R (map f (seq 0 n)) (map g (seq 0 n)).
Proof.
  intro H.
  assert (G : forall k m, (forall i, k <= i < k + m -> R (f i) (g i)) ->
                          Forall2 R (map f (seq k m)) (map g (seq k m))).
  { intros k m; revert k; induction m as [|m IH]; intros k Hk; simpl; constructor.
    - apply Hk. lia.
    - apply IH. intros i Hi. apply Hk. lia. }
  apply G. intros i Hi. apply H. lia.
Qed.

Lemma nth_map_seq_mem (f : nat -> memory) n i : i < n -> nth i (map f (seq 0 n)) [] = f i.
Proof.
  intro H. rewrite (nth_indep _ [] (f 0)) by (rewrite map_length, seq_length; exact H).
  rewrite map_nth. rewrite seq_nth by exact H. reflexivity.
Qed.

Lemma medge_rel mw nl st st' ins ins' :
  mnl_wf mw nl -> mst_wf mw nl st -> mst_wf mw nl st' -> ms_rel st st' -> ins_rel ins ins' ->
  ms_rel (medge nl st ins) (medge nl st' ins') /\ mst_wf mw nl (medge nl st ins) /\ mst_wf mw nl (medge nl st' ins').
Proof.
  intros W Ws Wt Hs Hi.
  assert (Hv := mcomb_eval_rel mw nl st st' ins ins' W Ws Wt Hs Hi).
  destruct Ws as [Wr Wm], Wt as [Wr' Wm'], Hs as [Hr Hm].
  assert (Hlr := st_rel_length _ _ Hr).
  assert (Hlm : @length memory (ms_mems st) = @length memory (ms_mems st')) by apply (Forall2_length_eq _ _ _ Hm).
  unfold medge. cbv zeta.
  set (v := mcomb_eval nl st ins) in *. set (v' := mcomb_eval nl st' ins') in *.
  assert (Hmem : forall mem,
            Forall2 bv_compat (fold_left (fun m pc => mem_commit (snd pc) m (latch_of nl v (fst pc))) (write_ports nl mem) (nth mem (ms_mems st) []))
                              (fold_left (fun m pc => mem_commit (snd pc) m (latch_of nl v' (fst pc))) (write_ports nl mem) (nth mem (ms_mems st') [])) /\
            mem_wf (mw mem) (fold_left (fun m pc => mem_commit (snd pc) m (latch_of nl v (fst pc))) (write_ports nl mem) (nth mem (ms_mems st) [])) /\
            mem_wf (mw mem) (fold_left (fun m pc => mem_commit (snd pc) m (latch_of nl v' (fst pc))) (write_ports nl mem) (nth mem (ms_mems st') []))).
  { intro mem. apply (commit_fold_rel mw nl v v' mem W Hv); auto.
    - intros p cfg Hin. apply write_ports_spec. exact Hin.
    - apply (Forall2_nth (Forall2 bv_compat)); [exact Hm|constructor]. }
  split; [split|split; split]; cbn [ms_regs ms_mems].
  - rewrite <- Hlr. apply map_seq_rel. intros ord Hord.
    assert (Hn : rs_rel (nth ord (ms_regs st) dflt) (nth ord (ms_regs st') dflt))
      by (apply (Forall2_nth rs_rel); [exact Hr|apply rs_rel_dflt]).
    fold dflt. destruct (mreg_node nl ord) as [[c i]|] eqn:E; [|exact Hn].
    apply reg_edge_rel; auto.
    + apply (Wr ord c i E Hord).
    + apply (Wr' ord c i E). rewrite <- Hlr. exact Hord.
    + apply lookup_rel. exact Hv.
    + apply lookup_rel. exact Hv.
  - unfold mems_rel. rewrite <- Hlm. apply map_seq_Forall2. intros mem _. apply Hmem.
  - intros ord c i E Hord. rewrite map_length, seq_length in Hord.
    rewrite nth_map_seq by exact Hord. fold dflt. rewrite E. apply reg_edge_wf. apply (Wr ord c i E Hord).
  - intro mem. destruct (Nat.ltb_spec mem (length (ms_mems st))) as [Hlt|Hge].
    + rewrite nth_map_seq_mem by exact Hlt. apply Hmem.
    + rewrite nth_overflow by (rewrite map_length, seq_length; exact Hge). constructor.
  - intros ord c i E Hord. rewrite map_length, seq_length in Hord.
    rewrite nth_map_seq by exact Hord. fold dflt. rewrite E. apply reg_edge_wf. apply (Wr' ord c i E Hord).
  - intro mem. destruct (Nat.ltb_spec mem (length (ms_mems st'))) as [Hlt|Hge].
    + rewrite nth_map_seq_mem by exact Hlt. apply Hmem.
    + rewrite nth_overflow by (rewrite map_length, seq_length; exact Hge). constructor.
Qed.

Lemma mreset_change_rel mw nl h st st' :
  mst_wf mw nl st -> mst_wf mw nl st' -> ms_rel st st' ->
  ms_rel (mreset_change nl h st) (mreset_change nl h st') /\
  mst_wf mw nl (mreset_change nl h st) /\ mst_wf mw nl (mreset_change nl h st').
Proof.
  intros [Wr Wm] [Wr' Wm'] [Hr Hm]. assert (Hlr := st_rel_length _ _ Hr).
  unfold mreset_change. split; [split|split; split]; cbn [ms_regs ms_mems]; auto.
  - rewrite <- Hlr. apply map_seq_rel. intros ord Hord.
    assert (Hn : rs_rel (nth ord (ms_regs st) dflt) (nth ord (ms_regs st') dflt))
      by (apply (Forall2_nth rs_rel); [exact Hr|apply rs_rel_dflt]).
    fold dflt. destruct (mreg_node nl ord) as [[c i]|]; [apply reg_rst_rel|]; exact Hn.
  - intros ord c i E Hord. rewrite map_length, seq_length in Hord.
    rewrite nth_map_seq by exact Hord. fold dflt. rewrite E. apply reg_rst_wf. apply (Wr ord c i E Hord).
  - intros ord c i E Hord. rewrite map_length, seq_length in Hord.
    rewrite nth_map_seq by exact Hord. fold dflt. rewrite E. apply reg_rst_wf. apply (Wr' ord c i E Hord).
Qed.

Lemma mapply_events_rel mw nl evs : forall st st' ins ins',
  mnl_wf mw nl -> mst_wf mw nl st -> mst_wf mw nl st' -> ms_rel st st' -> ins_rel ins ins' ->
  ms_rel (mapply_events nl evs ins st) (mapply_events nl evs ins' st') /\
  mst_wf mw nl (mapply_events nl evs ins st) /\ mst_wf mw nl (mapply_events nl evs ins' st').
Proof.
  unfold mapply_events. induction evs as [|e evs IH]; intros st st' ins ins' W Ws Wt Hs Hi; simpl; auto.
  destruct e as [|h]; simpl.
  - destruct (medge_rel mw nl st st' ins ins' W Ws Wt Hs Hi) as (H1 & H2 & H3). apply IH; auto.
  - destruct (mreset_change_rel mw nl h st st' Ws Wt Hs) as (H1 & H2 & H3). apply IH; auto.
Qed.

(* ---- runs from arbitrary initial states ---- *)
Fixpoint mstate_from (nl : mnetlist) (sc : schedule) (s0 : mstate) (sigma : nat -> list bv) (t : nat) : mstate :=
  match t with
  | O => mapply_events nl (sched_at sc 0) [] s0
  | S t' => mapply_events nl (sched_at sc t) (sigma t') (mstate_from nl sc s0 sigma t')
  end.
Definition mout_from nl sc s0 sigma t : list bv :=
  moutputs nl (mcomb_eval nl (mstate_from nl sc s0 sigma t) (sigma t)).

Lemma mstate_from_machine nl mems0 sc sigma t :
  mstate_at sc sigma (machine_of nl mems0) t = mstate_from nl sc (mpower_on nl mems0) sigma t.
Proof. induction t as [|t IH]; simpl; [reflexivity|]. rewrite IH. reflexivity. Qed.

Theorem mrun_compat mw nl sc s0 s0' sigma sigma' :
  mnl_wf mw nl -> mst_wf mw nl s0 -> mst_wf mw nl s0' -> ms_rel s0 s0' ->
  (forall t, ins_rel (sigma t) (sigma' t)) ->
  forall t, Forall2 bv_compat (mout_from nl sc s0 sigma t) (mout_from nl sc s0' sigma' t).
Proof.
  intros W Ws Wt Hs Hsig t. unfold mout_from.
  assert (G : ms_rel (mstate_from nl sc s0 sigma t) (mstate_from nl sc s0' sigma' t) /\
              mst_wf mw nl (mstate_from nl sc s0 sigma t) /\ mst_wf mw nl (mstate_from nl sc s0' sigma' t)).
  { induction t as [|t IH]; simpl.
    - apply mapply_events_rel; auto. constructor.
    - destruct IH as [H1 [H2 H3]]. apply mapply_events_rel; auto. }
  destruct G as (G & G1 & G2). apply moutputs_rel. eapply mcomb_eval_rel; eauto.
Qed.

Lemma mpower_on_wf mw nl mems0 :
  (forall mem, mem_wf (mw mem) (nth mem mems0 [])) -> mst_wf mw nl (mpower_on nl mems0).
Proof.
  intro H. split; cbn [mpower_on ms_regs ms_mems]; [|exact H].
  intros ord c i E Hord. rewrite map_length, seq_length in Hord.
  rewrite (nth_map_seq (fun ord => match mreg_node nl ord with Some (c, _) => reg_pon c | None => mk_rstate [] false end)) by exact Hord.
  rewrite E. apply reg_pon_wf.
Qed.

Lemma Forall2_impl {A B} (R S : A -> B -> Prop) l l' :
  (forall a b, R a b -> S a b) -> Forall2 R l l' -> Forall2 S l l'.
Proof. intros H F. induction F; constructor; auto. Qed.

(* the property's wording for circuits with memories: a concretisation of the undefined
   stimulus bits AND of the undefined initial memory contents never shows the opposite of a
   bit the abstract run reports as defined *)
Corollary mrun_concretisation mw nl sc mems0 mems0' sigma sigma' :
  mnl_wf mw nl ->
  (forall mem, mem_wf (mw mem) (nth mem mems0 [])) -> (forall mem, mem_wf (mw mem) (nth mem mems0' [])) ->
  Forall2 (Forall2 bv_le) mems0 mems0' ->
  (forall t, Forall2 bv_le (sigma t) (sigma' t)) ->
  forall t, Forall2 bv_compat (mout_at sc sigma (machine_of nl mems0) t) (mout_at sc sigma' (machine_of nl mems0') t).
Proof.
  intros W Wm Wm' Hmem Hle t. unfold mout_at. rewrite !mstate_from_machine.
  change (Forall2 bv_compat (mout_from nl sc (mpower_on nl mems0) sigma t) (mout_from nl sc (mpower_on nl mems0') sigma' t)).
  apply (mrun_compat mw); auto using mpower_on_wf.
  - split; cbn [mpower_on ms_regs ms_mems].
    + unfold st_rel. induction (map _ (seq 0 (mnregs nl))); constructor; auto.
      split; [apply bv_compat_refl|reflexivity].
    + unfold mems_rel. eapply Forall2_impl; [|exact Hmem].
      intros m m' Hmm. eapply Forall2_impl; [|exact Hmm]. intros a b. apply bv_le_compat.
  - intro t'. specialize (Hle t'). unfold ins_rel. induction Hle; constructor; auto. apply bv_le_compat. assumption.
Qed.

(* ---- a decidable sufficient condition for mnl_wf, and a concrete netlist that meets it ---- *)
Definition port_width_of (nl : mnetlist) (mem : nat) : nat :=
  match flat_map (fun n => match mn_kind n with MMemPort m cfg _ _ _ => if m =? mem then [c_width cfg] else [] | _ => [] end) nl with
  | w :: _ => w | [] => 0 end.

Definition is_port_ofb (nl : mnetlist) (mem : nat) (p : nat) : bool :=
  match nth_error nl p with
  | Some (mk_mnode (MMemPort m _ _ _ _) _) => m =? mem
  | _ => false
  end.

Definition mnl_wfb (nl : mnetlist) : bool :=
  forallb (fun n => match mn_kind n with
                    | MMemPort mem cfg _ _ prev => (c_width cfg =? port_width_of nl mem) && forallb (is_port_ofb nl mem) prev
                    | _ => true end) nl.

Lemma mnl_wfb_sound nl : mnl_wfb nl = true -> mnl_wf (port_width_of nl) nl.
Proof.
  unfold mnl_wfb. intro H. rewrite forallb_forall in H.
  intros pos mem cfg r w prev ins E. specialize (H _ (nth_error_In _ _ E)). cbn [mn_kind] in H.
  apply andb_prop in H as [Hw Hp]. split; [apply Nat.eqb_eq; exact Hw|].
  rewrite forallb_forall in Hp. apply Forall_forall. intros p Hin. specialize (Hp p Hin).
  unfold is_port_ofb in Hp. unfold is_port_of.
  destruct (nth_error nl p) as [[[k|m c r' w' prev'|] ins']|]; try discriminate.
  apply Nat.eqb_eq in Hp. subst m. eauto 10.
Qed.
