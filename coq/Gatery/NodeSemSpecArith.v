(* C03 at node level, part 2: Node_Arithmetic.  The uint64 path (explicit mod 2^64) and the
   BigInt path (signed unbounded integers, two's complement re-import of negative results)
   both compute the left fold of the operator over Z, reduced modulo 2^w. *)
From Gatery Require Import Bits NodeSemDefs NodeSemBits.
Import ListNotations.
Local Open Scope Z_scope.

(* ------------------------------------------------------------------ *)
(* the mathematical definition                                           *)

Definition arith_opZ (op : arith_op) (r v : Z) : option Z :=
  match op with
  | A_ADD => Some (r + v)
  | A_SUB => Some (r - v)
  | A_MUL => Some (r * v)
  | A_DIV => if v =? 0 then None else Some (r / v)
  | A_REM => if v =? 0 then None else Some (r mod v)
  end.

Fixpoint arith_math_from (op : arith_op) (r : Z) (vs : list N) : option Z :=
  match vs with
  | [] => Some r
  | v :: rest => match arith_opZ op r (Z.of_N v) with
                 | None => None
                 | Some r' => arith_math_from op r' rest
                 end
  end.

(* ((v0 op v1) op v2) ... over the integers; None = some divisor is zero *)
Definition arith_math (op : arith_op) (vs : list N) : option Z :=
  match vs with
  | [] => Some 0
  | v0 :: rest => arith_math_from op (Z.of_N v0) rest
  end.

Definition is_divrem (op : arith_op) : bool := match op with A_DIV | A_REM => true | _ => false end.

(* ------------------------------------------------------------------ *)
(* conversions                                                           *)

Definition U : Z := 2 ^ 64.

Lemma u64_Z : Z.of_N u64 = U.
Proof. reflexivity. Qed.

Lemma pow2_pos n : 0 < 2 ^ Z.of_nat n.
Proof. apply Z.pow_pos_nonneg; lia. Qed.

Lemma of_N_pow2 n : Z.of_N (2 ^ N.of_nat n) = 2 ^ Z.of_nat n.
Proof. rewrite N2Z.inj_pow. rewrite nat_N_Z. reflexivity. Qed.

Lemma bv_of_N_Z w (n : N) (z : Z) :
  Z.of_N n mod 2 ^ Z.of_nat w = z mod 2 ^ Z.of_nat w ->
  bv_of_N w n = bv_of_N w (Z.to_N (z mod 2 ^ Z.of_nat w)).
Proof.
  intro H. apply bv_of_N_eq_mod. apply N2Z.inj.
  pose proof (pow2_pos w) as P.
  rewrite !N2Z.inj_mod, of_N_pow2.
  rewrite Z2N.id by (apply Z.mod_pos_bound; exact P).
  rewrite Z.mod_mod by lia. exact H.
Qed.

Lemma pow2_divide a b : (a <= b)%nat -> (2 ^ Z.of_nat a | 2 ^ Z.of_nat b).
Proof.
  intro H. exists (2 ^ (Z.of_nat b - Z.of_nat a)).
  rewrite <- Z.pow_add_r by lia. f_equal. lia.
Qed.

Lemma mod_U_mod_w w z : (w <= 64)%nat -> (z mod U) mod 2 ^ Z.of_nat w = z mod 2 ^ Z.of_nat w.
Proof.
  intro H. symmetry. apply Znumtheory.Zmod_div_mod.
  - apply pow2_pos.
  - unfold U. lia.
  - change U with (2 ^ Z.of_nat 64). apply pow2_divide. exact H.
Qed.

(* ------------------------------------------------------------------ *)
(* the uint64 loop                                                       *)

Lemma arith_step64_false op r rest :
  snd (fold_left (arith_step64 op) rest (r, false)) = false.
Proof.
  revert r. induction rest as [|v rest IH]; intro r; [reflexivity|].
  cbn [fold_left]. unfold arith_step64 at 2.
  destruct op; try apply IH; destruct (v mod u64 =? 0)%N; apply IH.
Qed.

(* ADD / SUB / MUL: the accumulator is the exact result modulo 2^64 *)
Lemma fast_ring op (r : N) (z : Z) rest :
  is_divrem op = false -> Z.of_N r = z mod U ->
  exists z' r', arith_math_from op z rest = Some z' /\
                fold_left (arith_step64 op) rest (r, true) = (r', true) /\ Z.of_N r' = z' mod U.
Proof.
  intros Hop. revert r z. induction rest as [|v rest IH]; intros r z Hr.
  - exists z, r. repeat split; assumption.
  - cbn [fold_left arith_math_from].
    assert (HU : 0 < U) by (unfold U; lia).
    assert (Vb : 0 <= Z.of_N v mod U < U) by (apply Z.mod_pos_bound; exact HU).
    assert (Rb : 0 <= Z.of_N r < U) by (rewrite Hr; apply Z.mod_pos_bound; exact HU).
    destruct op; try discriminate; cbn [arith_opZ arith_step64]; apply IH.
    + rewrite N2Z.inj_mod, N2Z.inj_add, N2Z.inj_mod, u64_Z, Hr.
      rewrite Z.add_mod_idemp_l, Z.add_mod_idemp_r by lia. reflexivity.
    + rewrite N2Z.inj_mod, N2Z.inj_sub.
      2:{ apply N2Z.inj_le. rewrite N2Z.inj_add, N2Z.inj_mod, u64_Z. lia. }
      rewrite N2Z.inj_add, N2Z.inj_mod, u64_Z, Hr.
      replace (z mod U + U - Z.of_N v mod U) with ((z mod U - Z.of_N v mod U) + 1 * U) by lia.
      rewrite Z.mod_add by lia. rewrite <- Zminus_mod. reflexivity.
    + rewrite N2Z.inj_mod, N2Z.inj_mul, N2Z.inj_mod, u64_Z, Hr.
      rewrite <- Zmult_mod. reflexivity.
Qed.

(* DIV / REM: no wrap can occur; the accumulator is the exact (non-negative) result *)
Lemma fast_divrem op (r : N) rest :
  is_divrem op = true -> (r < u64)%N -> Forall (fun v => (v < u64)%N) rest ->
  match arith_math_from op (Z.of_N r) rest with
  | Some z' => exists r', fold_left (arith_step64 op) rest (r, true) = (r', true) /\ Z.of_N r' = z'
  | None => snd (fold_left (arith_step64 op) rest (r, true)) = false
  end.
Proof.
  intros Hop. revert r. induction rest as [|v rest IH]; intros r Hr Hall.
  - simpl. exists r. split; reflexivity.
  - inversion Hall as [|? ? Hv Hrest]; subst. cbn [fold_left arith_math_from].
    assert (Ev : (v mod u64 = v)%N) by (apply N.mod_small; exact Hv).
    destruct op; try discriminate; cbn [arith_opZ arith_step64]; rewrite Ev.
    + destruct (N.eqb_spec v 0) as [->|Hv0].
      * simpl. apply arith_step64_false.
      * replace (Z.of_N v =? 0) with false by (symmetry; apply Z.eqb_neq; lia).
        rewrite <- N2Z.inj_div. apply IH; [|exact Hrest].
        apply N.le_lt_trans with (m := r); [|exact Hr]. apply N.div_le_upper_bound; [exact Hv0|]. nia.
    + destruct (N.eqb_spec v 0) as [->|Hv0].
      * simpl. apply arith_step64_false.
      * replace (Z.of_N v =? 0) with false by (symmetry; apply Z.eqb_neq; lia).
        rewrite <- N2Z.inj_mod. apply IH; [|exact Hrest].
        apply N.lt_trans with (m := v); [apply N.mod_lt; exact Hv0 | exact Hv].
Qed.

(* ------------------------------------------------------------------ *)
(* the BigInt loop                                                       *)

Lemma arith_stepZ_false op r rest :
  snd (fold_left (arith_stepZ op) rest (r, false)) = false.
Proof.
  revert r. induction rest as [|v rest IH]; intro r; [reflexivity|].
  cbn [fold_left]. unfold arith_stepZ at 2.
  destruct op; try apply IH; destruct (Z.of_N v =? 0); apply IH.
Qed.

Lemma big_exact op (z : Z) rest :
  (is_divrem op = true -> 0 <= z) ->
  match arith_math_from op z rest with
  | Some z' => fold_left (arith_stepZ op) rest (z, true) = (z', true)
  | None => snd (fold_left (arith_stepZ op) rest (z, true)) = false
  end.
Proof.
  revert z. induction rest as [|v rest IH]; intros z Hz; [reflexivity|].
  cbn [fold_left arith_math_from].
  destruct op; cbn [arith_opZ arith_stepZ]; try (apply IH; intro; discriminate).
  - destruct (Z.eqb_spec (Z.of_N v) 0) as [E|E]; [apply arith_stepZ_false|].
    specialize (Hz eq_refl). rewrite Z.quot_div_nonneg by lia.
    apply IH. intros _. apply Z.div_pos; lia.
  - destruct (Z.eqb_spec (Z.of_N v) 0) as [E|E]; [apply arith_stepZ_false|].
    specialize (Hz eq_refl). rewrite Z.rem_mod_nonneg by lia.
    apply IH. intros _. apply Z.mod_pos_bound. lia.
Qed.

(* insertBigInt: the two's complement re-import is reduction modulo 2^w *)
Lemma nwords_bound m : (m < 2 ^ (64 * nwords m))%N.
Proof.
  apply N.lt_le_trans with (m := (2 ^ N.size m)%N); [apply N.size_gt|].
  apply N.pow_le_mono_r; [discriminate|]. unfold nwords.
  pose proof (N.div_mod (N.size m + 63) 64) as D. pose proof (N.mod_lt (N.size m + 63) 64) as L. lia.
Qed.

Lemma bigint_twos_mod w z :
  Z.of_N (bigint_twos w z) mod 2 ^ Z.of_nat w = z mod 2 ^ Z.of_nat w.
Proof.
  unfold bigint_twos. destruct (Z.ltb_spec z 0) as [Hneg|Hpos].
  - set (m := Z.to_N (- z)).
    set (k := N.max (nwords m) ((N.of_nat w + 63) / 64)%N).
    assert (Hm : (m < 2 ^ (64 * k))%N).
    { apply N.lt_le_trans with (m := (2 ^ (64 * nwords m))%N); [apply nwords_bound|].
      apply N.pow_le_mono_r; [discriminate|]. subst k. lia. }
    assert (Hk : (N.of_nat w <= 64 * k)%N).
    { subst k. pose proof (N.div_mod (N.of_nat w + 63) 64) as D. pose proof (N.mod_lt (N.of_nat w + 63) 64) as L. lia. }
    rewrite N.ones_equiv.
    replace (N.pred (2 ^ (64 * k)) - m + 1)%N with (2 ^ (64 * k) - m)%N by lia.
    rewrite N2Z.inj_sub by lia. rewrite N2Z.inj_pow. change (Z.of_N 2) with 2.
    assert (Em : Z.of_N m = - z) by (subst m; rewrite Z2N.id; lia). rewrite Em.
    replace (Z.of_N (64 * k)) with (Z.of_nat w + (Z.of_N (64 * k) - Z.of_nat w)) by lia.
    rewrite Z.pow_add_r by lia.
    replace (2 ^ Z.of_nat w * 2 ^ (Z.of_N (64 * k) - Z.of_nat w) - - z)
      with (z + 2 ^ (Z.of_N (64 * k) - Z.of_nat w) * 2 ^ Z.of_nat w) by lia.
    apply Z.mod_add. pose proof (pow2_pos w). lia.
  - rewrite Z2N.id by lia. reflexivity.
Qed.

(* ------------------------------------------------------------------ *)
(* the theorem                                                           *)

Local Ltac one := apply (f_equal (fun x : bv => [x])).

(* For all widths (0, <= 64, > 64) and any number of fully defined operands: the result is the
   left fold of the operator over the integers, reduced modulo 2^w; a zero divisor makes the
   whole result undefined.  For DIV/REM the operands must not be wider than the output (which
   the node guarantees: its output width is the maximum operand width). *)
Theorem eval_arith_spec op w xs vs :
  arith_operands xs = Some vs ->
  (is_divrem op = true -> Forall (fun v => (v < 2 ^ N.of_nat w)%N) vs) ->
  eval (KArith op w) xs =
  [match arith_math op vs with
   | Some z => bv_of_N w (Z.to_N (z mod 2 ^ Z.of_nat w))
   | None => all_X w
   end].
Proof.
  intros Hops Hwide. unfold eval, eval_arith. rewrite Hops.
  destruct (Nat.leb_spec w 64) as [Hw|Hw].
  - (* uint64 path *)
    destruct vs as [|v0 rest].
    + cbn [arith64 arith_math]. one. apply (bv_of_N_Z w 0%N 0). reflexivity.
    + cbn [arith64 arith_math].
      destruct (is_divrem op) eqn:Hop.
      * specialize (Hwide eq_refl).
        assert (Hall : Forall (fun v => (v < u64)%N) (v0 :: rest)).
        { eapply Forall_impl; [|exact Hwide]. intros v Hv. cbv beta in Hv.
          apply N.lt_le_trans with (m := (2 ^ N.of_nat w)%N); [exact Hv|].
          unfold u64. apply N.pow_le_mono_r; [discriminate | lia]. }
        inversion Hall as [|? ? Hv0 Hrest]; subst.
        rewrite (N.mod_small v0 u64 Hv0).
        pose proof (fast_divrem op v0 rest Hop Hv0 Hrest) as F.
        destruct (arith_math_from op (Z.of_N v0) rest) as [z'|].
        -- destruct F as [r' [-> Er]]. one. apply bv_of_N_Z. rewrite Er. reflexivity.
        -- destruct (fold_left (arith_step64 op) rest (v0, true)) as [r ok]. simpl in F. subst ok. reflexivity.
      * assert (E0 : Z.of_N (v0 mod u64) = Z.of_N v0 mod U) by (rewrite N2Z.inj_mod; reflexivity).
        destruct (fast_ring op (v0 mod u64)%N (Z.of_N v0) rest Hop E0) as [z' [r' [-> [-> Er]]]].
        one. apply bv_of_N_Z. rewrite Er. apply mod_U_mod_w. exact Hw.
  - (* BigInt path *)
    destruct vs as [|v0 rest].
    + cbn [arithZ arith_math]. one. apply bv_of_N_Z. apply bigint_twos_mod.
    + cbn [arithZ arith_math].
      pose proof (big_exact op (Z.of_N v0) rest (fun _ => N2Z.is_nonneg v0)) as F.
      destruct (arith_math_from op (Z.of_N v0) rest) as [z'|].
      * rewrite F. one. apply bv_of_N_Z. apply bigint_twos_mod.
      * destruct (fold_left (arith_stepZ op) rest (Z.of_N v0, true)) as [r ok]. simpl in F. subst ok. reflexivity.
Qed.

(* definedness is all or nothing: one undefined bit or one unconnected operand anywhere *)
Theorem eval_arith_undef op w xs :
  arith_operands xs = None -> eval (KArith op w) xs = [all_X w].
Proof. intro H. unfold eval, eval_arith. rewrite H. reflexivity. Qed.

Lemma arith_operands_none_iff xs :
  arith_operands xs = None <-> exists o, In o xs /\ (o = None \/ exists x, o = Some x /\ bv_val x = None).
Proof.
  induction xs as [|o xs IH].
  - simpl. split; [discriminate | intros [o [[] _]]].
  - cbn [arith_operands]. split.
    + intro H. destruct o as [x|]; [|exists None; split; [left; reflexivity | left; reflexivity]].
      destruct (bv_val x) eqn:E; [|exists (Some x); split; [left; reflexivity | right; exists x; auto]].
      destruct (arith_operands xs) eqn:A; [discriminate|].
      destruct (proj1 IH eq_refl) as [o [Hin Ho]]. exists o. split; [right; exact Hin | exact Ho].
    + intros [o' [[<-|Hin] Ho]].
      * destruct Ho as [->|[x [-> Hx]]]; [reflexivity | rewrite Hx; reflexivity].
      * destruct o as [x|]; [|reflexivity]. destruct (bv_val x); [|reflexivity].
        rewrite (proj2 IH (ex_intro _ o' (conj Hin Ho))). reflexivity.
Qed.

(* the common two-operand instances, written out *)
Corollary eval_add_spec w a b va vb :
  bv_val a = Some va -> bv_val b = Some vb ->
  eval (KArith A_ADD w) [Some a; Some b] = [bv_of_N w ((va + vb) mod 2 ^ N.of_nat w)%N].
Proof.
  intros Ha Hb. rewrite (eval_arith_spec A_ADD w _ [va; vb]).
  - cbn [arith_math arith_math_from arith_opZ]. one. rewrite bv_of_N_mod. symmetry. apply bv_of_N_Z.
    rewrite N2Z.inj_add. reflexivity.
  - simpl. rewrite Ha, Hb. reflexivity.
  - discriminate.
Qed.

Corollary eval_sub_spec w a b va vb :
  bv_val a = Some va -> bv_val b = Some vb ->
  eval (KArith A_SUB w) [Some a; Some b] =
  [bv_of_N w (Z.to_N ((Z.of_N va - Z.of_N vb) mod 2 ^ Z.of_nat w))].
Proof.
  intros Ha Hb. rewrite (eval_arith_spec A_SUB w _ [va; vb]).
  - reflexivity.
  - simpl. rewrite Ha, Hb. reflexivity.
  - discriminate.
Qed.

Corollary eval_mul_spec w a b va vb :
  bv_val a = Some va -> bv_val b = Some vb ->
  eval (KArith A_MUL w) [Some a; Some b] = [bv_of_N w ((va * vb) mod 2 ^ N.of_nat w)%N].
Proof.
  intros Ha Hb. rewrite (eval_arith_spec A_MUL w _ [va; vb]).
  - cbn [arith_math arith_math_from arith_opZ]. one. rewrite bv_of_N_mod. symmetry. apply bv_of_N_Z.
    rewrite N2Z.inj_mul. reflexivity.
  - simpl. rewrite Ha, Hb. reflexivity.
  - discriminate.
Qed.

(* division: operands as wide as the result; x / 0 and x rem 0 are undefined *)
Corollary eval_div_spec w a b va vb :
  length a = w -> length b = w -> bv_val a = Some va -> bv_val b = Some vb ->
  eval (KArith A_DIV w) [Some a; Some b] = [if (vb =? 0)%N then all_X w else bv_of_N w (va / vb)%N].
Proof.
  intros La Lb Ha Hb. rewrite (eval_arith_spec A_DIV w _ [va; vb]).
  - cbn [arith_math arith_math_from arith_opZ].
    destruct (N.eqb_spec vb 0) as [->|Hv]; [reflexivity|].
    replace (Z.of_N vb =? 0) with false by (symmetry; apply Z.eqb_neq; lia).
    one. symmetry. apply bv_of_N_Z. rewrite N2Z.inj_div. reflexivity.
  - simpl. rewrite Ha, Hb. reflexivity.
  - intros _. repeat constructor; [rewrite <- La | rewrite <- Lb]; apply bv_val_lt; assumption.
Qed.

Corollary eval_rem_spec w a b va vb :
  length a = w -> length b = w -> bv_val a = Some va -> bv_val b = Some vb ->
  eval (KArith A_REM w) [Some a; Some b] = [if (vb =? 0)%N then all_X w else bv_of_N w (va mod vb)%N].
Proof.
  intros La Lb Ha Hb. rewrite (eval_arith_spec A_REM w _ [va; vb]).
  - cbn [arith_math arith_math_from arith_opZ].
    destruct (N.eqb_spec vb 0) as [->|Hv]; [reflexivity|].
    replace (Z.of_N vb =? 0) with false by (symmetry; apply Z.eqb_neq; lia).
    one. symmetry. apply bv_of_N_Z. rewrite N2Z.inj_mod. reflexivity.
  - simpl. rewrite Ha, Hb. reflexivity.
  - intros _. repeat constructor; [rewrite <- La | rewrite <- Lb]; apply bv_val_lt; assumption.
Qed.
