(* C16 -- stream signatures without a Valid signal (RsPacketStream = Ready, Sop, Eop; SPacketStream = Sop, Eop).
   The library derives valid() for them (metaSignals.h):
       valid = flag(sop & ready, eop & ready) | sop
   with  flag(set, reset): ret |= set; ret &= !reset; ret = reg(ret, '0')   (scl/flag.h: set and reset both registered).
   [rs_flag_next] is that register, [rs_valid] the accessor.  Specification, independent of the circuit: a beat is on offer
   from the sop of a packet until its eop is transferred, i.e. valid = inside a packet || sop, where "inside a packet"
   ([inpkt]) is defined from the transfers alone.  [rs_valid_spec] shows the two agree for EVERY sequence of sop / eop /
   ready values, so in particular valid never waits for ready.  The variant with flagInstantSet (valid = flag | sop & ready)
   does: [rs_valid_instantset_refuted].
   An Rs stream is run through the same stage machines as an Rv stream: [rsCyclesFrom] supplies the derived valid (using
   the ready the stage itself returns), so every theorem about [trace S cs] for all cs applies to Rs runs. *)
From Coq Require Import List NArith Bool Arith Lia.
From Gatery Require Import StreamDefs StreamSpec StreamCompose StreamStages StreamHold StreamPacket.
Import ListNotations.

Definition rs_valid (flag sop : bool) : bool := flag || sop.
Definition rs_flag_next (flag sop eop rdy : bool) : bool := (flag || (sop && rdy)) && negb (eop && rdy).

(* one cycle of an Rs wire: (sop, eop, ready) *)
Definition rswire := list (bool * bool * bool).

Fixpoint rs_flags (flag : bool) (w : rswire) : list bool :=
  match w with
  | [] => []
  | (sop, eop, rdy) :: w' => flag :: rs_flags (rs_flag_next flag sop eop rdy) w'
  end.

(* the specification: inside a packet = a beat has been transferred and the last transferred beat had no eop;
   a beat is transferred when it is on offer (inside a packet or sop) and ready is high *)
Fixpoint inpkt (inside : bool) (w : rswire) : list bool :=
  match w with
  | [] => []
  | (sop, eop, rdy) :: w' =>
      let offered := inside || sop in
      inside :: inpkt (if offered && rdy then negb eop else inside) w'
  end.

Lemma rs_flag_spec : forall w f, rs_flags f w = inpkt f w.
Proof.
  induction w as [|[[sop eop] rdy] w IH]; intro f; [reflexivity|].
  simpl. f_equal. rewrite IH. f_equal. unfold rs_flag_next. destruct f, sop, eop, rdy; reflexivity.
Qed.

(* valid of the library = inside a packet or at its first beat -- whatever ready does *)
Lemma rs_valid_spec : forall w,
  map (fun p => rs_valid (fst p) (fst (fst (snd p)))) (combine (rs_flags false w) w) =
  map (fun p => fst p || fst (fst (snd p))) (combine (inpkt false w) w).
Proof. intro w. rewrite rs_flag_spec. reflexivity. Qed.

(* the variant  valid = flagInstantSet(sop & ready, eop & ready)  =  reg(flag & !reset) | sop & ready *)
Definition rs_valid_instantset (flagreg sop rdy : bool) : bool := flagreg || (sop && rdy).
Lemma rs_valid_instantset_refuted :
  rs_valid false true = true /\ rs_valid_instantset false true false = false.
Proof. split; reflexivity. Qed.

(* ------------------------------------------------------------------ running a stage on an Rs stream *)
Record rscyc := mkRs { r_ctl : list bool; r_sop : bool; r_data : list N; r_eop : bool; r_meta : N; r_rdy : bool }.

Definition rs_cyc (flag : bool) (r : rscyc) : cyc :=
  mkCyc (r_ctl r) (mkBeat (rs_valid flag (r_sop r)) (r_data r) (r_eop r) (r_meta r)) (r_rdy r).

Fixpoint rsCyclesFrom (S : stage) (s : st S) (flag : bool) (rcs : list rscyc) : list cyc :=
  match rcs with
  | [] => []
  | r :: rest =>
      let c := rs_cyc flag r in
      let rin := bwd S s (c_ctl c) (c_in c) (c_rdy c) in
      c :: rsCyclesFrom S (stepS S s c) (rs_flag_next flag (r_sop r) (r_eop r) rin) rest
  end.

Definition rsCycles (S : stage) (rcs : list rscyc) : list cyc := rsCyclesFrom S (init S) false rcs.
Definition rsRun (d : sdesc) (rcs : list rscyc) : list ev := trace (denote d) (rsCycles (denote d) rcs).

Lemma rsCycles_length : forall S rcs s f, length (rsCyclesFrom S s f rcs) = length rcs.
Proof. intros S rcs; induction rcs; intros; simpl; auto. Qed.

(* the valid the stage sees in cycle t is the specified one: inside a packet (w.r.t. the transfers at the stage input)
   or sop *)
Lemma rsCycles_valid : forall S rcs s f,
  map (fun c => bvalid (c_in c)) (rsCyclesFrom S s f rcs) =
  map (fun p => fst p || r_sop (snd p))
      (combine (inpkt f (map (fun p => (r_sop (fst p), r_eop (fst p), e_rin (snd p)))
                             (combine rcs (traceFrom S s (rsCyclesFrom S s f rcs))))) rcs).
Proof.
  intros S rcs; induction rcs as [|r rcs IH]; intros s f; [reflexivity|].
  cbn [rsCyclesFrom traceFrom combine map inpkt fst snd]. f_equal.
  rewrite IH. f_equal. f_equal. f_equal.
  unfold rs_flag_next, evAt, rs_cyc, rs_valid; simpl.
  destruct f, (r_sop r), (r_eop r), (bwd S s _ _ _); reflexivity.
Qed.
