(* C13 — soundness of the identifier part of the file checker (VhdlLexDefs.v). *)
Require Import String Ascii List NArith Bool Arith Lia.
From Gatery Require Import Vhdl2008Reserved NamesDefs NamesProofs VhdlLexDefs.
Import ListNotations.
Open Scope string_scope.
Open Scope list_scope.

Lemma ident_ok_spec : forall x,
  ident_ok x = true -> legal_basic_ident x = true /\ ~ In (lower x) vhdl2008_reserved.
Proof.
  unfold ident_ok. intros x H. apply andb_true_iff in H as [H1 H2]. split; auto.
  apply negb_true_iff in H2. apply memb_false_In. exact H2.
Qed.

(* the tokenizer never classifies a reserved word (any letter case) as an identifier *)
Lemma mk_word_not_reserved : forall a s, mk_word a = TId s -> ~ In (lower s) vhdl2008_reserved.
Proof.
  unfold mk_word. intros a s H.
  destruct (memb (lower (srev a)) vhdl2008_reserved) eqn:E; [discriminate|].
  inversion H; subst. apply memb_false_In. exact E.
Qed.

(* ---- the event-log validator ---------------------------------------------------------------
   every EDecl n in an accepted log is ident_ok and, ignoring case, differs from every name
   declared so far in the SAME declarative region (the innermost open one) *)
Lemma events_go_sound : forall evs stack,
  events_go stack evs = true ->
  forall pre n post, evs = pre ++ EDecl n :: post ->
  exists top stk, open_after stack pre = Some (top :: stk)
              /\ ident_ok n = true /\ ~ In (lower n) top.
Proof.
  induction evs as [|e evs IH]; intros stack H pre n post E.
  - destruct pre; discriminate.
  - destruct pre as [|e' pre].
    + simpl in E. inversion E; subst e evs. simpl in H.
      destruct stack as [|top st]; [discriminate|].
      apply andb_true_iff in H as [H H3]. apply andb_true_iff in H as [H1 H2].
      exists top, st. split; [reflexivity|]. split; [exact H1|].
      apply negb_true_iff in H2. apply memb_false_In. exact H2.
    + simpl in E. inversion E; subst e' evs. clear E.
      destruct e as [|ns| |m]; simpl in H |- *.
      * eapply IH; eauto.
      * eapply IH; eauto.
      * destruct stack as [|top st]; [discriminate|]. eapply IH; eauto.
      * destruct stack as [|top st]; [discriminate|].
        apply andb_true_iff in H as [_ H3]. eapply IH; eauto.
Qed.

Lemma list_eqb_eq : forall a b, list_eqb a b = true -> a = b.
Proof.
  induction a as [|x a IH]; destruct b as [|y b]; simpl; intros H; try discriminate; auto.
  apply andb_true_iff in H as [H1 H2]. apply String.eqb_eq in H1. subst. f_equal. auto.
Qed.

(* ---- the whole check ---------------------------------------------------------------------- *)
Lemma check_design_tokens_sound : forall files s,
  check_design_tokens files = Ok s ->
  (forall f, In f files ->
     exists sites, decl_sites None f = Some sites
       /\ forall x, In x sites -> legal_basic_ident x = true /\ ~ In (lower x) vhdl2008_reserved)
  /\ exists evs,
       event_decls evs = flat_map sites_of (order_files files)
       /\ forall pre n post, evs = pre ++ EDecl n :: post ->
            exists top stk, open_after [] pre = Some (top :: stk) /\ ~ In (lower n) top.
Proof.
  unfold check_design_tokens. intros files s H.
  destruct (check_files init_sstate (order_files files)) as [st|c x] eqn:CF; simpl in H; [|discriminate].
  destruct (sites_ok files) eqn:S1; simpl in H; [|discriminate].
  destruct (events_ok (rev (events st))) eqn:S2; simpl in H; [|discriminate].
  destruct (list_eqb (event_decls (rev (events st))) (flat_map sites_of (order_files files))) eqn:S3;
    simpl in H; [|discriminate].
  clear H. split.
  - intros f Hf. unfold sites_ok in S1. rewrite forallb_forall in S1. specialize (S1 f Hf).
    destruct (decl_sites None f) as [sites|]; [|discriminate]. exists sites. split; auto.
    intros y Hy. rewrite forallb_forall in S1. apply ident_ok_spec. auto.
  - exists (rev (events st)). split; [apply list_eqb_eq; exact S3|].
    intros pre n post E. unfold events_ok in S2.
    destruct (events_go_sound _ _ S2 pre n post E) as [top [stk [A [_ B]]]]. eauto.
Qed.

(* ================================================================================================
   must-assign analysis of the process flow skeleton: on EVERY control path every read of a
   process variable is preceded by a write of that variable in the same activation            *)

Fixpoint after (a : list string) (tr : list act) : list string :=
  match tr with
  | [] => a
  | ARead _ :: r => after a r
  | AWrite x :: r => after (x :: a) r
  end.

Lemma trace_ok_app : forall p q a, trace_ok a (p ++ q) = trace_ok a p && trace_ok (after a p) q.
Proof.
  induction p as [|[x|x] p IH]; intros q a; simpl; auto.
  rewrite IH, andb_assoc. reflexivity.
Qed.

Lemma after_app : forall p q a, after a (p ++ q) = after (after a p) q.
Proof. induction p as [|[x|x] p IH]; intros; simpl; auto. Qed.

Lemma after_ext : forall tr a, incl a (after a tr).
Proof.
  induction tr as [|[x|x] tr IH]; intros a; simpl; auto using incl_refl.
  eapply incl_tran; [|apply IH]. apply incl_tl, incl_refl.
Qed.

Lemma after_mono : forall tr a b, incl a b -> incl (after a tr) (after b tr).
Proof.
  induction tr as [|[x|x] tr IH]; intros a b H; simpl; auto.
  apply IH. intros y [Hy|Hy]; [left; exact Hy | right; apply H; exact Hy].
Qed.

Lemma memb_mono : forall x a b, incl a b -> memb x a = true -> memb x b = true.
Proof. intros x a b H Hm. apply memb_In. apply H. apply memb_In. exact Hm. Qed.

Lemma reads_ok : forall g b, (forall x, In x g -> In x b) -> trace_ok b (map ARead g) = true.
Proof.
  induction g as [|x g IH]; intros b H; simpl; auto.
  rewrite IH by (intros; apply H; right; assumption).
  rewrite andb_true_r. apply memb_In. apply H. left. reflexivity.
Qed.

Lemma reads_after : forall g b, after b (map ARead g) = b.
Proof. induction g; simpl; auto. Qed.

Lemma meet_opt_spec : forall j a1 r, meet_opt j a1 = Some r ->
  incl r a1 /\ (forall r0, j = Some r0 -> incl r r0).
Proof.
  intros [b|] a1 r H; simpl in H; inversion H; subst.
  - split.
    + intros x Hx. apply filter_In in Hx as [_ Hx]. apply memb_In. exact Hx.
    + intros r0 E. inversion E; subst. intros x Hx. apply filter_In in Hx as [Hx _]. exact Hx.
  - split; [apply incl_refl | discriminate].
Qed.

Lemma must_b_none : forall a br, must_b a br = Some None -> br = BNil.
Proof.
  intros a [|g body r]; simpl; auto. intros H.
  destruct (forallb (fun x => memb x a) g); [|discriminate].
  destruct (must_t a body); [|discriminate].
  destruct (must_b a r) as [j|]; [|discriminate].
  destruct j; simpl in H; discriminate.
Qed.

Scheme stmt_mut := Induction for stmt Sort Prop
  with branches_mut := Induction for branches Sort Prop
  with stmts_mut := Induction for stmts Sort Prop.
Combined Scheme flow_mutind from stmt_mut, branches_mut, stmts_mut.

Definition P_s (s : stmt) : Prop := forall a a' b,
  must_s a s = Some a' -> incl a b ->
  forall tr, In tr (paths_s s) -> trace_ok b tr = true /\ incl a' (after b tr).
Definition P_b (br : branches) : Prop := forall a j b gpre total,
  must_b a br = Some j -> incl a b -> (forall x, In x gpre -> In x a) ->
  forall tr, In tr (paths_b gpre br total) ->
    trace_ok b tr = true /\ incl a (after b tr)
    /\ (total = true -> forall r, j = Some r -> incl r (after b tr)).
Definition P_t (t : stmts) : Prop := forall a a' b,
  must_t a t = Some a' -> incl a b ->
  forall tr, In tr (paths_t t) -> trace_ok b tr = true /\ incl a' (after b tr).

Lemma must_sound_all : (forall s, P_s s) /\ (forall br, P_b br) /\ (forall t, P_t t).
Proof.
  apply flow_mutind; unfold P_s, P_b, P_t.
  - (* SRead *) intros x a a' b H Hab tr [<-|[]]. simpl in *.
    destruct (memb x a) eqn:E; [|discriminate]. inversion H; subst.
    rewrite (memb_mono x a' b Hab E). split; [reflexivity | exact Hab].
  - (* SWrite *) intros x a a' b H Hab tr [<-|[]]. simpl in *. inversion H; subst.
    split; [reflexivity|]. intros y [Hy|Hy]; [left; exact Hy | right; apply Hab; exact Hy].
  - (* SBranch *) intros br IH total a a' b H Hab tr Htr. simpl in H, Htr.
    destruct (must_b a br) as [j|] eqn:E; [|discriminate].
    destruct (IH a j b [] total E Hab (fun x (F : In x []) => match F with end) tr Htr) as (T & I & J).
    split; [exact T|].
    destruct total.
    + destruct j as [r|]; inversion H; subst; [apply J; reflexivity | exact I].
    + inversion H; subst. exact I.
  - (* BNil *) intros a j b gpre total H Hab Hg tr Htr. simpl in Htr.
    destruct total; [contradiction|]. destruct Htr as [<-|[]].
    rewrite reads_ok by (intros x Hx; apply Hab, Hg, Hx). rewrite reads_after.
    split; [reflexivity|]. split; [exact Hab | discriminate].
  - (* BCons *) intros g body IHbody r IHr a j b gpre total H Hab Hg tr Htr. simpl in H, Htr.
    destruct (forallb (fun x => memb x a) g) eqn:G; [|discriminate].
    destruct (must_t a body) as [a1|] eqn:B; [|discriminate].
    destruct (must_b a r) as [j'|] eqn:R; [|discriminate].
    inversion H; subst j. clear H.
    assert (Hg' : forall x, In x (gpre ++ g) -> In x a).
    { intros x Hx. apply in_app_or in Hx as [Hx|Hx]; [apply Hg; exact Hx|].
      rewrite forallb_forall in G. apply memb_In. apply G. exact Hx. }
    apply in_app_or in Htr as [Htr|Htr].
    + apply in_map_iff in Htr as [p [<- Hp]].
      destruct (IHbody a a1 b B Hab p Hp) as (T & I).
      rewrite trace_ok_app, after_app, reads_after, T.
      rewrite reads_ok by (intros x Hx; apply Hab, Hg', Hx).
      split; [reflexivity|]. split.
      * eapply incl_tran; [exact Hab | apply after_ext].
      * intros _ r0 E. destruct (meet_opt_spec j' a1 r0 E) as [M _].
        eapply incl_tran; [exact M | exact I].
    + destruct (IHr a j' b (gpre ++ g) total R Hab Hg' tr Htr) as (T & I & J).
      split; [exact T|]. split; [exact I|].
      intros Ht r0 E. destruct (meet_opt_spec j' a1 r0 E) as [_ M].
      destruct j' as [r1|].
      * eapply incl_tran; [apply (M r1); reflexivity | apply J; auto].
      * apply must_b_none in R. subst r. simpl in Htr. rewrite Ht in Htr. contradiction.
  - (* TNil *) intros a a' b H Hab tr [<-|[]]. simpl in *. inversion H; subst. split; auto.
  - (* TCons *) intros s IHs r IHr a a' b H Hab tr Htr. simpl in H, Htr.
    destruct (must_s a s) as [a1|] eqn:S; [|discriminate].
    apply in_flat_map in Htr as [p1 [Hp1 Htr]]. apply in_map_iff in Htr as [p2 [<- Hp2]].
    destruct (IHs a a1 b S Hab p1 Hp1) as (T1 & I1).
    destruct (IHr a1 a' (after b p1) H I1 p2 Hp2) as (T2 & I2).
    rewrite trace_ok_app, after_app, T1, T2. split; [reflexivity | exact I2].
Qed.

(* `flow_sound` *)
Lemma flow_sound_proof : forall t a', must_t [] t = Some a' ->
  forall tr, In tr (paths_t t) -> trace_ok [] tr = true.
Proof.
  intros t a' H tr Htr. destruct must_sound_all as (_ & _ & HT).
  exact (proj1 (HT t [] a' [] H (incl_refl _) tr Htr)).
Qed.

Lemma check_design_flows_sound : forall files s,
  check_design_tokens files = Ok s ->
  forall vars t, In (vars, t) (sm_flows s) -> forall tr, In tr (paths_t t) -> trace_ok [] tr = true.
Proof.
  unfold check_design_tokens. intros files s H.
  destruct (check_files init_sstate (order_files files)) as [st|c x] eqn:CF; simpl in H; [|discriminate].
  destruct (sites_ok files); simpl in H; [|discriminate].
  destruct (events_ok (rev (events st))); simpl in H; [|discriminate].
  destruct (list_eqb _ _); simpl in H; [|discriminate].
  destruct (flows_ok (fl_done (fl st))) eqn:F; simpl in H; [|discriminate].
  destruct (check_insts st) as [[a b]|c x]; simpl in H; [|discriminate].
  inversion H; subst s; clear H. simpl. intros vars t Hin tr Htr.
  unfold flows_ok in F. rewrite forallb_forall in F. specialize (F _ Hin). simpl in F.
  destruct (must_t [] t) as [a'|] eqn:M; [|discriminate].
  eapply flow_sound_proof; eauto.
Qed.
