(* C13 — soundness of the identifier part of the file checker (VhdlLexDefs.v). *)
Require Import String Ascii List NArith Bool Arith Lia.
From Gatery Require Import Vhdl2008Reserved NamesDefs NamesProofs VhdlLexDefs.
Import ListNotations.
Open Scope string_scope.
Open Scope list_scope.

Lemma ident_ok_spec : forall x,
  ident_ok x = true -> legal_basic_ident x = true /\ ~ In (lower x) vhdl2008_reserved.
Proof.
  unfold ident_ok. intros x H. apply andb_true_iff in H as [H1 H2]. split; auto.
  apply negb_true_iff in H2. apply memb_false_In. exact H2.
Qed.

(* the tokenizer never classifies a reserved word (any letter case) as an identifier *)
Lemma mk_word_not_reserved : forall a s, mk_word a = TId s -> ~ In (lower s) vhdl2008_reserved.
Proof.
  unfold mk_word. intros a s H.
  destruct (memb (lower (srev a)) vhdl2008_reserved) eqn:E; [discriminate|].
  inversion H; subst. apply memb_false_In. exact E.
Qed.

(* ---- the event-log validator ---------------------------------------------------------------
   every EDecl n in an accepted log is ident_ok and, ignoring case, differs from every name
   declared so far in the SAME declarative region (the innermost open one) *)
Lemma events_go_sound : forall evs stack,
  events_go stack evs = true ->
  forall pre n post, evs = pre ++ EDecl n :: post ->
  exists top stk, open_after stack pre = Some (top :: stk)
              /\ ident_ok n = true /\ ~ In (lower n) top.
Proof.
  induction evs as [|e evs IH]; intros stack H pre n post E.
  - destruct pre; discriminate.
  - destruct pre as [|e' pre].
    + simpl in E. inversion E; subst e evs. simpl in H.
      destruct stack as [|top st]; [discriminate|].
      apply andb_true_iff in H as [H H3]. apply andb_true_iff in H as [H1 H2].
      exists top, st. split; [reflexivity|]. split; [exact H1|].
      apply negb_true_iff in H2. apply memb_false_In. exact H2.
    + simpl in E. inversion E; subst e' evs. clear E.
      destruct e as [|ns| |m]; simpl in H |- *.
      * eapply IH; eauto.
      * eapply IH; eauto.
      * destruct stack as [|top st]; [discriminate|]. eapply IH; eauto.
      * destruct stack as [|top st]; [discriminate|].
        apply andb_true_iff in H as [_ H3]. eapply IH; eauto.
Qed.

Lemma list_eqb_eq : forall a b, list_eqb a b = true -> a = b.
Proof.
  induction a as [|x a IH]; destruct b as [|y b]; simpl; intros H; try discriminate; auto.
  apply andb_true_iff in H as [H1 H2]. apply String.eqb_eq in H1. subst. f_equal. auto.
Qed.

(* ---- the whole check ---------------------------------------------------------------------- *)
Lemma check_design_tokens_sound : forall files s,
  check_design_tokens files = Ok s ->
  (forall f, In f files ->
     exists sites, decl_sites None f = Some sites
       /\ forall x, In x sites -> legal_basic_ident x = true /\ ~ In (lower x) vhdl2008_reserved)
  /\ exists evs,
       event_decls evs = flat_map sites_of (order_files files)
       /\ forall pre n post, evs = pre ++ EDecl n :: post ->
            exists top stk, open_after [] pre = Some (top :: stk) /\ ~ In (lower n) top.
Proof.
  unfold check_design_tokens. intros files s H.
  destruct (check_files init_sstate (order_files files)) as [st|c x] eqn:CF; simpl in H; [|discriminate].
  destruct (sites_ok files) eqn:S1; simpl in H; [|discriminate].
  destruct (events_ok (rev (events st))) eqn:S2; simpl in H; [|discriminate].
  destruct (list_eqb (event_decls (rev (events st))) (flat_map sites_of (order_files files))) eqn:S3;
    simpl in H; [|discriminate].
  clear H. split.
  - intros f Hf. unfold sites_ok in S1. rewrite forallb_forall in S1. specialize (S1 f Hf).
    destruct (decl_sites None f) as [sites|]; [|discriminate]. exists sites. split; auto.
    intros y Hy. rewrite forallb_forall in S1. apply ident_ok_spec. auto.
  - exists (rev (events st)). split; [apply list_eqb_eq; exact S3|].
    intros pre n post E. unfold events_ok in S2.
    destruct (events_go_sound _ _ S2 pre n post E) as [top [stk [A [_ B]]]]. eauto.
Qed.
