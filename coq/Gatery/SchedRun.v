(* C04 -- scheduler and registers together: every step of the model is the closed-form instant,
   the invariants hold along every run, and a register output changes only when its own clock
   domain is activated or its own reset pin has an event. *)
From Coq Require Import QArith Qreduction Permutation Sorted Lia.
Require Import Gatery.Bits.
Require Import Gatery.gen.EventOrder.
Require Import Gatery.SchedDefs.
Require Import Gatery.SchedOrder.
Require Import Gatery.SchedClocks.
Require Import Gatery.SchedTime.
Require Import Gatery.SchedRegs.
Import ListNotations.
Local Close Scope Q_scope.

(* at no time two reset events of one reset pin, at most one process resumption *)
Definition events_ok (s : sched) : Prop :=
  forall t, NoDup (map (fun e => snd (fst e)) (filter (fun e => Qeq_bool (fst (fst e)) t) (sc_rst s))) /\
            length (filter (fun e => Qeq_bool (fst (fst e)) t) (sc_stim s)) <= 1.

Definition ie_P (ie : instant_events) : list (nat * bool) := map (fun x => (fst (fst x), snd (fst x))) (ie_clk ie).
Definition step_R (s : sched) (t : Q) : list (nat * bool) :=
  map (fun e => (snd (fst e), snd e)) (filter (fun e => Qeq_bool (fst (fst e)) t) (sc_rst s)).
Definition step_S (s : sched) (t : Q) : list (N * nat) :=
  map (fun e => (snd (fst e), N.to_nat (snd (fst e)))) (filter (fun e => Qeq_bool (fst (fst e)) t) (sc_stim s)).

Lemma sched_step_events s s' ie :
  sched_step s = Some (s', ie) ->
  ie_events ie = evs_of (ie_time ie) (ie_P ie) (step_R s (ie_time ie)) (step_S s (ie_time ie)).
Proof.
  unfold sched_step. destruct (next_time s) as [t|]; [|discriminate].
  intro E. inversion E; subst; clear E. unfold evs_of, ie_P, step_R, step_S. simpl.
  rewrite !map_map. reflexivity.
Qed.

Lemma NoDup_map_filter {A B} (f : A -> B) (g : A -> bool) l : NoDup (map f l) -> NoDup (map f (filter g l)).
Proof.
  induction l as [|x l IH]; simpl; intro H; [constructor|].
  inversion H as [|? ? Hn Hd]; subst.
  destruct (g x); simpl; [|apply IH, Hd].
  constructor; [|apply IH, Hd].
  intro C. apply Hn. apply in_map_iff in C. destruct C as (y & Ey & Hy). apply filter_In in Hy.
  apply in_map_iff. exists y. split; [exact Ey | apply Hy].
Qed.

Lemma filter_comm {A} (f g : A -> bool) l : filter f (filter g l) = filter g (filter f l).
Proof.
  induction l as [|x l IH]; simpl; [reflexivity|].
  destruct (f x) eqn:Ef, (g x) eqn:Eg; simpl; rewrite ?Ef, ?Eg, IH; reflexivity.
Qed.

Lemma filter_length_le_ {A} (f : A -> bool) l : length (filter f l) <= length l.
Proof. induction l; simpl; [lia|]. destruct (f a); simpl; lia. Qed.

Lemma clock_pins_nodup cfg : NoDup (clock_pins cfg).
Proof. unfold clock_pins. apply NoDup_filter, seq_NoDup. Qed.

Lemma rst_of_events_evs t P R S : rst_of_events (evs_of t P R S) = R.
Proof.
  unfold rst_of_events, evs_of.
  rewrite !filter_app, (filter_map_none _ (cvc_ev t)), (filter_map_all _ (rvc_ev t)), (filter_map_none _ (spr_ev t)) by reflexivity.
  simpl. rewrite app_nil_r, map_map. simpl. apply pair_eta_map.
Qed.

Lemma events_ok_step s s' ie : events_ok s -> sched_step s = Some (s', ie) -> events_ok s'.
Proof.
  intros H E. apply sched_step_inv in E. destruct E as (t & _ & _ & _ & _ & _ & Hr & Hs).
  intro t'. destruct (H t') as [H1 H2]. rewrite Hr, Hs. split.
  - rewrite filter_comm. apply NoDup_map_filter. exact H1.
  - rewrite filter_comm. eapply Nat.le_trans; [apply filter_length_le_ | exact H2].
Qed.

(* one step of the model = the closed-form instant; all invariants are kept *)
Theorem step_spec cfg comb s d s' d' lg :
  order_ok cfg -> sinv cfg s -> events_ok s -> data_ok cfg d -> latched cfg comb d ->
  step cfg comb (s, d) = Some (s', d', lg) ->
  exists ie, sched_step s = Some (s', ie) /\
    d' = spec_instant cfg comb (ie_P ie) (step_R s (ie_time ie)) (step_S s (ie_time ie)) d /\
    lg = mk_log (ie_time ie) (ie_clk ie) (step_R s (ie_time ie)) (map r_out (d_regs d')) /\
    sinv cfg s' /\ events_ok s' /\ data_ok cfg d' /\ latched cfg comb d'.
Proof.
  intros Ho Hs He Hd Hl E. unfold step in E. simpl in E.
  destruct (sched_step s) as [[s1 ie]|] eqn:Es; [|discriminate].
  inversion E; subst; clear E. exists ie. split; [reflexivity|].
  pose proof (sched_step_events _ _ _ Es) as Hev.
  pose proof Es as Es0. apply sched_step_inv in Es0.
  destruct Es0 as (t & _ & Ht & _ & _ & Hclk & _).
  assert (HP : NoDup (map fst (ie_P ie))).
  { assert (Em : map fst (ie_P ie) = map ps_clk (filter (fun p => Qeq_bool (ps_next p) t) (sc_pins s))).
    { unfold ie_P. rewrite Hclk, !map_map. reflexivity. }
    rewrite Em. apply NoDup_map_filter. destruct Hs as [Hm _]. rewrite Hm. apply clock_pins_nodup. }
  assert (HR : NoDup (map fst (step_R s (ie_time ie)))).
  { unfold step_R. rewrite map_map. simpl. apply (proj1 (He (ie_time ie))). }
  assert (HS : length (step_S s (ie_time ie)) <= 1).
  { unfold step_S. rewrite map_length. apply (proj2 (He (ie_time ie))). }
  assert (Hinst : instant cfg comb (ie_events ie) d =
                  spec_instant cfg comb (ie_P ie) (step_R s (ie_time ie)) (step_S s (ie_time ie)) d).
  { apply (instant_spec cfg comb (ie_time ie)); auto. rewrite Hev. apply Permutation_refl. }
  rewrite Hinst. split; [reflexivity|]. split.
  { rewrite Hev at 1. rewrite rst_of_events_evs. reflexivity. }
  split; [eapply sinv_step; eassumption|].
  split; [eapply events_ok_step; eassumption|].
  split.
  - unfold spec_instant. apply data_ok_latch. unfold data_ok. rewrite stim_fold_regs.
    apply data_ok_latch, data_ok_spec_reset, data_ok_spec_clock, Hd.
  - unfold spec_instant. apply latched_latch.
Qed.

(* ------------------------------------------------------------------------- *)
(** * States reached from power-on *)

Fixpoint reach_from (cfg : config) (comb : network) (n : nat) (st : sched * data) : option (sched * data) :=
  match n with
  | O => Some st
  | S m => match step cfg comb st with
           | None => None
           | Some (s', d', _) => reach_from cfg comb m (s', d')
           end
  end.
Definition reach (cfg : config) (comb : network) (n : nat) : option (sched * data) :=
  reach_from cfg comb n (sched_init cfg, power_on cfg comb).

Lemma length_apply_regs order f regs : length (apply_regs order f regs) = length regs.
Proof.
  unfold apply_regs. revert regs. induction order as [|r o IH]; intro regs; simpl; [reflexivity|].
  rewrite IH, length_upd. reflexivity.
Qed.

Lemma data_ok_reset_value_change cfg s lv d : data_ok cfg d -> data_ok cfg (reset_value_change cfg s lv d).
Proof. unfold data_ok, reset_value_change. simpl. rewrite length_apply_regs. auto. Qed.

Lemma data_ok_poweron_resets cfg d : data_ok cfg d -> data_ok cfg (poweron_resets cfg d).
Proof.
  unfold poweron_resets. generalize (reset_pins cfg). intro l. revert d.
  induction l as [|s l IH]; intros d H; simpl; [exact H|].
  apply IH. destruct (Qis_zero (reset_hold_time cfg s)); repeat apply data_ok_reset_value_change; exact H.
Qed.

Lemma power_on_ok cfg comb : data_ok cfg (power_on cfg comb) /\ latched cfg comb (power_on cfg comb).
Proof.
  unfold power_on. split; [|apply latched_latch].
  apply data_ok_latch.
  assert (H : forall (l : list (Q * list (nat * bv))) d, data_ok cfg d -> data_ok cfg (fold_left (fun d e => apply_stim (snd e) d) l d)).
  { induction l as [|e l IH]; intros d Hd; simpl; [exact Hd|]. apply IH, data_ok_apply_stim, Hd. }
  apply H, data_ok_latch, data_ok_poweron_resets.
  unfold data_ok, data_cleared. simpl. rewrite length_mapi, map_length. reflexivity.
Qed.

Record cfg_ok (cfg : config) : Prop := mk_cfg_ok {
  co_order : order_ok cfg;
  co_events : events_ok (sched_init cfg) }.

Definition state_inv (cfg : config) (comb : network) (st : sched * data) : Prop :=
  sinv cfg (fst st) /\ events_ok (fst st) /\ data_ok cfg (snd st) /\ latched cfg comb (snd st).

Lemma reach_from_inv cfg comb n : forall st st',
  order_ok cfg -> state_inv cfg comb st -> reach_from cfg comb n st = Some st' -> state_inv cfg comb st'.
Proof.
  induction n as [|n IH]; intros [s d] st' Ho Hi E; simpl in E.
  - inversion E; subst. exact Hi.
  - destruct (step cfg comb (s, d)) as [[[s1 d1] lg]|] eqn:Es; [|discriminate].
    destruct Hi as (H1 & H2 & H3 & H4). simpl in *.
    destruct (step_spec cfg comb s d s1 d1 lg Ho H1 H2 H3 H4 Es) as (ie & _ & _ & _ & J1 & J2 & J3 & J4).
    apply (IH (s1, d1) st' Ho); [exact (conj J1 (conj J2 (conj J3 J4))) | exact E].
Qed.

Theorem reach_inv cfg comb n st :
  cfg_ok cfg -> reach cfg comb n = Some st -> state_inv cfg comb st.
Proof.
  intros [Ho He] E. apply (reach_from_inv cfg comb n (sched_init cfg, power_on cfg comb) st Ho); [|exact E].
  destruct (power_on_ok cfg comb) as [H1 H2].
  exact (conj (sinv_init cfg) (conj He (conj H1 H2))).
Qed.

(* the scheduler component does not depend on the data *)
Lemma reach_from_sched cfg comb n : forall s d s' d',
  reach_from cfg comb n (s, d) = Some (s', d') ->
  s' = sched_after n s /\ forall s2 ie, sched_step s' = Some (s2, ie) -> In ie (sched_run (S n) s).
Proof.
  induction n as [|n IH]; intros s d s' d' E.
  - simpl in E. inversion E; subst. split; [reflexivity|].
    intros s2 ie Hs. simpl. rewrite Hs. left. reflexivity.
  - simpl in E. unfold step in E. simpl in E.
    destruct (sched_step s) as [[s1 ie1]|] eqn:Es; [|discriminate].
    destruct (IH _ _ _ _ E) as [H1 H2].
    split.
    + simpl. rewrite Es. exact H1.
    + intros s2 ie Hs. specialize (H2 s2 ie Hs).
      change (sched_run (S (S n)) s) with (match sched_step s with None => [] | Some (s', ie) => ie :: sched_run (S n) s' end).
      rewrite Es. right. exact H2.
Qed.

(* ------------------------------------------------------------------------- *)
(** * A register output changes only at an activation of its own domain or at an event of its own reset pin *)

Lemma existsb_map_ {A B} (f : B -> bool) (g : A -> B) l : existsb f (map g l) = existsb (fun x => f (g x)) l.
Proof. induction l; simpl; [reflexivity | rewrite IHl; reflexivity]. Qed.
Lemma existsb_ext_ {A} (f g : A -> bool) l : (forall x, f x = g x) -> existsb f l = existsb g l.
Proof. intro H. induction l; simpl; [reflexivity | rewrite H, IHl; reflexivity]. Qed.

Lemma triggered_domain_advanced cfg ie r :
  triggered cfg (ie_P ie) r = domain_advanced cfg ie (rg_clk (get_reg cfg r)).
Proof.
  unfold triggered, domain_advanced, ie_P. rewrite existsb_map_.
  apply existsb_ext_. intros [[p e] k]. simpl. unfold hit, reg_clock. rewrite Nat.eqb_sym. reflexivity.
Qed.

Lemma rst_level_some cfg R r lv :
  rst_level cfg R r = Some lv ->
  exists rp, In (rp, lv) R /\ rstsrc (cfg_clocks cfg) (rg_clk (get_reg cfg r)) = Some rp.
Proof.
  unfold rst_level. destruct (find (fun pe => on_rstpin cfg (fst pe) r) R) as [[rp l]|] eqn:E; [|discriminate].
  intro H. inversion H; subst. apply find_some in E. destruct E as [Hin Ho]. simpl in Ho.
  exists rp. split; [exact Hin|].
  unfold on_rstpin in Ho. destruct (rstsrc (cfg_clocks cfg) (rg_clk (get_reg cfg r))); [|discriminate].
  apply Nat.eqb_eq in Ho. congruence.
Qed.

(* first clause of C04: between two committed instants the output of register r differs only if r's clock domain
   was activated in that instant or r's reset pin had an event in that instant *)
Theorem register_changes_only_at_own_events cfg comb n s d s' d' lg r s0 s1 :
  cfg_ok cfg -> reach cfg comb n = Some (s, d) -> step cfg comb (s, d) = Some (s', d', lg) ->
  nth_error (d_regs d) r = Some s0 -> nth_error (d_regs d') r = Some s1 ->
  r_out s1 <> r_out s0 ->
  (exists ie, In ie (sched_run (S n) (sched_init cfg)) /\ lg_time lg = ie_time ie /\ lg_clk lg = ie_clk ie /\
              domain_advanced cfg ie (rg_clk (get_reg cfg r)) = true)
  \/ (exists rp lv, In (rp, lv) (lg_rst lg) /\ rstsrc (cfg_clocks cfg) (rg_clk (get_reg cfg r)) = Some rp).
Proof.
  intros Hok Hr Hs H0 H1 Hne.
  destruct (reach_inv cfg comb n (s, d) Hok Hr) as (I1 & I2 & I3 & I4). simpl in *.
  destruct (step_spec cfg comb s d s' d' lg (co_order cfg Hok) I1 I2 I3 I4 Hs) as (ie & Es & Hd & Hlg & _).
  destruct (triggered cfg (ie_P ie) r) eqn:Et.
  - left. exists ie. unfold reach in Hr.
    destruct (reach_from_sched cfg comb n _ _ _ _ Hr) as [_ Hin].
    rewrite Hlg. simpl. repeat split; auto.
    + eapply Hin. exact Es.
    + rewrite <- triggered_domain_advanced. exact Et.
  - destruct (rst_level cfg (step_R s (ie_time ie)) r) as [lv|] eqn:El.
    + right. destruct (rst_level_some cfg _ r lv El) as (rp & Hin & Hsrc).
      exists rp, lv. rewrite Hlg. simpl. auto.
    + exfalso.
      destruct (untouched_register_holds cfg comb _ _ (step_S s (ie_time ie)) d r s0 I4 H0 Et El) as [Ho _].
      rewrite <- Hd, H1 in Ho. simpl in Ho. inversion Ho. contradiction.
Qed.

(* second clause: what the register holds after an instant without event on its reset pin -- the value its input
   had immediately before the instant (network evaluated on the PREVIOUS committed state), whatever else was
   triggered at the same instant and in whatever order *)
Theorem sync_sample_run cfg comb n s d s' d' lg r s0 :
  cfg_ok cfg -> reach cfg comb n = Some (s, d) -> step cfg comb (s, d) = Some (s', d', lg) ->
  nth_error (d_regs d) r = Some s0 ->
  rst_level cfg (lg_rst lg) r = None ->
  option_map r_out (nth_error (d_regs d') r) =
  Some (next_out cfg comb (map (fun x => (fst (fst x), snd (fst x))) (lg_clk lg)) d r s0).
Proof.
  intros Hok Hr Hs H0 Hn.
  destruct (reach_inv cfg comb n (s, d) Hok Hr) as (I1 & I2 & I3 & I4). simpl in *.
  destruct (step_spec cfg comb s d s' d' lg (co_order cfg Hok) I1 I2 I3 I4 Hs) as (ie & Es & Hd & Hlg & _).
  rewrite Hlg in Hn |- *. simpl in *.
  destruct (instant_outputs cfg comb (ie_P ie) (step_R s (ie_time ie)) (step_S s (ie_time ie)) d r s0 I4 H0)
    as (t1 & t2 & _ & H2 & _ & H4 & H5 & _).
  rewrite Hn in H4. subst t2. rewrite Hd, H5, H2. reflexivity.
Qed.

Lemma reg_clock_has_nodes cfg r :
  r < length (cfg_regs cfg) -> has_nodes cfg (rg_clk (get_reg cfg r)) = true.
Proof.
  intro H. unfold has_nodes. apply orb_true_iff. left. apply existsb_exists.
  exists (get_reg cfg r). split; [apply nth_In; exact H | apply Nat.eqb_refl].
Qed.

(* both clauses combined with the schedule: a change of register r's output happens at k/(2f) for a toggle k of its
   clock pin that activates its domain, or at an event of its reset pin *)
Theorem register_change_times cfg comb n s d s' d' lg r s0 s1 :
  cfg_ok cfg -> times_ok cfg -> clocks_wf (cfg_clocks cfg) ->
  r < length (cfg_regs cfg) -> rg_clk (get_reg cfg r) < length (cfg_clocks cfg) ->
  reach cfg comb n = Some (s, d) -> step cfg comb (s, d) = Some (s', d', lg) ->
  nth_error (d_regs d) r = Some s0 -> nth_error (d_regs d') r = Some s1 ->
  r_out s1 <> r_out s0 ->
  let c := rg_clk (get_reg cfg r) in
  (exists k, (1 <= k)%N /\ (lg_time lg == Q_of_N k * half_of cfg c)%Q /\
             activates (trig_of cfg c) (trig_of cfg (pinsrc (cfg_clocks cfg) c)) k = true)
  \/ (exists rp lv, In (rp, lv) (lg_rst lg) /\ rstsrc (cfg_clocks cfg) c = Some rp).
Proof.
  intros Hok Ht Hwf Hr Hc Hre Hs H0 H1 Hne c.
  destruct (register_changes_only_at_own_events cfg comb n s d s' d' lg r s0 s1 Hok Hre Hs H0 H1 Hne)
    as [(ie & Hin & Htime & _ & Hadv)|H]; [left | right; exact H].
  assert (Hrel : relevant cfg c = true).
  { apply has_nodes_relevant; [exact Hc | apply reg_clock_has_nodes; exact Hr]. }
  rewrite Htime. apply (activation_times_general cfg (S n) ie c Ht Hwf Hrel Hin). exact Hadv.
Qed.

(* ------------------------------------------------------------------------- *)
(** * Power-on values *)

(* Node_Register::simulatePowerOn writes the reset value (undefined when there is none); neither
   initializeRegs nor the kind / polarity of the reset has any influence on the value at time 0 *)
Definition power_on_value (cfg : config) (r : nat) : bv :=
  match rg_rstval (get_reg cfg r) with Some v => v | None => all_X (rg_width (get_reg cfg r)) end.

Definition outs_are (cfg : config) (regs : list rstate) : Prop :=
  forall k s, nth_error regs k = Some s -> r_out s = power_on_value cfg k.

Lemma reg_reset_change_pov cfg k c lv s :
  r_out s = power_on_value cfg k -> r_out (reg_reset_change c (get_reg cfg k) lv s) = power_on_value cfg k.
Proof.
  intro H. unfold reg_reset_change, write_reset_value, power_on_value in *.
  destruct (reg_in_reset c (get_reg cfg k) lv && rstkind_eqb (ck_rst c) RST_ASYNC); [|exact H].
  destruct (rg_rstval (get_reg cfg k)); simpl; auto.
Qed.

Lemma outs_are_apply_regs cfg order (f : nat -> rstate -> rstate) : forall regs,
  (forall k s, r_out s = power_on_value cfg k -> r_out (f k s) = power_on_value cfg k) ->
  outs_are cfg regs -> outs_are cfg (apply_regs order f regs).
Proof.
  unfold apply_regs. induction order as [|r o IH]; intros regs Hf H; simpl; [exact H|].
  apply IH; [exact Hf|]. intros k s Hk. rewrite nth_error_upd in Hk.
  destruct (Nat.eqb r k) eqn:E.
  - apply Nat.eqb_eq in E. subst k. destruct (nth_error regs r) eqn:En; [|discriminate].
    simpl in Hk. inversion Hk; subst. apply Hf. apply (H r _ En).
  - apply (H k s Hk).
Qed.

Lemma outs_are_reset_value_change cfg s lv d :
  outs_are cfg (d_regs d) -> outs_are cfg (d_regs (reset_value_change cfg s lv d)).
Proof.
  intro H. unfold reset_value_change. simpl. apply outs_are_apply_regs; [|exact H].
  intros k x Hx. destruct (on_rstpin cfg s k); [apply reg_reset_change_pov; exact Hx | exact Hx].
Qed.

Theorem power_on_outputs cfg comb r s :
  nth_error (d_regs (power_on cfg comb)) r = Some s -> r_out s = power_on_value cfg r.
Proof.
  assert (H : outs_are cfg (d_regs (power_on cfg comb))); [|apply H].
  unfold power_on.
  assert (Hl : forall d, outs_are cfg (d_regs d) -> outs_are cfg (d_regs (latch cfg comb d))).
  { intros d Hd k x Hk. unfold latch in Hk. simpl in Hk. rewrite nth_error_mapi in Hk.
    destruct (nth_error (d_regs d) k) eqn:E; [|discriminate]. simpl in Hk. inversion Hk; subst. simpl. apply (Hd k _ E). }
  apply Hl.
  assert (Hst : forall (l : list (Q * list (nat * bv))) d, outs_are cfg (d_regs d) ->
                 outs_are cfg (d_regs (fold_left (fun d e => apply_stim (snd e) d) l d))).
  { induction l as [|e l IH]; intros d Hd; simpl; [exact Hd|]. apply IH. exact Hd. }
  apply Hst, Hl.
  assert (Hpr : forall l d, outs_are cfg (d_regs d) ->
     outs_are cfg (d_regs (fold_left (fun d s =>
        let act := ck_active_high (get_clock (cfg_clocks cfg) s) in
        let d1 := reset_value_change cfg s act d in
        if Qis_zero (reset_hold_time cfg s) then (let flipped := negb act in reset_value_change cfg s flipped d1) else d1) l d))).
  { induction l as [|x l IH]; intros d Hd; simpl; [exact Hd|]. apply IH.
    destruct (Qis_zero (reset_hold_time cfg x)); repeat apply outs_are_reset_value_change; exact Hd. }
  apply Hpr. simpl.
  intros k x Hk. rewrite nth_error_mapi in Hk. unfold data_cleared in Hk. simpl in Hk.
  rewrite nth_error_map_ in Hk.
  destruct (nth_error (cfg_regs cfg) k) eqn:E; [|discriminate]. simpl in Hk. inversion Hk; subst.
  unfold reg_power_on, write_reset_value, power_on_value. simpl.
  destruct (rg_rstval (get_reg cfg k)); reflexivity.
Qed.
