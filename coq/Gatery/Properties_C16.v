(* C16 -- Stream pipeline stages preserve the transfer sequence under any back-pressure.
   Machines: StreamDefs.v (transcription of scl/stream/utils.h: regDownstream, regDownstreamBlocking,
   regReady, regDecouple, delay, stall, extendWidth, reduceWidth, and of scl/stream/Packet.h:
   widthExtend, widthReduce, matchWidth for streams without Empty/EmptyBits, and their sequential
   composition; tied to the real scl stages by checks/C16.py on every run).  Streams that carry
   EmptyBits are covered by the check's packet oracle only (differential, no theorem).  strm::fifo is C15's machine and is treated
   here as a black box (list oracle in the check only).
   Proofs: StreamSpec.v StreamCompose.v StreamStages.v StreamHold.v StreamChain.v StreamLive.v
   StreamRefute.v StreamTop.v.

   Quantifiers: every schedule = every list [cs] of per-cycle stage inputs (producer valid, payload,
   eop, meta word; consumer ready; stall conditions), of any length; every ratio r >= 1; every delay
   n; every chain description d : sdesc (arbitrary nesting of compositions).
   Vocabulary (StreamSpec.v): [trace S cs] = the run of stage S from reset, one event per cycle;
   [Tin]/[Tout] = the lists of records (payload, eop, meta) transferred (valid && ready) at the
   stage's input / output; [offin e]/[offout e] = the beat on offer in that cycle; [holdW w] = on wire w a
   beat that is valid and not accepted is offered unchanged in the next cycle; [prefix]. *)
From Coq Require Import List NArith Bool Arith Lia.
From Gatery Require Import StreamDefs StreamSpec StreamCompose StreamStages StreamHold StreamPacket StreamMeta StreamRs StreamChain StreamLive StreamRefute StreamTop.
Import ListNotations.

(* ---------------------------------------------------------------- stage_transfers, register stages *)
(* accepted = delivered ++ in flight, where the flight list is read off the registers (at most one
   record): nothing lost, duplicated, reordered; eop and meta are part of the record *)
Theorem regDownstream_transfers : forall cs,
  Tin (trace regDownS cs) = Tout (trace regDownS cs) ++ fl_reg (after regDownS cs) /\
  length (fl_reg (after regDownS cs)) <= 1.
Proof. exact regDownstream_transfers_l. Qed.
Print Assumptions regDownstream_transfers.

Theorem regDownstreamBlocking_transfers : forall cs,
  Tin (trace blockS cs) = Tout (trace blockS cs) ++ fl_reg (after blockS cs) /\
  length (fl_reg (after blockS cs)) <= 1.
Proof. exact regDownstreamBlocking_transfers_l. Qed.
Print Assumptions regDownstreamBlocking_transfers.

(* the skid buffer: in flight = the skid register when it is occupied *)
Theorem regReady_transfers : forall cs,
  Tin (trace readyS cs) = Tout (trace readyS cs) ++ fl_ready (after readyS cs) /\
  length (fl_ready (after readyS cs)) <= 1.
Proof. exact regReady_transfers_l. Qed.
Print Assumptions regReady_transfers.

Example regReady_skid_corner :
  (* ready falls in the very cycle valid rises: the beat goes into the skid register, is offered from
     there, and the next beat is not accepted before the first one left *)
  let b1 := mkBeat true [7%N] false 1%N in let b2 := mkBeat true [9%N] true 2%N in
  let cs := [mkCyc [] b1 false; mkCyc [] b2 false; mkCyc [] b2 true; mkCyc [] b2 true] in
  Tin (trace readyS cs) = [xf b1; xf b2] /\ Tout (trace readyS cs) = [xf b1; xf b2].
Proof. split; vm_compute; reflexivity. Qed.

(* regDecouple = regReady(regDownstreamBlocking(.)): delivered is a prefix of accepted, lag <= 2 *)
Theorem regDecouple_transfers : forall cs,
  prefix (Tout (trace decoupleS cs)) (Tin (trace decoupleS cs)) /\
  length (Tin (trace decoupleS cs)) <= length (Tout (trace decoupleS cs)) + 2.
Proof. exact regDecouple_transfers_l. Qed.
Print Assumptions regDecouple_transfers.

(* delay n = (n-1) x regDownstreamBlocking, then regDownstream: lag <= n *)
Theorem delay_transfers : forall n cs,
  prefix (Tout (trace (delayS n) cs)) (Tin (trace (delayS n) cs)) /\
  length (Tin (trace (delayS n) cs)) <= length (Tout (trace (delayS n) cs)) + n.
Proof. exact delay_transfers_l. Qed.
Print Assumptions delay_transfers.

(* stall never changes the transfer sequence, whatever its condition does *)
Theorem stall_transfers : forall k cs, Tin (trace (stallS k) cs) = Tout (trace (stallS k) cs).
Proof. exact stall_transfers_l. Qed.
Print Assumptions stall_transfers.

(* ---------------------------------------------------------------- stage_transfers, width converters *)
(* extendWidth ratio r: delivered = pack r accepted, exactly, at every time; fewer than r accepted
   beats wait for their group.  pack concatenates the payloads of r consecutive transfers and takes
   eop and meta from the LAST one (see extendWidth_unaligned_eop_refuted) *)
Theorem extendWidth_transfers : forall r cs, 1 <= r ->
  Tout (trace (extendS r) cs) = pack r (Tin (trace (extendS r) cs)) /\
  length (pacc r (Tin (trace (extendS r) cs))) < r.
Proof. exact extendWidth_transfers_l. Qed.
Print Assumptions extendWidth_transfers.

(* what pack means on aligned input: one packed record per full group *)
Theorem pack_of_groups : forall r gs, 1 <= r -> Forall (fun g => length g = r) gs ->
  pack r (concat gs) = map mkpacked gs.
Proof. exact pack_groups_l. Qed.
Print Assumptions pack_of_groups.

Example extendWidth_packs :
  let cs := [mkCyc [] (mkBeat true [1%N] false 5%N) false; mkCyc [] (mkBeat true [2%N] true 6%N) true] in
  1 <= 2 /\ Tout (trace (extendS 2) cs) = [([1%N; 2%N], true, 6%N)].
Proof. split; [repeat constructor | vm_compute; reflexivity]. Qed.

(* reduceWidth ratio r, PRODUCER-HOLD HYPOTHESIS (the ready/valid protocol: an offered beat stays
   until accepted): delivered = unpack r accepted ++ fewer than r sub-beats of the beat on offer.
   reduceWidth accepts a wide beat only together with its last sub-beat, so it is AHEAD of its input *)
Theorem reduceWidth_transfers : forall r cs, 1 <= r ->
  holdW (inW (trace (reduceS r) cs)) ->
  exists pend, Tout (trace (reduceS r) cs) = unpack r (Tin (trace (reduceS r) cs)) ++ pend /\ length pend < r.
Proof. exact reduceWidth_transfers_l. Qed.
Print Assumptions reduceWidth_transfers.

(* ... and those sub-beats are the leading slices of the beat on offer: delivered ++ offered-out is a
   prefix of unpack (accepted ++ offered-in) *)
Theorem reduceWidth_safe : forall r cs c, 1 <= r ->
  holdW (inW (trace (reduceS r) (cs ++ [c]))) ->
  prefix (Tout (trace (reduceS r) cs) ++ offout (evAt (reduceS r) (after (reduceS r) cs) c))
         (unpack r (Tin (trace (reduceS r) cs) ++ offin (evAt (reduceS r) (after (reduceS r) cs) c))).
Proof. exact reduceWidth_safe_l. Qed.
Print Assumptions reduceWidth_safe.

Example reduceWidth_hold_satisfiable :
  let b := mkBeat true [1%N; 2%N] true 3%N in
  let cs := [mkCyc [] b false; mkCyc [] b true; mkCyc [] b true] in
  holdW (inW (trace (reduceS 2) cs)) /\
  Tout (trace (reduceS 2) cs) = [([1%N], false, 3%N); ([2%N], true, 3%N)] /\ Tin (trace (reduceS 2) cs) = [xf b].
Proof.
  cbv zeta. split; [|split].
  - vm_compute. repeat split; intros; try reflexivity; try discriminate; try exact I.
  - vm_compute; reflexivity.
  - vm_compute; reflexivity.
Qed.

(* without the hypothesis the statement is false for the faithful model *)
Theorem reduceWidth_transfers_nohold_refuted : forall l,
  ~ prefix (Tout (trace (reduceS 2) reduce_nohold_witness)) (unpack 2 (Tin (trace (reduceS 2) reduce_nohold_witness) ++ l)).
Proof. exact reduce_nohold_refuted_w. Qed.
Print Assumptions reduceWidth_transfers_nohold_refuted.

(* and "delivered is a prefix of unpack(accepted)" is false even with a conformant producer *)
Theorem reduceWidth_prefix_refuted :
  EHold (reduceS 2) reduce_ahead_witness /\
  Tin (trace (reduceS 2) reduce_ahead_witness) = [] /\
  Tout (trace (reduceS 2) reduce_ahead_witness) = [ ([1%N], false, 0%N) ] /\
  ~ Strong (reduceS 2) (EHold (reduceS 2)) (unpack 2).
Proof. exact reduce_ahead_w. Qed.
Print Assumptions reduceWidth_prefix_refuted.

(* utils.h extendWidth loses an eop that is not on the last member of its group (by design) *)
Theorem extendWidth_unaligned_eop_refuted :
  Tin (trace (extendS 2) extend_eop_witness) = [ ([1%N], true, 3%N); ([2%N], false, 4%N) ] /\
  Tout (trace (extendS 2) extend_eop_witness) = [ ([1%N; 2%N], false, 4%N) ].
Proof. exact extend_unaligned_eop_w. Qed.
Print Assumptions extendWidth_unaligned_eop_refuted.


(* ---------------------------------------------------------------- Packet.h widthExtend / widthReduce / matchWidth *)
(* (streams without Empty/EmptyBits; the chain theorems stage_transfers* / stage_hold* below cover
   DPExtend / DPReduce inside arbitrary chains as well) *)

(* widthExtend ratio r of m-digit beats: delivered = ppack m r accepted, exactly and unconditionally.
   ppack replays the slot register: a group ends after r beats or at eop, the record carries the
   slots (those above a short group keep their old contents), eop and meta of the closing beat *)
Theorem widthExtend_transfers : forall m r cs,
  Tout (trace (pextendS m r) cs) = ppack m r (Tin (trace (pextendS m r) cs)).
Proof. exact widthExtend_transfers_l. Qed.
Print Assumptions widthExtend_transfers.

(* packet boundaries stay attached: the delivered records that carry eop are, in order, exactly the
   accepted beats that carried eop (with their meta word) -- no eop is dropped or invented,
   whatever the packet lengths (contrast extendWidth_unaligned_eop_refuted) *)
Theorem widthExtend_keeps_packet_boundaries : forall m r cs,
  map xmeta (filter xeop (Tout (trace (pextendS m r) cs))) = map xmeta (filter xeop (Tin (trace (pextendS m r) cs))).
Proof. exact widthExtend_keeps_packet_boundaries_l. Qed.
Print Assumptions widthExtend_keeps_packet_boundaries.

Theorem widthExtend_hold : forall m r cs,
  holdW (inW (trace (pextendS m r) cs)) -> holdW (outW (trace (pextendS m r) cs)).
Proof. exact widthExtend_hold_l. Qed.
Print Assumptions widthExtend_hold.

Example widthExtend_short_packet :
  (* a one-beat packet, then a two-beat packet, ratio 2: the first wide beat has an undefined upper slot (XD) *)
  let b x e := mkBeat true [x] e 1%N in
  let cs := [mkCyc [] (b 7%N true) true; mkCyc [] (b 1%N false) true; mkCyc [] (b 2%N true) true] in
  Tout (trace (pextendS 1 2) cs) = [([7%N; XD], true, 1%N); ([1%N; 2%N], true, 1%N)].
Proof. vm_compute. reflexivity. Qed.

(* widthReduce ratio r, PRODUCER-HOLD HYPOTHESIS: its run is event-for-event the run of utils.h
   reduceWidth (so eop(out) sits on the last slice of the eop beat), and the bookkeeping register
   sentBits / bitsPerBeatOut equals counter + 1 in every reachable state, pauses included *)
Theorem widthReduce_is_reduceWidth : forall r cs, 1 <= r ->
  holdW (inW (trace (preduceS r) cs)) ->
  trace (preduceS r) cs = trace (reduceS r) cs /\
  snd (after (preduceS r) cs) = S (fst (after (preduceS r) cs)) /\ fst (after (preduceS r) cs) < r.
Proof. exact widthReduce_is_reduceWidth_l. Qed.
Print Assumptions widthReduce_is_reduceWidth.

Theorem widthReduce_transfers : forall r cs, 1 <= r ->
  holdW (inW (trace (preduceS r) cs)) ->
  exists pend, Tout (trace (preduceS r) cs) = unpack r (Tin (trace (preduceS r) cs)) ++ pend /\ length pend < r.
Proof. exact widthReduce_transfers_l. Qed.
Print Assumptions widthReduce_transfers.

Theorem widthReduce_safe : forall r cs c, 1 <= r ->
  holdW (inW (trace (preduceS r) (cs ++ [c]))) ->
  prefix (Tout (trace (preduceS r) cs) ++ offout (evAt (preduceS r) (after (preduceS r) cs) c))
         (unpack r (Tin (trace (preduceS r) cs) ++ offin (evAt (preduceS r) (after (preduceS r) cs) c))).
Proof. exact widthReduce_safe_l. Qed.
Print Assumptions widthReduce_safe.

Theorem widthReduce_hold : forall r cs,
  holdW (inW (trace (preduceS r) cs)) -> holdW (outW (trace (preduceS r) cs)).
Proof. exact widthReduce_hold_l. Qed.
Print Assumptions widthReduce_hold.

Example widthReduce_pause_before_last_beat :
  (* a packet of two wide beats, the producer idles two cycles in front of the LAST wide beat while the
     consumer is ready: eop comes out on the last narrow beat and nothing is truncated *)
  let b1 := mkBeat true [1%N; 2%N] false 5%N in let b2 := mkBeat true [3%N; 4%N] true 5%N in
  let idle := mkBeat false [9%N; 9%N] true 0%N in
  let cs := [mkCyc [] b1 true; mkCyc [] b1 true; mkCyc [] idle true; mkCyc [] idle true; mkCyc [] b2 true; mkCyc [] b2 true] in
  holdW (inW (trace (preduceS 2) cs)) /\
  Tout (trace (preduceS 2) cs) = [([1%N], false, 5%N); ([2%N], false, 5%N); ([3%N], false, 5%N); ([4%N], true, 5%N)].
Proof.
  cbv zeta. split.
  - vm_compute. repeat split; intros; try reflexivity; try discriminate; try exact I.
  - vm_compute; reflexivity.
Qed.

(* matchWidth from m to t digits is, by construction, the converter chosen at elaboration time *)
Theorem matchWidth_cases : forall m t,
  (m < t -> matchD m t = DPExtend m (t / m)) /\ (t < m -> matchD m t = DPReduce (m / t)) /\ (m = t -> matchD m t = DDelay 0).
Proof. exact matchWidth_cases_l. Qed.
Print Assumptions matchWidth_cases.

Example packet_chain_example :
  let d := chainOf [DRegDown; matchD 1 2; DRegReady; matchD 2 1; DRegDecouple] in
  wfd d /\ gives_hold d = true /\ capd d = 6.
Proof. cbv zeta. split; [simpl; intuition lia|]. split; reflexivity. Qed.


(* ---------------------------------------------------------------- per-byte meta signals: ByteEnable *)
(* On a stream with scl::ByteEnable a model digit is the pair (byte, its enable bit) encoded as
   sym byte en = byte + 256 * en (the Error bit rides in the meta word the same way); the correspondence
   run checks that the real stages treat payload and enables in lockstep.  [xmap f] applies f to every
   digit of a transferred record; with f = sym_en it is the byte-enable word of the beat, with
   f = sym_byte its payload.  The theorems say: the byte enables (any per-digit view) of the narrow beats
   are the slices, in order, of the byte enables of the wide beats -- narrow beat k carries slice k --
   and symmetrically for packing. *)
Theorem byteEnable_encoding : forall b e, (b < 256)%N -> sym_byte (sym b e) = b /\ sym_en (sym b e) = e.
Proof. exact byteEnable_encoding_l. Qed.
Print Assumptions byteEnable_encoding.

Theorem unpack_digit_view : forall f r l, unpack r (map (xmap f) l) = map (xmap f) (unpack r l).
Proof. exact unpack_digit_view_l. Qed.
Print Assumptions unpack_digit_view.

Theorem pack_digit_view : forall f r l, pack r (map (xmap f) l) = map (xmap f) (pack r l).
Proof. exact pack_digit_view_l. Qed.
Print Assumptions pack_digit_view.

Theorem reduceWidth_byteEnable_slices : forall f r cs, 1 <= r -> holdW (inW (trace (reduceS r) cs)) ->
  exists pend, map (xmap f) (Tout (trace (reduceS r) cs)) = unpack r (map (xmap f) (Tin (trace (reduceS r) cs))) ++ pend /\ length pend < r.
Proof. exact reduceWidth_digit_view_l. Qed.
Print Assumptions reduceWidth_byteEnable_slices.

Theorem widthReduce_byteEnable_slices : forall f r cs, 1 <= r -> holdW (inW (trace (preduceS r) cs)) ->
  exists pend, map (xmap f) (Tout (trace (preduceS r) cs)) = unpack r (map (xmap f) (Tin (trace (preduceS r) cs))) ++ pend /\ length pend < r.
Proof. exact widthReduce_digit_view_l. Qed.
Print Assumptions widthReduce_byteEnable_slices.

Theorem extendWidth_byteEnable_packs : forall f r cs, 1 <= r ->
  map (xmap f) (Tout (trace (extendS r) cs)) = pack r (map (xmap f) (Tin (trace (extendS r) cs))).
Proof. exact extendWidth_digit_view_l. Qed.
Print Assumptions extendWidth_byteEnable_packs.

Example byteEnable_64_to_16 :
  (* 64 bit -> 16 bit (ratio 4, 2-byte narrow beats); byte enables of the wide beat, byte 0 first: 10 01 11 00 *)
  let ens := [1; 0; 0; 1; 1; 1; 0; 0]%N in let bytes := [11; 12; 13; 14; 15; 16; 17; 18]%N in
  let b := mkBeat true (map (fun p => sym (fst p) (snd p)) (combine bytes ens)) true 2%N in
  let cs := repeat (mkCyc [] b true) 4 in
  holdW (inW (trace (reduceS 4) cs)) /\
  map (fun x => map sym_en (xdata x)) (Tout (trace (reduceS 4) cs)) = [[1; 0]; [0; 1]; [1; 1]; [0; 0]]%N /\
  map (fun x => map sym_byte (xdata x)) (Tout (trace (reduceS 4) cs)) = [[11; 12]; [13; 14]; [15; 16]; [17; 18]]%N.
Proof.
  cbv zeta. split; [|split].
  - vm_compute. repeat split; intros; try reflexivity; try discriminate; try exact I.
  - vm_compute; reflexivity.
  - vm_compute; reflexivity.
Qed.


(* ---------------------------------------------------------------- streams without a Valid signal (RsPacketStream, SPacketStream) *)
(* metaSignals.h derives valid() = flag(sop & ready, eop & ready) | sop.  [rs_flags] is that flag register run over a
   wire trace of (sop, eop, ready) triples; [inpkt] is the specification "inside a packet", defined from the
   transfers alone (a beat is transferred when it is on offer -- inside a packet or sop -- and ready is high; the
   packet ends when a beat with eop is transferred).  They agree on EVERY trace, from every start value: *)
Theorem rs_flag_is_inside_packet : forall w f, rs_flags f w = inpkt f w.
Proof. exact rs_flag_is_inside_packet_l. Qed.
Print Assumptions rs_flag_is_inside_packet.

(* hence valid = inside a packet or at its first beat, in every cycle, whatever ready does *)
Theorem rs_valid_is_inside_or_sop : forall w,
  map (fun p => rs_valid (fst p) (fst (fst (snd p)))) (combine (rs_flags false w) w) =
  map (fun p => fst p || fst (fst (snd p))) (combine (inpkt false w) w).
Proof. exact rs_valid_is_inside_or_sop_l. Qed.
Print Assumptions rs_valid_is_inside_or_sop.

(* the flagInstantSet variant (valid = flag | sop & ready) makes the first beat of a packet wait for ready *)
Theorem rs_valid_instantset_refuted :
  rs_valid false true = true /\ rs_valid_instantset false true false = false.
Proof. exact StreamRs.rs_valid_instantset_refuted. Qed.
Print Assumptions rs_valid_instantset_refuted.

(* An Rs stream runs through the SAME stage machines: [rsCycles S rcs] turns the per-cycle (sop, payload, eop,
   meta, ready_out) of the Rs producer into the stage inputs by supplying the derived valid (the flag uses the
   ready the stage itself returns).  The valid the stage sees is the specified one w.r.t. the transfers at its input: *)
Theorem rs_stage_sees_specified_valid : forall S rcs,
  map (fun c => bvalid (c_in c)) (rsCycles S rcs) =
  map (fun p => fst p || r_sop (snd p))
      (combine (inpkt false (map (fun p => (r_sop (fst p), r_eop (fst p), e_rin (snd p)))
                                 (combine rcs (trace S (rsCycles S rcs))))) rcs).
Proof. exact rs_stage_sees_specified_valid_l. Qed.
Print Assumptions rs_stage_sees_specified_valid.

(* ... so every theorem above (they quantify over ALL input sequences cs) holds for Rs runs; two instances spelled out *)
Theorem rs_reduceWidth_transfers : forall r rcs, 1 <= r ->
  let cs := rsCycles (reduceS r) rcs in
  holdW (inW (trace (reduceS r) cs)) ->
  exists pend, Tout (trace (reduceS r) cs) = unpack r (Tin (trace (reduceS r) cs)) ++ pend /\ length pend < r.
Proof. exact rs_reduceWidth_transfers_l. Qed.
Print Assumptions rs_reduceWidth_transfers.

Theorem rs_stage_transfers_conformant : forall d rcs c, wfd d ->
  let cs := rsCycles (denote d) rcs in
  stalls_ok d (cs ++ [c]) -> holdW (inW (trace (denote d) (cs ++ [c]))) ->
  prefix (Tout (trace (denote d) cs) ++ offout (evAt (denote d) (after (denote d) cs) c))
         (fn d (Tin (trace (denote d) cs) ++ offin (evAt (denote d) (after (denote d) cs) c))) /\
  length (fn d (Tin (trace (denote d) (cs ++ [c])))) <= length (Tout (trace (denote d) (cs ++ [c]))) + capd d /\
  holdW (outW (trace (denote d) (cs ++ [c]))).
Proof. exact rs_chain_transfers_l. Qed.
Print Assumptions rs_stage_transfers_conformant.

Example rs_reduceWidth_16_to_8 :
  (* RsPacketStream, 2 digits -> 1: a two-beat packet (sop on the first wide beat only), consumer ready every other cycle *)
  let r1 := mkRs [] true [1%N; 2%N] false 3%N in let r2 := mkRs [] false [3%N; 4%N] true 3%N in
  let rcs := [r1 true; r1 false; r1 true; r2 false; r2 true; r2 false; r2 true] in
  let cs := rsCycles (reduceS 2) rcs in
  map (fun c => bvalid (c_in c)) cs = [true; true; true; true; true; true; true] /\
  holdW (inW (trace (reduceS 2) cs)) /\
  Tout (trace (reduceS 2) cs) = [([1%N], false, 3%N); ([2%N], false, 3%N); ([3%N], false, 3%N); ([4%N], true, 3%N)].
Proof.
  cbv zeta. split; [|split].
  - vm_compute; reflexivity.
  - vm_compute. repeat split; intros; try reflexivity; try discriminate; try exact I.
  - vm_compute; reflexivity.
Qed.

(* ---------------------------------------------------------------- compose_transfers *)
(* Safe: delivered ++ offered-out is a prefix of f (accepted ++ offered-in); Lag: at most cap images
   of accepted transfers are still inside.  Both are closed under sequential composition, the
   environment assumption of the composition being A's on what A sees and B's on what B sees. *)
Theorem compose_transfers : forall A B EA EB fA fB capA capB kB,
  mono fA -> mono fB -> lip fB kB ->
  (Safe A EA fA /\ Lag A EA fA capA) -> (Safe B EB fB /\ Lag B EB fB capB) ->
  Safe (compose A B) (Ecomp A B EA EB) (fun l => fB (fA l)) /\
  Lag (compose A B) (Ecomp A B EA EB) (fun l => fB (fA l)) (capB + kB * capA).
Proof. exact compose_transfers_l. Qed.
Print Assumptions compose_transfers.

Example compose_hypotheses_satisfiable :
  mono idf /\ mono (unpack 2) /\ lip (unpack 2) 2 /\
  (Safe regDownS ETrue idf /\ Lag regDownS ETrue idf 1) /\
  (Safe (reduceS 2) (EHold (reduceS 2)) (unpack 2) /\ Lag (reduceS 2) (EHold (reduceS 2)) (unpack 2) 0).
Proof.
  repeat split; [apply mono_id | apply mono_unpack | apply lip_unpack | apply regDown_Good | apply regDown_Good
                | apply (reduce_Good 2); repeat constructor | apply (reduce_Good 2); repeat constructor].
Qed.

Theorem compose_strong : forall A B EA EB fA fB,
  mono fB -> Strong A EA fA -> Strong B EB fB -> Strong (compose A B) (Ecomp A B EA EB) (fun l => fB (fA l)).
Proof. exact compose_strong_l. Qed.
Print Assumptions compose_strong.

(* ---------------------------------------------------------------- stage_transfers for arbitrary chains *)
(* [env d] only asks that every reduceWidth stage inside the chain sees a holding producer at its own
   input wire; [fn d] is the composed data function, [capd d] the composed capacity *)
Theorem stage_transfers : forall d, wfd d ->
  (forall cs c, env d (cs ++ [c]) ->
     prefix (Tout (trace (denote d) cs) ++ offout (evAt (denote d) (after (denote d) cs) c))
            (fn d (Tin (trace (denote d) cs) ++ offin (evAt (denote d) (after (denote d) cs) c)))) /\
  (forall cs, env d cs ->
     length (fn d (Tin (trace (denote d) cs))) <= length (Tout (trace (denote d) cs)) + capd d).
Proof. exact chain_transfers_l. Qed.
Print Assumptions stage_transfers.

(* a conformant producer at the chain input and polite stall conditions discharge [env] for every
   inner reduceWidth, and the chain's own output then obeys the hold rule *)
Theorem stage_transfers_conformant : forall d cs c, wfd d ->
  stalls_ok d (cs ++ [c]) -> holdW (inW (trace (denote d) (cs ++ [c]))) ->
  prefix (Tout (trace (denote d) cs) ++ offout (evAt (denote d) (after (denote d) cs) c))
         (fn d (Tin (trace (denote d) cs) ++ offin (evAt (denote d) (after (denote d) cs) c))) /\
  length (fn d (Tin (trace (denote d) (cs ++ [c])))) <= length (Tout (trace (denote d) (cs ++ [c]))) + capd d /\
  holdW (outW (trace (denote d) (cs ++ [c]))).
Proof. exact chain_transfers_conformant_l. Qed.
Print Assumptions stage_transfers_conformant.

(* chains without reduceWidth, NO hypothesis on producer, consumer or stall conditions: delivered is
   a prefix of the image of accepted, bounded lag *)
Theorem stage_transfers_unconditional : forall d cs, wfd d -> no_reduce d ->
  prefix (Tout (trace (denote d) cs)) (fn d (Tin (trace (denote d) cs))) /\
  length (fn d (Tin (trace (denote d) cs))) <= length (Tout (trace (denote d) cs)) + capd d.
Proof. exact chain_transfers_strong_l. Qed.
Print Assumptions stage_transfers_unconditional.

Example unconditional_chain_example :
  let d := chainOf [DStall 1; DExtend 3; DRegDecouple; DStall 0; DDelay 2] in
  wfd d /\ no_reduce d /\ capd d = 4.
Proof. cbv zeta. split; [simpl; intuition lia|]. split; [simpl; tauto | reflexivity]. Qed.

Example chain_example :
  let d := chainOf [DRegDown; DExtend 2; DStall 0; DRegReady; DReduce 2; DDelay 3] in
  wfd d /\ capd d = 7 /\ kd d = 2 /\
  (let b x e := mkBeat true [x] e 1%N in
   let cs := [mkCyc [false] (b 1%N false) true; mkCyc [false] (b 2%N true) true] ++ repeat (mkCyc [false] (mkBeat false [0%N] false 0%N) true) 8 in
   stalls_ok d cs /\ holdW (inW (trace (denote d) cs)) /\
   Tout (trace (denote d) cs) = [([1%N], false, 1%N); ([2%N], true, 1%N)]).
Proof.
  cbv zeta. split; [simpl; intuition lia|].
  split; [vm_compute; reflexivity|]. split; [vm_compute; reflexivity|].
  split; [|split].
  - unfold stalls_ok; vm_compute. repeat split; intros; try reflexivity; try discriminate.
  - vm_compute. repeat split; intros; try reflexivity; try discriminate; try exact I.
  - vm_compute; reflexivity.
Qed.

(* ---------------------------------------------------------------- stage_hold *)
(* register stages: the output obeys the hold rule for EVERY producer and consumer behaviour *)
Theorem stage_hold_registers : forall cs,
  holdW (outW (trace regDownS cs)) /\ holdW (outW (trace blockS cs)) /\ holdW (outW (trace readyS cs)) /\
  holdW (outW (trace decoupleS cs)) /\ (forall n, n <> 0 -> holdW (outW (trace (delayS n) cs))).
Proof. exact stage_hold_registers_l. Qed.
Print Assumptions stage_hold_registers.

(* any chain whose last stage is a register stage: unconditional *)
Theorem stage_hold_unconditional : forall d cs, gives_hold d = true -> holdW (outW (trace (denote d) cs)).
Proof. exact stage_hold_uncond_l. Qed.
Print Assumptions stage_hold_unconditional.

Example gives_hold_example :
  gives_hold (chainOf [DStall 0; DReduce 2; DExtend 3; DRegReady]) = true /\
  gives_hold (chainOf [DRegDown; DStall 0]) = false /\ gives_hold (DDelay 0) = false /\ gives_hold (DDelay 2) = true.
Proof. repeat split. Qed.

(* every chain: if the producer holds and every stall stage is polite (its condition does not rise in
   the cycle after a beat was valid and not accepted at that stall's own output) the output holds *)
Theorem stage_hold : forall d cs,
  stalls_ok d cs -> holdW (inW (trace (denote d) cs)) -> holdW (outW (trace (denote d) cs)).
Proof. exact stage_hold_l. Qed.
Print Assumptions stage_hold.

Theorem stall_hold_polite : forall k cs,
  pairsFrom (stallS k) (stall_polite k) tt cs ->
  holdW (inW (trace (stallS k) cs)) -> holdW (outW (trace (stallS k) cs)).
Proof. exact stall_hold_polite_l. Qed.
Print Assumptions stall_hold_polite.

Example stall_polite_satisfiable :
  let b := mkBeat true [5%N] false 1%N in
  let cs := [mkCyc [true] b true; mkCyc [false] b false; mkCyc [false] b true] in
  pairsFrom (stallS 0) (stall_polite 0) tt cs /\ holdW (inW (trace (stallS 0) cs)) /\ Tout (trace (stallS 0) cs) = [xf b].
Proof.
  cbv zeta. split; [|split].
  - vm_compute. repeat split; intros; try reflexivity; try discriminate; try exact I.
  - vm_compute. repeat split; intros; try reflexivity; try discriminate; try exact I.
  - vm_compute; reflexivity.
Qed.

(* DESIGN Q5, confirmed on the real code: stall withdraws a waiting beat when its condition rises.
   The producer holds, the output does not. *)
Theorem stall_hold_refuted :
  holdW (inW (trace (stallS 0) stall_witness)) /\ ~ holdW (outW (trace (stallS 0) stall_witness)).
Proof. exact stall_hold_refuted_w. Qed.
Print Assumptions stall_hold_refuted.

Theorem compose_hold : forall A B QA QB, HoldC A QA -> HoldC B QB -> HoldC (compose A B) (Qcomp A B QA QB).
Proof. exact compose_hold_l. Qed.
Print Assumptions compose_hold.

(* ---------------------------------------------------------------- liveness of the register stages *)
(* Live S d: whatever was accepted during cs1 has been delivered after any continuation cs2 in which
   the consumer is ready in at least d cycles (producer arbitrary) *)
Theorem register_stages_live :
  Live regDownS 1 /\ Live blockS 1 /\ Live readyS 1 /\ Live decoupleS 2 /\ (forall n, Live (delayS n) n).
Proof. exact register_stages_live_l. Qed.
Print Assumptions register_stages_live.

Example live_example :
  (* two beats accepted by delay 3 while the consumer stalls; three ready cycles later both are out *)
  let b x := mkBeat true [x] false 0%N in let idle := mkBeat false [0%N] false 0%N in
  let cs1 := [mkCyc [] (b 1%N) false; mkCyc [] (b 2%N) false] in
  let cs2 := [mkCyc [] idle true; mkCyc [] idle false; mkCyc [] idle true; mkCyc [] idle true] in
  count_rdy cs2 = 3 /\ length (Tin (trace (delayS 3) cs1)) = 2 /\ length (Tout (trace (delayS 3) (cs1 ++ cs2))) = 2.
Proof. repeat split; vm_compute; reflexivity. Qed.

(* liveness is NOT closed under composition: regDownstreamBlocking moves only while ready is high
   ("violates stream semantics", utils.h), an idle reduceWidth keeps ready low: nothing is ever accepted *)
Theorem blockingReg_before_reduceWidth_deadlock : forall n,
  Tin (trace (compose blockS (reduceS 2)) (repeat always_offer n)) = [] /\
  count_rdy (repeat always_offer n) = n.
Proof. exact block_reduce_deadlock_w. Qed.
Print Assumptions blockingReg_before_reduceWidth_deadlock.
