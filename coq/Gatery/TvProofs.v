(* C20 -- proofs about the test-vector recorder model of TvDefs.v *)
From Coq Require Import List Bool Arith NArith ZArith QArith Qround String Ascii Lia Lqa.
From Gatery Require Import Bits VcdDefs TvDefs.
Import ListNotations.
Local Open Scope Q_scope.

Lemma K_pos : 0 < PS_PER_S. Proof. reflexivity. Qed.
Lemma K_nz : ~ PS_PER_S == 0. Proof. intro H; discriminate H. Qed.

Lemma Qfloor_unique x z : inject_Z z <= x -> x < inject_Z (z + 1) -> Qfloor x = z.
Proof.
  intros H1 H2.
  pose proof (Qfloor_le x) as F1. pose proof (Qlt_floor x) as F2.
  assert (A : (z < Qfloor x + 1)%Z). { rewrite Zlt_Qlt. eapply Qle_lt_trans; eassumption. }
  assert (B : (Qfloor x < z + 1)%Z). { rewrite Zlt_Qlt. eapply Qle_lt_trans; eassumption. }
  lia.
Qed.

Lemma Qfloor_sub_Z x z : Qfloor (x - inject_Z z) = (Qfloor x - z)%Z.
Proof.
  apply Qfloor_unique.
  - unfold Z.sub. rewrite inject_Z_plus, inject_Z_opp. pose proof (Qfloor_le x). lra.
  - replace (Qfloor x - z + 1)%Z with ((Qfloor x + 1) + - z)%Z by lia.
    rewrite inject_Z_plus, inject_Z_opp. pose proof (Qlt_floor x). lra.
Qed.

(* advanceTimeTo lands on the picosecond grid point just below the target: no accumulation of rounding errors,
   and the unsigned subtraction never wraps as long as the file is not ahead of the target *)
Lemma adv_ps_exact target w :
  inject_Z (Z.of_N w) <= target * PS_PER_S ->
  Z.of_N (w + adv_ps target w) = Qfloor (target * PS_PER_S) /\ (0 <= Qfloor ((target - inject_Z (Z.of_N w) / PS_PER_S) * PS_PER_S))%Z.
Proof.
  intros H. unfold adv_ps.
  assert (E : (target - inject_Z (Z.of_N w) / PS_PER_S) * PS_PER_S == target * PS_PER_S - inject_Z (Z.of_N w)).
  { field. exact K_nz. }
  rewrite E. rewrite Qfloor_sub_Z.
  assert (L : (Z.of_N w <= Qfloor (target * PS_PER_S))%Z).
  { apply Qfloor_resp_le in H. rewrite Qfloor_Z in H. exact H. }
  split; [|lia]. rewrite N2Z.inj_add, Z2N.id by lia. lia.
Qed.

(* ========================================================================================== *)
(* one flush                                                                                   *)
(* ========================================================================================== *)

Definition posK (fstart interval : Q) (i : nat) : Q := (fstart + interval * inject_Z (Z.of_nat i)) * PS_PER_S.

Lemma phase_target_posK fstart interval i : phase_target fstart interval i * PS_PER_S = posK fstart interval (S i).
Proof. reflexivity. Qed.

Lemma inject_nat_le i j : (i <= j)%nat -> inject_Z (Z.of_nat i) <= inject_Z (Z.of_nat j).
Proof. intros H. rewrite <- Zle_Qle. lia. Qed.

Lemma posK_mono fstart interval i j : 0 <= interval -> (i <= j)%nat -> posK fstart interval i <= posK fstart interval j.
Proof.
  intros Hi Hij. unfold posK. apply Qmult_le_compat_r; [|apply Qlt_le_weak, K_pos].
  pose proof (inject_nat_le i j Hij) as H.
  assert (interval * inject_Z (Z.of_nat i) <= interval * inject_Z (Z.of_nat j)) by nra.
  lra.
Qed.

Definition no_adv (l : list titem) : Prop := Forall (fun i => is_adv i = false) l.

Lemma phase_items_no_adv p : no_adv (phase_items p).
Proof.
  unfold no_adv, phase_items. rewrite !Forall_app. repeat split; apply Forall_forall; intros x Hx;
    apply in_map_iff in Hx; destruct Hx as [kv [<- _]]; reflexivity.
Qed.

Lemma tv_schedule_no_adv now l r : no_adv l -> tv_schedule now (l ++ r) = map (pair now) l ++ tv_schedule now r.
Proof.
  induction 1 as [|x l Hx Hl IH]; simpl; [reflexivity|].
  destruct x; try discriminate; simpl; f_equal; exact IH.
Qed.

Lemma flush_phases_spec fstart interval : 0 <= interval -> forall ps idx w w' o,
  inject_Z (Z.of_N w) <= posK fstart interval idx ->
  flush_phases fstart interval idx ps w = (w', o) ->
  inject_Z (Z.of_N w') <= posK fstart interval (idx + length ps) /\
  Forall (fun p => exists i, (idx <= i < idx + length ps)%nat /\
                             Z.of_N (fst p) = Qfloor (posK fstart interval (S i)))
         (tv_schedule w o).
Proof.
  intros Hi. induction ps as [|p r IH]; intros idx w w' o Hw H; simpl in H.
  - injection H as <- <-. simpl. rewrite Nat.add_0_r. split; [exact Hw | constructor].
  - assert (Hw1 : inject_Z (Z.of_N w) <= posK fstart interval (S idx)).
    { eapply Qle_trans; [exact Hw | apply posK_mono; [exact Hi | lia]]. }
    destruct (phase_is_empty p).
    + destruct (IH (S idx) w w' o Hw1 H) as [A B]. simpl length.
      replace (idx + S (length r))%nat with (S idx + length r)%nat by lia. split; [exact A|].
      eapply Forall_impl; [|exact B]. intros q [i [Hr He]]. exists i. split; [lia | exact He].
    + remember (adv_ps (phase_target fstart interval idx) w) as d.
      destruct (flush_phases fstart interval (S idx) r (w + d)) as [w2 o2] eqn:E.
      injection H as <- <-.
      destruct (adv_ps_exact (phase_target fstart interval idx) w) as [Hex _].
      { rewrite phase_target_posK. exact Hw1. }
      rewrite <- Heqd, phase_target_posK in Hex.
      assert (Hw2 : inject_Z (Z.of_N (w + d)) <= posK fstart interval (S idx)).
      { rewrite Hex. apply Qfloor_le. }
      destruct (IH (S idx) (w + d)%N w2 o2 Hw2 E) as [A B]. simpl length.
      replace (idx + S (length r))%nat with (S idx + length r)%nat by lia. split; [exact A|].
      cbn [tv_schedule]. rewrite tv_schedule_no_adv by apply phase_items_no_adv.
      apply Forall_app. split.
      * apply Forall_forall. intros q Hq. apply in_map_iff in Hq. destruct Hq as [it [<- _]].
        exists idx. split; [lia | exact Hex].
      * eapply Forall_impl; [|exact B]. intros q [i [Hr He]]. exists i. split; [lia | exact He].
Qed.

Lemma inject_nat_S n : inject_Z (Z.of_nat (S n)) == 1 + inject_Z (Z.of_nat n).
Proof. rewrite Nat2Z.inj_succ. unfold Z.succ. rewrite inject_Z_plus. simpl. ring. Qed.

Lemma inject_nat_nonneg n : 0 <= inject_Z (Z.of_nat n).
Proof. change 0 with (inject_Z 0). rewrite <- Zle_Qle. lia. Qed.

Lemma flush_interval_facts fstart fend n : fstart <= fend ->
  let I := flush_interval fstart fend n in
  0 <= I /\ I * (2 + inject_Z (Z.of_nat n)) == fend - fstart.
Proof.
  intros H I. subst I. unfold flush_interval.
  assert (E : inject_Z (Z.of_nat (2 + n)) == 2 + inject_Z (Z.of_nat n)).
  { change (2 + n)%nat with (S (S n)). rewrite !inject_nat_S. ring. }
  pose proof (inject_nat_nonneg n) as Hn.
  assert (Hpos0 : 0 < 2 + inject_Z (Z.of_nat n)) by (clear - Hn; lra).
  assert (Hpos : 0 < inject_Z (Z.of_nat (2 + n))) by (rewrite E; exact Hpos0).
  split.
  - apply Qle_shift_div_l; [exact Hpos | lra].
  - rewrite <- E. field. intro Hz. rewrite Hz in Hpos. apply (Qlt_irrefl 0). exact Hpos.
Qed.

(* every record written by one flush is replayed inside the recorded interval *)
Theorem tv_flush_window_proof : forall fstart fend ps w w' o,
  fstart <= fend ->
  inject_Z (Z.of_N w) <= fstart * PS_PER_S ->
  let I := flush_interval fstart fend (length ps) in
  flush_phases fstart I 0 ps w = (w', o) ->
  inject_Z (Z.of_N w') <= fend * PS_PER_S /\
  Forall (fun p => let t := inject_Z (Z.of_N (fst p)) in
                   fstart * PS_PER_S - 1 < t /\ t <= fend * PS_PER_S /\
                   (fstart < fend -> t < fend * PS_PER_S) /\
                   (1 <= I * PS_PER_S -> fstart * PS_PER_S < t))
         (tv_schedule w o).
Proof.
  intros fstart fend ps w w' o Hse Hw I H.
  destruct (flush_interval_facts fstart fend (length ps) Hse) as [HI HE]. fold I in HI, HE. clearbody I.
  assert (Hw0 : inject_Z (Z.of_N w) <= posK fstart I 0).
  { unfold posK. change (inject_Z (Z.of_nat 0)) with 0. eapply Qle_trans; [exact Hw|]. apply Qmult_le_compat_r; [|apply Qlt_le_weak, K_pos]. lra. }
  destruct (flush_phases_spec fstart I HI ps 0 w w' o Hw0 H) as [A B]. simpl in A.
  pose proof K_pos as HK.
  assert (Hup : forall j, (j <= length ps)%nat -> posK fstart I j <= (fend - 2 * I) * PS_PER_S).
  { intros j Hj. unfold posK. apply Qmult_le_compat_r; [|lra].
    pose proof (inject_nat_le j (length ps) Hj) as Hjn. pose proof (inject_nat_nonneg j).
    assert (I * inject_Z (Z.of_nat j) <= I * inject_Z (Z.of_nat (length ps))) by nra.
    lra. }
  split.
  - eapply Qle_trans; [exact A|]. eapply Qle_trans; [apply Hup; lia|].
    apply Qmult_le_compat_r; lra.
  - eapply Forall_impl; [|exact B]. intros q [i [Hr He]]. cbv zeta.
    pose proof (Qfloor_le (posK fstart I (S i))) as F1. pose proof (Qlt_floor (posK fstart I (S i))) as F2.
    rewrite <- He in F1, F2. rewrite inject_Z_plus in F2. change (inject_Z 1) with 1 in F2.
    pose proof (Hup (S i) ltac:(lia)) as U.
    assert (Lo : fstart * PS_PER_S + I * PS_PER_S <= posK fstart I (S i)).
    { unfold posK. rewrite inject_nat_S. pose proof (inject_nat_nonneg i).
      assert (0 <= I * inject_Z (Z.of_nat i)) by nra. nra. }
    assert (HIK : 0 <= I * PS_PER_S) by nra.
    repeat split.
    + lra.
    + assert ((fend - 2 * I) * PS_PER_S <= fend * PS_PER_S) by nra. lra.
    + intros Hlt. assert (0 < I).
      { destruct (Qlt_le_dec 0 I) as [|Hle]; [assumption|]. exfalso.
        assert (I == 0) by lra. rewrite H0 in HE. lra. }
      assert ((fend - 2 * I) * PS_PER_S < fend * PS_PER_S) by nra. lra.
    + intros H1. lra.
Qed.

Lemma posK_S fstart interval i : posK fstart interval (S i) == posK fstart interval i + interval * PS_PER_S.
Proof. unfold posK. rewrite inject_nat_S. ring. Qed.

Definition adv_ge1 (it : titem) : Prop := match it with TAdv d => (1 <= d)%N | _ => True end.

(* phases at least 1 ps apart: every record group gets its own, strictly later instant *)
Lemma flush_phases_adv_pos fstart interval : 0 <= interval -> 1 <= interval * PS_PER_S -> forall ps idx w w' o,
  inject_Z (Z.of_N w) <= posK fstart interval idx ->
  flush_phases fstart interval idx ps w = (w', o) -> Forall adv_ge1 o.
Proof.
  intros Hi H1. induction ps as [|p r IH]; intros idx w w' o Hw H; simpl in H.
  - injection H as <- <-. constructor.
  - assert (Hw1 : inject_Z (Z.of_N w) <= posK fstart interval (S idx)).
    { eapply Qle_trans; [exact Hw | apply posK_mono; [exact Hi | lia]]. }
    destruct (phase_is_empty p); [eapply IH; eassumption|].
    remember (adv_ps (phase_target fstart interval idx) w) as d.
    destruct (flush_phases fstart interval (S idx) r (w + d)) as [w2 o2] eqn:E.
    injection H as <- <-.
    destruct (adv_ps_exact (phase_target fstart interval idx) w) as [Hex _].
    { rewrite phase_target_posK. exact Hw1. }
    rewrite <- Heqd, phase_target_posK in Hex.
    assert (Hw2 : inject_Z (Z.of_N (w + d)) <= posK fstart interval (S idx)).
    { rewrite Hex. apply Qfloor_le. }
    constructor; [|apply Forall_app; split].
    + simpl.
      assert (Hge : inject_Z (Z.of_N w + 1) <= posK fstart interval (S idx)).
      { rewrite inject_Z_plus. change (inject_Z 1) with 1. rewrite posK_S. lra. }
      apply Qfloor_resp_le in Hge. rewrite Qfloor_Z in Hge. lia.
    + pose proof (phase_items_no_adv p) as Hn. eapply Forall_impl; [|exact Hn].
      intros it Hit. destruct it; [discriminate | exact I | exact I | exact I].
    + eapply IH; eassumption.
Qed.

Theorem tv_flush_adv_positive_proof : forall fstart fend ps w w' o,
  fstart <= fend -> inject_Z (Z.of_N w) <= fstart * PS_PER_S ->
  let I := flush_interval fstart fend (length ps) in
  1 <= I * PS_PER_S ->
  flush_phases fstart I 0 ps w = (w', o) -> Forall adv_ge1 o.
Proof.
  intros fstart fend ps w w' o Hse Hw I H1 H.
  destruct (flush_interval_facts fstart fend (length ps) Hse) as [HI _]. fold I in HI.
  eapply (flush_phases_adv_pos fstart I HI H1 ps 0 w w' o); [|exact H].
  unfold posK. change (inject_Z (Z.of_nat 0)) with 0. eapply Qle_trans; [exact Hw|].
  apply Qmult_le_compat_r; [|apply Qlt_le_weak, K_pos]. clearbody I. lra.
Qed.

(* ========================================================================================== *)
(* whole runs: the file is never ahead of the recorded time                                    *)
(* ========================================================================================== *)

Definition written_ok (s : tvst) : Prop := inject_Z (Z.of_N (tv_written s)) <= tv_fstart s * PS_PER_S.

Fixpoint flushes_mono (last : Q) (cbs : list cb) : Prop :=
  match cbs with
  | [] => True
  | CbPowerOn :: r => flushes_mono 0 r
  | CbNewPhase PhAfter now :: r => last <= now /\ flushes_mono now r
  | CbDestroy now :: r => last <= now /\ flushes_mono now r
  | _ :: r => flushes_mono last r
  end.

Lemma flush_written_ok s fend : tv_fstart s <= fend -> written_ok s -> written_ok (flush fend s) /\ tv_fstart (flush fend s) = fend.
Proof.
  intros Hle Hok. unfold flush.
  destruct (flush_phases (tv_fstart s) (flush_interval (tv_fstart s) fend (length (tv_phases s))) 0 (tv_phases s) (tv_written s)) as [w o] eqn:E.
  destruct (tv_flush_window_proof _ _ _ _ _ _ Hle Hok E) as [A _].
  split; [exact A | reflexivity].
Qed.

Lemma tv_written_inv cbs : forall s last,
  tv_fstart s = last -> written_ok s -> flushes_mono last cbs -> written_ok (tv_run_from s cbs).
Proof.
  induction cbs as [|c r IH]; intros s last Hf Hok Hm; simpl; [exact Hok|].
  destruct c as [|p now| | |n a|n v|n b v|now]; simpl in Hm.
  - apply (IH _ 0); [reflexivity | | exact Hm]. unfold written_ok; simpl. unfold PS_PER_S. unfold Qle; simpl; lia.
  - destruct p; simpl in Hm.
    + apply (IH _ last); auto.
    + apply (IH _ last); auto.
    + destruct Hm as [Hle Hm]. cbn [tv_step tphase_eqb].
      set (s0 := {| tv_phases := tv_phases s; tv_post := tv_post s; tv_written := tv_written s;
                   tv_fstart := tv_fstart s; tv_cur := PhAfter; tv_out := tv_out s |}).
      destruct (flush_written_ok s0 now) as [A B]; [simpl; rewrite Hf; exact Hle | exact Hok |].
      apply (IH _ now); [exact B | exact A | exact Hm].
  - apply (IH _ last); auto.
  - apply (IH _ last); auto.
  - apply (IH _ last); auto; cbn [tv_step]; destruct (tphase_eqb (tv_cur s) PhDuring); auto.
  - apply (IH _ last); auto; cbn [tv_step]; destruct (tphase_eqb (tv_cur s) PhDuring); auto.
  - apply (IH _ last); auto; cbn [tv_step]; destruct (check_text b v); auto.
  - destruct Hm as [Hle Hm]. cbn [tv_step].
    destruct (flush_written_ok s now) as [A B]; [rewrite Hf; exact Hle | exact Hok |].
    apply (IH _ now); [exact B | exact A | exact Hm].
Qed.

Theorem tv_written_never_ahead_proof : forall cbs,
  flushes_mono 0 cbs -> written_ok (tv_run_from tv_init cbs).
Proof.
  intros cbs H. apply (tv_written_inv cbs tv_init 0); [reflexivity | | exact H].
  unfold written_ok; simpl. unfold Qle; simpl; lia.
Qed.

(* ========================================================================================== *)
(* order of the records                                                                        *)
(* ========================================================================================== *)

Definition nonadv (l : list titem) : list titem := filter (fun i => negb (is_adv i)) l.

(* what can no longer change: the file and every phase record except the open one *)
Definition frozen (s : tvst) : list titem :=
  nonadv (tv_out s) ++ flat_map phase_items (removelast (tv_phases s)).
Definition last_items (s : tvst) : list titem := phase_items (last (tv_phases s) ph_empty).

(* callbacks that close the open phase record *)
Definition is_delim (c : cb) : bool :=
  match c with
  | CbPowerOn | CbAfterMicroTick | CbDestroy _ => true
  | CbNewPhase PhAfter _ => true
  | _ => false
  end.

Lemma nonadv_app a b : nonadv (a ++ b) = nonadv a ++ nonadv b.
Proof. apply filter_app. Qed.

Lemma nonadv_no_adv l : no_adv l -> nonadv l = l.
Proof.
  induction 1 as [|x l Hx Hl IH]; simpl; [reflexivity|]. rewrite Hx. simpl. f_equal. exact IH.
Qed.

Lemma phase_empty_items p : phase_is_empty p = true -> phase_items p = [].
Proof.
  unfold phase_is_empty, phase_items. destruct p as [c s r]; simpl.
  destruct c, s, r; simpl; intros H; try discriminate; reflexivity.
Qed.

Lemma flush_phases_nonadv fs iv : forall ps idx w w' o,
  flush_phases fs iv idx ps w = (w', o) -> nonadv o = flat_map phase_items ps.
Proof.
  induction ps as [|p r IH]; intros idx w w' o H; simpl in H.
  - injection H as <- <-. reflexivity.
  - destruct (phase_is_empty p) eqn:Ee.
    + simpl. rewrite (phase_empty_items p Ee). simpl. eapply IH; exact H.
    + destruct (flush_phases fs iv (S idx) r (w + adv_ps (phase_target fs iv idx) w)) as [w2 o2] eqn:E.
      injection H as <- <-. simpl. rewrite nonadv_app, (nonadv_no_adv _ (phase_items_no_adv p)).
      f_equal. eapply IH; exact E.
Qed.

Lemma removelast_snoc {A} (l : list A) x : removelast (l ++ [x]) = l.
Proof. apply removelast_last. Qed.

Lemma flat_map_split_last (l : list phase) :
  flat_map phase_items l = flat_map phase_items (removelast l) ++ phase_items (last l ph_empty).
Proof.
  destruct l as [|a r] eqn:E; [reflexivity|]. rewrite <- E.
  assert (Hne : l <> []) by (rewrite E; discriminate).
  rewrite (app_removelast_last ph_empty Hne) at 1.
  rewrite flat_map_app. simpl. rewrite app_nil_r. reflexivity.
Qed.

Lemma upd_last_removelast f : forall l, removelast (upd_last f l) = removelast l.
Proof.
  induction l as [|a r IH]; [reflexivity|].
  destruct r as [|b r']; [reflexivity|].
  change (upd_last f (a :: b :: r')) with (a :: upd_last f (b :: r')).
  change (removelast (a :: b :: r')) with (a :: removelast (b :: r')).
  rewrite <- IH. destruct (upd_last f (b :: r')) eqn:E; [|reflexivity].
  destruct r'; discriminate.
Qed.

Lemma upd_last_last f : forall l, last (upd_last f l) ph_empty = f (last l ph_empty).
Proof.
  induction l as [|a r IH]; [reflexivity|].
  destruct r as [|b r']; [reflexivity|].
  change (upd_last f (a :: b :: r')) with (a :: upd_last f (b :: r')).
  change (last (a :: b :: r') ph_empty) with (last (b :: r') ph_empty).
  rewrite <- IH. destruct (upd_last f (b :: r')) eqn:E; [destruct r'; discriminate | reflexivity].
Qed.

Lemma frozen_on_back f s : frozen (on_back f s) = frozen s.
Proof. unfold frozen, on_back. simpl. rewrite upd_last_removelast. reflexivity. Qed.
Lemma last_items_on_back f s : last_items (on_back f s) = phase_items (f (last (tv_phases s) ph_empty)).
Proof. unfold last_items, on_back. simpl. rewrite upd_last_last. reflexivity. Qed.

Lemma frozen_push s po w fs c :
  frozen {| tv_phases := tv_phases s ++ [ph_empty]; tv_post := po; tv_written := w; tv_fstart := fs; tv_cur := c; tv_out := tv_out s |}
  = frozen s ++ last_items s.
Proof.
  unfold frozen, last_items. simpl. rewrite removelast_snoc, <- app_assoc. f_equal.
  apply flat_map_split_last.
Qed.

Lemma frozen_flush fend s : frozen (flush fend s) = frozen s ++ last_items s.
Proof.
  unfold flush.
  destruct (flush_phases (tv_fstart s) (flush_interval (tv_fstart s) fend (length (tv_phases s))) 0 (tv_phases s) (tv_written s)) as [w o] eqn:E.
  unfold frozen, last_items. simpl. rewrite app_nil_r, nonadv_app, (flush_phases_nonadv _ _ _ _ _ _ _ E), <- app_assoc.
  f_equal. apply flat_map_split_last.
Qed.

Lemma last_items_flush fend s : last_items (flush fend s) = [].
Proof.
  unfold flush. destruct (flush_phases _ _ _ _ _) as [w o]. reflexivity.
Qed.

(* a delimiter moves the open record into the frozen part (and, at a tick, appends the deferred
   DURING-phase assignments after it) *)
Lemma step_delim s c : is_delim c = true ->
  exists extra, frozen (tv_step s c) = frozen s ++ last_items s ++ extra /\ last_items (tv_step s c) = []
                /\ (extra = [] \/ extra = phase_items (tv_post s)).
Proof.
  intros H. destruct c as [|p now| | |n a|n v|n b v|now]; try discriminate.
  - exists []. rewrite app_nil_r. cbn [tv_step]. split; [apply frozen_push|]. split; [|left; reflexivity].
    unfold last_items. simpl. rewrite last_last. reflexivity.
  - destruct p; try discriminate. exists (phase_items (tv_post s)). cbn [tv_step tphase_eqb].
    set (s0 := {| tv_phases := tv_phases s; tv_post := tv_post s; tv_written := tv_written s;
                  tv_fstart := tv_fstart s; tv_cur := PhAfter; tv_out := tv_out s |}).
    assert (F0 : frozen (flush now s0) = frozen s ++ last_items s) by (rewrite frozen_flush; reflexivity).
    assert (P0 : tv_phases (flush now s0) = [ph_empty]).
    { unfold flush. destruct (flush_phases _ _ _ _ _) as [w o]. reflexivity. }
    assert (O0 : tv_post (flush now s0) = tv_post s).
    { unfold flush. destruct (flush_phases _ _ _ _ _) as [w o]. reflexivity. }
    split; [|split; [|right; reflexivity]].
    + unfold push_phase, on_post, on_back. cbn [tv_phases tv_out tv_post].
      unfold frozen at 1. cbn [tv_phases tv_out]. rewrite removelast_snoc, P0. cbn [upd_last flat_map].
      rewrite app_nil_r, O0. unfold frozen in F0. rewrite P0 in F0. simpl in F0. rewrite app_nil_r in F0.
      rewrite F0. unfold frozen. rewrite <- !app_assoc. reflexivity.
    + unfold last_items, push_phase. cbn [tv_phases]. rewrite last_last. reflexivity.
  - exists []. rewrite app_nil_r. cbn [tv_step]. split; [apply frozen_push|]. split; [|left; reflexivity].
    unfold last_items. simpl. rewrite last_last. reflexivity.
  - exists []. rewrite app_nil_r. cbn [tv_step]. split; [apply frozen_flush|]. split; [apply last_items_flush | left; reflexivity].
Qed.

(* any other callback leaves the frozen part alone and only rewrites the open record (or the
   post-during record) with one of the three insertions *)
Inductive phase_op : (phase -> phase) -> Prop :=
| op_id : phase_op (fun p => p)
| op_chk k v : phase_op (ph_add_chk k v)
| op_set k v : phase_op (ph_add_set k v)
| op_rst k v : phase_op (ph_add_rst k v).

Lemma step_nodelim s c : is_delim c = false ->
  frozen (tv_step s c) = frozen s /\
  exists f, phase_op f /\ last_items (tv_step s c) = phase_items (f (last (tv_phases s) ph_empty)).
Proof.
  intros H. destruct c as [|p now| | |n a|n v|n b v|now]; try discriminate; cbn [tv_step].
  - destruct p; try discriminate; (split; [reflexivity | exists (fun p => p); split; [constructor | reflexivity]]).
  - split; [reflexivity | exists (fun p => p); split; [constructor | reflexivity]].
  - destruct (tphase_eqb (tv_cur s) PhDuring).
    + split; [reflexivity | exists (fun p => p); split; [constructor | reflexivity]].
    + rewrite frozen_on_back, last_items_on_back. split; [reflexivity|]. eexists; split; [apply op_rst | reflexivity].
  - destruct (tphase_eqb (tv_cur s) PhDuring).
    + split; [reflexivity | exists (fun p => p); split; [constructor | reflexivity]].
    + rewrite frozen_on_back, last_items_on_back. split; [reflexivity|]. eexists; split; [apply op_set | reflexivity].
  - destruct (check_text b v).
    + rewrite frozen_on_back, last_items_on_back. split; [reflexivity|]. eexists; split; [apply op_chk | reflexivity].
    + split; [reflexivity | exists (fun p => p); split; [constructor | reflexivity]].
Qed.

Lemma run_frozen_mono cbs : forall s, exists ext, frozen (tv_run_from s cbs) = frozen s ++ ext.
Proof.
  induction cbs as [|c r IH]; intros s; simpl.
  - exists []. rewrite app_nil_r. reflexivity.
  - destruct (IH (tv_step s c)) as [ext He]. rewrite He.
    destruct (is_delim c) eqn:Ed.
    + destruct (step_delim s c Ed) as [extra [Hf _]]. rewrite Hf. eexists. rewrite <- !app_assoc. reflexivity.
    + destruct (step_nodelim s c Ed) as [Hf _]. rewrite Hf. eexists. reflexivity.
Qed.

(* a property of the open record that survives the three insertions ends up, as a block, in the file *)
Definition op_stable (QL : phase -> Prop) : Prop := forall f p, phase_op f -> QL p -> QL (f p).

Lemma run_carry QL : op_stable QL -> forall cbs s,
  QL (last (tv_phases s) ph_empty) ->
  (existsb is_delim cbs = true ->
     exists A p B, frozen (tv_run_from s cbs) = frozen s ++ A ++ phase_items p ++ B /\ QL p) /\
  (existsb is_delim cbs = false ->
     frozen (tv_run_from s cbs) = frozen s /\ QL (last (tv_phases (tv_run_from s cbs)) ph_empty)).
Proof.
  intros Hst. induction cbs as [|c r IH]; intros s HQ.
  - simpl. split; [discriminate | auto].
  - cbn [existsb tv_run_from fold_left]. destruct (is_delim c) eqn:Ed; cbn [orb].
    + split; [|discriminate]. intros _.
      destruct (step_delim s c Ed) as [extra [Hf _]].
      destruct (run_frozen_mono r (tv_step s c)) as [ext He].
      exists [], (last (tv_phases s) ph_empty), (extra ++ ext). split; [|exact HQ].
      unfold tv_run_from in He. rewrite He, Hf. unfold last_items. simpl. rewrite <- !app_assoc. reflexivity.
    + destruct (step_nodelim s c Ed) as [Hf [f [Hop Hl]]].
      assert (HQ' : QL (last (tv_phases (tv_step s c)) ph_empty)).
      { (* the open record after the step is f applied to the open record before *)
        clear IH. destruct c as [|p now| | |n a|n v|n b v|now]; try discriminate; cbn [tv_step].
        - destruct p; try discriminate; exact HQ.
        - exact HQ.
        - destruct (tphase_eqb (tv_cur s) PhDuring); [exact HQ|].
          unfold on_back; cbn [tv_phases]. rewrite upd_last_last. apply Hst; [constructor | exact HQ].
        - destruct (tphase_eqb (tv_cur s) PhDuring); [exact HQ|].
          unfold on_back; cbn [tv_phases]. rewrite upd_last_last. apply Hst; [constructor | exact HQ].
        - destruct (check_text b v); [|exact HQ].
          unfold on_back; cbn [tv_phases]. rewrite upd_last_last. apply Hst; [constructor | exact HQ]. }
      destruct (IH (tv_step s c) HQ') as [I1 I2]. unfold tv_run_from in *. split.
      * intros Hd. destruct (I1 Hd) as [A [p [B [He Hq]]]]. exists A, p, B. rewrite He, Hf. split; [reflexivity | exact Hq].
      * intros Hd. destruct (I2 Hd) as [He Hq]. rewrite He, Hf. split; [reflexivity | exact Hq].
Qed.

(* after the destructor everything is in the file *)
Lemma frozen_after_destroy s t : frozen (tv_step s (CbDestroy t)) = nonadv (tv_out (tv_step s (CbDestroy t))).
Proof.
  cbn [tv_step]. unfold flush. destruct (flush_phases _ _ _ _ _) as [w o]. unfold frozen. simpl. apply app_nil_r.
Qed.

Lemma run_app s a b : tv_run_from s (a ++ b) = tv_run_from (tv_run_from s a) b.
Proof. unfold tv_run_from. apply fold_left_app. Qed.

(* ---- smap facts ---- *)
Lemma smap_set_keeps k v n : forall m, In n (map fst m) -> In n (map fst (smap_set k v m)).
Proof.
  induction m as [|[k' v'] r IH]; simpl; intros H; [contradiction|].
  destruct (String.eqb_spec k k') as [->|Hne]; simpl.
  - exact H.
  - destruct (str_ltb k k'); simpl.
    + right. exact H.
    + destruct H as [H|H]; [left; exact H | right; apply IH; exact H].
Qed.

Lemma smap_set_has k v : forall m, In k (map fst (smap_set k v m)).
Proof.
  induction m as [|[k' v'] r IH]; simpl; [left; reflexivity|].
  destruct (String.eqb_spec k k') as [->|Hne]; simpl; [left; reflexivity|].
  destruct (str_ltb k k'); simpl; [left; reflexivity | right; exact IH].
Qed.

Definition has_set (n : string) (p : phase) : Prop := In n (map fst (ph_set p)).
Definition has_chk (m tw : string) (p : phase) : Prop := In (m, tw) (ph_chk p).

Lemma has_set_stable n : op_stable (has_set n).
Proof.
  intros f p Hop H. destruct Hop; unfold has_set in *; simpl; auto. apply smap_set_keeps; exact H.
Qed.
Lemma has_chk_stable m tw : op_stable (has_chk m tw).
Proof.
  intros f p Hop H. destruct Hop; unfold has_chk in *; simpl; auto. apply in_or_app; left; exact H.
Qed.
Lemma has_both_stable n m tw : op_stable (fun p => has_chk m tw p /\ has_set n p).
Proof. intros f p Hop [A B]. split; [eapply has_chk_stable | eapply has_set_stable]; eauto. Qed.

Lemma has_set_items n p : has_set n p -> exists v' a b, phase_items p = a ++ TSet n v' :: b.
Proof.
  unfold has_set, phase_items. intros H. apply in_map_iff in H. destruct H as [[k v] [Hk Hin]]. simpl in Hk. subst k.
  apply in_split in Hin. destruct Hin as [l1 [l2 ->]].
  exists v, (map (fun kv => TCheck (fst kv) (snd kv)) (ph_chk p) ++ map (fun kv => TSet (fst kv) (snd kv)) l1),
    (map (fun kv => TSet (fst kv) (snd kv)) l2 ++ map (fun kv => TRst (fst kv) (snd kv)) (ph_rst p)).
  rewrite map_app. simpl. rewrite <- !app_assoc. reflexivity.
Qed.

Lemma has_chk_items m tw p : has_chk m tw p -> exists a b, phase_items p = a ++ TCheck m tw :: b.
Proof.
  unfold has_chk, phase_items. intros H. apply in_split in H. destruct H as [l1 [l2 ->]].
  exists (map (fun kv => TCheck (fst kv) (snd kv)) l1),
    (map (fun kv => TCheck (fst kv) (snd kv)) l2 ++ map (fun kv => TSet (fst kv) (snd kv)) (ph_set p) ++ map (fun kv => TRst (fst kv) (snd kv)) (ph_rst p)).
  rewrite map_app. simpl. rewrite <- !app_assoc. reflexivity.
Qed.

Lemma has_both_items n m tw p : has_chk m tw p -> has_set n p ->
  exists v' a b c, phase_items p = a ++ TCheck m tw :: b ++ TSet n v' :: c.
Proof.
  unfold has_chk, has_set, phase_items. intros Hc Hs.
  apply in_split in Hc. destruct Hc as [c1 [c2 Ec]].
  apply in_map_iff in Hs. destruct Hs as [[k v] [Hk Hin]]. simpl in Hk. subst k.
  apply in_split in Hin. destruct Hin as [s1 [s2 Es]].
  rewrite Ec, Es.
  exists v, (map (fun kv => TCheck (fst kv) (snd kv)) c1),
    (map (fun kv => TCheck (fst kv) (snd kv)) c2 ++ map (fun kv => TSet (fst kv) (snd kv)) s1),
    (map (fun kv => TSet (fst kv) (snd kv)) s2 ++ map (fun kv => TRst (fst kv) (snd kv)) (ph_rst p)).
  rewrite !map_app. simpl. rewrite <- !app_assoc. reflexivity.
Qed.

(* state right after a SET outside the DURING phase / after a qualifying read *)
Lemma after_set s n v : tv_cur s <> PhDuring ->
  has_set n (last (tv_phases (tv_step s (CbSet n v))) ph_empty) /\ frozen (tv_step s (CbSet n v)) = frozen s.
Proof.
  intros Hc. cbn [tv_step]. destruct (tphase_eqb (tv_cur s) PhDuring) eqn:E.
  - destruct (tv_cur s); try discriminate. contradiction.
  - split; [|apply frozen_on_back]. unfold on_back; cbn [tv_phases]. rewrite upd_last_last.
    unfold has_set, ph_add_set; simpl. apply smap_set_has.
Qed.

Lemma after_read s m b w tw : check_text b w = Some tw ->
  has_chk m tw (last (tv_phases (tv_step s (CbRead m b w))) ph_empty) /\ frozen (tv_step s (CbRead m b w)) = frozen s.
Proof.
  intros Hc. cbn [tv_step]. rewrite Hc. split; [|apply frozen_on_back].
  unfold on_back; cbn [tv_phases]. rewrite upd_last_last. unfold has_chk, ph_add_chk; simpl.
  apply in_or_app; right; left; reflexivity.
Qed.

Lemma existsb_delim_snoc c3 t : existsb is_delim (c3 ++ [CbDestroy t]) = true.
Proof. rewrite existsb_app. simpl. apply orb_true_r. Qed.

Lemma stream_frozen pre t : nonadv (tv_stream (pre ++ [CbDestroy t])) = frozen (tv_run_from tv_init (pre ++ [CbDestroy t])).
Proof.
  unfold tv_stream. rewrite run_app. simpl. symmetry. apply frozen_after_destroy.
Qed.

(* A CHECK recorded after a phase boundary follows every SET recorded before that boundary. *)
Theorem tv_check_after_set_proof : forall c1 n v c2 m b w tw c3 t,
  check_text b w = Some tw ->
  tv_cur (tv_run_from tv_init c1) <> PhDuring ->
  existsb is_delim c2 = true ->
  exists v' pre mid post,
    nonadv (tv_stream (c1 ++ CbSet n v :: c2 ++ CbRead m b w :: c3 ++ [CbDestroy t]))
    = pre ++ TSet n v' :: mid ++ TCheck m tw :: post.
Proof.
  intros c1 n v c2 m b w tw c3 t Hct Hcur Hd.
  replace (c1 ++ CbSet n v :: c2 ++ CbRead m b w :: c3 ++ [CbDestroy t])
    with ((c1 ++ CbSet n v :: c2 ++ CbRead m b w :: c3) ++ [CbDestroy t])
    by (rewrite <- !app_assoc; simpl; rewrite <- !app_assoc; reflexivity).
  rewrite stream_frozen.
  rewrite <- app_assoc. rewrite run_app. cbn [app].
  set (s1 := tv_run_from tv_init c1) in *.
  change (tv_run_from s1 (CbSet n v :: (c2 ++ CbRead m b w :: c3) ++ [CbDestroy t]))
    with (tv_run_from (tv_step s1 (CbSet n v)) ((c2 ++ CbRead m b w :: c3) ++ [CbDestroy t])).
  destruct (after_set s1 n v Hcur) as [Hs Hf1].
  set (s2 := tv_step s1 (CbSet n v)) in *.
  rewrite <- app_assoc. rewrite run_app.
  destruct (run_carry _ (has_set_stable n) c2 s2 Hs) as [C1 _].
  destruct (C1 Hd) as [A [p [B [He Hp]]]].
  set (s3 := tv_run_from s2 c2) in *.
  cbn [app].
  change (tv_run_from s3 (CbRead m b w :: c3 ++ [CbDestroy t]))
    with (tv_run_from (tv_step s3 (CbRead m b w)) (c3 ++ [CbDestroy t])).
  destruct (after_read s3 m b w tw Hct) as [Hc Hf3].
  set (s4 := tv_step s3 (CbRead m b w)) in *.
  destruct (run_carry _ (has_chk_stable m tw) (c3 ++ [CbDestroy t]) s4 Hc) as [C2 _].
  destruct (C2 (existsb_delim_snoc c3 t)) as [A2 [p2 [B2 [He2 Hp2]]]].
  rewrite He2, Hf3, He.
  destruct (has_set_items n p Hp) as [v' [a [b0 Ep]]].
  destruct (has_chk_items m tw p2 Hp2) as [a2 [b2 Ep2]].
  rewrite Ep, Ep2.
  exists v', (frozen s2 ++ A ++ a), (b0 ++ B ++ A2 ++ a2), (b2 ++ B2).
  repeat rewrite <- app_assoc. simpl. repeat rewrite <- app_assoc. reflexivity.
Qed.

(* Inside one phase record (no boundary in between) the CHECK is written first: the simulator hands
   a process the state from BEFORE the assignments of the same micro tick. *)
Theorem tv_same_phase_check_first_proof : forall c1 n v c2 m b w tw c3 t,
  check_text b w = Some tw ->
  tv_cur (tv_run_from tv_init c1) <> PhDuring ->
  existsb is_delim c2 = false ->
  exists v' pre mid post,
    nonadv (tv_stream (c1 ++ CbSet n v :: c2 ++ CbRead m b w :: c3 ++ [CbDestroy t]))
    = pre ++ TCheck m tw :: mid ++ TSet n v' :: post.
Proof.
  intros c1 n v c2 m b w tw c3 t Hct Hcur Hd.
  replace (c1 ++ CbSet n v :: c2 ++ CbRead m b w :: c3 ++ [CbDestroy t])
    with ((c1 ++ CbSet n v :: c2 ++ CbRead m b w :: c3) ++ [CbDestroy t])
    by (rewrite <- !app_assoc; simpl; rewrite <- !app_assoc; reflexivity).
  rewrite stream_frozen.
  rewrite <- app_assoc. rewrite run_app. cbn [app].
  set (s1 := tv_run_from tv_init c1) in *.
  change (tv_run_from s1 (CbSet n v :: (c2 ++ CbRead m b w :: c3) ++ [CbDestroy t]))
    with (tv_run_from (tv_step s1 (CbSet n v)) ((c2 ++ CbRead m b w :: c3) ++ [CbDestroy t])).
  destruct (after_set s1 n v Hcur) as [Hs Hf1].
  set (s2 := tv_step s1 (CbSet n v)) in *.
  rewrite <- app_assoc. rewrite run_app.
  destruct (run_carry _ (has_set_stable n) c2 s2 Hs) as [_ C1].
  destruct (C1 Hd) as [He Hp].
  set (s3 := tv_run_from s2 c2) in *.
  cbn [app].
  change (tv_run_from s3 (CbRead m b w :: c3 ++ [CbDestroy t]))
    with (tv_run_from (tv_step s3 (CbRead m b w)) (c3 ++ [CbDestroy t])).
  assert (Hboth : has_chk m tw (last (tv_phases (tv_step s3 (CbRead m b w))) ph_empty) /\
                  has_set n (last (tv_phases (tv_step s3 (CbRead m b w))) ph_empty)).
  { cbn [tv_step]. rewrite Hct. unfold on_back; cbn [tv_phases]. rewrite upd_last_last. split.
    - unfold has_chk, ph_add_chk; simpl. apply in_or_app; right; left; reflexivity.
    - exact Hp. }
  set (s4 := tv_step s3 (CbRead m b w)) in *.
  destruct (run_carry _ (has_both_stable n m tw) (c3 ++ [CbDestroy t]) s4 Hboth) as [C2 _].
  destruct (C2 (existsb_delim_snoc c3 t)) as [A2 [p2 [B2 [He2 [Hc2 Hs2]]]]].
  rewrite He2.
  destruct (has_both_items n m tw p2 Hc2 Hs2) as [v' [a [b0 [c0 Ep]]]].
  rewrite Ep. exists v', (frozen s4 ++ A2 ++ a), b0, (c0 ++ B2).
  repeat rewrite <- app_assoc. simpl. repeat rewrite <- app_assoc. reflexivity.
Qed.

(* ========================================================================================== *)
(* no expectation is lost or reordered                                                         *)
(* ========================================================================================== *)

Definition checks_of (l : list titem) : list titem := filter is_check l.

Definition new_checks (c : cb) : list titem :=
  match c with
  | CbRead n b v => match check_text b v with Some t => [TCheck n t] | None => [] end
  | _ => []
  end.
Definition reads_of (cbs : list cb) : list titem := flat_map new_checks cbs.

Definition visible (s : tvst) : list titem := frozen s ++ last_items s.
Definition post_nochk (s : tvst) : Prop := ph_chk (tv_post s) = [].

Lemma checks_of_app a b : checks_of (a ++ b) = checks_of a ++ checks_of b.
Proof. apply filter_app. Qed.

Lemma checks_of_nonadv l : checks_of (nonadv l) = checks_of l.
Proof.
  induction l as [|x r IH]; [reflexivity|]. destruct x; simpl; rewrite ?IH; reflexivity.
Qed.

Lemma checks_of_map_set (m : smap) : checks_of (map (fun kv => TSet (fst kv) (snd kv)) m) = [].
Proof. induction m; simpl; auto. Qed.
Lemma checks_of_map_rst (m : smap) : checks_of (map (fun kv => TRst (fst kv) (snd kv)) m) = [].
Proof. induction m; simpl; auto. Qed.
Lemma checks_of_map_chk (m : list (string * string)) :
  checks_of (map (fun kv => TCheck (fst kv) (snd kv)) m) = map (fun kv => TCheck (fst kv) (snd kv)) m.
Proof. induction m; simpl; [reflexivity | f_equal; assumption]. Qed.

Lemma checks_phase_items p : checks_of (phase_items p) = map (fun kv => TCheck (fst kv) (snd kv)) (ph_chk p).
Proof.
  unfold phase_items. rewrite !checks_of_app, checks_of_map_set, checks_of_map_rst, checks_of_map_chk, !app_nil_r.
  reflexivity.
Qed.

Lemma post_nochk_step s c : post_nochk s -> post_nochk (tv_step s c).
Proof.
  unfold post_nochk. intros H. destruct c as [|p now| | |n a|n v|n b v|now]; cbn [tv_step]; auto.
  - destruct (tphase_eqb p PhAfter); [reflexivity | exact H].
  - destruct (tphase_eqb (tv_cur s) PhDuring); simpl; exact H.
  - destruct (tphase_eqb (tv_cur s) PhDuring); simpl; exact H.
  - destruct (check_text b v); simpl; exact H.
  - unfold flush. destruct (flush_phases _ _ _ _ _). exact H.
Qed.

Lemma checks_step s c : post_nochk s ->
  checks_of (visible (tv_step s c)) = checks_of (visible s) ++ new_checks c.
Proof.
  intros Hp. unfold visible. destruct (is_delim c) eqn:Ed.
  - destruct (step_delim s c Ed) as [extra [Hf [Hl Hx]]]. rewrite Hf, Hl.
    assert (new_checks c = []) as -> by (destruct c; try discriminate; reflexivity).
    assert (checks_of extra = []) as Hce.
    { destruct Hx as [-> | ->]; [reflexivity|]. rewrite checks_phase_items. unfold post_nochk in Hp. rewrite Hp. reflexivity. }
    rewrite !checks_of_app, Hce, !app_nil_r. reflexivity.
  - destruct c as [|p now| | |n a|n v|n b v|now]; try discriminate; cbn [tv_step new_checks].
    + destruct p; try discriminate; rewrite app_nil_r; reflexivity.
    + rewrite app_nil_r; reflexivity.
    + rewrite app_nil_r. destruct (tphase_eqb (tv_cur s) PhDuring); [reflexivity|].
      rewrite frozen_on_back, last_items_on_back. unfold last_items. rewrite !checks_of_app, !checks_phase_items. reflexivity.
    + rewrite app_nil_r. destruct (tphase_eqb (tv_cur s) PhDuring); [reflexivity|].
      rewrite frozen_on_back, last_items_on_back. unfold last_items. rewrite !checks_of_app, !checks_phase_items. reflexivity.
    + destruct (check_text b v); [|rewrite app_nil_r; reflexivity].
      rewrite frozen_on_back, last_items_on_back. unfold last_items. rewrite !checks_of_app, !checks_phase_items.
      simpl. rewrite map_app, app_assoc. reflexivity.
Qed.

Lemma checks_run cbs : forall s, post_nochk s ->
  checks_of (visible (tv_run_from s cbs)) = checks_of (visible s) ++ reads_of cbs.
Proof.
  induction cbs as [|c r IH]; intros s Hp; simpl.
  - rewrite app_nil_r. reflexivity.
  - change (tv_run_from s (c :: r)) with (tv_run_from (tv_step s c) r).
    rewrite (IH (tv_step s c) (post_nochk_step s c Hp)), (checks_step s c Hp), <- app_assoc.
    reflexivity.
Qed.

(* every read that qualifies (a defined bit) is in the file exactly once, in call order *)
Theorem tv_checks_preserved_proof : forall cbs t,
  checks_of (tv_stream (cbs ++ [CbDestroy t])) = reads_of cbs.
Proof.
  intros cbs t. rewrite <- checks_of_nonadv, stream_frozen.
  assert (Hl : last_items (tv_run_from tv_init (cbs ++ [CbDestroy t])) = []).
  { rewrite run_app. simpl. apply last_items_flush. }
  assert (Hv : visible (tv_run_from tv_init (cbs ++ [CbDestroy t])) = frozen (tv_run_from tv_init (cbs ++ [CbDestroy t]))).
  { unfold visible. rewrite Hl, app_nil_r. reflexivity. }
  rewrite <- Hv, checks_run by reflexivity.
  unfold reads_of. rewrite flat_map_app. simpl. rewrite !app_nil_r. reflexivity.
Qed.

(* ========================================================================================== *)
(* shape of the file                                                                           *)
(* ========================================================================================== *)

(* need = an ADV was just read and a record has to follow *)
Fixpoint groups_ok (need : bool) (l : list titem) : Prop :=
  match l with
  | [] => need = false
  | TAdv _ :: r => need = false /\ groups_ok true r
  | _ :: r => groups_ok false r
  end.

Definition starts_adv (l : list titem) : Prop := l = [] \/ exists d r, l = TAdv d :: r.
Definition wf_stream (l : list titem) : Prop := starts_adv l /\ groups_ok false l.

Lemma groups_ok_app x a b : groups_ok x a -> groups_ok false b -> groups_ok x (a ++ b).
Proof.
  revert x. induction a as [|i r IH]; intros x Ha Hb; simpl in *.
  - subst x. exact Hb.
  - destruct i; try (apply IH; assumption). destruct Ha as [-> Ha]. split; [reflexivity | apply IH; assumption].
Qed.

Lemma groups_ok_no_adv l : no_adv l -> groups_ok false l.
Proof. induction 1 as [|x l Hx Hl IH]; simpl; [reflexivity|]. destruct x; try discriminate; exact IH. Qed.

Lemma phase_nonempty_items p : phase_is_empty p = false -> exists x r, phase_items p = x :: r.
Proof.
  unfold phase_is_empty, phase_items. destruct p as [c s r]; simpl.
  destruct c as [|c0 c']; simpl; [|intros _; eexists; eexists; reflexivity].
  destruct s as [|s0 s']; simpl; [|intros _; eexists; eexists; reflexivity].
  destruct r as [|r0 r']; simpl; [discriminate | intros _; eexists; eexists; reflexivity].
Qed.

Lemma flush_phases_wf fs iv : forall ps idx w w' o,
  flush_phases fs iv idx ps w = (w', o) -> wf_stream o.
Proof.
  induction ps as [|p r IH]; intros idx w w' o H; simpl in H.
  - injection H as <- <-. split; [left; reflexivity | reflexivity].
  - destruct (phase_is_empty p) eqn:Ee; [eapply IH; exact H|].
    destruct (flush_phases fs iv (S idx) r (w + adv_ps (phase_target fs iv idx) w)) as [w2 o2] eqn:E.
    injection H as <- <-. destruct (IH _ _ _ _ E) as [_ G2].
    split; [right; eexists; eexists; reflexivity|].
    simpl. split; [reflexivity|].
    destruct (phase_nonempty_items p Ee) as [x [xs Ex]].
    pose proof (phase_items_no_adv p) as Hn. rewrite Ex in *. inversion Hn as [|? ? Hx Hxs]; subst.
    simpl. destruct x; try discriminate; (apply groups_ok_app; [apply groups_ok_no_adv; exact Hxs | exact G2]).
Qed.

Lemma wf_stream_app a b : wf_stream a -> wf_stream b -> wf_stream (a ++ b).
Proof.
  intros [Sa Ga] [Sb Gb]. split.
  - destruct Sa as [->|[d [r ->]]]; [exact Sb | right; eexists; eexists; reflexivity].
  - apply groups_ok_app; assumption.
Qed.

Lemma wf_flush fend s : wf_stream (tv_out s) -> wf_stream (tv_out (flush fend s)).
Proof.
  intros H. unfold flush.
  destruct (flush_phases (tv_fstart s) (flush_interval (tv_fstart s) fend (length (tv_phases s))) 0 (tv_phases s) (tv_written s)) as [w o] eqn:E.
  simpl. apply wf_stream_app; [exact H | eapply flush_phases_wf; exact E].
Qed.

Lemma wf_step s c : wf_stream (tv_out s) -> wf_stream (tv_out (tv_step s c)).
Proof.
  intros H. destruct c as [|p now| | |n a|n v|n b v|now]; cbn [tv_step]; auto.
  - destruct (tphase_eqb p PhAfter); [|exact H].
    unfold push_phase, on_post, on_back. cbn [tv_out]. apply wf_flush. exact H.
  - destruct (tphase_eqb (tv_cur s) PhDuring); exact H.
  - destruct (tphase_eqb (tv_cur s) PhDuring); exact H.
  - destruct (check_text b v); exact H.
  - apply wf_flush. exact H.
Qed.

(* the file is a sequence of groups  ADV n ; one or more CHECK/SET/RST records *)
Theorem tv_wellformed_proof : forall cbs, wf_stream (tv_stream cbs).
Proof.
  intros cbs. unfold tv_stream.
  assert (G : forall s, wf_stream (tv_out s) -> wf_stream (tv_out (tv_run_from s cbs))).
  { induction cbs as [|c r IH]; intros s H; simpl; [exact H|]. apply IH. apply wf_step. exact H. }
  apply G. split; [left; reflexivity | reflexivity].
Qed.

(* ========================================================================================== *)
(* what does NOT hold                                                                          *)
(* ========================================================================================== *)



(* The callback sequence of the real simulator for
       clock 100 MHz;  in_a = pinIn(4_b);  out_y = pinOut(zext(in_a, 8_b) ^ 0xF0);
       process: simu(in_a) = 3; co_await WaitStable(); read simu(out_y)        (reads 11110011)
   ReferenceSimulator::powerOn starts the process (SET), re-evaluates, runs no micro tick at time 0
   and resumes the process inside commitState: the read sees the effect of the SET, but no
   onAfterMicroTick / onNewPhase lies between the two callbacks. *)
Definition poweron_c1 : list cb := [CbPowerOn; CbReset "reset"%string true].
Definition poweron_c3 : list cb :=
  [CbCommit; CbNewPhase PhBefore (1 # 200000000); CbNewPhase PhDuring (1 # 200000000); CbAfterMicroTick;
   CbNewPhase PhAfter (1 # 200000000); CbCommit].
Definition y243 : rvec := [(true,true);(true,true);(true,false);(true,false);(true,true);(true,true);(true,true);(true,true)].

Theorem tv_poweron_commit_check_before_set_refuted_proof :
  ~ (forall c1 n v c2 m b w tw c3 t,
       check_text b w = Some tw ->
       tv_cur (tv_run_from tv_init c1) <> PhDuring ->
       exists v' pre mid post,
         nonadv (tv_stream (c1 ++ CbSet n v :: c2 ++ CbRead m b w :: c3 ++ [CbDestroy t]))
         = pre ++ TSet n v' :: mid ++ TCheck m tw :: post).
Proof.
  intros H.
  specialize (H poweron_c1 "in_a"%string [B1; B1; B0; B0] [] "out_y"%string false y243 "11110011"%string poweron_c3 (1 # 100000000)%Q
                eq_refl ltac:(discriminate)).
  destruct H as [v' [pre [mid [post E]]]].
  match type of E with ?L = _ =>
    let r := eval vm_compute in L in
    assert (EL : L = r) by (vm_cast_no_check (eq_refl r)); rewrite EL in E; clear EL end.
  destruct pre as [|x pre]; [discriminate E|].
  injection E as _ E.
  assert (Hin : In (TCheck "out_y"%string "11110011"%string) (pre ++ TSet "in_a"%string v' :: mid ++ TCheck "out_y"%string "11110011"%string :: post)).
  { apply in_or_app; right; right. apply in_or_app; right; left; reflexivity. }
  rewrite <- E in Hin. simpl in Hin. destruct Hin as [Hc|[Hc|Hc]]; try discriminate Hc; contradiction.
Qed.

(* below 1 ps per phase the picosecond grid is too coarse: a record written AFTER the tick at 10.5 ps
   is replayed at 10 ps, i.e. before that tick *)
Theorem tv_subps_window_refuted_proof :
  ~ (forall fstart fend ps w w' o,
       fstart <= fend -> inject_Z (Z.of_N w) <= fstart * PS_PER_S ->
       flush_phases fstart (flush_interval fstart fend (length ps)) 0 ps w = (w', o) ->
       Forall (fun p => fstart * PS_PER_S < inject_Z (Z.of_N (fst p))) (tv_schedule w o))%Q.
Proof.
  intros H.
  pose (ps := [ph_add_set "in_a"%string "1"%string ph_empty]).
  pose (fs := (21 # 2000000000000)%Q). pose (fe := (11 # 1000000000000)%Q).
  destruct (flush_phases fs (flush_interval fs fe (length ps)) 0 ps 10%N) as [w' o] eqn:E.
  specialize (H fs fe ps 10%N w' o ltac:(discriminate) ltac:(discriminate) E).
  assert (Eo : o = [TAdv 0; TSet "in_a"%string "1"%string]).
  { assert (EE : flush_phases fs (flush_interval fs fe (length ps)) 0 ps 10%N = (10%N, [TAdv 0; TSet "in_a"%string "1"%string]))
      by (vm_compute; reflexivity).
    rewrite EE in E. injection E as _ <-. reflexivity. }
  subst o. simpl in H. inversion H as [|? ? Hlt _]; subst. simpl in Hlt. vm_compute in Hlt. discriminate Hlt.
Qed.

(* ========================================================================================== *)
(* reset records                                                                               *)
(* ========================================================================================== *)

(* the text of a reset record is the level some onReset callback of that reset reported: no polarity translation *)
Definition rst_from (all : list cb) (kv : string * string) : Prop :=
  exists l, In (CbReset (fst kv) l) all /\ snd kv = bool_text l.

Definition phase_rst_ok (all : list cb) (p : phase) : Prop := Forall (rst_from all) (ph_rst p).

Definition state_rst_ok (all : list cb) (s : tvst) : Prop :=
  Forall (phase_rst_ok all) (tv_phases s) /\ phase_rst_ok all (tv_post s) /\
  (forall n v, In (TRst n v) (tv_out s) -> rst_from all (n, v)).

Lemma smap_set_Forall (P : string * string -> Prop) k v : forall m, P (k, v) -> Forall P m -> Forall P (smap_set k v m).
Proof.
  induction m as [|[k' v'] r IH]; intros Hn Hm; simpl; [repeat constructor; exact Hn|].
  inversion Hm as [|? ? H1 H2]; subst.
  destruct (String.eqb k k'); [constructor; assumption|].
  destruct (str_ltb k k'); [constructor; assumption|]. constructor; [assumption | apply IH; assumption].
Qed.

Lemma upd_last_Forall (P : phase -> Prop) f : (forall p, P p -> P (f p)) -> P ph_empty ->
  forall l, Forall P l -> Forall P (upd_last f l).
Proof.
  intros Hf He. induction l as [|a r IH]; intros H; simpl.
  - repeat constructor. apply Hf, He.
  - inversion H as [|? ? Ha Hr]; subst. destruct r as [|b r'].
    + repeat constructor. apply Hf, Ha.
    + constructor; [exact Ha | apply IH; exact Hr].
Qed.

Lemma phase_items_rst n v p : In (TRst n v) (phase_items p) -> In (n, v) (ph_rst p).
Proof.
  unfold phase_items. rewrite !in_app_iff. intros [H|[H|H]]; apply in_map_iff in H; destruct H as [[k w] [E Hin]];
    try discriminate. simpl in E. injection E as -> ->. exact Hin.
Qed.

Lemma flush_phases_rst fs iv : forall ps idx w w' o n v,
  flush_phases fs iv idx ps w = (w', o) -> In (TRst n v) o -> exists p, In p ps /\ In (n, v) (ph_rst p).
Proof.
  induction ps as [|p r IH]; intros idx w w' o n v H Hin; simpl in H.
  - injection H as <- <-. contradiction.
  - destruct (phase_is_empty p).
    + destruct (IH _ _ _ _ _ _ H Hin) as [q [A B]]. exists q. split; [right; exact A | exact B].
    + destruct (flush_phases fs iv (S idx) r (w + adv_ps (phase_target fs iv idx) w)) as [w2 o2] eqn:E.
      injection H as <- <-. destruct Hin as [Hin|Hin]; [discriminate|].
      apply in_app_iff in Hin. destruct Hin as [Hin|Hin].
      * exists p. split; [left; reflexivity | apply phase_items_rst; exact Hin].
      * destruct (IH _ _ _ _ _ _ E Hin) as [q [A B]]. exists q. split; [right; exact A | exact B].
Qed.

Lemma phase_rst_ok_empty all : phase_rst_ok all ph_empty.
Proof. constructor. Qed.

Lemma flush_rst_ok all fend s : state_rst_ok all s -> state_rst_ok all (flush fend s).
Proof.
  intros [Hp [Hq Ho]]. unfold flush.
  destruct (flush_phases (tv_fstart s) (flush_interval (tv_fstart s) fend (length (tv_phases s))) 0 (tv_phases s) (tv_written s)) as [w o] eqn:E.
  split; [|split]; simpl.
  - repeat constructor.
  - exact Hq.
  - intros n v Hin. apply in_app_iff in Hin. destruct Hin as [Hin|Hin]; [apply Ho; exact Hin|].
    destruct (flush_phases_rst _ _ _ _ _ _ _ _ _ E Hin) as [p [A B]].
    rewrite Forall_forall in Hp. specialize (Hp p A). unfold phase_rst_ok in Hp. rewrite Forall_forall in Hp. apply Hp; exact B.
Qed.

Lemma step_rst_ok all s c : In c all -> state_rst_ok all s -> state_rst_ok all (tv_step s c).
Proof.
  intros Hc [Hp [Hq Ho]].
  assert (Hpush : forall l, Forall (phase_rst_ok all) l -> Forall (phase_rst_ok all) (l ++ [ph_empty])).
  { intros l Hl. apply Forall_app. split; [exact Hl | repeat constructor]. }
  destruct c as [|p now| | |n a|n v|n b v|now]; cbn [tv_step].
  - split; [|split]; simpl; auto.
  - destruct (tphase_eqb p PhAfter); [|split; [|split]; simpl; auto].
    set (s0 := {| tv_phases := tv_phases s; tv_post := tv_post s; tv_written := tv_written s;
                  tv_fstart := tv_fstart s; tv_cur := p; tv_out := tv_out s |}).
    destruct (flush_rst_ok all now s0) as [Hp1 [Hq1 Ho1]]; [split; [|split]; simpl; auto|].
    split; [|split]; simpl.
    + apply Hpush. apply upd_last_Forall; [intros _ _; exact Hq1 | apply phase_rst_ok_empty | exact Hp1].
    + apply phase_rst_ok_empty.
    + exact Ho1.
  - split; [|split]; simpl; auto.
  - split; [|split]; auto.
  - assert (Hnew : rst_from all (n, bool_text a)) by (exists a; split; [exact Hc | reflexivity]).
    destruct (tphase_eqb (tv_cur s) PhDuring); (split; [|split]); simpl; auto.
    + unfold phase_rst_ok, ph_add_rst; simpl. apply smap_set_Forall; assumption.
    + apply upd_last_Forall; [|apply phase_rst_ok_empty | exact Hp].
      intros q Hqq. unfold phase_rst_ok, ph_add_rst; simpl. apply smap_set_Forall; assumption.
  - destruct (tphase_eqb (tv_cur s) PhDuring); (split; [|split]); simpl; auto.
    apply upd_last_Forall; [|apply phase_rst_ok_empty | exact Hp]. intros q Hqq. exact Hqq.
  - destruct (check_text b v); [|split; [|split]; auto]. split; [|split]; simpl; auto.
    apply upd_last_Forall; [|apply phase_rst_ok_empty | exact Hp]. intros q Hqq. exact Hqq.
  - apply flush_rst_ok. split; [|split]; auto.
Qed.

Theorem tv_rst_record_is_level_proof : forall cbs n v,
  In (TRst n v) (tv_stream cbs) -> exists l, In (CbReset n l) cbs /\ v = bool_text l.
Proof.
  intros cbs n v Hin.
  assert (G : forall pre s, incl pre cbs -> state_rst_ok cbs s -> state_rst_ok cbs (tv_run_from s pre)).
  { induction pre as [|c r IH]; intros s Hi Hs; simpl; [exact Hs|].
    apply IH; [intros x Hx; apply Hi; right; exact Hx|].
    apply step_rst_ok; [apply Hi; left; reflexivity | exact Hs]. }
  destruct (G cbs tv_init (incl_refl _)) as [_ [_ Ho]].
  - split; [constructor | split; [constructor | intros ? ? []]].
  - exact (Ho n v Hin).
Qed.

(* a CHECK recorded after a phase boundary follows the reset changes recorded before that boundary *)
Definition has_rst (n : string) (p : phase) : Prop := In n (map fst (ph_rst p)).

Lemma has_rst_stable n : op_stable (has_rst n).
Proof.
  intros f p Hop H. destruct Hop; unfold has_rst in *; simpl; auto. apply smap_set_keeps; exact H.
Qed.

Lemma has_rst_items n p : has_rst n p -> exists v' a b, phase_items p = a ++ TRst n v' :: b.
Proof.
  unfold has_rst, phase_items. intros H. apply in_map_iff in H. destruct H as [[k v] [Hk Hin]]. simpl in Hk. subst k.
  apply in_split in Hin. destruct Hin as [l1 [l2 ->]].
  exists v, (map (fun kv => TCheck (fst kv) (snd kv)) (ph_chk p) ++ map (fun kv => TSet (fst kv) (snd kv)) (ph_set p)
             ++ map (fun kv => TRst (fst kv) (snd kv)) l1),
    (map (fun kv => TRst (fst kv) (snd kv)) l2).
  rewrite map_app. simpl. repeat rewrite <- app_assoc. reflexivity.
Qed.

Lemma after_rst s n a : tv_cur s <> PhDuring ->
  has_rst n (last (tv_phases (tv_step s (CbReset n a))) ph_empty) /\ frozen (tv_step s (CbReset n a)) = frozen s.
Proof.
  intros Hc. cbn [tv_step]. destruct (tphase_eqb (tv_cur s) PhDuring) eqn:E.
  - destruct (tv_cur s); try discriminate. contradiction.
  - split; [|apply frozen_on_back]. unfold on_back; cbn [tv_phases]. rewrite upd_last_last.
    unfold has_rst, ph_add_rst; simpl. apply smap_set_has.
Qed.

Theorem tv_check_after_rst_proof : forall c1 n a c2 m b w tw c3 t,
  check_text b w = Some tw ->
  tv_cur (tv_run_from tv_init c1) <> PhDuring ->
  existsb is_delim c2 = true ->
  exists v' pre mid post,
    nonadv (tv_stream (c1 ++ CbReset n a :: c2 ++ CbRead m b w :: c3 ++ [CbDestroy t]))
    = pre ++ TRst n v' :: mid ++ TCheck m tw :: post.
Proof.
  intros c1 n a c2 m b w tw c3 t Hct Hcur Hd.
  replace (c1 ++ CbReset n a :: c2 ++ CbRead m b w :: c3 ++ [CbDestroy t])
    with ((c1 ++ CbReset n a :: c2 ++ CbRead m b w :: c3) ++ [CbDestroy t])
    by (rewrite <- !app_assoc; simpl; rewrite <- !app_assoc; reflexivity).
  rewrite stream_frozen.
  rewrite <- app_assoc. rewrite run_app. cbn [app].
  set (s1 := tv_run_from tv_init c1) in *.
  change (tv_run_from s1 (CbReset n a :: (c2 ++ CbRead m b w :: c3) ++ [CbDestroy t]))
    with (tv_run_from (tv_step s1 (CbReset n a)) ((c2 ++ CbRead m b w :: c3) ++ [CbDestroy t])).
  destruct (after_rst s1 n a Hcur) as [Hs Hf1].
  set (s2 := tv_step s1 (CbReset n a)) in *.
  rewrite <- app_assoc. rewrite run_app.
  destruct (run_carry _ (has_rst_stable n) c2 s2 Hs) as [C1 _].
  destruct (C1 Hd) as [A [p [B [He Hp]]]].
  set (s3 := tv_run_from s2 c2) in *.
  cbn [app].
  change (tv_run_from s3 (CbRead m b w :: c3 ++ [CbDestroy t]))
    with (tv_run_from (tv_step s3 (CbRead m b w)) (c3 ++ [CbDestroy t])).
  destruct (after_read s3 m b w tw Hct) as [Hc Hf3].
  set (s4 := tv_step s3 (CbRead m b w)) in *.
  destruct (run_carry _ (has_chk_stable m tw) (c3 ++ [CbDestroy t]) s4 Hc) as [C2 _].
  destruct (C2 (existsb_delim_snoc c3 t)) as [A2 [p2 [B2 [He2 Hp2]]]].
  rewrite He2, Hf3, He.
  destruct (has_rst_items n p Hp) as [v' [a0 [b0 Ep]]].
  destruct (has_chk_items m tw p2 Hp2) as [a2 [b2 Ep2]].
  rewrite Ep, Ep2.
  exists v', (frozen s2 ++ A ++ a0), (b0 ++ B ++ A2 ++ a2), (b2 ++ B2).
  repeat rewrite <- app_assoc. simpl. repeat rewrite <- app_assoc. reflexivity.
Qed.

Lemma tv_rst_level_in n : forall s cur v, tv_rst_level n s cur = Some v -> cur = Some v \/ In (TRst n v) s.
Proof.
  induction s as [|i r IH]; intros cur v H; simpl in H; [left; exact H|].
  destruct i as [d|k w|k w|k w]; try (destruct (IH _ _ H) as [A|A]; [left; exact A | right; right; exact A]).
  destruct (String.eqb_spec k n) as [->|Hne].
  - destruct (IH _ _ H) as [A|A]; [injection A as ->; right; left; reflexivity | right; right; exact A].
  - destruct (IH _ _ H) as [A|A]; [left; exact A | right; right; exact A].
Qed.

(* the level a reset port has after the replay is a level the simulator reported for that reset signal *)
Theorem tv_rst_replay_level_proof : forall cbs n v,
  tv_rst_level n (tv_stream cbs) None = Some v -> exists l, In (CbReset n l) cbs /\ v = bool_text l.
Proof.
  intros cbs n v H. destruct (tv_rst_level_in n _ _ _ H) as [A|A]; [discriminate|].
  apply tv_rst_record_is_level_proof; exact A.
Qed.
