(* C16 -- the transfer theorems stage by stage.
   Register stages, stall and the wire are "flight" stages: accepted = delivered ++ contents in flight,
   with an explicit flight list read off the state.  extendWidth packs, reduceWidth unpacks (the
   latter under the producer-hold hypothesis, and it runs AHEAD of the accepted input by the
   sub-beats of the beat currently on offer). *)
From Coq Require Import List NArith Bool Arith Lia.
From Gatery Require Import StreamDefs StreamSpec StreamCompose.
Import ListNotations.

(* ------------------------------------------------------------------ generic flight argument *)
Section Flight.
Variable S : stage.
Variable fl : st S -> list xfer.
Variable cap : nat.
Hypothesis fl_init : fl (init S) = [].
Hypothesis fl_step : forall s c, fl s ++ xin (evAt S s c) = xout (evAt S s c) ++ fl (stepS S s c).
Hypothesis fl_head : forall s c, prefix (offout (evAt S s c)) (fl s ++ offin (evAt S s c)).
Hypothesis fl_cap : forall s, length (fl s) <= cap.

Lemma flight_inv : forall cs, Tin (trace S cs) = Tout (trace S cs) ++ fl (after S cs).
Proof.
  induction cs as [|c cs IH] using rev_ind.
  - unfold trace, after; simpl. now rewrite fl_init.
  - rewrite trace_snoc, after_snoc, Tin_snoc, Tout_snoc, IH, <- !app_assoc. f_equal. apply fl_step.
Qed.

Lemma flight_Safe : Safe S ETrue idf.
Proof.
  intros cs c _. unfold idf. rewrite flight_inv, <- app_assoc. apply prefix_app_l, fl_head.
Qed.
Lemma flight_Strong : Strong S ETrue idf.
Proof. intros cs _. unfold idf. rewrite flight_inv. apply prefix_app. Qed.
Lemma flight_Lag : Lag S ETrue idf cap.
Proof. intros cs _. unfold idf. rewrite flight_inv, app_length. pose proof (fl_cap (after S cs)). lia. Qed.
End Flight.

Ltac bcases :=
  repeat match goal with
         | |- context [if ?b then _ else _] => destruct b eqn:?; simpl in *
         | |- context [?a && ?b] => destruct a eqn:?; simpl in *
         | |- context [?a || ?b] => destruct a eqn:?; simpl in *
         | |- context [negb ?a] => destruct a eqn:?; simpl in *
         end.

(* ------------------------------------------------------------------ wire *)
Definition fl_id (s : st idS) : list xfer := [].
Lemma id_step : forall s c, fl_id s ++ xin (evAt idS s c) = xout (evAt idS s c) ++ fl_id (stepS idS s c).
Proof. intros s c; unfold fl_id, xin, xout, evAt; simpl. now rewrite app_nil_r. Qed.
Lemma id_head : forall s c, prefix (offout (evAt idS s c)) (fl_id s ++ offin (evAt idS s c)).
Proof. intros; apply prefix_refl. Qed.

(* ------------------------------------------------------------------ regDownstreamBlocking, regDownstream *)
Definition fl_reg (s : beat) : list xfer := if bvalid s then [xf s] else [].

Lemma block_step : forall s c, fl_reg s ++ xin (evAt blockS s c) = xout (evAt blockS s c) ++ fl_reg (stepS blockS s c).
Proof.
  intros s [ctl b r]; unfold fl_reg, xin, xout, evAt, stepS; simpl.
  destruct r; simpl; destruct (bvalid s) eqn:Es, (bvalid b) eqn:Eb; simpl; rewrite ?Eb, ?Es; reflexivity.
Qed.
Lemma block_head : forall s c, prefix (offout (evAt blockS s c)) (fl_reg s ++ offin (evAt blockS s c)).
Proof. intros s c; unfold offout, evAt; simpl; apply prefix_app. Qed.

Lemma regDown_step : forall s c, fl_reg s ++ xin (evAt regDownS s c) = xout (evAt regDownS s c) ++ fl_reg (stepS regDownS s c).
Proof.
  intros s [ctl b r]; unfold fl_reg, xin, xout, evAt, stepS; simpl.
  destruct r; simpl; destruct (bvalid s) eqn:Es, (bvalid b) eqn:Eb; simpl; rewrite ?Eb, ?Es; reflexivity.
Qed.
Lemma regDown_head : forall s c, prefix (offout (evAt regDownS s c)) (fl_reg s ++ offin (evAt regDownS s c)).
Proof. intros s c; unfold offout, evAt; simpl; apply prefix_app. Qed.
Lemma fl_reg_cap : forall s, length (fl_reg s) <= 1.
Proof. intro s; unfold fl_reg; destruct (bvalid s); simpl; lia. Qed.

(* ------------------------------------------------------------------ regReady (skid buffer) *)
Definition fl_ready (s : bool * beat) : list xfer := if fst s then [xf (snd s)] else [].

Lemma ready_step : forall s c, fl_ready s ++ xin (evAt readyS s c) = xout (evAt readyS s c) ++ fl_ready (stepS readyS s c).
Proof.
  intros [vr d] [ctl b r]; unfold fl_ready, xin, xout, evAt, stepS; simpl.
  destruct vr, r, (bvalid b) eqn:Eb; simpl; rewrite ?Eb; reflexivity.
Qed.
Lemma ready_head : forall s c, prefix (offout (evAt readyS s c)) (fl_ready s ++ offin (evAt readyS s c)).
Proof.
  intros [vr d] [ctl b r]; unfold fl_ready, offout, offin, evAt; simpl.
  destruct vr; simpl; [|apply prefix_refl].
  exists (if bvalid b then [xf b] else []). reflexivity.
Qed.
Lemma fl_ready_cap : forall s, length (fl_ready s) <= 1.
Proof. intros [vr d]; unfold fl_ready; destruct vr; simpl; lia. Qed.

(* ------------------------------------------------------------------ stall *)
Definition fl_stall (k : nat) (s : st (stallS k)) : list xfer := [].
Lemma stall_step : forall k s c, fl_stall k s ++ xin (evAt (stallS k) s c) = xout (evAt (stallS k) s c) ++ fl_stall k (stepS (stallS k) s c).
Proof.
  intros k s [ctl b r]; unfold fl_stall, xin, xout, evAt; simpl. rewrite app_nil_r.
  destruct (nth k ctl false), r, (bvalid b) eqn:Eb; simpl; rewrite ?Eb; reflexivity.
Qed.
Lemma stall_head : forall k s c, prefix (offout (evAt (stallS k) s c)) (fl_stall k s ++ offin (evAt (stallS k) s c)).
Proof.
  intros k s [ctl b r]; unfold fl_stall, offout, offin, evAt; simpl.
  destruct (nth k ctl false); simpl; [apply prefix_nil | apply prefix_refl].
Qed.

(* ------------------------------------------------------------------ results for the flight stages *)
Definition Good (S : stage) (E : list cyc -> Prop) (f : list xfer -> list xfer) (cap : nat) : Prop :=
  Safe S E f /\ Lag S E f cap.

Lemma id_inv : forall cs, Tin (trace idS cs) = Tout (trace idS cs) ++ fl_id (after idS cs).
Proof. apply flight_inv; [reflexivity | apply id_step]. Qed.
Lemma id_Good : Good idS ETrue idf 0 /\ Strong idS ETrue idf.
Proof.
  repeat split.
  - apply (flight_Safe idS fl_id); [reflexivity | apply id_step | apply id_head].
  - apply (flight_Lag idS fl_id); [reflexivity | apply id_step | intros; simpl; lia].
  - apply (flight_Strong idS fl_id); [reflexivity | apply id_step].
Qed.

Lemma block_inv : forall cs, Tin (trace blockS cs) = Tout (trace blockS cs) ++ fl_reg (after blockS cs).
Proof. apply (flight_inv blockS fl_reg); [reflexivity | apply block_step]. Qed.
Lemma block_Good : Good blockS ETrue idf 1 /\ Strong blockS ETrue idf.
Proof.
  repeat split.
  - apply (flight_Safe blockS fl_reg); [reflexivity | apply block_step | apply block_head].
  - apply (flight_Lag blockS fl_reg); [reflexivity | apply block_step | apply fl_reg_cap].
  - apply (flight_Strong blockS fl_reg); [reflexivity | apply block_step].
Qed.

Lemma regDown_inv : forall cs, Tin (trace regDownS cs) = Tout (trace regDownS cs) ++ fl_reg (after regDownS cs).
Proof. apply (flight_inv regDownS fl_reg); [reflexivity | apply regDown_step]. Qed.
Lemma regDown_Good : Good regDownS ETrue idf 1 /\ Strong regDownS ETrue idf.
Proof.
  repeat split.
  - apply (flight_Safe regDownS fl_reg); [reflexivity | apply regDown_step | apply regDown_head].
  - apply (flight_Lag regDownS fl_reg); [reflexivity | apply regDown_step | apply fl_reg_cap].
  - apply (flight_Strong regDownS fl_reg); [reflexivity | apply regDown_step].
Qed.

Lemma ready_inv : forall cs, Tin (trace readyS cs) = Tout (trace readyS cs) ++ fl_ready (after readyS cs).
Proof. apply (flight_inv readyS fl_ready); [reflexivity | apply ready_step]. Qed.
Lemma ready_Good : Good readyS ETrue idf 1 /\ Strong readyS ETrue idf.
Proof.
  repeat split.
  - apply (flight_Safe readyS fl_ready); [reflexivity | apply ready_step | apply ready_head].
  - apply (flight_Lag readyS fl_ready); [reflexivity | apply ready_step | apply fl_ready_cap].
  - apply (flight_Strong readyS fl_ready); [reflexivity | apply ready_step].
Qed.

Lemma stall_inv : forall k cs, Tin (trace (stallS k) cs) = Tout (trace (stallS k) cs).
Proof.
  intros k cs. rewrite (flight_inv (stallS k) (fl_stall k)); [apply app_nil_r | reflexivity | apply stall_step].
Qed.
Lemma stall_Good : forall k, Good (stallS k) ETrue idf 0 /\ Strong (stallS k) ETrue idf.
Proof.
  intro k. repeat split.
  - apply (flight_Safe (stallS k) (fl_stall k)); [reflexivity | apply stall_step | apply stall_head].
  - apply (flight_Lag (stallS k) (fl_stall k)); [reflexivity | apply stall_step | intros; simpl; lia].
  - apply (flight_Strong (stallS k) (fl_stall k)); [reflexivity | apply stall_step].
Qed.

(* ------------------------------------------------------------------ composition keeps Good / Strong *)
Lemma Good_compose : forall A B EA EB fA fB capA capB kB,
  mono fA -> mono fB -> lip fB kB ->
  Good A EA fA capA -> Good B EB fB capB ->
  Good (compose A B) (Ecomp A B EA EB) (fun l => fB (fA l)) (capB + kB * capA).
Proof.
  intros A B EA EB fA fB capA capB kB MA MB LB [SA LA] [SB LBg]. split.
  - apply compose_Safe; assumption.
  - eapply compose_Lag; eassumption.
Qed.

Lemma Good_true_compose_id : forall A B capA capB,
  Good A ETrue idf capA -> Good B ETrue idf capB -> Good (compose A B) ETrue idf (capB + capA).
Proof.
  intros A B capA capB GA GB.
  pose proof (Good_compose A B ETrue ETrue idf idf capA capB 1 mono_id mono_id lip_id GA GB) as [S L].
  split.
  - eapply Safe_weaken; [|exact S]. intros; split; exact I.
  - eapply Lag_weaken; [| |exact L]. intros; split; exact I. lia.
Qed.

Lemma Strong_true_compose_id : forall A B,
  Strong A ETrue idf -> Strong B ETrue idf -> Strong (compose A B) ETrue idf.
Proof.
  intros A B SA SB.
  pose proof (compose_Strong A B ETrue ETrue idf idf mono_id SA SB) as S.
  eapply Strong_weaken; [|exact S]. intros; split; exact I.
Qed.

(* regDecouple = regReady(regDownstreamBlocking) *)
Lemma decouple_Good : Good decoupleS ETrue idf 2 /\ Strong decoupleS ETrue idf.
Proof.
  split.
  - apply (Good_true_compose_id blockS readyS 1 1); [apply block_Good | apply ready_Good].
  - apply Strong_true_compose_id; [apply block_Good | apply ready_Good].
Qed.

Lemma blocks_Good : forall n, Good (blocksS n) ETrue idf n /\ Strong (blocksS n) ETrue idf.
Proof.
  induction n as [|n [G Sg]]; [apply id_Good|]. split.
  - change (S n) with (1 + n). apply (Good_true_compose_id (blocksS n) blockS n 1); [exact G | apply block_Good].
  - apply Strong_true_compose_id; [exact Sg | apply block_Good].
Qed.

Lemma delay_Good : forall n, Good (delayS n) ETrue idf n /\ Strong (delayS n) ETrue idf.
Proof.
  intros [|n]; [apply id_Good|]. destruct (blocks_Good n) as [G Sg]. split.
  - change (S n) with (1 + n). apply (Good_true_compose_id (blocksS n) regDownS n 1); [exact G | apply regDown_Good].
  - apply Strong_true_compose_id; [exact Sg | apply regDown_Good].
Qed.

(* ------------------------------------------------------------------ extendWidth *)
Section Extend.
Variable r : nat.
Hypothesis Hr : 1 <= r.

(* the register invariant: the counter counts the members of the incomplete group, whose payloads
   sit in the last [cnt] slots of the shift register *)
Definition ext_inv (cs : list cyc) : Prop :=
  let s := after (extendS r) cs in
  let tr := trace (extendS r) cs in
  Tout tr = pack r (Tin tr) /\
  length (pacc r (Tin tr)) = fst s /\ fst s < r /\
  length (snd s) = r /\ skipn (r - fst s) (snd s) = map xdata (pacc r (Tin tr)).

Lemma skipn_tl_snoc : forall A (l : list A) n x, 1 <= n -> n <= length l ->
  skipn (n - 1) (tl l ++ [x]) = skipn n l ++ [x].
Proof.
  intros A l n x H1 H2. destruct l as [|y l]; [simpl in H2; lia|]. simpl tl.
  destruct n as [|n]; [lia|]. simpl. replace (n - 0) with n by lia.
  rewrite skipn_app. simpl in H2. replace (n - length l) with 0 by lia. reflexivity.
Qed.

Lemma ext_inv_all : forall cs, ext_inv cs.
Proof.
  induction cs as [|c cs IH] using rev_ind.
  - unfold ext_inv, trace, after; simpl. repeat split; try lia.
    + now rewrite repeat_length.
    + rewrite Nat.sub_0_r. rewrite skipn_all2; [reflexivity| rewrite repeat_length; lia].
  - unfold ext_inv in *. rewrite trace_snoc, after_snoc, Tin_snoc, Tout_snoc.
    destruct IH as (I1 & I2 & I3 & I4 & I5).
    set (s := after (extendS r) cs) in *. set (tr := trace (extendS r) cs) in *.
    destruct s as [cnt sl]. destruct c as [ctl b rdy]. simpl in I2, I3, I4, I5.
    unfold xin, xout, evAt, stepS; simpl.
    unfold isLast, cntInc, isLast.
    destruct (bvalid b) eqn:Eb; simpl.
    2:{ rewrite andb_false_r; simpl. rewrite !app_nil_r. repeat split; assumption. }
    rewrite andb_true_r.
    destruct (Nat.eqb cnt (pred r)) eqn:Ec; simpl.
    + (* last member of the group *)
      apply Nat.eqb_eq in Ec.
      destruct rdy; simpl.
      * rewrite pack_snoc, pacc_snoc, I2. assert (E : Nat.eqb cnt (pred r) = true) by (now apply Nat.eqb_eq). rewrite E.
        repeat split; try lia.
        -- rewrite I1. f_equal. f_equal. unfold mkpacked, xf. rewrite last_last. unfold xeop, xmeta; simpl.
           f_equal. f_equal. rewrite map_app, concat_app. simpl. rewrite app_nil_r.
           rewrite concat_app; simpl; rewrite app_nil_r. f_equal. f_equal.
           rewrite <- I5. replace (r - cnt) with 1 by lia.
           destruct sl; reflexivity.
        -- rewrite app_length; simpl. destruct sl; simpl in *; lia.
        -- rewrite Nat.sub_0_r. rewrite skipn_all2; [reflexivity|]. rewrite app_length; simpl. destruct sl; simpl in *; lia.
      * rewrite !app_nil_r. repeat split; assumption.
    + (* not the last member: accepted whatever the consumer says *)
      apply Nat.eqb_neq in Ec. rewrite orb_true_r; simpl.
      rewrite andb_false_l || idtac. simpl.
      rewrite app_nil_r.
      rewrite pack_snoc, pacc_snoc, I2. assert (E : Nat.eqb cnt (pred r) = false) by (now apply Nat.eqb_neq). rewrite E.
      repeat split; try lia.
      * exact I1.
      * rewrite app_length; simpl; lia.
      * rewrite app_length; simpl. destruct sl; simpl in *; lia.
      * rewrite map_app; simpl. rewrite <- I5.
        replace (r - S cnt) with ((r - cnt) - 1) by lia. apply skipn_tl_snoc; lia.
Qed.

Lemma extend_transfers_eq : forall cs, Tout (trace (extendS r) cs) = pack r (Tin (trace (extendS r) cs)).
Proof. intro cs; apply (ext_inv_all cs). Qed.

Lemma extend_Good : Good (extendS r) ETrue (pack r) 0 /\ Strong (extendS r) ETrue (pack r).
Proof.
  repeat split.
  - intros cs c _. destruct (ext_inv_all cs) as (I1 & I2 & I3 & I4 & I5).
    set (s := after (extendS r) cs) in *. set (tr := trace (extendS r) cs) in *.
    destruct s as [cnt sl]. destruct c as [ctl b rdy]. simpl in I2, I3, I4, I5.
    unfold offin, offout, evAt; simpl. unfold isLast.
    destruct (bvalid b) eqn:Eb; simpl.
    2:{ rewrite andb_false_r, !app_nil_r, I1. apply prefix_refl. }
    rewrite andb_true_r, pack_snoc, I2.
    destruct (Nat.eqb cnt (pred r)) eqn:Ec; simpl.
    + apply Nat.eqb_eq in Ec. rewrite I1.
      replace (mkpacked (pacc r (Tin tr) ++ [xf b])) with (xf (mkBeat true (concat (tl sl ++ [bdata b])) (beop b) (bmeta b))); [apply prefix_refl|].
      unfold mkpacked, xf. rewrite last_last. unfold xeop, xmeta; simpl.
      f_equal. f_equal. rewrite map_app, !concat_app. simpl. rewrite !app_nil_r. f_equal. f_equal.
      rewrite <- I5. replace (r - cnt) with 1 by lia. destruct sl; reflexivity.
    + rewrite app_nil_r, I1. apply prefix_refl.
  - intros cs _. rewrite extend_transfers_eq. lia.
  - intros cs _. rewrite extend_transfers_eq. apply prefix_refl.
Qed.
End Extend.

(* ------------------------------------------------------------------ reduceWidth *)
Section Reduce.
Variable r : nat.
Hypothesis Hr : 1 <= r.

(* [pend] = the sub-beats of the beat currently on offer that were already delivered *)
Definition red_inv (cs : list cyc) : Prop :=
  let cnt := after (reduceS r) cs in
  let tr := trace (reduceS r) cs in
  cnt < r /\
  exists pend, Tout tr = unpack r (Tin tr) ++ pend /\ length pend = cnt /\
    (0 < cnt -> exists cs' c, cs = cs' ++ [c] /\
        let e := evAt (reduceS r) (after (reduceS r) cs') c in
        bvalid (e_in e) = true /\ e_rin e = false /\ pend = firstn cnt (unpack1 r (xf (e_in e)))).

Lemma inW_snoc2 : forall S cs c1 c2,
  inW (trace S ((cs ++ [c1]) ++ [c2])) =
  inW (trace S cs) ++ [ (e_in (evAt S (after S cs) c1), e_rin (evAt S (after S cs) c1));
                        (e_in (evAt S (after S (cs ++ [c1])) c2), e_rin (evAt S (after S (cs ++ [c1])) c2)) ].
Proof.
  intros. rewrite trace_snoc, trace_snoc. unfold inW. rewrite !map_app. simpl. now rewrite <- app_assoc.
Qed.

Lemma red_inv_all : forall cs, EHold (reduceS r) cs -> red_inv cs.
Proof.
  induction cs as [|c cs IH] using rev_ind; intro HE.
  - unfold red_inv, trace, after; simpl. split; [lia|]. exists []. repeat split. intro; lia.
  - assert (HE' : EHold (reduceS r) cs).
    { unfold EHold in *. rewrite trace_snoc in HE. unfold inW in HE. rewrite map_app in HE. eapply holdW_app_l, HE. }
    specialize (IH HE'). unfold red_inv in *.
    rewrite trace_snoc, after_snoc, Tin_snoc, Tout_snoc.
    destruct IH as (I1 & pend & I2 & I3 & I4).
    set (cnt := after (reduceS r) cs) in *. set (tr := trace (reduceS r) cs) in *.
    (* what the hold hypothesis says about the new cycle when a beat is pending *)
    assert (HP : 0 < cnt -> bvalid (c_in c) = true /\ pend = firstn cnt (unpack1 r (xf (c_in c)))).
    { intro Hc. destruct (I4 Hc) as (cs' & c1 & -> & Hv & Hr1 & Hp).
      unfold EHold in HE. rewrite inW_snoc2 in HE. apply holdW_snoc2 in HE. unfold hold2 in HE; simpl in HE.
      simpl in Hv, Hr1. destruct (HE Hv Hr1) as [Hv2 Hx]. split; [exact Hv2|]. rewrite Hp. simpl. now rewrite Hx. }
    destruct c as [ctl b rdy]. unfold xin, xout, evAt, stepS; simpl. simpl in HP.
    destruct (bvalid b) eqn:Eb; simpl.
    2:{ (* producer idle: by hold nothing was pending *)
      assert (cnt = 0) by (destruct (Nat.eq_dec cnt 0); [assumption| destruct HP; [lia|discriminate]]).
      split; [lia|]. exists []. rewrite !app_nil_r. repeat split.
      - rewrite I2. destruct pend; [now rewrite app_nil_r| simpl in I3; lia].
      - intro; lia. }
    destruct rdy; simpl.
    + unfold isLast, cntInc, isLast. destruct (Nat.eqb cnt (pred r)) eqn:Ec; simpl.
      * (* last sub-beat goes out, the wide beat is accepted *)
        assert (E := Ec). apply Nat.eqb_eq in Ec. split; [lia|]. exists []. repeat split; [|intro; lia].
        rewrite app_nil_r, unpack_app, I2, <- app_assoc. f_equal. simpl. rewrite app_nil_r.
        assert (Hp : pend = firstn cnt (unpack1 r (xf b))).
        { destruct (Nat.eq_dec cnt 0) as [->|]; [destruct pend; [reflexivity|simpl in I3; lia]| apply HP; lia]. }
        rewrite Hp. rewrite andb_true_r.
        pose proof (unpack1_nth r (xf b) cnt ltac:(lia)) as Hn. unfold isLast in Hn.
        rewrite E, andb_true_r in Hn.
        transitivity (firstn (S cnt) (unpack1 r (xf b))).
        -- rewrite (firstn_S_nth_error _ _ _ _ Hn). reflexivity.
        -- apply firstn_all2. rewrite unpack1_length; lia.
      * (* a sub-beat goes out, the wide beat stays on offer *)
        assert (E := Ec). apply Nat.eqb_neq in Ec. split; [lia|].
        assert (Hp : pend = firstn cnt (unpack1 r (xf b))).
        { destruct (Nat.eq_dec cnt 0) as [->|]; [destruct pend; [reflexivity|simpl in I3; lia]| apply HP; lia]. }
        rewrite andb_false_r. simpl.
        pose proof (unpack1_nth r (xf b) cnt ltac:(lia)) as Hn. unfold isLast in Hn.
        rewrite E, andb_false_r in Hn.
        exists (firstn (S cnt) (unpack1 r (xf b))). repeat split.
        -- rewrite app_nil_r, I2, <- app_assoc. f_equal. rewrite (firstn_S_nth_error _ _ _ _ Hn), <- Hp.
           reflexivity.
        -- rewrite firstn_length, unpack1_length. lia.
        -- intros _. exists cs, (mkCyc ctl b true). split; [reflexivity|]. simpl. fold cnt.
           unfold isLast. rewrite E, Eb. simpl. repeat split.
    + (* consumer not ready: nothing moves *)
      rewrite ?andb_false_r. simpl. rewrite ?app_nil_r. split; [exact I1|].
      exists pend. repeat split; [exact I2| exact I3|].
      intros Hc. exists cs, (mkCyc ctl b false). split; [reflexivity|]. simpl. rewrite Eb. repeat split.
      apply HP, Hc.
Qed.

(* under producer hold the delivered sub-beats are the unpacked accepted beats plus fewer than r
   sub-beats of the beat on offer; in particular nothing is duplicated, lost or reordered *)
Lemma reduce_transfers_eq : forall cs, EHold (reduceS r) cs ->
  exists pend, Tout (trace (reduceS r) cs) = unpack r (Tin (trace (reduceS r) cs)) ++ pend /\ length pend < r.
Proof.
  intros cs HE. destruct (red_inv_all cs HE) as (I1 & pend & I2 & I3 & _). exists pend. split; [exact I2|]. lia.
Qed.

Lemma reduce_Good : Good (reduceS r) (EHold (reduceS r)) (unpack r) 0.
Proof.
  split.
  - intros cs c HE.
    assert (HE' : EHold (reduceS r) cs).
    { unfold EHold in *. rewrite trace_snoc in HE. unfold inW in HE. rewrite map_app in HE. eapply holdW_app_l, HE. }
    destruct (red_inv_all cs HE') as (I1 & pend & I2 & I3 & I4).
    set (cnt := after (reduceS r) cs) in *. set (tr := trace (reduceS r) cs) in *.
    destruct c as [ctl b rdy]. unfold offin, offout, evAt; simpl.
    destruct (bvalid b) eqn:Eb; simpl.
    + assert (Hp : pend = firstn cnt (unpack1 r (xf b))).
      { destruct (Nat.eq_dec cnt 0) as [E0|E0]; [rewrite E0 in *; destruct pend; [reflexivity|simpl in I3; lia]|].
        destruct (I4 ltac:(lia)) as (cs' & c1 & Ecs & Hv & Hr1 & Hp). subst cs.
        unfold EHold in HE. rewrite inW_snoc2 in HE. apply holdW_snoc2 in HE. unfold hold2 in HE; simpl in HE.
        simpl in Hv, Hr1. destruct (HE Hv Hr1) as [_ Hx]. rewrite Hp. simpl. simpl in Hx. now rewrite Hx. }
      rewrite unpack_app, I2, <- app_assoc. apply prefix_app_l. simpl. rewrite app_nil_r.
      pose proof (unpack1_nth r (xf b) cnt ltac:(lia)) as Hn.
      rewrite Hp.
      exists (skipn (S cnt) (unpack1 r (xf b))).
      rewrite <- (firstn_skipn (S cnt) (unpack1 r (xf b))) at 1.
      rewrite (firstn_S_nth_error _ _ _ _ Hn). reflexivity.
    + rewrite !app_nil_r.
      assert (cnt = 0).
      { destruct (Nat.eq_dec cnt 0) as [E0|E0]; [assumption|].
        destruct (I4 ltac:(lia)) as (cs' & c1 & Ecs & Hv & Hr1 & Hp). subst cs.
        unfold EHold in HE. rewrite inW_snoc2 in HE. apply holdW_snoc2 in HE. unfold hold2 in HE; simpl in HE.
        simpl in Hv, Hr1. destruct (HE Hv Hr1) as [Hv2 _]. simpl in Hv2. congruence. }
      destruct pend; [|simpl in I3; lia]. rewrite I2, app_nil_r. apply prefix_refl.
  - intros cs HE. destruct (reduce_transfers_eq cs HE) as (pend & -> & _). rewrite app_length. lia.
Qed.
End Reduce.
