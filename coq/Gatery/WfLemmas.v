(* C09 -- generic lemmas: association lists, the list idioms (swap-with-back erase, set emplace /
   erase, resize, upd_nth), and the abstract "both directions agree" relation with its link / unlink
   steps.  Nothing here mentions graphs. *)
From Coq Require Import List NArith Arith Bool Lia.
From Gatery Require Import WfDefs.
Import ListNotations.

(* ------------------------------------------------------------------------------------------ *)
Section AMapLemmas.
  Context {V : Type}.
  Implicit Types m : amap V.

  Lemma get_upd_eq : forall m k f, get k (upd k f m) = option_map f (get k m).
  Proof.
    induction m as [|[k' v] r IH]; intros; simpl; auto.
    destruct (N.eqb k k') eqn:E; simpl; rewrite E; auto.
  Qed.

  Lemma get_upd_neq : forall m k k' f, k' <> k -> get k' (upd k f m) = get k' m.
  Proof.
    induction m as [|[k0 v] r IH]; intros; simpl; auto.
    destruct (N.eqb k k0) eqn:E; simpl.
    - apply N.eqb_eq in E; subst. destruct (N.eqb k' k0) eqn:E'; auto. apply N.eqb_eq in E'. congruence.
    - destruct (N.eqb k' k0); auto.
  Qed.

  Lemma get_upd : forall m k k' f,
    get k' (upd k f m) = if N.eq_dec k' k then option_map f (get k m) else get k' m.
  Proof.
    intros. destruct (N.eq_dec k' k); [subst; apply get_upd_eq | apply get_upd_neq; auto].
  Qed.

  Lemma keys_upd : forall m k f, keys (upd k f m) = keys m.
  Proof.
    induction m as [|[k0 v] r IH]; intros; simpl; auto.
    destruct (N.eqb k k0); simpl; auto. f_equal. apply IH.
  Qed.

  Lemma get_Some_In : forall m k v, get k m = Some v -> In (k, v) m.
  Proof.
    induction m as [|[k0 v0] r IH]; simpl; intros; try discriminate.
    destruct (N.eqb k k0) eqn:E.
    - apply N.eqb_eq in E. inversion H; subst; auto.
    - right; auto.
  Qed.

  Lemma get_Some_keys : forall m k v, get k m = Some v -> In k (keys m).
  Proof. intros. apply get_Some_In in H. unfold keys. change k with (fst (k, v)). apply in_map; auto. Qed.

  Lemma get_None_keys : forall m k, get k m = None <-> ~ In k (keys m).
  Proof.
    induction m as [|[k0 v0] r IH]; simpl; intros.
    - tauto.
    - destruct (N.eqb k k0) eqn:E.
      + apply N.eqb_eq in E; subst. split; [discriminate | intros H; exfalso; apply H; auto].
      + apply N.eqb_neq in E. rewrite IH. split; intros H; [intros [H1|H1]; [congruence | auto] | auto].
  Qed.

  Lemma In_get : forall m k v, NoDup (keys m) -> In (k, v) m -> get k m = Some v.
  Proof.
    induction m as [|[k0 v0] r IH]; simpl; intros; try tauto.
    inversion H; subst. destruct H0 as [H0|H0].
    - inversion H0; subst. rewrite N.eqb_refl; auto.
    - destruct (N.eqb k k0) eqn:E.
      + apply N.eqb_eq in E; subst. exfalso. apply H3. change k0 with (fst (k0, v)). apply in_map; auto.
      + auto.
  Qed.

  Lemma get_app : forall m m' k, get k (m ++ m') = match get k m with Some v => Some v | None => get k m' end.
  Proof.
    induction m as [|[k0 v0] r IH]; simpl; intros; auto.
    destruct (N.eqb k k0); auto.
  Qed.

  Lemma get_snoc : forall m k k0 (v : V),
    get k (m ++ [(k0, v)]) = match get k m with Some x => Some x | None => if N.eq_dec k k0 then Some v else None end.
  Proof.
    intros. rewrite get_app. destruct (get k m); auto. simpl.
    destruct (N.eq_dec k k0); [subst; rewrite N.eqb_refl; auto | apply N.eqb_neq in n; rewrite n; auto].
  Qed.

  Lemma keys_snoc : forall m k (v : V), keys (m ++ [(k, v)]) = keys m ++ [k].
  Proof. intros. unfold keys. rewrite map_app. reflexivity. Qed.

  Lemma get_del_neq : forall m k k', k' <> k -> get k' (del k m) = get k' m.
  Proof.
    induction m as [|[k0 v0] r IH]; simpl; intros; auto.
    destruct (N.eqb k k0) eqn:E.
    - apply N.eqb_eq in E; subst. apply N.eqb_neq in H. rewrite H. auto.
    - simpl. destruct (N.eqb k' k0); auto.
  Qed.

  Lemma keys_del_incl : forall m k x, In x (keys (del k m)) -> In x (keys m).
  Proof.
    induction m as [|[k0 v0] r IH]; simpl; intros; auto.
    destruct (N.eqb k k0); simpl in *; auto. destruct H; auto. right. eapply IH; eauto.
  Qed.

  Lemma NoDup_keys_del : forall m k, NoDup (keys m) -> NoDup (keys (del k m)).
  Proof.
    induction m as [|[k0 v0] r IH]; simpl; intros; auto.
    inversion H; subst. destruct (N.eqb k k0); simpl; auto.
    constructor; auto. intros Hin. apply H2. eapply keys_del_incl; eauto.
  Qed.

  Lemma get_del_eq : forall m k, NoDup (keys m) -> get k (del k m) = None.
  Proof.
    induction m as [|[k0 v0] r IH]; simpl; intros; auto.
    inversion H; subst. destruct (N.eqb k k0) eqn:E.
    - apply N.eqb_eq in E; subst. apply get_None_keys; auto.
    - simpl. rewrite E. auto.
  Qed.

  Lemma get_del : forall m k k', NoDup (keys m) ->
    get k' (del k m) = if N.eq_dec k' k then None else get k' m.
  Proof. intros. destruct (N.eq_dec k' k); [subst; apply get_del_eq; auto | apply get_del_neq; auto]. Qed.

  (* quantifying over the entries of a duplicate-free map = quantifying over successful lookups *)
  Lemma forallb_amap : forall m (P : N * V -> bool), NoDup (keys m) ->
    (forallb P m = true <-> forall k v, get k m = Some v -> P (k, v) = true).
  Proof.
    intros. rewrite forallb_forall. split; intros.
    - apply H0. apply get_Some_In; auto.
    - destruct x as [k v]. apply H0. apply In_get; auto.
  Qed.
End AMapLemmas.

(* ------------------------------------------------------------------------------------------ *)
Section ListLemmas.
  Context {X : Type} (eqd : forall a b : X, {a = b} + {a <> b}).

  Lemma memb_true : forall a l, memb eqd a l = true <-> In a l.
  Proof. intros. unfold memb. destruct (in_dec eqd a l); split; intros; auto; discriminate. Qed.

  Lemma memb_false : forall a l, memb eqd a l = false <-> ~ In a l.
  Proof. intros. unfold memb. destruct (in_dec eqd a l); split; intros; auto; try discriminate; tauto. Qed.

  Lemma count_snoc : forall l a x,
    count_occ eqd (l ++ [a]) x = count_occ eqd l x + (if eqd a x then 1 else 0).
  Proof. intros. rewrite count_occ_app. simpl. destruct (eqd a x); auto. Qed.

  Lemma count_last_removelast : forall (r : list X) d x, r <> [] ->
    count_occ eqd (last r d :: removelast r) x = count_occ eqd r x.
  Proof.
    intros. rewrite (app_removelast_last d H) at 3. rewrite count_snoc. simpl.
    destruct (eqd (last r d) x); lia.
  Qed.

  Lemma count_swap_remove_neq : forall l a x, x <> a ->
    count_occ eqd (swap_remove eqd a l) x = count_occ eqd l x.
  Proof.
    induction l as [|y r IH]; intros; simpl; auto.
    destruct (eqd a y).
    - subst y. destruct r as [|z r'].
      + simpl. destruct (eqd a x); congruence.
      + rewrite count_last_removelast by discriminate.
        destruct (eqd a x); [congruence | auto].
    - simpl. destruct (eqd y x); rewrite IH; auto.
  Qed.

  Lemma count_swap_remove_eq : forall l a, In a l ->
    count_occ eqd (swap_remove eqd a l) a = count_occ eqd l a - 1.
  Proof.
    induction l as [|y r IH]; intros; simpl in *; [tauto|].
    destruct (eqd a y).
    - subst y. destruct r as [|z r'].
      + simpl. destruct (eqd a a); auto.
      + rewrite count_last_removelast by discriminate. destruct (eqd a a); [lia | congruence].
    - destruct H; [congruence|]. simpl. destruct (eqd y a); [congruence|]. auto.
  Qed.

  Lemma swap_remove_notin : forall l a, ~ In a l -> swap_remove eqd a l = l.
  Proof.
    induction l as [|y r IH]; intros; simpl in *; auto.
    destruct (eqd a y); [exfalso; apply H; auto|]. f_equal. apply IH. tauto.
  Qed.

  Lemma length_removelast_S : forall (r : list X), r <> [] -> S (length (removelast r)) = length r.
  Proof.
    intros. destruct r as [|z r']; [congruence|].
    pose proof (app_removelast_last z H) as E. apply (f_equal (@length X)) in E.
    rewrite app_length in E. simpl length at 3 in E. lia.
  Qed.

  Lemma length_swap_remove : forall l a, In a l -> S (length (swap_remove eqd a l)) = length l.
  Proof.
    induction l as [|y r IH]; intros; [simpl in *; tauto|].
    simpl swap_remove. destruct (eqd a y).
    - destruct r as [|z r']; auto.
      change (length (last (z :: r') z :: removelast (z :: r'))) with (S (length (removelast (z :: r')))).
      rewrite length_removelast_S by discriminate. reflexivity.
    - destruct H; [congruence|]. simpl. f_equal. auto.
  Qed.

  Lemma In_swap_remove : forall l a x, In x (swap_remove eqd a l) -> In x l.
  Proof.
    intros. destruct (eqd x a).
    - subst. destruct (in_dec eqd a l); auto. rewrite swap_remove_notin in H; auto.
    - apply (count_occ_In eqd). rewrite <- (count_swap_remove_neq l a x n). apply (count_occ_In eqd). auto.
  Qed.

  Lemma count_set_erase_eq : forall l a, count_occ eqd (set_erase eqd a l) a = 0.
  Proof. intros. apply count_occ_not_In. unfold set_erase. apply remove_In. Qed.

  Lemma count_set_erase_neq : forall l a x, x <> a ->
    count_occ eqd (set_erase eqd a l) x = count_occ eqd l x.
  Proof.
    unfold set_erase. induction l as [|y r IH]; intros; simpl; auto.
    destruct (eqd a y).
    - subst. destruct (eqd y x); [congruence|]. auto.
    - simpl. destruct (eqd y x); rewrite IH; auto.
  Qed.

  Lemma set_add_notin : forall l a, ~ In a l -> set_add eqd a l = l ++ [a].
  Proof. intros. unfold set_add. destruct (in_dec eqd a l); tauto. Qed.

  Lemma nodupb_true : forall l, nodupb eqd l = true <-> NoDup l.
  Proof.
    induction l as [|x r IH]; simpl.
    - split; intros; auto. constructor.
    - rewrite andb_true_iff, negb_true_iff, memb_false, IH. split.
      + intros [? ?]. constructor; auto.
      + intros H. inversion H; auto.
  Qed.
End ListLemmas.

Lemma nth_upd_nth : forall {X} (l : list X) i j f d,
  nth j (upd_nth i f l) d = if Nat.eq_dec j i then (if Nat.ltb i (length l) then f (nth i l d) else d) else nth j l d.
Proof.
  induction l as [|x r IH]; intros; simpl.
  - destruct (Nat.eq_dec j i); destruct j; auto.
  - destruct i as [|i]; destruct j as [|j]; simpl; auto.
    rewrite IH. destruct (Nat.eq_dec j i); simpl; auto.
Qed.

Lemma nth_error_upd_nth : forall {X} (l : list X) i j f,
  nth_error (upd_nth i f l) j = if Nat.eq_dec j i then option_map f (nth_error l i) else nth_error l j.
Proof.
  induction l as [|x r IH]; intros; simpl.
  - destruct (Nat.eq_dec j i); destruct j; destruct i; auto.
  - destruct i as [|i]; destruct j as [|j]; simpl; auto.
    rewrite IH. destruct (Nat.eq_dec j i); simpl; auto.
Qed.

Lemma length_upd_nth : forall {X} (l : list X) i f, length (upd_nth i f l) = length l.
Proof. induction l; intros; destruct i; simpl; auto. Qed.

Lemma length_resize : forall {X} k (d : X) l, length (resize k d l) = k.
Proof. intros. unfold resize. rewrite app_length, firstn_length, repeat_length. lia. Qed.

Lemma nth_resize : forall {X} k (d : X) l i,
  nth i (resize k d l) d = if Nat.ltb i k then nth i l d else d.
Proof.
  intros. unfold resize. destruct (i <? k) eqn:E.
  - apply Nat.ltb_lt in E. destruct (Nat.lt_ge_cases i (length l)).
    + rewrite app_nth1 by (rewrite firstn_length; lia). rewrite <- (firstn_skipn k l) at 2.
      rewrite app_nth1 by (rewrite firstn_length; lia). auto.
    + rewrite app_nth2 by (rewrite firstn_length; lia).
      rewrite (nth_overflow l) by lia.
      destruct (nth_in_or_default (i - length (firstn k l)) (repeat d (k - length l)) d) as [Hin|Hd]; auto.
      apply repeat_spec in Hin. auto.
  - apply Nat.ltb_ge in E. apply nth_overflow. rewrite <- (length_resize k d l) in E. exact E.
Qed.

Lemma nth_error_resize : forall {X} k (d : X) l i,
  nth_error (resize k d l) i =
  if Nat.ltb i k then (if Nat.ltb i (length l) then nth_error l i else Some d) else None.
Proof.
  intros. unfold resize. destruct (i <? k) eqn:E.
  - apply Nat.ltb_lt in E. destruct (i <? length l) eqn:E2.
    + apply Nat.ltb_lt in E2. rewrite nth_error_app1 by (rewrite firstn_length; lia).
      rewrite <- (firstn_skipn k l) at 2. rewrite nth_error_app1 by (rewrite firstn_length; lia). auto.
    + apply Nat.ltb_ge in E2. rewrite nth_error_app2 by (rewrite firstn_length; lia).
      rewrite firstn_length. replace (Init.Nat.min k (length l)) with (length l) by lia.
      assert (Hlt : i - length l < length (repeat d (k - length l))) by (rewrite repeat_length; lia).
      destruct (nth_error (repeat d (k - length l)) (i - length l)) eqn:Hn.
      * apply nth_error_In in Hn. apply repeat_spec in Hn. subst; auto.
      * apply nth_error_None in Hn. lia.
  - apply Nat.ltb_ge in E. apply nth_error_None. rewrite app_length, firstn_length, repeat_length. lia.
Qed.

Lemma nth_repeat_same : forall {X} (d : X) n i, nth i (repeat d n) d = d.
Proof.
  intros. destruct (nth_in_or_default i (repeat d n) d) as [H|H]; auto. apply repeat_spec in H; auto.
Qed.

Lemma nth_error_repeat : forall {X} (d : X) n i, nth_error (repeat d n) i = if Nat.ltb i n then Some d else None.
Proof.
  intros. destruct (i <? n) eqn:E.
  - apply Nat.ltb_lt in E. destruct (nth_error (repeat d n) i) eqn:Hn.
    + apply nth_error_In in Hn. apply repeat_spec in Hn. subst; auto.
    + apply nth_error_None in Hn. rewrite repeat_length in Hn. lia.
  - apply Nat.ltb_ge in E. apply nth_error_None. rewrite repeat_length. lia.
Qed.

Lemma forallb_i_spec : forall {X} (f : nat -> X -> bool) l s,
  forallb_i f s l = true <-> forall i x, nth_error l i = Some x -> f (s + i) x = true.
Proof.
  induction l as [|y r IH]; intros; simpl.
  - split; intros; auto. destruct i; discriminate.
  - rewrite andb_true_iff, IH. split.
    + intros [H1 H2] i x Hn. destruct i; simpl in Hn.
      * inversion Hn; subst. rewrite Nat.add_0_r. auto.
      * rewrite <- plus_n_Sm. apply (H2 i x Hn).
    + intros H. split.
      * rewrite <- (Nat.add_0_r s). apply (H 0). auto.
      * intros i x Hn. rewrite plus_Sn_m, plus_n_Sm. apply (H (S i)). auto.
Qed.

(* ------------------------------------------------------------------------------------------ *)
(* "both directions agree"                                                                    *)
(* ------------------------------------------------------------------------------------------ *)
Section Consistent.
  Context {A B : Type} (eqA : forall x y : A, {x = y} + {x <> y}) (eqB : forall x y : B, {x = y} + {x <> y}).
  Variables (f f' : A -> option B) (L L' : B -> list A).

  Lemma consistent_ext :
    consistent eqA f L ->
    (forall a, f' a = f a) -> (forall a b, count_occ eqA (L' b) a = count_occ eqA (L b) a) ->
    consistent eqA f' L'.
  Proof.
    intros H Hf HL a b. rewrite Hf, HL. apply H.
  Qed.

  (* remove the edge a -> b *)
  Lemma consistent_unlink : forall a b,
    consistent eqA f L -> f a = Some b ->
    f' a = None -> (forall x, x <> a -> f' x = f x) ->
    count_occ eqA (L' b) a = 0 ->
    (forall x, x <> a -> count_occ eqA (L' b) x = count_occ eqA (L b) x) ->
    (forall b', b' <> b -> L' b' = L b') ->
    consistent eqA f' L'.
  Proof.
    intros a b H Hab Hfa Hfx Hca Hcx HL x y.
    destruct (eqA x a) as [->|Hx].
    - rewrite Hfa. split; [discriminate|]. intros _.
      destruct (eqB y b) as [->|Hy]; auto.
      rewrite HL by auto. apply H. rewrite Hab. congruence.
    - rewrite Hfx by auto. destruct (eqB y b) as [->|Hy].
      + rewrite Hcx by auto. apply H.
      + rewrite HL by auto. apply H.
  Qed.

  (* add the edge a -> b for an a that had none *)
  Lemma consistent_link : forall a b,
    consistent eqA f L -> f a = None ->
    f' a = Some b -> (forall x, x <> a -> f' x = f x) ->
    count_occ eqA (L' b) a = S (count_occ eqA (L b) a) ->
    (forall x, x <> a -> count_occ eqA (L' b) x = count_occ eqA (L b) x) ->
    (forall b', b' <> b -> L' b' = L b') ->
    consistent eqA f' L'.
  Proof.
    intros a b H Hab Hfa Hfx Hca Hcx HL x y.
    destruct (eqA x a) as [->|Hx].
    - rewrite Hfa. destruct (eqB y b) as [->|Hy].
      + split; [intros _|congruence]. rewrite Hca.
        destruct (H a b) as [_ H0]. rewrite H0; auto. rewrite Hab; discriminate.
      + split; [congruence|intros _]. rewrite HL by auto. apply H. rewrite Hab; discriminate.
    - rewrite Hfx by auto. destruct (eqB y b) as [->|Hy].
      + rewrite Hcx by auto. apply H.
      + rewrite HL by auto. apply H.
  Qed.
End Consistent.

Lemma consistent_In : forall {A B} (eqA : forall x y : A, {x = y} + {x <> y})
  (eqB : forall x y : B, {x = y} + {x <> y}) (f : A -> option B) L a b,
  consistent eqA f L -> In a (L b) -> f a = Some b.
Proof.
  intros. destruct (H a b) as [_ H2].
  apply (count_occ_In eqA) in H0.
  destruct (f a) as [b'|] eqn:E.
  - destruct (eqB b' b); [congruence|]. rewrite H2 in H0; [lia | congruence].
  - rewrite H2 in H0; [lia | discriminate].
Qed.
