(* C03 at node level, part 1: output widths, logic, compare, multiplexer, priority
   conditional, forwarding nodes.  (Arithmetic: NodeSemSpecArith.v, shift and rewire:
   NodeSemSpecShift.v.) *)
From Gatery Require Import Bits NodeSemDefs NodeSemBits.
Import ListNotations.

(* ------------------------------------------------------------------ *)
(* every output port has the width the kind says, whatever the inputs    *)

Lemma rewire_piece_length xs r : length (rewire_piece xs r) = rw_width r.
Proof.
  unfold rewire_piece. destruct (rw_src r) as [idx off| | |].
  - destruct (inp xs idx); [apply bv_slice_length | apply all_X_length].
  - apply repeat_length.
  - apply repeat_length.
  - apply all_X_length.
Qed.

Lemma rewire_concat_length xs ranges :
  length (concat (map (rewire_piece xs) ranges)) = rewire_width ranges.
Proof.
  induction ranges as [|r rs IH]; simpl; [reflexivity|].
  rewrite app_length, rewire_piece_length, IH. reflexivity.
Qed.

Lemma prio_loop_length w d cs : length (prio_loop w d cs) = w.
Proof.
  assert (C : forall o, length (copy_or_X w o) = w).
  { intros [x|]; simpl; [apply bv_build_length | apply all_X_length]. }
  assert (G : forall n cs, length cs <= n -> length (prio_loop w d cs) = w).
  { induction n as [|n IH]; intros [|c [|v rest]] Hn; simpl in *; try apply C; try lia.
    destruct c as [cb|]; [|apply all_X_length].
    destruct (bv_get cb 0); [apply IH; lia | apply C | apply all_X_length]. }
  apply (G (length cs)). lia.
Qed.

Lemma shift_core_length d f w x a : length (shift_core d f w x a) = w.
Proof.
  unfold shift_core. destruct ((N.of_nat w <=? a)%N && negb (is_rotate f)).
  - apply repeat_length.
  - destruct (Nat.eqb_spec w 0) as [->|]; [reflexivity|].
    destruct d; apply bv_build_length.
Qed.

Theorem eval_length k xs : map (@length tbit) (eval k xs) = out_widths k.
Proof.
  destruct k; simpl.
  - unfold eval_logic. simpl. rewrite bv_build_length. reflexivity.
  - unfold eval_arith. destruct (arith_operands xs) as [vs|]; [|simpl; rewrite all_X_length; reflexivity].
    destruct (w <=? 64).
    + destruct (arith64 op vs) as [r [|]]; simpl; rewrite ?bv_of_N_length, ?all_X_length; reflexivity.
    + destruct (arithZ op vs) as [z [|]]; simpl; rewrite ?bv_of_N_length, ?all_X_length; reflexivity.
  - unfold eval_compare. destruct (inp xs 0) as [a|]; [|reflexivity]. destruct (inp xs 1) as [b|]; [|reflexivity].
    destruct ((length a =? 0) && (length b =? 0)); [reflexivity|].
    destruct (bv_val a); [|reflexivity]. destruct (bv_val b); [|reflexivity].
    destruct ((length a <=? 64) && (length b <=? 64)); reflexivity.
  - unfold eval_shift. destruct (inp xs 1) as [amt|]; [|simpl; rewrite all_X_length; reflexivity].
    destruct (64 <? length amt); [simpl; rewrite all_X_length; reflexivity|].
    destruct (bv_val amt); simpl; rewrite ?shift_core_length, ?all_X_length; reflexivity.
  - unfold eval_rewire. destruct (rewire_width ranges <=? 64).
    + destruct (fold_left (rewire_step64 xs) ranges (0%N, 0%N, 0)) as [[v d] o]. simpl.
      rewrite bv_of_planes_length. reflexivity.
    + simpl. rewrite rewire_concat_length. reflexivity.
  - unfold eval_mux. destruct (inp xs 0) as [sel|]; [|simpl; rewrite all_X_length; reflexivity].
    destruct (bv_val sel) as [s|].
    + destruct (N.of_nat n <=? s)%N; [simpl; rewrite all_X_length; reflexivity|].
      destruct (inp xs (1 + N.to_nat s)); simpl; unfold bv_resize; rewrite ?bv_build_length, ?all_X_length; reflexivity.
    + simpl. rewrite bv_build_length. reflexivity.
  - unfold eval_prio. simpl. rewrite prio_loop_length. reflexivity.
  - reflexivity.
  - unfold eval_forward. destruct (inp xs 0); simpl; unfold bv_resize; rewrite ?bv_build_length, ?all_X_length; reflexivity.
Qed.

(* ------------------------------------------------------------------ *)
(* Logic: three-valued (Kleene) tables, and the bitwise N operation on defined operands *)

Definition t_not (a : tbit) : tbit := match a with B0 => B1 | B1 => B0 | BX => BX end.
Definition t_and (a b : tbit) : tbit :=
  match a, b with B0, _ | _, B0 => B0 | B1, B1 => B1 | _, _ => BX end.
Definition t_or (a b : tbit) : tbit :=
  match a, b with B1, _ | _, B1 => B1 | B0, B0 => B0 | _, _ => BX end.
Definition t_xor (a b : tbit) : tbit :=
  match a, b with BX, _ | _, BX => BX | _, _ => of_bool (xorb (bit_val a) (bit_val b)) end.

Definition logic_tbl (op : logic_op) (a b : tbit) : tbit :=
  match op with
  | L_AND => t_and a b | L_NAND => t_not (t_and a b)
  | L_OR => t_or a b | L_NOR => t_not (t_or a b)
  | L_XOR => t_xor a b | L_EQ => t_not (t_xor a b)
  | L_NOT => t_not a
  end.

Lemma logic_bit_tbl op a b : logic_bit op a b = logic_tbl op a b.
Proof. destruct op, a, b; reflexivity. Qed.

(* the exact definedness rule: per bit, with 0 dominating AND and 1 dominating OR; an
   unconnected operand behaves as all-undefined *)
Theorem eval_logic_rule op w xs :
  eval (KLogic op w) xs =
  [bv_build w (fun i => logic_tbl op (bv_get (opt_bits (inp xs 0)) i)
                                     (bv_get (match op with L_NOT => [] | _ => opt_bits (inp xs 1) end) i))].
Proof.
  simpl. unfold eval_logic. f_equal. apply bv_build_ext. intros i _. apply logic_bit_tbl.
Qed.

Definition logic_N (op : logic_op) (w : nat) (a b : N) : N :=
  let ones := N.ones (N.of_nat w) in
  match op with
  | L_AND => N.land a b | L_NAND => N.lxor (N.land a b) ones
  | L_OR => N.lor a b | L_NOR => N.lxor (N.lor a b) ones
  | L_XOR => N.lxor a b | L_EQ => N.lxor (N.lxor a b) ones
  | L_NOT => N.lxor a ones
  end.

Lemma ones_testbit w i : N.testbit (N.ones (N.of_nat w)) (N.of_nat i) = (i <? w).
Proof.
  destruct (Nat.ltb_spec i w) as [H|H].
  - apply N.ones_spec_low. lia.
  - apply N.ones_spec_high. lia.
Qed.

Theorem eval_logic_spec op w a b va vb :
  length a = w -> length b = w -> bv_val a = Some va -> bv_val b = Some vb ->
  eval (KLogic op w) [Some a; Some b] = [bv_of_N w (logic_N op w va vb)].
Proof.
  intros La Lb Ha Hb. rewrite eval_logic_rule. f_equal. apply bv_ext.
  - rewrite bv_build_length, bv_of_N_length. reflexivity.
  - intros i Hi. rewrite bv_build_length in Hi. rewrite bv_get_build, bv_get_of_N.
    apply Nat.ltb_lt in Hi as Hi'. rewrite Hi'. cbn [inp nth opt_bits].
    rewrite (bv_get_val a va i Ha) by lia.
    assert (Eb : bv_get b i = of_bool (N.testbit vb (N.of_nat i))) by (apply bv_get_val; [exact Hb | lia]).
    unfold logic_N.
    destruct op; cbn [logic_tbl]; rewrite ?Eb, ?bv_get_nil;
      rewrite ?N.lxor_spec, ?N.land_spec, ?N.lor_spec, ?N.lxor_spec, ?ones_testbit, ?Hi';
      destruct (N.testbit va (N.of_nat i)), (N.testbit vb (N.of_nat i)); reflexivity.
Qed.

Corollary eval_not_spec w a va :
  length a = w -> bv_val a = Some va ->
  eval (KLogic L_NOT w) [Some a] = [bv_of_N w (N.lxor va (N.ones (N.of_nat w)))].
Proof.
  intros La Ha.
  transitivity (eval (KLogic L_NOT w) [Some a; Some a]); [reflexivity|].
  apply (eval_logic_spec L_NOT w a a va va La La Ha Ha).
Qed.

(* ------------------------------------------------------------------ *)
(* Compare                                                               *)

Lemma cmp_Z_N op a b : cmp_Z op (Z.of_N a) (Z.of_N b) = cmp_N op a b.
Proof.
  destruct op; simpl.
  - destruct (Z.eqb_spec (Z.of_N a) (Z.of_N b)), (N.eqb_spec a b); try reflexivity; lia.
  - destruct (Z.eqb_spec (Z.of_N a) (Z.of_N b)), (N.eqb_spec a b); try reflexivity; lia.
  - destruct (Z.ltb_spec (Z.of_N a) (Z.of_N b)), (N.ltb_spec a b); try reflexivity; lia.
  - destruct (Z.ltb_spec (Z.of_N b) (Z.of_N a)), (N.ltb_spec b a); try reflexivity; lia.
  - destruct (Z.leb_spec (Z.of_N a) (Z.of_N b)), (N.leb_spec a b); try reflexivity; lia.
  - destruct (Z.leb_spec (Z.of_N b) (Z.of_N a)), (N.leb_spec b a); try reflexivity; lia.
Qed.

(* fully defined operands of ANY widths (equal or not, zero, <= 64, > 64): the unsigned comparison *)
Theorem eval_compare_spec op a b va vb :
  bv_val a = Some va -> bv_val b = Some vb ->
  eval (KCompare op) [Some a; Some b] = [[of_bool (cmp_N op va vb)]].
Proof.
  intros Ha Hb. simpl. unfold eval_compare. cbn [inp nth]. rewrite Ha, Hb.
  destruct (Nat.eqb_spec (length a) 0) as [La|La]; destruct (Nat.eqb_spec (length b) 0) as [Lb|Lb]; cbn [andb].
  - rewrite (bv_val_nil_iff a La) in Ha. rewrite (bv_val_nil_iff b Lb) in Hb.
    injection Ha as <-. injection Hb as <-. destruct op; reflexivity.
  - destruct ((length a <=? 64) && (length b <=? 64)); [reflexivity | rewrite cmp_Z_N; reflexivity].
  - destruct ((length a <=? 64) && (length b <=? 64)); [reflexivity | rewrite cmp_Z_N; reflexivity].
  - destruct ((length a <=? 64) && (length b <=? 64)); [reflexivity | rewrite cmp_Z_N; reflexivity].
Qed.

(* definedness: all or nothing (except the constant result for two zero-width operands) *)
Theorem eval_compare_undef op a b :
  length a + length b <> 0 -> bv_val a = None \/ bv_val b = None ->
  eval (KCompare op) [Some a; Some b] = [[BX]].
Proof.
  intros Hl H. simpl. unfold eval_compare. cbn [inp nth].
  replace ((length a =? 0) && (length b =? 0)) with false.
  - destruct H as [H|H]; rewrite H; [reflexivity | destruct (bv_val a); reflexivity].
  - symmetry. apply andb_false_iff. destruct (Nat.eqb_spec (length a) 0); [right; apply Nat.eqb_neq; lia | left; reflexivity].
Qed.

Theorem eval_compare_unconnected op xs :
  inp xs 0 = None \/ inp xs 1 = None -> eval (KCompare op) xs = [[BX]].
Proof.
  intros [H|H]; simpl; unfold eval_compare; rewrite H; [reflexivity | destruct (inp xs 0); reflexivity].
Qed.

(* ------------------------------------------------------------------ *)
(* Multiplexer                                                           *)

(* defined selector: the selected input, bit for bit; out of range or unconnected: undefined *)
Theorem eval_mux_spec n w sel s ds :
  bv_val sel = Some s ->
  eval (KMux n w) (Some sel :: ds) =
  [if (N.of_nat n <=? s)%N then all_X w
   else match nth (N.to_nat s) ds None with Some x => bv_resize w x | None => all_X w end].
Proof.
  intro Hs. simpl. unfold eval_mux. cbn [inp nth]. rewrite Hs.
  destruct (N.of_nat n <=? s)%N; [reflexivity|].
  unfold inp. cbn [Nat.add nth]. destruct (nth (N.to_nat s) ds None); reflexivity.
Qed.

(* undefined selector (any bit): ALL n data inputs are merged bit by bit *)
Theorem eval_mux_undef_sel n w sel ds :
  bv_val sel = None ->
  eval (KMux n w) (Some sel :: ds) =
  [bv_build w (fun b => mux_merge_bit (map (fun i => bv_get (opt_bits (nth i ds None)) b) (seq 0 n)))].
Proof.
  intro Hs. simpl. unfold eval_mux. cbn [inp nth]. rewrite Hs. reflexivity.
Qed.

(* what the merge of one bit position yields: a defined value m iff there is at least one
   data input and every data input has exactly m at that position *)
Lemma merge_agree_iff t u :
  is_def t = true -> (is_def u && Bool.eqb (bit_val t) (bit_val u) = true <-> u = t).
Proof. destruct t, u; simpl; intro H; split; intro E; try reflexivity; try discriminate. Qed.

Theorem mux_merge_bit_defined ts m :
  m <> BX -> (mux_merge_bit ts = m <-> ts <> [] /\ Forall (fun t => t = m) ts).
Proof.
  intro Hm. destruct ts as [|t rest]; simpl.
  - split; [intro H; symmetry in H; contradiction | intros [H _]; contradiction].
  - destruct (is_def t) eqn:Dt; simpl.
    + destruct (forallb (fun u => is_def u && Bool.eqb (bit_val t) (bit_val u)) rest) eqn:F.
      * split.
        -- intros ->. split; [discriminate|]. constructor; [reflexivity|].
           apply Forall_forall. intros u Hu. rewrite forallb_forall in F. apply (merge_agree_iff m u Dt). apply F. exact Hu.
        -- intros [_ H]. inversion H; subst. reflexivity.
      * split; [intro H; symmetry in H; contradiction|].
        intros [_ H]. inversion H as [|? ? Ht Hr]; subst. exfalso.
        assert (forallb (fun u => is_def u && Bool.eqb (bit_val m) (bit_val u)) rest = true); [|congruence].
        apply forallb_forall. intros u Hu. apply (merge_agree_iff m u Dt).
        rewrite Forall_forall in Hr. apply Hr. exact Hu.
    + split; [intro H; symmetry in H; contradiction|].
      intros [_ H]. inversion H; subst. destruct m; try discriminate; contradiction.
Qed.

(* ------------------------------------------------------------------ *)
(* Priority conditional                                                  *)

(* all conditions defined: the value of the first true condition, else the default *)
Fixpoint prio_pick (dflt : bv) (cs : list (bool * bv)) : bv :=
  match cs with
  | [] => dflt
  | (c, v) :: rest => if c then v else prio_pick dflt rest
  end.

Definition prio_inputs (cs : list (bool * bv)) : list (option bv) :=
  flat_map (fun cv => [Some [of_bool (fst cv)]; Some (snd cv)]) cs.

Theorem eval_prio_spec w dflt cs :
  eval (KPrio (length cs) w) (Some dflt :: prio_inputs cs) = [bv_resize w (prio_pick dflt cs)].
Proof.
  simpl. unfold eval_prio. cbn [inp nth tl]. f_equal.
  assert (L : length (prio_inputs cs) = 2 * length cs).
  { induction cs as [|[c v] cs IH]; simpl in *; [reflexivity | lia]. }
  rewrite <- L, firstn_all.
  induction cs as [|[c v] cs IH]; [reflexivity|].
  cbn [prio_inputs flat_map app fst snd prio_loop prio_pick].
  destruct c; cbn [of_bool bv_get nth copy_or_X]; [reflexivity|].
  apply IH. clear IH. induction cs as [|[c' v'] cs IH]; simpl in *; [reflexivity | lia].
Qed.

(* an undefined (or unconnected) condition that is reached makes the whole result undefined,
   even if all candidate values agree *)
Theorem eval_prio_undef_cond n w dflt cs c v rest :
  length cs < n ->
  c = None \/ (exists cb, c = Some cb /\ bv_get cb 0 = BX) ->
  eval (KPrio n w) (Some dflt :: prio_inputs (map (fun v => (false, v)) cs) ++ c :: v :: rest) = [all_X w].
Proof.
  intros Hn Hc. unfold eval, eval_prio. cbn [inp nth tl]. f_equal.
  set (pre := prio_inputs (map (fun v0 => (false, v0)) cs)).
  assert (L : length pre = 2 * length cs).
  { subst pre. induction cs as [|v0 cs IH]; simpl in *; [reflexivity | lia]. }
  rewrite firstn_app, L.
  rewrite (firstn_all2 pre) by lia.
  destruct (2 * n - 2 * length cs) as [|[|m]] eqn:E; try lia.
  cbn [firstn]. clear E L Hn. subst pre.
  induction cs as [|v0 cs IH]; cbn [map prio_inputs flat_map app fst snd prio_loop of_bool bv_get nth].
  - destruct Hc as [->|[cb [-> Hb]]]; [reflexivity | rewrite Hb; reflexivity].
  - apply IH.
Qed.

(* ------------------------------------------------------------------ *)
(* Constants and forwarding nodes                                        *)

Theorem eval_const_spec v xs : eval (KConst v) xs = [v].
Proof. reflexivity. Qed.

Theorem eval_forward_spec f x : eval (KForward f (length x)) [Some x] = [x].
Proof. simpl. unfold eval_forward. cbn [inp nth]. rewrite bv_resize_id. reflexivity. Qed.

Theorem eval_forward_unconnected f w : eval (KForward f w) [None] = [all_X w].
Proof. reflexivity. Qed.
