(* C19 -- invariants, part 4: time.  Queued events lie in the future (at or after the current time), logged
   entries in the past; resumptions created for clock waiters carry their clock and phase.  *)
From Coq Require Import List NArith ZArith QArith Qreduction Bool Lia.
From Gatery Require Import SimProcDefs SimProcOrder SimProcSteps SimProcInv1 SimProcInv2 SimProcInv3.
Import ListNotations.
Local Close Scope Q_scope.

(* ------------------------------------------------------------------------- *)
(** * Rational helpers *)

Lemma uQ_nonneg : forall u, (0 <= uQ u)%Q.
Proof. intros [n d]. unfold uQ, Qle. simpl. lia. Qed.
Lemma pQ_pos : forall f, (0 < pQ f)%Q.
Proof. intros [n d]. unfold pQ, Qlt. simpl. lia. Qed.

Lemma half_period_pos : forall f, (0 < f)%Q -> (0 < half_period f)%Q.
Proof.
  intros f H. unfold half_period. rewrite Qred_correct. unfold Qdiv.
  apply Qmult_lt_0_compat; [reflexivity | apply Qinv_lt_0_compat; exact H].
Qed.
Lemma clk_half_pos : forall cfg k, (0 < clk_half cfg k)%Q.
Proof. intros cfg k. unfold clk_half. destruct k; apply half_period_pos; apply pQ_pos. Qed.

Lemma tadd_eq : forall a b, (tadd a b == a + b)%Q.
Proof. intros. unfold tadd. apply Qred_correct. Qed.
Lemma tadd_ge : forall a b, (0 <= b)%Q -> (a <= tadd a b)%Q.
Proof. intros a b H. rewrite tadd_eq. rewrite <- (Qplus_0_r a) at 1. apply Qplus_le_r. exact H. Qed.
Lemma tadd_gt : forall a b, (0 < b)%Q -> (a < tadd a b)%Q.
Proof. intros a b H. rewrite tadd_eq. rewrite <- (Qplus_0_r a) at 1. apply Qplus_lt_r. exact H. Qed.

(* floor(x) + 1 > x *)
Lemma qfloor_succ_gt : forall x, (x < inject_Z (qfloor x + 1))%Q.
Proof.
  intros [n d]. unfold qfloor, Qlt, inject_Z. simpl. rewrite Z.mul_1_r.
  pose proof (Z.mul_succ_div_gt n (Zpos d) ltac:(lia)). lia.
Qed.
Lemma qfloor_le : forall x, (inject_Z (qfloor x) <= x)%Q.
Proof.
  intros [n d]. unfold qfloor, Qle, inject_Z. simpl. rewrite Z.mul_1_r.
  pose proof (Z.mul_div_le n (Zpos d) ltac:(lia)). lia.
Qed.
Lemma clk_freq_pos : forall cfg c, (0 < clk_freq cfg c)%Q.
Proof. intros cfg c. destruct c; apply pQ_pos. Qed.
Lemma xfreq_pos : forall cfg x, (0 < xfreq cfg x)%Q.
Proof.
  intros cfg x. destruct x as [f|p m]; unfold xfreq; [apply pQ_pos|].
  rewrite Qred_correct. apply Qmult_lt_0_compat; [apply clk_freq_pos | apply pQ_pos].
Qed.
Lemma extra_freq_pos : forall cfg i, (0 < extra_freq cfg i)%Q.
Proof. intros. apply xfreq_pos. Qed.

(* the next tick lies strictly after now *)
Lemma next_tick_gt : forall f now, (0 < f)%Q -> (now < next_tick f now)%Q.
Proof.
  intros f now Hf. unfold next_tick. rewrite Qred_correct.
  apply Qlt_shift_div_l; [exact Hf|]. apply qfloor_succ_gt.
Qed.

Definition entry_time (e : entry) : option Q :=
  match e with
  | LProc t _ _ _ _ _ | LEdge t _ _ _ _ _ => Some t
  | _ => None
  end.

(* ------------------------------------------------------------------------- *)
(** * The invariant *)

Record inv4a (cfg : config) (s : state) : Prop := mk_inv4a {
  i4_future : forall e, In e (s_queue s) -> (s_now s <= e_time e)%Q;
  i4_past : forall e t, In e (s_log s) -> entry_time e = Some t -> (t <= s_now s)%Q;
  i4_await : forall k a, In a (get_await k s) -> exists c, aw_why a = WkClk c (aw_phase a) /\ eff_clk cfg c = k;
  i4_evclk : forall e c ph, In e (s_queue s) -> e_type e = SimProcResume -> e_why e = WkClk c ph ->
               e_phase e = ph /\ e_pin e = eff_clk cfg c /\ e_rising e = true;
  i4_ro : s_readonly s = true -> s_phase s = AFTER;
  i4_mt0 : forall e, In e (s_queue s) -> e_type e = SimProcResume -> e_phase e <> AFTER -> e_mt e = 0%N
}.

Lemma sorted_head_time : forall e q x, qsorted (e :: q) -> In x (e :: q) -> (e_time e <= e_time x)%Q.
Proof.
  intros e q x S [<-|Hx]; [apply Qle_refl|].
  pose proof (sorted_head_first e q x S Hx) as N. apply Qnot_lt_le. intro L. apply N. left. exact L.
Qed.

Section Inv.
Variable cfg : config.
Variables (procs : list script) (fiber : bool) (tb : list bool).
Notation c0 := (boot cfg procs fiber tb, @nil frame).
Notation reach := (treach cfg c0).

Lemma boot_inv4a : inv4a cfg (boot cfg procs fiber tb).
Proof.
  constructor.
  - intros e He. apply (boot_queue cfg procs fiber tb) in He.
    assert (Z : s_now (boot cfg procs fiber tb) = 0%Q) by (unfold boot; destruct (c_two cfg); reflexivity).
    rewrite Z. destruct He as [->|[_ ->]]; simpl; apply tadd_ge; apply Qlt_le_weak; apply half_period_pos; apply pQ_pos.
  - intros e t He Et. unfold boot, reevaluate in He. rewrite add_log_log in He.
    destruct (c_two cfg); simpl in He; destruct He as [<-|[]]; discriminate.
  - unfold boot. destruct (c_two cfg); intros [|] a [].
  - intros e c ph He Ty. apply (boot_queue cfg procs fiber tb) in He. destruct He as [->|[_ ->]]; discriminate.
  - unfold boot. destruct (c_two cfg); discriminate.
  - intros e He Ty. apply (boot_queue cfg procs fiber tb) in He. destruct He as [->|[_ ->]]; discriminate.
Qed.

(* new log entries of a step carry the current time *)
Lemma effect_past : forall aw s s', effect aw s s' -> s_now s' = s_now s ->
  (forall e t, In e (s_log s) -> entry_time e = Some t -> (t <= s_now s)%Q) ->
  forall e t, In e (s_log s') -> entry_time e = Some t -> (t <= s_now s')%Q.
Proof.
  intros aw s s' Ef Nw Ho e t He Et. rewrite Nw.
  destruct Ef as [new L _ _ Fa | pid x L _ _ | pid p v L _ _ | pid p v L _]; rewrite L in He.
  - apply in_app_or in He. destruct He as [He|He]; [|eapply Ho; eassumption].
    destruct (proj1 (Forall_forall _ _) Fa e He) as (pid & a & -> & _). inversion Et. apply Qle_refl.
  - destruct He as [<-|He]; [inversion Et; apply Qle_refl | eapply Ho; eassumption].
  - destruct He as [<-|He]; [inversion Et; apply Qle_refl | eapply Ho; eassumption].
  - destruct He as [<-|[<-|He]]; [discriminate | inversion Et; apply Qle_refl | eapply Ho; eassumption].
Qed.

Lemma reach_inv4a : forall c, reach c -> inv4a cfg (fst c).
Proof.
  induction 1 as [|c c' R IH T]; [exact boot_inv4a|].
  pose proof (reach_sorted cfg procs fiber tb _ R) as Srt.
  pose proof (reach_inv3 cfg procs fiber tb _ R) as I3.
  pose proof IH as IH0. destruct IH as [If Ip Ia Ie Ir Im].
  inv_tstep T; cbn [fst] in *.
  - (* process step *)
    pose proof (step_frame_spec _ _ _ _ _ Hsf) as F.
    pose proof (step_frame_ctl cfg f s) as C. rewrite Hsf in C. cbn [snd] in C. destruct C as (C1 & C2 & C3 & C4).
    pose proof (frame_step_effect cfg f s s' F Hh) as Ef.
    assert (Pst : forall e t, In e (s_log s') -> entry_time e = Some t -> (t <= s_now s')%Q) by (apply (effect_past false s s' Ef C1 Ip)).
    destruct (frame_step_bk cfg f s s' F) as [Q A B W N Cq|pid q Q A B W N Cq|pid c ph Q A B W N Cq|pid m Q A B W N Cq|pid Q A B W N Cq|pid xi ph Q A B W N Cq].
    + constructor; try assumption.
      * rewrite Q, C1. exact If.
      * intros k a Ha. apply (Ia k). destruct k; simpl in *; congruence.
      * rewrite Q. exact Ie.
      * rewrite C2, C4. exact Ir.
      * rewrite Q. exact Im.
    + constructor; try assumption.
      * rewrite Q, C1. intros e He. apply q_insert_in in He. destruct He as [->|He]; [|apply If; exact He].
        simpl. apply tadd_ge. apply uQ_nonneg.
      * intros k a Ha. apply (Ia k). destruct k; simpl in *; congruence.
      * rewrite Q. intros e c ph He Ty Wy. apply q_insert_in in He. destruct He as [->|He]; [discriminate Wy | eapply Ie; eassumption].
      * rewrite C2, C4. exact Ir.
      * rewrite Q. intros e He Ty Hp. apply q_insert_in in He. destruct He as [->|He]; [exfalso; apply Hp; reflexivity | apply Im; assumption].
    + constructor; try assumption.
      * rewrite Q, C1. exact If.
      * intros k a Ha. destruct (clk_eqb k (eff_clk cfg c)) eqn:Ek.
        -- assert (k = eff_clk cfg c) by (destruct k, (eff_clk cfg c); try discriminate; reflexivity). subst k.
           rewrite A in Ha. apply in_app_or in Ha. destruct Ha as [Ha|[<-|[]]]; [apply (Ia _ _ Ha)|].
           exists c. split; reflexivity.
        -- assert (k <> eff_clk cfg c) by (intro; subst; destruct (eff_clk cfg c); discriminate).
           rewrite (B k) in Ha by assumption. apply (Ia _ _ Ha).
      * rewrite Q. exact Ie.
      * rewrite C2, C4. exact Ir.
      * rewrite Q. exact Im.
    + constructor; try assumption.
      * rewrite Q, C1. exact If.
      * intros k a Ha. apply (Ia k). destruct k; simpl in *; congruence.
      * rewrite Q. exact Ie.
      * rewrite C2, C4. exact Ir.
      * rewrite Q. exact Im.
    + constructor; try assumption.
      * rewrite Q, C1. exact If.
      * intros k a Ha. apply (Ia k). destruct k; simpl in *; congruence.
      * rewrite Q. exact Ie.
      * rewrite C2, C4. exact Ir.
      * rewrite Q. exact Im.
    + (* WaitClock on a register-less clock *)
      constructor; try assumption.
      * rewrite Q, C1. intros e He. apply q_insert_in in He. destruct He as [->|He]; [|apply If; exact He].
        simpl. apply Qlt_le_weak. apply next_tick_gt. apply extra_freq_pos.
      * intros k a Ha. apply (Ia k). destruct k; simpl in *; congruence.
      * rewrite Q. intros e c ph0 He Ty Wy. apply q_insert_in in He. destruct He as [->|He]; [discriminate Wy | eapply Ie; eassumption].
      * rewrite C2, C4. exact Ir.
      * rewrite Q. intros e He Ty Hp. apply q_insert_in in He. destruct He as [->|He]; [reflexivity | apply Im; assumption].
  - (* task *)
    pose proof (task_head_ctl t (set_ready r s)) as C. rewrite Hth in C. cbn [snd] in C. destruct C as (C1 & C2 & C3 & C4).
    pose proof (task_head_bk t (set_ready r s)) as B. rewrite Hth in B. cbn [snd] in B. destruct B as (Q & A & B & _).
    pose proof (task_head_effect t (set_ready r s) stk s' Hth Hh) as Ef.
    constructor.
    + rewrite Q, C1. exact If.
    + apply (effect_past true (set_ready r s) s' Ef C1). exact Ip.
    + intros k a Ha. apply (Ia k). destruct k; simpl in *; congruence.
    + rewrite Q. exact Ie.
    + rewrite C2, C4. exact Ir.
    + rewrite Q. exact Im.
  - (* event *)
    destruct (pop_event_queue s e s1 Hpop) as (e2 & rr & Qc & A1 & B1 & W1 & N1 & _).
    destruct (pop_event_top _ _ _ Hpop) as (((P1 & P2 & P3 & P4) & PE & PO & PR) & PL).
    destruct (pop_event_stamp s e s1 Hpop Htm) as (St1 & St2 & St3).
    assert (Qin : forall x, In x (s_queue s) <-> x = e \/ In x (s_queue s1)).
    { intro x. destruct Qc as [Q|(Q & Q1 & _)]; rewrite Q; [|rewrite Q1]; simpl; intuition auto. }
    assert (F1 : forall x, In x (s_queue s1) -> (s_now s1 <= e_time x)%Q) by (intros x Hx; rewrite P1; apply If; apply Qin; right; exact Hx).
    assert (A1' : forall k a, In a (get_await k s1) -> exists c, aw_why a = WkClk c (aw_phase a) /\ eff_clk cfg c = k).
    { intros k a Ha. apply (Ia k). destruct k; simpl in *; congruence. }
    assert (E1 : forall x c ph, In x (s_queue s1) -> e_type x = SimProcResume -> e_why x = WkClk c ph ->
                   e_phase x = ph /\ e_pin x = eff_clk cfg c /\ e_rising x = true).
    { intros x c ph Hx. apply Ie. apply Qin. right. exact Hx. }
    assert (Pst1 : forall x t, In x (s_log s1) -> entry_time x = Some t -> (t <= s_now s1)%Q) by (rewrite PL, P1; exact Ip).
    assert (Ro1 : s_readonly s1 = true -> s_phase s1 = AFTER) by (rewrite P2, P4; exact Ir).
    assert (M1 : forall x, In x (s_queue s1) -> e_type x = SimProcResume -> e_phase x <> AFTER -> e_mt x = 0%N).
    { intros x Hx. apply Im. apply Qin. right. exact Hx. }
    pose proof (halted_false_err s Hh) as He. assert (He1 : s_err s1 = false) by congruence.
    unfold event_head. destruct (e_type e) eqn:Ty.
    + (* trigger *)
      destruct (handle_trigger_circ_log cfg e s1 He1) as (_ & L).
      destruct (handle_trigger_top cfg e s1) as ((T1 & T2 & T3 & T4) & _).
      constructor.
      * rewrite T1. intros x Hx. apply handle_trigger_queue in Hx. destruct Hx as [Hx|[->|[->|(_ & Hx)]]].
        -- apply F1; exact Hx.
        -- simpl. rewrite P1. rewrite St1. apply Qle_refl.
        -- simpl. rewrite P1. rewrite <- St1. apply tadd_ge. apply Qlt_le_weak. apply clk_half_pos.
        -- apply in_map_iff in Hx. destruct Hx as (a & <- & _). simpl. rewrite P1, St1. apply Qle_refl.
      * rewrite T1, L. intros x t [<-|Hx] Et; [discriminate | eapply Pst1; eassumption].
      * intros k a Ha. unfold handle_trigger in Ha.
        set (s0 := add_log (LTrigger (e_time e) (e_pin e) (e_rising e)) s1) in *.
        assert (A0 : forall k', get_await k' s0 = get_await k' s1).
        { intro k'. destruct (add_log_bk (LTrigger (e_time e) (e_pin e) (e_rising e)) s1) as (_ & Aa & Bb & _). destruct k'; assumption. }
        assert (PA : forall x st k', get_await k' (push_event x st) = get_await k' st) by (intros x st k'; destruct k'; reflexivity).
        rewrite !PA in Ha.
        destruct (e_rising e); [|rewrite A0 in Ha; apply (A1' _ _ Ha)].
        destruct (fold_push_other (awaiter_event e) (get_await (e_pin e) s0) s0) as (La & Lb & _).
        destruct k, (e_pin e); cbn [get_await set_await s_await_a s_await_b] in Ha, La, Lb; try (destruct Ha; fail);
          rewrite ?La, ?Lb in Ha; [apply (A1' CA) | apply (A1' CB)]; rewrite <- A0; exact Ha.
      * intros x c ph Hx Tx Wx. apply handle_trigger_queue in Hx. destruct Hx as [Hx|[->|[->|(Hr & Hx)]]]; try discriminate Tx.
        -- eapply E1; eassumption.
        -- apply in_map_iff in Hx. destruct Hx as (a & <- & Ha). simpl in *.
           destruct (A1' _ _ Ha) as (c' & Hw & Hk). rewrite Hw in Wx. inversion Wx; subst. repeat split; [symmetry; exact Hk | exact Hr].
      * rewrite T2, T4. exact Ro1.
      * intros x Hx Tx Px. apply handle_trigger_queue in Hx. destruct Hx as [Hx|[->|[->|(Hr & Hx)]]]; try discriminate Tx.
        -- apply M1; assumption.
        -- apply in_map_iff in Hx. destruct Hx as (a & <- & _). simpl.
           pose proof (i3_shape _ _ I3 e (proj2 (Qin e) (or_introl eq_refl))) as Sh. unfold ev_shape in Sh. rewrite Ty in Sh. apply Sh.
    + constructor; assumption.
    + destruct (handle_value_change_bk cfg e s1) as (Q2 & A2 & B2 & _).
      destruct (handle_value_change_top cfg e s1) as ((T1 & T2 & T3 & T4) & _).
      constructor.
      * rewrite Q2, T1. exact F1.
      * rewrite T1. intros x t Hx Et. unfold handle_value_change in Hx. rewrite add_log_log in Hx.
        destruct (e_rising e); simpl in Hx; rewrite He1 in Hx;
          (destruct Hx as [<-|Hx]; [inversion Et; apply Qle_refl | eapply Pst1; eassumption]).
      * intros k a Ha. apply (A1' k). destruct k; simpl in *; congruence.
      * rewrite Q2. exact E1.
      * rewrite T2, T4. exact Ro1.
      * rewrite Q2. exact M1.
    + constructor; assumption.
  - (* micro end *)
    destruct (micro_end_fields s) as (M1 & M2 & M3 & M4 & M5 & M6).
    pose proof (halted_false_err s Hh) as He.
    destruct (micro_end_circ_log s He) as (_ & fires & L & Ff).
    constructor.
    + rewrite M1. intros x Hx. apply micro_end_queue in Hx. destruct Hx as [Hx|Hx]; [apply If; exact Hx|].
      apply in_map_iff in Hx. destruct Hx as (w & <- & _). simpl.
      destruct (reevaluate_top s) as ((U1 & _) & _). rewrite U1. apply Qle_refl.
    + rewrite M1, L. intros x t [<-|Hx] Et; [discriminate|].
      apply in_app_or in Hx. destruct Hx as [Hx|[<-|Hx]]; [|discriminate | eapply Ip; eassumption].
      destruct (proj1 (Forall_forall _ _) Ff x Hx) as (p & r & c & ->). discriminate.
    + intros k a Ha. destruct (micro_end_other s k) as (_ & E). rewrite E in Ha. apply (Ia _ _ Ha).
    + intros x c ph Hx Tx Wx. apply micro_end_queue in Hx. destruct Hx as [Hx|Hx]; [eapply Ie; eassumption|].
      apply in_map_iff in Hx. destruct Hx as (w & <- & _). discriminate.
    + rewrite M2, M3. intro Ro. congruence.
    + intros x Hx Tx Px. apply micro_end_queue in Hx. destruct Hx as [Hx|Hx]; [apply Im; assumption|].
      apply in_map_iff in Hx. destruct Hx as (w & <- & _). exfalso. apply Px. reflexivity.
  - (* phase begin *)
    destruct (phase_begin_fields ph s) as (F1 & F2 & F3 & F4 & F5 & F6 & F7 & F8).
    destruct (phase_begin_bk ph s) as (Q & A & B & _).
    constructor.
    + rewrite F7, F1. exact If.
    + rewrite F1. intros x t Hx Et. unfold phase_begin in Hx. rewrite add_log_log in Hx. simpl in Hx.
      destruct (s_err s); [|destruct Hx as [<-|Hx]; [discriminate|]]; eapply Ip; eassumption.
    + intros k a Ha. apply (Ia k). destruct k; simpl in *; congruence.
    + rewrite Q. exact Ie.
    + rewrite F3. congruence.
    + rewrite Q. exact Im.
  - constructor; try assumption. intros _. exact Hph.
  - constructor; assumption.
  - destruct (commit_end_bk s) as (Q & A & B & _).
    assert (Nw : s_now (commit_end s) = s_now s).
    { unfold commit_end. cbn [s_now set_readonly]. apply add_log_ctl. }
    constructor.
    + rewrite Q, Nw. exact If.
    + rewrite Nw. intros x t Hx Et. unfold commit_end in Hx. cbn [s_log set_readonly] in Hx. rewrite add_log_log in Hx.
      destruct (s_err s); [|destruct Hx as [<-|Hx]; [discriminate|]]; eapply Ip; eassumption.
    + intros k a Ha. apply (Ia k). destruct k; simpl in *; congruence.
    + rewrite Q. exact Ie.
    + discriminate.
    + rewrite Q. exact Im.
  - (* set time *)
    assert (Ge : (s_now s <= e_time e)%Q) by (apply If; rewrite Hq; left; reflexivity).
    constructor; try assumption.
    + intros x Hx. simpl in *. rewrite Hq in Srt. apply (sorted_head_time e q x Srt). rewrite <- Hq. exact Hx.
    + intros x t Hx Et. simpl. eapply Qle_trans; [eapply Ip; eassumption | exact Ge].
  - (* set target *)
    constructor; try assumption.
    + intros x Hx. simpl in *. destruct (s_queue s) as [|e q] eqn:Q; [destruct Hx|].
      apply clock_more_gt in Hq. eapply Qle_trans; [apply Qlt_le_weak; exact Hq | apply (sorted_head_time e q x Srt Hx)].
    + intros x tt Hx Et. simpl. apply clock_less_lt in Hcl. eapply Qle_trans; [eapply Ip; eassumption | apply Qlt_le_weak; exact Hcl].
  - constructor; assumption.
  - constructor; assumption.
  - (* fiber start *)
    unfold fiber_start in Hfs.
    assert (E' : s' = snd (fiber_continue pid (log_proc pid AStart s))) by (rewrite Hfs; reflexivity).
    pose proof (fiber_continue_cont pid (log_proc pid AStart s)) as Cs. rewrite <- E' in Cs.
    destruct (cont_states_bk _ _ _ Cs) as (Q & A & B & _). destruct (log_proc_bk pid AStart s) as (Q' & A' & B' & _).
    assert (Ct : same_ctl s s') by (eapply same_ctl_trans; [apply log_proc_ctl | apply (cont_states_ctl _ _ _ Cs)]).
    destruct Ct as (C1 & C2 & C3 & C4).
    constructor.
    + rewrite Q, Q', C1. exact If.
    + rewrite C1. intros x t Hx Et. destruct (cont_states_lg _ _ _ Cs) as (L & _). rewrite L in Hx.
      rewrite log_proc_log in Hx by (apply halted_false_err; exact Hh).
      destruct Hx as [<-|Hx]; [inversion Et; apply Qle_refl | eapply Ip; eassumption].
    + intros k a Ha. apply (Ia k). destruct k; simpl in *; congruence.
    + rewrite Q, Q'. exact Ie.
    + rewrite C2, C4. exact Ir.
    + rewrite Q, Q'. exact Im.
  - (* reevaluate *)
    destruct (reevaluate_bk s) as (Q & A & B & _). destruct (reevaluate_top s) as ((C1 & C2 & C3 & C4) & _).
    constructor.
    + rewrite Q, C1. exact If.
    + rewrite C1. intros x t Hx Et. unfold reevaluate in Hx. rewrite add_log_log in Hx. simpl in Hx.
      destruct (s_err s); [|destruct Hx as [<-|Hx]; [discriminate|]]; eapply Ip; eassumption.
    + intros k a Ha. apply (Ia k). destruct k; simpl in *; congruence.
    + rewrite Q. exact Ie.
    + rewrite C2, C4. exact Ir.
    + rewrite Q. exact Im.
Qed.

End Inv.
