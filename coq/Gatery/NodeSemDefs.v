(* Node-level semantics of the reference simulator (DESIGN.md 3.3): one evaluation
   function per hlim node kind, transcribed branch by branch from
   /repo/source/gatery/hlim/coreNodes/*.cpp  (simulateEvaluate).
   Model only - no proofs in this file (it must keep compiling when proofs break).

   Conventions
   * a signal value is a [bv] (list of 0/1/X, LSB first); an input port is an
     [option bv], [None] = unconnected (driver.node == nullptr / inputOffsets[i] == ~0).
   * a bit whose DEFINED flag is cleared has no value in the model (the C++ keeps a
     hidden VALUE-plane bit; when the model needs a VALUE word of such a bit it reads 0).
   * widths are [nat] (they are list lengths); all data arithmetic is in [N]/[Z].
   * reading a bit beyond the end of an operand yields X ([bv_get]); the C++ would read the
     neighbouring bits of the state vector there.  Well-formed netlists never do this (every
     operand has the width the node expects); the side conditions are stated in the theorems. *)
From Gatery Require Import Bits.
Import ListNotations.

(* ------------------------------------------------------------------ *)
(* Bit-vector plumbing                                                   *)

Definition bv_get (x : bv) (i : nat) : tbit := nth i x BX.
Definition bv_build (w : nat) (f : nat -> tbit) : bv := map f (seq 0 w).
(* state.copyRange(out, state, in, w) *)
Definition bv_resize (w : nat) (x : bv) : bv := bv_build w (bv_get x).
(* w bits starting at bit [off] *)
Definition bv_slice (x : bv) (off w : nat) : bv := bv_build w (fun i => bv_get x (off + i)).

Definition inp (xs : list (option bv)) (i : nat) : option bv := nth i xs None.
Definition opt_bits (o : option bv) : bv := match o with Some x => x | None => [] end.

Definition u64 : N := (2 ^ 64)%N.

(* VALUE / DEFINED plane words of a range (extract(VALUE,..), extract(DEFINED,..)) *)
Fixpoint plane_v (x : bv) : N :=
  match x with [] => 0%N | b :: r => (N.b2n (bit_val b) + 2 * plane_v r)%N end.
Fixpoint plane_d (x : bv) : N :=
  match x with [] => 0%N | b :: r => (N.b2n (is_def b) + 2 * plane_d r)%N end.
(* insert(VALUE, .., w, v); insert(DEFINED, .., w, d) *)
Fixpoint bv_of_planes (w : nat) (v d : N) : bv :=
  match w with
  | O => []
  | S w' => of_planes (N.odd v) (N.odd d) :: bv_of_planes w' (N.div2 v) (N.div2 d)
  end.

(* ------------------------------------------------------------------ *)
(* Node kinds                                                            *)

Inductive logic_op := L_AND | L_NAND | L_OR | L_NOR | L_XOR | L_EQ | L_NOT.
Inductive arith_op := A_ADD | A_SUB | A_MUL | A_DIV | A_REM.
Inductive cmp_op := C_EQ | C_NEQ | C_LT | C_GT | C_LEQ | C_GEQ.
Inductive shift_dir := SH_LEFT | SH_RIGHT.
Inductive shift_fill := F_ZERO | F_ONE | F_LAST | F_ROTATE.
(* Node_Rewire::OutputRange *)
Inductive rw_source :=
| RW_INPUT (inputIdx inputOffset : nat)
| RW_ZERO | RW_ONE | RW_UNDEF.
Record rw_range := mk_range { rw_width : nat; rw_src : rw_source }.
(* nodes whose simulateEvaluate copies input 0 to output 0 (or that the simulator skips
   through getNonForwardingDriver: Signal, Attributes) *)
Inductive fwd_kind := FW_SIGNAL | FW_ATTRIBUTES | FW_CDC | FW_REGHINT | FW_RETIMING_BLOCKER | FW_EXPORT_OVERRIDE.

Inductive node_kind :=
| KLogic (op : logic_op) (w : nat)             (* inputs: a, b (NOT: a) ; w = output width *)
| KArith (op : arith_op) (w : nat)             (* inputs: operand list (any number) ; w = max operand width *)
| KCompare (op : cmp_op)                       (* inputs: a, b ; output width 1 *)
| KShift (d : shift_dir) (f : shift_fill) (w : nat)   (* inputs: operand, amount *)
| KRewire (ranges : list rw_range)             (* output width = sum of range widths *)
| KMux (n : nat) (w : nat)                     (* inputs: selector, n data inputs *)
| KPrio (n : nat) (w : nat)                    (* inputs: default, (condition, value) x n *)
| KConst (v : bv)
| KForward (f : fwd_kind) (w : nat).

(* ------------------------------------------------------------------ *)
(* Node_Logic::simulateEvaluate                                          *)

(* (result, resultDefined) from (left, leftDefined, right, rightDefined), one bit of the 64-bit chunk *)
Definition logic_planes (op : logic_op) (l ld r rd : bool) : bool * bool :=
  match op with
  | L_AND  => (l && r,            (ld && negb l) || (rd && negb r) || (ld && rd))
  | L_NAND => (negb (l && r),     (ld && negb l) || (rd && negb r) || (ld && rd))
  | L_OR   => (l || r,            (ld && l) || (rd && r) || (ld && rd))
  | L_NOR  => (negb (l || r),     (ld && l) || (rd && r) || (ld && rd))
  | L_XOR  => (xorb l r,          ld && rd)
  | L_EQ   => (negb (xorb l r),   ld && rd)
  | L_NOT  => (negb l,            ld)
  end.

Definition logic_bit (op : logic_op) (a b : tbit) : tbit :=
  let '(v, d) := logic_planes op (bit_val a) (is_def a) (bit_val b) (is_def b) in of_planes v d.

Definition eval_logic (op : logic_op) (w : nat) (xs : list (option bv)) : list bv :=
  (* leftAllUndefined / rightAllUndefined: an unconnected side reads as (0, undefined) *)
  let a := opt_bits (inp xs 0) in
  let b := match op with L_NOT => [] | _ => opt_bits (inp xs 1) end in
  [bv_build w (fun i => logic_bit op (bv_get a i) (bv_get b i))].

(* ------------------------------------------------------------------ *)
(* Node_Arithmetic::simulateEvaluate                                     *)

(* first loop: any unconnected or not fully defined operand makes the whole result undefined *)
Fixpoint arith_operands (xs : list (option bv)) : option (list N) :=
  match xs with
  | [] => Some []
  | None :: _ => None
  | Some x :: r =>
      match bv_val x with
      | None => None
      | Some v => match arith_operands r with Some vs => Some (v :: vs) | None => None end
      end
  end.

(* one iteration i >= 1 of the uint64 loop; the bool is "no division by zero so far" *)
Definition arith_step64 (op : arith_op) (acc : N * bool) (value : N) : N * bool :=
  let '(result, ok) := acc in
  let value := (value mod u64)%N in
  match op with
  | A_ADD => (((result + value) mod u64)%N, ok)
  | A_SUB => (((result + u64 - value) mod u64)%N, ok)          (* result -= value, wraps *)
  | A_MUL => (((result * value) mod u64)%N, ok)
  | A_DIV => if (value =? 0)%N then (result, false) else ((result / value)%N, ok)
  | A_REM => if (value =? 0)%N then (result, false) else ((result mod value)%N, ok)
  end.

Definition arith64 (op : arith_op) (vs : list N) : N * bool :=
  match vs with
  | [] => (0%N, true)
  | v0 :: rest => fold_left (arith_step64 op) rest ((v0 mod u64)%N, true)
  end.

(* the same loop over boost cpp_int (signed, unbounded; division truncates) *)
Definition arith_stepZ (op : arith_op) (acc : Z * bool) (value : N) : Z * bool :=
  let '(result, ok) := acc in
  let value := Z.of_N value in
  match op with
  | A_ADD => ((result + value)%Z, ok)
  | A_SUB => ((result - value)%Z, ok)
  | A_MUL => ((result * value)%Z, ok)
  | A_DIV => if (value =? 0)%Z then (result, false) else (Z.quot result value, ok)
  | A_REM => if (value =? 0)%Z then (result, false) else (Z.rem result value, ok)
  end.

Definition arithZ (op : arith_op) (vs : list N) : Z * bool :=
  match vs with
  | [] => (0%Z, true)
  | v0 :: rest => fold_left (arith_stepZ op) rest (Z.of_N v0, true)
  end.

(* number of 64-bit words export_bits produces for a magnitude *)
Definition nwords (m : N) : N := ((N.size m + 63) / 64)%N.

(* sim::insertBigInt: a negative value is re-imported as two's complement over
   max(words of |v|, ceil(size/64)) words: bitwiseNegation(v, size) + 1 *)
Definition bigint_twos (w : nat) (z : Z) : N :=
  if (z <? 0)%Z then
    let m := Z.to_N (- z) in
    let k := N.max (nwords m) ((N.of_nat w + 63) / 64)%N in
    (N.ones (64 * k) - m + 1)%N
  else Z.to_N z.

Definition eval_arith (op : arith_op) (w : nat) (xs : list (option bv)) : list bv :=
  match arith_operands xs with
  | None => [all_X w]
  | Some vs =>
      if w <=? 64 then
        let '(r, ok) := arith64 op vs in
        [if ok then bv_of_N w r else all_X w]               (* insertNonStraddling(VALUE, .., w, result) *)
      else
        let '(z, ok) := arithZ op vs in
        [if ok then bv_of_N w (bigint_twos w z) else all_X w]
  end.

(* ------------------------------------------------------------------ *)
(* Node_Compare::simulateEvaluate                                        *)

Definition cmp_N (op : cmp_op) (a b : N) : bool :=
  match op with
  | C_EQ => (a =? b)%N | C_NEQ => negb (a =? b)%N
  | C_LT => (a <? b)%N | C_GT => (b <? a)%N
  | C_LEQ => (a <=? b)%N | C_GEQ => (b <=? a)%N
  end.
Definition cmp_Z (op : cmp_op) (a b : Z) : bool :=
  match op with
  | C_EQ => (a =? b)%Z | C_NEQ => negb (a =? b)%Z
  | C_LT => (a <? b)%Z | C_GT => (b <? a)%Z
  | C_LEQ => (a <=? b)%Z | C_GEQ => (b <=? a)%Z
  end.
(* "Special handling for zero-width inputs" *)
Definition cmp_empty (op : cmp_op) : bool :=
  match op with C_EQ | C_LEQ | C_GEQ => true | C_NEQ | C_LT | C_GT => false end.

Definition eval_compare (op : cmp_op) (xs : list (option bv)) : list bv :=
  match inp xs 0, inp xs 1 with
  | Some a, Some b =>
      if (length a =? 0) && (length b =? 0) then [[of_bool (cmp_empty op)]]
      else
        match bv_val a, bv_val b with
        | Some va, Some vb =>
            if (length a <=? 64) && (length b <=? 64)
            then [[of_bool (cmp_N op va vb)]]                               (* uint64 path *)
            else [[of_bool (cmp_Z op (Z.of_N va) (Z.of_N vb))]]             (* BigInt path *)
        | _, _ => [[BX]]
        end
  | _, _ => [[BX]]
  end.

(* ------------------------------------------------------------------ *)
(* Node_Shift::simulateEvaluate                                          *)

Definition is_rotate (f : shift_fill) : bool := match f with F_ROTATE => true | _ => false end.

Definition shift_fillbit (d : shift_dir) (f : shift_fill) (w : nat) (x : bv) : tbit :=
  match f with
  | F_ONE => B1
  | F_LAST => if w =? 0 then B0
              else match d with SH_LEFT => bv_get x 0 | SH_RIGHT => bv_get x (w - 1) end
  | _ => B0
  end.

(* the part after the amount has been found defined *)
Definition shift_core (d : shift_dir) (f : shift_fill) (w : nat) (x : bv) (amountVal : N) : bv :=
  let fillbit := shift_fillbit d f w x in
  if (N.of_nat w <=? amountVal)%N && negb (is_rotate f) then repeat fillbit w
  else if w =? 0 then []                                    (* rotate of a zero-width vector (fix fc7bdd7) *)
  else
    let a := N.to_nat (amountVal mod N.of_nat w)%N in
    match d with
    | SH_LEFT =>
        bv_build w (fun i => if i <? a then (if is_rotate f then bv_get x (w - a + i) else fillbit)
                             else bv_get x (i - a))
    | SH_RIGHT =>
        bv_build w (fun i => if i <? w - a then bv_get x (i + a)
                             else (if is_rotate f then bv_get x (i - (w - a)) else fillbit))
    end.

Definition eval_shift (d : shift_dir) (f : shift_fill) (w : nat) (xs : list (option bv)) : list bv :=
  match inp xs 1 with
  | None => [all_X w]
  | Some amt =>
      let aw := length amt in
      if 64 <? aw then [all_X w]                              (* HCL_DESIGNCHECK_HINT(amountWidth <= 64) *)
      else
        (* !utils::isMaskSet(amountDef, 0, amountWidth)  (since fix caaf32d also correct for 64 bits) *)
        match bv_val amt with
        | None => [all_X w]
        | Some amountVal => [shift_core d f w (opt_bits (inp xs 0)) amountVal]
            (* the operand's connection is not checked by the C++; precondition: connected *)
        end
  end.

(* ------------------------------------------------------------------ *)
(* Node_Rewire::simulateEvaluate                                         *)

Definition rewire_width (ranges : list rw_range) : nat :=
  fold_right (fun r acc => rw_width r + acc) 0 ranges.

(* totalWidth <= 64: accumulate (resValue, resDefined) words *)
Definition rewire_step64 (xs : list (option bv)) (acc : N * N * nat) (r : rw_range) : N * N * nat :=
  let '(resV, resD, off) := acc in
  let sw := rw_width r in
  let o := N.of_nat off in
  let dstMask := (N.shiftl (N.ones (N.of_nat sw)) o mod u64)%N in          (* bitMaskRange(off, sw) *)
  match rw_src r with
  | RW_INPUT idx ioff =>
      match inp xs idx with
      | Some x =>
          let s := bv_slice x ioff sw in
          (N.lor resV (N.shiftl (plane_v s) o mod u64), N.lor resD (N.shiftl (plane_d s) o mod u64), off + sw)
      | None => (resV, resD, off + sw)
      end
  | RW_ONE => (N.lor resV dstMask, N.lor resD dstMask, off + sw)
  | RW_ZERO => (resV, N.lor resD dstMask, off + sw)
  | RW_UNDEF => (resV, resD, off + sw)
  end.

(* totalWidth > 64: range by range setRange / clearRange / copyRange *)
Definition rewire_piece (xs : list (option bv)) (r : rw_range) : bv :=
  let sw := rw_width r in
  match rw_src r with
  | RW_INPUT idx ioff =>
      match inp xs idx with Some x => bv_slice x ioff sw | None => all_X sw end
  | RW_ONE => repeat B1 sw
  | RW_ZERO => repeat B0 sw
  | RW_UNDEF => all_X sw
  end.

Definition eval_rewire (ranges : list rw_range) (xs : list (option bv)) : list bv :=
  let total := rewire_width ranges in
  if total <=? 64 then
    let '(resV, resD, _) := fold_left (rewire_step64 xs) ranges (0%N, 0%N, 0) in
    [bv_of_planes total resV resD]
  else
    [concat (map (rewire_piece xs) ranges)].

(* ------------------------------------------------------------------ *)
(* Node_Multiplexer::simulateEvaluate                                    *)

(* selector not fully defined: bit b of the result is input 1's bit if every data input has
   that bit defined with the same value, undefined otherwise *)
Definition mux_merge_bit (ts : list tbit) : tbit :=
  match ts with
  | [] => BX
  | t :: rest =>
      if is_def t && forallb (fun u => is_def u && Bool.eqb (bit_val t) (bit_val u)) rest then t else BX
  end.

Definition eval_mux (n w : nat) (xs : list (option bv)) : list bv :=
  match inp xs 0 with
  | None => [all_X w]
  | Some sel =>
      (* HCL_ASSERT selectorType.width <= 64 *)
      match bv_val sel with
      | None =>
          [bv_build w (fun b => mux_merge_bit (map (fun i => bv_get (opt_bits (inp xs (1 + i))) b) (seq 0 n)))]
      | Some s =>
          if (N.of_nat n <=? s)%N then [all_X w]                     (* selector >= getNumInputPorts()-1 *)
          else match inp xs (1 + N.to_nat s) with
               | Some x => [bv_resize w x]
               | None => [all_X w]
               end
      end
  end.

(* ------------------------------------------------------------------ *)
(* Node_PriorityConditional::simulateEvaluate                            *)

Definition copy_or_X (w : nat) (o : option bv) : bv :=
  match o with Some x => bv_resize w x | None => all_X w end.   (* C++ does not check; precondition: connected *)

(* cs = c0, v0, c1, v1, ... *)
Fixpoint prio_loop (w : nat) (dflt : option bv) (cs : list (option bv)) : bv :=
  match cs with
  | c :: v :: rest =>
      match c with
      | None => all_X w
      | Some cb =>
          match bv_get cb 0 with
          | BX => all_X w
          | B1 => copy_or_X w v
          | B0 => prio_loop w dflt rest
          end
      end
  | _ => copy_or_X w dflt
  end.

Definition eval_prio (n w : nat) (xs : list (option bv)) : list bv :=
  [prio_loop w (inp xs 0) (firstn (2 * n) (tl xs))].

(* ------------------------------------------------------------------ *)

Definition eval_forward (w : nat) (xs : list (option bv)) : list bv :=
  match inp xs 0 with Some x => [bv_resize w x] | None => [all_X w] end.

Definition eval (k : node_kind) (xs : list (option bv)) : list bv :=
  match k with
  | KLogic op w => eval_logic op w xs
  | KArith op w => eval_arith op w xs
  | KCompare op => eval_compare op xs
  | KShift d f w => eval_shift d f w xs
  | KRewire ranges => eval_rewire ranges xs
  | KMux n w => eval_mux n w xs
  | KPrio n w => eval_prio n w xs
  | KConst v => [v]
  | KForward _ w => eval_forward w xs
  end.

(* widths of the output ports, a function of the kind alone *)
Definition out_widths (k : node_kind) : list nat :=
  match k with
  | KLogic _ w | KArith _ w | KShift _ _ w | KMux _ w | KPrio _ w | KForward _ w => [w]
  | KCompare _ => [1]
  | KRewire ranges => [rewire_width ranges]
  | KConst v => [length v]
  end.

(* ------------------------------------------------------------------ *)
(* Relations on input lists and the side condition of monotonicity       *)

Inductive opt_rel (R : tbit -> tbit -> Prop) : option bv -> option bv -> Prop :=
| opt_rel_none : opt_rel R None None
| opt_rel_some x y : Forall2 R x y -> opt_rel R (Some x) (Some y).

Definition ins_compat := Forall2 (opt_rel compat).
Definition ins_le := Forall2 (opt_rel le_def).

(* The simulator is not monotone for a multiplexer whose fully defined selector can be out of
   range: the selector has sw bits but there are fewer than 2^sw data inputs.  The condition
   depends only on the kind and on the WIDTH of the selector input, i.e. it is a static
   property of a netlist.  Every other kind is monotone unconditionally. *)
Definition total_mux (k : node_kind) (xs : list (option bv)) : Prop :=
  match k with
  | KMux n _ => match inp xs 0 with Some sel => 2 ^ length sel <= n | None => True end
  | _ => True
  end.
