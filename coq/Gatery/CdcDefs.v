(* C12 -- clock-domain-crossing detection: model and specification (no proofs here).

   Transcribed from
     hlim/postprocessing/CDCDetection.cpp   inferClockDomains, detectUnguardedCDCCrossings
     hlim/Node.cpp                          BaseNode::getOutputClockRelation / checkValidInputClocks
     hlim/supportNodes/Node_CDC.cpp         Node_CDC::getOutputClockRelation / checkValidInputClocks
     hlim/supportNodes/Node_MemPort.cpp     Node_MemPort::getOutputClockRelation
     hlim/coreNodes/Node_Signal2Clk.h, Node_Signal2Rst.h   checkValidInputClocks = true
     hlim/Clock.cpp                         inheritsClockPinSource / getClockPinSource
     frontend/ExternalModule.cpp            Node_External_Exposed::getOutputClockRelation / checkValidInputClocks

   Node and output indices are [N] (they are map keys); input indices, output counts and
   fuel are [nat] (small structural numbers). *)
From Coq Require Import List NArith PArith Bool Arith FMapPositive.
Import ListNotations.

Definition clockid := nat.                 (* index into [clks] *)
Definition port := (N * N)%type.           (* node index (position in Circuit::getNodes()), output port *)

Definition port_eqb (a b : port) : bool := N.eqb (fst a) (fst b) && N.eqb (snd a) (snd b).

(* SignalClockDomain (Node.h): UNKNOWN / CONSTANT / CLOCK clk *)
Inductive scd := SUnknown | SConst | SClock (c : clockid).

Definition scd_eqb (a b : scd) : bool :=
  match a, b with
  | SUnknown, SUnknown => true
  | SConst, SConst => true
  | SClock x, SClock y => Nat.eqb x y
  | _, _ => false
  end.

Definition oscd_eqb (a b : option scd) : bool :=
  match a, b with
  | None, None => true
  | Some x, Some y => scd_eqb x y
  | _, _ => false
  end.

(* Only the node classes that override one of the two virtual functions need a tag of their own;
   registers and pins use the base rule but are named because the property speaks about them. *)
Inductive kind := KOther | KReg | KPin | KCdc | KMemPort | KSig2Clk | KSig2Rst
                  | KExt.   (* frontend ExternalModule::Node_External_Exposed *)

Record clock := mkClock {
  cparent : option clockid;   (* m_parentClock *)
  cselfsim : bool;            (* isSelfDriven(true,  true): no logic drives the clock net in the simulation view *)
  cselfexp : bool;            (* isSelfDriven(false, true): ... in the export view (Node_ExportOverride picks the view) *)
  cname   : N;                (* getName(), interned *)
  cfnum   : N;                (* absoluteFrequency(), normalised numerator / denominator *)
  cfden   : N;
  cphase  : bool              (* m_phaseSynchronousWithParent *)
}.

Record node := mkNode {
  nkind   : kind;
  nid     : N;                        (* BaseNode::getId(), orders the retry set *)
  nins    : list (option port);       (* getDriver(i); None = unconnected *)
  nouts   : nat;                      (* getNumOutputPorts() *)
  nclocks : list (option clockid);    (* m_clocks; None = nullptr *)
  ninclk  : list (option clockid);    (* KExt only: m_inClock, the clock declared for every input port *)
  noutclk : list (option clockid)     (* KExt only: the clock of m_outClockRelations[o] = {.dependentClocks = {clk}} *)
}.

Record netlist := mkNetlist { nodes : list node; clks : list clock }.

Definition get_node (n : netlist) (v : N) : option node := nth_error (nodes n) (N.to_nat v).

Fixpoint outs_from (v : N) (l : list node) : list port :=
  match l with
  | [] => []
  | nd :: r => map (fun o => (v, N.of_nat o)) (seq 0 (nouts nd)) ++ outs_from (N.succ v) r
  end.

(* every output port of every node, in Circuit::getNodes() order (the outer loop of inferClockDomains) *)
Definition all_outputs (n : netlist) : list port := outs_from 0%N (nodes n).

(* ------------------------------------------------------------------ *)
(* Clock pin sources (Clock.cpp:105-135)                                *)

Definition inherits (cs : list clock) (ck : clock) : bool :=
  match cparent ck with
  | None => false                                         (* m_parentClock == nullptr *)
  | Some p =>
    match nth_error cs p with
    | None => false
    | Some pk =>
      if negb (cselfsim ck) || negb (cselfexp ck) then false   (* !isSelfDriven(true,true) || !isSelfDriven(false,true) *)
      else if negb (N.eqb (cname pk) (cname ck))
              || negb (N.eqb (cfnum pk) (cfnum ck) && N.eqb (cfden pk) (cfden ck))
              || negb (cphase ck) then false
      else true
    end
  end.

Fixpoint pin_source_f (fuel : nat) (cs : list clock) (c : clockid) : clockid :=
  match fuel with
  | O => c
  | S f =>
    match nth_error cs c with
    | None => c
    | Some ck =>
      if inherits cs ck then
        match cparent ck with Some p => pin_source_f f cs p | None => c end
      else c
    end
  end.

Definition pin_source (n : netlist) (c : clockid) : clockid := pin_source_f (length (clks n)) (clks n) c.

(* Circuit::getClocks() is in creation order: a parent is created before the clocks derived from it *)
Definition clocks_ok (cs : list clock) : bool :=
  forallb (fun ic => match cparent (snd ic) with None => true | Some p => p <? fst ic end)
          (combine (seq 0 (length cs)) cs).

(* ------------------------------------------------------------------ *)
(* getOutputClockRelation                                               *)

Definition ocr := (list nat * list (option clockid))%type.   (* dependentInputs, dependentClocks *)

(* BaseNode: every input; m_clocks[0] if the node has clock ports *)
Definition base_relation (nd : node) : ocr :=
  (seq 0 (length (nins nd)), match nclocks nd with [] => [] | c :: _ => [c] end).

Definition relation (nd : node) (o : N) : ocr :=
  match nkind nd with
  | KCdc => ([], [nth 1 (nclocks nd) None])                         (* Clocks::OUTPUT_CLOCK = 1 *)
  | KExt => ([], [nth (N.to_nat o) (noutclk nd) None])              (* m_outClockRelations[output] *)
  | KMemPort =>
      if N.eqb o 2 then ([], [])                                      (* Outputs::memoryWriteDependency *)
      else (filter (fun i => negb (Nat.eqb i 6)) (seq 0 (length (nins nd))), [])   (* all but Inputs::memoryReadDependency *)
  | _ => base_relation nd
  end.

Definition scd_of_clk (c : option clockid) : scd :=
  match c with None => SUnknown | Some k => SClock k end.

(* ------------------------------------------------------------------ *)
(* checkValidInputClocks                                                *)

(* the loop of BaseNode::checkValidInputClocks; None = "return false" *)
Fixpoint base_loop (ps : clockid -> clockid) (ins : list scd) (clock : option clockid) (nunk : nat)
  : option (option clockid * nat) :=
  match ins with
  | [] => Some (clock, nunk)
  | SConst :: r => base_loop ps r clock nunk
  | SUnknown :: r => base_loop ps r clock (S nunk)
  | SClock c :: r =>
      match clock with
      | None => base_loop ps r (Some (ps c)) nunk
      | Some k => if Nat.eqb k (ps c) then base_loop ps r clock nunk else None
      end
  end.

Definition own_clock (nd : node) : option clockid :=
  match nclocks nd with Some c :: _ => Some c | _ => None end.

Definition base_check (ps : clockid -> clockid) (nd : node) (ins : list scd) : bool :=
  let clock0 := match own_clock nd with Some c => Some (ps c) | None => None end in
  match base_loop ps ins clock0 0 with
  | None => false
  | Some (clock, k) =>
      negb ((1 <? k) || ((0 <? k) && match clock with Some _ => true | None => false end))
  end.

Definition cdc_check (ps : clockid -> clockid) (nd : node) (ins : list scd) : bool :=
  match ins with
  | SConst :: _ => true
  | SUnknown :: _ => false
  | SClock c :: _ =>
      match nth_error (nclocks nd) 0 with                          (* Clocks::INPUT_CLOCK = 0 *)
      | Some (Some ic) => Nat.eqb (ps c) (ps ic)
      | _ => false                                                  (* HCL_ASSERT: clock ports must be bound *)
      end
  | [] => false
  end.

(* ExternalModule::Node_External_Exposed::checkValidInputClocks: every port is compared with the
   clock declared for it; the verdicts are accumulated (ret &= ...), UNKNOWN is refused *)
Definition ext_port (ps : clockid -> clockid) (ret : bool) (x : scd) (c : option clockid) : bool :=
  match x with
  | SUnknown => false                                               (* ret = false *)
  | SClock k => ret && match c with Some d => Nat.eqb (ps k) (ps d) | None => false end   (* ret &= ... *)
  | SConst => ret                                                   (* default: break *)
  end.

Fixpoint ext_loop (ps : clockid -> clockid) (ins : list scd) (inclk : list (option clockid)) (ret : bool) : bool :=
  match ins, inclk with
  | x :: r, c :: rc => ext_loop ps r rc (ext_port ps ret x c)
  | _, _ => ret
  end.

Definition ext_check (ps : clockid -> clockid) (nd : node) (ins : list scd) : bool :=
  if Nat.eqb (length ins) (length (ninclk nd))                      (* HCL_ASSERT(inputClocks.size() == m_inClock.size()) *)
  then ext_loop ps ins (ninclk nd) true
  else false.

Definition uses_base_check (k : kind) : bool :=
  match k with KCdc | KSig2Clk | KSig2Rst | KExt => false | _ => true end.

Definition check_valid (ps : clockid -> clockid) (nd : node) (ins : list scd) : bool :=
  match nkind nd with
  | KCdc => cdc_check ps nd ins
  | KSig2Clk | KSig2Rst => true
  | KExt => ext_check ps nd ins
  | _ => base_check ps nd ins
  end.

(* detectUnguardedCDCCrossings: unconnected or undetermined drivers count as CONSTANT *)
Definition input_clocks (dom : port -> option scd) (nd : node) : list scd :=
  map (fun d => match d with
                | None => SConst
                | Some q => match dom q with Some x => x | None => SConst end
                end) (nins nd).

Definition node_ok (n : netlist) (dom : port -> option scd) (nd : node) : bool :=
  check_valid (pin_source n) nd (input_clocks dom nd).

Fixpoint flagged_from (n : netlist) (dom : port -> option scd) (v : N) (l : list node) : list N :=
  match l with
  | [] => []
  | nd :: r => (if node_ok n dom nd then [] else [v]) ++ flagged_from n dom (N.succ v) r
  end.

(* the nodes for which the detection callback fires *)
Definition flagged (n : netlist) (dom : port -> option scd) : list N := flagged_from n dom 0%N (nodes n).

(* ------------------------------------------------------------------ *)
(* The fixpoint characterisation of the inferred map                    *)

Definition dep_drivers (nd : node) (deps : list nat) : list port :=
  flat_map (fun i => match nth_error (nins nd) i with Some (Some q) => [q] | _ => [] end) deps.

Definition is_nonconst (x : option scd) : bool :=
  match x with Some SUnknown | Some (SClock _) => true | _ => false end.

Definition out_ok (n : netlist) (dom : port -> option scd) (p : port) : bool :=
  match get_node n (fst p) with
  | None => false
  | Some nd =>
    match relation nd (snd p) with
    | ([], []) => oscd_eqb (dom p) (Some SConst)
    | (_, c :: _) => oscd_eqb (dom p) (Some (scd_of_clk c))
    | (deps, []) =>
      let D := dep_drivers nd deps in
      match dom p with
      | None =>      (* still waiting: no driver decided it, at least one driver undetermined *)
          forallb (fun q => negb (is_nonconst (dom q))) D
          && existsb (fun q => match dom q with None => true | Some _ => false end) D
      | Some SConst => forallb (fun q => oscd_eqb (dom q) (Some SConst)) D
      | Some x => existsb (fun q => oscd_eqb (dom q) (Some x)) D
      end
    end
  end.

Definition domains_ok (n : netlist) (dom : port -> option scd) : bool :=
  forallb (out_ok n dom) (all_outputs n).

(* Signal2Clk / Signal2Rst accept anything; they own a clock port (and in fact have no outputs), so
   their relation always names a clock and nothing propagates past them *)
Definition valid_port (n : netlist) (q : port) : bool :=
  match get_node n (fst q) with
  | Some nd => N.to_nat (snd q) <? nouts nd
  | None => false
  end.

Definition wf_node (n : netlist) (nd : node) : bool :=
  match nkind nd with
  | KSig2Clk | KSig2Rst => match nclocks nd with [] => false | _ :: _ => true end
  | KCdc => match nins nd with [] => false | _ :: _ => true end      (* Node_CDC() : Node(1, 1) *)
  | KExt => Nat.eqb (length (ninclk nd)) (length (nins nd))          (* in() pushes one clock per input port *)
  | _ => true
  end
  && forallb (fun d => match d with None => true | Some q => valid_port n q end) (nins nd).   (* no dangling drivers *)

Definition wf (n : netlist) : bool := forallb (wf_node n) (nodes n).

(* A register, pin or memory port with a connected input but WITHOUT a clock is never compared with
   any clock by the base rule (CdcSound.clockless_sink_unchecked).  Every such node built by the
   frontend, and every pin generated by MemoryGroup::replaceWithIOPins for an external memory, must
   therefore carry the clock of the port it belongs to. *)
Definition is_sink_kind (k : kind) : bool :=
  match k with KPin | KReg | KMemPort => true | _ => false end.

Definition has_input (nd : node) : bool :=
  existsb (fun d => match d with Some _ => true | None => false end) (nins nd).

Definition sink_clocked (nd : node) : bool :=
  negb (is_sink_kind (nkind nd) && has_input nd)
  || match own_clock nd with Some _ => true | None => false end.

Definition sinks_clocked (n : netlist) : bool := forallb sink_clocked (nodes n).

(* ------------------------------------------------------------------ *)
(* Finite maps keyed by ports                                           *)

Definition pmap (A : Type) := PositiveMap.t (PositiveMap.t A).

Definition pm_empty {A} : pmap A := PositiveMap.empty _.

Definition pm_get {A} (m : pmap A) (p : port) : option A :=
  match PositiveMap.find (N.succ_pos (fst p)) m with
  | Some mm => PositiveMap.find (N.succ_pos (snd p)) mm
  | None => None
  end.

Definition pm_set {A} (m : pmap A) (p : port) (x : A) : pmap A :=
  let mm := match PositiveMap.find (N.succ_pos (fst p)) m with Some mm => mm | None => PositiveMap.empty _ end in
  PositiveMap.add (N.succ_pos (fst p)) (PositiveMap.add (N.succ_pos (snd p)) x mm) m.

Definition pm_list {A} (m : pmap (list A)) (p : port) : list A :=
  match pm_get m p with Some l => l | None => [] end.

(* ------------------------------------------------------------------ *)
(* inferClockDomains, transcribed                                       *)

Record wstate := mkW {
  wdom   : pmap scd;            (* domains *)
  wund   : pmap (list port);    (* undetermined: driver -> dependants, in push_back order *)
  wretry : list port            (* nodePortsToRetry (a set: no duplicates) *)
}.

Definition set_insert (p : port) (l : list port) : list port :=
  if existsb (port_eqb p) l then l else l ++ [p].

(* assignToCD *)
Definition assign (np : port) (x : scd) (st : wstate) : wstate :=
  match pm_get (wdom st) np with
  | Some _ => st                                                   (* if (domains.contains(np)) return; *)
  | None =>
      mkW (pm_set (wdom st) np x) (wund st)
          (fold_left (fun r d => set_insert d r) (pm_list (wund st) np) (wretry st))
  end.

(* `insertIntoUndetermined` is initialised to true and never cleared in the C++ *)
Definition insert_into_undetermined := true.

(* for (auto i : ocr.dependentInputs) ... *)
Fixpoint scan (nd : node) (np : port) (ins : list nat) (st : wstate) (allc : bool) : wstate * bool :=
  match ins with
  | [] => (st, allc)
  | i :: rest =>
    match nth_error (nins nd) i with
    | Some (Some q) =>
      match pm_get (wdom st) q with
      | Some SConst => scan nd np rest st allc
      | Some x => scan nd np rest (assign np x st) false
      | None =>
          let st' := if insert_into_undetermined
                     then mkW (wdom st) (pm_set (wund st) q (pm_list (wund st) q ++ [np])) (wretry st)
                     else st in
          scan nd np rest st' false
      end
    | _ => scan nd np rest st allc                                  (* driver.node == nullptr: continue *)
    end
  end.

(* body of the while loop in attemptResolve for one popped node port *)
Definition process (n : netlist) (np : port) (st : wstate) : wstate :=
  match get_node n (fst np) with
  | None => st
  | Some nd =>
    match relation nd (snd np) with
    | ([], []) => assign np SConst st                               (* ocr.isConst() *)
    | (_, c :: _) => assign np (scd_of_clk c) st                    (* dependentClocks[0] *)
    | (deps, []) =>
        let (st', allc) := scan nd np deps st true in
        if allc then assign np SConst st' else st'
    end
  end.

(* which element of the retry set is popped next (index; out of range = first) *)
Definition chooser := list port -> nat.

Fixpoint remove_nth {A} (k : nat) (l : list A) : list A :=
  match l with
  | [] => []
  | x :: r => match k with O => r | S k' => x :: remove_nth k' r end
  end.

Fixpoint drain (n : netlist) (ch : chooser) (fuel : nat) (st : wstate) : wstate :=
  match fuel with
  | O => st
  | S f =>
    match wretry st with
    | [] => st
    | r0 :: _ =>
      let k := if ch (wretry st) <? length (wretry st) then ch (wretry st) else 0 in
      let np := nth k (wretry st) r0 in
      drain n ch f (process n np (mkW (wdom st) (wund st) (remove_nth k (wretry st))))
    end
  end.

(* attemptResolve for every port of [order] *)
Fixpoint outer (n : netlist) (ch : chooser) (fuel : nat) (order : list port) (st : wstate) : wstate :=
  match order with
  | [] => st
  | np :: rest => outer n ch fuel rest (drain n ch fuel (mkW (wdom st) (wund st) [np]))
  end.

Definition fuel_bound (n : netlist) : nat :=
  let k := length (all_outputs n) in k * (k + 1) + 2.

Definition infer_state (n : netlist) (ch : chooser) (order : list port) : wstate :=
  outer n ch (fuel_bound n) order (mkW pm_empty pm_empty []).

Definition infer (n : netlist) (ch : chooser) (order : list port) : port -> option scd :=
  pm_get (wdom (infer_state n ch order)).

(* std::set<NodePort, StableCompare>: begin() is the smallest (node id, port) *)
Definition port_key (n : netlist) (p : port) : N * N :=
  (match get_node n (fst p) with Some nd => nid nd | None => 0%N end, snd p).

Definition key_ltb (a b : N * N) : bool :=
  N.ltb (fst a) (fst b) || (N.eqb (fst a) (fst b) && N.ltb (snd a) (snd b)).

Fixpoint argmin_from (n : netlist) (best : nat) (bk : N * N) (i : nat) (l : list port) : nat :=
  match l with
  | [] => best
  | p :: r => if key_ltb (port_key n p) bk then argmin_from n i (port_key n p) (S i) r
              else argmin_from n best bk (S i) r
  end.

Definition choose_min (n : netlist) : chooser :=
  fun l => match l with [] => 0 | p :: r => argmin_from n 0 (port_key n p) 1 r end.

(* the order the C++ uses *)
Definition infer_real (n : netlist) : port -> option scd := infer n (choose_min n) (all_outputs n).

(* ------------------------------------------------------------------ *)
(* Specification                                                        *)

(* what a signal can be influenced by: a clock, or a clock-less source (unclocked pin / register) *)
Inductive src := SrcClk (c : clockid) | SrcUnk.

Definition src_of (c : option clockid) : src := match c with Some k => SrcClk k | None => SrcUnk end.

Definition src_eqb (a b : src) : bool :=
  match a, b with
  | SrcClk x, SrcClk y => Nat.eqb x y
  | SrcUnk, SrcUnk => true
  | _, _ => false
  end.

(* [influences n s p]: output p carries a signal that originates at a source of domain s (register,
   pin, clock signal, CDC marker output ... = any output whose relation names a clock) and reaches p
   along dependent inputs only.  A path never passes *through* a source: the output of a register or
   of a crossing marker starts a new domain. *)
Inductive influences (n : netlist) : src -> port -> Prop :=
| infl_src : forall p nd deps c rest,
    In p (all_outputs n) -> get_node n (fst p) = Some nd ->
    relation nd (snd p) = (deps, c :: rest) ->
    influences n (src_of c) p
| infl_step : forall p nd deps i q s,
    In p (all_outputs n) -> get_node n (fst p) = Some nd ->
    relation nd (snd p) = (deps, []) ->
    In i deps -> nth_error (nins nd) i = Some (Some q) ->
    influences n s q ->
    influences n s p.

(* input i of nd is driven by a signal influenced by s *)
Definition infl_in (n : netlist) (nd : node) (i : nat) (s : src) : Prop :=
  exists q, nth_error (nins nd) i = Some (Some q) /\ influences n s q.

Definition same_dom (ps : clockid -> clockid) (s1 s2 : src) : Prop :=
  match s1, s2 with
  | SrcClk a, SrcClk b => ps a = ps b
  | SrcUnk, SrcUnk => True
  | _, _ => False
  end.

(* An unmarked crossing at node v. *)
Inductive crossing_at (n : netlist) (v : N) : Prop :=
| cr_mix : forall nd i j a b,          (* two clocks with different pin sources are combined *)
    get_node n v = Some nd -> uses_base_check (nkind nd) = true ->
    infl_in n nd i (SrcClk a) -> infl_in n nd j (SrcClk b) ->
    pin_source n a <> pin_source n b -> crossing_at n v
| cr_unk : forall nd i j s,            (* a clock-less signal is combined with anything non-constant *)
    get_node n v = Some nd -> uses_base_check (nkind nd) = true ->
    i <> j -> infl_in n nd i SrcUnk -> infl_in n nd j s -> crossing_at n v
| cr_own : forall nd c i s,            (* a signal reaches a register / pin / ... of another domain *)
    get_node n v = Some nd -> uses_base_check (nkind nd) = true ->
    own_clock nd = Some c -> infl_in n nd i s ->
    ~ same_dom (pin_source n) s (SrcClk c) -> crossing_at n v
| cr_cdc : forall nd s,                (* a marker whose declared source clock is not the signal's *)
    get_node n v = Some nd -> nkind nd = KCdc ->
    infl_in n nd 0 s ->
    match s, nth_error (nclocks nd) 0 with
    | SrcClk d, Some (Some ic) => pin_source n d <> pin_source n ic
    | _, _ => True
    end -> crossing_at n v
| cr_ext : forall nd i s,              (* a signal reaches an external module's port declared for another clock *)
    get_node n v = Some nd -> nkind nd = KExt ->
    infl_in n nd i s ->
    match s, nth_error (ninclk nd) i with
    | SrcClk d, Some (Some ic) => pin_source n d <> pin_source n ic
    | _, _ => True
    end -> crossing_at n v.

Definition has_crossing (n : netlist) : Prop := exists v, crossing_at n v.

(* ------------------------------------------------------------------ *)
(* Executable version of the specification (used on the dumped netlists) *)

Definition iset := pmap (list src).

Definition add_src (s : src) (l : list src) : list src := if existsb (src_eqb s) l then l else s :: l.
Definition union_src (a b : list src) : list src := fold_left (fun acc s => add_src s acc) a b.

(* the sources that the rules derive for p in one step from the sets of its drivers *)
Definition infl_of (n : netlist) (S : port -> list src) (p : port) : list src :=
  match get_node n (fst p) with
  | None => []
  | Some nd =>
    match relation nd (snd p) with
    | (_, c :: _) => [src_of c]
    | (deps, []) => fold_left (fun acc q => union_src (S q) acc) (dep_drivers nd deps) []
    end
  end.

Definition infl_round (n : netlist) (S : iset) : iset :=
  fold_left (fun m p => pm_set m p (infl_of n (pm_list S) p)) (all_outputs n) pm_empty.

Definition subset_src (a b : list src) : bool := forallb (fun s => existsb (src_eqb s) b) a.

Definition infl_closed (n : netlist) (S : port -> list src) : bool :=
  forallb (fun p => subset_src (infl_of n S p) (S p)) (all_outputs n).

Fixpoint infl_fix (n : netlist) (fuel : nat) (S : iset) : iset :=
  if infl_closed n (pm_list S) then S
  else match fuel with O => S | S f => infl_fix n f (infl_round n S) end.

Definition infl_sets (n : netlist) : port -> list src :=
  pm_list (infl_fix n (length (all_outputs n) + 1) pm_empty).

(* sources arriving at input i *)
Definition in_srcs (S : port -> list src) (nd : node) (i : nat) : list src :=
  match nth_error (nins nd) i with Some (Some q) => S q | _ => [] end.

Definition is_unk (s : src) : bool := match s with SrcUnk => true | _ => false end.

(* nodes that use the base rule: cr_mix || cr_unk || cr_own *)
Definition site_base (n : netlist) (S : port -> list src) (nd : node) : bool :=
  let ps := pin_source n in
  let idx := seq 0 (length (nins nd)) in
  let all := flat_map (in_srcs S nd) idx in
  existsb (fun s1 => existsb (fun s2 =>
     match s1, s2 with SrcClk a, SrcClk b => negb (Nat.eqb (ps a) (ps b)) | _, _ => false end) all) all
  || existsb (fun i => existsb is_unk (in_srcs S nd i)
                       && existsb (fun j => negb (Nat.eqb i j)
                                            && match in_srcs S nd j with [] => false | _ :: _ => true end) idx) idx
  || match own_clock nd with
     | None => false
     | Some c => existsb (fun s => match s with SrcClk d => negb (Nat.eqb (ps d) (ps c)) | SrcUnk => true end) all
     end.

(* crossing markers: cr_cdc *)
Definition site_cdc (n : netlist) (S : port -> list src) (nd : node) : bool :=
  let ps := pin_source n in
  existsb (fun s => match s, nth_error (nclocks nd) 0 with
                    | SrcClk d, Some (Some ic) => negb (Nat.eqb (ps d) (ps ic))
                    | _, _ => true
                    end) (in_srcs S nd 0).

(* external modules: cr_ext *)
Definition site_ext (n : netlist) (S : port -> list src) (nd : node) : bool :=
  let ps := pin_source n in
  existsb (fun i => existsb (fun s => match s, nth_error (ninclk nd) i with
                                      | SrcClk d, Some (Some ic) => negb (Nat.eqb (ps d) (ps ic))
                                      | _, _ => true
                                      end) (in_srcs S nd i)) (seq 0 (length (nins nd))).

Definition site_b (n : netlist) (S : port -> list src) (nd : node) : bool :=
  if uses_base_check (nkind nd) then site_base n S nd
  else match nkind nd with KCdc => site_cdc n S nd | KExt => site_ext n S nd | _ => false end.

Definition has_crossing_b (n : netlist) (S : port -> list src) : bool := existsb (site_b n S) (nodes n).
