(* C19 -- the order on events (Event::operator<, transcribed as SimProcDefs.ev_less) and the sorted
   queue.  [ev_less a b = true] is "a < b" of the C++ operator, i.e. b is served before a by
   std::priority_queue.  We reason with the mirrored relation [klt a b] = "a is served strictly before b". *)
From Coq Require Import List NArith ZArith QArith Qreduction Bool Lia Sorted Permutation.
From Gatery Require Import SimProcDefs.
Import ListNotations.
Local Close Scope Q_scope.

(* ------------------------------------------------------------------------- *)
(** * Rational comparisons *)

Lemma clock_less_lt : forall a b, clock_less a b = true <-> (a < b)%Q.
Proof. intros a b. unfold clock_less, Qlt. apply Z.ltb_lt. Qed.
Lemma clock_more_gt : forall a b, clock_more a b = true <-> (b < a)%Q.
Proof. intros a b. unfold clock_more, Qlt. apply Z.ltb_lt. Qed.
Lemma clock_none_eq : forall a b, clock_more a b = false -> clock_less a b = false -> (a == b)%Q.
Proof.
  intros a b H1 H2. unfold clock_more, clock_less in *. apply Z.ltb_ge in H1, H2. unfold Qeq. lia.
Qed.

Lemma phase_idx_inj : forall a b, phase_idx a = phase_idx b -> a = b.
Proof. destruct a, b; simpl; intro H; try reflexivity; discriminate. Qed.
Lemma etype_idx_inj : forall a b, etype_idx a = etype_idx b -> a = b.
Proof. destruct a, b; simpl; intro H; try reflexivity; discriminate. Qed.
Lemma phase_eqb_eq : forall a b, phase_eqb a b = true <-> a = b.
Proof.
  intros a b. unfold phase_eqb. rewrite N.eqb_eq. split; [apply phase_idx_inj | intros ->; reflexivity].
Qed.

(* ------------------------------------------------------------------------- *)
(** * The order as a lexicographic proposition *)

Definition klt (a b : event) : Prop :=
  (e_time a < e_time b)%Q \/
  ((e_time a == e_time b)%Q /\
   ((phase_idx (e_phase a) < phase_idx (e_phase b))%N \/
    (e_phase a = e_phase b /\
     ((e_mt a < e_mt b)%N \/
      (e_mt a = e_mt b /\
       ((etype_idx (e_type a) < etype_idx (e_type b))%N \/
        (e_type a = e_type b /\ e_type a = SimProcResume /\ (e_id a < e_id b)%N))))))).

Lemma ev_less_klt : forall a b, ev_less b a = true <-> klt a b.
Proof.
  intros a b. unfold ev_less, klt.
  destruct (clock_more (e_time b) (e_time a)) eqn:Em.
  { apply clock_more_gt in Em. split; [intros _; left; exact Em | reflexivity]. }
  destruct (clock_less (e_time b) (e_time a)) eqn:El.
  { apply clock_less_lt in El. split; [discriminate|].
    intros [H|[H _]]; exfalso.
    - exact (Qlt_irrefl _ (Qlt_trans _ _ _ H El)).
    - rewrite H in El. exact (Qlt_irrefl _ El). }
  pose proof (clock_none_eq _ _ Em El) as Eq. apply Qeq_sym in Eq.
  assert (NL : ~ (e_time a < e_time b)%Q).
  { intro H. rewrite Eq in H. exact (Qlt_irrefl _ H). }
  destruct (N.ltb_spec (phase_idx (e_phase a)) (phase_idx (e_phase b))) as [Hp|Hp].
  { split; [intros _; right; split; [exact Eq | left; exact Hp] | reflexivity]. }
  destruct (N.ltb_spec (phase_idx (e_phase b)) (phase_idx (e_phase a))) as [Hp2|Hp2].
  { split; [discriminate|]. intros [H|[_ [H|[H _]]]]; [tauto | lia | rewrite H in Hp2; lia]. }
  assert (Ep : e_phase a = e_phase b) by (apply phase_idx_inj; lia).
  destruct (N.ltb_spec (e_mt a) (e_mt b)) as [Hm|Hm].
  { split; [intros _; right; split; [exact Eq | right; split; [exact Ep | left; exact Hm]] | reflexivity]. }
  destruct (N.ltb_spec (e_mt b) (e_mt a)) as [Hm2|Hm2].
  { split; [discriminate|]. intros [H|[_ [H|[_ [H|[H _]]]]]]; [tauto | lia | lia | lia]. }
  assert (Emt : e_mt a = e_mt b) by lia.
  destruct (N.ltb_spec (etype_idx (e_type a)) (etype_idx (e_type b))) as [Ht|Ht].
  { split; [intros _; right; split; [exact Eq | right; split; [exact Ep | right; split; [exact Emt | left; exact Ht]]] | reflexivity]. }
  destruct (N.ltb_spec (etype_idx (e_type b)) (etype_idx (e_type a))) as [Ht2|Ht2].
  { split; [discriminate|]. intros [H|[_ [H|[_ [H|[_ [H|[H _]]]]]]]]; [tauto | lia | lia | lia | rewrite H in Ht2; lia]. }
  assert (Ety : e_type a = e_type b) by (apply etype_idx_inj; lia).
  destruct (e_type b) eqn:Tb; rewrite ?Ety.
  all: try (split; [discriminate|]; intros [H|[_ [H|[_ [H|[_ [H|[_ [H _]]]]]]]]]; [tauto | lia | lia | simpl in H; lia | discriminate H]).
  rewrite N.ltb_lt. split.
  - intro H. right. split; [exact Eq|]. right. split; [exact Ep|]. right. split; [exact Emt|]. right. auto.
  - intros [H|[_ [H|[_ [H|[_ [H|[_ [_ H]]]]]]]]]; [tauto | lia | lia | simpl in H; lia | exact H].
Qed.

Lemma ev_less_false_klt : forall a b, ev_less b a = false <-> ~ klt a b.
Proof.
  intros a b. rewrite <- ev_less_klt. destruct (ev_less b a); split; intro H; try reflexivity; try discriminate; try congruence.
Qed.

(* ------------------------------------------------------------------------- *)
(** * Strict weak order *)

Lemma klt_irrefl : forall a, ~ klt a a.
Proof.
  intros a [H|[_ [H|[_ [H|[_ [H|[_ [_ H]]]]]]]]]; try lia. exact (Qlt_irrefl _ H).
Qed.

Lemma klt_trans : forall a b c, klt a b -> klt b c -> klt a c.
Proof.
  intros a b c [H1|[E1 H1]] [H2|[E2 H2]].
  - left. exact (Qlt_trans _ _ _ H1 H2).
  - left. rewrite <- E2. exact H1.
  - left. rewrite E1. exact H2.
  - right. split; [rewrite E1; exact E2|].
    destruct H1 as [H1|[P1 H1]]; destruct H2 as [H2|[P2 H2]].
    + left. lia.
    + left. rewrite <- P2. exact H1.
    + left. rewrite P1. exact H2.
    + right. split; [congruence|].
      destruct H1 as [H1|[M1 H1]]; destruct H2 as [H2|[M2 H2]].
      * left. lia.
      * left. lia.
      * left. lia.
      * right. split; [congruence|].
        destruct H1 as [H1|[T1 [R1 H1]]]; destruct H2 as [H2|[T2 [R2 H2]]].
        -- left. lia.
        -- left. rewrite <- T2. exact H1.
        -- left. rewrite T1. exact H2.
        -- right. split; [congruence|]. split; [exact R1|]. lia.
Qed.

Lemma klt_asym : forall a b, klt a b -> ~ klt b a.
Proof. intros a b H1 H2. exact (klt_irrefl a (klt_trans _ _ _ H1 H2)). Qed.

Definition stamp_eq (a b : event) : Prop :=
  (e_time a == e_time b)%Q /\ e_phase a = e_phase b /\ e_mt a = e_mt b.

(* events that Event::operator< cannot tell apart *)
Definition incomparable (a b : event) : Prop := ~ klt a b /\ ~ klt b a.

Lemma incomparable_iff : forall a b,
  incomparable a b <->
  (stamp_eq a b /\ e_type a = e_type b /\ (e_type a = SimProcResume -> e_id a = e_id b)).
Proof.
  intros a b. unfold incomparable, stamp_eq. split.
  - intros [N1 N2].
    destruct (Q_dec (e_time a) (e_time b)) as [[H|H]|H].
    { exfalso. apply N1. left. exact H. }
    { exfalso. apply N2. left. exact H. }
    assert (Ep : e_phase a = e_phase b).
    { apply phase_idx_inj. destruct (N.lt_trichotomy (phase_idx (e_phase a)) (phase_idx (e_phase b))) as [L|[L|L]]; [|exact L|].
      - exfalso. apply N1. right. split; [exact H|]. left. exact L.
      - exfalso. apply N2. right. split; [symmetry; exact H|]. left. exact L. }
    assert (Em : e_mt a = e_mt b).
    { destruct (N.lt_trichotomy (e_mt a) (e_mt b)) as [L|[L|L]]; [|exact L|].
      - exfalso. apply N1. right. split; [exact H|]. right. split; [exact Ep|]. left. exact L.
      - exfalso. apply N2. right. split; [symmetry; exact H|]. right. split; [symmetry; exact Ep|]. left. exact L. }
    assert (Et : e_type a = e_type b).
    { apply etype_idx_inj. destruct (N.lt_trichotomy (etype_idx (e_type a)) (etype_idx (e_type b))) as [L|[L|L]]; [|exact L|].
      - exfalso. apply N1. right. split; [exact H|]. right. split; [exact Ep|]. right. split; [exact Em|]. left. exact L.
      - exfalso. apply N2. right. split; [symmetry; exact H|]. right. split; [symmetry; exact Ep|]. right. split; [symmetry; exact Em|]. left. exact L. }
    repeat split; try assumption.
    intro R. destruct (N.lt_trichotomy (e_id a) (e_id b)) as [L|[L|L]]; [|exact L|].
    + exfalso. apply N1. right. split; [exact H|]. right. split; [exact Ep|]. right. split; [exact Em|]. right. auto.
    + exfalso. apply N2. right. split; [symmetry; exact H|]. right. split; [symmetry; exact Ep|]. right. split; [symmetry; exact Em|].
      right. split; [symmetry; exact Et|]. split; [congruence | exact L].
  - intros [[Eq [Ep Em]] [Et Ei]]. split.
    + intros [H|[_ [H|[_ [H|[_ [H|[_ [R H]]]]]]]]].
      * rewrite Eq in H. exact (Qlt_irrefl _ H).
      * rewrite Ep in H. lia.
      * lia.
      * rewrite Et in H. lia.
      * specialize (Ei R). lia.
    + intros [H|[_ [H|[_ [H|[_ [H|[_ [R H]]]]]]]]].
      * rewrite Eq in H. exact (Qlt_irrefl _ H).
      * rewrite Ep in H. lia.
      * lia.
      * rewrite Et in H. lia.
      * rewrite <- Et in R. specialize (Ei R). lia.
Qed.

Lemma incomparable_trans : forall a b c, incomparable a b -> incomparable b c -> incomparable a c.
Proof.
  intros a b c H1 H2. apply incomparable_iff in H1, H2. apply incomparable_iff.
  destruct H1 as [[Q1 [P1 M1]] [T1 I1]]. destruct H2 as [[Q2 [P2 M2]] [T2 I2]].
  repeat split; try congruence.
  - rewrite Q1. exact Q2.
  - intro R. rewrite (I1 R). apply I2. congruence.
Qed.

(* total on resumptions with different insertion ids *)
Lemma klt_total_resume : forall a b,
  e_type a = SimProcResume -> e_type b = SimProcResume -> e_id a <> e_id b -> klt a b \/ klt b a.
Proof.
  intros a b Ra Rb Hne.
  destruct (Q_dec (e_time a) (e_time b)) as [[H|H]|H]; [left; left; exact H | right; left; exact H |].
  destruct (N.lt_trichotomy (phase_idx (e_phase a)) (phase_idx (e_phase b))) as [L|[L|L]].
  { left. right. split; [exact H|]. left. exact L. }
  2:{ right. right. split; [symmetry; exact H|]. left. exact L. }
  apply phase_idx_inj in L.
  destruct (N.lt_trichotomy (e_mt a) (e_mt b)) as [M|[M|M]].
  { left. right. split; [exact H|]. right. split; [exact L|]. left. exact M. }
  2:{ right. right. split; [symmetry; exact H|]. right. split; [symmetry; exact L|]. left. exact M. }
  destruct (N.lt_trichotomy (e_id a) (e_id b)) as [I|[I|I]]; [|contradiction|].
  - left. right. split; [exact H|]. right. split; [exact L|]. right. split; [exact M|]. right. split; [congruence|]. auto.
  - right. right. split; [symmetry; exact H|]. right. split; [symmetry; exact L|]. right. split; [symmetry; exact M|].
    right. split; [congruence|]. auto.
Qed.

(* among resumptions of one instant the order is the order of the insertion ids *)
Lemma klt_same_instant_resume : forall a b,
  e_type a = SimProcResume -> e_type b = SimProcResume -> stamp_eq a b -> (klt a b <-> (e_id a < e_id b)%N).
Proof.
  intros a b Ra Rb [Eq [Ep Em]]. split.
  - intros [H|[_ [H|[_ [H|[_ [H|[_ [_ H]]]]]]]]].
    + rewrite Eq in H. exfalso. exact (Qlt_irrefl _ H).
    + rewrite Ep in H. lia.
    + lia.
    + rewrite Ra, Rb in H. simpl in H. lia.
    + exact H.
  - intro H. right. split; [exact Eq|]. right. split; [exact Ep|]. right. split; [exact Em|]. right.
    split; [congruence|]. auto.
Qed.

(* NOT total: two clockPinTrigger events of different pins at the same time *)
Lemma triggers_incomparable : forall t,
  incomparable (trigger_event t CA) (trigger_event t CB) /\ trigger_event t CA <> trigger_event t CB.
Proof.
  intro t. split; [|discriminate].
  apply incomparable_iff. unfold stamp_eq, trigger_event. simpl.
  repeat split; try reflexivity; try discriminate.
Qed.

(* ------------------------------------------------------------------------- *)
(** * The sorted queue *)

Definition qsorted (q : list event) : Prop := StronglySorted (fun x y => ev_less x y = false) q.

Lemma q_insert_in : forall e q y, In y (q_insert e q) <-> y = e \/ In y q.
Proof.
  induction q as [|x r IH]; intro y; simpl.
  - split; [intros [H|[]]; left; auto | intros [H|[]]; left; auto].
  - destruct (ev_less x e).
    + simpl. split; [intros [H|H]; [left; auto | right; exact H] | intros [H|H]; [left; auto | right; exact H]].
    + simpl. rewrite IH. tauto.
Qed.

Lemma q_insert_perm : forall e q, Permutation (q_insert e q) (e :: q).
Proof.
  induction q as [|x r IH]; simpl; [reflexivity|].
  destruct (ev_less x e); [reflexivity|].
  rewrite IH. apply perm_swap.
Qed.

Lemma q_insert_sorted : forall e q, qsorted q -> qsorted (q_insert e q).
Proof.
  induction q as [|x r IH]; intro Hs; simpl.
  - constructor; [constructor | constructor].
  - inversion Hs as [|? ? Hr Hx]; subst.
    destruct (ev_less x e) eqn:E.
    + constructor; [exact Hs|].
      apply ev_less_klt in E.
      constructor.
      * apply ev_less_false_klt. apply klt_asym. exact E.
      * apply Forall_forall. intros y Hy. apply ev_less_false_klt. intro K.
        pose proof (proj1 (Forall_forall _ _) Hx y Hy) as S. apply ev_less_false_klt in S.
        apply S. exact (klt_trans _ _ _ K E).
    + constructor; [exact (IH Hr)|].
      apply Forall_forall. intros y Hy. apply q_insert_in in Hy. destruct Hy as [->|Hy]; [exact E|].
      exact (proj1 (Forall_forall _ _) Hx y Hy).
Qed.

(* in a sorted queue, same-instant resumptions with different ids stand in id order *)
Lemma sorted_same_instant_fifo : forall l1 a l2 b l3,
  qsorted (l1 ++ a :: l2 ++ b :: l3) ->
  e_type a = SimProcResume -> e_type b = SimProcResume -> stamp_eq a b -> e_id a <> e_id b ->
  (e_id a < e_id b)%N.
Proof.
  intros l1 a l2 b l3 Hs Ra Rb St Hne.
  assert (S : ev_less a b = false).
  { induction l1 as [|x l1 IH]; simpl in Hs.
    - inversion Hs as [|? ? _ Hx]; subst. apply (proj1 (Forall_forall _ _) Hx).
      apply in_or_app. right. left. reflexivity.
    - inversion Hs; subst. auto. }
  apply ev_less_false_klt in S.
  destruct (klt_total_resume a b Ra Rb Hne) as [K|K]; [|contradiction].
  apply klt_same_instant_resume in K; assumption.
Qed.

Lemma sorted_head_first : forall e q x, qsorted (e :: q) -> In x q -> ~ klt x e.
Proof.
  intros e q x Hs Hx. inversion Hs as [|? ? _ H]; subst.
  apply ev_less_false_klt. exact (proj1 (Forall_forall _ _) H x Hx).
Qed.

Lemma sorted_tail : forall e q, qsorted (e :: q) -> qsorted q.
Proof. intros e q H. inversion H; assumption. Qed.

(* exchanging two incomparable neighbours at the head keeps the queue sorted *)
Lemma sorted_swap_head : forall e1 e2 r,
  qsorted (e1 :: e2 :: r) -> equivalent e1 e2 = true -> qsorted (e2 :: e1 :: r).
Proof.
  intros e1 e2 r Hs Heq. unfold equivalent in Heq. apply andb_prop in Heq. destruct Heq as [H1 H2].
  apply negb_true_iff in H1, H2.
  inversion Hs as [|? ? Hs2 F1]; subst. inversion Hs2 as [|? ? Hs3 F2]; subst.
  inversion F1 as [|? ? _ F1']; subst.
  constructor; [constructor; [exact Hs3 | exact F1'] |].
  constructor; [exact H2 | exact F2].
Qed.
