(* C09 -- the remaining operations preserve the invariant: resizeInputs / resizeOutputs,
   setOutputConnectionType, Node_Signal::connectInput, moveToGroup, attachClock / detachClock / addClock,
   addRef / removeRef, createNode / addChildNodeGroup / createClock, node destruction. *)
From Coq Require Import List NArith Arith Bool Lia.
From Gatery Require Import WfDefs WfLemmas WfViews WfEdges.
Import ListNotations.

(* operations that leave edges, types and requirements alone *)
Definition nframe g g' :=
  (forall x, drv g' x = drv g x) /\ (forall y, outp g' y = outp g y) /\ (forall k, req_of g' k = req_of g k).

Lemma nframe_refl : forall g, nframe g g. Proof. intros; repeat split; auto. Qed.
Lemma nframe_trans : forall g1 g2 g3, nframe g1 g2 -> nframe g2 g3 -> nframe g1 g3.
Proof.
  intros g1 g2 g3 (A1 & A2 & A3) (B1 & B2 & B3). repeat split; intros.
  - rewrite B1; auto. - rewrite B2; auto. - rewrite B3; auto.
Qed.

Lemma nframe_cons : forall g g' y, nframe g g' -> cons g' y = cons g y.
Proof. intros g g' y (_ & H & _). apply cons_same_outp; auto. Qed.
Lemma nframe_otype : forall g g' y, nframe g g' -> otype g' y = otype g y.
Proof. intros g g' y (_ & H & _). apply otype_same_outp; auto. Qed.

Lemma types_except_nframe : forall g g' T, nframe g g' -> types_ok_except T g -> types_ok_except T g'.
Proof.
  intros g g' T F H. apply (types_except_le g); auto.
  - intros x. right. apply F.
  - split; [intros; apply nframe_otype; auto | apply F].
Qed.

Lemma nframe_set_grp : forall g n v, nframe g (set_grp g n v).
Proof. intros; repeat split; intros; [apply drv_set_grp | apply outp_set_grp | apply req_of_set_grp]. Qed.
Lemma nframe_set_members : forall g gid l, nframe g (set_members g gid l).
Proof. intros; repeat split; reflexivity. Qed.
Lemma nframe_set_clk : forall g a v, nframe g (set_clk g a v).
Proof. intros; repeat split; intros; [apply drv_set_clk | apply outp_set_clk | apply req_of_set_clk]. Qed.
Lemma nframe_set_clocked : forall g c l, nframe g (set_clocked g c l).
Proof. intros; repeat split; reflexivity. Qed.

(* ------------------------------------------------------------------------------------------ *)
(* moveToGroup                                                                                *)
(* ------------------------------------------------------------------------------------------ *)
Lemma moveToGroup_frame : forall g n grp,
  nframe g (moveToGroup g n grp) /\ same_clocks g (moveToGroup g n grp) /\ same_skel g (moveToGroup g n grp).
Proof.
  intros. unfold moveToGroup. destruct (oN_eq_dec grp (grp_of g n)).
  { split; [apply nframe_refl|]. split; [repeat split; auto | reflexivity]. }
  set (leave := match grp_of g n with
                | None => Some g
                | Some old => if memb N.eq_dec n (members g old)
                              then Some (set_members g old (swap_remove N.eq_dec n (members g old))) else None
                end).
  assert (HL : forall g1, leave = Some g1 -> nframe g g1 /\ same_clocks g g1 /\ same_skel g g1).
  { unfold leave. intros g1 H. destruct (grp_of g n) as [old|].
    - destruct (memb N.eq_dec n (members g old)); inversion H; subst.
      split; [apply nframe_set_members|]. split; [repeat split; auto | apply skeleton_set_members].
    - inversion H; subst. split; [apply nframe_refl|]. split; [repeat split; auto | reflexivity]. }
  destruct leave as [g1|].
  - destruct (HL g1 eq_refl) as (F1 & C1 & S1).
    assert (F2 : nframe g (set_grp g1 n grp)) by (eapply nframe_trans; [exact F1 | apply nframe_set_grp]).
    assert (C2 : same_clocks g (set_grp g1 n grp)).
    { destruct C1 as (A & B & C). repeat split; intros.
      - rewrite clk_of_set_grp; auto.
      - exact (B k).
      - unfold clk_validb, set_grp. rewrite node_view_upd_same; [apply C | reflexivity]. }
    assert (S2 : same_skel g (set_grp g1 n grp)).
    { unfold same_skel in *. rewrite skeleton_set_grp. auto. }
    destruct grp as [new|]; auto.
    split; [eapply nframe_trans; [exact F2 | apply nframe_set_members]|].
    split; [|unfold same_skel in *; rewrite skeleton_set_members; auto].
    destruct C2 as (A & B & C). repeat split; intros; [exact (A _) | exact (B _) | exact (C _)].
  - split; [apply nframe_refl|]. split; [repeat split; auto | reflexivity].
Qed.

Lemma moveToGroup_consistent : forall g n grp,
  consistent N.eq_dec (grp_of g) (members g) -> liveb g n = true -> ogroupb g grp = true ->
  consistent N.eq_dec (grp_of (moveToGroup g n grp)) (members (moveToGroup g n grp)).
Proof.
  intros g n grp E Ln Lg. unfold moveToGroup. destruct (oN_eq_dec grp (grp_of g n)) as [|Hne]; auto.
  (* after leaving the old group *)
  set (f1 := fun k => if N.eq_dec k n then None else grp_of g k).
  assert (H1 : exists g1,
     match grp_of g n with
     | None => Some g
     | Some old => if memb N.eq_dec n (members g old)
                   then Some (set_members g old (swap_remove N.eq_dec n (members g old))) else None
     end = Some g1 /\ consistent N.eq_dec f1 (members g1) /\ (forall k, grp_of g1 k = grp_of g k) /\
     (forall k, liveb g1 k = liveb g k) /\ (forall k, groupb g1 k = groupb g k)).
  { destruct (grp_of g n) as [old|] eqn:G.
    - assert (Hin : In n (members g old)).
      { apply (count_occ_In N.eq_dec). destruct (E n old) as [H _]. rewrite H; auto. }
      replace (memb N.eq_dec n (members g old)) with true by (symmetry; apply memb_true; auto).
      eexists. split; [reflexivity|]. split; [|split; [reflexivity|split; [reflexivity|]]].
      + assert (Gb : groupb g old = true) by (eapply members_nonempty_group; eauto).
        apply (consistent_unlink N.eq_dec N.eq_dec (grp_of g) f1 (members g) _ n old); auto.
        * unfold f1. destruct (N.eq_dec n n); congruence.
        * intros. unfold f1. destruct (N.eq_dec x n); congruence.
        * rewrite members_set_members, Gb. destruct (N.eq_dec old old); [|congruence].
          rewrite count_swap_remove_eq by auto. destruct (E n old) as [H _]. rewrite H; auto.
        * intros. rewrite members_set_members, Gb. destruct (N.eq_dec old old); [|congruence].
          apply count_swap_remove_neq; auto.
        * intros. rewrite members_set_members. destruct (N.eq_dec b' old); congruence.
      + intros. apply groupb_skel. apply skeleton_set_members.
    - exists g. split; auto. split; [|repeat split; auto].
      eapply consistent_ext; [exact E| |auto].
      intros. unfold f1. destruct (N.eq_dec a n); congruence. }
  destruct H1 as (g1 & -> & E1 & G1 & L1 & B1).
  assert (Ln1 : liveb g1 n = true) by (rewrite L1; auto).
  destruct grp as [new|].
  - simpl in Lg.
    assert (Bn : groupb (set_grp g1 n (Some new)) new = true).
    { rewrite (groupb_skel g1) by apply skeleton_set_grp. rewrite B1; auto. }
    apply (consistent_link N.eq_dec N.eq_dec f1 _ (members g1) _ n new); auto.
    + unfold f1. destruct (N.eq_dec n n); congruence.
    + rewrite grp_of_set_members, grp_of_set_grp, Ln1. destruct (N.eq_dec n n); congruence.
    + intros. rewrite grp_of_set_members, grp_of_set_grp. unfold f1. destruct (N.eq_dec x n); [congruence|]. apply G1.
    + rewrite members_set_members, Bn. destruct (N.eq_dec new new); [|congruence].
      rewrite members_set_grp, count_snoc. destruct (N.eq_dec n n); [lia|congruence].
    + intros. rewrite members_set_members, Bn. destruct (N.eq_dec new new); [|congruence].
      rewrite members_set_grp, count_snoc. destruct (N.eq_dec n x); [congruence|lia].
    + intros. rewrite members_set_members. destruct (N.eq_dec b' new); [congruence|]. apply members_set_grp.
  - eapply consistent_ext; [exact E1| |].
    + intros. rewrite grp_of_set_grp, Ln1. unfold f1. destruct (N.eq_dec a n); auto.
    + intros. rewrite members_set_grp. auto.
Qed.

Lemma moveToGroup_InvS : forall g n grp,
  InvS g -> liveb g n = true -> ogroupb g grp = true -> InvS (moveToGroup g n grp).
Proof.
  intros g n grp [I1 I3 I4 I5 I6] Ln Lg.
  destruct (moveToGroup_frame g n grp) as (F & C & S).
  constructor.
  - eapply consistent_ext; [exact I1 | apply F |]. intros. rewrite (nframe_cons g); auto.
  - apply moveToGroup_consistent; auto.
  - eapply parents_ok_skel; eauto.
  - eapply consistent_clocks_same; eauto.
  - eapply ids_ok_skel; eauto.
Qed.

Lemma moveToGroup_types_except : forall g n grp T,
  types_ok_except T g -> types_ok_except T (moveToGroup g n grp).
Proof. intros. apply (types_except_nframe g); auto. apply moveToGroup_frame. Qed.

(* after the call the node is in the requested group *)
Lemma moveToGroup_grp_of : forall g n grp,
  consistent N.eq_dec (grp_of g) (members g) -> liveb g n = true ->
  grp_of (moveToGroup g n grp) n = grp.
Proof.
  intros g n grp E Ln. unfold moveToGroup. destruct (oN_eq_dec grp (grp_of g n)) as [|Hne]; auto.
  destruct (grp_of g n) as [old|] eqn:G.
  - assert (Hin : In n (members g old)).
    { apply (count_occ_In N.eq_dec). destruct (E n old) as [H _]. rewrite H; auto. }
    replace (memb N.eq_dec n (members g old)) with true by (symmetry; apply memb_true; auto).
    destruct grp as [new|].
    + rewrite grp_of_set_members, grp_of_set_grp. destruct (N.eq_dec n n); [|congruence].
      change (liveb (set_members g old (swap_remove N.eq_dec n (members g old))) n) with (liveb g n). rewrite Ln; auto.
    + rewrite grp_of_set_grp. destruct (N.eq_dec n n); [|congruence].
      change (liveb (set_members g old (swap_remove N.eq_dec n (members g old))) n) with (liveb g n). rewrite Ln; auto.
  - destruct grp as [new|]; [|congruence].
    rewrite grp_of_set_members, grp_of_set_grp. destruct (N.eq_dec n n); [|congruence]. rewrite Ln; auto.
Qed.

Lemma moveToGroup_grp_of_other : forall g n grp k, k <> n -> grp_of (moveToGroup g n grp) k = grp_of g k.
Proof.
  intros g n grp k Hk. unfold moveToGroup. destruct (oN_eq_dec grp (grp_of g n)); auto.
  destruct (grp_of g n) as [old|].
  - destruct (memb N.eq_dec n (members g old)); auto.
    destruct grp as [new|]; rewrite ?grp_of_set_members, grp_of_set_grp; (destruct (N.eq_dec k n); [congruence | reflexivity]).
  - destruct grp as [new|]; rewrite ?grp_of_set_members, grp_of_set_grp; (destruct (N.eq_dec k n); [congruence | reflexivity]).
Qed.

(* ------------------------------------------------------------------------------------------ *)
(* clocks                                                                                     *)
(* ------------------------------------------------------------------------------------------ *)
Lemma detachClock_frame : forall g a,
  nframe g (detachClock g a) /\ same_groups g (detachClock g a) /\ same_skel g (detachClock g a) /\
  (forall x, clk_validb (detachClock g a) x = clk_validb g x).
Proof.
  intros. unfold detachClock. destruct (clk_of g a) as [c|].
  - split; [eapply nframe_trans; [apply nframe_set_clocked | apply nframe_set_clk]|].
    split; [split; intros; [rewrite grp_of_set_clk | rewrite members_set_clk]; reflexivity|].
    split; [unfold same_skel; rewrite skeleton_set_clk; apply skeleton_set_clocked|].
    intros. rewrite clk_validb_set_clk. reflexivity.
  - split; [apply nframe_refl|]. repeat split; auto.
Qed.

Section Detach.
  Variables (g : graph) (a : nport) (c : N).
  Hypothesis E : consistent nport_eq_dec (clk_of g) (clocked g).
  Hypothesis D : clk_of g a = Some c.

  Lemma detach_In : In a (clocked g c).
  Proof. apply (count_occ_In nport_eq_dec). destruct (E a c) as [H _]. rewrite H; auto. Qed.

  Lemma detach_clk_of : forall x, clk_of (detachClock g a) x = if nport_eq_dec x a then None else clk_of g x.
  Proof.
    intros. unfold detachClock. rewrite D, clk_of_set_clk.
    change (clk_validb (set_clocked g c (set_erase nport_eq_dec a (clocked g c))) a) with (clk_validb g a).
    rewrite (clk_Some_valid g a c D). reflexivity.
  Qed.

  Lemma detach_clocked : forall k,
    clocked (detachClock g a) k = if N.eq_dec k c then set_erase nport_eq_dec a (clocked g c) else clocked g k.
  Proof.
    intros. unfold detachClock. rewrite D, clocked_set_clk, clocked_set_clocked.
    rewrite (clocked_nonempty_clock g c a detach_In). reflexivity.
  Qed.

  Lemma detach_consistent : consistent nport_eq_dec (clk_of (detachClock g a)) (clocked (detachClock g a)).
  Proof.
    apply (consistent_unlink nport_eq_dec N.eq_dec (clk_of g) _ (clocked g) _ a c); auto.
    - rewrite detach_clk_of. destruct (nport_eq_dec a a); congruence.
    - intros. rewrite detach_clk_of. destruct (nport_eq_dec x a); congruence.
    - rewrite detach_clocked. destruct (N.eq_dec c c); [|congruence]. apply count_set_erase_eq.
    - intros. rewrite detach_clocked. destruct (N.eq_dec c c); [|congruence]. apply count_set_erase_neq; auto.
    - intros. rewrite detach_clocked. destruct (N.eq_dec b' c); congruence.
  Qed.
End Detach.

Lemma detach_consistent_any : forall g a,
  consistent nport_eq_dec (clk_of g) (clocked g) ->
  consistent nport_eq_dec (clk_of (detachClock g a)) (clocked (detachClock g a)).
Proof.
  intros. destruct (clk_of g a) as [c|] eqn:D.
  - eapply detach_consistent; eauto.
  - unfold detachClock. rewrite D. auto.
Qed.

Lemma detach_clk_of_any : forall g a x,
  consistent nport_eq_dec (clk_of g) (clocked g) ->
  clk_of (detachClock g a) x = if nport_eq_dec x a then None else clk_of g x.
Proof.
  intros. destruct (clk_of g a) as [c|] eqn:D.
  - eapply detach_clk_of; eauto.
  - unfold detachClock. rewrite D. destruct (nport_eq_dec x a); congruence.
Qed.

Lemma InvS_cframe : forall g g', InvS g ->
  nframe g g' -> same_groups g g' -> same_skel g g' ->
  consistent nport_eq_dec (clk_of g') (clocked g') -> InvS g'.
Proof.
  intros g g' [I1 I3 I4 I5 I6] F G S C. constructor; auto.
  - eapply consistent_ext; [exact I1 | apply F |]. intros. rewrite (nframe_cons g); auto.
  - eapply consistent_groups_same; eauto.
  - eapply parents_ok_skel; eauto.
  - eapply ids_ok_skel; eauto.
Qed.

Lemma detachClock_InvS : forall g a, InvS g -> InvS (detachClock g a).
Proof.
  intros g a I. destruct (detachClock_frame g a) as (F & G & S & _).
  apply (InvS_cframe g); auto. apply detach_consistent_any. apply I.
Qed.

Lemma attachClock_frame : forall g a c,
  nframe g (attachClock g a c) /\ same_groups g (attachClock g a c) /\ same_skel g (attachClock g a c) /\
  (forall x, clk_validb (attachClock g a c) x = clk_validb g x).
Proof.
  intros. unfold attachClock. destruct (oN_eq_dec (clk_of g a) c).
  { split; [apply nframe_refl|]. repeat split; auto. }
  destruct (detachClock_frame g a) as (F1 & (G1 & G1') & S1 & V1).
  set (g1 := detachClock g a) in *.
  assert (F2 : nframe g (set_clk g1 a c)) by (eapply nframe_trans; [exact F1 | apply nframe_set_clk]).
  assert (G2 : same_groups g (set_clk g1 a c)).
  { split; intros; [rewrite grp_of_set_clk | rewrite members_set_clk]; auto. }
  assert (S2 : same_skel g (set_clk g1 a c)) by (unfold same_skel in *; rewrite skeleton_set_clk; auto).
  assert (V2 : forall x, clk_validb (set_clk g1 a c) x = clk_validb g x) by (intros; rewrite clk_validb_set_clk; auto).
  destruct c as [cid|]; auto.
  split; [eapply nframe_trans; [exact F2 | apply nframe_set_clocked]|].
  split; [exact G2|]. split; [unfold same_skel in *; rewrite skeleton_set_clocked; auto | exact V2].
Qed.

Lemma attachClock_consistent : forall g a c,
  consistent nport_eq_dec (clk_of g) (clocked g) -> clk_validb g a = true -> oclockb g c = true ->
  consistent nport_eq_dec (clk_of (attachClock g a c)) (clocked (attachClock g a c)).
Proof.
  intros g a c E Va Vc. unfold attachClock. destruct (oN_eq_dec (clk_of g a) c) as [|Hne]; auto.
  pose proof (detach_consistent_any g a E) as E1.
  pose proof (detach_clk_of_any g a) as D1.
  destruct (detachClock_frame g a) as (_ & _ & S1 & V1).
  set (g1 := detachClock g a) in *.
  assert (Da : clk_of g1 a = None) by (rewrite D1; auto; destruct (nport_eq_dec a a); congruence).
  assert (Va1 : clk_validb g1 a = true) by (rewrite V1; auto).
  destruct c as [cid|].
  - simpl in Vc.
    assert (Vc1 : clockb (set_clk g1 a (Some cid)) cid = true).
    { rewrite (clockb_skel g1) by apply skeleton_set_clk. rewrite (clockb_skel g) by exact S1. auto. }
    assert (Hnot : ~ In a (clocked g1 cid)).
    { apply (count_occ_not_In nport_eq_dec). apply E1. rewrite Da. discriminate. }
    apply (consistent_link nport_eq_dec N.eq_dec (clk_of g1) _ (clocked g1) _ a cid); auto.
    + rewrite clk_of_set_clocked, clk_of_set_clk, Va1. destruct (nport_eq_dec a a); congruence.
    + intros. rewrite clk_of_set_clocked, clk_of_set_clk. destruct (nport_eq_dec x a); congruence.
    + rewrite clocked_set_clocked, Vc1. destruct (N.eq_dec cid cid); [|congruence].
      rewrite clocked_set_clk, set_add_notin, count_snoc by auto. destruct (nport_eq_dec a a); [lia|congruence].
    + intros. rewrite clocked_set_clocked, Vc1. destruct (N.eq_dec cid cid); [|congruence].
      rewrite clocked_set_clk, set_add_notin, count_snoc by auto. destruct (nport_eq_dec a x); [congruence|lia].
    + intros. rewrite clocked_set_clocked. destruct (N.eq_dec b' cid); [congruence|]. apply clocked_set_clk.
  - eapply consistent_ext; [exact E1| |].
    + intros. rewrite clk_of_set_clk, Va1. destruct (nport_eq_dec a0 a); congruence.
    + intros. rewrite clocked_set_clk. auto.
Qed.

Lemma attachClock_InvS : forall g a c,
  InvS g -> clk_validb g a = true -> oclockb g c = true -> InvS (attachClock g a c).
Proof.
  intros g a c I Va Vc. destruct (attachClock_frame g a c) as (F & G & S & _).
  apply (InvS_cframe g); auto. apply attachClock_consistent; auto. apply I.
Qed.

(* m_clocks.push_back(nullptr): no view of the invariant changes *)
Definition push_clk g n := upd_node g n (fun nd => with_clks nd (n_clks nd ++ [None])).

Lemma push_clk_clk_of : forall g n x, clk_of (push_clk g n) x = clk_of g x.
Proof.
  intros g n [m i]. unfold clk_of, push_clk. simpl. rewrite getn_upd_node.
  destruct (N.eq_dec m n) as [->|]; auto. destruct (getn g n) as [nd|]; simpl; auto.
  destruct (Nat.lt_ge_cases i (length (n_clks nd))).
  - rewrite app_nth1; auto.
  - rewrite app_nth2 by auto. rewrite (nth_overflow (n_clks nd)) by auto.
    destruct (i - length (n_clks nd)) as [|[|q]]; reflexivity.
Qed.

Lemma push_clk_frame : forall g n,
  nframe g (push_clk g n) /\ same_groups g (push_clk g n) /\ same_skel g (push_clk g n).
Proof.
  intros. unfold push_clk. split; [|split].
  - repeat split; intros.
    + unfold drv. apply node_view_upd_same. reflexivity.
    + unfold outp. apply node_view_upd_same. reflexivity.
    + unfold req_of, option_map. apply node_view_upd_same. reflexivity.
  - split; intros; [|reflexivity]. unfold grp_of. apply node_view_upd_same. reflexivity.
  - apply skeleton_upd_node. reflexivity.
Qed.

Lemma push_clk_valid : forall g n nd, getn g n = Some nd -> clk_validb (push_clk g n) (n, length (n_clks nd)) = true.
Proof.
  intros. unfold clk_validb, push_clk. simpl. rewrite getn_upd_node.
  destruct (N.eq_dec n n); [|congruence]. rewrite H. simpl. apply Nat.ltb_lt. rewrite app_length. simpl. lia.
Qed.

Lemma push_clk_InvS : forall g n, InvS g -> InvS (push_clk g n).
Proof.
  intros g n I. destruct (push_clk_frame g n) as (F & G & S).
  apply (InvS_cframe g); auto.
  eapply consistent_ext; [apply I | apply push_clk_clk_of | reflexivity].
Qed.

Lemma addClock_InvS : forall g n c, InvS g -> liveb g n = true -> oclockb g c = true -> InvS (addClock g n c).
Proof.
  intros g n c I Ln Vc. unfold addClock, liveb in *. destruct (getn g n) as [nd|] eqn:E; auto.
  fold (push_clk g n). apply attachClock_InvS.
  - apply push_clk_InvS; auto.
  - apply push_clk_valid; auto.
  - destruct c as [cid|]; simpl in *; [|reflexivity]. rewrite (clockb_skel g) by apply push_clk_frame. exact Vc.
Qed.

Lemma addClock_nframe : forall g n c, nframe g (addClock g n c).
Proof.
  intros. unfold addClock. destruct (getn g n); [|apply nframe_refl]. fold (push_clk g n).
  eapply nframe_trans; [apply push_clk_frame | apply attachClock_frame].
Qed.

(* ------------------------------------------------------------------------------------------ *)
(* reference counter                                                                          *)
(* ------------------------------------------------------------------------------------------ *)
Lemma upd_ref_InvS : forall g n (h : node -> node),
  (forall nd, n_ins (h nd) = n_ins nd) -> (forall nd, n_outs (h nd) = n_outs nd) ->
  (forall nd, n_grp (h nd) = n_grp nd) -> (forall nd, n_clks (h nd) = n_clks nd) ->
  (forall nd, n_req (h nd) = n_req nd) -> (forall nd, n_role (h nd) = n_role nd) ->
  InvS g -> InvS (upd_node g n h) /\ nframe g (upd_node g n h).
Proof.
  intros g n h H1 H2 H3 H4 H5 H6 I.
  assert (F : nframe g (upd_node g n h)).
  { repeat split; intros.
    - unfold drv. apply node_view_upd_same. intros; rewrite H1; auto.
    - unfold outp. apply node_view_upd_same. intros; rewrite H2; auto.
    - unfold req_of, option_map. apply node_view_upd_same. intros; rewrite H5; auto. }
  split; auto. apply (InvS_cframe g); auto.
  - split; intros; [|reflexivity]. unfold grp_of. apply node_view_upd_same. auto.
  - apply skeleton_upd_node. auto.
  - eapply consistent_ext; [apply I| |reflexivity].
    intros. unfold clk_of. apply node_view_upd_same. intros; rewrite H4; auto.
Qed.

Lemma addRef_InvS : forall g n, InvS g -> InvS (addRef g n) /\ nframe g (addRef g n).
Proof. intros. unfold addRef. apply upd_ref_InvS; auto. Qed.

Lemma removeRef_InvS : forall g n, InvS g -> InvS (removeRef g n) /\ nframe g (removeRef g n).
Proof.
  intros. unfold removeRef. apply upd_ref_InvS; auto; intros; destruct (N.eqb (n_ref nd) 0); auto.
Qed.

(* ------------------------------------------------------------------------------------------ *)
(* setOutputConnectionType                                                                    *)
(* ------------------------------------------------------------------------------------------ *)
Lemma setType_eframe_but_types : forall g b t,
  let g' := setOutputConnectionType g b t in
  (forall x, drv g' x = drv g x) /\ (forall y, cons g' y = cons g y) /\ (forall k, req_of g' k = req_of g k) /\
  same_groups g g' /\ same_clocks g g' /\ same_skel g g' /\ (forall x, in_validb g' x = in_validb g x) /\
  (forall y, cons g y <> [] -> otype g' y = otype g y) /\ (forall y, y <> b -> otype g' y = otype g y).
Proof.
  intros. unfold g', setOutputConnectionType.
  assert (R : forall g0 : graph, (forall x, drv g0 x = drv g0 x) /\ (forall y, cons g0 y = cons g0 y) /\
             (forall k, req_of g0 k = req_of g0 k) /\ same_groups g0 g0 /\ same_clocks g0 g0 /\ same_skel g0 g0 /\
             (forall x, in_validb g0 x = in_validb g0 x) /\
             (forall y, cons g0 y <> [] -> otype g0 y = otype g0 y) /\ (forall y, y <> b -> otype g0 y = otype g0 y)).
  { intros. repeat split; auto. }
  destruct (otype g b) as [t0|]; [|apply R].
  destruct (ctype_eq_dec t0 t); [apply R|].
  destruct (cons g b) eqn:C; [|apply R].
  repeat split; intros.
  - apply drv_set_otype. - apply cons_set_otype. - apply req_of_set_otype.
  - apply grp_of_set_otype. - apply clk_of_set_otype. - apply clk_validb_set_otype.
  - apply skeleton_set_otype. - apply in_validb_set_otype.
  - rewrite otype_set_otype. destruct (nport_eq_dec y b); [congruence|auto].
  - rewrite otype_set_otype. destruct (nport_eq_dec y b); [congruence|auto].
Qed.

Lemma setType_InvS : forall g b t, InvS g -> InvS (setOutputConnectionType g b t).
Proof.
  intros g b t I. destruct (setType_eframe_but_types g b t) as (D & C & R & G & K & S & _).
  apply (InvS_views g); auto; apply K.
Qed.

Lemma setType_types_except : forall g b t T,
  consistent nport_eq_dec (drv g) (cons g) -> In (fst b) T ->
  types_ok_except T g -> types_ok_except T (setOutputConnectionType g b t).
Proof.
  intros g b t T E Hin H. destruct (setType_eframe_but_types g b t) as (D & C & R & G & K & S & V & U & O).
  apply (types_except_unused g _ T); auto.
  - intros x. right. apply D.
  - intros m Hm. right. split; auto. intros o. apply O. intros <-. auto.
Qed.

Theorem setOutputConnectionType_preserves_Inv : forall g b t,
  Inv g -> node_ok_at (setOutputConnectionType g b t) (fst b) = true -> Inv (setOutputConnectionType g b t).
Proof.
  intros g b t I Hn. apply Inv_split in I. destruct I as [IS IT]. apply Inv_split. split.
  - apply setType_InvS; auto.
  - apply (types_except_finish [fst b]); [|simpl; rewrite Hn; auto].
    apply setType_types_except; simpl; auto. apply IS. apply types_except_of_ok; auto.
Qed.

(* ------------------------------------------------------------------------------------------ *)
(* Node_Signal::connectInput                                                                  *)
(* ------------------------------------------------------------------------------------------ *)
Lemma signalConnect_InvS : forall g n out,
  InvS g -> in_validb g (n, 0) = true -> osrcb g out = true -> InvS (signalConnect g n out).
Proof.
  intros g n out I Va Vo. unfold signalConnect. destruct out as [b|].
  - destruct (otype g b) as [pt|] eqn:Tb; auto. destruct (otype g (n, 0)) as [my|] eqn:Tn; auto.
    destruct (cons g (n, 0)) eqn:C.
    + destruct (setType_eframe_but_types g (n, 0) pt) as (D & C' & R & G & K & S & V & U & O).
      apply connect_InvS.
      * apply setType_InvS; auto.
      * rewrite V; auto.
      * simpl in *. destruct (nport_eq_dec b (n, 0)) as [->|Hb].
        -- assert (pt = my) by congruence. subst pt. unfold setOutputConnectionType. rewrite Tn.
           destruct (ctype_eq_dec my my); [exact Vo | congruence].
        -- rewrite out_validb_otype, O, <- out_validb_otype; auto.
    + destruct (ctype_eq_dec pt my); auto. apply connect_InvS; auto.
  - apply connect_InvS; auto.
Qed.

Lemma signalConnect_types_except : forall g n out T,
  consistent nport_eq_dec (drv g) (cons g) -> in_validb g (n, 0) = true -> osrcb g out = true ->
  In n T -> types_ok_except T g -> types_ok_except T (signalConnect g n out).
Proof.
  intros g n out T E Va Vo Hin H. unfold signalConnect. destruct out as [b|].
  - destruct (otype g b) as [pt|] eqn:Tb; auto. destruct (otype g (n, 0)) as [my|] eqn:Tn; auto.
    destruct (cons g (n, 0)) eqn:C.
    + destruct (setType_eframe_but_types g (n, 0) pt) as (D & C' & R & G & K & S & V & U & O).
      apply connect_types_except; auto.
      * eapply consistent_ext; [exact E | exact D |]. intros. rewrite C'. auto.
      * rewrite V; auto.
      * simpl in *. destruct (nport_eq_dec b (n, 0)) as [->|Hb].
        -- assert (pt = my) by congruence. subst pt. unfold setOutputConnectionType. rewrite Tn.
           destruct (ctype_eq_dec my my); [exact Vo | congruence].
        -- rewrite out_validb_otype, O, <- out_validb_otype; auto.
      * apply setType_types_except; auto.
    + destruct (ctype_eq_dec pt my); auto. apply connect_types_except; auto.
  - apply connect_types_except; auto.
Qed.

(* ------------------------------------------------------------------------------------------ *)
(* resizeInputs                                                                               *)
(* ------------------------------------------------------------------------------------------ *)
Definition disc_range (g : graph) (n : N) (l : list nat) : graph :=
  fold_left (fun g i => disconnectInput g (n, i)) l g.

Lemma disc_range_props : forall l g n,
  consistent nport_eq_dec (drv g) (cons g) ->
  let g1 := disc_range g n l in
  consistent nport_eq_dec (drv g1) (cons g1) /\ eframe g g1 /\ drv_le g g1 /\
  (forall i, In i l -> drv g1 (n, i) = None) /\
  (forall x, drv g x = None -> drv g1 x = None).
Proof.
  induction l as [|i r IH]; intros g n E; simpl.
  - split; auto. split; [apply eframe_refl|]. split; [apply drv_le_refl|]. split; [tauto|auto].
  - assert (E1 : consistent nport_eq_dec (drv (disconnectInput g (n, i))) (cons (disconnectInput g (n, i))))
      by (apply disconnect_consistent_any; auto).
    destruct (IH (disconnectInput g (n, i)) n E1) as (A & B & C & D & F).
    split; auto. split; [eapply eframe_trans; [apply eframe_disconnect | exact B]|].
    split; [eapply drv_le_trans; [apply drv_le_disconnect | exact C]|].
    split.
    + intros j [<-|Hj]; auto. apply F. rewrite disconnect_drv_any by auto.
      destruct (nport_eq_dec (n, i) (n, i)); congruence.
    + intros x Hx. apply F. destruct (drv_le_disconnect g (n, i) x) as [H|H]; congruence.
Qed.

Definition resize_ins g n k := upd_node g n (fun nd => with_ins nd (resize k None (n_ins nd))).

Lemma resize_ins_drv : forall g n k x,
  drv (resize_ins g n k) x = if N.eq_dec (fst x) n then (if Nat.ltb (snd x) k then drv g x else None) else drv g x.
Proof.
  intros g n k [m i]. unfold drv, resize_ins. simpl. rewrite getn_upd_node.
  destruct (N.eq_dec m n) as [->|]; auto. destruct (getn g n) as [nd|]; simpl.
  - apply nth_resize.
  - destruct (i <? k); auto.
Qed.

Lemma resize_ins_frame : forall g n k,
  (forall y, outp (resize_ins g n k) y = outp g y) /\ (forall j, req_of (resize_ins g n k) j = req_of g j) /\
  same_groups g (resize_ins g n k) /\ same_clocks g (resize_ins g n k) /\ same_skel g (resize_ins g n k).
Proof.
  intros. unfold resize_ins. repeat split; intros.
  - unfold outp. apply node_view_upd_same. reflexivity.
  - unfold req_of, option_map. apply node_view_upd_same. reflexivity.
  - unfold grp_of. apply node_view_upd_same. reflexivity.
  - unfold clk_of. apply node_view_upd_same. reflexivity.
  - unfold clk_validb. apply node_view_upd_same. reflexivity.
  - apply skeleton_upd_node. reflexivity.
Qed.

Lemma resizeInputs_unfold : forall g n k nd, getn g n = Some nd ->
  resizeInputs g n k = resize_ins (disc_range g n (seq k (length (n_ins nd) - k))) n k.
Proof. intros. unfold resizeInputs. rewrite H. reflexivity. Qed.

(* the final vector::resize changes no driver: everything beyond k was disconnected before *)
Lemma resizeInputs_drv : forall g n k nd x,
  consistent nport_eq_dec (drv g) (cons g) -> getn g n = Some nd ->
  drv (resizeInputs g n k) x = drv (disc_range g n (seq k (length (n_ins nd) - k))) x.
Proof.
  intros g n k nd x E Hn. rewrite (resizeInputs_unfold g n k nd Hn), resize_ins_drv.
  destruct (N.eq_dec (fst x) n) as [Hx|]; auto. destruct (snd x <? k) eqn:Hk; auto.
  apply Nat.ltb_ge in Hk. destruct x as [m i]. simpl in *. subst m.
  destruct (disc_range_props (seq k (length (n_ins nd) - k)) g n E) as (_ & _ & _ & D & F).
  symmetry. destruct (Nat.lt_ge_cases i (length (n_ins nd))).
  - apply D. apply in_seq. lia.
  - apply F. unfold drv. simpl. rewrite Hn. apply nth_overflow. auto.
Qed.

Lemma resizeInputs_InvS : forall g n k, InvS g -> InvS (resizeInputs g n k).
Proof.
  intros g n k I. destruct (getn g n) as [nd|] eqn:Hn; [|unfold resizeInputs; rewrite Hn; auto].
  assert (E : consistent nport_eq_dec (drv g) (cons g)) by apply I.
  destruct (disc_range_props (seq k (length (n_ins nd) - k)) g n E) as (A & B & _).
  set (g1 := disc_range g n (seq k (length (n_ins nd) - k))) in *.
  assert (I1 : InvS g1) by (apply (InvS_eframe g); auto).
  rewrite (resizeInputs_unfold g n k nd Hn). fold g1.
  destruct (resize_ins_frame g1 n k) as (O & R & G & (K1 & K2 & _) & S).
  apply (InvS_views g1); auto.
  - intros. pose proof (resizeInputs_drv g n k nd x E Hn) as Q. rewrite (resizeInputs_unfold g n k nd Hn) in Q. exact Q.
  - intros. apply cons_same_outp. auto.
Qed.

Lemma resizeInputs_types_except : forall g n k T,
  consistent nport_eq_dec (drv g) (cons g) -> types_ok_except T g -> types_ok_except T (resizeInputs g n k).
Proof.
  intros g n k T E H. destruct (getn g n) as [nd|] eqn:Hn; [|unfold resizeInputs; rewrite Hn; auto].
  destruct (disc_range_props (seq k (length (n_ins nd) - k)) g n E) as (A & B & C & _).
  destruct (resize_ins_frame (disc_range g n (seq k (length (n_ins nd) - k))) n k) as (O & R & _).
  apply (types_except_le g); auto.
  - intros x. rewrite (resizeInputs_drv g n k nd x E Hn). apply C.
  - destruct B as ((Bo & Br) & _). rewrite (resizeInputs_unfold g n k nd Hn). split; intros.
    + rewrite (otype_same_outp _ _ y (O y)). apply Bo.
    + rewrite R. apply Br.
Qed.

Lemma resizeInputs_drv_le : forall g n k, consistent nport_eq_dec (drv g) (cons g) -> drv_le g (resizeInputs g n k).
Proof.
  intros g n k E x. destruct (getn g n) as [nd|] eqn:Hn; [|unfold resizeInputs; rewrite Hn; auto].
  rewrite (resizeInputs_drv g n k nd x E Hn).
  destruct (disc_range_props (seq k (length (n_ins nd) - k)) g n E) as (_ & _ & C & _). apply C.
Qed.

(* after resizeInputs(0) no input of n is connected *)
Lemma resizeInputs_0_drv : forall g n i, consistent nport_eq_dec (drv g) (cons g) -> drv (resizeInputs g n 0) (n, i) = None.
Proof.
  intros g n i E. destruct (getn g n) as [nd|] eqn:Hn.
  - rewrite (resizeInputs_unfold g n 0 nd Hn), resize_ins_drv. simpl. destruct (N.eq_dec n n); congruence.
  - unfold resizeInputs. rewrite Hn. unfold drv. simpl. rewrite Hn. auto.
Qed.

(* ------------------------------------------------------------------------------------------ *)
(* resizeOutputs                                                                              *)
(* ------------------------------------------------------------------------------------------ *)
Definition drain_range (g : graph) (n : N) (l : list nat) : graph :=
  fold_left (fun g p => drain (length (cons g (n, p))) g (n, p)) l g.

Lemma drain_range_props : forall l g n,
  consistent nport_eq_dec (drv g) (cons g) ->
  let g1 := drain_range g n l in
  consistent nport_eq_dec (drv g1) (cons g1) /\ eframe g g1 /\ drv_le g g1 /\
  (forall p, In p l -> cons g1 (n, p) = []) /\
  (forall y, cons g y = [] -> cons g1 y = []).
Proof.
  induction l as [|p r IH]; intros g n E; simpl.
  - split; auto. split; [apply eframe_refl|]. split; [apply drv_le_refl|]. split; [tauto|auto].
  - set (g0 := drain (length (cons g (n, p))) g (n, p)).
    assert (E0 : consistent nport_eq_dec (drv g0) (cons g0)) by (apply drain_consistent; auto).
    destruct (IH g0 n E0) as (A & B & C & D & F).
    split; auto. split; [eapply eframe_trans; [apply eframe_drain | exact B]|].
    split; [eapply drv_le_trans; [apply drv_le_drain | exact C]|].
    split.
    + intros q [<-|Hq]; auto. apply F. apply drain_empty; auto.
    + intros y Hy. apply F. apply drain_cons_other; auto.
Qed.

Definition resize_outs g n k := upd_node g n (fun nd => with_outs nd (resize k (mkOut default_ctype []) (n_outs nd))).

Lemma resize_outs_outp : forall g n k nd y, getn g n = Some nd ->
  outp (resize_outs g n k) y =
  if N.eq_dec (fst y) n
  then (if Nat.ltb (snd y) k then (if Nat.ltb (snd y) (length (n_outs nd)) then outp g y else Some (mkOut default_ctype [])) else None)
  else outp g y.
Proof.
  intros g n k nd [m p] Hn. unfold outp, resize_outs. simpl. rewrite getn_upd_node.
  destruct (N.eq_dec m n) as [->|]; auto. rewrite Hn. simpl. apply nth_error_resize.
Qed.

Lemma resize_outs_frame : forall g n k,
  (forall x, drv (resize_outs g n k) x = drv g x) /\ (forall j, req_of (resize_outs g n k) j = req_of g j) /\
  same_groups g (resize_outs g n k) /\ same_clocks g (resize_outs g n k) /\ same_skel g (resize_outs g n k).
Proof.
  intros. unfold resize_outs. repeat split; intros.
  - unfold drv. apply node_view_upd_same. reflexivity.
  - unfold req_of, option_map. apply node_view_upd_same. reflexivity.
  - unfold grp_of. apply node_view_upd_same. reflexivity.
  - unfold clk_of. apply node_view_upd_same. reflexivity.
  - unfold clk_validb. apply node_view_upd_same. reflexivity.
  - apply skeleton_upd_node. reflexivity.
Qed.

Lemma resizeOutputs_unfold : forall g n k nd, getn g n = Some nd ->
  resizeOutputs g n k = resize_outs (drain_range g n (seq k (length (n_outs nd) - k))) n k.
Proof. intros. unfold resizeOutputs. rewrite H. reflexivity. Qed.

Lemma getn_eframe_outs_len : forall g g' n nd nd', eframe g g' -> getn g n = Some nd -> getn g' n = Some nd' ->
  length (n_outs nd') = length (n_outs nd).
Proof.
  intros g g' n nd nd' F H H'.
  assert (V : forall p, out_validb g' (n, p) = out_validb g (n, p)) by (intros; apply eframe_out_validb; auto).
  unfold out_validb, outp in V. simpl in V. rewrite H, H' in V.
  destruct (Nat.lt_trichotomy (length (n_outs nd')) (length (n_outs nd))) as [L|[L|L]]; auto; exfalso.
  - specialize (V (length (n_outs nd'))).
    assert (A : nth_error (n_outs nd') (length (n_outs nd')) = None) by (apply nth_error_None; lia).
    assert (B : nth_error (n_outs nd) (length (n_outs nd')) <> None) by (apply nth_error_Some; lia).
    rewrite A in V. destruct (nth_error (n_outs nd) (length (n_outs nd'))); [discriminate|congruence].
  - specialize (V (length (n_outs nd))).
    assert (A : nth_error (n_outs nd) (length (n_outs nd)) = None) by (apply nth_error_None; lia).
    assert (B : nth_error (n_outs nd') (length (n_outs nd)) <> None) by (apply nth_error_Some; lia).
    rewrite A in V. destruct (nth_error (n_outs nd') (length (n_outs nd))); [discriminate|congruence].
Qed.

Lemma live_eframe : forall g g' n, eframe g g' -> liveb g' n = liveb g n.
Proof. intros. apply liveb_skel. apply eframe_skel; auto. Qed.

(* the final vector::resize changes no consumer list: everything beyond k was drained before *)
Lemma resizeOutputs_cons : forall g n k nd y,
  consistent nport_eq_dec (drv g) (cons g) -> getn g n = Some nd ->
  cons (resizeOutputs g n k) y = cons (drain_range g n (seq k (length (n_outs nd) - k))) y.
Proof.
  intros g n k nd y E Hn. rewrite (resizeOutputs_unfold g n k nd Hn).
  destruct (drain_range_props (seq k (length (n_outs nd) - k)) g n E) as (_ & B & _ & D & F).
  set (g1 := drain_range g n (seq k (length (n_outs nd) - k))) in *.
  assert (L1 : liveb g1 n = true) by (rewrite (live_eframe g); auto; unfold liveb; rewrite Hn; auto).
  unfold liveb in L1. destruct (getn g1 n) as [nd1|] eqn:Hn1; [|discriminate].
  assert (Len : length (n_outs nd1) = length (n_outs nd)) by (eapply getn_eframe_outs_len; eauto).
  unfold cons at 1. rewrite (resize_outs_outp g1 n k nd1 y Hn1).
  destruct (N.eq_dec (fst y) n) as [Hy|]; auto. destruct y as [m p]. simpl in *. subst m.
  destruct (p <? k) eqn:Hk.
  - destruct (p <? length (n_outs nd1)) eqn:Hl; auto.
    apply Nat.ltb_ge in Hl. simpl. symmetry. apply F.
    unfold cons, outp. simpl. rewrite Hn. destruct (nth_error (n_outs nd) p) eqn:X; auto.
    assert (p < length (n_outs nd)) by (apply nth_error_Some; congruence). lia.
  - apply Nat.ltb_ge in Hk. symmetry. destruct (Nat.lt_ge_cases p (length (n_outs nd))).
    + apply D. apply in_seq. lia.
    + apply F. unfold cons, outp. simpl. rewrite Hn. destruct (nth_error (n_outs nd) p) eqn:X; auto.
      assert (p < length (n_outs nd)) by (apply nth_error_Some; congruence). lia.
Qed.

Lemma resizeOutputs_InvS : forall g n k, InvS g -> InvS (resizeOutputs g n k).
Proof.
  intros g n k I. destruct (getn g n) as [nd|] eqn:Hn; [|unfold resizeOutputs; rewrite Hn; auto].
  assert (E : consistent nport_eq_dec (drv g) (cons g)) by apply I.
  destruct (drain_range_props (seq k (length (n_outs nd) - k)) g n E) as (A & B & _).
  set (g1 := drain_range g n (seq k (length (n_outs nd) - k))) in *.
  assert (I1 : InvS g1) by (apply (InvS_eframe g); auto).
  destruct (resize_outs_frame g1 n k) as (D & R & G & (K1 & K2 & _) & S).
  rewrite (resizeOutputs_unfold g n k nd Hn). fold g1.
  apply (InvS_views g1); auto.
  intros. pose proof (resizeOutputs_cons g n k nd y E Hn) as Q. rewrite (resizeOutputs_unfold g n k nd Hn) in Q. exact Q.
Qed.

Lemma resizeOutputs_drv_le : forall g n k, consistent nport_eq_dec (drv g) (cons g) -> drv_le g (resizeOutputs g n k).
Proof.
  intros g n k E x. destruct (getn g n) as [nd|] eqn:Hn; [|unfold resizeOutputs; rewrite Hn; auto].
  destruct (drain_range_props (seq k (length (n_outs nd) - k)) g n E) as (_ & _ & C & _).
  rewrite (resizeOutputs_unfold g n k nd Hn). destruct (resize_outs_frame (drain_range g n (seq k (length (n_outs nd) - k))) n k) as (D & _).
  rewrite D. apply C.
Qed.

Lemma resizeOutputs_types_except : forall g n k T,
  consistent nport_eq_dec (drv g) (cons g) -> In n T ->
  types_ok_except T g -> types_ok_except T (resizeOutputs g n k).
Proof.
  intros g n k T E Hin H. destruct (getn g n) as [nd|] eqn:Hn; [|unfold resizeOutputs; rewrite Hn; auto].
  destruct (drain_range_props (seq k (length (n_outs nd) - k)) g n E) as (A & B & C & _).
  set (g1 := drain_range g n (seq k (length (n_outs nd) - k))) in *.
  assert (H1 : types_ok_except T g1) by (apply (types_except_le g); auto; apply B).
  assert (L1 : liveb g1 n = true) by (rewrite (live_eframe g); auto; unfold liveb; rewrite Hn; auto).
  unfold liveb in L1. destruct (getn g1 n) as [nd1|] eqn:Hn1; [|discriminate].
  destruct (resize_outs_frame g1 n k) as (D & R & _).
  rewrite (resizeOutputs_unfold g n k nd Hn). fold g1.
  assert (O : forall y, fst y <> n -> otype (resize_outs g1 n k) y = otype g1 y).
  { intros y Hy. unfold otype. rewrite (resize_outs_outp g1 n k nd1 y Hn1). destruct (N.eq_dec (fst y) n); congruence. }
  apply (types_except_unused g1 _ T); auto.
  - intros x. right. apply D.
  - intros y Hy. destruct (N.eq_dec (fst y) n) as [Hyn|]; [|apply O; auto].
    (* an output of n that still has consumers after draining is below k and existed before *)
    pose proof (resizeOutputs_cons g n k nd y E Hn) as RC. fold g1 in RC.
    rewrite (resizeOutputs_unfold g n k nd Hn) in RC. fold g1 in RC.
    unfold otype. rewrite (resize_outs_outp g1 n k nd1 y Hn1).
    destruct (N.eq_dec (fst y) n); [|congruence].
    assert (Vy : out_validb g1 y = true) by (apply cons_nonempty_valid; auto).
    unfold cons in RC at 1. rewrite (resize_outs_outp g1 n k nd1 y Hn1) in RC.
    destruct (N.eq_dec (fst y) n); [|congruence].
    destruct (snd y <? k).
    + destruct (snd y <? length (n_outs nd1)) eqn:Hl; auto.
      apply Nat.ltb_ge in Hl. unfold out_validb, outp in Vy. rewrite e, Hn1 in Vy.
      destruct (nth_error (n_outs nd1) (snd y)) eqn:X; [|discriminate].
      assert (snd y < length (n_outs nd1)) by (apply nth_error_Some; congruence). lia.
    + simpl in RC. congruence.
  - intros m Hm. right. split; auto. intros o. apply O. simpl. intros ->. auto.
Qed.

(* after resizeOutputs(0) no output of n has a consumer *)
Lemma resizeOutputs_0_cons : forall g n p, consistent nport_eq_dec (drv g) (cons g) -> cons (resizeOutputs g n 0) (n, p) = [].
Proof.
  intros g n p E. destruct (getn g n) as [nd|] eqn:Hn.
  - rewrite (resizeOutputs_cons g n 0 nd (n, p) E Hn).
    destruct (drain_range_props (seq 0 (length (n_outs nd) - 0)) g n E) as (_ & _ & _ & D & F).
    destruct (Nat.lt_ge_cases p (length (n_outs nd))).
    + apply D. apply in_seq. lia.
    + apply F. unfold cons, outp. simpl. rewrite Hn. destruct (nth_error (n_outs nd) p) eqn:X; auto.
      assert (p < length (n_outs nd)) by (apply nth_error_Some; congruence). lia.
  - unfold resizeOutputs. rewrite Hn. unfold cons, outp. simpl. rewrite Hn. auto.
Qed.
