(* C18 -- proofs, part 9: mergeUndefinedSelection (a bit loop that rewrites the DEFINED plane). *)
From Coq Require Import List NArith ZArith Bool Lia.
From Gatery Require Import Bits BvsDefs BvsSpec BvsLeaf BvsWords BvsCopy BvsAbs BvsOps BvsEq BvsQuery BvsCmp.
Import ListNotations.
Ltac Zify.zify_post_hook ::= Z.to_euclidean_division_equations.
Local Open Scope N_scope.

Lemma nrange_0_succ k : nrange 0 (N.of_nat (S k)) = nrange 0 (N.of_nat k) ++ [N.of_nat k].
Proof.
  rewrite (nrange_app 0 (N.of_nat k) (N.of_nat (S k))) by lia. f_equal.
  unfold nrange. replace (N.to_nat (N.of_nat (S k) - N.of_nat k)) with 1%nat by lia. reflexivity.
Qed.

Lemma plane_on_plane_same s p f :
  (p < length (planes s))%nat -> plane (on_plane s p f) p = f (plane s p).
Proof. intro H. unfold plane, on_plane. cbn [planes]. apply nth_upd_nat_same. exact H. Qed.

Lemma plane_on_plane_other s p q f : q <> p -> plane (on_plane s p f) q = plane s q.
Proof. intro H. unfold plane, on_plane. cbn [planes]. apply nth_upd_nat_other. exact H. Qed.

Lemma length_planes_on_plane s p f : length (planes (on_plane s p f)) = length (planes s).
Proof. unfold on_plane. cbn [planes]. apply length_upd_nat. Qed.

Section Merge.
Variables (dst src : bvs) (sd ss : N).
Hypothesis (Hwd : wf dst) (Hcd : clean dst) (Hws : wf src).
Hypothesis (Hpd : (DEFINED < length (planes dst))%nat) (Hps : (DEFINED < length (planes src))%nat).

Definition mbit (j : N) : bool :=
  wbit (plane dst DEFINED) j && wbit (plane src DEFINED) (ss + (j - sd))
  && Bool.eqb (wbit (plane dst VALUE) j) (wbit (plane src VALUE) (ss + (j - sd))).

Definition merge_inv (k : nat) (r : bvs) : Prop :=
  wf r /\ clean r /\ bsize r = bsize dst /\ length (planes r) = length (planes dst) /\
  (forall p, p <> DEFINED -> plane r p = plane dst p) /\
  (forall j, wbit (plane r DEFINED) j
             = if (sd <=? j) && (j <? sd + N.of_nat k) then mbit j else wbit (plane dst DEFINED) j).

Lemma merge_fold k :
  sd + N.of_nat k <= bsize dst ->
  merge_inv k (fold_left (mergeStep src sd ss) (nrange 0 (N.of_nat k)) dst).
Proof.
  induction k as [|k IH]; intro Hin.
  - cbn. unfold merge_inv. repeat split; auto. intro j.
    destruct (N.leb_spec sd j); bsimpl; [|reflexivity].
    destruct (N.ltb_spec j (sd + N.of_nat 0)); [lia | reflexivity].
  - rewrite nrange_0_succ, fold_left_app. cbn [fold_left].
    set (r := fold_left (mergeStep src sd ss) (nrange 0 (N.of_nat k)) dst).
    destruct (IH ltac:(lia)) as (Wr & Cr & Sr & Lr & Pr & Br). fold r in Wr, Cr, Sr, Lr, Pr, Br.
    assert (Hpr : (DEFINED < length (planes r))%nat) by (rewrite Lr; exact Hpd).
    assert (G1 : get r DEFINED (sd + N.of_nat k) = wbit (plane dst DEFINED) (sd + N.of_nat k)).
    { unfold get. rewrite bitExtract_wbit, Br.
      destruct (N.leb_spec sd (sd + N.of_nat k)); [|lia].
      destruct (N.ltb_spec (sd + N.of_nat k) (sd + N.of_nat k)); [lia | reflexivity]. }
    assert (G2 : get r VALUE (sd + N.of_nat k) = wbit (plane dst VALUE) (sd + N.of_nat k)).
    { unfold get. rewrite bitExtract_wbit, Pr by (unfold VALUE, DEFINED; lia). reflexivity. }
    assert (KEEP : forall j, j <> sd + N.of_nat k ->
              (if (sd <=? j) && (j <? sd + N.of_nat k) then mbit j else wbit (plane dst DEFINED) j)
              = (if (sd <=? j) && (j <? sd + N.of_nat (S k)) then mbit j else wbit (plane dst DEFINED) j)).
    { intros j Hj. cmp_cases; bool_close. }
    assert (AT : mbit (sd + N.of_nat k)
                 = wbit (plane dst DEFINED) (sd + N.of_nat k) && get src DEFINED (ss + N.of_nat k)
                   && Bool.eqb (wbit (plane dst VALUE) (sd + N.of_nat k)) (get src VALUE (ss + N.of_nat k))).
    { unfold mbit, get. rewrite !bitExtract_wbit.
      replace (ss + (sd + N.of_nat k - sd)) with (ss + N.of_nat k) by lia. reflexivity. }
    unfold mergeStep. rewrite G1, G2.
    destruct (wbit (plane dst DEFINED) (sd + N.of_nat k)) eqn:ED.
    + destruct (negb (get src DEFINED (ss + N.of_nat k))
                || negb (Bool.eqb (wbit (plane dst VALUE) (sd + N.of_nat k)) (get src VALUE (ss + N.of_nat k)))) eqn:EC.
      * (* the bit is cleared *)
        unfold setb, clear1.
        pose proof (wfP_plane r DEFINED Wr Hpr) as Hw. pose proof (wfP_in _ _ Hw).
        repeat split.
        -- apply (wf_clear1 r DEFINED (sd + N.of_nat k) Wr).
        -- apply (clean_clear1 r DEFINED (sd + N.of_nat k) Wr Cr). lia.
        -- exact Sr.
        -- rewrite length_planes_on_plane. exact Lr.
        -- intros p Hp. rewrite plane_on_plane_other by exact Hp. apply Pr. exact Hp.
        -- intro j. rewrite plane_on_plane_same by exact Hpr.
           rewrite wbit_bitClear; [| apply Hw | lia].
           destruct (N.eqb_spec j (sd + N.of_nat k)) as [-> | Hne].
           ++ destruct (N.leb_spec sd (sd + N.of_nat k)); [|lia].
              destruct (N.ltb_spec (sd + N.of_nat k) (sd + N.of_nat (S k))); [|lia]. cbn [andb].
              rewrite AT. cbn [andb].
              destruct (get src DEFINED (ss + N.of_nat k)); cbn [negb orb andb] in *; [|reflexivity].
              destruct (Bool.eqb _ _); [discriminate | reflexivity].
           ++ rewrite Br. apply KEEP. exact Hne.
      * repeat split; auto. intro j. rewrite Br.
        destruct (N.eq_dec j (sd + N.of_nat k)) as [-> | Hne]; [|apply KEEP; exact Hne].
        destruct (N.leb_spec sd (sd + N.of_nat k)); [|lia].
        destruct (N.ltb_spec (sd + N.of_nat k) (sd + N.of_nat (S k))); [|lia].
        destruct (N.ltb_spec (sd + N.of_nat k) (sd + N.of_nat k)); [lia|]. cbn [andb].
        rewrite AT, ED. cbn [andb].
        destruct (get src DEFINED (ss + N.of_nat k)); cbn [negb orb] in EC; [|discriminate].
        destruct (Bool.eqb _ _); [reflexivity | discriminate].
    + repeat split; auto. intro j. rewrite Br.
      destruct (N.eq_dec j (sd + N.of_nat k)) as [-> | Hne]; [|apply KEEP; exact Hne].
      destruct (N.leb_spec sd (sd + N.of_nat k)); [|lia].
      destruct (N.ltb_spec (sd + N.of_nat k) (sd + N.of_nat (S k))); [|lia].
      destruct (N.ltb_spec (sd + N.of_nat k) (sd + N.of_nat k)); [lia|]. cbn [andb].
      rewrite AT, ED. reflexivity.
Qed.
End Merge.

Lemma nth_map_seq {A} (f : nat -> A) n k d : (k < n)%nat -> nth k (map f (seq 0 n)) d = f k.
Proof.
  intro H. rewrite (nth_indep _ d (f 0%nat)) by (rewrite map_length, seq_length; lia).
  rewrite map_nth, seq_nth by lia. reflexivity.
Qed.

Theorem merge_all dst sd src ss size :
  wf dst -> clean dst -> wf src ->
  (DEFINED < length (planes dst))%nat -> (DEFINED < length (planes src))%nat ->
  sd + size <= bsize dst -> ss + size <= bsize src ->
  let r := mergeUndefinedSelection dst sd src ss size in
  wf r /\ clean r /\ bsize r = bsize dst /\ length (planes r) = length (planes dst)
  /\ abs r = merge_spec (abs dst) sd (abs src) ss size.
Proof.
  intros Hwd Hcd Hws Hpd Hps Hd Hs r.
  pose proof (merge_fold dst src sd ss Hwd Hcd Hpd Hps (N.to_nat size) ltac:(lia)) as M.
  rewrite N2Nat.id in M. fold (mergeUndefinedSelection dst sd src ss size) in M. fold r in M.
  destruct M as (Wr & Cr & Sr & Lr & Pr & Br).
  rewrite N2Nat.id in Br.
  repeat split; auto.
  unfold merge_spec, on_splane.
  apply (nth_ext _ _ [] []).
  - rewrite length_upd_nat. unfold abs. rewrite !map_length. exact Lr.
  - intros p Hp. unfold abs in Hp. rewrite map_length in Hp.
    rewrite nth_upd_nat. unfold abs at 2. rewrite map_length.
    fold (splane (abs r) p). fold (splane (abs dst) p).
    rewrite splane_abs by exact Hp.
    destruct (Nat.eqb_spec p DEFINED) as [-> | Hne]; cbn [andb].
    + destruct (Nat.ltb_spec DEFINED (length (planes dst))); [|lia].
      rewrite Sr. unfold VALUE, DEFINED in *. rewrite !splane_abs by lia.
      apply absP_splice.
      * rewrite map_length, seq_length. lia.
      * intros j Hj. rewrite map_length, seq_length, N2Nat.id. rewrite Br.
        destruct ((sd <=? j) && (j <? sd + size)) eqn:E; [|reflexivity].
        split_cond E. rewrite nth_map_seq by lia.
        replace (N.to_nat sd + N.to_nat (j - sd))%nat with (N.to_nat j) by lia.
        replace (N.to_nat ss + N.to_nat (j - sd))%nat with (N.to_nat (ss + (j - sd))) by lia.
        rewrite !nth_absP_N by lia. reflexivity.
    + rewrite Sr, Pr by exact Hne. symmetry. apply splane_abs. rewrite <- Lr. exact Hp.
Qed.
