(* C18 -- proofs, part 5: abs (op s args) = op_spec (abs s) args  for the core operations
   (resize, get/set/clear/toggle, setRange, insert/extract word, non-straddling variants,
   copyRange, extract(state), insert(state), append, operator==). *)
From Coq Require Import List NArith ZArith Bool Lia.
From Gatery Require Import BvsDefs BvsSpec BvsLeaf BvsWords BvsCopy BvsAbs.
Import ListNotations.
Ltac Zify.zify_post_hook ::= Z.to_euclidean_division_equations.
Local Open Scope N_scope.

Lemma nth_app_if {A} (a b : list A) i d :
  nth i (a ++ b) d = if Nat.ltb i (length a) then nth i a d else nth (i - length a) b d.
Proof.
  destruct (Nat.ltb_spec i (length a)); [apply app_nth1 | apply app_nth2]; lia.
Qed.

Lemma nth_repeat_if {A} (x : A) n i d : nth i (repeat x n) d = if Nat.ltb i n then x else d.
Proof.
  destruct (Nat.ltb_spec i n).
  - revert i H; induction n as [|n IH]; intros [|i] H; simpl; try lia; auto. apply IH. lia.
  - apply nth_overflow. rewrite repeat_length. lia.
Qed.

Lemma wfP_length sz w w' : wfP sz w -> length w' = length w -> wordsok w' -> wfP sz w'.
Proof. intros [H _] Hl Hw. split; [unfold wlen in *; rewrite Hl; exact H | exact Hw]. Qed.

(* ------------------------------------------------------------------ *)
(* resize                                                              *)
(* ------------------------------------------------------------------ *)
Lemma wfP_resizeP n w : wordsok w -> wfP n (resizeP n w).
Proof.
  intro H. split.
  - unfold wlen. rewrite length_resizeP. lia.
  - apply wordsok_resizeP. exact H.
Qed.

Theorem wf_resize s n : wf s -> wf (resize s n).
Proof.
  intro H. unfold wf, resize. cbn [bsize planes]. apply Forall_map.
  eapply Forall_impl; [|exact H]. intros w [_ Hw]. apply wfP_resizeP. exact Hw.
Qed.

Theorem clean_resize s n : wf s -> clean (resize s n).
Proof.
  intro H. unfold clean, resize. cbn [bsize planes]. apply Forall_map.
  eapply Forall_impl; [|exact H]. intros w [_ Hw] i Hi. rewrite wbit_resizeP by exact Hw.
  destruct (N.ltb_spec i n); [lia | reflexivity].
Qed.

Lemma absP_resizeP sz n w :
  wfP sz w -> cleanP sz w ->
  absP n (resizeP n w) = firstn (N.to_nat n) (absP sz w) ++ repeat false (N.to_nat n - length (absP sz w)).
Proof.
  intros [Hl Hw] Hc. apply absP_eq.
  - rewrite app_length, firstn_length, repeat_length, length_absP. lia.
  - intros i Hi. rewrite wbit_resizeP by exact Hw.
    destruct (N.ltb_spec i n); [|lia]. bsimpl.
    rewrite nth_app_if, firstn_length, length_absP.
    destruct (Nat.ltb_spec (N.to_nat i) (Nat.min (N.to_nat n) (N.to_nat sz))).
    + rewrite nth_firstn_if. destruct (Nat.ltb_spec (N.to_nat i) (N.to_nat n)); [|lia].
      apply nth_absP_N. lia.
    + rewrite nth_repeat_if. rewrite Hc by lia.
      destruct (Nat.ltb _ _); reflexivity.
Qed.

(* new bits are zero: this needs the tail of the last word to be clean, which resize itself
   establishes and every operation below preserves *)
Theorem abs_resize s n : wf s -> clean s -> abs (resize s n) = resize_spec (abs s) n.
Proof.
  intros H Hc. unfold abs, resize, resize_spec. cbn [bsize planes]. rewrite !map_map.
  apply map_ext_in. intros w Hin.
  apply absP_resizeP.
  - eapply Forall_forall; [exact H | exact Hin].
  - eapply Forall_forall; [exact Hc | exact Hin].
Qed.

(* without the cleanliness assumption: the surviving prefix is untouched *)
Theorem abs_resize_prefix s n :
  wf s ->
  map (firstn (N.to_nat (N.min n (bsize s)))) (abs (resize s n))
  = map (firstn (N.to_nat (N.min n (bsize s)))) (abs s).
Proof.
  intro H. unfold abs, resize. cbn [bsize planes]. rewrite !map_map.
  apply map_ext_in. intros w Hin.
  assert (Hw : wordsok w) by (eapply Forall_forall in H; [destruct H; eassumption | exact Hin]).
  apply list_bool_ext.
  - rewrite !firstn_length, !length_absP. lia.
  - intros i Hi. rewrite firstn_length, length_absP in Hi.
    rewrite !nth_firstn_if. destruct (Nat.ltb_spec i (N.to_nat (N.min n (bsize s)))); [|reflexivity].
    rewrite !nth_absP, wbit_resizeP by exact Hw.
    destruct (Nat.ltb_spec i (N.to_nat n)), (Nat.ltb_spec i (N.to_nat (bsize s))),
             (N.ltb_spec (N.of_nat i) n); try lia. reflexivity.
Qed.

(* ------------------------------------------------------------------ *)
(* single bits                                                         *)
(* ------------------------------------------------------------------ *)
Theorem get_abs s p i :
  (p < length (planes s))%nat -> i < bsize s -> get s p i = get_spec (abs s) p i.
Proof.
  intros Hp Hi. unfold get, get_spec. rewrite bitExtract_wbit, splane_abs by exact Hp.
  symmetry. apply nth_absP_N. exact Hi.
Qed.

Lemma absP_single sz w w' i (b : bool) :
  i < sz -> (forall j, wbit w' j = if j =? i then b else wbit w j) ->
  absP sz w' = splice (N.to_nat i) [b] (absP sz w).
Proof.
  intros Hi H. apply absP_splice.
  - simpl. lia.
  - intros j Hj. rewrite H. cbn [length].
    destruct (N.eqb_spec j i) as [-> | Hne].
    + destruct (N.leb_spec i i); [|lia]. destruct (N.ltb_spec i (i + N.of_nat 1)); [|lia]. bsimpl.
      replace (N.to_nat (i - i)) with 0%nat by lia. reflexivity.
    + cmp_cases; bool_close.
Qed.

Theorem abs_set1 s p i : wf s -> i < bsize s -> abs (set1 s p i) = setb_spec (abs s) p i true.
Proof.
  intros H Hi. unfold set1, setb_spec. apply abs_on_plane. intro Hp.
  pose proof (wfP_plane s p H Hp) as Hw. pose proof (wfP_in _ _ Hw).
  apply absP_single; [exact Hi|]. intro j. apply wbit_bitSet. lia.
Qed.

Theorem abs_clear1 s p i : wf s -> i < bsize s -> abs (clear1 s p i) = setb_spec (abs s) p i false.
Proof.
  intros H Hi. unfold clear1, setb_spec. apply abs_on_plane. intro Hp.
  pose proof (wfP_plane s p H Hp) as Hw. pose proof (wfP_in _ _ Hw).
  apply absP_single; [exact Hi|]. intro j. apply wbit_bitClear; [apply Hw | lia].
Qed.

Theorem abs_setb s p i b : wf s -> i < bsize s -> abs (setb s p i b) = setb_spec (abs s) p i b.
Proof. intros H Hi. unfold setb. destruct b; [apply abs_set1 | apply abs_clear1]; assumption. Qed.

Theorem abs_toggle s p i : wf s -> i < bsize s -> abs (toggle s p i) = toggle_spec (abs s) p i.
Proof.
  intros H Hi. unfold toggle, toggle_spec. apply abs_on_plane. intro Hp.
  pose proof (wfP_plane s p H Hp) as Hw. pose proof (wfP_in _ _ Hw).
  rewrite nth_absP_N by exact Hi.
  apply absP_single; [exact Hi|]. intro j. rewrite wbit_bitToggle by lia.
  destruct (N.eqb_spec j i) as [-> | ]; reflexivity.
Qed.

Theorem wf_set1 s p i : wf s -> wf (set1 s p i).
Proof.
  intro H. apply wf_on_plane; [exact H|]. intro Hw.
  eapply wfP_length; [exact Hw | apply length_bitSet | apply wordsok_bitSet; apply Hw].
Qed.
Theorem wf_clear1 s p i : wf s -> wf (clear1 s p i).
Proof.
  intro H. apply wf_on_plane; [exact H|]. intro Hw.
  eapply wfP_length; [exact Hw | apply length_bitClear | apply wordsok_bitClear; apply Hw].
Qed.
Theorem wf_setb s p i b : wf s -> wf (setb s p i b).
Proof. intro H. unfold setb. destruct b; [apply wf_set1 | apply wf_clear1]; exact H. Qed.
Theorem wf_toggle s p i : wf s -> wf (toggle s p i).
Proof.
  intro H. apply wf_on_plane; [exact H|]. intro Hw.
  eapply wfP_length; [exact Hw | apply length_bitToggle | apply wordsok_bitToggle; apply Hw].
Qed.

(* ------------------------------------------------------------------ *)
(* setRange / clearRange                                               *)
(* ------------------------------------------------------------------ *)
Theorem abs_setRange s p off size b :
  wf s -> off + size <= bsize s ->
  abs (setRange s p off size b) = setRange_spec (abs s) p off size b.
Proof.
  intros H Hin. unfold setRange, setRange_spec. apply abs_on_plane. intro Hp.
  pose proof (wfP_plane s p H Hp) as Hw. pose proof (wfP_in _ _ Hw).
  apply absP_splice.
  - rewrite repeat_length. lia.
  - intros i Hi. rewrite repeat_length, N2Nat.id.
    rewrite wbit_setRangeP; [| apply Hw | lia].
    destruct ((off <=? i) && (i <? off + size)) eqn:E; [|reflexivity].
    split_cond E. rewrite nth_repeat_if.
    destruct (Nat.ltb_spec (N.to_nat (i - off)) (N.to_nat size)); [reflexivity | lia].
Qed.

Theorem wf_setRange s p off size b : wf s -> wf (setRange s p off size b).
Proof.
  intro H. apply wf_on_plane; [exact H|]. intro Hw.
  eapply wfP_length; [exact Hw | apply length_setRangeP | apply wordsok_setRangeP; apply Hw].
Qed.

(* ------------------------------------------------------------------ *)
(* insert / extract of up to 64 bits                                   *)
(* ------------------------------------------------------------------ *)
Lemma absP_insert_bits sz w w' off size v :
  off + size <= sz ->
  (forall i, wbit w' i = if (off <=? i) && (i <? off + size) then N.testbit v (i - off) else wbit w i) ->
  absP sz w' = splice (N.to_nat off) (bits_of_N (N.to_nat size) v) (absP sz w).
Proof.
  intros Hin H. apply absP_splice.
  - rewrite length_bits_of_N. lia.
  - intros i Hi. rewrite length_bits_of_N, N2Nat.id, H.
    destruct ((off <=? i) && (i <? off + size)) eqn:E; [|reflexivity].
    split_cond E. rewrite nth_bits_of_N, N2Nat.id.
    destruct (Nat.ltb_spec (N.to_nat (i - off)) (N.to_nat size)); [reflexivity | lia].
Qed.

Theorem abs_insertW s p off size v :
  wf s -> size <= 64 -> off + size <= bsize s ->
  abs (insertW s p off size v) = insertW_spec (abs s) p off size v.
Proof.
  intros H Hsz Hin. unfold insertW, insertW_spec. apply abs_on_plane. intro Hp.
  pose proof (wfP_plane s p H Hp) as Hw. pose proof (wfP_in _ _ Hw).
  apply absP_insert_bits; [exact Hin|]. intro i.
  apply wbit_insertWP; [apply Hw | exact Hsz | lia].
Qed.

Theorem abs_insertNS s p off size v :
  wf s -> off mod 64 + size <= 64 -> off + size <= bsize s ->
  abs (insertNS s p off size v) = insertW_spec (abs s) p off size v.
Proof.
  intros H Hsz Hin. unfold insertNS, insertW_spec. apply abs_on_plane. intro Hp.
  pose proof (wfP_plane s p H Hp) as Hw. pose proof (wfP_in _ _ Hw).
  apply absP_insert_bits; [exact Hin|]. intro i.
  apply wbit_insertNSP; [apply Hw | exact Hsz | lia].
Qed.

Theorem wf_insertW s p off size v : wf s -> wf (insertW s p off size v).
Proof.
  intro H. apply wf_on_plane; [exact H|]. intro Hw.
  eapply wfP_length; [exact Hw | apply length_insertWP | apply wordsok_insertWP; apply Hw].
Qed.
Theorem wf_insertNS s p off size v : wf s -> wf (insertNS s p off size v).
Proof.
  intro H. apply wf_on_plane; [exact H|]. intro Hw.
  eapply wfP_length; [exact Hw | apply length_insertNSP | apply wordsok_insertNSP; apply Hw].
Qed.

Lemma N_of_bits_slice sz w off size x :
  off + size <= sz ->
  (forall j, N.testbit x j = (j <? size) && wbit w (off + j)) ->
  x = N_of_bits (slice (N.to_nat off) (N.to_nat size) (absP sz w)).
Proof.
  intros Hin H. apply N.bits_inj. intro j.
  rewrite H, tb_N_of_bits, nth_slice_absP by exact Hin. reflexivity.
Qed.

Theorem extractW_abs s p off size :
  wf s -> (p < length (planes s))%nat -> size <= 64 -> off + size <= bsize s ->
  extractW s p off size = extractW_spec (abs s) p off size.
Proof.
  intros H Hp Hsz Hin. unfold extractW, extractW_spec. rewrite splane_abs by exact Hp.
  pose proof (wfP_plane s p H Hp) as Hw.
  apply N_of_bits_slice; [exact Hin|]. intro j. apply tb_extractWP; [apply Hw | exact Hsz].
Qed.

Theorem extractNS_abs s p off size :
  wf s -> (p < length (planes s))%nat -> off mod 64 + size <= 64 -> off + size <= bsize s ->
  extractNS s p off size = extractW_spec (abs s) p off size.
Proof.
  intros H Hp Hsz Hin. unfold extractNS, extractW_spec. rewrite splane_abs by exact Hp.
  apply N_of_bits_slice; [exact Hin|]. intro j. apply tb_extractNSP. exact Hsz.
Qed.

(* ------------------------------------------------------------------ *)
(* copyRange                                                           *)
(* ------------------------------------------------------------------ *)
Lemma absP_copy sz dw dw' szs sw dOff sOff size :
  dOff + size <= sz -> sOff + size <= szs ->
  (forall i, wbit dw' i = if (dOff <=? i) && (i <? dOff + size) then wbit sw (sOff + (i - dOff)) else wbit dw i) ->
  absP sz dw' = splice (N.to_nat dOff) (slice (N.to_nat sOff) (N.to_nat size) (absP szs sw)) (absP sz dw).
Proof.
  intros Hd Hs H.
  assert (Hl : length (slice (N.to_nat sOff) (N.to_nat size) (absP szs sw)) = N.to_nat size).
  { apply length_slice. rewrite length_absP. lia. }
  apply absP_splice.
  - rewrite Hl. lia.
  - intros i Hi. rewrite Hl, N2Nat.id, H.
    destruct ((dOff <=? i) && (i <? dOff + size)) eqn:E; [|reflexivity].
    split_cond E. rewrite nth_slice_absP by exact Hs.
    destruct (N.ltb_spec (i - dOff) size); [reflexivity | lia].
Qed.

Theorem abs_copyRange d dOff s sOff size :
  wf d -> wf s -> dOff + size <= bsize d -> sOff + size <= bsize s ->
  abs (copyRange d dOff s sOff size) = copyRange_spec (abs d) dOff (abs s) sOff size.
Proof.
  intros Hd Hs Hdi Hsi. unfold copyRange, copyRange_spec, abs. cbn [bsize planes].
  rewrite map_map2, map2_map.
  apply (map2_ext_Forall (wfP (bsize d)) (wfP (bsize s))); [exact Hd | exact Hs|].
  intros dw sw Hdw Hsw. pose proof (wfP_in _ _ Hdw).
  eapply absP_copy; [exact Hdi | exact Hsi|]. intro i.
  apply wbit_copyRangeP; [apply Hdw | apply Hsw | lia].
Qed.

Theorem wf_copyRange d dOff s sOff size : wf d -> wf s -> wf (copyRange d dOff s sOff size).
Proof.
  intros Hd Hs. unfold wf, copyRange. cbn [bsize planes].
  apply (Forall_map2 (wfP (bsize d)) (wfP (bsize s))); [exact Hd | exact Hs|].
  intros dw sw Hdw _. eapply wfP_length; [exact Hdw | apply length_copyRangeP | apply wordsok_copyRangeP; apply Hdw].
Qed.

(* ------------------------------------------------------------------ *)
(* extract(start, size): a fresh container                             *)
(* ------------------------------------------------------------------ *)
Lemma wfP_nil n : wfP n (resizeP n []).
Proof. apply wfP_resizeP. constructor. Qed.

Lemma planes_resize_empty np n :
  planes (resize (mk_empty np) n) = repeat (resizeP n []) np.
Proof.
  unfold resize, mk_empty. cbn [planes]. induction np as [|np IH]; simpl; [reflexivity|]. rewrite IH. reflexivity.
Qed.

Lemma absP_extract_bytes szs sw start size :
  wordsok sw -> start + size <= szs -> start mod 8 = 0 -> size mod 8 = 0 ->
  absP size (memcpyB (resizeP size []) 0 sw (start / 8) (N.to_nat ((size + 7) / 8)))
  = slice (N.to_nat start) (N.to_nat size) (absP szs sw).
Proof.
  intros Hs Hin Ha Hb. pose proof (wfP_nil size) as [Hl Hw].
  apply absP_eq.
  - rewrite length_slice; [reflexivity | rewrite length_absP; lia].
  - intros i Hi. rewrite nth_slice_absP by exact Hin.
    destruct (N.ltb_spec i size); [|lia]. bsimpl.
    rewrite wbit_memcpyB; [| exact Hw | rewrite N2Nat.id; lia]. rewrite N2Nat.id.
    destruct (N.leb_spec (8 * 0) i); [|lia].
    destruct (N.ltb_spec i (8 * (0 + (size + 7) / 8))); [|lia]. bsimpl.
    f_equal. lia.
Qed.

Lemma absP_extract_copy szs sw start size :
  wordsok sw -> start + size <= szs ->
  absP size (copyRangeP (resizeP size []) 0 sw start size)
  = slice (N.to_nat start) (N.to_nat size) (absP szs sw).
Proof.
  intros Hs Hin. pose proof (wfP_nil size) as [Hl Hw].
  apply absP_eq.
  - rewrite length_slice; [reflexivity | rewrite length_absP; lia].
  - intros i Hi. rewrite nth_slice_absP by exact Hin.
    destruct (N.ltb_spec i size); [|lia]. bsimpl.
    rewrite wbit_copyRangeP; [| exact Hw | exact Hs | lia].
    destruct (N.leb_spec 0 i); [|lia]. destruct (N.ltb_spec i (0 + size)); [|lia]. bsimpl.
    f_equal. lia.
Qed.

Theorem abs_extractS s start size :
  wf s -> start + size <= bsize s ->
  abs (extractS s start size) = extractS_spec (abs s) start size.
Proof.
  intros H Hin. unfold extractS, extractS_spec.
  destruct ((start mod 8 =? 0) && (size mod 8 =? 0)) eqn:C.
  - apply andb_true_iff in C. destruct C as [C1 C2]. apply N.eqb_eq in C1. apply N.eqb_eq in C2.
    unfold abs. cbn [bsize planes]. rewrite planes_resize_empty, map2_repeat_l, !map_map.
    apply map_ext_in. intros sw Hsw.
    apply absP_extract_bytes; try assumption.
    eapply Forall_forall in H; [apply H | exact Hsw].
  - unfold copyRange, abs. cbn [bsize planes]. rewrite planes_resize_empty, map2_repeat_l, !map_map.
    apply map_ext_in. intros sw Hsw.
    apply absP_extract_copy; try assumption.
    eapply Forall_forall in H; [apply H | exact Hsw].
Qed.

Theorem wf_extractS s start size : wf s -> wf (extractS s start size).
Proof.
  intro H. unfold extractS. destruct ((start mod 8 =? 0) && (size mod 8 =? 0)).
  - unfold wf. cbn [bsize planes]. rewrite planes_resize_empty, map2_repeat_l.
    apply Forall_map. apply Forall_forall. intros sw _. pose proof (wfP_nil size) as Hn.
    eapply wfP_length; [exact Hn | apply length_memcpyB | apply wordsok_memcpyB; apply Hn].
  - unfold wf, copyRange. cbn [bsize planes]. rewrite planes_resize_empty, map2_repeat_l.
    apply Forall_map. apply Forall_forall. intros sw _. pose proof (wfP_nil size) as Hn.
    eapply wfP_length; [exact Hn | apply length_copyRangeP | apply wordsok_copyRangeP; apply Hn].
Qed.

Theorem bsize_extractS s start size : bsize (extractS s start size) = size.
Proof. unfold extractS. destruct ((start mod 8 =? 0) && (size mod 8 =? 0)); reflexivity. Qed.

(* ------------------------------------------------------------------ *)
(* insert(state, offset, size)                                         *)
(* ------------------------------------------------------------------ *)
Theorem abs_insertS d st off size :
  wf d -> wf st -> bsize st + off <= bsize d -> size <= bsize st ->
  abs (insertS d st off size) = insertS_spec (abs d) (abs st) off size.
Proof.
  intros Hd Hs Hin Hsz. unfold insertS, insertS_spec, abs. cbn [bsize planes].
  rewrite map_map2, map2_map.
  apply (map2_ext_Forall (wfP (bsize d)) (wfP (bsize st))); [exact Hd | exact Hs|].
  intros dw sw Hdw Hsw. pose proof (wfP_in _ _ Hdw).
  set (width := if size =? 0 then bsize st else size).
  assert (Hwd : width <= bsize st) by (subst width; destruct (size =? 0); lia).
  assert (Ef : firstn (if size =? 0 then length (absP (bsize st) sw) else N.to_nat size) (absP (bsize st) sw)
               = slice (N.to_nat 0) (N.to_nat width) (absP (bsize st) sw)).
  { unfold slice. simpl skipn. subst width. rewrite length_absP. destruct (size =? 0); reflexivity. }
  rewrite Ef.
  eapply absP_copy; [lia | lia |]. intro i.
  rewrite wbit_insertSLoop; [| apply Hdw | lia | lia | lia].
  replace (width - 0) with width by lia. reflexivity.
Qed.

Theorem wf_insertS d st off size : wf d -> wf st -> wf (insertS d st off size).
Proof.
  intros Hd Hs. unfold wf, insertS. cbn [bsize planes].
  apply (Forall_map2 (wfP (bsize d)) (wfP (bsize st))); [exact Hd | exact Hs|].
  intros dw sw Hdw _.
  eapply wfP_length; [exact Hdw | apply length_insertSLoop | apply wordsok_insertSLoop; apply Hdw].
Qed.

(* ------------------------------------------------------------------ *)
(* append                                                              *)
(* ------------------------------------------------------------------ *)
Lemma map2_map_l {A A' B C} (f : A' -> B -> C) (g : A -> A') a b :
  map2 f (map g a) b = map2 (fun x y => f (g x) y) a b.
Proof.
  unfold map2. revert b. induction a as [|x a IH]; intros [|y b]; simpl; auto. rewrite IH. reflexivity.
Qed.

Theorem abs_append d s :
  wf d -> wf s -> abs (append d s) = append_spec (abs d) (abs s).
Proof.
  intros Hd Hs. unfold append, append_spec, copyRange, resize, abs. cbn [bsize planes].
  rewrite map_map2, map2_map, map2_map_l.
  apply (map2_ext_Forall (wfP (bsize d)) (wfP (bsize s))); [exact Hd | exact Hs|].
  intros dw sw Hdw Hsw.
  pose proof (wfP_resizeP (bsize d + bsize s) dw (proj2 Hdw)) as Hr. pose proof (wfP_in _ _ Hr).
  apply absP_eq.
  - rewrite app_length, !length_absP. lia.
  - intros i Hi. rewrite wbit_copyRangeP; [| apply Hr | apply Hsw | lia].
    rewrite nth_app_if, length_absP.
    destruct (Nat.ltb_spec (N.to_nat i) (N.to_nat (bsize d))).
    + destruct (N.leb_spec (bsize d) i); [lia|]. bsimpl.
      rewrite wbit_resizeP by apply Hdw.
      destruct (N.ltb_spec i (bsize d + bsize s)); [|lia]. bsimpl.
      apply nth_absP_N. lia.
    + destruct (N.leb_spec (bsize d) i); [|lia].
      destruct (N.ltb_spec i (bsize d + bsize s)); [|lia]. bsimpl.
      replace (N.to_nat i - N.to_nat (bsize d))%nat with (N.to_nat (i - bsize d)) by lia.
      rewrite nth_absP_N by lia. f_equal; lia.
Qed.

Theorem wf_append d s : wf d -> wf s -> wf (append d s).
Proof. intros Hd Hs. unfold append. apply wf_copyRange; [apply wf_resize; exact Hd | exact Hs]. Qed.

Theorem bsize_append d s : bsize (append d s) = bsize d + bsize s.
Proof. reflexivity. Qed.
