(* C04 -- facts about the clock tree: pin sources (Clock::getClockPinSource), relevance
   (determineRelevantClocks) and the pins extractClockPins allocates. *)
From Coq Require Import QArith Qreduction Lia.
Require Import Gatery.Bits.
Require Import Gatery.SchedDefs.
Import ListNotations.
Local Close Scope Q_scope.

(* parents are created before their derived clocks *)
Definition clocks_wf (cs : list clock) : Prop :=
  forall i p, ck_parent (get_clock cs i) = Some p -> p < i.

Lemma get_clock_default cs i : length cs <= i -> get_clock cs i = default_clock.
Proof. intro H. unfold get_clock. apply nth_overflow. exact H. Qed.

Lemma inherits_pin_parent cs i : inherits_pin cs i = true -> exists p, ck_parent (get_clock cs i) = Some p.
Proof. unfold inherits_pin. destruct (ck_parent (get_clock cs i)); [eauto | discriminate]. Qed.

Lemma pinsrc_f_not_inherits cs fuel i : inherits_pin cs i = false -> pinsrc_f cs fuel i = i.
Proof. intro H. destruct fuel; simpl; rewrite H; reflexivity. Qed.

(* the pin source never inherits (with enough fuel the chain ends at a clock that has its own pin) *)
Lemma pinsrc_f_fix cs : clocks_wf cs -> forall fuel i, i < fuel -> inherits_pin cs (pinsrc_f cs fuel i) = false.
Proof.
  intros Hwf. induction fuel as [|f IH]; intros i Hi; [lia|].
  simpl. destruct (inherits_pin cs i) eqn:E; [|exact E].
  destruct (inherits_pin_parent cs i E) as [p Hp]. rewrite Hp.
  apply IH. specialize (Hwf i p Hp). lia.
Qed.

Lemma pinsrc_fix cs i : clocks_wf cs -> inherits_pin cs (pinsrc cs i) = false.
Proof.
  intro Hwf. unfold pinsrc. destruct (Nat.lt_ge_cases i (length cs)) as [H|H].
  - apply pinsrc_f_fix; assumption.
  - assert (E : inherits_pin cs i = false).
    { unfold inherits_pin. rewrite (get_clock_default cs i H). reflexivity. }
    rewrite (pinsrc_f_not_inherits cs _ i E). exact E.
Qed.

Lemma pinsrc_idem cs i : clocks_wf cs -> pinsrc cs (pinsrc cs i) = pinsrc cs i.
Proof. intro Hwf. unfold pinsrc at 1. apply pinsrc_f_not_inherits. apply pinsrc_fix. exact Hwf. Qed.

(* sharing a pin requires the same absolute frequency *)
Lemma pinsrc_f_freq cs fuel : forall i, (absfreq cs (pinsrc_f cs fuel i) == absfreq cs i)%Q.
Proof.
  induction fuel as [|f IH]; intro i; simpl.
  - destruct (inherits_pin cs i); [destruct (ck_parent (get_clock cs i))|]; reflexivity.
  - destruct (inherits_pin cs i) eqn:E; [|reflexivity].
    destruct (ck_parent (get_clock cs i)) as [p|] eqn:Hp; [|reflexivity].
    rewrite IH. unfold inherits_pin in E. rewrite Hp in E.
    apply andb_prop in E. destruct E as [E _]. apply andb_prop in E. destruct E as [_ E].
    apply Qeq_bool_eq. exact E.
Qed.

Lemma pinsrc_freq cs i : (absfreq cs (pinsrc cs i) == absfreq cs i)%Q.
Proof. apply pinsrc_f_freq. Qed.

(* ancestors *)
Lemma is_anc_f_le cs : clocks_wf cs -> forall fuel a j, is_anc_f cs fuel a j = true -> a <= j.
Proof.
  intro Hwf. induction fuel as [|f IH]; intros a j H; simpl in H.
  - apply orb_prop in H. destruct H as [H|H].
    + apply Nat.eqb_eq in H. lia.
    + destruct (ck_parent (get_clock cs j)); discriminate.
  - apply orb_prop in H. destruct H as [H|H].
    + apply Nat.eqb_eq in H. lia.
    + destruct (ck_parent (get_clock cs j)) as [q|] eqn:Hq; [|discriminate].
      specialize (IH a q H). specialize (Hwf j q Hq). lia.
Qed.

Lemma is_anc_f_refl cs fuel a : is_anc_f cs fuel a a = true.
Proof. destruct fuel; simpl; rewrite Nat.eqb_refl; reflexivity. Qed.

Lemma is_anc_f_parent cs : clocks_wf cs -> forall fuel i p j,
  j < fuel -> ck_parent (get_clock cs i) = Some p -> is_anc_f cs fuel i j = true -> is_anc_f cs fuel p j = true.
Proof.
  intro Hwf. induction fuel as [|f IH]; intros i p j Hj Hp H; [lia|].
  simpl in *. apply orb_prop in H. destruct H as [H|H].
  - apply Nat.eqb_eq in H. subst j. rewrite Hp. rewrite is_anc_f_refl. apply orb_true_r.
  - destruct (ck_parent (get_clock cs j)) as [q|] eqn:Hq; [|discriminate].
    rewrite (IH i p q); [apply orb_true_r | | exact Hp | exact H].
    specialize (Hwf j q Hq). lia.
Qed.

Lemma relevant_parent cfg i p :
  clocks_wf (cfg_clocks cfg) -> ck_parent (get_clock (cfg_clocks cfg) i) = Some p ->
  relevant cfg i = true -> relevant cfg p = true.
Proof.
  intros Hwf Hp H. unfold relevant in *. apply existsb_exists in H. destruct H as (j & Hj & H).
  apply existsb_exists. exists j. split; [exact Hj|].
  apply andb_prop in H. destruct H as [H1 H2]. rewrite H1. simpl.
  apply in_seq in Hj. unfold is_anc in *. eapply is_anc_f_parent; try eassumption. lia.
Qed.

Lemma relevant_lt cfg i : clocks_wf (cfg_clocks cfg) -> relevant cfg i = true -> i < length (cfg_clocks cfg).
Proof.
  intros Hwf H. unfold relevant in H. apply existsb_exists in H. destruct H as (j & Hj & H).
  apply andb_prop in H. destruct H as [_ H]. apply in_seq in Hj.
  pose proof (is_anc_f_le _ Hwf _ _ _ H). lia.
Qed.

Lemma relevant_pinsrc_f cfg : clocks_wf (cfg_clocks cfg) -> forall fuel i,
  relevant cfg i = true -> relevant cfg (pinsrc_f (cfg_clocks cfg) fuel i) = true.
Proof.
  intro Hwf. induction fuel as [|f IH]; intros i H; simpl.
  - destruct (inherits_pin (cfg_clocks cfg) i); [destruct (ck_parent (get_clock (cfg_clocks cfg) i))|]; exact H.
  - destruct (inherits_pin (cfg_clocks cfg) i); [|exact H].
    destruct (ck_parent (get_clock (cfg_clocks cfg) i)) as [p|] eqn:Hp; [|exact H].
    apply IH. eapply relevant_parent; eassumption.
Qed.

(* the pin source of a relevant clock is one of the allocated clock pins *)
Lemma pinsrc_is_pin cfg c :
  clocks_wf (cfg_clocks cfg) -> relevant cfg c = true -> In (pinsrc (cfg_clocks cfg) c) (clock_pins cfg).
Proof.
  intros Hwf H. unfold clock_pins. apply filter_In.
  assert (Hr : relevant cfg (pinsrc (cfg_clocks cfg) c) = true) by (apply relevant_pinsrc_f; assumption).
  split.
  - apply in_seq. pose proof (relevant_lt cfg _ Hwf Hr). lia.
  - rewrite Hr, pinsrc_idem by exact Hwf. rewrite Nat.eqb_refl. reflexivity.
Qed.

(* a clock with nodes is relevant *)
Lemma has_nodes_relevant cfg c :
  c < length (cfg_clocks cfg) -> has_nodes cfg c = true -> relevant cfg c = true.
Proof.
  intros Hc H. unfold relevant. apply existsb_exists. exists c. split; [apply in_seq; lia|].
  rewrite H. unfold is_anc. rewrite is_anc_f_refl. reflexivity.
Qed.
