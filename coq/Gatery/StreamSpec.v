(* C16 -- specification vocabulary for stream stages: transfers on a wire, the hold rule, the data
   functions (identity / packing / unpacking), prefix order, and the generic lemmas about running a
   stage (snoc / append decomposition of traces). *)
From Coq Require Import List NArith Bool Arith Lia.
From Gatery Require Import StreamDefs.
Import ListNotations.

(* ------------------------------------------------------------------ transferred records *)
(* what one transfer carries: payload digits, eop, per-beat meta word *)
Definition xfer := (list N * bool * N)%type.
Definition xdata (x : xfer) : list N := fst (fst x).
Definition xeop (x : xfer) : bool := snd (fst x).
Definition xmeta (x : xfer) : N := snd x.
Definition xf (b : beat) : xfer := (bdata b, beop b, bmeta b).

(* transfer at the stage input / output in one cycle: valid && ready *)
Definition xin (e : ev) : list xfer := if bvalid (e_in e) && e_rin e then [xf (e_in e)] else [].
Definition xout (e : ev) : list xfer := if bvalid (e_out e) && e_rout e then [xf (e_out e)] else [].
(* beat offered (valid, whether or not accepted) *)
Definition offin (e : ev) : list xfer := if bvalid (e_in e) then [xf (e_in e)] else [].
Definition offout (e : ev) : list xfer := if bvalid (e_out e) then [xf (e_out e)] else [].

Definition Tin (tr : list ev) : list xfer := flat_map xin tr.
Definition Tout (tr : list ev) : list xfer := flat_map xout tr.

Lemma Tin_app : forall a b, Tin (a ++ b) = Tin a ++ Tin b.
Proof. intros; unfold Tin; apply flat_map_app. Qed.
Lemma Tout_app : forall a b, Tout (a ++ b) = Tout a ++ Tout b.
Proof. intros; unfold Tout; apply flat_map_app. Qed.
Lemma Tin_snoc : forall a e, Tin (a ++ [e]) = Tin a ++ xin e.
Proof. intros; rewrite Tin_app; simpl; now rewrite app_nil_r. Qed.
Lemma Tout_snoc : forall a e, Tout (a ++ [e]) = Tout a ++ xout e.
Proof. intros; rewrite Tout_app; simpl; now rewrite app_nil_r. Qed.

(* ------------------------------------------------------------------ prefix order *)
Definition prefix {A} (l1 l2 : list A) : Prop := exists t, l2 = l1 ++ t.

Lemma prefix_refl : forall A (l : list A), prefix l l.
Proof. intros; exists []; now rewrite app_nil_r. Qed.
Lemma prefix_nil : forall A (l : list A), prefix [] l.
Proof. intros; now exists l. Qed.
Lemma prefix_trans : forall A (a b c : list A), prefix a b -> prefix b c -> prefix a c.
Proof. intros A a b c [t ->] [u ->]; exists (t ++ u); now rewrite app_assoc. Qed.
Lemma prefix_app : forall A (l t : list A), prefix l (l ++ t).
Proof. intros; now exists t. Qed.
Lemma prefix_app_l : forall A (p a b : list A), prefix a b -> prefix (p ++ a) (p ++ b).
Proof. intros A p a b [t ->]; exists t; now rewrite app_assoc. Qed.
Lemma prefix_length : forall A (a b : list A), prefix a b -> length a <= length b.
Proof. intros A a b [t ->]; rewrite app_length; lia. Qed.
Lemma prefix_app_inv : forall A (a b c : list A), prefix (a ++ b) c -> prefix a c.
Proof. intros A a b c [t ->]; exists (b ++ t); now rewrite app_assoc. Qed.

Lemma prefix_comparable : forall A (a b l : list A), prefix a l -> prefix b l -> prefix a b \/ prefix b a.
Proof.
  intros A a; induction a as [|x a IH]; intros b l Ha Hb.
  - left; apply prefix_nil.
  - destruct b as [|y b]; [right; apply prefix_nil|].
    destruct Ha as [t ->]; destruct Hb as [u Hu]; simpl in Hu; injection Hu as -> Hu.
    destruct (IH b (a ++ t)) as [[w ->]|[w ->]].
    + apply prefix_app.
    + now exists u.
    + left; exists w; reflexivity.
    + right; exists w; reflexivity.
Qed.

Lemma prefix_sub : forall (a : list xfer) o, (o = [] \/ exists x, o = [x]) -> forall o', (o = [] \/ o = o') -> prefix (a ++ o) (a ++ o').
Proof. intros a o _ o' [->| ->]; [rewrite app_nil_r; apply prefix_app | apply prefix_refl]. Qed.

Lemma xout_offout : forall e, xout e = [] \/ xout e = offout e.
Proof. intro e; unfold xout, offout; destruct (bvalid (e_out e)); simpl; [destruct (e_rout e)|]; auto. Qed.
Lemma xin_offin : forall e, xin e = [] \/ xin e = offin e.
Proof. intro e; unfold xin, offin; destruct (bvalid (e_in e)); simpl; [destruct (e_rin e)|]; auto. Qed.
Lemma prefix_xout : forall a e, prefix (a ++ xout e) (a ++ offout e).
Proof. intros a e; destruct (xout_offout e) as [->| ->]; [rewrite app_nil_r; apply prefix_app|apply prefix_refl]. Qed.
Lemma prefix_xin : forall a e, prefix (a ++ xin e) (a ++ offin e).
Proof. intros a e; destruct (xin_offin e) as [->| ->]; [rewrite app_nil_r; apply prefix_app|apply prefix_refl]. Qed.
Lemma xin_length : forall e, length (xin e) <= 1.
Proof. intro e; unfold xin; destruct (_ && _); simpl; lia. Qed.
Lemma xout_length : forall e, length (xout e) <= 1.
Proof. intro e; unfold xout; destruct (_ && _); simpl; lia. Qed.

(* ------------------------------------------------------------------ running: append / snoc *)
Lemma traceFrom_app : forall S cs1 cs2 s,
  traceFrom S s (cs1 ++ cs2) = traceFrom S s cs1 ++ traceFrom S (afterFrom S s cs1) cs2.
Proof. intros S cs1; induction cs1 as [|c cs1 IH]; intros; simpl; [reflexivity| now rewrite IH]. Qed.

Lemma afterFrom_app : forall S cs1 cs2 s, afterFrom S s (cs1 ++ cs2) = afterFrom S (afterFrom S s cs1) cs2.
Proof. intros; unfold afterFrom; apply fold_left_app. Qed.

Lemma trace_snoc : forall S cs c, trace S (cs ++ [c]) = trace S cs ++ [evAt S (after S cs) c].
Proof. intros; unfold trace, after; now rewrite traceFrom_app. Qed.

Lemma after_snoc : forall S cs c, after S (cs ++ [c]) = stepS S (after S cs) c.
Proof. intros; unfold after; now rewrite afterFrom_app. Qed.

Lemma trace_app : forall S cs1 cs2, trace S (cs1 ++ cs2) = trace S cs1 ++ traceFrom S (after S cs1) cs2.
Proof. intros; unfold trace, after; apply traceFrom_app. Qed.

Lemma traceFrom_length : forall S cs s, length (traceFrom S s cs) = length cs.
Proof. intros S cs; induction cs; intros; simpl; auto. Qed.

(* ------------------------------------------------------------------ wires and the hold rule *)
Definition wire := list (beat * bool).
Definition inW (tr : list ev) : wire := map (fun e => (e_in e, e_rin e)) tr.
Definition outW (tr : list ev) : wire := map (fun e => (e_out e, e_rout e)) tr.

(* a beat that is offered (valid) and not accepted (ready low) is offered unchanged in the next cycle *)
Definition hold2 (p q : beat * bool) : Prop :=
  bvalid (fst p) = true -> snd p = false -> bvalid (fst q) = true /\ xf (fst q) = xf (fst p).

Fixpoint holdW (w : wire) : Prop :=
  match w with
  | p :: t => match t with q :: _ => hold2 p q /\ holdW t | [] => True end
  | [] => True
  end.

Lemma holdW_cons2 : forall p q t, holdW (p :: q :: t) <-> hold2 p q /\ holdW (q :: t).
Proof. intros; simpl; tauto. Qed.

Lemma holdW_app_l : forall a b, holdW (a ++ b) -> holdW a.
Proof.
  induction a as [|p a IH]; intros b H; [exact I|].
  destruct a as [|q a]; [exact I|].
  change (holdW (p :: q :: (a ++ b))) in H. apply holdW_cons2 in H. destruct H as [H1 H2].
  apply holdW_cons2; split; [exact H1| exact (IH b H2)].
Qed.

Lemma holdW_snoc2 : forall a p q, holdW (a ++ [p; q]) -> hold2 p q.
Proof.
  induction a as [|x a IH]; intros p q H.
  - simpl in H; tauto.
  - apply IH. destruct a as [|y a]; simpl in H |- *; tauto.
Qed.

Lemma holdW_snoc : forall a p q, holdW (a ++ [p]) -> hold2 p q -> holdW (a ++ [p; q]).
Proof.
  induction a as [|x a IH]; intros p q H H2.
  - simpl; tauto.
  - destruct a as [|y a].
    + simpl in *; tauto.
    + change (holdW (x :: y :: (a ++ [p]))) in H. apply holdW_cons2 in H. destruct H as [Ha Hb].
      change (holdW (x :: y :: (a ++ [p; q]))). apply holdW_cons2. split; [exact Ha|]. exact (IH p q Hb H2).
Qed.

(* ------------------------------------------------------------------ data functions *)
Definition mono (f : list xfer -> list xfer) : Prop := forall l1 l2, prefix l1 l2 -> prefix (f l1) (f l2).
Definition lip (f : list xfer -> list xfer) (k : nat) : Prop :=
  forall l u, length (f (l ++ u)) <= length (f l) + k * length u.

Definition idf (l : list xfer) : list xfer := l.
Lemma mono_id : mono idf. Proof. intros l1 l2 H; exact H. Qed.
Lemma lip_id : lip idf 1. Proof. intros l u; unfold idf; rewrite app_length; lia. Qed.

Lemma mono_comp : forall f g, mono f -> mono g -> mono (fun l => g (f l)).
Proof. intros f g Hf Hg l1 l2 H; apply Hg, Hf, H. Qed.

Lemma lip_comp : forall f g kf kg, mono f -> lip f kf -> lip g kg -> lip (fun l => g (f l)) (kg * kf).
Proof.
  intros f g kf kg Mf Lf Lg l u.
  destruct (Mf l (l ++ u) (prefix_app _ _ _)) as [t Ht].
  rewrite Ht. specialize (Lg (f l) t). specialize (Lf l u). rewrite Ht, app_length in Lf.
  assert (length t <= kf * length u) by lia. nia.
Qed.

(* --- packing: groups of r consecutive transfers become one; payloads concatenated, eop and meta of
       the LAST member (this is what utils.h extendWidth does); an incomplete trailing group stays inside *)
Definition mkpacked (g : list xfer) : xfer :=
  (concat (map xdata g), xeop (last g ([], false, 0%N)), xmeta (last g ([], false, 0%N))).

Definition pk_step (r : nat) (oa : list xfer * list xfer) (x : xfer) : list xfer * list xfer :=
  if Nat.eqb (length (snd oa)) (pred r) then (fst oa ++ [mkpacked (snd oa ++ [x])], []) else (fst oa, snd oa ++ [x]).
Definition pk (r : nat) (l : list xfer) : list xfer * list xfer := fold_left (pk_step r) l ([], []).
Definition pack (r : nat) (l : list xfer) : list xfer := fst (pk r l).
Definition pacc (r : nat) (l : list xfer) : list xfer := snd (pk r l).

Lemma pk_snoc : forall r l x, pk r (l ++ [x]) = pk_step r (pk r l) x.
Proof. intros; unfold pk; now rewrite fold_left_app. Qed.

Lemma pack_snoc : forall r l x,
  pack r (l ++ [x]) = if Nat.eqb (length (pacc r l)) (pred r) then pack r l ++ [mkpacked (pacc r l ++ [x])] else pack r l.
Proof. intros; unfold pack, pacc; rewrite pk_snoc; unfold pk_step; destruct (Nat.eqb _ _); reflexivity. Qed.

Lemma pacc_snoc : forall r l x,
  pacc r (l ++ [x]) = if Nat.eqb (length (pacc r l)) (pred r) then [] else pacc r l ++ [x].
Proof. intros; unfold pack, pacc; rewrite pk_snoc; unfold pk_step; destruct (Nat.eqb _ _); reflexivity. Qed.

Lemma pk_step_eq : forall r o a x,
  pk_step r (o, a) x = if Nat.eqb (length a) (pred r) then (o ++ [mkpacked (a ++ [x])], []) else (o, a ++ [x]).
Proof. reflexivity. Qed.

Lemma pk_fold_gen : forall r l o a,
  fst (fold_left (pk_step r) l (o, a)) = o ++ fst (fold_left (pk_step r) l ([], a)) /\
  snd (fold_left (pk_step r) l (o, a)) = snd (fold_left (pk_step r) l ([], a)).
Proof.
  intros r l; induction l as [|x l IH]; intros o a.
  - simpl. now rewrite app_nil_r.
  - cbn [fold_left]. rewrite !pk_step_eq.
    destruct (Nat.eqb (length a) (pred r)).
    + destruct (IH (o ++ [mkpacked (a ++ [x])]) []) as [H1 H2].
      destruct (IH ([] ++ [mkpacked (a ++ [x])]) []) as [H3 H4].
      rewrite H1, H2, H3, H4. simpl. now rewrite <- app_assoc.
    + apply IH.
Qed.

Lemma pack_app_prefix : forall r l1 l2, prefix (pack r l1) (pack r (l1 ++ l2)).
Proof.
  intros r l1 l2. unfold pack, pk. rewrite fold_left_app.
  destruct (fold_left (pk_step r) l1 ([], [])) as [o a] eqn:E. simpl.
  destruct (pk_fold_gen r l2 o a) as [H _]. rewrite H. apply prefix_app.
Qed.

Lemma mono_pack : forall r, mono (pack r).
Proof. intros r l1 l2 [t ->]; apply pack_app_prefix. Qed.

Lemma pack_length_snoc : forall r l x, length (pack r (l ++ [x])) <= length (pack r l) + 1.
Proof. intros; rewrite pack_snoc; destruct (Nat.eqb _ _); rewrite ?app_length; simpl; lia. Qed.

Lemma lip_pack : forall r, lip (pack r) 1.
Proof.
  intros r l u. revert l. induction u as [|x u IH] using rev_ind; intros l.
  - rewrite app_nil_r; simpl; lia.
  - rewrite app_assoc. pose proof (pack_length_snoc r (l ++ u) x). specialize (IH l).
    rewrite app_length; simpl. lia.
Qed.

Lemma pacc_length : forall r l, 1 <= r -> length (pacc r l) < r.
Proof.
  intros r l Hr. induction l as [|x l IH] using rev_ind.
  - simpl; lia.
  - rewrite pacc_snoc. destruct (Nat.eqb (length (pacc r l)) (pred r)) eqn:E.
    + simpl; lia.
    + apply Nat.eqb_neq in E. rewrite app_length; simpl. lia.
Qed.

Lemma pack_feed : forall r l pre, length pre < r -> pacc r l = [] ->
  pack r (l ++ pre) = pack r l /\ pacc r (l ++ pre) = pre.
Proof.
  intros r l pre. induction pre as [|x pre IH] using rev_ind; intros Hl Ha.
  - rewrite app_nil_r; auto.
  - rewrite app_length in Hl; simpl in Hl. destruct IH as [P A]; [lia|auto|].
    rewrite app_assoc, pack_snoc, pacc_snoc, P, A.
    assert (E : Nat.eqb (length pre) (pred r) = false) by (apply Nat.eqb_neq; lia).
    rewrite E; auto.
Qed.

(* adequacy of the definition: packing a concatenation of full groups gives one packed record per group *)
Lemma pack_groups : forall r gs, 1 <= r -> Forall (fun g => length g = r) gs ->
  pack r (concat gs) = map mkpacked gs /\ pacc r (concat gs) = [].
Proof.
  intros r gs Hr H. induction gs as [|g gs IH] using rev_ind; [split; reflexivity|].
  apply Forall_app in H. destruct H as [H1 H2]. specialize (IH H1). destruct IH as [IHp IHa].
  assert (Hg : length g = r) by (inversion H2; assumption).
  rewrite concat_app; simpl; rewrite app_nil_r, map_app; simpl.
  destruct g as [|x0 g0 _] using rev_ind; [simpl in Hg; lia|].
  rewrite app_length in Hg; simpl in Hg.
  destruct (pack_feed r (concat gs) g0) as [P A]; [lia|assumption|].
  rewrite app_assoc, pack_snoc, pacc_snoc, P, A.
  assert (E : Nat.eqb (length g0) (pred r) = true) by (apply Nat.eqb_eq; lia).
  rewrite E, IHp. auto.
Qed.

(* --- unpacking: every transfer becomes r; digits sliced, eop only on the last slice, meta on all
       (this is what utils.h reduceWidth does) *)
Definition unpack1 (r : nat) (x : xfer) : list xfer :=
  map (fun i => (chunk (length (xdata x) / r) i (xdata x), xeop x && isLast r i, xmeta x)) (seq 0 r).
Definition unpack (r : nat) (l : list xfer) : list xfer := flat_map (unpack1 r) l.

Lemma unpack1_length : forall r x, length (unpack1 r x) = r.
Proof. intros; unfold unpack1; now rewrite map_length, seq_length. Qed.
Lemma unpack_app : forall r a b, unpack r (a ++ b) = unpack r a ++ unpack r b.
Proof. intros; unfold unpack; apply flat_map_app. Qed.
Lemma unpack_length : forall r l, length (unpack r l) = r * length l.
Proof.
  intros r l; induction l as [|x l IH]; simpl; [lia|].
  rewrite app_length, unpack1_length, IH. lia.
Qed.
Lemma mono_unpack : forall r, mono (unpack r).
Proof. intros r l1 l2 [t ->]; rewrite unpack_app; apply prefix_app. Qed.
Lemma lip_unpack : forall r, lip (unpack r) r.
Proof. intros r l u; rewrite unpack_app, app_length, !unpack_length; lia. Qed.

Lemma unpack1_nth : forall r x i, i < r ->
  nth_error (unpack1 r x) i = Some (chunk (length (xdata x) / r) i (xdata x), xeop x && isLast r i, xmeta x).
Proof.
  intros r x i Hi. unfold unpack1. rewrite nth_error_map.
  rewrite (nth_error_nth' (seq 0 r) 0) by (rewrite seq_length; lia). rewrite seq_nth by lia. reflexivity.
Qed.

Lemma firstn_S_nth_error : forall A (l : list A) i x, nth_error l i = Some x -> firstn (S i) l = firstn i l ++ [x].
Proof.
  intros A l; induction l as [|y l IH]; intros i x H; destruct i; simpl in *; try discriminate.
  - now injection H as ->.
  - f_equal; apply IH, H.
Qed.

(* ------------------------------------------------------------------ the generic stage properties *)
(* E is the assumption on the environment (a predicate on the sequence of per-cycle stage inputs;
   it may run the stage, e.g. "the producer holds"); the properties speak about the run from reset. *)

(* safety: what has been delivered, plus what is being offered at the output now, is a prefix of the
   image of what has been accepted plus what is being offered at the input now *)
Definition Safe (S : stage) (E : list cyc -> Prop) (f : list xfer -> list xfer) : Prop :=
  forall cs c, E (cs ++ [c]) ->
    prefix (Tout (trace S cs) ++ offout (evAt S (after S cs) c))
           (f (Tin (trace S cs) ++ offin (evAt S (after S cs) c))).

(* bounded lag: at most cap images of accepted transfers have not been delivered yet *)
Definition Lag (S : stage) (E : list cyc -> Prop) (f : list xfer -> list xfer) (cap : nat) : Prop :=
  forall cs, E cs -> length (f (Tin (trace S cs))) <= length (Tout (trace S cs)) + cap.

(* strong form: delivered is a prefix of the image of accepted *)
Definition Strong (S : stage) (E : list cyc -> Prop) (f : list xfer -> list xfer) : Prop :=
  forall cs, E cs -> prefix (Tout (trace S cs)) (f (Tin (trace S cs))).

Definition ETrue : list cyc -> Prop := fun _ => True.
Definition EHold (S : stage) : list cyc -> Prop := fun cs => holdW (inW (trace S cs)).

Lemma Safe_end : forall S E f, mono f -> Safe S E f -> forall cs c, E (cs ++ [c]) ->
  let tr := trace S (cs ++ [c]) in
  exists X, prefix (Tout tr) X /\ prefix (f (Tin tr)) X.
Proof.
  intros S E f Mf HS cs c HE tr. specialize (HS cs c HE).
  exists (f (Tin (trace S cs) ++ offin (evAt S (after S cs) c))). subst tr. rewrite trace_snoc, Tout_snoc, Tin_snoc. split.
  - eapply prefix_trans; [apply prefix_xout| exact HS].
  - apply Mf, prefix_xin.
Qed.
