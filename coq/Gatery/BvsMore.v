(* C18 -- proofs, part 15: the rest of the public interface: head, allDefinedNonStraddling,
   clear()+resize, asBytes, operator==(state, bytes), the range() iterator (read and write). *)
From Coq Require Import List NArith ZArith Bool Lia.
From Gatery Require Import Bits BvsDefs BvsSpec BvsLeaf BvsWords BvsCopy BvsAbs BvsOps BvsEq
     BvsQuery BvsCmp BvsMerge BvsBig.
Import ListNotations.
Ltac Zify.zify_post_hook ::= Z.to_euclidean_division_equations.
Local Open Scope N_scope.

Lemma In_firstn_my {A} (x : A) n l : In x (firstn n l) -> In x l.
Proof.
  revert l; induction n as [|n IH]; intros [|y l] H; simpl in *; try contradiction.
  destruct H as [H | H]; [left; exact H | right; apply IH; exact H].
Qed.
Lemma In_skipn_my {A} n (x : A) l : In x (skipn n l) -> In x l.
Proof.
  revert l; induction n as [|n IH]; intros [|y l] H; simpl in *; auto.
Qed.

(* ---- head ---- *)
Lemma slice_all (l : list bool) : slice 0 (length l) l = l.
Proof. unfold slice. simpl skipn. apply firstn_all. Qed.

Theorem head_abs s p :
  wf s -> (p < length (planes s))%nat -> bsize s <= 64 -> head s p = head_spec (abs s) p.
Proof.
  intros W P H. unfold head, head_spec.
  rewrite extractNS_abs by (try assumption; lia).
  unfold extractW_spec. change (N.to_nat 0) with 0%nat.
  rewrite <- (length_splane_abs s p P). rewrite slice_all. reflexivity.
Qed.

(* ---- allDefinedNonStraddling ---- *)
Theorem allDefinedNS_abs s start size :
  wf s -> (DEFINED < length (planes s))%nat -> start mod 64 + size <= 64 -> start + size <= bsize s ->
  allDefinedNS s start size = allDefinedNS_spec (abs s) start size.
Proof.
  intros W P Hns Hin. unfold allDefinedNS, allDefinedNS_spec, extractNS.
  rewrite splane_abs by exact P.
  rewrite <- (forallb_wbit_slice (bsize s) (plane s DEFINED) (fun b => b)) by exact Hin.
  apply eq_true_iff_eq. rewrite N.eqb_eq, N_zero_bits, forallb_true_iff_nrange. split.
  - intros H i Hi. specialize (H (i - start)).
    rewrite tb_andNot, tb_extractNSP, tb_bitMaskRange in H by exact Hns.
    replace (i - start - 0) with (i - start) in H by lia.
    destruct (N.ltb_spec (i - start) 64); [|lia]. destruct (N.leb_spec 0 (i - start)); [|lia].
    destruct (N.ltb_spec (i - start) size); [|lia]. cbn [andb] in H.
    replace (start + (i - start)) with i in H by lia.
    rewrite andb_true_r in H. apply negb_false_iff. exact H.
  - intros H j. rewrite tb_andNot, tb_extractNSP, tb_bitMaskRange by exact Hns.
    replace (j - 0) with j by lia.
    destruct (N.ltb_spec j size).
    + rewrite (H (start + j)) by lia. cbn [andb negb]. rewrite andb_false_r. reflexivity.
    + rewrite !andb_false_r. reflexivity.
Qed.

(* ---- clear(); resize(n) ---- *)
Lemma absP_zero n : absP n (resizeP n []) = repeat false (N.to_nat n).
Proof.
  apply absP_eq; [apply repeat_length|]. intros i Hi.
  rewrite nth_repeat_if. rewrite wbit_resizeP by (apply Forall_nil). rewrite wbit_nil, andb_false_r.
  destruct (Nat.ltb _ _); reflexivity.
Qed.

Theorem clearResize_all s n :
  let r := clearResize s n in
  wf r /\ clean r /\ bsize r = n /\ length (planes r) = length (planes s)
  /\ abs r = clearResize_spec (abs s) n.
Proof.
  unfold clearResize, clearAll, resize, clearResize_spec, wf, clean, abs. cbn [bsize planes].
  rewrite !map_map. repeat split.
  - apply Forall_forall. intros w Hw. apply in_map_iff in Hw. destruct Hw as (x & <- & _). apply wfP_nil.
  - apply Forall_forall. intros w Hw. apply in_map_iff in Hw. destruct Hw as (x & <- & _).
    intros i Hi. rewrite wbit_resizeP by (apply Forall_nil). rewrite wbit_nil. apply andb_false_r.
  - rewrite map_length. reflexivity.
  - apply map_ext. intros x. apply absP_zero.
Qed.

(* ---- asBytes ---- *)
Lemma tb_bytesToN l j :
  Forall (fun b => b < 256) l -> N.testbit (bytesToN l) j = N.testbit (nth (N.to_nat (j / 8)) l 0) (j mod 8).
Proof.
  intro H. revert j. induction H as [|b r Hb Hr IH]; intro j.
  - cbn [bytesToN]. rewrite tb_0. destruct (N.to_nat (j / 8)); rewrite tb_0; reflexivity.
  - cbn [bytesToN]. destruct (N.lt_ge_cases j 8) as [Hj | Hj].
    + replace (N.to_nat (j / 8)) with 0%nat by lia. replace (j mod 8) with j by lia. cbn [nth].
      rewrite <- (N.mod_pow2_bits_low (b + 256 * bytesToN r) 8 j) by exact Hj.
      f_equal. change (2 ^ 8) with 256. rewrite N.mul_comm, N.mod_add by discriminate.
      apply N.mod_small. exact Hb.
    + replace (N.to_nat (j / 8)) with (S (N.to_nat ((j - 8) / 8))) by lia. cbn [nth].
      replace (j mod 8) with ((j - 8) mod 8) by lia. rewrite <- IH.
      replace j with ((j - 8) + 8) at 1 by lia. rewrite <- N.div_pow2_bits.
      f_equal. change (2 ^ 8) with 256. rewrite N.mul_comm, N.div_add by discriminate.
      rewrite (N.div_small b 256) by exact Hb. reflexivity.
Qed.

Lemma nth_map_nrange {A} (f : N -> A) n k d :
  nth (N.to_nat k) (map f (nrange 0 n)) d = if k <? n then f k else d.
Proof.
  unfold nrange. rewrite nrange_from_map, map_map. replace (n - 0) with n by lia.
  destruct (N.ltb_spec k n).
  - rewrite nth_map_seq by lia. f_equal. lia.
  - apply nth_overflow. rewrite map_length, seq_length. lia.
Qed.

Lemma asBytes_lt256 s p : Forall (fun b => b < 256) (asBytes s p).
Proof.
  unfold asBytes. apply Forall_forall. intros b Hb. apply in_map_iff in Hb.
  destruct Hb as (k & <- & _). apply lt256_getByte.
Qed.

Theorem asBytes_abs s p :
  wf s -> clean s -> (p < length (planes s))%nat ->
  bytesToN (asBytes s p) = asBytes_spec (abs s) p.
Proof.
  intros W C P. unfold asBytes_spec. rewrite splane_abs by exact P.
  pose proof (cleanP_plane s p C P) as Cp.
  apply N.bits_inj. intro j.
  rewrite tb_bytesToN by apply asBytes_lt256.
  unfold asBytes. rewrite nth_map_nrange, tb_N_of_bits, nth_absP, N2Nat.id.
  destruct (N.ltb_spec (j / 8) ((bsize s + 7) / 8)).
  - rewrite tb_getByte. destruct (N.ltb_spec (j mod 8) 8); [|lia]. cbn [andb].
    replace (8 * (j / 8) + j mod 8) with j by lia.
    destruct (Nat.ltb_spec (N.to_nat j) (N.to_nat (bsize s))); [reflexivity|].
    cbn [andb]. apply Cp. lia.
  - rewrite tb_0. destruct (Nat.ltb_spec (N.to_nat j) (N.to_nat (bsize s))); [lia | reflexivity].
Qed.

(* ---- operator==(state, span of bytes) ---- *)
Definition byteBit (bytes : list N) (i : N) : bool :=
  N.testbit (nth (N.to_nat (i / 8)) bytes 0) (i mod 8).

Lemma tb_srcWord bytes k j :
  Forall (fun b => b < 256) bytes ->
  N.testbit (srcWord bytes k) j = (j <? 64) && byteBit bytes (64 * k + j).
Proof.
  intro H. unfold srcWord, byteBit.
  assert (H' : Forall (fun b => b < 256) (firstn 8 (skipn (N.to_nat (8 * k)) bytes))).
  { apply Forall_forall. intros x Hx. rewrite Forall_forall in H. apply H.
    apply (In_skipn_my (N.to_nat (8 * k))). eapply In_firstn_my. exact Hx. }
  rewrite tb_bytesToN by exact H'. rewrite nth_firstn_if, nth_skipn_add.
  destruct (N.ltb_spec j 64).
  - destruct (Nat.ltb_spec (N.to_nat (j / 8)) 8); [|lia]. cbn [andb].
    replace (N.to_nat (8 * k) + N.to_nat (j / 8))%nat with (N.to_nat ((64 * k + j) / 8)) by lia.
    replace ((64 * k + j) mod 8) with (j mod 8) by lia. reflexivity.
  - destruct (Nat.ltb_spec (N.to_nat (j / 8)) 8); [lia|]. apply tb_0.
Qed.

Lemma lt64_srcWord bytes k : Forall (fun b => b < 256) bytes -> lt64 (srcWord bytes k).
Proof.
  intro H. apply tb_lt64. intros j Hj. rewrite tb_srcWord by exact H.
  destruct (N.ltb_spec j 64); [lia | reflexivity].
Qed.

Lemma nth_concat_bytes bytes i :
  (i < 8 * length bytes)%nat ->
  nth i (concat (map (bits_of_N 8) bytes)) false = byteBit bytes (N.of_nat i).
Proof.
  revert i. induction bytes as [|b r IH]; intros i Hi; [simpl in Hi; lia|].
  cbn [map concat]. rewrite nth_app_if, length_bits_of_N. unfold byteBit.
  destruct (Nat.ltb_spec i 8).
  - rewrite nth_bits_of_N. destruct (Nat.ltb_spec i 8); [|lia]. cbn [andb].
    replace (N.to_nat (N.of_nat i / 8)) with 0%nat by lia.
    replace (N.of_nat i mod 8) with (N.of_nat i) by lia. reflexivity.
  - rewrite IH by (cbn [length] in Hi; lia). unfold byteBit.
    replace (N.to_nat (N.of_nat i / 8)) with (S (N.to_nat (N.of_nat (i - 8) / 8))) by lia.
    replace (N.of_nat i mod 8) with (N.of_nat (i - 8) mod 8) by lia. reflexivity.
Qed.

Lemma length_concat_bytes bytes : length (concat (map (bits_of_N 8) bytes)) = (8 * length bytes)%nat.
Proof.
  induction bytes as [|b r IH]; [reflexivity|]. cbn [map concat length].
  rewrite app_length, length_bits_of_N, IH. lia.
Qed.

Theorem eqBytes_abs s bytes :
  wf s -> (DEFINED < length (planes s))%nat -> bsize s <= size_max ->
  Forall (fun b => b < 256) bytes ->
  eqBytes s bytes = eqBytes_spec (abs s) bytes.
Proof.
  intros W P Hmax Hb. unfold eqBytes, eqBytes_spec.
  unfold VALUE, DEFINED in *.
  assert (L0 : length (splane (abs s) 0) = N.to_nat (bsize s)) by (apply length_splane_abs; lia).
  assert (L1 : length (splane (abs s) 1) = N.to_nat (bsize s)) by (apply length_splane_abs; lia).
  unfold slen. rewrite L0.
  set (n := N.of_nat (length bytes)).
  destruct (N.eqb_spec (bsize s) (n * 8)) as [Es | Es]; cbn [negb].
  2:{ destruct (Nat.eqb_spec (N.to_nat (bsize s)) (8 * length bytes)); [subst n; lia | reflexivity]. }
  destruct (Nat.eqb_spec (N.to_nat (bsize s)) (8 * length bytes)) as [_ | F]; [|subst n; lia]. cbn [negb].
  (* allDefined *)
  assert (AD : allDefined s 0 size_max = forallb (fun b => b) (splane (abs s) 1)).
  { unfold allDefined. rewrite allOne_abs by (try assumption; unfold DEFINED; lia).
    unfold allOne_spec, DEFINED. rewrite slice_clamp, L1.
    replace (Nat.min (N.to_nat size_max) (N.to_nat (bsize s) - N.to_nat 0)) with (length (splane (abs s) 1)) by lia.
    change (N.to_nat 0) with 0%nat. rewrite slice_all. reflexivity. }
  rewrite AD.
  destruct (forallb (fun b => b) (splane (abs s) 1)); cbn [negb andb]; [|reflexivity].
  pose proof (wfP_plane s 0 W ltac:(lia)) as [Hl Hw].
  set (v := plane s 0) in *.
  (* both sides say: bits 0 .. 8n-1 of VALUE are the bits of the bytes *)
  assert (Spec : list_eqb Bool.eqb (splane (abs s) 0) (concat (map (bits_of_N 8) bytes)) = true
                 <-> forall i, i < n * 8 -> wbit v i = byteBit bytes i).
  { unfold v. rewrite (list_eqb_spec Bool.eqb bool_eqb_spec). split.
    - intros E i Hi. rewrite <- (sbit_abs s 0 i) by lia. unfold sbit. rewrite E.
      rewrite nth_concat_bytes by (subst n; lia). rewrite N2Nat.id. reflexivity.
    - intro H. apply list_bool_ext.
      + rewrite L0, length_concat_bytes. subst n. lia.
      + intros i Hi. rewrite L0 in Hi. rewrite nth_concat_bytes by (subst n; lia).
        rewrite <- H by lia. fold (sbit (abs s) 0 i).
        replace i with (N.to_nat (N.of_nat i)) at 1 by lia. apply sbit_abs; lia. }
  assert (Full : forallb (fun k => getw v k =? srcWord bytes k) (nrange 0 (n / 8)) = true
                 <-> forall i, i < n / 8 * 64 -> wbit v i = byteBit bytes i).
  { rewrite forallb_true_iff_nrange. split.
    - intros H i Hi. specialize (H (i / 64) ltac:(lia)). apply N.eqb_eq in H.
      unfold wbit. rewrite H, tb_srcWord by exact Hb.
      destruct (N.ltb_spec (i mod 64) 64); [|lia]. cbn [andb]. f_equal. lia.
    - intros H k Hk. apply N.eqb_eq. apply N.bits_inj. intro j.
      rewrite tb_srcWord by exact Hb. destruct (N.ltb_spec j 64).
      + cbn [andb]. rewrite <- H by lia. unfold wbit.
        replace ((64 * k + j) / 64) with k by lia. replace ((64 * k + j) mod 64) with j by lia. reflexivity.
      + cbn [andb]. apply lt64_tb; [apply wordsok_getw; exact Hw | lia]. }
  set (rem := n - n / 8 * 8).
  assert (Part : N.land (N.lxor (getw v (n / 8)) (srcWord bytes (n / 8))) (N.shiftr (N.ones 64) ((8 - rem) * 8)) = 0
                 <-> forall i, n / 8 * 64 <= i < n * 8 -> wbit v i = byteBit bytes i).
  { rewrite N_zero_bits. split.
    - intros H i Hi. specialize (H (i - n / 8 * 64)).
      rewrite N.land_spec, N.lxor_spec, tb_shr, tb_ones, tb_srcWord in H by exact Hb.
      destruct (N.ltb_spec (i - n / 8 * 64) 64); [|subst rem; lia].
      destruct (N.ltb_spec (i - n / 8 * 64 + (8 - rem) * 8) 64); [|subst rem; lia].
      cbn [andb] in H. rewrite andb_true_r in H.
      replace (64 * (n / 8) + (i - n / 8 * 64)) with i in H by lia.
      assert (E : wbit v i = N.testbit (getw v (n / 8)) (i - n / 8 * 64)).
      { unfold wbit. f_equal; [f_equal; subst rem; lia | subst rem; lia]. }
      rewrite E. destruct (N.testbit (getw v (n / 8)) _), (byteBit bytes i); simpl in H; congruence.
    - intros H j. rewrite N.land_spec, N.lxor_spec, tb_shr, tb_ones, tb_srcWord by exact Hb.
      destruct (N.ltb_spec (j + (8 - rem) * 8) 64); [|apply andb_false_r].
      rewrite andb_true_r. destruct (N.ltb_spec j 64); [|subst rem; lia]. cbn [andb].
      rewrite <- (H (64 * (n / 8) + j)) by (subst rem; lia). unfold wbit.
      replace ((64 * (n / 8) + j) / 64) with (n / 8) by lia.
      replace ((64 * (n / 8) + j) mod 64) with j by lia. apply xorb_nilpotent. }
  assert (D : forallb (fun k => getw v k =? srcWord bytes k) (nrange 0 (n / 8)) = true
              \/ forallb (fun k => getw v k =? srcWord bytes k) (nrange 0 (n / 8)) = false)
    by (destruct (forallb _ _); auto).
  destruct D as [EF | EF]; rewrite EF; cbn [negb].
  - pose proof (proj1 Full EF) as EF'. clear EF. rename EF' into EF.
    destruct (N.ltb_spec 0 rem) as [Hr | Hr].
    + f_equal. apply eq_true_iff_eq. rewrite N.eqb_eq, Part, Spec. split.
      * intros H i Hi. destruct (N.lt_ge_cases i (n / 8 * 64)); [apply EF; assumption | apply H; lia].
      * intros H i Hi. apply H. lia.
    + f_equal. symmetry. apply Spec. intros i Hi. apply EF. subst rem. lia.
  - f_equal. symmetry. apply not_true_is_false. intro S0. pose proof (proj1 Spec S0) as S1.
    assert (T : forallb (fun k => getw v k =? srcWord bytes k) (nrange 0 (n / 8)) = true).
    { apply Full. intros i Hi. apply S1. lia. }
    congruence.
Qed.

(* ---- the range() iterator ---- *)
Lemma tb_iterReadLoop fuel w offset end_ k acc j :
  wordsok w -> offset <= end_ -> end_ - offset < N.of_nat fuel ->
  N.testbit (iterReadLoop fuel w offset end_ k acc) j
  = N.testbit acc j || ((k <=? j) && (j - k <? end_ - offset) && wbit w (offset + (j - k))).
Proof.
  revert offset k acc; induction fuel as [|f IH]; intros offset k acc Hw Ho Hf; [lia|].
  cbn [iterReadLoop]. destruct (N.eqb_spec offset end_) as [-> | Hne]; cbn [negb].
  - replace (end_ - end_) with 0 by lia.
    destruct (N.ltb_spec (j - k) 0); [lia|]. rewrite andb_false_r. cbn [andb]. rewrite orb_false_r. reflexivity.
  - set (step := N.min 64 (end_ - offset)).
    assert (Hs : 1 <= step <= 64 /\ offset + step <= end_) by (subst step; lia).
    rewrite IH by (try assumption; lia).
    rewrite N.lor_spec, tb_shl, tb_extractWP by (try assumption; lia).
    destruct (N.leb_spec k j); cbn [andb].
    + destruct (N.ltb_spec (j - k) step).
      * destruct (N.ltb_spec (j - k) (end_ - offset)); [|lia]. cbn [andb].
        destruct (N.leb_spec (k + step) j); [lia|]. cbn [andb]. rewrite orb_false_r. reflexivity.
      * cbn [andb]. rewrite orb_false_r.
        destruct (N.leb_spec (k + step) j); [|lia]. cbn [andb].
        destruct (N.ltb_spec (j - (k + step)) (end_ - (offset + step))),
                 (N.ltb_spec (j - k) (end_ - offset)); try lia; cbn [andb]; [|reflexivity].
        do 2 f_equal. lia.
    + rewrite orb_false_r. destruct (N.leb_spec (k + step) j); [lia|]. cbn [andb]. rewrite orb_false_r. reflexivity.
Qed.

Theorem iterRead_abs s p off size :
  wf s -> (p < length (planes s))%nat -> off + size <= bsize s ->
  iterRead s p off size = iterRead_spec (abs s) p off size.
Proof.
  intros W P Hin. unfold iterRead, iterRead_spec. rewrite splane_abs by exact P.
  pose proof (wfP_plane s p W P) as [_ Hw].
  apply N_of_bits_slice; [exact Hin|]. intro j.
  rewrite tb_iterReadLoop by (try assumption; lia).
  rewrite tb_0. cbn [orb]. destruct (N.leb_spec 0 j); [|lia]. cbn [andb].
  replace (j - 0) with j by lia. replace (off + size - off) with size by lia. reflexivity.
Qed.

Lemma length_iterWriteLoop fuel w offset end_ k v :
  length (iterWriteLoop fuel w offset end_ k v) = length w.
Proof.
  revert w offset k; induction fuel as [|f IH]; intros w offset k; cbn [iterWriteLoop]; [reflexivity|].
  destruct (negb (offset =? end_)); [|reflexivity]. rewrite IH. apply length_insertWP.
Qed.

Lemma wordsok_iterWriteLoop fuel w offset end_ k v :
  wordsok w -> wordsok (iterWriteLoop fuel w offset end_ k v).
Proof.
  revert w offset k; induction fuel as [|f IH]; intros w offset k H; cbn [iterWriteLoop]; [exact H|].
  destruct (negb (offset =? end_)); [|exact H]. apply IH. apply wordsok_insertWP. exact H.
Qed.

Lemma wbit_iterWriteLoop fuel w offset end_ k v i :
  wordsok w -> offset <= end_ -> end_ - offset < N.of_nat fuel -> end_ <= 64 * wlen w ->
  wbit (iterWriteLoop fuel w offset end_ k v) i
  = if (offset <=? i) && (i <? end_) then N.testbit v (k + (i - offset)) else wbit w i.
Proof.
  revert w offset k; induction fuel as [|f IH]; intros w offset k Hw Ho Hf Hin; [lia|].
  cbn [iterWriteLoop]. destruct (N.eqb_spec offset end_) as [-> | Hne]; cbn [negb].
  - destruct (N.leb_spec end_ i), (N.ltb_spec i end_); try lia; reflexivity.
  - set (step := N.min 64 (end_ - offset)).
    assert (Hs : 1 <= step <= 64 /\ offset + step <= end_) by (subst step; lia).
    rewrite IH; [| apply wordsok_insertWP; exact Hw | lia | lia
                 | unfold wlen; rewrite length_insertWP; exact Hin].
    rewrite wbit_insertWP by (try assumption; lia).
    rewrite tb_wrap64, tb_shr.
    destruct ((offset <=? i) && (i <? offset + step)) eqn:E.
    + split_cond E.
      destruct (N.leb_spec (offset + step) i); [lia|]. cbn [andb].
      destruct (N.leb_spec offset i); [|lia]. destruct (N.ltb_spec i end_); [|lia]. cbn [andb].
      destruct (N.ltb_spec (i - offset) 64); [|lia]. cbn [andb]. f_equal. lia.
    + destruct ((offset + step <=? i) && (i <? end_)) eqn:E'.
      * split_cond E'. destruct (N.leb_spec offset i); [|lia]. destruct (N.ltb_spec i end_); [|lia].
        cbn [andb]. f_equal. lia.
      * revert E E'. cmp_cases; bool_close; intros; try discriminate.
Qed.

Theorem abs_iterWrite s p off size v :
  wf s -> off + size <= bsize s ->
  abs (iterWrite s p off size v) = iterWrite_spec (abs s) p off size v.
Proof.
  intros W Hin. unfold iterWrite, iterWrite_spec. apply abs_on_plane. intro P.
  pose proof (wfP_plane s p W P) as Hw. pose proof (wfP_in _ _ Hw).
  apply absP_insert_bits; [exact Hin|]. intro i.
  rewrite wbit_iterWriteLoop; [| apply Hw | lia | lia | lia].
  replace (0 + (i - off)) with (i - off) by lia. reflexivity.
Qed.

Theorem wf_iterWrite s p off size v : wf s -> wf (iterWrite s p off size v).
Proof.
  intro H. apply wf_on_plane; [exact H|]. intro Hw.
  eapply wfP_length; [exact Hw | apply length_iterWriteLoop | apply wordsok_iterWriteLoop; apply Hw].
Qed.

Theorem clean_iterWrite s p off size v :
  wf s -> clean s -> off + size <= bsize s -> clean (iterWrite s p off size v).
Proof.
  intros W C Hin. apply clean_on_plane; [exact C|]. intros P Cp.
  pose proof (wfP_plane s p W P) as Hw. pose proof (wfP_in _ _ Hw).
  eapply cleanP_keep; [exact Cp|]. intros j Hj.
  rewrite wbit_iterWriteLoop; [| apply Hw | lia | lia | lia].
  destruct (N.leb_spec off j); cbn [andb]; [|reflexivity].
  destruct (N.ltb_spec j (off + size)); [lia | reflexivity].
Qed.

(* ---- operator== once more, as an equivalence ---- *)
Theorem eqS_true_iff a b :
  wf a -> wf b -> length (planes a) = length (planes b) -> planes a <> [] ->
  (eqS a b = true <-> bsize a = bsize b /\ abs a = abs b).
Proof.
  intros Wa Wb Hl Hne. rewrite eqS_abs by assumption. unfold eq_spec.
  rewrite (list_eqb_spec (list_eqb Bool.eqb) (list_eqb_spec Bool.eqb bool_eqb_spec)).
  split; [|intros [_ H]; exact H].
  intro H. split; [|exact H].
  unfold abs in H. destruct (planes a) as [|x pa]; [contradiction|].
  destruct (planes b) as [|y pb]; [discriminate|]. cbn [map] in H.
  assert (H0 : absP (bsize a) x = absP (bsize b) y) by (injection H; auto).
  assert (L : length (absP (bsize a) x) = length (absP (bsize b) y)) by (rewrite H0; reflexivity).
  rewrite !length_absP in L. lia.
Qed.
