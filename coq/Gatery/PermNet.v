(* C10 (A) — the circuit semantics of NetDefs does not depend on the storage order of the nodes.

   A NetDefs netlist is the node list in EVALUATION order and drivers are positions, so
   "the same circuit stored in another order" is: the node list permuted by some [p]
   (new position j holds the old node [nth j p]) with every driver position renamed
   accordingly ([permute_netlist]).  This is what Circuit::shuffleNodes() followed by the
   simulator's own topological sort amounts to, and what two constructions whose
   pointer-ordered containers iterate differently amount to.

   Main results, for every permutation p of the positions such that both orders are
   topologically valid ([topo_ok]), every register state, every input vector:
     eval_order_irrelevant      each node computes the same output values
     outputs_order_perm         the values shown at the output pins are the same multiset, and
     outputs_order_irrelevant   the same list when the output pins keep their relative order
     state_at_order_irrelevant  the register state after any number of cycles of any
                                schedule under any stimulus is the same
     out_at_order_irrelevant    hence the observable pin trace is the same.  *)
From Coq Require Import List Bool Arith Lia Permutation.
From Gatery Require Import Bits NodeSemDefs NodeSemReg NetDefs.
Import ListNotations.

Definition dn : node := mk_node (NOpaque []) [].

Definition rename_drv (f : nat -> nat) (d : option (nat * nat)) : option (nat * nat) :=
  match d with None => None | Some (p, port) => Some (f p, port) end.
Definition rename_node (f : nat -> nat) (n : node) : node :=
  mk_node (n_kind n) (map (rename_drv f) (n_ins n)).

(* position of x in p (length p when absent) *)
Fixpoint index_of (x : nat) (p : list nat) : nat :=
  match p with
  | [] => 0
  | y :: r => if y =? x then 0 else S (index_of x r)
  end.

(* new position j holds old node (nth j p); drivers are renamed old -> new position *)
Definition permute_netlist (p : list nat) (nl : netlist) : netlist :=
  map (fun old => rename_node (fun q => index_of q p) (nth old nl dn)) p.

Lemma index_of_In x p : In x p -> index_of x p < length p /\ nth (index_of x p) p 0 = x.
Proof.
  induction p as [|y r IH]; simpl; [tauto|]. intro H.
  destruct (y =? x) eqn:E.
  - apply Nat.eqb_eq in E. split; [lia|auto].
  - apply Nat.eqb_neq in E. destruct H as [H|H]; [congruence|]. destruct (IH H). split; [lia|auto].
Qed.

Lemma index_of_notin x p : ~ In x p -> index_of x p = length p.
Proof.
  induction p as [|y r IH]; simpl; auto. intro H.
  destruct (y =? x) eqn:E.
  - apply Nat.eqb_eq in E. exfalso. apply H. auto.
  - f_equal. apply IH. tauto.
Qed.

(* ------------------------------------------------------------------------------------ *)
Section Eval.
  Variable st : state.
  Variable ins : list bv.

  Definition step (v : vals) (n : node) : vals := v ++ [node_outputs st ins v n].
  Definition ce_from (v : vals) (nl : netlist) : vals := fold_left step nl v.

  Lemma comb_eval_ce nl : comb_eval nl st ins = ce_from [] nl.
  Proof. reflexivity. Qed.

  Lemma ce_from_length : forall nl v, length (ce_from v nl) = length v + length nl.
  Proof.
    induction nl as [|n r IH]; intro v; simpl; [lia|].
    unfold ce_from in *. simpl. rewrite IH. unfold step. rewrite app_length. simpl. lia.
  Qed.

  Lemma ce_from_prefix : forall nl v i, i < length v -> nth i (ce_from v nl) [] = nth i v [].
  Proof.
    induction nl as [|n r IH]; intros v i Hi; simpl; auto.
    unfold ce_from in *. simpl. rewrite IH.
    - unfold step. apply app_nth1; auto.
    - unfold step. rewrite app_length. simpl. lia.
  Qed.

  Definition agree_below (k : nat) (v w : vals) : Prop := forall i, i < k -> nth i v [] = nth i w [].

  Lemma lookup_agree k v w d : agree_below k v w -> drv_before k d = true -> lookup v d = lookup w d.
  Proof.
    intros Ha Hd. destruct d as [[p port]|]; simpl in *; auto.
    apply Nat.ltb_lt in Hd. rewrite (Ha p Hd). reflexivity.
  Qed.

  Lemma node_outputs_agree k v w n :
    agree_below k v w ->
    (forall kk, n_kind n = NComb kk -> forallb (drv_before k) (n_ins n) = true) ->
    node_outputs st ins v n = node_outputs st ins w n.
  Proof.
    intros Ha Hd. unfold node_outputs. destruct (n_kind n) eqn:E; auto.
    f_equal. apply map_ext_in. intros d Hin.
    specialize (Hd k0 eq_refl). rewrite forallb_forall in Hd. eapply lookup_agree; eauto.
  Qed.

  Lemma topo_from_nth : forall nl k i kk,
    topo_from k nl = true -> i < length nl -> n_kind (nth i nl dn) = NComb kk ->
    forallb (drv_before (k + i)) (n_ins (nth i nl dn)) = true.
  Proof.
    induction nl as [|n r IH]; intros k i kk Ht Hi Hk; simpl in *; [lia|].
    apply andb_prop in Ht as [Hn Hr].
    destruct i as [|i].
    - rewrite Nat.add_0_r. rewrite Hk in Hn. exact Hn.
    - replace (k + S i) with (S k + i) by lia. eapply IH; eauto. lia.
  Qed.

  (* the fold computes a CONSISTENT valuation: every node's outputs are node_outputs of the
     complete valuation *)
  Lemma ce_from_consistent : forall nl v,
    topo_from (length v) nl = true ->
    forall i, i < length nl ->
      nth (length v + i) (ce_from v nl) [] = node_outputs st ins (ce_from v nl) (nth i nl dn).
  Proof.
    induction nl as [|n r IH]; intros v Ht i Hi; simpl in Hi; [lia|].
    simpl in Ht. apply andb_prop in Ht as [Hn Hr].
    assert (Hlen : length (step v n) = S (length v)) by (unfold step; rewrite app_length; simpl; lia).
    change (ce_from v (n :: r)) with (ce_from (step v n) r).
    destruct i as [|i].
    - rewrite Nat.add_0_r. rewrite ce_from_prefix by lia.
      unfold step at 1. rewrite app_nth2 by lia. rewrite Nat.sub_diag. simpl.
      apply (node_outputs_agree (length v)).
      + intros j Hj. rewrite ce_from_prefix by lia. unfold step. symmetry. apply app_nth1; auto.
      + intros kk Hk. rewrite Hk in Hn. exact Hn.
    - replace (length v + S i) with (length (step v n) + i) by lia.
      simpl. apply IH; [rewrite Hlen; exact Hr|lia].
  Qed.

  Lemma comb_eval_consistent nl i :
    topo_ok nl = true -> i < length nl ->
    nth i (comb_eval nl st ins) [] = node_outputs st ins (comb_eval nl st ins) (nth i nl dn).
  Proof.
    intros Ht Hi. rewrite comb_eval_ce. apply (ce_from_consistent nl [] Ht i Hi).
  Qed.

  Lemma comb_eval_length nl : length (comb_eval nl st ins) = length nl.
  Proof. rewrite comb_eval_ce, ce_from_length. reflexivity. Qed.

  (* --- abstract renaming theorem --- *)
  Section Rename.
    Variables nl nl' : netlist.
    Variable f : nat -> nat.
    Hypothesis Hlen : length nl' = length nl.
    Hypothesis Hf : forall i, i < length nl -> f i < length nl /\ nth (f i) nl' dn = rename_node f (nth i nl dn).
    Hypothesis Hout : forall q, length nl <= q -> length nl <= f q.
    Hypothesis Ht : topo_ok nl = true.
    Hypothesis Ht' : topo_ok nl' = true.

    Let v := comb_eval nl st ins.
    Let v' := comb_eval nl' st ins.

    Lemma eval_rename : forall i, i < length nl -> nth (f i) v' [] = nth i v [].
    Proof.
      intro i. induction i as [i IH] using lt_wf_ind. intro Hi.
      destruct (Hf i Hi) as [Hfi Hnode].
      unfold v, v'. rewrite (comb_eval_consistent nl i Ht Hi).
      rewrite (comb_eval_consistent nl' (f i) Ht') by (rewrite Hlen; exact Hfi).
      rewrite Hnode. fold v v'.
      unfold node_outputs, rename_node. simpl.
      destruct (n_kind (nth i nl dn)) eqn:Ek; auto.
      f_equal. rewrite map_map. apply map_ext_in. intros d Hin.
      pose proof (topo_from_nth nl 0 i k Ht Hi Ek) as Hd. simpl in Hd.
      rewrite forallb_forall in Hd. specialize (Hd d Hin).
      destruct d as [[q port]|]; simpl in *; auto.
      apply Nat.ltb_lt in Hd. rewrite (IH q Hd) by lia. reflexivity.
    Qed.

    Lemma lookup_rename d : lookup v' (rename_drv f d) = lookup v d.
    Proof.
      destruct d as [[q port]|]; simpl; auto.
      destruct (Nat.lt_ge_cases q (length nl)) as [Hq|Hq].
      - rewrite (eval_rename q Hq). reflexivity.
      - rewrite (nth_overflow v) by (unfold v; rewrite comb_eval_length; lia).
        rewrite (nth_overflow v') by (unfold v'; rewrite comb_eval_length, Hlen; apply Hout; lia).
        reflexivity.
    Qed.
  End Rename.
End Eval.

(* ------------------------------------------------------------------------------------ *)
(* generic list facts *)
Lemma list_as_nth_map {A} (l : list A) (d : A) : l = map (fun i => nth i l d) (seq 0 (length l)).
Proof.
  apply (nth_ext _ _ d d).
  - rewrite map_length, seq_length. reflexivity.
  - intros i Hi.
    transitivity (nth i (map (fun i => nth i l d) (seq 0 (length l))) ((fun i => nth i l d) 0)).
    + rewrite (map_nth (fun i => nth i l d)), seq_nth by auto. reflexivity.
    + apply nth_indep. rewrite map_length, seq_length. auto.
Qed.

Lemma flat_map_map {A B C} (g : B -> list C) (h : A -> B) l : flat_map g (map h l) = flat_map (fun x => g (h x)) l.
Proof. induction l as [|x r IH]; simpl; auto. rewrite IH. reflexivity. Qed.

Lemma flat_map_filter {A B} (g : A -> list B) (h : A -> bool) l :
  (forall x, h x = false -> g x = []) -> flat_map g l = flat_map g (filter h l).
Proof.
  intro Hg. induction l as [|x r IH]; simpl; auto.
  destruct (h x) eqn:E; simpl; rewrite IH; auto. rewrite (Hg x E). reflexivity.
Qed.

Lemma flat_map_ext_in {A B} (g g' : A -> list B) l : (forall x, In x l -> g x = g' x) -> flat_map g l = flat_map g' l.
Proof.
  induction l as [|x r IH]; simpl; intro H; auto. rewrite H by auto. rewrite IH; auto.
Qed.

(* ------------------------------------------------------------------------------------ *)
Lemma flat_map_positions {B} (g : node -> list B) (nl : netlist) :
  flat_map g nl = flat_map (fun old => g (nth old nl dn)) (seq 0 (length nl)).
Proof.
  transitivity (flat_map g (map (fun i => nth i nl dn) (seq 0 (length nl)))).
  - f_equal. apply list_as_nth_map.
  - apply flat_map_map.
Qed.

Definition out_of (v : vals) (n : node) : list bv :=
  match n_kind n with
  | NPinOut w => [match lookup v (nth 0 (n_ins n) None) with Some x => bv_resize w x | None => all_X w end]
  | _ => []
  end.
Lemma outputs_flat nl v : outputs nl v = flat_map (out_of v) nl.
Proof. reflexivity. Qed.

Definition is_pinout (nl : netlist) (i : nat) : bool :=
  match n_kind (nth i nl dn) with NPinOut _ => true | _ => false end.

Definition reg_ords (nl : netlist) : list nat :=
  flat_map (fun n => match n_kind n with NReg _ o => [o] | _ => [] end) nl.

Lemma reg_node_In : forall nl n c ord,
  NoDup (reg_ords nl) -> In n nl -> n_kind n = NReg c ord -> reg_node nl ord = Some (c, n_ins n).
Proof.
  induction nl as [|m r IH]; intros n c ord Hn Hin Hk; simpl in *; [tauto|].
  destruct Hin as [->|Hin].
  - rewrite Hk. rewrite Nat.eqb_refl. reflexivity.
  - unfold reg_ords in Hn. simpl in Hn. fold (reg_ords r) in Hn.
    destruct (n_kind m) eqn:Em; try (apply IH; auto; fail).
    simpl in Hn. inversion Hn as [|? ? Hni Hr]; subst.
    destruct (ord0 =? ord) eqn:E.
    + apply Nat.eqb_eq in E. subst ord0. exfalso. apply Hni.
      unfold reg_ords. apply in_flat_map. exists n. split; auto. rewrite Hk. left; reflexivity.
    + apply IH; auto.
Qed.

Lemma reg_node_Some : forall nl ord c i,
  reg_node nl ord = Some (c, i) -> exists n, In n nl /\ n_kind n = NReg c ord /\ n_ins n = i.
Proof.
  induction nl as [|m r IH]; intros ord c i H; simpl in *; [discriminate|].
  destruct (n_kind m) eqn:Em; try (destruct (IH _ _ _ H) as [n [? ?]]; exists n; tauto).
  destruct (ord0 =? ord) eqn:E.
  - apply Nat.eqb_eq in E. subst. inversion H; subst. exists m. auto.
  - destruct (IH _ _ _ H) as [n [? ?]]; exists n; tauto.
Qed.

Lemma reg_node_None : forall nl ord,
  (forall n, In n nl -> forall c, n_kind n <> NReg c ord) -> reg_node nl ord = None.
Proof.
  induction nl as [|m r IH]; intros ord H; simpl; auto.
  destruct (n_kind m) eqn:Em; try (apply IH; intros; apply H; simpl; auto; fail).
  destruct (ord0 =? ord) eqn:E.
  - apply Nat.eqb_eq in E. subst. exfalso. apply (H m (or_introl eq_refl) c). exact Em.
  - apply IH. intros; apply H; simpl; auto.
Qed.

(* ------------------------------------------------------------------------------------ *)
Section Permuted.
  Variable nl : netlist.
  Variable p : list nat.
  Hypothesis Hp : Permutation p (seq 0 (length nl)).

  Let f := fun q => index_of q p.
  Let nl' := permute_netlist p nl.
  Let h := fun old => rename_node f (nth old nl dn).

  Lemma p_In i : In i p <-> i < length nl.
  Proof.
    split; intro H.
    - apply (Permutation_in _ Hp) in H. apply in_seq in H. lia.
    - apply (Permutation_in _ (Permutation_sym Hp)). apply in_seq. lia.
  Qed.
  Lemma p_length : length p = length nl.
  Proof. rewrite (Permutation_length Hp). apply seq_length. Qed.
  Lemma nl'_length : length nl' = length nl.
  Proof. unfold nl', permute_netlist. rewrite map_length. apply p_length. Qed.

  Lemma f_spec i : i < length nl -> f i < length nl /\ nth (f i) nl' dn = rename_node f (nth i nl dn).
  Proof.
    intro Hi. destruct (index_of_In i p (proj2 (p_In i) Hi)) as [H1 H2]. unfold f.
    split; [rewrite <- p_length; exact H1|].
    unfold nl', permute_netlist.
    rewrite (nth_indep _ dn (h 0)) by (rewrite map_length; exact H1).
    change (h 0) with ((fun old => rename_node (fun q => index_of q p) (nth old nl dn)) 0).
    rewrite map_nth. rewrite H2. reflexivity.
  Qed.

  Lemma f_out q : length nl <= q -> length nl <= f q.
  Proof.
    intro Hq. unfold f. rewrite index_of_notin; [rewrite p_length; lia|].
    intro Hin. apply p_In in Hin. lia.
  Qed.

  Hypothesis Ht : topo_ok nl = true.
  Hypothesis Ht' : topo_ok (permute_netlist p nl) = true.

  (* every node computes the same values in both orders *)
  Theorem eval_order_irrelevant st ins i :
    i < length nl ->
    nth (index_of i p) (comb_eval (permute_netlist p nl) st ins) [] = nth i (comb_eval nl st ins) [].
  Proof.
    intro Hi. exact (eval_rename st ins nl nl' f nl'_length f_spec Ht Ht' i Hi).
  Qed.

  Lemma lookup_order st ins d :
    lookup (comb_eval (permute_netlist p nl) st ins) (rename_drv f d) = lookup (comb_eval nl st ins) d.
  Proof. exact (lookup_rename st ins nl nl' f nl'_length f_spec f_out Ht Ht' d). Qed.

  Lemma out_of_h st ins old :
    out_of (comb_eval (permute_netlist p nl) st ins) (h old) = out_of (comb_eval nl st ins) (nth old nl dn).
  Proof.
    unfold out_of, h, rename_node. simpl. destruct (n_kind (nth old nl dn)); auto.
    change None with (rename_drv f None) at 1. rewrite map_nth. rewrite lookup_order. reflexivity.
  Qed.

  Lemma outputs_as_p st ins :
    outputs (permute_netlist p nl) (comb_eval (permute_netlist p nl) st ins)
    = flat_map (fun old => out_of (comb_eval nl st ins) (nth old nl dn)) p.
  Proof.
    transitivity (flat_map (fun old => out_of (comb_eval (permute_netlist p nl) st ins) (h old)) p).
    - rewrite outputs_flat. unfold permute_netlist at 2. apply flat_map_map.
    - apply flat_map_ext. intro old. apply out_of_h.
  Qed.

  Lemma outputs_as_seq v :
    outputs nl v = flat_map (fun old => out_of v (nth old nl dn)) (seq 0 (length nl)).
  Proof.
    rewrite outputs_flat. apply flat_map_positions.
  Qed.

  (* the output pins show the same values (as a multiset; the list order is the pin storage order) *)
  Theorem outputs_order_perm st ins :
    Permutation (outputs (permute_netlist p nl) (comb_eval (permute_netlist p nl) st ins))
                (outputs nl (comb_eval nl st ins)).
  Proof.
    rewrite outputs_as_p, outputs_as_seq. apply Permutation_flat_map. exact Hp.
  Qed.

  (* ... and the very same list when the output pins keep their relative storage order *)
  Hypothesis Hpins : filter (is_pinout nl) p = filter (is_pinout nl) (seq 0 (length nl)).

  Theorem outputs_order_irrelevant st ins :
    outputs (permute_netlist p nl) (comb_eval (permute_netlist p nl) st ins) = outputs nl (comb_eval nl st ins).
  Proof.
    rewrite outputs_as_p, outputs_as_seq.
    assert (Hz : forall x, is_pinout nl x = false -> out_of (comb_eval nl st ins) (nth x nl dn) = []).
    { intros x Hx. unfold is_pinout in Hx. unfold out_of. destruct (n_kind (nth x nl dn)); auto. discriminate. }
    rewrite (flat_map_filter _ (is_pinout nl) p Hz).
    rewrite (flat_map_filter _ (is_pinout nl) (seq 0 (length nl)) Hz).
    rewrite Hpins. reflexivity.
  Qed.

  (* --- registers --- *)
  Hypothesis Hregs : NoDup (reg_ords nl).

  Lemma reg_ords_perm : Permutation (reg_ords (permute_netlist p nl)) (reg_ords nl).
  Proof.
    unfold reg_ords. rewrite (flat_map_positions _ nl). unfold permute_netlist. rewrite flat_map_map. simpl.
    apply Permutation_flat_map. exact Hp.
  Qed.

  Lemma reg_cfgs_length : nregs (permute_netlist p nl) = nregs nl.
  Proof.
    unfold nregs, reg_cfgs. apply Permutation_length.
    rewrite (flat_map_positions _ nl). unfold permute_netlist. rewrite flat_map_map. simpl.
    apply Permutation_flat_map. exact Hp.
  Qed.

  Lemma reg_node_order ord :
    reg_node (permute_netlist p nl) ord
    = match reg_node nl ord with Some (c, i) => Some (c, map (rename_drv f) i) | None => None end.
  Proof.
    destruct (reg_node nl ord) as [[c i]|] eqn:E.
    - destruct (reg_node_Some _ _ _ _ E) as [n [Hin [Hk Hi]]].
      destruct (In_nth _ _ dn Hin) as [old [Hold Hn]].
      assert (Hin' : In (h old) (permute_netlist p nl)).
      { unfold permute_netlist. apply in_map_iff. exists old. split; auto. apply p_In; auto. }
      rewrite (reg_node_In _ (h old) c ord).
      + unfold h. simpl. rewrite Hn, Hi. reflexivity.
      + eapply Permutation_NoDup; [apply Permutation_sym, reg_ords_perm|exact Hregs].
      + exact Hin'.
      + unfold h. simpl. rewrite Hn. exact Hk.
    - apply reg_node_None. intros n Hin c Hk.
      unfold permute_netlist in Hin. apply in_map_iff in Hin as [old [Hn Hold]]. subst n. simpl in Hk.
      apply p_In in Hold.
      pose proof (reg_node_In nl (nth old nl dn) c ord Hregs (nth_In _ _ Hold) Hk) as H. congruence.
  Qed.

  Lemma edge_order st ins : edge (permute_netlist p nl) st ins = edge nl st ins.
  Proof.
    unfold edge. apply map_ext. intro ord. rewrite reg_node_order.
    destruct (reg_node nl ord) as [[c i]|]; auto.
    change None with (rename_drv f None). rewrite !map_nth. rewrite !lookup_order. reflexivity.
  Qed.

  Lemma reset_change_order hi st : reset_change (permute_netlist p nl) hi st = reset_change nl hi st.
  Proof.
    unfold reset_change. apply map_ext. intro ord. rewrite reg_node_order.
    destruct (reg_node nl ord) as [[c i]|]; auto.
  Qed.

  Lemma power_on_order : power_on (permute_netlist p nl) = power_on nl.
  Proof.
    unfold power_on. rewrite reg_cfgs_length. apply map_ext. intro ord. rewrite reg_node_order.
    destruct (reg_node nl ord) as [[c i]|]; auto.
  Qed.

  Lemma apply_events_order evs prev st : apply_events (permute_netlist p nl) prev st evs = apply_events nl prev st evs.
  Proof.
    unfold apply_events. revert st. induction evs as [|e r IH]; intro st; simpl; auto.
    rewrite IH. f_equal. destruct e; simpl; [apply edge_order|apply reset_change_order].
  Qed.

  Theorem state_at_order_irrelevant sc sigma t :
    state_at (permute_netlist p nl) sc sigma t = state_at nl sc sigma t.
  Proof.
    induction t as [|t IH]; simpl.
    - rewrite apply_events_order, power_on_order. reflexivity.
    - rewrite apply_events_order, IH. reflexivity.
  Qed.

  Theorem out_at_order_irrelevant sc sigma t :
    out_at (permute_netlist p nl) sc sigma t = out_at nl sc sigma t.
  Proof.
    unfold out_at, vals_at. rewrite state_at_order_irrelevant. apply outputs_order_irrelevant.
  Qed.
End Permuted.

(* Without the assumption on the pin order the trace is the same up to the order in which the
   pins are listed. *)
Theorem out_at_order_perm nl p sc sigma t :
  Permutation p (seq 0 (length nl)) -> topo_ok nl = true -> topo_ok (permute_netlist p nl) = true ->
  NoDup (reg_ords nl) ->
  Permutation (out_at (permute_netlist p nl) sc sigma t) (out_at nl sc sigma t).
Proof.
  intros Hp Ht Ht' Hr. unfold out_at, vals_at.
  rewrite (state_at_order_irrelevant nl p Hp Ht Ht' Hr). apply outputs_order_perm; auto.
Qed.
