(* C09 -- the circuit graph stays well formed under every mutation: model (no proofs here).

   Transcribed from
     hlim/NodeIO.cpp    connectInput / disconnectInput / resizeInputs / resizeOutputs /
                        bypassOutputToInput / setOutputConnectionType, rewireInput (NodeIO.h)
     hlim/Node.cpp      ~BaseNode, moveToGroup, addClock / attachClock / detachClock, addRef/removeRef (Node.h)
     hlim/coreNodes/Node_Signal.cpp   connectInput (the "type may not change while consumers are attached" guard)
     hlim/Circuit.h     createNode (ids from m_nextNodeId), createClock; NodeGroup::addChildNodeGroup
     hlim/Clock.h       m_clockedNodes is a *set* (utils::UnstableSet): emplace / erase
     hlim/Clock.cpp     setLogicClockDriver / setLogicResetDriver (m_clockDriver / m_resetDriver vs. the clock port of the
                        Node_Signal2Clk / Node_Signal2Rst), frontend Clock::overrideClkWith / overrideRstWith / reset(signal)

   A node reference is the node's id ([N], Circuit::m_nextNodeId); a destroyed node is simply absent
   from the store, so "refers to a destroyed node" = "mentions an id that has no entry".
   Port numbers, port counts and loop fuel are [nat].

   Every edge / membership relation of the C++ data structure is stored in BOTH directions, exactly
   as in C++ (m_inputPorts vs m_outputPorts[].connections, m_nodeGroup vs NodeGroup::m_nodes,
   m_clocks vs Clock::m_clockedNodes); the invariant says the two directions agree. *)
From Coq Require Import List NArith Arith Bool.
Import ListNotations.

Definition nport := (N * nat)%type.          (* NodePort: node id, port index *)

Definition nport_eq_dec : forall a b : nport, {a = b} + {a <> b}.
Proof. decide equality; [apply Nat.eq_dec | apply N.eq_dec]. Defined.

Definition onport_eq_dec : forall a b : option nport, {a = b} + {a <> b}.
Proof. decide equality; apply nport_eq_dec. Defined.

Definition oN_eq_dec : forall a b : option N, {a = b} + {a <> b}.
Proof. decide equality; apply N.eq_dec. Defined.

(* ConnectionType: interpretation (0 BOOL, 1 BITVEC, 2 DEPENDENCY) and width *)
Record ctype := mkCt { ct_kind : N; ct_width : N }.

Definition ctype_eq_dec : forall a b : ctype, {a = b} + {a <> b}.
Proof. decide equality; apply N.eq_dec. Defined.

Global Arguments nport_eq_dec : simpl never.
Global Arguments onport_eq_dec : simpl never.
Global Arguments oN_eq_dec : simpl never.
Global Arguments ctype_eq_dec : simpl never.

Definition default_ctype := mkCt 1 0.        (* ConnectionType{}: BITVEC, width 0 *)

(* ------------------------------------------------------------------------------------------ *)
(* association lists keyed by id; insertion order = creation order                            *)
(* ------------------------------------------------------------------------------------------ *)
Section AMap.
  Context {V : Type}.
  Definition amap := list (N * V).

  Fixpoint get (k : N) (m : amap) : option V :=
    match m with
    | [] => None
    | (k', v) :: r => if N.eqb k k' then Some v else get k r
    end.

  (* modify the entry of k, if there is one *)
  Fixpoint upd (k : N) (f : V -> V) (m : amap) : amap :=
    match m with
    | [] => []
    | (k', v) :: r => if N.eqb k k' then (k', f v) :: r else (k', v) :: upd k f r
    end.

  (* remove the (first) entry of k *)
  Fixpoint del (k : N) (m : amap) : amap :=
    match m with
    | [] => []
    | (k', v) :: r => if N.eqb k k' then r else (k', v) :: del k r
    end.

  Definition keys (m : amap) : list N := map fst m.
End AMap.
Arguments amap V : clear implicits.

(* ------------------------------------------------------------------------------------------ *)
(* list idioms of the C++ code                                                                *)
(* ------------------------------------------------------------------------------------------ *)
Section ListOps.
  Context {X : Type} (eqd : forall a b : X, {a = b} + {a <> b}).

  Definition memb (a : X) (l : list X) : bool := if in_dec eqd a l then true else false.

  (* it = std::find(begin, end, a);  std::swap( *it, back());  pop_back();
     (moveToGroup writes   *it = back(); pop_back();  which is the same list) *)
  Fixpoint swap_remove (a : X) (l : list X) : list X :=
    match l with
    | [] => []
    | x :: r =>
        if eqd a x then
          match r with
          | [] => []
          | y :: r' => last r y :: removelast r
          end
        else x :: swap_remove a r
    end.

  (* std::set::emplace / erase, on a duplicate-free list in insertion order *)
  Definition set_add (a : X) (l : list X) : list X := if in_dec eqd a l then l else l ++ [a].
  Definition set_erase (a : X) (l : list X) : list X := remove eqd a l.

  Fixpoint nodupb (l : list X) : bool :=
    match l with
    | [] => true
    | x :: r => negb (memb x r) && nodupb r
    end.
End ListOps.

Fixpoint upd_nth {X} (i : nat) (f : X -> X) (l : list X) {struct l} : list X :=
  match l, i with
  | [], _ => []
  | x :: r, O => f x :: r
  | x :: r, S i' => x :: upd_nth i' f r
  end.

(* std::vector::resize(k): truncate, or extend with value-initialised elements *)
Definition resize {X} (k : nat) (d : X) (l : list X) : list X :=
  firstn k l ++ repeat d (k - length l).

(* ------------------------------------------------------------------------------------------ *)
(* what a consumer requires of the types on its inputs (clause (ii))                          *)
(* Every constraint is guarded by "if the mentioned inputs are connected".                    *)
(* ------------------------------------------------------------------------------------------ *)
Inductive constr :=
| CEqOut (i o : nat)          (* type of the driver of input i = own output type o            *)
| CEqIn (i j : nat)           (* drivers of inputs i and j have the same type                  *)
| CKindEqIn (i j : nat)       (* ... the same interpretation                                   *)
| CKindEqOut (i o : nat)      (* driver of input i has the interpretation of own output o      *)
| CWidthLeOut (i o : nat)     (* driver of input i is not wider than own output o              *)
| CWidthIn (i : nat) (w : N)  (* driver of input i has width w                                 *)
| CWidthGe (i : nat) (w : N)  (* driver of input i has at least width w (rewire range)         *)
| CWidthEqIn (i j : nat).     (* drivers of inputs i and j have the same width                 *)

Definition constr_ok (tin tout : nat -> option ctype) (c : constr) : bool :=
  match c with
  | CEqOut i o =>
      match tin i with
      | None => true
      | Some t => match tout o with Some t' => if ctype_eq_dec t t' then true else false | None => false end
      end
  | CEqIn i j =>
      match tin i, tin j with
      | Some t, Some t' => if ctype_eq_dec t t' then true else false
      | _, _ => true
      end
  | CKindEqIn i j =>
      match tin i, tin j with
      | Some t, Some t' => N.eqb (ct_kind t) (ct_kind t')
      | _, _ => true
      end
  | CKindEqOut i o =>
      match tin i with
      | None => true
      | Some t => match tout o with Some t' => N.eqb (ct_kind t) (ct_kind t') | None => false end
      end
  | CWidthLeOut i o =>
      match tin i with
      | None => true
      | Some t => match tout o with Some t' => N.leb (ct_width t) (ct_width t') | None => false end
      end
  | CWidthIn i w => match tin i with Some t => N.eqb (ct_width t) w | None => true end
  | CWidthGe i w => match tin i with Some t => N.leb w (ct_width t) | None => true end
  | CWidthEqIn i j =>
      match tin i, tin j with
      | Some t, Some t' => N.eqb (ct_width t) (ct_width t')
      | _, _ => true
      end
  end.

(* ------------------------------------------------------------------------------------------ *)
(* the store                                                                                  *)
(* ------------------------------------------------------------------------------------------ *)
Record outport := mkOut {
  o_type : ctype;                  (* OutputPort::connectionType *)
  o_cons : list nport              (* OutputPort::connections, storage order *)
}.

Record node := mkNode {
  n_ins  : list (option nport);    (* NodeIO::m_inputPorts; None = {nullptr, INV_PORT} *)
  n_outs : list outport;           (* NodeIO::m_outputPorts *)
  n_grp  : option N;               (* BaseNode::m_nodeGroup *)
  n_clks : list (option N);        (* BaseNode::m_clocks *)
  n_ref  : N;                      (* BaseNode::m_refCounter *)
  n_req  : list constr;            (* what this node's kind requires of its input types *)
  n_role : N                       (* 0 ordinary, 1 Node_Signal2Clk, 2 Node_Signal2Rst (the nodes a Clock names as its logic drivers) *)
}.

Record group := mkGroup {
  gr_parent : option N;            (* NodeGroup::m_parent *)
  gr_nodes  : list N               (* NodeGroup::m_nodes, storage order *)
}.

Record graph := mkGraph {
  g_nodes  : amap node;            (* live nodes (Circuit::m_nodes) *)
  g_groups : amap group;           (* the group tree of this circuit *)
  g_clocks : amap (list nport);    (* Clock::m_clockedNodes of every clock of this circuit *)
  g_drv    : amap (option N * option N);   (* Clock::m_clockDriver, Clock::m_resetDriver of every clock *)
  g_next   : N;                    (* Circuit::m_nextNodeId *)
  g_gnext  : N;                    (* Circuit::m_nextGroupId *)
  g_cnext  : N                     (* Circuit::m_nextClockId *)
}.

Definition with_nodes g m := mkGraph m (g_groups g) (g_clocks g) (g_drv g) (g_next g) (g_gnext g) (g_cnext g).
Definition with_groups g m := mkGraph (g_nodes g) m (g_clocks g) (g_drv g) (g_next g) (g_gnext g) (g_cnext g).
Definition with_clocks g m := mkGraph (g_nodes g) (g_groups g) m (g_drv g) (g_next g) (g_gnext g) (g_cnext g).
Definition with_drv g m := mkGraph (g_nodes g) (g_groups g) (g_clocks g) m (g_next g) (g_gnext g) (g_cnext g).

Definition with_ins nd l := mkNode l (n_outs nd) (n_grp nd) (n_clks nd) (n_ref nd) (n_req nd) (n_role nd).
Definition with_outs nd l := mkNode (n_ins nd) l (n_grp nd) (n_clks nd) (n_ref nd) (n_req nd) (n_role nd).
Definition with_grp nd v := mkNode (n_ins nd) (n_outs nd) v (n_clks nd) (n_ref nd) (n_req nd) (n_role nd).
Definition with_clks nd l := mkNode (n_ins nd) (n_outs nd) (n_grp nd) l (n_ref nd) (n_req nd) (n_role nd).
Definition with_ref nd r := mkNode (n_ins nd) (n_outs nd) (n_grp nd) (n_clks nd) r (n_req nd) (n_role nd).

(* ---- the views: both directions of each relation, total on all ids ---- *)
Definition getn (g : graph) (n : N) : option node := get n (g_nodes g).

(* getDriver *)
Definition drv (g : graph) (a : nport) : option nport :=
  match getn g (fst a) with Some nd => nth (snd a) (n_ins nd) None | None => None end.

Definition outp (g : graph) (b : nport) : option outport :=
  match getn g (fst b) with Some nd => nth_error (n_outs nd) (snd b) | None => None end.

(* getDirectlyDriven *)
Definition cons (g : graph) (b : nport) : list nport :=
  match outp g b with Some o => o_cons o | None => [] end.

(* getOutputConnectionType *)
Definition otype (g : graph) (b : nport) : option ctype := option_map o_type (outp g b).

(* getGroup / NodeGroup::getNodes *)
Definition grp_of (g : graph) (n : N) : option N :=
  match getn g n with Some nd => n_grp nd | None => None end.
Definition members (g : graph) (gid : N) : list N :=
  match get gid (g_groups g) with Some gr => gr_nodes gr | None => [] end.

(* getClocks()[cp] / Clock::getClockedNodes *)
Definition clk_of (g : graph) (a : nport) : option N :=
  match getn g (fst a) with Some nd => nth (snd a) (n_clks nd) None | None => None end.
Definition clocked (g : graph) (c : N) : list nport :=
  match get c (g_clocks g) with Some l => l | None => [] end.

Definition in_validb (g : graph) (a : nport) : bool :=
  match getn g (fst a) with Some nd => Nat.ltb (snd a) (length (n_ins nd)) | None => false end.
Definition out_validb (g : graph) (b : nport) : bool :=
  match outp g b with Some _ => true | None => false end.
Definition clk_validb (g : graph) (a : nport) : bool :=
  match getn g (fst a) with Some nd => Nat.ltb (snd a) (length (n_clks nd)) | None => false end.
Definition liveb (g : graph) (n : N) : bool := match getn g n with Some _ => true | None => false end.
Definition groupb (g : graph) (gid : N) : bool := match get gid (g_groups g) with Some _ => true | None => false end.
Definition clockb (g : graph) (c : N) : bool := match get c (g_clocks g) with Some _ => true | None => false end.

(* ---- primitive writes (no-ops on absent ids / out-of-range ports) ---- *)
Definition upd_node (g : graph) (n : N) (f : node -> node) : graph := with_nodes g (upd n f (g_nodes g)).

Definition set_in g (a : nport) (v : option nport) :=
  upd_node g (fst a) (fun nd => with_ins nd (upd_nth (snd a) (fun _ => v) (n_ins nd))).
Definition set_cons g (b : nport) (l : list nport) :=
  upd_node g (fst b) (fun nd => with_outs nd (upd_nth (snd b) (fun o => mkOut (o_type o) l) (n_outs nd))).
Definition set_otype g (b : nport) (t : ctype) :=
  upd_node g (fst b) (fun nd => with_outs nd (upd_nth (snd b) (fun o => mkOut t (o_cons o)) (n_outs nd))).
Definition set_grp g (n : N) (v : option N) := upd_node g n (fun nd => with_grp nd v).
Definition set_members g (gid : N) (l : list N) :=
  with_groups g (upd gid (fun gr => mkGroup (gr_parent gr) l) (g_groups g)).
Definition set_clk g (a : nport) (v : option N) :=
  upd_node g (fst a) (fun nd => with_clks nd (upd_nth (snd a) (fun _ => v) (n_clks nd))).
Definition set_clocked g (c : N) (l : list nport) := with_clocks g (upd c (fun _ => l) (g_clocks g)).

(* ------------------------------------------------------------------------------------------ *)
(* NodeIO.cpp                                                                                 *)
(* ------------------------------------------------------------------------------------------ *)

(* void NodeIO::disconnectInput(size_t inputPort) *)
Definition disconnectInput (g : graph) (a : nport) : graph :=
  match drv g a with
  | None => g                                           (* if (inPort.node != nullptr) *)
  | Some b =>
      if memb nport_eq_dec a (cons g b)                 (* HCL_ASSERT(it != end): throws, nothing written *)
      then set_in (set_cons g b (swap_remove nport_eq_dec a (cons g b))) a None
      else g
  end.

(* void NodeIO::connectInput(size_t inputPort, const NodePort &output)   ( == rewireInput ) *)
Definition connectInput (g : graph) (a : nport) (out : option nport) : graph :=
  if onport_eq_dec (drv g a) out then g                 (* same driver: return *)
  else
    let g1 := match drv g a with Some _ => disconnectInput g a | None => g end in
    let g2 := set_in g1 a out in
    match out with
    | Some b => set_cons g2 b (cons g2 b ++ [a])        (* push_back *)
    | None => g2
    end.

(* void NodeIO::setOutputConnectionType: refuses (throws) to change the type while consumers are attached *)
Definition setOutputConnectionType (g : graph) (b : nport) (t : ctype) : graph :=
  match otype g b with
  | None => g
  | Some t0 =>
      if ctype_eq_dec t0 t then g
      else match cons g b with [] => set_otype g b t | _ :: _ => g end
  end.

(* void NodeIO::resizeInputs(size_t num) *)
Definition resizeInputs (g : graph) (n : N) (k : nat) : graph :=
  match getn g n with
  | None => g
  | Some nd =>
      let len := length (n_ins nd) in
      let g1 := fold_left (fun g i => disconnectInput g (n, i)) (seq k (len - k)) g in
      upd_node g1 n (fun nd => with_ins nd (resize k None (n_ins nd)))
  end.

(* while (!connections.empty()) { con = front(); con.node->disconnectInput(con.port); }
   fuel = number of consumers at loop entry (each iteration removes one under Inv) *)
Fixpoint drain (fuel : nat) (g : graph) (b : nport) : graph :=
  match fuel with
  | O => g
  | S f =>
      match cons g b with
      | [] => g
      | c :: _ => drain f (disconnectInput g c) b
      end
  end.

(* void NodeIO::resizeOutputs(size_t num) *)
Definition resizeOutputs (g : graph) (n : N) (k : nat) : graph :=
  match getn g n with
  | None => g
  | Some nd =>
      let len := length (n_outs nd) in
      let g1 := fold_left (fun g p => drain (length (cons g (n, p))) g (n, p)) (seq k (len - k)) g in
      upd_node g1 n (fun nd => with_outs nd (resize k (mkOut default_ctype []) (n_outs nd)))
  end.

(* while (!getDirectlyDriven(outputPort).empty()) { p = front(); p.node->connectInput(p.port, newSource); } *)
Fixpoint bypass_loop (fuel : nat) (g : graph) (b : nport) (src : option nport) : graph :=
  match fuel with
  | O => g
  | S f =>
      match cons g b with
      | [] => g
      | c :: _ => bypass_loop f (connectInput g c src) b src
      end
  end.

(* void NodeIO::bypassOutputToInput(size_t outputPort, size_t inputPort) *)
Definition bypassOutputToInput (g : graph) (n : N) (o i : nat) : graph :=
  bypass_loop (length (cons g (n, o))) g (n, o) (drv g (n, i)).

(* void Node_Signal::connectInput(const NodePort &nodePort): input 0 / output 0 *)
Definition signalConnect (g : graph) (n : N) (out : option nport) : graph :=
  match out with
  | None => connectInput g (n, 0) None
  | Some b =>
      match otype g b, otype g (n, 0) with
      | Some pt, Some my =>
          match cons g (n, 0) with
          | _ :: _ => if ctype_eq_dec pt my then connectInput g (n, 0) out else g     (* HCL_ASSERT_HINT *)
          | [] => connectInput (setOutputConnectionType g (n, 0) pt) (n, 0) out
          end
      | _, _ => g
      end
  end.

(* ------------------------------------------------------------------------------------------ *)
(* Node.cpp                                                                                   *)
(* ------------------------------------------------------------------------------------------ *)

(* void BaseNode::moveToGroup(NodeGroup *group) *)
Definition moveToGroup (g : graph) (n : N) (grp : option N) : graph :=
  if oN_eq_dec grp (grp_of g n) then g
  else
    let leave :=
      match grp_of g n with
      | None => Some g
      | Some old =>
          if memb N.eq_dec n (members g old)              (* HCL_ASSERT(it != end) *)
          then Some (set_members g old (swap_remove N.eq_dec n (members g old)))
          else None
      end in
    match leave with
    | None => g
    | Some g1 =>
        let g2 := set_grp g1 n grp in
        match grp with
        | Some new => set_members g2 new (members g2 new ++ [n])
        | None => g2
        end
    end.

(* void BaseNode::detachClock(size_t clockPort) *)
Definition detachClock (g : graph) (a : nport) : graph :=
  match clk_of g a with
  | None => g
  | Some c => set_clk (set_clocked g c (set_erase nport_eq_dec a (clocked g c))) a None
  end.

(* void BaseNode::attachClock(Clock *clk, size_t clockPort) *)
Definition attachClock (g : graph) (a : nport) (c : option N) : graph :=
  if oN_eq_dec (clk_of g a) c then g
  else
    let g1 := detachClock g a in
    let g2 := set_clk g1 a c in
    match c with
    | Some cid => set_clocked g2 cid (set_add nport_eq_dec a (clocked g2 cid))
    | None => g2
    end.

(* void BaseNode::addClock(Clock *clk): m_clocks.push_back(nullptr); attachClock(clk, size-1) *)
Definition addClock (g : graph) (n : N) (c : option N) : graph :=
  match getn g n with
  | None => g
  | Some nd =>
      let g1 := upd_node g n (fun nd => with_clks nd (n_clks nd ++ [None])) in
      attachClock g1 (n, length (n_clks nd)) c
  end.

Definition addRef (g : graph) (n : N) : graph := upd_node g n (fun nd => with_ref nd (N.succ (n_ref nd))).
Definition removeRef (g : graph) (n : N) : graph :=
  upd_node g n (fun nd => if N.eqb (n_ref nd) 0 then nd else with_ref nd (N.pred (n_ref nd))).

(* Circuit::createNode<T>(...) for a node with the given port counts; outputs start with the default type *)
Definition createNodeR (g : graph) (nin nout nclk : nat) (req : list constr) (role : N) : graph :=
  let nd := mkNode (repeat None nin) (repeat (mkOut default_ctype []) nout) None (repeat None nclk) 0 req role in
  mkGraph (g_nodes g ++ [(g_next g, nd)]) (g_groups g) (g_clocks g) (g_drv g) (N.succ (g_next g)) (g_gnext g) (g_cnext g).
Definition createNode (g : graph) (nin nout nclk : nat) (req : list constr) : graph := createNodeR g nin nout nclk req 0.

(* NodeGroup::addChildNodeGroup *)
Definition addGroup (g : graph) (parent : option N) : graph :=
  mkGraph (g_nodes g) (g_groups g ++ [(g_gnext g, mkGroup parent [])]) (g_clocks g) (g_drv g) (g_next g) (N.succ (g_gnext g)) (g_cnext g).

(* Circuit::createClock *)
Definition createClock (g : graph) : graph :=
  mkGraph (g_nodes g) (g_groups g) (g_clocks g ++ [(g_cnext g, [])]) (g_drv g ++ [(g_cnext g, (None, None))]) (g_next g) (g_gnext g) (N.succ (g_cnext g)).

(* Destruction of a node (erasing its unique_ptr from Circuit::m_nodes):
     ~BaseNode : moveToGroup(nullptr); for every clock port detachClock(i);
     ~NodeIO   : resizeInputs(0); resizeOutputs(0);
   then the memory is gone. *)
Definition destroyNode (g : graph) (n : N) : graph :=
  match getn g n with
  | None => g
  | Some nd =>
      let g1 := moveToGroup g n None in
      let g2 := fold_left (fun g cp => detachClock g (n, cp)) (seq 0 (length (n_clks nd))) g1 in
      let g3 := resizeInputs g2 n 0 in
      let g4 := resizeOutputs g3 n 0 in
      with_nodes g4 (del n (g_nodes g4))
  end.

(* ------------------------------------------------------------------------------------------ *)
(* Clock.cpp: the logic drivers of a clock (Clock::m_clockDriver / m_resetDriver)              *)
(* ------------------------------------------------------------------------------------------ *)
Definition clkdrv (g : graph) (c : N) : option N := match get c (g_drv g) with Some d => fst d | None => None end.
Definition rstdrv (g : graph) (c : N) : option N := match get c (g_drv g) with Some d => snd d | None => None end.
(* which = true: clock driver (role 1), false: reset driver (role 2) *)
Definition role_code (which : bool) : N := if which then 1%N else 2%N.
Definition drv_of (which : bool) (g : graph) (c : N) : option N := if which then clkdrv g c else rstdrv g c.
Definition role_of (g : graph) (n : N) : N := match getn g n with Some nd => n_role nd | None => 0%N end.
(* the clock a Signal2Clk / Signal2Rst node is bound to (its clock port 0) *)
Definition drvnode_of (which : bool) (g : graph) (n : N) : option N :=
  if N.eqb (role_of g n) (role_code which) then clk_of g (n, 0) else None.
Definition olist {X} (o : option X) : list X := match o with Some x => [x] | None => [] end.

Definition set_drv (g : graph) (c : N) (which : bool) (v : option N) : graph :=
  with_drv g (upd c (fun d => if which then (v, snd d) else (fst d, v)) (g_drv g)).

(* void Clock::setLogicClockDriver(Node_Signal2Clk *driver) / setLogicResetDriver(Node_Signal2Rst *driver):
     if (m_xDriver != nullptr) m_xDriver->setClock(nullptr);   m_xDriver = driver;   m_xDriver->setClock(this);
   (Node_Signal2Clk::setClock(clk) = attachClock(clk, 0)) *)
Definition setLogicDriver (which : bool) (g : graph) (c : N) (n : N) : graph :=
  let g1 := match drv_of which g c with Some old => attachClock g (old, 0) None | None => g end in
  let g2 := set_drv g1 c which (Some n) in
  attachClock g2 (n, 0) (Some c).

(* ------------------------------------------------------------------------------------------ *)
(* clause (ii): types                                                                         *)
(* ------------------------------------------------------------------------------------------ *)
Definition tin (g : graph) (nd : node) (i : nat) : option ctype :=
  match nth i (n_ins nd) None with Some b => otype g b | None => None end.
Definition tout (nd : node) (o : nat) : option ctype := option_map o_type (nth_error (n_outs nd) o).

Definition node_okb (g : graph) (nd : node) : bool := forallb (constr_ok (tin g nd) (tout nd)) (n_req nd).
Definition node_ok_at (g : graph) (n : N) : bool :=
  match getn g n with Some nd => node_okb g nd | None => true end.

(* ------------------------------------------------------------------------------------------ *)
(* operations of the public interface, their C++ preconditions, sequences                     *)
(* ------------------------------------------------------------------------------------------ *)
Inductive op :=
| OCreate (nin nout nclk : nat) (req : list constr) (grp : option N)   (* createNode, then moveToGroup(grp) *)
| OAddGroup (parent : N)
| OCreateClock
| OConnect (a : nport) (src : option nport)        (* NodeIO::connectInput / rewireInput *)
| ODisconnect (a : nport)
| OSignalConnect (n : N) (src : option nport)
| OSetType (b : nport) (t : ctype)
| OResizeIn (n : N) (k : nat)
| OResizeOut (n : N) (k : nat)
| OBypass (n : N) (o i : nat)
| OMoveToGroup (n : N) (grp : option N)
| OAddClock (n : N) (c : option N)
| OAttachClock (a : nport) (c : option N)
| ODetachClock (a : nport)
| OAddRef (n : N)
| ORemoveRef (n : N)
| ODestroy (n : N)
| OCreateDriver (which : bool) (grp : option N)     (* createNode<Node_Signal2Clk / Node_Signal2Rst>, then moveToGroup(grp) *)
| OSetDriver (which : bool) (c : N) (n : N).        (* Clock::setLogicClockDriver / setLogicResetDriver *)

Definition exec (g : graph) (o : op) : graph :=
  match o with
  | OCreate nin nout nclk req grp => moveToGroup (createNode g nin nout nclk req) (g_next g) grp
  | OAddGroup p => addGroup g (Some p)
  | OCreateClock => createClock g
  | OConnect a src => connectInput g a src
  | ODisconnect a => disconnectInput g a
  | OSignalConnect n src => signalConnect g n src
  | OSetType b t => setOutputConnectionType g b t
  | OResizeIn n k => resizeInputs g n k
  | OResizeOut n k => resizeOutputs g n k
  | OBypass n o i => bypassOutputToInput g n o i
  | OMoveToGroup n grp => moveToGroup g n grp
  | OAddClock n c => addClock g n c
  | OAttachClock a c => attachClock g a c
  | ODetachClock a => detachClock g a
  | OAddRef n => addRef g n
  | ORemoveRef n => removeRef g n
  | ODestroy n => destroyNode g n
  | OCreateDriver which grp => moveToGroup (createNodeR g 1 0 1 [] (role_code which)) (g_next g) grp
  | OSetDriver which c n => setLogicDriver which g c n
  end.

Definition ogroupb g (grp : option N) := match grp with Some x => groupb g x | None => true end.
Definition oclockb g (c : option N) := match c with Some x => clockb g x | None => true end.
Definition osrcb g (src : option nport) := match src with Some b => out_validb g b | None => true end.

(* nodes whose own type requirement may be affected: the caller is responsible for them (NodeIO does
   not look at types); every other node is provably unaffected. *)
Definition touched (g : graph) (o : op) : list N :=
  match o with
  | OConnect a _ => [fst a]
  | OSignalConnect n _ => [n]
  | OSetType b _ => [fst b]
  | OResizeOut n _ => [n]
  | OBypass n o _ => map fst (cons g (n, o))
  | _ => []
  end.

(* the structural C++ preconditions: in-bounds ports, existing objects, and the guards the code asserts *)
Definition op_struct_pre (g : graph) (o : op) : bool :=
  match o with
  | OCreate _ _ _ _ grp => ogroupb g grp
  | OAddGroup p => groupb g p
  | OCreateClock => true
  | OConnect a src => in_validb g a && osrcb g src
  | ODisconnect a => in_validb g a
  | OSignalConnect n src =>
      in_validb g (n, 0) && out_validb g (n, 0) && osrcb g src &&
      match src with
      | Some b => match cons g (n, 0) with
                  | [] => true
                  | _ :: _ => match otype g b, otype g (n, 0) with
                              | Some x, Some y => if ctype_eq_dec x y then true else false
                              | _, _ => false
                              end
                  end
      | None => true
      end
  | OSetType b t =>
      out_validb g b &&
      match otype g b with
      | Some t0 => if ctype_eq_dec t0 t then true else match cons g b with [] => true | _ => false end
      | None => false
      end
  | OResizeIn n _ => liveb g n
  | OResizeOut n _ => liveb g n
  | OBypass n o i => in_validb g (n, i) && out_validb g (n, o) &&
                     (if onport_eq_dec (drv g (n, i)) (Some (n, o)) then false else true)
  | OMoveToGroup n grp => liveb g n && ogroupb g grp
  | OAddClock n c => liveb g n && oclockb g c
  | OAttachClock a c => clk_validb g a && oclockb g c
  | ODetachClock a => clk_validb g a
  | OAddRef n => liveb g n
  | ORemoveRef n => match getn g n with Some nd => negb (N.eqb (n_ref nd) 0) | None => false end
  | ODestroy n => match getn g n with Some nd => N.eqb (n_ref nd) 0 | None => false end   (* HCL_ASSERT_NOTHROW(m_refCounter == 0) *)
  | OCreateDriver _ grp => ogroupb g grp
  | OSetDriver which c n =>
      clockb g c && liveb g n && clk_validb g (n, 0) && N.eqb (role_of g n) (role_code which) &&
      (match drv_of which g c with Some old => clk_validb g (old, 0) | None => true end) &&     (* the old driver is alive *)
      (* the node is fresh (bound to nothing), or it is re-bound to the clock it already drives *)
      (match clk_of g (n, 0) with None => true | Some _ => false end || (if oN_eq_dec (drv_of which g c) (Some n) then true else false))
  end.

(* Binding of Signal2Clk / Signal2Rst nodes to a clock goes through Clock::setLogic*Driver only; a node that is
   still named by a clock as its driver is not destroyed (it has side effects, no pass culls it; ~BaseNode does
   not reset Clock::m_clockDriver). *)
Definition op_role_pre (g : graph) (o : op) : bool :=
  match o with
  | OAddClock n _ => N.eqb (role_of g n) 0
  | OAttachClock a _ => N.eqb (role_of g (fst a)) 0
  | ODetachClock a => N.eqb (role_of g (fst a)) 0
  | ODestroy n => N.eqb (role_of g n) 0 || match clk_of g (n, 0) with None => true | Some _ => false end
  | _ => true
  end.

Definition op_pre (g : graph) (o : op) : bool :=
  op_struct_pre g o && op_role_pre g o && forallb (node_ok_at (exec g o)) (touched g o).

(* A call whose precondition fails is not performed (the C++ either throws before writing or the
   call is outside the interface contract). *)
Definition step (g : graph) (o : op) : graph := if op_pre g o then exec g o else g.
Definition run (g : graph) (ops : list op) : graph := fold_left step ops g.

Definition empty_graph : graph := mkGraph [] [(0%N, mkGroup None [])] [] [] 0 1 0.    (* Circuit::Circuit: root group *)

(* ------------------------------------------------------------------------------------------ *)
(* the boolean checker run on every dump                                                      *)
(* ------------------------------------------------------------------------------------------ *)
Definition count_np (a : nport) (l : list nport) : nat := count_occ nport_eq_dec l a.
Definition count_N (a : N) (l : list N) : nat := count_occ N.eq_dec l a.

Definition all_below (bound : N) (l : list N) : bool := forallb (fun k => N.ltb k bound) l.

Definition ids_check (g : graph) : bool :=
  nodupb N.eq_dec (keys (g_nodes g)) && nodupb N.eq_dec (keys (g_groups g)) && nodupb N.eq_dec (keys (g_clocks g)) &&
  all_below (g_next g) (keys (g_nodes g)) && all_below (g_gnext g) (keys (g_groups g)) && all_below (g_cnext g) (keys (g_clocks g)).

Fixpoint forallb_i {X} (f : nat -> X -> bool) (i : nat) (l : list X) : bool :=
  match l with
  | [] => true
  | x :: r => f i x && forallb_i f (S i) r
  end.

(* every connected input occurs exactly once among its driver's consumers *)
Definition edges_fwd_check (g : graph) : bool :=
  forallb (fun kv =>
    forallb_i (fun i d => match d with
                          | None => true
                          | Some b => Nat.eqb (count_np (fst kv, i) (cons g b)) 1
                          end) 0 (n_ins (snd kv))) (g_nodes g).

(* every consumer entry is an input that names this output as its driver *)
Definition edges_bwd_check (g : graph) : bool :=
  forallb (fun kv =>
    forallb_i (fun p o => forallb (fun a => if onport_eq_dec (drv g a) (Some (fst kv, p)) then true else false) (o_cons o))
              0 (n_outs (snd kv))) (g_nodes g).

Definition groups_fwd_check (g : graph) : bool :=
  forallb (fun kv => match n_grp (snd kv) with
                     | None => true
                     | Some gid => Nat.eqb (count_N (fst kv) (members g gid)) 1
                     end) (g_nodes g).

Definition groups_bwd_check (g : graph) : bool :=
  forallb (fun kv => forallb (fun n => if oN_eq_dec (grp_of g n) (Some (fst kv)) then true else false) (gr_nodes (snd kv)))
          (g_groups g).

Definition parents_check (g : graph) : bool :=
  forallb (fun kv => ogroupb g (gr_parent (snd kv))) (g_groups g).

Definition clocks_fwd_check (g : graph) : bool :=
  forallb (fun kv =>
    forallb_i (fun cp c => match c with
                           | None => true
                           | Some cid => Nat.eqb (count_np (fst kv, cp) (clocked g cid)) 1
                           end) 0 (n_clks (snd kv))) (g_nodes g).

Definition clocks_bwd_check (g : graph) : bool :=
  forallb (fun kv => forallb (fun a => if oN_eq_dec (clk_of g a) (Some (fst kv)) then true else false) (snd kv))
          (g_clocks g).

Definition types_check (g : graph) : bool := forallb (fun kv => node_okb g (snd kv)) (g_nodes g).

Definition inv_check (g : graph) : bool :=
  ids_check g && edges_fwd_check g && edges_bwd_check g && groups_fwd_check g && groups_bwd_check g &&
  parents_check g && clocks_fwd_check g && clocks_bwd_check g && types_check g.

(* at every construction-step / pass boundary every node additionally sits in a group *)
Definition grouped_check (g : graph) : bool :=
  forallb (fun kv => match n_grp (snd kv) with Some _ => true | None => false end) (g_nodes g).

Definition wf_check (g : graph) : bool := inv_check g && grouped_check g.

(* ------------------------------------------------------------------------------------------ *)
(* the invariant                                                                              *)
(* ------------------------------------------------------------------------------------------ *)

(* the two directions of a relation agree:  f a = Some b  <->  a occurs exactly once in L b,
   and nothing else occurs in any L b *)
Definition consistent {A B : Type} (eqd : forall x y : A, {x = y} + {x <> y})
           (f : A -> option B) (L : B -> list A) : Prop :=
  forall a b, (f a = Some b -> count_occ eqd (L b) a = 1) /\ (f a <> Some b -> count_occ eqd (L b) a = 0).

Definition ids_ok (g : graph) : Prop :=
  NoDup (keys (g_nodes g)) /\ NoDup (keys (g_groups g)) /\ NoDup (keys (g_clocks g)) /\
  (forall k, In k (keys (g_nodes g)) -> (k < g_next g)%N) /\
  (forall k, In k (keys (g_groups g)) -> (k < g_gnext g)%N) /\
  (forall k, In k (keys (g_clocks g)) -> (k < g_cnext g)%N).

Definition types_ok (g : graph) : Prop := forall n nd, getn g n = Some nd -> node_okb g nd = true.

Definition parents_ok (g : graph) : Prop :=
  forall gid gr p, get gid (g_groups g) = Some gr -> gr_parent gr = Some p -> groupb g p = true.

Record Inv (g : graph) : Prop := mkInv {
  inv_edges  : consistent nport_eq_dec (drv g) (cons g);          (* (i)   *)
  inv_types  : types_ok g;                                        (* (ii)  *)
  inv_groups : consistent N.eq_dec (grp_of g) (members g);        (* (iii) *)
  inv_parents : parents_ok g;
  inv_clocks : consistent nport_eq_dec (clk_of g) (clocked g);    (* (iv)  *)
  inv_ids    : ids_ok g                                           (* (v)   *)
}.
(* (vi) "nothing refers to a destroyed node" is a consequence of (i),(iii),(iv) because the views of an
   absent id are None / []: see WfProofs.no_dangling. *)

Definition AllGrouped (g : graph) : Prop := forall n nd, getn g n = Some nd -> n_grp nd <> None.

(* ------------------------------------------------------------------------------------------ *)
(* clause (vii): a clock and its logic driver nodes name each other                           *)
(*   m_clockDriver = n  <->  n is a live Node_Signal2Clk whose clock port 0 is this clock      *)
(*   (so: no dangling driver, no driver registered elsewhere, no stale second driver)          *)
(* ------------------------------------------------------------------------------------------ *)
Definition drivers_ok (g : graph) : Prop :=
  keys (g_drv g) = keys (g_clocks g) /\
  consistent N.eq_dec (drvnode_of true g) (fun c => olist (clkdrv g c)) /\
  consistent N.eq_dec (drvnode_of false g) (fun c => olist (rstdrv g c)).

Fixpoint keys_eqb (a b : list N) : bool :=
  match a, b with
  | [], [] => true
  | x :: r, y :: r' => N.eqb x y && keys_eqb r r'
  | _, _ => false
  end.

(* every bound driver node is named by its clock *)
Definition drivers_fwd_check (g : graph) : bool :=
  forallb (fun kv =>
    let r := n_role (snd kv) in
    if N.eqb r 1 then match nth 0 (n_clks (snd kv)) None with
                      | Some c => if oN_eq_dec (clkdrv g c) (Some (fst kv)) then true else false
                      | None => true end
    else if N.eqb r 2 then match nth 0 (n_clks (snd kv)) None with
                      | Some c => if oN_eq_dec (rstdrv g c) (Some (fst kv)) then true else false
                      | None => true end
    else true) (g_nodes g).

(* every named driver is a live node of the right class bound to exactly this clock *)
Definition drivers_bwd_check (g : graph) : bool :=
  forallb (fun kv =>
    (match fst (snd kv) with Some n => if oN_eq_dec (drvnode_of true g n) (Some (fst kv)) then true else false | None => true end) &&
    (match snd (snd kv) with Some n => if oN_eq_dec (drvnode_of false g n) (Some (fst kv)) then true else false | None => true end))
  (g_drv g).

Definition drivers_check (g : graph) : bool :=
  keys_eqb (keys (g_drv g)) (keys (g_clocks g)) && drivers_fwd_check g && drivers_bwd_check g.

(* the checker run on the dumps of the real circuit *)
Definition wfd_check (g : graph) : bool := wf_check g && drivers_check g.
Definition invd_check (g : graph) : bool := inv_check g && drivers_check g.

(* ------------------------------------------------------------------------------------------ *)
(* requirement table per node kind (used when a dump of the real circuit is imported)         *)
(*   Node_Signal / forwarding support nodes : connectInput sets the output type to the driver's *)
(*   Node_Logic::updateConnectionType       : both operands equal, output = operand type      *)
(*   Node_Multiplexer::connectInput         : output type = data input type                   *)
(*   Node_Register::connectInput            : DATA, RESET_VALUE set the output type           *)
(*   Node_Compare / Node_Arithmetic         : same interpretation; arithmetic output = max width *)
(*   Node_Shift::connectOperand, Node_PriorityConditional, Node_Rewire (ranges inside the input) *)
(*   Node_MemPort::connectAddress (address = Log2C(depth) bits), data width, 1 bit enables;    *)
(*   Node_Memory initialization data width                                                      *)
(* ------------------------------------------------------------------------------------------ *)
Inductive kind :=
| KOther
| KForward                    (* Signal, Attributes, CDC, RegHint, RetimingBlocker, ExportOverride(in 0) *)
| KLogic1 | KLogic2
| KMux (ndata : nat)
| KReg
| KCompare
| KArith (nin : nat)
| KShift
| KPrio (nchoices : nat)
| KPinOut (w : N)
| KRewire (ranges : list (nat * N))    (* (input index, offset + subwidth) of every INPUT range *)
| KMemPort (abits dbits : N)           (* Node_MemPort: getExpectedAddressBits() = Log2C(depth), getBitWidth() *)
| KMemory (initw : N).                 (* Node_Memory: getInitializationDataWidth() *)

Fixpoint pairs_from (i : nat) (js : list nat) : list constr :=
  match js with
  | [] => []
  | j :: r => CKindEqIn i j :: pairs_from i r
  end.
Fixpoint all_pairs (is : list nat) : list constr :=
  match is with
  | [] => []
  | i :: r => pairs_from i r ++ all_pairs r
  end.

Definition kind_req (k : kind) : list constr :=
  match k with
  | KOther => []
  | KForward => [CEqOut 0 0]
  | KLogic1 => [CEqOut 0 0]
  | KLogic2 => [CEqIn 0 1; CEqOut 0 0; CEqOut 1 0]
  | KMux n => map (fun k => CEqOut (S k) 0) (seq 0 n)
  | KReg => [CEqOut 0 0; CEqOut 1 0; CWidthIn 2 1]
  | KCompare => [CKindEqIn 0 1; CWidthEqIn 0 1]
  | KArith n => all_pairs (seq 0 n) ++ map (fun i => CKindEqOut i 0) (seq 0 n) ++ map (fun i => CWidthLeOut i 0) (seq 0 n)
  | KShift => [CEqOut 0 0]
  | KPrio n => CEqOut 0 0 :: map (fun k => CEqOut (2 + 2 * k) 0) (seq 0 n)
  | KPinOut w => [CWidthIn 0 w]
  | KRewire rs => map (fun r => CWidthGe (fst r) (snd r)) rs
  (* Node_MemPort::Inputs: enable 0, wrEnable 1, address 2, wrData 3; connectAddress asserts the address width, the
     simulator reads address / data with exactly these widths *)
  | KMemPort ab db => [CWidthIn 0 1; CWidthIn 1 1; CWidthIn 2 ab; CWidthIn 3 db]
  | KMemory w => [CWidthIn 0 w]        (* INITIALIZATION_DATA *)
  end.
