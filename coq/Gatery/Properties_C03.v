(* C03 (node level): every operator node evaluates to its integer / bit-vector definition
   modulo 2^w, for all operand values and ALL widths (0, <= 64, > 64).  The model `eval`
   (NodeSemDefs.v) contains both the uint64 path (explicit mod 2^64) and the BigInt path of the
   C++; each theorem below holds for every width, hence also proves that the two paths agree.
   Only statements, `exact`, and Print Assumptions in this file. *)
From Gatery Require Import Bits NodeSemDefs NodeSemBits NodeSemSpec NodeSemSpecArith NodeSemSpecShift.
Import ListNotations.

(* ---------- output widths ---------- *)
Theorem eval_length : forall k xs, map (@length tbit) (eval k xs) = out_widths k.
Proof. exact NodeSemSpec.eval_length. Qed.
Print Assumptions eval_length.

(* ---------- Node_Logic ---------- *)
(* fully defined operands: the bitwise operation on the operand values *)
Theorem eval_logic_spec : forall op w a b va vb,
  length a = w -> length b = w -> bv_val a = Some va -> bv_val b = Some vb ->
  eval (KLogic op w) [Some a; Some b] = [bv_of_N w (logic_N op w va vb)].
Proof. exact NodeSemSpec.eval_logic_spec. Qed.
Print Assumptions eval_logic_spec.
Example eval_logic_spec_ex :
  eval (KLogic L_NAND 3) [Some [B1; B0; B1]; Some [B1; B1; B0]] = [bv_of_N 3 (logic_N L_NAND 3 5 3)]
  /\ bv_of_N 3 (logic_N L_NAND 3 5 3) = [B0; B1; B1].
Proof. split; reflexivity. Qed.

(* any operands: the exact per-bit definedness rule (Kleene tables: 0 dominates AND, 1 dominates OR;
   an unconnected operand is all-undefined) *)
Theorem eval_logic_rule : forall op w xs,
  eval (KLogic op w) xs =
  [bv_build w (fun i => logic_tbl op (bv_get (opt_bits (inp xs 0)) i)
                                     (bv_get (match op with L_NOT => [] | _ => opt_bits (inp xs 1) end) i))].
Proof. exact NodeSemSpec.eval_logic_rule. Qed.
Print Assumptions eval_logic_rule.
Example eval_logic_rule_ex : eval (KLogic L_AND 3) [Some [B0; BX; B1]; Some [BX; BX; BX]] = [[B0; BX; BX]].
Proof. reflexivity. Qed.

(* ---------- Node_Arithmetic ---------- *)
(* any number of fully defined operands of any widths: the left fold over the integers modulo 2^w;
   a zero divisor anywhere makes the result undefined.  For DIV/REM no operand is wider than the output. *)
Theorem eval_arith_spec : forall op w xs vs,
  arith_operands xs = Some vs ->
  (is_divrem op = true -> Forall (fun v => (v < 2 ^ N.of_nat w)%N) vs) ->
  eval (KArith op w) xs =
  [match arith_math op vs with
   | Some z => bv_of_N w (Z.to_N (z mod 2 ^ Z.of_nat w))
   | None => all_X w
   end].
Proof. exact NodeSemSpecArith.eval_arith_spec. Qed.
Print Assumptions eval_arith_spec.
(* 3 - 5 - 1 over 70 bits: negative intermediate results on the BigInt path *)
Example eval_arith_spec_ex :
  arith_operands [Some (bv_of_N 70 3); Some (bv_of_N 70 5); Some (bv_of_N 70 1)] = Some [3; 5; 1]%N
  /\ eval (KArith A_SUB 70) [Some (bv_of_N 70 3); Some (bv_of_N 70 5); Some (bv_of_N 70 1)]
     = [bv_of_N 70 (2 ^ 70 - 3)].
Proof. split; vm_compute; reflexivity. Qed.

Theorem eval_arith_undef : forall op w xs,
  arith_operands xs = None -> eval (KArith op w) xs = [all_X w].
Proof. exact NodeSemSpecArith.eval_arith_undef. Qed.
Print Assumptions eval_arith_undef.

Theorem arith_operands_none_iff : forall xs,
  arith_operands xs = None <-> exists o, In o xs /\ (o = None \/ exists x, o = Some x /\ bv_val x = None).
Proof. exact NodeSemSpecArith.arith_operands_none_iff. Qed.
Print Assumptions arith_operands_none_iff.

Theorem eval_add_spec : forall w a b va vb,
  bv_val a = Some va -> bv_val b = Some vb ->
  eval (KArith A_ADD w) [Some a; Some b] = [bv_of_N w ((va + vb) mod 2 ^ N.of_nat w)%N].
Proof. exact NodeSemSpecArith.eval_add_spec. Qed.
Print Assumptions eval_add_spec.

Theorem eval_sub_spec : forall w a b va vb,
  bv_val a = Some va -> bv_val b = Some vb ->
  eval (KArith A_SUB w) [Some a; Some b] = [bv_of_N w (Z.to_N ((Z.of_N va - Z.of_N vb) mod 2 ^ Z.of_nat w))].
Proof. exact NodeSemSpecArith.eval_sub_spec. Qed.
Print Assumptions eval_sub_spec.

Theorem eval_mul_spec : forall w a b va vb,
  bv_val a = Some va -> bv_val b = Some vb ->
  eval (KArith A_MUL w) [Some a; Some b] = [bv_of_N w ((va * vb) mod 2 ^ N.of_nat w)%N].
Proof. exact NodeSemSpecArith.eval_mul_spec. Qed.
Print Assumptions eval_mul_spec.

(* division by zero: what the code gives is an all-undefined result *)
Theorem eval_div_spec : forall w a b va vb,
  length a = w -> length b = w -> bv_val a = Some va -> bv_val b = Some vb ->
  eval (KArith A_DIV w) [Some a; Some b] = [if (vb =? 0)%N then all_X w else bv_of_N w (va / vb)%N].
Proof. exact NodeSemSpecArith.eval_div_spec. Qed.
Print Assumptions eval_div_spec.

Theorem eval_rem_spec : forall w a b va vb,
  length a = w -> length b = w -> bv_val a = Some va -> bv_val b = Some vb ->
  eval (KArith A_REM w) [Some a; Some b] = [if (vb =? 0)%N then all_X w else bv_of_N w (va mod vb)%N].
Proof. exact NodeSemSpecArith.eval_rem_spec. Qed.
Print Assumptions eval_rem_spec.
Example eval_div_spec_ex :
  eval (KArith A_DIV 65) [Some (bv_of_N 65 (2 ^ 64 + 7)); Some (bv_of_N 65 2)] = [bv_of_N 65 (2 ^ 63 + 3)]
  /\ eval (KArith A_DIV 4) [Some (bv_of_N 4 9); Some (bv_of_N 4 0)] = [all_X 4].
Proof. split; vm_compute; reflexivity. Qed.

(* ---------- Node_Compare ---------- *)
(* fully defined operands of any (also different, also zero) widths: the unsigned comparison *)
Theorem eval_compare_spec : forall op a b va vb,
  bv_val a = Some va -> bv_val b = Some vb ->
  eval (KCompare op) [Some a; Some b] = [[of_bool (cmp_N op va vb)]].
Proof. exact NodeSemSpec.eval_compare_spec. Qed.
Print Assumptions eval_compare_spec.
Example eval_compare_spec_ex :
  eval (KCompare C_LEQ) [Some (bv_of_N 130 (2 ^ 129)); Some (bv_of_N 130 (2 ^ 129))] = [[B1]]
  /\ eval (KCompare C_LT) [Some (bv_of_N 130 (2 ^ 129)); Some (bv_of_N 130 (2 ^ 129))] = [[B0]]
  /\ eval (KCompare C_GEQ) [Some []; Some []] = [[B1]].
Proof. repeat split; vm_compute; reflexivity. Qed.

(* all-or-nothing definedness *)
Theorem eval_compare_undef : forall op a b,
  length a + length b <> 0 -> bv_val a = None \/ bv_val b = None ->
  eval (KCompare op) [Some a; Some b] = [[BX]].
Proof. exact NodeSemSpec.eval_compare_undef. Qed.
Print Assumptions eval_compare_undef.

Theorem eval_compare_unconnected : forall op xs,
  inp xs 0 = None \/ inp xs 1 = None -> eval (KCompare op) xs = [[BX]].
Proof. exact NodeSemSpec.eval_compare_unconnected. Qed.
Print Assumptions eval_compare_unconnected.

(* ---------- Node_Shift ---------- *)
(* all 2 x 4 modes, every width, every defined amount (0, w-1, w, > w, up to 2^64-1), operand bits may be undefined *)
Theorem eval_shift_spec : forall d f w x amt a,
  length amt <= 64 -> bv_val amt = Some a ->
  eval (KShift d f w) [Some x; Some amt] = [bv_build w (shift_spec_bit d f w x a)].
Proof. exact NodeSemSpecShift.eval_shift_spec. Qed.
Print Assumptions eval_shift_spec.
(* rotate left by 10 = by 2 (mod 8); regression for the 64 bit wide amount (repaired defect caaf32d)
   and for rotating a zero-width vector (repaired defect fc7bdd7) *)
Example eval_shift_spec_ex :
  eval (KShift SH_LEFT F_ROTATE 8) [Some (bv_of_N 8 131); Some (bv_of_N 4 10)] = [bv_of_N 8 14]
  /\ eval (KShift SH_LEFT F_ZERO 8) [Some (bv_of_N 8 3); Some (bv_of_N 64 1)] = [bv_of_N 8 6]
  /\ eval (KShift SH_LEFT F_ZERO 8) [Some (bv_of_N 8 3); Some (all_X 64)] = [all_X 8]
  /\ eval (KShift SH_LEFT F_ROTATE 0) [Some []; Some (bv_of_N 2 1)] = [[]].
Proof. repeat split; vm_compute; reflexivity. Qed.

Theorem eval_shift_undef_amount : forall d f w x amt,
  bv_val amt = None -> eval (KShift d f w) [x; Some amt] = [all_X w].
Proof. exact NodeSemSpecShift.eval_shift_undef_amount. Qed.
Print Assumptions eval_shift_undef_amount.

Theorem eval_shl_num : forall w x amt vx a,
  length x = w -> length amt <= 64 -> bv_val x = Some vx -> bv_val amt = Some a ->
  eval (KShift SH_LEFT F_ZERO w) [Some x; Some amt] = [bv_of_N w ((vx * 2 ^ a) mod 2 ^ N.of_nat w)%N].
Proof. exact NodeSemSpecShift.eval_shl_num. Qed.
Print Assumptions eval_shl_num.

Theorem eval_shr_num : forall w x amt vx a,
  length x = w -> length amt <= 64 -> bv_val x = Some vx -> bv_val amt = Some a ->
  eval (KShift SH_RIGHT F_ZERO w) [Some x; Some amt] = [bv_of_N w (vx / 2 ^ a)%N].
Proof. exact NodeSemSpecShift.eval_shr_num. Qed.
Print Assumptions eval_shr_num.

(* ---------- Node_Rewire ---------- *)
(* every total width: the concatenation of the ranges (the <= 64 bit accumulate path and the
   range-copy path agree); bits outside the described ranges do not exist *)
Theorem eval_rewire_spec : forall ranges xs,
  eval (KRewire ranges) xs = [concat (map (rewire_piece xs) ranges)].
Proof. exact NodeSemSpecShift.eval_rewire_spec. Qed.
Print Assumptions eval_rewire_spec.

Theorem eval_extract_spec : forall x off cnt,
  off + cnt <= length x ->
  eval (KRewire [mk_range cnt (RW_INPUT 0 off)]) [Some x] = [firstn cnt (skipn off x)].
Proof. exact NodeSemSpecShift.eval_extract_spec. Qed.
Print Assumptions eval_extract_spec.

Theorem eval_concat_spec : forall lo hi,
  eval (KRewire [mk_range (length lo) (RW_INPUT 0 0); mk_range (length hi) (RW_INPUT 1 0)]) [Some lo; Some hi]
  = [lo ++ hi].
Proof. exact NodeSemSpecShift.eval_concat_spec. Qed.
Print Assumptions eval_concat_spec.
Example eval_rewire_spec_ex :
  eval (KRewire [mk_range 2 (RW_INPUT 0 1); mk_range 1 RW_ZERO; mk_range 2 RW_ONE; mk_range 1 RW_UNDEF; mk_range 1 (RW_INPUT 1 0)])
       [Some [B0; B1; B1; B0]; Some [B1]] = [[B1; B1; B0; B1; B1; BX; B1]].
Proof. vm_compute; reflexivity. Qed.

(* ---------- Node_Multiplexer ---------- *)
Theorem eval_mux_spec : forall n w sel s ds,
  bv_val sel = Some s ->
  eval (KMux n w) (Some sel :: ds) =
  [if (N.of_nat n <=? s)%N then all_X w
   else match nth (N.to_nat s) ds None with Some x => bv_resize w x | None => all_X w end].
Proof. exact NodeSemSpec.eval_mux_spec. Qed.
Print Assumptions eval_mux_spec.

Theorem eval_mux_undef_sel : forall n w sel ds,
  bv_val sel = None ->
  eval (KMux n w) (Some sel :: ds) =
  [bv_build w (fun b => mux_merge_bit (map (fun i => bv_get (opt_bits (nth i ds None)) b) (seq 0 n)))].
Proof. exact NodeSemSpec.eval_mux_undef_sel. Qed.
Print Assumptions eval_mux_undef_sel.

Theorem mux_merge_bit_defined : forall ts m,
  m <> BX -> (mux_merge_bit ts = m <-> ts <> [] /\ Forall (fun t => t = m) ts).
Proof. exact NodeSemSpec.mux_merge_bit_defined. Qed.
Print Assumptions mux_merge_bit_defined.
Example eval_mux_spec_ex :
  eval (KMux 3 2) [Some [B0; B1]; Some [B1; B0]; Some [B0; B1]; Some [B1; B1]] = [[B1; B1]]       (* sel = 2 *)
  /\ eval (KMux 3 2) [Some [B1; B1]; Some [B1; B0]; Some [B0; B1]; Some [B1; B1]] = [[BX; BX]]    (* sel = 3: out of range *)
  /\ eval (KMux 3 2) [Some [BX; B0]; Some [B1; B0]; Some [B1; B1]; Some [B1; BX]] = [[B1; BX]].   (* merge *)
Proof. repeat split; reflexivity. Qed.

(* ---------- Node_PriorityConditional ---------- *)
Theorem eval_prio_spec : forall w dflt cs,
  eval (KPrio (length cs) w) (Some dflt :: prio_inputs cs) = [bv_resize w (prio_pick dflt cs)].
Proof. exact NodeSemSpec.eval_prio_spec. Qed.
Print Assumptions eval_prio_spec.

Theorem eval_prio_undef_cond : forall n w dflt cs c v rest,
  length cs < n ->
  c = None \/ (exists cb, c = Some cb /\ bv_get cb 0 = BX) ->
  eval (KPrio n w) (Some dflt :: prio_inputs (map (fun v => (false, v)) cs) ++ c :: v :: rest) = [all_X w].
Proof. exact NodeSemSpec.eval_prio_undef_cond. Qed.
Print Assumptions eval_prio_undef_cond.
Example eval_prio_spec_ex :
  eval (KPrio 2 2) [Some [B1; B1]; Some [B0]; Some [B1; B0]; Some [B1]; Some [B0; B1]] = [[B0; B1]]
  /\ eval (KPrio 2 2) [Some [B1; B1]; Some [BX]; Some [B1; B1]; Some [B1]; Some [B1; B1]] = [[BX; BX]].
Proof. split; reflexivity. Qed.

(* ---------- constants and forwarding nodes ---------- *)
Theorem eval_const_spec : forall v xs, eval (KConst v) xs = [v].
Proof. exact NodeSemSpec.eval_const_spec. Qed.
Print Assumptions eval_const_spec.

Theorem eval_forward_spec : forall f x, eval (KForward f (length x)) [Some x] = [x].
Proof. exact NodeSemSpec.eval_forward_spec. Qed.
Print Assumptions eval_forward_spec.

Theorem eval_forward_unconnected : forall f w, eval (KForward f w) [None] = [all_X w].
Proof. exact NodeSemSpec.eval_forward_unconnected. Qed.
Print Assumptions eval_forward_unconnected.
