(* C17 — proofs, part C: crc(remainder, data, polynomial) is polynomial division over GF(2);
   CrcState over a word stream; check values of the well-known presets. *)
From Coq Require Import List Bool Arith NArith ZArith Lia.
From Gatery Require Import SclMathDefs SclMathSpec.
Import ListNotations.
Open Scope N_scope.

(* ------------------------------------------------------------------ xor / shift algebra *)
Lemma mul_pow2_lxor a b k : N.lxor a b * 2 ^ k = N.lxor (a * 2 ^ k) (b * 2 ^ k).
Proof. rewrite <- !N.shiftl_mul_pow2. apply N.shiftl_lxor. Qed.

Lemma double_lxor a b : 2 * N.lxor a b = N.lxor (2 * a) (2 * b).
Proof.
  pose proof (mul_pow2_lxor a b 1) as H. change (2 ^ 1) with 2 in H.
  rewrite !(N.mul_comm 2). exact H.
Qed.

Lemma testbit_above a n m : a < 2 ^ n -> n <= m -> N.testbit a m = false.
Proof.
  intros Ha Hm. destruct (N.eq_dec a 0) as [->|Hn]; [apply N.bits_0|].
  apply N.bits_above_log2. apply N.log2_lt_pow2; [lia|].
  eapply N.lt_le_trans; [exact Ha|]. apply N.pow_le_mono_r; lia.
Qed.

Lemma lt_pow2_bits a n : (forall m, n <= m -> N.testbit a m = false) -> a < 2 ^ n.
Proof.
  intro H. destruct (N.eq_dec a 0) as [->|Hn]; [apply N.neq_0_lt_0, N.pow_nonzero; discriminate|].
  apply N.log2_lt_pow2; [lia|].
  destruct (N.lt_ge_cases (N.log2 a) n) as [Hlt|Hge]; [exact Hlt|].
  specialize (H (N.log2 a) Hge). rewrite N.bit_log2 in H by exact Hn. discriminate.
Qed.

Lemma lxor_lt_pow2 a b n : a < 2 ^ n -> b < 2 ^ n -> N.lxor a b < 2 ^ n.
Proof.
  intros Ha Hb. apply lt_pow2_bits. intros m Hm.
  rewrite N.lxor_spec, (testbit_above a n m Ha Hm), (testbit_above b n m Hb Hm). reflexivity.
Qed.

Lemma add_pow2_lxor n y : y < 2 ^ n -> 2 ^ n + y = N.lxor (2 ^ n) y.
Proof.
  intro Hy. apply N.add_nocarry_lxor. apply N.bits_inj. intro m.
  rewrite N.land_spec, N.pow2_bits_eqb, N.bits_0.
  destruct (N.eqb_spec n m) as [<-|Hn]; [|reflexivity].
  rewrite (testbit_above y n n Hy) by lia. reflexivity.
Qed.

Lemma lxor_cancel_l a b c : N.lxor a b = c -> b = N.lxor a c.
Proof. intros <-. rewrite <- N.lxor_assoc, N.lxor_nilpotent, N.lxor_0_l. reflexivity. Qed.

(* ------------------------------------------------------------------ one shift/xor step *)
Lemma crc_step_spec W polyW poly R :
  1 <= W -> polyW <= W -> poly < 2 ^ polyW -> R < 2 ^ W ->
  let P' := 2 ^ W + poly * 2 ^ (W - polyW) in
  let b := N.testbit R (W - 1) in
  crc_step W polyW poly R = N.lxor (2 * R) (if b then P' else 0) /\ crc_step W polyW poly R < 2 ^ W.
Proof.
  intros HW Hpw Hp HR P' b.
  assert (Hps : poly * 2 ^ (W - polyW) < 2 ^ W).
  { replace W with (polyW + (W - polyW)) at 2 by lia. rewrite N.pow_add_r.
    apply N.mul_lt_mono_pos_r; [apply N.neq_0_lt_0, N.pow_nonzero; discriminate|exact Hp]. }
  assert (Hsplit : 2 ^ W = 2 * 2 ^ (W - 1)).
  { rewrite <- N.pow_succ_r'. f_equal. lia. }
  assert (Hb : b = (2 ^ (W - 1) <=? R)).
  { unfold b. rewrite N.testbit_eqb. set (Q := 2 ^ (W - 1)) in *.
    assert (0 < Q) by (apply N.neq_0_lt_0, N.pow_nonzero; discriminate).
    destruct (N.leb_spec Q R) as [H1|H1].
    - assert (E : R / Q = 1) by (symmetry; apply (N.div_unique R Q 1 (R - Q)); lia).
      rewrite E. reflexivity.
    - rewrite N.div_small by exact H1. reflexivity. }
  unfold crc_step. fold b. rewrite Hb.
  destruct (N.leb_spec (2 ^ (W - 1)) R) as [Hhi|Hlo].
  - assert (Hm : (2 * R) mod 2 ^ W = 2 * R - 2 ^ W).
    { replace (2 * R) with ((2 * R - 2 ^ W) + 1 * 2 ^ W) at 1 by lia.
      rewrite N.mod_add by (apply N.pow_nonzero; discriminate). apply N.mod_small. lia. }
    rewrite Hm. set (y := 2 * R - 2 ^ W). assert (Hy : y < 2 ^ W) by (unfold y; lia).
    split; [|apply lxor_lt_pow2; assumption].
    replace (2 * R) with (2 ^ W + y) by (unfold y; lia).
    unfold P'. rewrite (add_pow2_lxor W y Hy), (add_pow2_lxor W _ Hps).
    rewrite N.lxor_assoc, <- (N.lxor_assoc y), (N.lxor_comm y (2 ^ W)), N.lxor_assoc, <- N.lxor_assoc.
    rewrite N.lxor_nilpotent, N.lxor_0_l. reflexivity.
  - rewrite N.mod_small by lia. split; [rewrite N.lxor_0_r; reflexivity|lia].
Qed.

(* ------------------------------------------------------------------ the loop = long division *)
Lemma crc_iter_spec W polyW poly :
  1 <= W -> polyW <= W -> poly < 2 ^ polyW ->
  let P' := 2 ^ W + poly * 2 ^ (W - polyW) in
  forall d R0, R0 < 2 ^ W ->
  exists qs : bits,
    N.iter d (crc_step W polyW poly) R0 = N.lxor (2 ^ d * R0) (clmul_bits qs P') /\
    N.iter d (crc_step W polyW poly) R0 < 2 ^ W.
Proof.
  intros HW Hpw Hp P' d R0 HR0. induction d as [|d IH] using N.peano_ind.
  - exists []. cbn [N.iter clmul_bits]. rewrite N.lxor_0_r. change (2 ^ 0) with 1. rewrite N.mul_1_l.
    split; [reflexivity|exact HR0].
  - destruct IH as (qs & Hval & Hlt). rewrite N.iter_succ.
    destruct (crc_step_spec W polyW poly _ HW Hpw Hp Hlt) as [Hs Hs2]. cbv zeta in Hs. fold P' in Hs.
    exists (N.testbit (N.iter d (crc_step W polyW poly) R0) (W - 1) :: qs).
    split; [|exact Hs2].
    rewrite Hs, Hval at 1. cbn [clmul_bits]. rewrite double_lxor.
    rewrite N.pow_succ_r', <- N.mul_assoc.
    rewrite N.lxor_assoc. f_equal. apply N.lxor_comm.
Qed.

Lemma clmul_bits_scale qs p k : clmul_bits qs (p * 2 ^ k) = clmul_bits qs p * 2 ^ k.
Proof.
  induction qs as [|b r IH]; [reflexivity|].
  cbn [clmul_bits]. rewrite IH, mul_pow2_lxor. f_equal.
  - destruct b; reflexivity.
  - ring.
Qed.

(* crc(remainder, data, polynomial) with polynomial.width() = remainder.width() = r is the
   remainder of  remainder * x^dataW + data * x^r  modulo  x^r + polynomial  over GF(2) *)
Theorem crc_correct r d rm data poly :
  1 <= r -> rm < 2 ^ r -> data < 2 ^ d -> poly < 2 ^ r ->
  gf2_rem r (N.lxor (rm * 2 ^ d) (data * 2 ^ r)) (2 ^ r + poly) (crc r d r rm data poly).
Proof.
  intros Hr Hrm Hdata Hpoly. unfold crc.
  set (W := N.max r d). set (s := W - r). set (u := W - d).
  assert (HWr : W = r + s) by (unfold s, W; lia).
  assert (HWd : W = d + u) by (unfold u, W; lia).
  assert (HW1 : 1 <= W) by lia.
  set (R0 := N.lxor (rm * 2 ^ s) (data * 2 ^ u)).
  assert (HR0 : R0 < 2 ^ W).
  { apply lxor_lt_pow2.
    - rewrite HWr, N.pow_add_r. apply N.mul_lt_mono_pos_r; [apply N.neq_0_lt_0, N.pow_nonzero; discriminate|exact Hrm].
    - rewrite HWd, N.pow_add_r. apply N.mul_lt_mono_pos_r; [apply N.neq_0_lt_0, N.pow_nonzero; discriminate|exact Hdata]. }
  destruct (crc_iter_spec W r poly HW1 ltac:(lia) Hpoly d R0 HR0) as (qs & Hval & Hlt).
  fold s in Hval. rewrite Hval.
  set (Mm := N.lxor (rm * 2 ^ d) (data * 2 ^ r)).
  assert (HP' : 2 ^ W + poly * 2 ^ s = (2 ^ r + poly) * 2 ^ s).
  { rewrite HWr, N.pow_add_r. ring. }
  assert (HR0' : 2 ^ d * R0 = Mm * 2 ^ s).
  { unfold R0, Mm. rewrite (N.mul_comm (2 ^ d)), !mul_pow2_lxor. f_equal.
    - ring.
    - rewrite <- !N.mul_assoc, <- !N.pow_add_r. do 2 f_equal. lia. }
  rewrite HP', clmul_bits_scale, HR0', <- mul_pow2_lxor in *.
  assert (Hs0 : 2 ^ s <> 0) by (apply N.pow_nonzero; discriminate).
  rewrite N.div_mul by exact Hs0.
  split.
  - rewrite Hval in Hlt. rewrite HWr, N.pow_add_r in Hlt.
    apply N.mul_lt_mono_pos_r in Hlt; [exact Hlt|lia].
  - exists qs. apply lxor_cancel_l. rewrite N.lxor_comm. reflexivity.
Qed.

(* ------------------------------------------------------------------ the remainder is unique *)
Fixpoint xorl (a b : bits) : bits :=
  match a, b with
  | [], _ => b
  | _, [] => a
  | x :: a', y :: b' => xorb x y :: xorl a' b'
  end.

Lemma lxor_4 a b c d : N.lxor (N.lxor a b) (N.lxor c d) = N.lxor (N.lxor a c) (N.lxor b d).
Proof.
  apply N.bits_inj. intro n. rewrite !N.lxor_spec.
  destruct (N.testbit a n), (N.testbit b n), (N.testbit c n), (N.testbit d n); reflexivity.
Qed.

Lemma clmul_xorl a b p :
  clmul_bits (xorl a b) p = N.lxor (clmul_bits a p) (clmul_bits b p).
Proof.
  revert b; induction a as [|x a IH]; intros [|y b]; cbn [xorl clmul_bits].
  - reflexivity.
  - rewrite N.lxor_0_l. reflexivity.
  - rewrite N.lxor_0_r. reflexivity.
  - rewrite IH, double_lxor, lxor_4. f_equal.
    destruct x, y; cbn [xorb]; rewrite ?N.lxor_nilpotent, ?N.lxor_0_l, ?N.lxor_0_r; reflexivity.
Qed.

Lemma clmul_degree r p qs :
  2 ^ r <= p -> p < 2 ^ (r + 1) ->
  match last_true qs with
  | Some j => clmul_bits qs p <> 0 /\ N.log2 (clmul_bits qs p) = r + j
  | None => clmul_bits qs p = 0
  end.
Proof.
  intros Hp1 Hp2.
  assert (Hlp : N.log2 p = r).
  { apply N.log2_unique; [lia|]. rewrite <- N.add_1_r. split; assumption. }
  assert (Hp0 : p <> 0).
  { pose proof (N.neq_0_lt_0 (2 ^ r)) as H. assert (2 ^ r <> 0) by (apply N.pow_nonzero; discriminate). lia. }
  induction qs as [|b rest IH]; [reflexivity|].
  cbn [last_true clmul_bits].
  set (x := if b then p else 0). assert (Hx : x < 2 ^ (r + 1)).
  { unfold x. destruct b; [exact Hp2|]. apply N.neq_0_lt_0, N.pow_nonzero. discriminate. }
  destruct (last_true rest) as [j|].
  - destruct IH as [HC0 HCl]. set (C := clmul_bits rest p) in *.
    assert (HY : N.log2 (2 * C) = r + N.succ j) by (rewrite N.log2_double by lia; lia).
    assert (Htop : N.testbit (N.lxor x (2 * C)) (r + N.succ j) = true).
    { rewrite N.lxor_spec, (testbit_above x (r + 1) (r + N.succ j) Hx) by lia.
      rewrite <- HY, N.bit_log2 by lia. reflexivity. }
    split.
    + intro E. rewrite E, N.bits_0 in Htop. discriminate.
    + apply N.log2_bits_unique; [exact Htop|]. intros m Hm.
      rewrite N.lxor_spec, (testbit_above x (r + 1) m Hx) by lia.
      rewrite N.bits_above_log2 by lia. reflexivity.
  - rewrite IH, N.mul_0_r, N.lxor_0_r. unfold x. destruct b; [split; [exact Hp0|lia]|reflexivity].
Qed.

Lemma last_true_none_clmul qs p : last_true qs = None -> clmul_bits qs p = 0.
Proof.
  induction qs as [|b rest IH]; [reflexivity|]. cbn [last_true clmul_bits].
  destruct (last_true rest); [discriminate|]. destruct b; [discriminate|].
  intros _. rewrite IH by reflexivity. reflexivity.
Qed.

(* gf2_rem determines its last argument: the polynomial remainder is unique *)
Theorem gf2_rem_unique r m p t t' :
  2 ^ r <= p -> p < 2 ^ (r + 1) -> gf2_rem r m p t -> gf2_rem r m p t' -> t = t'.
Proof.
  intros Hp1 Hp2 [Ht (q & Hq)] [Ht' (q' & Hq')].
  assert (E : clmul_bits (xorl q q') p = N.lxor t t').
  { rewrite clmul_xorl.
    assert (Hc : clmul_bits q p = N.lxor m t).
    { rewrite Hq, N.lxor_assoc, N.lxor_nilpotent, N.lxor_0_r. reflexivity. }
    assert (Hc' : clmul_bits q' p = N.lxor m t').
    { rewrite Hq', N.lxor_assoc, N.lxor_nilpotent, N.lxor_0_r. reflexivity. }
    rewrite Hc, Hc', lxor_4, N.lxor_nilpotent, N.lxor_0_l. reflexivity. }
  pose proof (lxor_lt_pow2 t t' r Ht Ht') as Hlt. rewrite <- E in Hlt.
  pose proof (clmul_degree r p (xorl q q') Hp1 Hp2) as Hdeg.
  destruct (last_true (xorl q q')) as [j|].
  - destruct Hdeg as [Hn0 Hl]. exfalso.
    apply N.log2_lt_pow2 in Hlt; [lia|lia].
  - rewrite Hdeg in E. symmetry in E. apply N.lxor_eq in E. exact E.
Qed.

(* ------------------------------------------------------------------ CrcState over a word stream *)
Lemma clmul_shift k q p : clmul_bits (repeat false k ++ q) p = clmul_bits q p * 2 ^ N.of_nat k.
Proof.
  induction k as [|k IH]; [cbn [repeat app]; change (2 ^ N.of_nat 0) with 1; lia|].
  cbn [repeat app clmul_bits]. rewrite IH, N.lxor_0_l, Nat2N.inj_succ, N.pow_succ_r'. ring.
Qed.

Lemma gf2_rem_compose r p m t d D t2 :
  gf2_rem r m p t ->
  gf2_rem r (N.lxor (t * 2 ^ d) (D * 2 ^ r)) p t2 ->
  gf2_rem r (N.lxor (m * 2 ^ d) (D * 2 ^ r)) p t2.
Proof.
  intros [Ht (q & Hq)] [Ht2 (q2 & Hq2)]. split; [exact Ht2|].
  exists (xorl (repeat false (N.to_nat d) ++ q) q2).
  rewrite clmul_xorl, clmul_shift, N2Nat.id.
  rewrite Hq, mul_pow2_lxor.
  rewrite N.lxor_assoc, Hq2. rewrite <- N.lxor_assoc. reflexivity.
Qed.

(* message polynomial: the words concatenated, first word in the highest position *)
Definition msg_poly (d : N) (words : list N) (acc : N) : N :=
  fold_left (fun a wd => N.lxor (a * 2 ^ d) wd) words acc.

Definition crc_word (p : crc_params) (d w : N) : N := if cp_revdata p then reflect d w else w.

Lemma reflect_lt d w : reflect d w < 2 ^ d.
Proof.
  unfold reflect. pose proof (N_of_bits_lt (rev (bits_of_N (N.to_nat d) w))) as H.
  rewrite rev_length, bits_of_N_length, N2Nat.id in H. exact H.
Qed.

Lemma crc_state_fold p d words :
  1 <= cp_w p -> cp_poly p < 2 ^ cp_w p ->
  Forall (fun w => w < 2 ^ d) words ->
  forall rm k Msg,
    gf2_rem (cp_w p) (N.lxor (cp_init p * 2 ^ k) (Msg * 2 ^ cp_w p)) (2 ^ cp_w p + cp_poly p) rm ->
    gf2_rem (cp_w p)
            (N.lxor (cp_init p * 2 ^ (k + d * N.of_nat (length words)))
                    (msg_poly d (map (crc_word p d) words) Msg * 2 ^ cp_w p))
            (2 ^ cp_w p + cp_poly p)
            (fold_left (crc_update p d) words rm).
Proof.
  intros Hr Hpoly Hall. induction Hall as [|w words Hw Hall IH]; intros rm k Msg H.
  - cbn [length fold_left map msg_poly]. rewrite N.mul_0_r, N.add_0_r. exact H.
  - cbn [length fold_left map msg_poly]. fold (msg_poly d (map (crc_word p d) words)).
    set (D := crc_word p d w).
    assert (HD : D < 2 ^ d) by (unfold D, crc_word; destruct (cp_revdata p); [apply reflect_lt|exact Hw]).
    assert (Hrm : rm < 2 ^ cp_w p) by (destruct H; assumption).
    pose proof (crc_correct (cp_w p) d rm D (cp_poly p) Hr Hrm HD Hpoly) as Hstep.
    pose proof (gf2_rem_compose _ _ _ _ _ _ _ H Hstep) as Hc.
    change (crc_update p d rm w) with (crc (cp_w p) d (cp_w p) rm D (cp_poly p)).
    replace (k + d * N.of_nat (S (length words))) with ((k + d) + d * N.of_nat (length words)) by lia.
    apply IH.
    rewrite !mul_pow2_lxor in Hc. rewrite mul_pow2_lxor.
    replace (cp_init p * 2 ^ (k + d)) with (cp_init p * 2 ^ k * 2 ^ d) by (rewrite N.pow_add_r; ring).
    replace (Msg * 2 ^ d * 2 ^ cp_w p) with (Msg * 2 ^ cp_w p * 2 ^ d) by ring.
    rewrite <- N.lxor_assoc. exact Hc.
Qed.

(* CrcState: init(); update(w_1); ...; update(w_n); checksum()
   = [bit reversal if reverseCrc] ( xorOut ^ ( initialRemainder * x^(n*d) + M(x) * x^r  mod  x^r + polynomial ) )
   where M is the message with every word bit-reversed if reverseData (the standard parametric
   CRC definition; note: xorOut is applied BEFORE the output reflection) *)
Theorem crc_state_correct p d words :
  1 <= cp_w p -> cp_poly p < 2 ^ cp_w p -> cp_init p < 2 ^ cp_w p ->
  Forall (fun w => w < 2 ^ d) words ->
  exists rm,
    gf2_rem (cp_w p)
            (N.lxor (cp_init p * 2 ^ (d * N.of_nat (length words)))
                    (msg_poly d (map (crc_word p d) words) 0 * 2 ^ cp_w p))
            (2 ^ cp_w p + cp_poly p) rm /\
    crc_state_run p d words =
      (if cp_revcrc p then reflect (cp_w p) (N.lxor rm (cp_xorout p)) else N.lxor rm (cp_xorout p)).
Proof.
  intros Hr Hpoly Hinit Hall.
  exists (fold_left (crc_update p d) words (cp_init p)). split; [|reflexivity].
  pose proof (crc_state_fold p d words Hr Hpoly Hall (cp_init p) 0 0) as H.
  rewrite N.add_0_l in H. apply H.
  split; [exact Hinit|]. exists []. cbn [clmul_bits].
  rewrite N.mul_0_l, N.lxor_0_r, N.lxor_0_l. change (2 ^ 0) with 1. lia.
Qed.

(* the words of a message are disjoint in the message polynomial: it is plain concatenation *)
Lemma msg_poly_concat d words acc :
  Forall (fun w => w < 2 ^ d) words ->
  msg_poly d words acc = fold_left (fun a wd => a * 2 ^ d + wd) words acc.
Proof.
  intro Hall. unfold msg_poly. revert acc; induction Hall as [|w words Hw Hall IH]; intro acc; [reflexivity|].
  cbn [fold_left]. rewrite IH. f_equal.
  symmetry. apply N.add_nocarry_lxor. apply N.bits_inj. intro n.
  rewrite N.land_spec, N.bits_0.
  destruct (N.lt_ge_cases n d) as [Hn|Hn].
  - rewrite N.mul_pow2_bits_low by exact Hn. reflexivity.
  - rewrite (testbit_above w d n Hw Hn). apply andb_false_r.
Qed.

(* ------------------------------------------------------------------ check values ("123456789") *)
Definition check_msg : list N := [49; 50; 51; 52; 53; 54; 55; 56; 57].

Example crc32_check : crc_state_run crc_32 8 check_msg = 3421780262.            (* 0xCBF43926 *)
Proof. vm_compute. reflexivity. Qed.
Example crc32c_check : crc_state_run crc_32c 8 check_msg = 3808858755.          (* 0xE3069283 *)
Proof. vm_compute. reflexivity. Qed.
Example crc32d_check : crc_state_run crc_32d 8 check_msg = 2268157302.          (* 0x87315576 *)
Proof. vm_compute. reflexivity. Qed.
Example crc32q_check : crc_state_run crc_32q 8 check_msg = 806403967.           (* 0x3010BF7F *)
Proof. vm_compute. reflexivity. Qed.
Example crc16_usb_check : crc_state_run crc_16_usb 8 check_msg = 46280.         (* 0xB4C8 *)
Proof. vm_compute. reflexivity. Qed.
Example crc16_ccitt_check : crc_state_run crc_16_ccitt 8 check_msg = 58828.     (* 0xE5CC, CRC-16/SPI-FUJITSU (AUG-CCITT) *)
Proof. vm_compute. reflexivity. Qed.
Example crc5_usb_check : crc_state_run crc_5_usb 8 check_msg = 25.              (* 0x19 *)
Proof. vm_compute. reflexivity. Qed.
(* CRC-8 (poly 0x07, init 0, no reflection, xorout 0): check 0xF4; CRC-16/XMODEM: 0x31C3 *)
Example crc8_check :
  crc_state_run {| cp_w := 8; cp_poly := 7; cp_init := 0; cp_revdata := false; cp_revcrc := false; cp_xorout := 0 |} 8 check_msg = 244.
Proof. vm_compute. reflexivity. Qed.
Example crc16_xmodem_check :
  crc_state_run {| cp_w := 16; cp_poly := 4129; cp_init := 0; cp_revdata := false; cp_revcrc := false; cp_xorout := 0 |} 8 check_msg = 12739.
Proof. vm_compute. reflexivity. Qed.
(* USB token CRC5 test vectors of tests/scl/crc_test.cpp (11 data bits) *)
Example crc5_usb_vectors :
  map (fun x => crc_state_run crc_5_usb 11 [x]) [0; 1351; 741; 114; 1024] = [2; 23; 28; 19; 22].
Proof. vm_compute. reflexivity. Qed.
