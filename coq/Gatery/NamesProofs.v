(* C13 — proofs about the name allocator model (NamesDefs.v). *)
Require Import String Ascii List NArith Bool Arith Lia DecimalString DecimalN.
From Gatery.gen Require Import Keywords.
From Gatery Require Import Vhdl2008Reserved NamesDefs.
Import ListNotations.
Open Scope string_scope.

(* ================================================================== *)
(* 1. the keyword table                                               *)
(* ================================================================== *)

Lemma memb_In : forall x l, memb x l = true <-> In x l.
Proof.
  induction l as [|y r IH]; simpl.
  - split; [discriminate | tauto].
  - rewrite orb_true_iff, IH, String.eqb_eq. split; intros [H|H]; auto.
Qed.

Lemma memb_false_In : forall x l, memb x l = false <-> ~ In x l.
Proof.
  intros. rewrite <- memb_In. destruct (memb x l); split; congruence.
Qed.

(* finite domain: decided by computation over the 115 words, lifted with forallb_forall *)
Lemma keywords_complete_proof : forall w, In w vhdl2008_reserved -> In w impl_keywords.
Proof.
  assert (H : forallb (fun w => memb w impl_keywords) vhdl2008_reserved = true) by (vm_compute; reflexivity).
  intros w Hw. rewrite forallb_forall in H. apply memb_In. apply H. exact Hw.
Qed.

(* every table entry is already lower case: otherwise comparing lower-cased candidates
   against the table could never hit that entry *)
Lemma keywords_lowercase_proof : forall w, In w impl_keywords -> lower w = w.
Proof.
  assert (H : forallb (fun w => String.eqb (lower w) w) impl_keywords = true) by (vm_compute; reflexivity).
  intros w Hw. rewrite forallb_forall in H. apply String.eqb_eq. apply H. exact Hw.
Qed.

(* ================================================================== *)
(* 2. strings                                                         *)
(* ================================================================== *)

Lemma slen_app : forall a b, String.length (a ++ b) = String.length a + String.length b.
Proof. induction a; simpl; intros; auto. Qed.

Lemma sapp_assoc : forall a b c, (a ++ b) ++ c = a ++ (b ++ c).
Proof. induction a; simpl; intros; f_equal; auto. Qed.

Lemma sapp_inj_l : forall a b c, a ++ b = a ++ c -> b = c.
Proof. induction a; simpl; intros b c H; auto. inversion H; auto. Qed.

Lemma smap_app : forall f a b, smap f (a ++ b) = smap f a ++ smap f b.
Proof. induction a; simpl; intros; f_equal; auto. Qed.

Lemma smap_len : forall f a, String.length (smap f a) = String.length a.
Proof. induction a; simpl; auto. Qed.

Lemma lower_app : forall a b, lower (a ++ b) = lower a ++ lower b.
Proof. intros; apply smap_app. Qed.

Lemma sall_app : forall p a b, sall p (a ++ b) = sall p a && sall p b.
Proof. induction a; simpl; intros; auto. rewrite IHa, andb_assoc. reflexivity. Qed.

Lemma smap_id_on : forall f p s, (forall c, p c = true -> f c = c) -> sall p s = true -> smap f s = s.
Proof.
  induction s; simpl; intros Hf H; auto.
  apply andb_true_iff in H as [H1 H2]. rewrite Hf, IHs; auto.
Qed.

(* --- decimal numerals ------------------------------------------------ *)

Lemma dec_digits_uint : forall d, sall is_digit (NilEmpty.string_of_uint d) = true.
Proof. induction d; simpl; auto. Qed.

Lemma dec_digits : forall n, sall is_digit (dec n) = true.
Proof. intros; apply dec_digits_uint. Qed.

Lemma dec_inj : forall n m, dec n = dec m -> n = m.
Proof.
  unfold dec. intros n m H.
  assert (H1 : Some (N.to_uint n) = Some (N.to_uint m)).
  { rewrite <- !NilEmpty.usu. rewrite H. reflexivity. }
  inversion H1 as [H2].
  rewrite <- (Unsigned.of_to n), <- (Unsigned.of_to m), H2. reflexivity.
Qed.

Lemma to_uint_nonnil : forall n, N.to_uint n <> Decimal.Nil.
Proof.
  intros n H. assert (H1 : N.of_uint (N.to_uint n) = n) by apply Unsigned.of_to.
  destruct n as [|p]; [discriminate H|].
  simpl in H. pose proof (DecimalPos.Unsigned.to_uint_nonnil p). contradiction.
Qed.

Lemma dec_nonempty : forall n, dec n <> "".
Proof.
  intros n. unfold dec. pose proof (to_uint_nonnil n) as H.
  destruct (N.to_uint n); simpl; congruence.
Qed.

Lemma digit_lower_id : forall c, is_digit c = true -> lower_ascii c = c.
Proof.
  intros c H. unfold lower_ascii, is_upper, is_digit, in_range in *.
  apply andb_true_iff in H as [H1 H2]. apply N.leb_le in H1, H2.
  destruct (N.leb 65 (N_of_ascii c)) eqn:E; simpl; auto.
  apply N.leb_le in E. lia.
Qed.

Lemma lower_dec : forall n, lower (dec n) = dec n.
Proof. intros. eapply smap_id_on; [apply digit_lower_id | apply dec_digits]. Qed.

(* --- format_duplicate_name ------------------------------------------- *)

Lemma lower_format : forall i a,
  lower (format_duplicate_name i a) =
  if N.eqb a 0 then lower i else lower i ++ "_" ++ dec (a + 1).
Proof.
  intros. unfold format_duplicate_name. destruct (N.eqb a 0); auto.
  rewrite !lower_app, lower_dec. reflexivity.
Qed.

Lemma format_lower_inj : forall i a b,
  lower (format_duplicate_name i a) = lower (format_duplicate_name i b) -> a = b.
Proof.
  intros i a b. rewrite !lower_format.
  destruct (N.eqb_spec a 0) as [Ha|Ha], (N.eqb_spec b 0) as [Hb|Hb]; intros H; try congruence.
  - apply (f_equal String.length) in H. rewrite slen_app in H. simpl in H. lia.
  - apply (f_equal String.length) in H. rewrite slen_app in H. simpl in H. lia.
  - apply sapp_inj_l in H. simpl in H. inversion H as [H1]. apply dec_inj in H1. lia.
Qed.

(* ================================================================== *)
(* 3. the retry loop: pigeonhole bound                                *)
(* ================================================================== *)

Section Retry.
  Variable inuse : string -> bool.
  Variable U : list string.
  Hypothesis inuse_U : forall x, inuse x = true -> In x U.
  Variable init : string.

  Let cand (a : N) : string := lower (format_duplicate_name init a).

  (* P: the candidates already rejected.  They are distinct members of U and differ from
     every later candidate, so at most |U| rejections are possible. *)
  Lemma retry_fresh_gen : forall fuel a P,
    NoDup P -> incl P U ->
    (forall b, (a <= b)%N -> ~ In (cand b) P) ->
    length U < fuel + length P ->
    inuse (lower (fst (retry fuel inuse init a))) = false.
  Proof.
    induction fuel as [|f IH]; intros a P HP Hinc Hlater Hlen.
    - exfalso. pose proof (NoDup_incl_length HP Hinc). simpl in Hlen. lia.
    - simpl. destruct (inuse (lower (format_duplicate_name init a))) eqn:E.
      + apply (IH (N.succ a) (cand a :: P)).
        * constructor; auto. apply Hlater. lia.
        * intros x [Hx|Hx]; [subst x; apply inuse_U; exact E | apply Hinc; exact Hx].
        * intros b Hb [Hx|Hx].
          -- unfold cand in Hx. apply format_lower_inj in Hx. lia.
          -- apply (Hlater b); [lia | exact Hx].
        * simpl. lia.
      + simpl. exact E.
  Qed.

  Lemma retry_fresh : forall a,
    inuse (lower (fst (retry (S (length U)) inuse init a))) = false.
  Proof.
    intros a. apply (retry_fresh_gen (S (length U)) a []).
    - constructor.
    - intros x [].
    - intros b _ [].
    - simpl. lia.
  Qed.

  Lemma retry_shape : forall fuel a,
    exists b, (a <= b)%N /\ retry fuel inuse init a = (format_duplicate_name init b, N.succ b).
  Proof.
    induction fuel as [|f IH]; intros a; simpl.
    - exists a. split; [lia | reflexivity].
    - destruct (inuse (lower (format_duplicate_name init a))).
      + destruct (IH (N.succ a)) as [b [Hb E]]. exists b. split; [lia | exact E].
      + exists a. split; [lia | reflexivity].
  Qed.
End Retry.

(* ================================================================== *)
(* 4. scope trees                                                     *)
(* ================================================================== *)

Lemma chain_f_eq : forall ps, wf_parents ps ->
  forall f1 f2 s, s < f1 -> s < f2 -> chain_f f1 ps s = chain_f f2 ps s.
Proof.
  intros ps Hwf. induction f1 as [|f1 IH]; intros f2 s H1 H2; [lia|].
  destruct f2 as [|f2]; [lia|]. simpl.
  destruct (nth_error ps s) as [[p|]|] eqn:E; auto.
  f_equal. apply Hwf in E. apply IH; lia.
Qed.

Lemma chain_unfold : forall ps s, wf_parents ps ->
  chain ps s = match nth_error ps s with
               | None => []
               | Some None => [s]
               | Some (Some p) => s :: chain ps p
               end.
Proof.
  intros ps s Hwf. unfold chain at 1. simpl.
  destruct (nth_error ps s) as [[p|]|] eqn:E; auto.
  f_equal. unfold chain. apply Hwf in E. apply chain_f_eq; auto; lia.
Qed.

Lemma chain_self : forall ps s, nth_error ps s <> None -> In s (chain ps s).
Proof.
  intros ps s H. unfold chain. simpl.
  destruct (nth_error ps s) as [[p|]|]; simpl; auto.
Qed.

Lemma chain_valid : forall ps f s x, In x (chain_f f ps s) -> nth_error ps x <> None.
Proof.
  induction f as [|f IH]; simpl; intros s x H; [contradiction|].
  destruct (nth_error ps s) as [[p|]|] eqn:E; simpl in H.
  - destruct H as [H|H]; [subst; congruence | eapply IH; eauto].
  - destruct H as [H|[]]. subst; congruence.
  - contradiction.
Qed.

Lemma chain_f_app : forall ps x, wf_parents ps ->
  forall f i, i < length ps -> chain_f f (ps ++ [x]) i = chain_f f ps i.
Proof.
  intros ps x Hwf. induction f as [|f IH]; intros i Hi; simpl; auto.
  rewrite nth_error_app1 by exact Hi.
  destruct (nth_error ps i) as [[p|]|] eqn:E; auto.
  f_equal. apply IH. apply Hwf in E. lia.
Qed.

Lemma chain_app : forall ps x i, wf_parents ps -> i < length ps ->
  chain (ps ++ [x]) i = chain ps i.
Proof. intros. unfold chain. apply chain_f_app; auto. Qed.

(* two scopes on one chain are comparable *)
Lemma chain_linear : forall ps, wf_parents ps ->
  forall r s s', In s (chain ps r) -> In s' (chain ps r) ->
  In s' (chain ps s) \/ proper_anc ps s s'.
Proof.
  intros ps Hwf r. induction r as [r IH] using lt_wf_ind. intros s s' Hs Hs'.
  rewrite chain_unfold in Hs, Hs' by exact Hwf.
  destruct (nth_error ps r) as [[p|]|] eqn:E.
  - destruct Hs as [Hs|Hs], Hs' as [Hs'|Hs'].
    + subst. left. apply chain_self. congruence.
    + subst s. left. rewrite chain_unfold by exact Hwf. rewrite E. right. exact Hs'.
    + subst s'. destruct (Nat.eq_dec s r) as [->|Hne].
      * left. apply chain_self. congruence.
      * right. split; [exact Hne|]. rewrite chain_unfold by exact Hwf. rewrite E. right. exact Hs.
    + apply (IH p); auto.
  - destruct Hs as [Hs|[]], Hs' as [Hs'|[]]. subst. left. apply chain_self. congruence.
  - contradiction.
Qed.

(* --- set_nth ---------------------------------------------------------- *)

Lemma set_nth_length : forall A (l : list A) i x, length (set_nth l i x) = length l.
Proof. induction l; destruct i; simpl; intros; auto. Qed.

Lemma set_nth_same : forall A (l : list A) i x y,
  nth_error l i = Some y -> nth_error (set_nth l i x) i = Some x.
Proof. induction l; destruct i; simpl; intros; try discriminate; eauto. Qed.

Lemma set_nth_other : forall A (l : list A) i j x, i <> j ->
  nth_error (set_nth l i x) j = nth_error l j.
Proof.
  induction l; destruct i, j; simpl; intros; auto; try congruence.
Qed.

Lemma set_nth_map : forall A B (f : A -> B) (l : list A) i x y,
  nth_error l i = Some y -> f x = f y -> map f (set_nth l i x) = map f l.
Proof.
  induction l; destruct i; simpl; intros x y H1 H2; try discriminate.
  - inversion H1; subst. rewrite H2. reflexivity.
  - f_equal. eapply IHl; eauto.
Qed.

(* --- isNameInUse ------------------------------------------------------ *)

Lemma name_in_use_In : forall t s lc, name_in_use t s lc = true -> In lc (chain_names t s).
Proof.
  unfold name_in_use, chain_names. intros t s lc H.
  apply existsb_exists in H as [i [Hi Hm]]. apply in_flat_map. exists i.
  split; auto. apply memb_In. exact Hm.
Qed.

Lemma name_not_in_use : forall t s lc i,
  name_in_use t s lc = false -> In i (chain (parents t) s) -> ~ In lc (in_use_of t i).
Proof.
  unfold name_in_use. intros t s lc i H Hi Hin.
  assert (existsb (fun i => memb lc (in_use_of t i)) (chain (parents t) s) = true).
  { apply existsb_exists. exists i. split; auto. apply memb_In. exact Hin. }
  congruence.
Qed.

(* ================================================================== *)
(* 5. one allocation                                                  *)
(* ================================================================== *)

Lemma alloc_core_spec : forall t s init t' n,
  alloc_core t s init = Some (t', n) ->
  exists sc att,
    nth_error t s = Some sc
    /\ name_in_use t s (lower n) = false
    /\ (exists b, n = format_duplicate_name init b)
    /\ t' = set_nth t s (mkScope (sc_parent sc) (lower n :: sc_in_use sc) att).
Proof.
  unfold alloc_core. intros t s init t' n H.
  destruct (nth_error t s) as [sc|] eqn:E; [|discriminate].
  destruct (retry (S (length (chain_names t s))) (name_in_use t s) init (att_get (sc_attempt sc) init))
    as [name a1] eqn:R.
  inversion H; subst. exists sc. eexists. split; [reflexivity|]. split; [|split; [|reflexivity]].
  - pose proof (retry_fresh (name_in_use t s) (chain_names t s) (name_in_use_In t s) init
                  (att_get (sc_attempt sc) init)) as F.
    rewrite R in F. exact F.
  - destruct (retry_shape (name_in_use t s) init (S (length (chain_names t s)))
                (att_get (sc_attempt sc) init)) as [b [_ Eb]].
    rewrite R in Eb. inversion Eb. exists b. reflexivity.
Qed.

Lemma allocate_spec : forall t s k d t' n,
  allocate t s k d = Some (t', n) ->
  d <> "" /\ alloc_core t s (initial_name k d) = Some (t', n).
Proof.
  unfold allocate. intros t s k d t' n H.
  destruct d as [|c r]; [discriminate|]. split; [discriminate|].
  destruct (nth_error t s) as [sc|]; [|discriminate].
  destruct (root_only k && _); [discriminate | exact H].
Qed.

(* the retry loop always leaves through its condition: the result is not in use.
   (`allocate_terminates`) *)
Lemma allocate_total : forall t s k d sc,
  nth_error t s = Some sc -> d <> "" ->
  (root_only k = true -> sc_parent sc = None) ->
  exists t' n, allocate t s k d = Some (t', n) /\ name_in_use t s (lower n) = false.
Proof.
  intros t s k d sc E Hd Hroot. unfold allocate.
  destruct d as [|c r]; [congruence|]. rewrite E.
  assert (G : root_only k && match sc_parent sc with Some _ => true | None => false end = false).
  { destruct (root_only k); simpl; auto. rewrite Hroot; auto. }
  rewrite G.
  destruct (alloc_core t s (initial_name k (String c r))) as [[t' n]|] eqn:A.
  - exists t', n. split; auto. apply alloc_core_spec in A as (sc' & att & _ & F & _). exact F.
  - unfold alloc_core in A. rewrite E in A.
    destruct (retry _ _ _ _) in A. discriminate.
Qed.

(* ================================================================== *)
(* 6. the invariant over arbitrary operation sequences                *)
(* ================================================================== *)

Local Open Scope list_scope.

Record inv (st : state) : Prop := mkInv {
  inv_wf   : wf_parents (parents (st_tree st));
  inv_kw   : forall i sc, nth_error (st_tree st) i = Some sc -> incl impl_keywords (sc_in_use sc);
  inv_log  : forall s n, In (s, n) (st_log st) -> In (lower n) (in_use_of (st_tree st) s);
  inv_hist : hist_ok (parents (st_tree st)) (st_log st)
}.

Lemma inv_init : inv init_state.
Proof.
  constructor; simpl.
  - intros i p H. destruct i; discriminate.
  - intros i sc H. destruct i; discriminate.
  - intros s n [].
  - exact I.
Qed.

Lemma hist_ok_chain_ext : forall ps ps' log,
  (forall s n, In (s, n) log -> chain ps' s = chain ps s) ->
  hist_ok ps log -> hist_ok ps' log.
Proof.
  induction log as [|[s n] older IH]; simpl; intros Hc H; auto.
  destruct H as (H1 & H2 & H3). split; [exact H1|]. split.
  - intros s' n' Hin Hch. rewrite (Hc s n) in Hch by (left; reflexivity). eauto.
  - apply IH; auto. intros s0 n0 H0. apply (Hc s0 n0). right. exact H0.
Qed.

Lemma in_use_of_valid : forall t s x, In x (in_use_of t s) -> s < length t.
Proof.
  unfold in_use_of. intros t s x H. destruct (nth_error t s) eqn:E; [|contradiction].
  apply nth_error_Some. congruence.
Qed.

Lemma in_use_of_app : forall t x s, s < length t -> in_use_of (t ++ [x]) s = in_use_of t s.
Proof. intros. unfold in_use_of. rewrite nth_error_app1 by assumption. reflexivity. Qed.

Lemma step_new_inv : forall st p, inv st -> inv (fst (step st (OpNew p))).
Proof.
  intros [t log] p [Hwf Hkw Hlog Hhist]. simpl in *.
  destruct (parent_ok t p) eqn:Pok; simpl; [|constructor; assumption].
  assert (Hps : parents (t ++ [new_scope p]) = parents t ++ [p]).
  { unfold parents. rewrite map_app. reflexivity. }
  assert (Hlen : length (parents t) = length t) by (unfold parents; apply map_length).
  constructor; simpl.
  - rewrite Hps. intros i q H.
    destruct (Nat.lt_ge_cases i (length (parents t))) as [Hi|Hi].
    + rewrite nth_error_app1 in H by exact Hi. eapply Hwf; eauto.
    + rewrite nth_error_app2 in H by exact Hi.
      destruct (i - length (parents t)) as [|k] eqn:Ek; simpl in H.
      * inversion H; subst p. simpl in Pok. apply Nat.ltb_lt in Pok. lia.
      * destruct k; discriminate.
  - intros i sc H.
    destruct (Nat.lt_ge_cases i (length t)) as [Hi|Hi].
    + rewrite nth_error_app1 in H by exact Hi. eapply Hkw; eauto.
    + rewrite nth_error_app2 in H by exact Hi.
      destruct (i - length t) as [|k]; simpl in H.
      * inversion H; subst sc. simpl. apply incl_refl.
      * destruct k; discriminate.
  - intros s n H. pose proof (Hlog s n H) as H1.
    rewrite in_use_of_app; auto. eapply in_use_of_valid; eauto.
  - rewrite Hps. eapply hist_ok_chain_ext; [|exact Hhist].
    intros s n H. apply chain_app; auto.
    rewrite Hlen. eapply in_use_of_valid. apply (Hlog s n H).
Qed.

Lemma in_use_of_set_same : forall t s sc sc',
  nth_error t s = Some sc -> in_use_of (set_nth t s sc') s = sc_in_use sc'.
Proof. intros. unfold in_use_of. erewrite set_nth_same; eauto. Qed.

Lemma in_use_of_set_other : forall t s j sc', s <> j -> in_use_of (set_nth t s sc') j = in_use_of t j.
Proof. intros. unfold in_use_of. rewrite set_nth_other; auto. Qed.

Lemma step_alloc_inv : forall st s k d, inv st -> inv (fst (step st (OpAlloc s k d))).
Proof.
  intros [t log] s k d [Hwf Hkw Hlog Hhist]. simpl in *.
  destruct (allocate t s k d) as [[t' n]|] eqn:A; simpl; [|constructor; assumption].
  apply allocate_spec in A as [_ A].
  apply alloc_core_spec in A as (sc & att & E & F & _ & ->).
  set (sc' := mkScope (sc_parent sc) (lower n :: sc_in_use sc) att).
  assert (Hps : parents (set_nth t s sc') = parents t).
  { unfold parents. eapply set_nth_map; eauto. }
  assert (Hself : In s (chain (parents t) s)).
  { apply chain_self. unfold parents. rewrite nth_error_map, E. discriminate. }
  constructor; simpl.
  - rewrite Hps. exact Hwf.
  - intros i sc0 H. destruct (Nat.eq_dec s i) as [<-|Hne].
    + erewrite set_nth_same in H by eauto. inversion H; subst sc0. simpl.
      apply incl_tl. eapply Hkw; eauto.
    + rewrite set_nth_other in H by exact Hne. eapply Hkw; eauto.
  - intros s0 n0 [H|H].
    + inversion H; subst. erewrite in_use_of_set_same by eauto. simpl. auto.
    + destruct (Nat.eq_dec s s0) as [<-|Hne].
      * erewrite in_use_of_set_same by eauto. simpl. right.
        pose proof (Hlog s n0 H) as H1. unfold in_use_of in H1. rewrite E in H1. exact H1.
      * rewrite in_use_of_set_other by exact Hne. auto.
  - rewrite Hps. split; [|split; [|exact Hhist]].
    + intros Hk. eapply (name_not_in_use t s (lower n) s F Hself).
      unfold in_use_of. rewrite E. eapply Hkw; eauto.
    + intros s' n' Hin Hch Heq.
      eapply (name_not_in_use t s (lower n) s' F Hch). rewrite <- Heq. apply Hlog. exact Hin.
Qed.

Lemma step_inv : forall st o, inv st -> inv (fst (step st o)).
Proof. intros st [p|s k d] H; [apply step_new_inv | apply step_alloc_inv]; exact H. Qed.

Lemma run_inv : forall ops st, inv st -> inv (run_state st ops).
Proof.
  unfold run_state. induction ops as [|o r IH]; simpl; intros st H; auto.
  pose proof (step_inv st o H) as H1.
  destruct (step st o) as [st1 res]. simpl in H1.
  specialize (IH st1 H1). destruct (run st1 r) as [st2 rs]. simpl in *. exact IH.
Qed.

(* `allocate_inv` *)
Lemma allocate_inv_proof : forall ops,
  let st := run_state init_state ops in
  wf_parents (parents (st_tree st)) /\ hist_ok (parents (st_tree st)) (st_log st).
Proof.
  intros ops st. destruct (run_inv ops init_state inv_init) as [H1 _ _ H4]. split; assumption.
Qed.

(* with keywords_complete: no allocated name is a VHDL-2008 reserved word, in any letter case *)
Lemma hist_ok_not_keyword : forall ps log s n,
  hist_ok ps log -> In (s, n) log -> ~ In (lower n) impl_keywords.
Proof.
  induction log as [|[s0 n0] older IH]; simpl; intros s n H Hin; [contradiction|].
  destruct H as (H1 & _ & H3). destruct Hin as [Hin|Hin]; [inversion Hin; subst; exact H1 | eapply IH; eauto].
Qed.

Lemma allocated_not_reserved_proof : forall ops s n,
  In (s, n) (st_log (run_state init_state ops)) -> ~ In (lower n) vhdl2008_reserved.
Proof.
  intros ops s n Hin Hr. apply keywords_complete_proof in Hr.
  destruct (allocate_inv_proof ops) as [_ H]. eapply hist_ok_not_keyword; eauto.
Qed.

(* ================================================================== *)
(* 7. pairwise distinctness inside one declarative region             *)
(* ================================================================== *)

Lemma visible_In : forall ps log r n,
  In n (visible ps log r) <-> exists s, In (s, n) log /\ In s (chain ps r).
Proof.
  unfold visible. intros. rewrite in_map_iff. split.
  - intros [[s n0] [E H]]. simpl in E. subst n0. apply filter_In in H as [H1 H2]. simpl in H2.
    apply existsb_exists in H2 as [x [Hx Hq]]. apply Nat.eqb_eq in Hq. subst x. eauto.
  - intros [s [H1 H2]]. exists (s, n). split; auto. apply filter_In. split; auto. simpl.
    apply existsb_exists. exists s. split; auto. apply Nat.eqb_refl.
Qed.

Lemma region_distinct_proof : forall ps log r,
  wf_parents ps -> hist_ok ps log -> top_down ps log ->
  NoDup (map lower (visible ps log r)).
Proof.
  intros ps log r Hwf. induction log as [|[s n] older IH]; intros Hh Ht.
  - constructor.
  - simpl in Hh, Ht. destruct Hh as (_ & Hfresh & Hh). destruct Ht as (Htd & Ht).
    specialize (IH Hh Ht). unfold visible in *. simpl.
    destruct (existsb (Nat.eqb s) (chain ps r)) eqn:Ein; [|exact IH].
    simpl. constructor; [|exact IH].
    apply existsb_exists in Ein as [x [Hx Hq]]. apply Nat.eqb_eq in Hq. subst x.
    intros Hin. apply in_map_iff in Hin as [n' [Heq Hin]].
    change (In n' (visible ps older r)) in Hin.
    apply visible_In in Hin as [s' [Hlog Hch]].
    destruct (chain_linear ps Hwf r s s' Hx Hch) as [Hanc|Hanc].
    + exact (Hfresh s' n' Hlog Hanc Heq).
    + exact (Htd s' n' Hlog Hanc).
Qed.

(* within ONE scope no discipline is needed *)
Lemma scope_distinct_proof : forall ps log r,
  hist_ok ps log -> nth_error ps r <> None ->
  NoDup (map lower (map snd (filter (fun e => Nat.eqb (fst e) r) log))).
Proof.
  intros ps log r. induction log as [|[s n] older IH]; intros Hh Hr; simpl.
  - constructor.
  - simpl in Hh. destruct Hh as (_ & Hfresh & Hh). specialize (IH Hh Hr).
    destruct (Nat.eqb_spec s r) as [->|Hne]; [|exact IH].
    simpl. constructor; [|exact IH].
    intros Hin. apply in_map_iff in Hin as [n' [Heq Hin]].
    apply in_map_iff in Hin as [[s' n0] [E Hf]]. simpl in E. subst n0.
    apply filter_In in Hf as [Hlog Hq]. simpl in Hq. apply Nat.eqb_eq in Hq. subst s'.
    exact (Hfresh r n' Hlog (chain_self ps r Hr) Heq).
Qed.

(* ================================================================== *)
(* 8. legality of the produced identifiers                            *)
(* ================================================================== *)

Local Open Scope string_scope.

Lemma first_char_app : forall a b,
  first_char (a ++ b) = match first_char a with Some c => Some c | None => first_char b end.
Proof. destruct a; simpl; auto. Qed.

Lemma last_none : forall s, last_char s = None -> s = "".
Proof.
  induction s as [|c s IH]; auto. destruct s; simpl; try discriminate. intros H.
  specialize (IH H). discriminate.
Qed.

Lemma last_char_cons : forall c s,
  last_char (String c s) = match last_char s with Some x => Some x | None => Some c end.
Proof.
  intros c s. destruct s as [|d s']; [reflexivity|].
  change (last_char (String c (String d s'))) with (last_char (String d s')).
  destruct (last_char (String d s')) eqn:E; auto. apply last_none in E. discriminate.
Qed.

Lemma last_char_app : forall a b,
  last_char (a ++ b) = match last_char b with Some c => Some c | None => last_char a end.
Proof.
  induction a as [|c a IH]; intros b.
  - simpl. destruct (last_char b); auto.
  - change ((String c a) ++ b) with (String c (a ++ b)).
    rewrite !last_char_cons, IH. destruct (last_char b), (last_char a); reflexivity.
Qed.

Lemma no_dus_app : forall a b,
  no_dus (a ++ b) = no_dus a && no_dus b
                    && negb (opt_is is_us (last_char a) && opt_is is_us (first_char b)).
Proof.
  induction a as [|c a IH]; intros b.
  - simpl. rewrite andb_true_r. reflexivity.
  - change ((String c a) ++ b) with (String c (a ++ b)).
    change (no_dus (String c (a ++ b))) with
      (negb (is_us c && opt_is is_us (first_char (a ++ b))) && no_dus (a ++ b)).
    change (no_dus (String c a)) with (negb (is_us c && opt_is is_us (first_char a)) && no_dus a).
    rewrite IH, first_char_app, last_char_cons.
    remember (no_dus a) as n1. remember (no_dus b) as n2.
    remember (opt_is is_us (first_char b)) as f.
    destruct (first_char a) as [d|] eqn:Ef.
    + destruct (last_char a) as [x|] eqn:El.
      * cbn [opt_is]. destruct (is_us c), (is_us d), n1, n2, (is_us x), f; reflexivity.
      * apply last_none in El. subst a. discriminate.
    + destruct a; [|discriminate]. cbn [last_char opt_is]. rewrite <- Heqf.
      destruct (is_us c), n1, n2, f; reflexivity.
Qed.

Lemma legal_parts : forall s,
  legal_basic_ident s = true <->
  opt_is is_letter (first_char s) = true /\ sall is_idchar s = true /\ no_dus s = true
  /\ opt_is is_us (last_char s) = false.
Proof.
  intros. unfold legal_basic_ident. rewrite !andb_true_iff, negb_true_iff. tauto.
Qed.

Lemma letter_not_us : forall c, is_letter c = true -> is_us c = false.
Proof. destruct c as [[] [] [] [] [] [] [] []]; vm_compute; congruence. Qed.

Lemma digit_not_us : forall c, is_digit c = true -> is_us c = false.
Proof. destruct c as [[] [] [] [] [] [] [] []]; vm_compute; congruence. Qed.

Lemma digit_idchar : forall c, is_digit c = true -> is_idchar c = true.
Proof. intros c H. unfold is_idchar. rewrite H. rewrite orb_true_r. reflexivity. Qed.

Lemma first_nonempty : forall s p, opt_is p (first_char s) = true -> s <> "".
Proof. destruct s; simpl; congruence. Qed.


(* a legal head followed by a tail that starts with a non-underscore, or by an underscore
   followed by letters/digits, stays legal *)
Lemma legal_app : forall a b,
  opt_is is_letter (first_char a) = true -> sall is_idchar a = true -> no_dus a = true ->
  sall is_idchar b = true -> no_dus b = true -> b <> "" ->
  opt_is is_us (last_char b) = false ->
  opt_is is_us (last_char a) && opt_is is_us (first_char b) = false ->
  legal_basic_ident (a ++ b) = true.
Proof.
  intros a b Ha1 Ha2 Ha3 Hb2 Hb3 Hb Hb4 Hj. apply legal_parts.
  rewrite first_char_app, sall_app, no_dus_app, last_char_app, Ha2, Ha3, Hb2, Hb3, Hj.
  split; [|split; [reflexivity|split; [reflexivity|]]].
  - destruct (first_char a); simpl in *; [exact Ha1 | discriminate].
  - destruct (last_char b) eqn:E; [exact Hb4|]. apply last_none in E. contradiction.
Qed.

Lemma legal_prefix : forall pre n,
  opt_is is_letter (first_char pre) = true -> sall is_idchar pre = true -> no_dus pre = true ->
  legal_basic_ident n = true -> legal_basic_ident (pre ++ n) = true.
Proof.
  intros pre n H1 H2 H3 Hn. apply legal_parts in Hn as (N1 & N2 & N3 & N4).
  apply legal_app; auto.
  - eapply first_nonempty; eauto.
  - destruct (first_char n) as [c|]; simpl in *; [|discriminate].
    rewrite (letter_not_us c N1). apply andb_false_r.
Qed.

Lemma legal_suffix : forall n suf,
  legal_basic_ident n = true ->
  sall is_idchar suf = true -> no_dus suf = true -> suf <> "" ->
  opt_is is_us (last_char suf) = false ->
  legal_basic_ident (n ++ suf) = true.
Proof.
  intros n suf Hn S1 S2 S3 S4. apply legal_parts in Hn as (N1 & N2 & N3 & N4).
  apply legal_app; auto. rewrite N4. reflexivity.
Qed.

Lemma sall_impl : forall (p q : ascii -> bool) s,
  (forall c, p c = true -> q c = true) -> sall p s = true -> sall q s = true.
Proof.
  induction s; simpl; intros Hpq H; auto. apply andb_true_iff in H as [H1 H2].
  rewrite Hpq, IHs; auto.
Qed.

Lemma digits_no_dus : forall s, sall is_digit s = true -> no_dus s = true.
Proof.
  induction s as [|c s IH]; simpl; intros H; auto.
  apply andb_true_iff in H as [H1 H2]. rewrite (digit_not_us c H1), IH; auto.
Qed.

Lemma digits_last : forall s, sall is_digit s = true -> opt_is is_us (last_char s) = false.
Proof.
  induction s as [|c s IH]; simpl; intros H; auto.
  apply andb_true_iff in H as [H1 H2]. destruct s; [simpl; apply digit_not_us; exact H1 | auto].
Qed.

Lemma legal_format : forall n a,
  legal_basic_ident n = true -> legal_basic_ident (format_duplicate_name n a) = true.
Proof.
  intros n a Hn. unfold format_duplicate_name. destruct (N.eqb a 0); auto.
  pose proof (dec_digits (a + 1)) as D.
  apply legal_suffix; auto.
  - simpl. apply (sall_impl _ _ _ digit_idchar D).
  - change ("_" ++ dec (a + 1)) with (String "_"%char (dec (a + 1))).
    simpl. rewrite (digits_no_dus _ D), andb_true_r.
    destruct (dec (a + 1)) as [|c r] eqn:E; simpl; auto.
    simpl in D. apply andb_true_iff in D as [D1 _]. rewrite (digit_not_us c D1). reflexivity.
  - discriminate.
  - change ("_" ++ dec (a + 1)) with (String "_"%char (dec (a + 1))).
    destruct (dec (a + 1)) as [|c r] eqn:E; [exfalso; eapply dec_nonempty; eauto|].
    change (last_char (String "_"%char (String c r))) with (last_char (String c r)).
    apply digits_last. exact D.
Qed.

(* --- to_upper keeps legality ------------------------------------------ *)

Lemma upper_letter : forall c, is_letter (upper_ascii c) = is_letter c.
Proof. destruct c as [[] [] [] [] [] [] [] []]; vm_compute; reflexivity. Qed.
Lemma upper_idchar : forall c, is_idchar (upper_ascii c) = is_idchar c.
Proof. destruct c as [[] [] [] [] [] [] [] []]; vm_compute; reflexivity. Qed.
Lemma upper_us : forall c, is_us (upper_ascii c) = is_us c.
Proof. destruct c as [[] [] [] [] [] [] [] []]; vm_compute; reflexivity. Qed.

Lemma first_char_smap : forall f s, first_char (smap f s) = option_map f (first_char s).
Proof. destruct s; reflexivity. Qed.

Lemma last_char_smap : forall f s, last_char (smap f s) = option_map f (last_char s).
Proof.
  induction s as [|c s IH]; auto.
  change (smap f (String c s)) with (String (f c) (smap f s)).
  rewrite !last_char_cons, IH. destruct (last_char s); reflexivity.
Qed.

Lemma legal_upper : forall n, legal_basic_ident n = true -> legal_basic_ident (upper n) = true.
Proof.
  intros n Hn. apply legal_parts in Hn as (N1 & N2 & N3 & N4). apply legal_parts. unfold upper.
  rewrite first_char_smap, last_char_smap. repeat split.
  - destruct (first_char n); simpl in *; [rewrite upper_letter; exact N1 | discriminate].
  - clear N1 N3 N4. induction n; simpl in *; auto. apply andb_true_iff in N2 as [A B].
    rewrite upper_idchar, A, IHn; auto.
  - clear N1 N2 N4. induction n as [|c n IH]; simpl in *; auto.
    apply andb_true_iff in N3 as [A B]. rewrite IH by exact B. rewrite andb_true_r.
    rewrite first_char_smap, upper_us. destruct (first_char n); simpl in *; [rewrite upper_us|]; exact A.
  - destruct (last_char n); simpl in *; [rewrite upper_us; exact N4 | reflexivity].
Qed.

Lemma legal_nonempty : forall n, legal_basic_ident n = true -> n <> "".
Proof. destruct n; [discriminate | discriminate]. Qed.

Lemma or_default_legal : forall d x, legal_basic_ident d = true -> or_default d x = d.
Proof. destruct d; [discriminate | reflexivity]. Qed.

Lemma legal_initial : forall k d, legal_basic_ident d = true -> legal_basic_ident (initial_name k d) = true.
Proof.
  intros k d Hd. destruct k as [t| | | | | | |c| ]; simpl; unfold get_signal_name;
    rewrite ?(or_default_legal d _ Hd); auto.
  - destruct t; auto; try (apply legal_prefix; auto; reflexivity).
    apply legal_prefix; auto; try reflexivity. apply legal_upper. exact Hd.
  - destruct c; apply legal_suffix; auto; discriminate.
Qed.

(* `allocate_legal` *)
Lemma allocate_legal_proof : forall t s k d t' n,
  legal_basic_ident d = true -> allocate t s k d = Some (t', n) -> legal_basic_ident n = true.
Proof.
  intros t s k d t' n Hd A. apply allocate_spec in A as [_ A].
  apply alloc_core_spec in A as (sc & att & _ & _ & [b ->] & _).
  apply legal_format. apply legal_initial. exact Hd.
Qed.
