(* C15 -- The FIFO is a loss-free, duplicate-free, order-preserving queue.
   Machine: FifoDefs.v (transcription of scl/Fifo.h + cdc.cpp, tied to the real scl::Fifo by
   checks/C15.py on every run).  Proofs: FifoGray.v FifoArith.v FifoInv.v FifoProofs.v.

   Quantifiers: every depth 2^k (k : N, including k = 0), every latency L >= 1 (dual
   clock: L >= 2; the C++ insists on >= 4), every almost-level, every payload value, every
   schedule: a list of instants each carrying a push-clock edge, a pop-clock edge or both
   (single clock: always both), the user's push/pop requests, and -- at coincident edges of
   the dual-clock FIFO -- which of the two possible values each synchroniser captures. *)
From Coq Require Import NArith List Bool Arith.
From Gatery Require Import FifoDefs FifoGray FifoProofs FifoTxDefs FifoTxProofs FifoStrmDefs FifoStrmProofs.
Import ListNotations.
Open Scope N_scope.

(* The interface trace of the FIFO is a legal trace of a bounded queue of capacity 2^k that
   starts empty: at every instant, with q the queue contents so far,
     |q| <= 2^k;   !empty -> q = h :: _ and peek = h (defined);   delivered -> !empty;
     accepted d -> !full and |q| < 2^k;
   and q evolves by  q' = (if delivered then tl q else q) ++ [d if accepted d]. *)
Theorem fifo_refines_queue : forall c evs, cfg_ok c ->
  queue_spec (depth c) [] (fst (run c (init c) evs)).
Proof. exact fifo_refines_queue_proof. Qed.
Print Assumptions fifo_refines_queue.

Theorem fifo_dual_clock_refines_queue : forall k L lvlF lvlE evs, (2 <= L)%nat ->
  let c := mkCfg k L true lvlF lvlE in
  queue_spec (2 ^ k) [] (fst (run c (init c) evs)).
Proof. exact fifo_dual_clock_refines_queue_proof. Qed.
Print Assumptions fifo_dual_clock_refines_queue.

(* list level: what has been delivered (each item defined), followed by what is still
   inside (at most 2^k items), is exactly what has been accepted, in order *)
Theorem fifo_no_loss_no_dup_in_order : forall c evs, cfg_ok c ->
  let tr := fst (run c (init c) evs) in
  delivered tr ++ map Some (q_after [] tr) = map Some (accepted tr) /\
  N.of_nat (length (q_after [] tr)) <= depth c.
Proof. exact fifo_no_loss_no_dup_in_order_proof. Qed.
Print Assumptions fifo_no_loss_no_dup_in_order.

(* almostFull(level) low  -> more than `level` free places;
   almostEmpty(level) low -> more than `level` items inside.
   (level = depth is excluded for almostFull: its reset value '0' is then wrong for the
   first cycle, see almost_full_level_eq_depth_reset_value below.) *)
Theorem almost_flags_conservative : forall c evs, cfg_ok c ->
  let tr := fst (run c (init c) evs) in
  Forall2 (fun q o =>
      (c_lvlF c < depth c -> o_afull o = false -> N.of_nat (length q) + c_lvlF c < depth c) /\
      (o_aempty o = false -> c_lvlE c < N.of_nat (length q)))
    (queues [] tr) tr.
Proof. exact almost_flags_conservative_proof. Qed.
Print Assumptions almost_flags_conservative.

(* liveness: once the queue is non-empty, max(1, L-1) pop-clock edges without a pop request
   (push side arbitrary) make the head visible: empty = 0 and peek = head *)
Theorem eventually_visible : forall c evs1 evs2, cfg_ok c ->
  let tr1 := fst (run c (init c) evs1) in
  let s1 := snd (run c (init c) evs1) in
  q_after [] tr1 <> [] ->
  Forall (fun e => e_popReq e = false) evs2 ->
  (Nat.max 1 (c_lat c - 1) <= count_pop c evs2)%nat ->
  let s2 := snd (run c s1 evs2) in
  s_empty s2 = false /\ s_peek s2 = hd_error (q_after [] tr1).
Proof. exact eventually_visible_proof. Qed.
Print Assumptions eventually_visible.

Theorem gray_roundtrip : forall (w : nat) x, x < 2 ^ N.of_nat w -> gray_dec w (gray_enc x) = x.
Proof. exact gray_roundtrip_proof. Qed.
Print Assumptions gray_roundtrip.

(* consecutive counter values, including the wrap 2^w-1 -> 0, differ in exactly one code bit *)
Theorem gray_one_bit : forall w x, 0 < w -> x < 2 ^ w ->
  exists j, j < w /\ N.lxor (gray_enc x) (gray_enc ((x + 1) mod 2 ^ w)) = 2 ^ j.
Proof. exact gray_one_bit_proof. Qed.
Print Assumptions gray_one_bit.

(* hence a synchroniser sampling the inStage register while it changes captures the old or
   the new pointer, never a third value: the [sampled meta] choice of the model is complete *)
Theorem cdc_sample_two_outcomes : forall k p (b : bool) s, p < cmod k ->
  bitwise_mix (gray_enc p) (gray_enc (inc k p b)) s ->
  exists meta, s = sampled meta (gray_enc p) (gray_enc (inc k p b)).
Proof. exact cdc_sample_two_outcomes_proof. Qed.
Print Assumptions cdc_sample_two_outcomes.

(* scl::TransactionalFifo, single clock (FifoTxDefs.v): for every depth, latency and sequence
   of push / commit(cutoff) / rollback / pop / popCommit / popRollback, as long as the user
   never commits and rolls back in one cycle and a cutoff only removes pushes of the open
   transaction (tev_ok), the interface behaves as a queue with checkpoints:
   only committed items are offered, in commit order (peek = Q[r]); rolled back pushes
   vanish, rolled back pops are offered again; uncommitted pops still occupy space. *)
Theorem txfifo_refines_checkpoint_queue : forall c evs,
  cq_spec (depth c) (mkCq [] 0 []) (fst (trun c (tinit c) evs)).
Proof. exact txfifo_refines_checkpoint_queue_proof. Qed.
Print Assumptions txfifo_refines_checkpoint_queue.

(* strm::fifo (scl/stream/streamFifo.h, FifoStrmDefs.v), single clock.  ft = true is the
   FALL-THROUGH mode (FifoLatency(0)): the wrapper bypasses the inner FIFO while it reports
   empty.  At the stream interface (enter: valid(in) & ready(in); leave: valid(out) &
   ready(out)) it is a bounded queue in which a beat may leave in the cycle it enters --
   for every depth and schedule, for every latency when ft = false, and for ft = true under
   the side condition that the inner FIFO's write-to-empty latency is 1.  checks/C15.py
   verifies on every run that this is the latency the implementation really selects. *)
Theorem strm_fifo_refines_queue : forall c ft ins, cfg_ok c -> c_dual c = false ->
  (ft = true -> c_lat c = 1%nat) ->
  sq_spec (depth c) [] (fst (strm_run c ft (init c) ins)).
Proof. exact strm_fifo_refines_queue_proof. Qed.
Print Assumptions strm_fifo_refines_queue.

Theorem strm_fifo_in_order : forall c ft ins, cfg_ok c -> c_dual c = false ->
  (ft = true -> c_lat c = 1%nat) ->
  let tr := fst (strm_run c ft (init c) ins) in
  s_delivered tr ++ map Some (sq_after [] tr) = map Some (s_accepted tr).
Proof. exact strm_fifo_in_order_proof. Qed.
Print Assumptions strm_fifo_in_order.

(* the side condition is necessary: fall-through on an inner FIFO of latency 2 (depth 128):
   beat 1 enters the empty FIFO while the consumer stalls, beat 2 arrives in the next cycle
   with the consumer ready and overtakes it (delivered: 2, 1) *)
Theorem strm_fallthrough_latency2_refuted :
  cfg_ok ft_bad_cfg /\ c_dual ft_bad_cfg = false /\ c_lat ft_bad_cfg = 2%nat /\
  ~ sq_spec (depth ft_bad_cfg) [] (fst (strm_run ft_bad_cfg true (init ft_bad_cfg) ft_bad_ins)).
Proof. exact strm_fallthrough_latency2_refuted_proof. Qed.
Print Assumptions strm_fallthrough_latency2_refuted.

(* ---------------- non-vacuity ---------------- *)
(* the same schedule on a latency-1 inner FIFO (what strm::fifo builds): in order, and a
   beat offered to an empty FIFO with a ready consumer leaves in the same cycle *)
Example ex_fallthrough_latency1 :
  let c := mkCfg 7 1 false 0 0 in
  let tr := fst (strm_run c true (init c) (ft_bad_ins ++ [mkSin true 3 true])) in
  s_accepted tr = [1; 2; 3] /\ s_delivered tr = [Some 1; Some 2; Some 3] /\
  map (fun oi => so_valid (fst oi)) tr = [false; true; true; true; false; false; true].
Proof. vm_compute. repeat split. Qed.

Definition te (pr : bool) (d : N) (cm : bool) (cut : N) (rb po pcm prb : bool) := mkTev pr d cm cut rb po pcm prb.
Definition tx_c := mkCfg 2 1 false 0 0.
Definition tx_evs :=
  [te true 1 false 0 false false false false;   (* push 1, staged *)
   te true 2 false 0 false false false false;   (* push 2, staged *)
   te false 0 false 0 true false false false;   (* roll both back *)
   te true 3 false 0 false false false false;
   te true 4 false 0 false false false false;
   te true 5 true 1 false false false false;    (* push 5 and commit, cutting 5 off again *)
   te false 0 false 0 false true false false;   (* pop 3 (uncommitted) *)
   te false 0 false 0 false true false false;   (* pop 4 *)
   te false 0 false 0 false false false true;   (* roll the pops back *)
   te false 0 false 0 false true true false;    (* pop 3 and commit *)
   te false 0 false 0 false true true false;    (* pop 4 and commit *)
   te false 0 false 0 false false false false].
Example tx_example :
  map (fun oe => (to_empty (fst oe), to_peek (fst oe))) (skipn 6 (fst (trun tx_c (tinit tx_c) tx_evs)))
  = [(false, Some 3); (false, Some 4); (true, Some 5); (false, Some 3); (false, Some 4); (true, Some 5)].
Proof. vm_compute. reflexivity. Qed.
(* the environment obligations hold along this run (so cq_spec's premises are satisfiable) *)
Fixpoint tev_ok_all (q : cq) (tr : list (tobs * tevent)) : Prop :=
  match tr with [] => True | (o, e) :: r => tev_ok q o e /\ tev_ok_all (cq_next q o e) r end.
Example tx_example_env_ok : tev_ok_all (mkCq [] 0 []) (fst (trun tx_c (tinit tx_c) tx_evs)).
Proof. vm_compute. repeat split; intros; auto. Qed.

Definition ev (pe po pr : bool) (d : N) (pq : bool) : event := mkEv pe po pr d pq false false.

(* single clock, depth 2, latency 2: three pushes (third refused: full), then three pops
   (third refused: empty) *)
Definition ex_c := mkCfg 1 2 false 0 0.
Definition ex_evs := [ev true true true 5 false; ev true true true 6 false; ev true true true 7 false;
                      ev true true true 8 false;
                      ev true true false 0 true; ev true true false 0 true; ev true true false 0 true;
                      ev true true false 0 true; ev true true false 0 true].
Example ex_cfg_ok : cfg_ok ex_c.
Proof. split; cbn; intros; try discriminate; auto. Qed.
Example ex_accepts_and_delivers :
  let tr := fst (run ex_c (init ex_c) ex_evs) in
  accepted tr = [5; 6] /\ delivered tr = [Some 5; Some 6] /\
  map o_full tr = [false; false; true; true; true; true; false; false; false] /\
  map o_empty tr = [true; true; false; false; false; false; true; true; true].
Proof. vm_compute. repeat split. Qed.

(* dual clock, depth 2, latency 4, push and pop edges interleaved, coincident edges with
   both metastable outcomes *)
Definition ex_d := mkCfg 1 4 true 1 1.
Definition ex_devs :=
  [mkEv true false true 11 false false false; mkEv true true true 12 true true false;
   mkEv false true false 0 true false false;  mkEv false true false 0 true false false;
   mkEv true true true 13 true false true;    mkEv false true false 0 true false false;
   mkEv true false false 0 false false false; mkEv true false false 0 false false false;
   mkEv true true true 14 false true true;    mkEv true false true 15 false false false;
   mkEv false true false 0 true false false;  mkEv false true false 0 true false false;
   mkEv false true false 0 true false false;  mkEv false true false 0 true false false].
Example ex_dual_cfg_ok : cfg_ok ex_d.
Proof. split; cbn; intros; auto. Qed.
Example ex_dual_run :
  let tr := fst (run ex_d (init ex_d) ex_devs) in
  accepted tr = [11; 12; 14; 15] /\ delivered tr = [Some 11; Some 12; Some 14; Some 15] /\
  map o_full tr = [false; false; true; true; true; true; true; true; false; false; true; true; true; true].
Proof. vm_compute. repeat split. Qed.

(* eventually_visible's premises are satisfiable *)
Example ex_visible :
  let tr1 := fst (run ex_c (init ex_c) [ev true true true 5 false]) in
  q_after [] tr1 = [5] /\
  s_empty (snd (run ex_c (snd (run ex_c (init ex_c) [ev true true true 5 false]))
                     [ev true true false 0 false])) = false.
Proof. vm_compute. split; reflexivity. Qed.

(* gray code: width 3 *)
Example ex_gray : map gray_enc [0;1;2;3;4;5;6;7] = [0;1;3;2;6;7;5;4] /\
                  map (gray_dec 3) [0;1;3;2;6;7;5;4] = [0;1;2;3;4;5;6;7].
Proof. vm_compute. split; reflexivity. Qed.

(* Observation (also true of the real scl::Fifo, see the C15 report): with level = depth the
   almost-full register's reset value '0' claims "more than `depth` free places" during
   the first cycle. Degenerate use; excluded from almost_flags_conservative. *)
Example almost_full_level_eq_depth_reset_value :
  let c := mkCfg 2 1 false 4 0 in
  cfg_ok c /\ c_lvlF c = depth c /\
  o_afull (observe c (init c) (ev true true false 0 false)) = false /\
  o_afull (observe c (step c (init c) (ev true true false 0 false)) (ev true true false 0 false)) = true.
Proof. vm_compute. repeat split; intros; try discriminate; auto. Qed.
