(* C18 -- proofs, part 10: BigInt import / export (extractBigInt, insertBigInt, bitwiseNegation),
   negative values via two's complement. *)
From Coq Require Import List NArith ZArith Bool Lia.
From Gatery Require Import BvsDefs BvsSpec BvsLeaf BvsWords BvsCopy BvsAbs BvsOps BvsEq.
Import ListNotations.
Ltac Zify.zify_post_hook ::= Z.to_euclidean_division_equations.
Local Open Scope N_scope.

(* ---- bits of word lists ---- *)
Lemma wbit_nil i : wbit [] i = false.
Proof. unfold wbit, getw. destruct (N.to_nat (i / 64)); apply tb_0. Qed.

Lemma wbit_cons w r i : wbit (w :: r) i = if i <? 64 then N.testbit w i else wbit r (i - 64).
Proof.
  unfold wbit, getw. destruct (N.ltb_spec i 64).
  - replace (i / 64) with 0 by lia. replace (i mod 64) with i by lia. reflexivity.
  - replace (N.to_nat (i / 64)) with (S (N.to_nat ((i - 64) / 64))) by lia.
    replace ((i - 64) mod 64) with (i mod 64) by lia. reflexivity.
Qed.

Lemma tb_importBits ws i : wordsok ws -> N.testbit (importBits ws) i = wbit ws i.
Proof.
  intro H. revert i. induction H as [|w r Hw Hr IH]; intro i.
  - rewrite wbit_nil. apply tb_0.
  - cbn [importBits]. rewrite N.lor_spec, tb_shl, wbit_cons, IH.
    destruct (N.ltb_spec i 64); destruct (N.leb_spec 64 i); try lia; bsimpl.
    + apply orb_false_r.
    + rewrite (lt64_tb w i Hw) by lia. reflexivity.
Qed.

Lemma tb_ltpow x K : (forall i, K <= i -> N.testbit x i = false) -> x < 2 ^ K.
Proof.
  intro H.
  assert (E : x mod 2 ^ K = x).
  { apply N.bits_inj. intro i. destruct (N.lt_ge_cases i K) as [Hi | Hi].
    - apply N.mod_pow2_bits_low. exact Hi.
    - rewrite N.mod_pow2_bits_high by exact Hi. symmetry. apply H. exact Hi. }
  rewrite <- E. apply N.mod_lt. apply N.pow_nonzero. discriminate.
Qed.

Lemma ltpow_tb x K i : x < 2 ^ K -> K <= i -> N.testbit x i = false.
Proof.
  intros Hx Hi. rewrite <- (N.mod_small x (2 ^ K)) by exact Hx. apply N.mod_pow2_bits_high. exact Hi.
Qed.

(* ---- export_bits ---- *)
Lemma wordsOfN_spec fuel n :
  n < 2 ^ N.of_nat fuel ->
  wordsok (wordsOfN fuel n) /\ forall i, wbit (wordsOfN fuel n) i = N.testbit n i.
Proof.
  revert n; induction fuel as [|f IH]; intros n Hn.
  - simpl in Hn. assert (n = 0) by lia. subst n. cbn [wordsOfN].
    split; [constructor | intro i; rewrite wbit_nil, tb_0; reflexivity].
  - cbn [wordsOfN]. destruct (N.eqb_spec n 0) as [-> | Hn0].
    + split; [constructor | intro i; rewrite wbit_nil, tb_0; reflexivity].
    + assert (Hs : N.shiftr n 64 < 2 ^ N.of_nat f).
      { rewrite N.shiftr_div_pow2.
        replace (N.of_nat (S f)) with (N.succ (N.of_nat f)) in Hn by lia.
        rewrite N.pow_succ_r' in Hn.
        apply N.le_lt_trans with (n / 2).
        - apply N.div_le_compat_l. split; [lia|]. change 2 with (2 ^ 1) at 1.
          apply N.pow_le_mono_r; lia.
        - apply N.div_lt_upper_bound; lia. }
      destruct (IH _ Hs) as [W B]. split.
      * constructor; [apply lt64_wrap64 | exact W].
      * intro i. rewrite wbit_cons, B, tb_wrap64, tb_shr.
        destruct (N.ltb_spec i 64); bsimpl; [reflexivity|]. f_equal. lia.
Qed.

Lemma exportBits_spec v :
  wordsok (exportBits v) /\ (forall i, wbit (exportBits v) i = N.testbit (Z.abs_N v) i)
  /\ exportBits v <> [].
Proof.
  unfold exportBits. destruct (N.eqb_spec (Z.abs_N v) 0) as [E | E].
  - rewrite E. repeat split.
    + constructor; [apply lt64_0 | constructor].
    + intro i. rewrite wbit_cons, wbit_nil, !tb_0. destruct (i <? 64); reflexivity.
    + discriminate.
  - set (m := Z.abs_N v) in *.
    assert (Hm : m < 2 ^ N.of_nat (N.to_nat (N.size m))) by (rewrite N2Nat.id; apply N.size_gt).
    destruct (wordsOfN_spec _ _ Hm) as [W B]. repeat split; auto.
    destruct (N.to_nat (N.size m)) eqn:F.
    + exfalso. destruct m; [contradiction | simpl in F; lia].
    + cbn [wordsOfN]. destruct (N.eqb_spec m 0); [contradiction | discriminate].
Qed.

(* m < 2^(64 * number of exported words) *)
Lemma exportBits_bound v : Z.abs_N v < 2 ^ (64 * wlen (exportBits v)).
Proof.
  destruct (exportBits_spec v) as (W & B & _). apply tb_ltpow. intros i Hi.
  rewrite <- B. apply wbit_beyond; assumption.
Qed.

(* ---- bitwiseNegation: 2^(64 L) - 1 - |v| ---- *)
Lemma wbit_map_not64 ws i : wordsok ws -> wbit (map not64 ws) i = (i <? 64 * wlen ws) && negb (wbit ws i).
Proof.
  intro H. revert i. induction H as [|w r Hw Hr IH]; intro i.
  - cbn [map]. rewrite wbit_nil. unfold wlen. simpl. destruct i; reflexivity.
  - cbn [map]. rewrite !wbit_cons, IH, tb_not64. unfold wlen. cbn [length].
    destruct (N.ltb_spec i 64).
    + destruct (N.ltb_spec i (64 * N.of_nat (S (length r)))); [reflexivity | lia].
    + destruct (N.ltb_spec (i - 64) (64 * N.of_nat (length r))),
               (N.ltb_spec i (64 * N.of_nat (S (length r)))); try lia; reflexivity.
Qed.

Lemma wbit_app ws r i : wbit (ws ++ r) i = if i <? 64 * wlen ws then wbit ws i else wbit r (i - 64 * wlen ws).
Proof.
  revert i. induction ws as [|w ws IH]; intro i.
  - unfold wlen. simpl. replace (i - 0) with i by lia. destruct i; reflexivity.
  - cbn [app]. rewrite !wbit_cons, IH. unfold wlen. cbn [length].
    destruct (N.ltb_spec i 64).
    + destruct (N.ltb_spec i (64 * N.of_nat (S (length ws)))); [reflexivity | lia].
    + destruct (N.ltb_spec (i - 64) (64 * N.of_nat (length ws))),
               (N.ltb_spec i (64 * N.of_nat (S (length ws)))); try lia; [reflexivity|].
      f_equal. lia.
Qed.

Lemma wbit_repeat_ones n i : wbit (repeat (not64 0) n) i = (i <? 64 * N.of_nat n).
Proof.
  revert i. induction n as [|n IH]; intro i.
  - simpl. rewrite wbit_nil. destruct i; reflexivity.
  - cbn [repeat]. rewrite wbit_cons, IH, tb_not64, tb_0.
    destruct (N.ltb_spec i 64).
    + destruct (N.ltb_spec i (64 * N.of_nat (S n))); [reflexivity | lia].
    + destruct (N.ltb_spec (i - 64) (64 * N.of_nat n)), (N.ltb_spec i (64 * N.of_nat (S n))); try lia; reflexivity.
Qed.

Lemma wordsok_repeat x n : lt64 x -> wordsok (repeat x n).
Proof. intro H. induction n; simpl; constructor; auto. Qed.

Lemma wordsok_map_not64 ws : wordsok (map not64 ws).
Proof. induction ws; simpl; constructor; auto. apply lt64_not64. Qed.

Lemma bitwiseNegation_value v width :
  exists K, width <= K /\ Z.abs_N v < 2 ^ K /\
            bitwiseNegation v width = (Z.of_N (2 ^ K) - 1 - Z.of_N (Z.abs_N v))%Z.
Proof.
  destruct (exportBits_spec v) as (W & B & _). pose proof (exportBits_bound v) as Bd.
  unfold bitwiseNegation.
  set (ws := exportBits v) in *. set (m := Z.abs_N v) in *.
  set (need := N.to_nat ((width + 63) / 64)).
  set (words := map not64 ws ++ repeat (not64 0) (need - length (map not64 ws))).
  set (L := N.of_nat (Nat.max (length ws) need)).
  exists (64 * L). repeat split.
  - subst L need. lia.
  - apply N.lt_le_trans with (2 ^ (64 * wlen ws)); [exact Bd|].
    apply N.pow_le_mono_r; [lia|]. subst L. unfold wlen. lia.
  - assert (Wk : wordsok words).
    { subst words. apply Forall_app. split; [apply wordsok_map_not64 | apply wordsok_repeat; apply lt64_not64]. }
    assert (Bits : forall j, N.testbit (importBits words) j = (j <? 64 * L) && negb (N.testbit m j)).
    { intro j. rewrite tb_importBits by exact Wk. subst words.
      rewrite wbit_app. unfold wlen. rewrite !map_length. fold (wlen ws).
      destruct (N.ltb_spec j (64 * wlen ws)).
      - rewrite wbit_map_not64 by exact W. rewrite B.
        destruct (N.ltb_spec j (64 * wlen ws)); [|lia].
        destruct (N.ltb_spec j (64 * L)); [reflexivity | subst L; unfold wlen in *; lia].
      - rewrite wbit_repeat_ones, ?map_length.
        rewrite (ltpow_tb m (64 * wlen ws) j Bd) by lia. cbn [negb]. rewrite andb_true_r.
        subst L. unfold wlen in *.
        destruct (N.ltb_spec (j - 64 * N.of_nat (length ws)) (64 * N.of_nat (need - length ws))),
                 (N.ltb_spec j (64 * N.of_nat (Nat.max (length ws) need))); try lia; reflexivity. }
    assert (Hm : m < 2 ^ (64 * L)).
    { apply N.lt_le_trans with (2 ^ (64 * wlen ws)); [exact Bd|].
      apply N.pow_le_mono_r; [lia|]. subst L. unfold wlen. lia. }
    assert (E : importBits words = N.ones (64 * L) - m).
    { rewrite (N.sub_nocarry_ldiff (N.ones (64 * L)) m).
      - apply N.bits_inj. intro j. rewrite Bits, N.ldiff_spec, tb_ones. reflexivity.
      - apply N.bits_inj. intro j. rewrite N.ldiff_spec, tb_ones, tb_0.
        destruct (N.ltb_spec j (64 * L)); [apply andb_false_r|].
        rewrite (ltpow_tb m (64 * L) j Hm) by lia. reflexivity. }
    rewrite E. rewrite N.ones_equiv.
    assert (0 < 2 ^ (64 * L)) by (apply N.neq_0_lt_0; apply N.pow_nonzero; discriminate).
    lia.
Qed.

(* two's complement: the low bits of the re-imported negative number are those of v *)
Lemma insert_value_bits v size :
  let v' := if (v <? 0)%Z then (bitwiseNegation v size + 1)%Z else v in
  forall j, j < size -> N.testbit (Z.abs_N v') j = Z.testbit v (Z.of_N j).
Proof.
  intros v' j Hj. subst v'. destruct (Z.ltb_spec v 0) as [Hneg | Hpos].
  - destruct (bitwiseNegation_value v size) as (K & HK & Hm & E). rewrite E.
    assert (Hv : Z.of_N (Z.abs_N v) = (- v)%Z) by lia.
    rewrite Hv.
    set (x := (Z.of_N (2 ^ K) - 1 - - v + 1)%Z).
    assert (Hx : (0 <= x)%Z) by (subst x; lia).
    assert (Ex : x = (v + 1 * 2 ^ Z.of_N K)%Z).
    { subst x. rewrite N2Z.inj_pow. simpl Z.of_N. lia. }
    rewrite <- (Z2N.id x Hx) at 1. replace (Z.abs_N (Z.of_N (Z.to_N x))) with (Z.to_N x) by lia.
    rewrite <- Z.testbit_of_N, (Z2N.id x Hx).
    rewrite <- (Z.mod_pow2_bits_low x (Z.of_N K)) by lia.
    rewrite <- (Z.mod_pow2_bits_low v (Z.of_N K) (Z.of_N j)) by lia.
    f_equal. rewrite Ex. apply Z_mod_plus_full.
  - replace (Z.abs_N v) with (Z.to_N v) by lia.
    rewrite <- Z.testbit_of_N, Z2N.id by lia. reflexivity.
Qed.

(* ---- insertBigInt: the chunk loop ---- *)
Lemma length_insertBigLoop fuel w offset size words chunk :
  length (insertBigLoop fuel w offset size words chunk) = length w.
Proof.
  revert w chunk; induction fuel as [|f IH]; intros w chunk; cbn [insertBigLoop]; [reflexivity|].
  destruct (chunk <? size); [|reflexivity]. rewrite IH.
  destruct (chunk / 64 <? N.of_nat (length words)); [apply length_insertNSP | apply length_setRangeP].
Qed.

Lemma wordsok_insertBigLoop fuel w offset size words chunk :
  wordsok w -> wordsok (insertBigLoop fuel w offset size words chunk).
Proof.
  revert w chunk; induction fuel as [|f IH]; intros w chunk H; cbn [insertBigLoop]; [exact H|].
  destruct (chunk <? size); [|exact H]. apply IH.
  destruct (chunk / 64 <? N.of_nat (length words)); [apply wordsok_insertNSP | apply wordsok_setRangeP]; exact H.
Qed.

Lemma wbit_insertBigLoop fuel w offset size words chunk i :
  wordsok w -> offset mod 64 = 0 -> chunk mod 64 = 0 -> chunk <= size ->
  size - chunk < N.of_nat fuel -> offset + size <= 64 * wlen w ->
  wbit (insertBigLoop fuel w offset size words chunk) i
  = if (offset + chunk <=? i) && (i <? offset + size) then wbit words (i - offset) else wbit w i.
Proof.
  revert w chunk; induction fuel as [|f IH]; intros w chunk Hw Ho Hc Hcs Hf Hin; [lia|].
  cbn [insertBigLoop]. destruct (N.ltb_spec chunk size) as [Hlt | Hge].
  - set (cs := N.min 64 (size - chunk)).
    assert (Hcs' : 1 <= cs <= 64 /\ chunk + cs <= size /\ (cs = 64 \/ chunk + cs = size)) by (subst cs; lia).
    set (w' := if chunk / 64 <? N.of_nat (length words)
               then insertNSP w (offset + chunk) cs (getw words (chunk / 64))
               else setRangeP w (offset + chunk) cs false).
    assert (Hw' : wordsok w').
    { subst w'. destruct (chunk / 64 <? N.of_nat (length words)); [apply wordsok_insertNSP | apply wordsok_setRangeP]; exact Hw. }
    assert (Hl' : wlen w' = wlen w).
    { subst w'. unfold wlen. destruct (chunk / 64 <? N.of_nat (length words));
        [rewrite length_insertNSP | rewrite length_setRangeP]; reflexivity. }
    assert (B' : forall x, wbit w' x = if (offset + chunk <=? x) && (x <? offset + chunk + cs)
                                       then wbit words (x - offset) else wbit w x).
    { intro x. subst w'. destruct (N.ltb_spec (chunk / 64) (N.of_nat (length words))) as [Hi | Hi].
      - rewrite wbit_insertNSP; [| exact Hw | lia | lia].
        destruct ((offset + chunk <=? x) && (x <? offset + chunk + cs)) eqn:E; [|reflexivity].
        split_cond E. unfold wbit.
        replace ((x - offset) / 64) with (chunk / 64) by lia.
        replace ((x - offset) mod 64) with (x - (offset + chunk)) by lia. reflexivity.
      - rewrite wbit_setRangeP; [| exact Hw | lia].
        destruct ((offset + chunk <=? x) && (x <? offset + chunk + cs)) eqn:E; [|reflexivity].
        split_cond E. unfold wbit, getw. rewrite nth_overflow; [symmetry; apply tb_0 | lia]. }
    destruct (N.eq_dec cs 64) as [E64 | Ene].
    + rewrite IH; [| exact Hw' | exact Ho | lia | lia | lia | rewrite Hl'; exact Hin].
      rewrite B'. cmp_cases; bool_close.
    + (* last, partial chunk: the loop stops *)
      assert (Hend : chunk + cs = size) by lia.
      destruct f as [|f]; [lia|]. cbn [insertBigLoop].
      destruct (N.ltb_spec (chunk + cs) size); [lia|].
      rewrite B'. rewrite <- Hend. cmp_cases; bool_close.
  - cmp_cases; bool_close.
Qed.

Lemma wbit_insertBig_words w offset size words i :
  wordsok w -> offset + size <= 64 * wlen w -> (size <= 64 \/ offset mod 64 = 0) ->
  wbit (if size <=? 64 then
          match words with
          | [] => setRangeP w offset size false
          | w0 :: _ => insertWP w offset size w0
          end
        else insertBigLoop (S (N.to_nat size)) w offset size words 0) i
  = if (offset <=? i) && (i <? offset + size) then wbit words (i - offset) else wbit w i.
Proof.
  intros Hw Hin Hpre. destruct (N.leb_spec size 64) as [Hs | Hs].
  - destruct words as [|w0 r].
    + rewrite wbit_setRangeP by assumption.
      destruct ((offset <=? i) && (i <? offset + size)); [rewrite wbit_nil|]; reflexivity.
    + rewrite wbit_insertWP by assumption.
      destruct ((offset <=? i) && (i <? offset + size)) eqn:E; [|reflexivity].
      split_cond E. rewrite wbit_cons. destruct (N.ltb_spec (i - offset) 64); [reflexivity | lia].
  - destruct Hpre as [Hp | Hp]; [lia|].
    rewrite wbit_insertBigLoop; [| exact Hw | exact Hp | reflexivity | lia | lia | exact Hin].
    replace (offset + 0) with offset by lia. reflexivity.
Qed.

Theorem abs_insertBigInt s off size v :
  wf s -> off + size <= bsize s -> (size <= 64 \/ off mod 64 = 0) ->
  abs (insertBigInt s off size v) = insertBigInt_spec (abs s) off size v.
Proof.
  intros H Hin Hpre. unfold insertBigInt, insertBigInt_spec. apply abs_on_plane. intro Hp.
  pose proof (wfP_plane s VALUE H Hp) as Hw. pose proof (wfP_in _ _ Hw).
  set (v' := if (v <? 0)%Z then (bitwiseNegation v size + 1)%Z else v).
  destruct (exportBits_spec v') as (W & B & _).
  apply absP_splice.
  - rewrite length_bits_of_Z. lia.
  - intros i Hi. rewrite length_bits_of_Z, N2Nat.id.
    rewrite wbit_insertBig_words; [| apply Hw | lia | exact Hpre].
    destruct ((off <=? i) && (i <? off + size)) eqn:E; [|reflexivity].
    split_cond E. rewrite B. subst v'. rewrite insert_value_bits by lia.
    rewrite nth_bits_of_Z. destruct (Nat.ltb_spec (N.to_nat (i - off)) (N.to_nat size)); [|lia].
    cbn [andb]. f_equal. lia.
Qed.

Theorem wf_insertBigInt s off size v : wf s -> wf (insertBigInt s off size v).
Proof.
  intro H. apply wf_on_plane; [exact H|]. intro Hw.
  destruct (size <=? 64).
  - destruct (exportBits _) as [|w0 r].
    + eapply wfP_length; [exact Hw | apply length_setRangeP | apply wordsok_setRangeP; apply Hw].
    + eapply wfP_length; [exact Hw | apply length_insertWP | apply wordsok_insertWP; apply Hw].
  - eapply wfP_length; [exact Hw | apply length_insertBigLoop | apply wordsok_insertBigLoop; apply Hw].
Qed.

Theorem clean_insertBigInt s off size v :
  wf s -> clean s -> off + size <= bsize s -> (size <= 64 \/ off mod 64 = 0) ->
  clean (insertBigInt s off size v).
Proof.
  intros H Hc Hin Hpre. apply clean_on_plane; [exact Hc|]. intros Hp Hcp.
  pose proof (wfP_plane s VALUE H Hp) as Hw. pose proof (wfP_in _ _ Hw).
  eapply cleanP_keep; [exact Hcp|]. intros j Hj.
  rewrite wbit_insertBig_words; [| apply Hw | lia | exact Hpre].
  destruct (N.leb_spec off j); bsimpl; [|reflexivity].
  destruct (N.ltb_spec j (off + size)); [lia | reflexivity].
Qed.

(* ---- extractBigInt ---- *)
Lemma getw_subwords w a b k : getw (subwords w a b) k = if k <? b - a then getw w (a + k) else 0.
Proof.
  unfold getw, subwords. rewrite nth_firstn_if, nth_skipn_add.
  destruct (Nat.ltb_spec (N.to_nat k) (N.to_nat (b - a))), (N.ltb_spec k (b - a)); try lia; try reflexivity.
  f_equal. lia.
Qed.

Lemma wordsok_subwords w a b : wordsok w -> wordsok (subwords w a b).
Proof. intro H. unfold subwords. apply wordsok_firstn. apply wordsok_skipn. exact H. Qed.

Lemma tb_extractBig w off size j :
  wordsok w -> (size <= 64 \/ off mod 64 = 0) ->
  N.testbit (if size <=? 64 then extractWP w off size
             else let lastChunkOffset := (off + size) / 64 * 64 in
                  let lastChunkWidth := size - (lastChunkOffset - off) in
                  let partialChunk := if 0 <? lastChunkWidth then extractNSP w lastChunkOffset lastChunkWidth else 0 in
                  let fullChunkPart := importBits (subwords w (off / 64) ((off + size) / 64)) in
                  N.lor fullChunkPart (N.shiftl partialChunk (lastChunkOffset - off))) j
  = (j <? size) && wbit w (off + j).
Proof.
  intros Hw Hpre. destruct (N.leb_spec size 64) as [Hs | Hs].
  - apply tb_extractWP; assumption.
  - destruct Hpre as [Hp | Hp]; [lia|]. cbv zeta.
    rewrite N.lor_spec, tb_importBits by (apply wordsok_subwords; exact Hw).
    rewrite tb_shl. unfold wbit at 1. rewrite getw_subwords.
    set (lo := (off + size) / 64 * 64). set (lw := size - (lo - off)).
    assert (Hlo : off <= lo <= off + size /\ lo mod 64 = 0 /\ lw < 64 /\ lo + lw = off + size) by (subst lo lw; lia).
    destruct (N.ltb_spec (j / 64) ((off + size) / 64 - off / 64)) as [Hf | Hf].
    + (* inside the full words *)
      assert (j < lo - off) by (subst lo; lia).
      destruct (N.leb_spec (lo - off) j); [lia|]. bsimpl. rewrite orb_false_r.
      destruct (N.ltb_spec j size); [|lia]. bsimpl. unfold wbit.
      replace ((off + j) / 64) with (off / 64 + j / 64) by lia.
      replace ((off + j) mod 64) with (j mod 64) by lia. reflexivity.
    + rewrite tb_0. bsimpl.
      assert (lo - off <= j) by (subst lo; lia).
      destruct (N.leb_spec (lo - off) j); [|lia]. bsimpl.
      destruct (N.ltb_spec 0 lw).
      * rewrite tb_extractNSP by lia.
        destruct (N.ltb_spec (j - (lo - off)) lw), (N.ltb_spec j size); try lia; bsimpl; try reflexivity.
        f_equal. lia.
      * rewrite tb_0. destruct (N.ltb_spec j size); [lia | reflexivity].
Qed.

Theorem extractBigInt_abs s off size :
  wf s -> (VALUE < length (planes s))%nat -> off + size <= bsize s -> (size <= 64 \/ off mod 64 = 0) ->
  extractBigInt s off size = extractBigInt_spec (abs s) off size.
Proof.
  intros H Hp Hin Hpre. unfold extractBigInt, extractBigInt_spec. rewrite splane_abs by exact Hp.
  pose proof (wfP_plane s VALUE H Hp) as Hw.
  set (x := if size <=? 64 then _ else _).
  assert (Ex : (if size <=? 64 then Z.of_N (extractWP (plane s VALUE) off size)
                else Z.of_N (N.lor (importBits (subwords (plane s VALUE) (off / 64) ((off + size) / 64)))
                       (N.shiftl (if 0 <? size - ((off + size) / 64 * 64 - off)
                                  then extractNSP (plane s VALUE) ((off + size) / 64 * 64) (size - ((off + size) / 64 * 64 - off))
                                  else 0) ((off + size) / 64 * 64 - off))))
               = Z.of_N (if size <=? 64 then extractWP (plane s VALUE) off size
                         else N.lor (importBits (subwords (plane s VALUE) (off / 64) ((off + size) / 64)))
                                (N.shiftl (if 0 <? size - ((off + size) / 64 * 64 - off)
                                           then extractNSP (plane s VALUE) ((off + size) / 64 * 64) (size - ((off + size) / 64 * 64 - off))
                                           else 0) ((off + size) / 64 * 64 - off)))).
  { destruct (size <=? 64); reflexivity. }
  subst x. cbv zeta. rewrite Ex. f_equal.
  apply N_of_bits_slice; [exact Hin|]. intro j.
  apply (tb_extractBig (plane s VALUE) off size j); [apply Hw | exact Hpre].
Qed.

(* ---- round trip ---- *)
Lemma slice_splice off (new l : list bool) :
  (off + length new <= length l)%nat -> slice off (length new) (splice off new l) = new.
Proof.
  intro H. apply list_bool_ext.
  - rewrite length_slice; [reflexivity | rewrite length_splice by exact H; exact H].
  - intros i Hi. rewrite length_slice in Hi by (rewrite length_splice by exact H; exact H).
    rewrite nth_slice, nth_splice by lia.
    destruct (Nat.ltb_spec i (length new)); [|lia]. cbn [andb].
    destruct (Nat.ltb_spec (off + i) off); [lia|].
    destruct (Nat.ltb_spec (off + i) (off + length new)); [|lia]. f_equal. lia.
Qed.

Lemma slice_splice_len off n (new l : list bool) :
  n = length new -> (off + n <= length l)%nat -> slice off n (splice off new l) = new.
Proof. intros -> H. apply slice_splice. exact H. Qed.

Theorem bigint_roundtrip s off n z :
  wf s -> (VALUE < length (planes s))%nat -> off + n <= bsize s -> (n <= 64 \/ off mod 64 = 0) ->
  extractBigInt (insertBigInt s off n z) off n = (z mod 2 ^ Z.of_N n)%Z.
Proof.
  intros H Hp Hin Hpre.
  assert (Hp' : (VALUE < length (planes (insertBigInt s off n z)))%nat).
  { unfold insertBigInt, on_plane. cbn [planes]. rewrite length_upd_nat. exact Hp. }
  rewrite extractBigInt_abs; [| apply wf_insertBigInt; exact H | exact Hp' | exact Hin | exact Hpre].
  rewrite abs_insertBigInt by assumption.
  unfold extractBigInt_spec, insertBigInt_spec, on_splane.
  unfold splane at 1. rewrite nth_upd_nat_same by (unfold abs; rewrite map_length; exact Hp).
  rewrite slice_splice_len.
  - rewrite N_of_bits_of_Z, N_nat_Z. reflexivity.
  - rewrite length_bits_of_Z. reflexivity.
  - rewrite splane_abs by exact Hp. rewrite length_absP. lia.
Qed.
