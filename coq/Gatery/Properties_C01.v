(* C01 — Postprocessing preserves observable circuit behaviour.
   Proof shape S2 (DESIGN.md 1, 6 and section 10): the theorem is about a CHECKER.  For any two
   netlists A (as constructed) and B (post-processed), any reset/clock schedule and any pin
   widths: if the verified checker accepts a certificate (finite sets of product states), then
   for ALL stimulus sequences of those widths and ALL cycles
     - no output-pin bit that both runs define differs (bit-wise compatibility), and
     - if A's run has been free of undefined values up to that cycle (all inputs and all node
       outputs of A defined), B's pin values are identical to A's.
   The checker is run (extracted) on the real pre/post netlist dumps of every generated design. *)
From Coq Require Import List Bool Arith.
From Gatery Require Import Bits NodeSemDefs NodeSemReg NetDefs ProductCert.
Import ListNotations.

Theorem C01_cert_sound : forall (nl1 nl2 : netlist) (sc : schedule) (ws : list nat) (sigma : nat -> list bv),
  (forall t, ins_wf ws (sigma t)) ->
  forall layers, check_cert MRefine nl1 nl2 sc ws layers = true ->
  forall t, Forall2 bv_compat (out_at nl1 sc sigma t) (out_at nl2 sc sigma t) /\
            (clean_upto nl1 sc sigma t = true -> out_at nl2 sc sigma t = out_at nl1 sc sigma t).
Proof. intros nl1 nl2 sc ws sigma Hs layers H. exact (cert_sound MRefine nl1 nl2 sc ws sigma Hs layers eq_refl H). Qed.
Print Assumptions C01_cert_sound.

(* the product run never leaves the certified sets *)
Theorem C01_cert_invariant : forall (nl1 nl2 : netlist) (sc : schedule) (ws : list nat) (sigma : nat -> list bv),
  (forall t, ins_wf ws (sigma t)) ->
  forall mode layers, check_cert mode nl1 nl2 sc ws layers = true ->
  forall t, In (pstate_at nl1 nl2 sc sigma t) (layer sc layers t).
Proof. intros nl1 nl2 sc ws sigma Hs mode layers H. exact (cert_invariant mode nl1 nl2 sc ws sigma Hs layers H). Qed.
Print Assumptions C01_cert_invariant.

(* the input enumeration the checker relies on is complete for 4-state vectors of the given widths *)
Theorem C01_all_inputs_enumerated : forall ws ins, ins_wf ws ins -> In ins (all_ins ws).
Proof. exact all_ins_complete. Qed.
Print Assumptions C01_all_inputs_enumerated.

(* ---- non-vacuity: a two-node design and an "optimised" twin, certificate accepted by the kernel ---- *)
(* A: out = NOT (NOT in)      B: out = in   (1-bit input pin, one output pin, no registers) *)
Definition exA : netlist :=
  [ mk_node (NPinIn 1 0) [];
    mk_node (NComb (KLogic L_NOT 1)) [Some (0, 0)];
    mk_node (NComb (KLogic L_NOT 1)) [Some (1, 0)];
    mk_node (NPinOut 1) [Some (2, 0)] ].
Definition exB : netlist :=
  [ mk_node (NPinIn 1 0) [];
    mk_node (NPinOut 1) [Some (0, 0)] ].
Definition ex_sched : schedule := mk_sched [[EvReset true]; [EvEdge; EvReset false]] [EvEdge].
Definition ex_layers : list (list pstate) :=
  [ [mk_pstate [] [] true]; [mk_pstate [] [] true; mk_pstate [] [] false]; [mk_pstate [] [] true; mk_pstate [] [] false] ].

Example ex_cert_accepted : check_cert MRefine exA exB ex_sched [1] ex_layers = true.
Proof. vm_compute. reflexivity. Qed.

(* and a wrong "optimisation" (B' drops one NOT) is rejected *)
Definition exBad : netlist :=
  [ mk_node (NPinIn 1 0) [];
    mk_node (NComb (KLogic L_NOT 1)) [Some (0, 0)];
    mk_node (NPinOut 1) [Some (1, 0)] ].
Example ex_cert_rejected : check_cert MRefine exA exBad ex_sched [1] ex_layers = false.
Proof. vm_compute. reflexivity. Qed.
