(* Bit-level lemmas used by the node-semantics proofs (extra lemmas over Bits.v). *)
From Gatery Require Import Bits NodeSemDefs.
Import ListNotations.

(* ------------------------------------------------------------------ *)
(* bv_get / bv_build                                                     *)

Lemma bv_build_length w f : length (bv_build w f) = w.
Proof. unfold bv_build. rewrite map_length, seq_length. reflexivity. Qed.

Lemma bv_get_build w f i : bv_get (bv_build w f) i = if i <? w then f i else BX.
Proof.
  unfold bv_get, bv_build. destruct (Nat.ltb_spec i w) as [H|H].
  - rewrite nth_indep with (d' := f 0) by (rewrite map_length, seq_length; exact H).
    rewrite map_nth. rewrite seq_nth by exact H. reflexivity.
  - apply nth_overflow. rewrite map_length, seq_length. exact H.
Qed.

Lemma bv_get_overflow x i : length x <= i -> bv_get x i = BX.
Proof. intro H. unfold bv_get. apply nth_overflow. exact H. Qed.

Lemma bv_ext x y : length x = length y -> (forall i, i < length x -> bv_get x i = bv_get y i) -> x = y.
Proof.
  intros Hl H. apply nth_ext with (d := BX) (d' := BX); [exact Hl|]. intros n Hn. apply H. exact Hn.
Qed.

Lemma bv_build_ext w f g : (forall i, i < w -> f i = g i) -> bv_build w f = bv_build w g.
Proof.
  intro H. unfold bv_build. apply map_ext_in. intros a Ha. apply in_seq in Ha. apply H. lia.
Qed.

Lemma bv_resize_id x : bv_resize (length x) x = x.
Proof.
  apply bv_ext.
  - apply bv_build_length.
  - intros i Hi. unfold bv_resize in *. rewrite bv_build_length in Hi. rewrite bv_get_build.
    apply Nat.ltb_lt in Hi. rewrite Hi. reflexivity.
Qed.

Lemma bv_slice_length x off w : length (bv_slice x off w) = w.
Proof. apply bv_build_length. Qed.

Lemma bv_get_nil i : bv_get [] i = BX.
Proof. unfold bv_get. destruct i; reflexivity. Qed.

Lemma bv_get_repeat b n i : bv_get (repeat b n) i = if i <? n then b else BX.
Proof.
  unfold bv_get. revert i. induction n as [|n IH]; intros [|i]; simpl; try reflexivity.
  rewrite IH. reflexivity.
Qed.

Lemma bv_get_allX n i : bv_get (all_X n) i = BX.
Proof. unfold all_X. rewrite bv_get_repeat. destruct (i <? n); reflexivity. Qed.

Lemma all_X_length n : length (all_X n) = n.
Proof. apply repeat_length. Qed.

Lemma bv_build_allX w : bv_build w (fun _ => BX) = all_X w.
Proof.
  apply bv_ext.
  - rewrite bv_build_length, all_X_length. reflexivity.
  - intros i Hi. rewrite bv_build_length in Hi. rewrite bv_get_build, bv_get_allX.
    destruct (i <? w); reflexivity.
Qed.

Lemma bv_build_repeat w b : bv_build w (fun _ => b) = repeat b w.
Proof.
  apply bv_ext.
  - rewrite bv_build_length, repeat_length. reflexivity.
  - intros i Hi. rewrite bv_build_length in Hi. rewrite bv_get_build, bv_get_repeat. reflexivity.
Qed.

Lemma bv_get_app x y i : bv_get (x ++ y) i = if i <? length x then bv_get x i else bv_get y (i - length x).
Proof.
  unfold bv_get. destruct (Nat.ltb_spec i (length x)) as [H|H].
  - apply app_nth1; exact H.
  - apply app_nth2; exact H.
Qed.

(* ------------------------------------------------------------------ *)
(* pointwise relations                                                   *)

Lemma Forall2_build (R : tbit -> tbit -> Prop) w f g :
  (forall i, i < w -> R (f i) (g i)) -> Forall2 R (bv_build w f) (bv_build w g).
Proof.
  intro H. unfold bv_build.
  assert (G : forall l, (forall i, In i l -> R (f i) (g i)) -> Forall2 R (map f l) (map g l)).
  { induction l as [|a l IH]; intros Hl; simpl; constructor.
    - apply Hl. left; reflexivity.
    - apply IH. intros i Hi. apply Hl. right; exact Hi. }
  apply G. intros i Hi. apply in_seq in Hi. apply H. lia.
Qed.

Lemma Forall2_get (R : tbit -> tbit -> Prop) x y :
  R BX BX -> Forall2 R x y -> forall i, R (bv_get x i) (bv_get y i).
Proof.
  intros HX H. induction H as [|a b x y Hab Hxy IH]; intro i.
  - rewrite !bv_get_nil. exact HX.
  - destruct i; simpl; [exact Hab | apply IH].
Qed.

Lemma Forall2_of_get (R : tbit -> tbit -> Prop) x y :
  length x = length y -> (forall i, i < length x -> R (bv_get x i) (bv_get y i)) -> Forall2 R x y.
Proof.
  revert y. induction x as [|a x IH]; intros [|b y] Hl H; simpl in Hl; try discriminate; constructor.
  - apply (H 0). simpl; lia.
  - apply IH; [lia|]. intros i Hi. apply (H (S i)). simpl; lia.
Qed.

Lemma Forall2_length_eq {A B} (R : A -> B -> Prop) x y : Forall2 R x y -> length x = length y.
Proof. induction 1; simpl; auto. Qed.

Lemma Forall2_refl_on (R : tbit -> tbit -> Prop) x : (forall a, R a a) -> Forall2 R x x.
Proof. intro H. induction x; constructor; auto. Qed.

Lemma compat_allX_l w y : length y = w -> bv_compat (all_X w) y.
Proof. intro H. apply bv_le_compat. apply all_X_le. exact H. Qed.
Lemma compat_allX_r w y : length y = w -> bv_compat y (all_X w).
Proof. intro H. apply bv_compat_sym. apply compat_allX_l. exact H. Qed.

Lemma compat_BX_l a : compat BX a.  Proof. left; reflexivity. Qed.
Lemma compat_BX_r a : compat a BX.  Proof. right; left; reflexivity. Qed.
Lemma le_def_BX a : le_def BX a.  Proof. left; reflexivity. Qed.

Lemma Forall2_resize (R : tbit -> tbit -> Prop) w x y :
  R BX BX -> Forall2 R x y -> Forall2 R (bv_resize w x) (bv_resize w y).
Proof. intros HX H. apply Forall2_build. intros i _. apply Forall2_get; assumption. Qed.

Lemma Forall2_slice (R : tbit -> tbit -> Prop) off w x y :
  R BX BX -> Forall2 R x y -> Forall2 R (bv_slice x off w) (bv_slice y off w).
Proof. intros HX H. apply Forall2_build. intros i _. apply Forall2_get; assumption. Qed.

Lemma Forall2_repeat (R : tbit -> tbit -> Prop) a b n : R a b -> Forall2 R (repeat a n) (repeat b n).
Proof. intro H. induction n; simpl; constructor; auto. Qed.

(* ------------------------------------------------------------------ *)
(* bv_val / bv_of_N                                                      *)

Lemma bv_val_cons b r :
  bv_val (b :: r) = match b, bv_val r with
                    | BX, _ | _, None => None
                    | B0, Some v => Some (2 * v)%N
                    | B1, Some v => Some (2 * v + 1)%N
                    end.
Proof. reflexivity. Qed.

Lemma bv_val_all_def x v : bv_val x = Some v -> all_def x = true.
Proof.
  revert v. induction x as [|b r IH]; intros v H; simpl in *; [reflexivity|].
  destruct b; try discriminate; destruct (bv_val r) as [u|] eqn:E; try discriminate;
    simpl; apply (IH u); reflexivity.
Qed.

Lemma all_def_bv_val x : all_def x = true -> exists v, bv_val x = Some v.
Proof.
  induction x as [|b r IH]; simpl; intro H; [eexists; reflexivity|].
  apply andb_prop in H as [Hb Hr]. destruct (IH Hr) as [u Hu]. rewrite Hu.
  destruct b; try discriminate; eexists; reflexivity.
Qed.

Lemma bv_val_none_not_all_def x : bv_val x = None -> all_def x = false.
Proof.
  intro H. destruct (all_def x) eqn:E; [|reflexivity].
  apply all_def_bv_val in E as [v Hv]. congruence.
Qed.

Lemma bv_val_lt x v : bv_val x = Some v -> (v < 2 ^ N.of_nat (length x))%N.
Proof.
  revert v. induction x as [|b r IH]; intros v H.
  - simpl in H. injection H as <-. simpl. lia.
  - rewrite bv_val_cons in H. cbn [length]. replace (N.of_nat (S (length r))) with (N.succ (N.of_nat (length r))) by lia.
    rewrite N.pow_succ_r'. destruct (bv_val r) as [u|]; [|destruct b; discriminate].
    specialize (IH u eq_refl).
    destruct b; try discriminate;
      [assert (E : v = (2 * u)%N) by congruence | assert (E : v = (2 * u + 1)%N) by congruence]; subst v; lia.
Qed.

Lemma bv_of_N_val x v : bv_val x = Some v -> bv_of_N (length x) v = x.
Proof.
  revert v. induction x as [|b r IH]; intros v H; [reflexivity|].
  rewrite bv_val_cons in H. cbn [length bv_of_N].
  destruct (bv_val r) as [u|]; [|destruct b; discriminate].
  specialize (IH u eq_refl).
  destruct b; try discriminate;
    [assert (E : v = (2 * u)%N) by congruence | assert (E : v = (2 * u + 1)%N) by congruence]; subst v; clear H.
  - replace (N.odd (2 * u)) with false by (rewrite N.odd_mul, N.odd_2; reflexivity).
    replace (N.div2 (2 * u)) with u by (rewrite N.div2_double; reflexivity).
    simpl. rewrite IH. reflexivity.
  - replace (N.odd (2 * u + 1)) with true by (rewrite N.add_comm, N.odd_add_mul_2; reflexivity).
    replace (N.div2 (2 * u + 1)) with u
      by (rewrite N.div2_spec, N.shiftr_div_pow2; change (2 ^ 1)%N with 2%N; apply N.div_unique with (r := 1%N); lia).
    simpl. rewrite IH. reflexivity.
Qed.

Lemma bv_val_inj x y v : bv_val x = Some v -> bv_val y = Some v -> length x = length y -> x = y.
Proof.
  intros Hx Hy Hl. rewrite <- (bv_of_N_val x v Hx), <- (bv_of_N_val y v Hy), Hl. reflexivity.
Qed.

Lemma bv_of_N_eq_mod w a b :
  (a mod 2 ^ N.of_nat w = b mod 2 ^ N.of_nat w)%N -> bv_of_N w a = bv_of_N w b.
Proof.
  intro H. apply bv_val_inj with (v := (a mod 2 ^ N.of_nat w)%N).
  - apply bv_val_of_N.
  - rewrite H. apply bv_val_of_N.
  - rewrite !bv_of_N_length. reflexivity.
Qed.

Lemma bv_of_N_mod w n : bv_of_N w (n mod 2 ^ N.of_nat w) = bv_of_N w n.
Proof.
  apply bv_of_N_eq_mod. apply N.mod_mod. apply N.pow_nonzero. discriminate.
Qed.

Lemma bv_val_compat_eq x y a b :
  bv_compat x y -> bv_val x = Some a -> bv_val y = Some b -> x = y /\ a = b.
Proof.
  intros H Hx Hy.
  assert (E : x = y).
  { apply bv_val_all_def in Hx as Dx. apply bv_val_all_def in Hy as Dy.
    clear Hx Hy. induction H as [|p q x y Hpq Hxy IH]; [reflexivity|].
    simpl in Dx, Dy. apply andb_prop in Dx as [Dp Dx]. apply andb_prop in Dy as [Dq Dy].
    f_equal; [apply compat_defined_eq; assumption | apply IH; assumption]. }
  split; [exact E|]. subst y. congruence.
Qed.

Lemma bv_val_le_eq x y a : bv_le x y -> bv_val x = Some a -> y = x.
Proof.
  intros H Hx. symmetry. apply bv_le_all_def_eq; [exact H|]. apply bv_val_all_def with (v := a). exact Hx.
Qed.

Lemma bv_get_of_N w n i :
  bv_get (bv_of_N w n) i = if i <? w then of_bool (N.testbit n (N.of_nat i)) else BX.
Proof.
  revert n i. induction w as [|w IH]; intros n i.
  - simpl. rewrite bv_get_nil. reflexivity.
  - destruct i as [|i].
    + simpl. rewrite N.bit0_odd. reflexivity.
    + cbn [bv_of_N]. unfold bv_get. cbn [nth]. fold (bv_get (bv_of_N w (N.div2 n)) i). rewrite IH.
      replace (S i <? S w) with (i <? w) by reflexivity.
      destruct (i <? w); [|reflexivity]. f_equal.
      rewrite N.div2_spec, N.shiftr_spec by lia. f_equal. lia.
Qed.

Lemma bv_get_val x v i :
  bv_val x = Some v -> i < length x -> bv_get x i = of_bool (N.testbit v (N.of_nat i)).
Proof.
  intros H Hi. rewrite <- (bv_of_N_val x v H) at 1. rewrite bv_get_of_N.
  apply Nat.ltb_lt in Hi. rewrite Hi. reflexivity.
Qed.

Lemma bv_val_nil_iff x : length x = 0 -> bv_val x = Some 0%N.
Proof. destruct x; simpl; [reflexivity | discriminate]. Qed.

(* ------------------------------------------------------------------ *)
(* plane words                                                           *)

Lemma testbit_b2n_add_double (b : bool) (n : N) i :
  N.testbit (N.b2n b + 2 * n) i = if (i =? 0)%N then b else N.testbit n (N.pred i).
Proof.
  destruct (N.eqb_spec i 0) as [->|Hi].
  - rewrite N.add_comm. apply N.testbit_0_r.
  - replace i with (N.succ (N.pred i)) at 1 by lia. rewrite N.add_comm. apply N.testbit_succ_r.
Qed.

Lemma plane_v_testbit x i : N.testbit (plane_v x) (N.of_nat i) = bit_val (bv_get x i).
Proof.
  revert i. induction x as [|b r IH]; intro i.
  - rewrite bv_get_nil. cbn [plane_v plane_d bit_val is_def]. apply N.bits_0.
  - cbn [plane_v]. rewrite testbit_b2n_add_double. destruct i as [|i].
    + reflexivity.
    + replace (N.of_nat (S i) =? 0)%N with false by (symmetry; apply N.eqb_neq; lia).
      replace (N.pred (N.of_nat (S i))) with (N.of_nat i) by lia. rewrite IH. reflexivity.
Qed.

Lemma plane_d_testbit x i : N.testbit (plane_d x) (N.of_nat i) = is_def (bv_get x i).
Proof.
  revert i. induction x as [|b r IH]; intro i.
  - rewrite bv_get_nil. cbn [plane_v plane_d bit_val is_def]. apply N.bits_0.
  - cbn [plane_d]. rewrite testbit_b2n_add_double. destruct i as [|i].
    + reflexivity.
    + replace (N.of_nat (S i) =? 0)%N with false by (symmetry; apply N.eqb_neq; lia).
      replace (N.pred (N.of_nat (S i))) with (N.of_nat i) by lia. rewrite IH. reflexivity.
Qed.

Lemma bv_get_of_planes w v d i :
  bv_get (bv_of_planes w v d) i =
  if i <? w then of_planes (N.testbit v (N.of_nat i)) (N.testbit d (N.of_nat i)) else BX.
Proof.
  revert v d i. induction w as [|w IH]; intros v d i.
  - simpl. rewrite bv_get_nil. reflexivity.
  - destruct i as [|i].
    + simpl. rewrite !N.bit0_odd. reflexivity.
    + cbn [bv_of_planes]. unfold bv_get. cbn [nth]. fold (bv_get (bv_of_planes w (N.div2 v) (N.div2 d)) i).
      rewrite IH. replace (S i <? S w) with (i <? w) by reflexivity.
      destruct (i <? w); [|reflexivity].
      rewrite !N.div2_spec, !N.shiftr_spec by lia.
      replace (N.of_nat i + 1)%N with (N.of_nat (S i)) by lia. reflexivity.
Qed.

Lemma bv_of_planes_length w v d : length (bv_of_planes w v d) = w.
Proof. revert v d; induction w; simpl; auto. Qed.

Lemma of_planes_bit a : of_planes (bit_val a) (is_def a) = a.
Proof. destruct a; reflexivity. Qed.
