(* C07 -- the explicit collision logic MemoryDetector.cpp generates during post-processing, at the
   level of arrays and defined inputs:
   * convertToReadBeforeWrite: a read port ordered after write ports becomes a read-before-write
     port followed by one forwarding mux per earlier write port,
   * resolveWriteOrder: an earlier write port is disabled when a later one writes the same address,
     after which the write ports need no commit order,
   * the tolerant specification used by the check on post-processed circuits agrees with the plain
     array specification on in-range inputs of ordered memories. *)
From Coq Require Import Permutation.
From Gatery Require Import Bits MemDefs.
Import ListNotations.

(* ------------------------------------------------------------------ convertToReadBeforeWrite *)

(* "If read and write addr match and read and write are enabled, forward write data to read output."
   The muxes are nested so that the write port closest to the read port decides last. *)
Definition rbw_mux (ra : N) (out : bv) (p : wr) : bv :=
  if N.eqb ra (w_addr p) && w_en p then w_data p else out.

Lemma rbw_mux_chain_proof : forall (ws : list wr) (f : arr) (ra : N),
  fold_left (rbw_mux ra) ws (f ra) = fold_left apply_wr ws f ra.
Proof.
  induction ws as [|p ws IH]; intros f ra; simpl; auto.
  rewrite <- IH. f_equal. unfold rbw_mux, apply_wr, arr_upd.
  destruct (w_en p); rewrite ?andb_false_r, ?andb_true_r; auto.
Qed.

(* ------------------------------------------------------------------ resolveWriteOrder *)

(* every earlier write port is disabled when a later one is enabled on the same address (the network
   resolveWriteOrder emits once every ordered pair of write ports has been visited) *)
Fixpoint resolve (ws : list wr) : list wr :=
  match ws with
  | [] => []
  | p :: r =>
    MkWr (w_addr p) (w_en p && negb (existsb (fun q => N.eqb (w_addr q) (w_addr p) && w_en q) r)) (w_data p)
    :: resolve r
  end.

Definition enabled_addrs (ws : list wr) : list N := map w_addr (filter w_en ws).

(* data of the last enabled write to [a] *)
Fixpoint last_write (a : N) (ws : list wr) : option bv :=
  match ws with
  | [] => None
  | p :: r => match last_write a r with
              | Some d => Some d
              | None => if N.eqb (w_addr p) a && w_en p then Some (w_data p) else None
              end
  end.

Lemma fold_last_write : forall ws (f : arr) a,
  fold_left apply_wr ws f a = match last_write a ws with Some d => d | None => f a end.
Proof.
  induction ws as [|p ws IH]; intros f a; simpl; auto.
  rewrite IH. destruct (last_write a ws); auto.
  unfold apply_wr, arr_upd. rewrite N.eqb_sym.
  destruct (w_en p); rewrite ?andb_false_r, ?andb_true_r; auto.
  destruct (N.eqb a (w_addr p)); reflexivity.
Qed.

Lemma last_write_none a : forall ws, last_write a ws = None ->
  existsb (fun q => N.eqb (w_addr q) a && w_en q) ws = false.
Proof.
  induction ws as [|p ws IH]; simpl; auto. intro H.
  destruct (last_write a ws); try discriminate.
  destruct (N.eqb (w_addr p) a && w_en p); try discriminate. rewrite IH; auto.
Qed.

Lemma last_write_some a : forall ws d, last_write a ws = Some d ->
  exists p, In p ws /\ w_en p = true /\ w_addr p = a /\ w_data p = d.
Proof.
  induction ws as [|p ws IH]; simpl; intros d H; try discriminate.
  destruct (last_write a ws) as [d'|] eqn:E.
  - inversion H; subst. destruct (IH d eq_refl) as (q & Hq & H1). exists q; auto.
  - destruct (N.eqb (w_addr p) a && w_en p) eqn:C; try discriminate. inversion H; subst.
    apply andb_prop in C as [Ca Ce]. apply N.eqb_eq in Ca. exists p; auto.
Qed.

Lemma resolve_last_write a : forall ws, last_write a (resolve ws) = last_write a ws.
Proof.
  induction ws as [|p ws IH]; simpl; auto. rewrite IH.
  destruct (last_write a ws) eqn:E; auto.
  destruct (N.eqb_spec (w_addr p) a) as [Ha|Ha]; simpl; auto.
  subst a. rewrite (last_write_none _ _ E). simpl. rewrite andb_true_r. reflexivity.
Qed.

Lemma resolve_same_array_proof : forall ws (f : arr) a,
  fold_left apply_wr (resolve ws) f a = fold_left apply_wr ws f a.
Proof. intros. rewrite !fold_last_write, resolve_last_write. reflexivity. Qed.

Lemma in_enabled_resolve a : forall ws, In a (enabled_addrs (resolve ws)) ->
  existsb (fun q => N.eqb (w_addr q) a && w_en q) ws = true.
Proof.
  unfold enabled_addrs. induction ws as [|p ws IH]; simpl; try tauto. intro H.
  destruct (w_en p && negb (existsb (fun q => N.eqb (w_addr q) (w_addr p) && w_en q) ws)) eqn:C.
  - simpl in H. destruct H as [H|H].
    + subst a. apply andb_prop in C as [Ce _]. rewrite N.eqb_refl, Ce. reflexivity.
    + rewrite (IH H). apply orb_true_r.
  - rewrite (IH H). apply orb_true_r.
Qed.

Lemma resolve_no_collision_proof : forall ws, NoDup (enabled_addrs (resolve ws)).
Proof.
  induction ws as [|p ws IH]; [constructor|]. unfold enabled_addrs in *. simpl.
  destruct (w_en p && negb (existsb (fun q => N.eqb (w_addr q) (w_addr p) && w_en q) ws)) eqn:C; auto.
  simpl. constructor; auto. intro H. apply in_enabled_resolve in H.
  apply andb_prop in C as [_ C]. rewrite H in C. discriminate.
Qed.

(* without collisions the commit order of the write ports is irrelevant *)
Lemma last_write_unique : forall ws p, NoDup (enabled_addrs ws) -> In p ws -> w_en p = true ->
  last_write (w_addr p) ws = Some (w_data p).
Proof.
  unfold enabled_addrs. induction ws as [|q ws IH]; intros p Hnd Hin He; [destruct Hin|].
  simpl in Hnd. simpl. destruct Hin as [Hq|Hin].
  - subst q. rewrite He in Hnd. simpl in Hnd. inversion Hnd as [|? ? Hni Hnd']; subst.
    destruct (last_write (w_addr p) ws) as [d|] eqn:E.
    + exfalso. destruct (last_write_some _ _ _ E) as (r & Hr & Hre & Hra & _).
      apply Hni. rewrite <- Hra. apply in_map. apply filter_In; auto.
    + rewrite N.eqb_refl, He. reflexivity.
  - assert (Hnd' : NoDup (map w_addr (filter w_en ws)))
      by (destruct (w_en q); [inversion Hnd; auto | exact Hnd]).
    rewrite (IH p Hnd' Hin He). reflexivity.
Qed.

Lemma perm_enabled_addrs ws ws' : Permutation ws ws' -> Permutation (enabled_addrs ws) (enabled_addrs ws').
Proof.
  unfold enabled_addrs. induction 1 as [|x l l' H IH|x y l|l l' l'' H1 IH1 H2 IH2]; simpl.
  - constructor.
  - destruct (w_en x); simpl; auto.
  - destruct (w_en x), (w_en y); simpl; auto. apply perm_swap.
  - eapply perm_trans; eauto.
Qed.

Lemma writes_order_independent_proof : forall ws ws' (f : arr) a,
  Permutation ws ws' -> NoDup (enabled_addrs ws) ->
  fold_left apply_wr ws f a = fold_left apply_wr ws' f a.
Proof.
  intros ws ws' f a Hp Hnd.
  assert (Hnd' : NoDup (enabled_addrs ws')) by (eapply Permutation_NoDup; [apply perm_enabled_addrs; exact Hp | exact Hnd]).
  rewrite !fold_last_write.
  destruct (last_write a ws) as [d|] eqn:E.
  - destruct (last_write_some _ _ _ E) as (p & Hin & He & Ha & Hd). subst a d.
    rewrite (last_write_unique ws' p Hnd' (Permutation_in _ Hp Hin) He). reflexivity.
  - destruct (last_write a ws') as [d'|] eqn:E'; auto.
    destruct (last_write_some _ _ _ E') as (p & Hin & He & Ha & Hd). subst a.
    rewrite (last_write_unique ws p Hnd (Permutation_in _ (Permutation_sym Hp) Hin) He) in E. discriminate.
Qed.

(* ------------------------------------------------------------------ tolerant spec *)

Lemma tspec_agrees_proof : forall w depth start cw f pt i,
  (ai_addr i < depth)%N ->
  tspec_step w depth false start cw f pt i =
  (if p_read pt then Some (if ai_en i then f (ai_addr i) else all_X w) else None,
   if p_write pt && ai_en i && ai_wen i then arr_upd f (ai_addr i) (ai_wdata i) else f).
Proof.
  intros w depth start cw f pt i H. unfold tspec_step.
  apply N.ltb_lt in H. rewrite H. rewrite !andb_true_r. reflexivity.
Qed.
