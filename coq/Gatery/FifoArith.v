(* C15 -- arithmetic of the k+1 bit pointers (wrap bit + address) and small list facts. *)
From Coq Require Import NArith ZArith List Bool Arith Lia.
From Gatery Require Import FifoDefs FifoGray.
Import ListNotations.
Open Scope N_scope.

Ltac Zify.zify_post_hook ::= Z.div_mod_to_equations.

Lemma pow2_pos k : 0 < 2 ^ k.
Proof. apply N.neq_0_lt_0, N.pow_nonzero. discriminate. Qed.

Lemma cmod_eq k : cmod k = 2 * 2 ^ k.
Proof. unfold cmod. rewrite N.pow_add_r, N.pow_1_r. lia. Qed.

Lemma cmod_pos k : 0 < cmod k.
Proof. rewrite cmod_eq. pose proof (pow2_pos k). lia. Qed.

(* x mod (2K) mod K = x mod K *)
Lemma mod_2K_K K x : 0 < K -> (x mod (2 * K)) mod K = x mod K.
Proof.
  intros HK.
  rewrite (N.mul_comm 2 K), N.mod_mul_r by lia.
  rewrite (N.mul_comm K ((x / K) mod 2)), N.mod_add by lia.
  apply N.mod_mod. lia.
Qed.

Lemma low_mod k x : low k (x mod cmod k) = x mod 2 ^ k.
Proof. unfold low. rewrite cmod_eq. apply mod_2K_K, pow2_pos. Qed.

(* a <= b < a + M and equal residues: equal *)
Lemma mod_eq_close M a b : 0 < M -> a <= b -> b < a + M -> a mod M = b mod M -> a = b.
Proof.
  intros HM Hab Hb He.
  assert (Hd : (b - a) mod M = 0).
  { replace b with (a + (b - a)) in He by lia.
    rewrite N.add_mod in He by lia.
    pose proof (N.mod_upper_bound a M ltac:(lia)) as Ua.
    assert (Hs : (b - a) mod M = b - a) by (apply N.mod_small; lia).
    rewrite Hs in He |- *.
    destruct (N.lt_ge_cases (a mod M + (b - a)) M) as [L|L].
    - rewrite (N.mod_small (a mod M + (b - a)) M) in He by lia. lia.
    - replace (a mod M + (b - a)) with ((a mod M + (b - a) - M) + 1 * M) in He by lia.
      rewrite N.mod_add in He by lia.
      rewrite (N.mod_small (a mod M + (b - a) - M) M) in He by lia. lia. }
  rewrite N.mod_small in Hd by lia. lia.
Qed.

Lemma inc_mod k x (b : bool) :
  inc k (x mod cmod k) b = (x + (if b then 1 else 0)) mod cmod k.
Proof.
  pose proof (cmod_pos k). unfold inc. destruct b.
  - rewrite N.add_mod_idemp_l by lia. reflexivity.
  - rewrite N.add_0_r. reflexivity.
Qed.

(* msb / low of a value below 2K *)
Lemma msb_lt k x : x < 2 * 2 ^ k -> msb k x = (2 ^ k <=? x).
Proof.
  intros Hx. unfold msb. rewrite N.testbit_eqb. pose proof (pow2_pos k) as HK.
  set (K := 2 ^ k) in *.
  destruct (N.leb_spec K x) as [L|L].
  - assert (x / K = 1).
    { symmetry. apply (N.div_unique x K 1 (x - K)); lia. }
    rewrite H. reflexivity.
  - rewrite N.div_small by exact L. reflexivity.
Qed.

Lemma low_lt k x : x < 2 * 2 ^ k -> low k x = if 2 ^ k <=? x then x - 2 ^ k else x.
Proof.
  intros Hx. unfold low. pose proof (pow2_pos k) as HK. set (K := 2 ^ k) in *.
  destruct (N.leb_spec K x) as [L|L].
  - symmetry. apply (N.mod_unique x K 1 (x - K)); lia.
  - apply N.mod_small. exact L.
Qed.

Lemma cmp_empty_lt k x y : x < cmod k -> y < cmod k -> cmp_empty k x y = (x =? y).
Proof.
  rewrite cmod_eq. intros Hx Hy. unfold cmp_empty.
  rewrite !msb_lt, !low_lt by assumption.
  destruct (N.leb_spec (2 ^ k) x), (N.leb_spec (2 ^ k) y); simpl;
    destruct (N.eqb_spec x y); try (apply N.eqb_eq; lia); try (apply N.eqb_neq; lia); try reflexivity;
    try lia.
Qed.

Lemma cmp_full_lt k x y : x < cmod k -> y < cmod k ->
  cmp_full k x y = (x =? (y + 2 ^ k) mod cmod k).
Proof.
  rewrite cmod_eq. intros Hx Hy. unfold cmp_full. pose proof (pow2_pos k) as HK.
  rewrite !msb_lt, !low_lt by assumption.
  assert (Hm : (y + 2 ^ k) mod (2 * 2 ^ k) = if 2 ^ k <=? y then y - 2 ^ k else y + 2 ^ k).
  { destruct (N.leb_spec (2 ^ k) y) as [L|L].
    - symmetry. apply (N.mod_unique _ _ 1); lia.
    - apply N.mod_small. lia. }
  rewrite Hm.
  destruct (N.leb_spec (2 ^ k) x), (N.leb_spec (2 ^ k) y); simpl;
    match goal with |- _ = (?a =? ?b) => destruct (N.eqb_spec a b) end;
    try (apply N.eqb_eq; lia); try (apply N.eqb_neq; lia); try reflexivity; try lia.
Qed.

(* the comparisons on wrapped pointers decide the unbounded distance, as long as the
   distance stays within one depth *)
Lemma cmp_empty_spec k a b : a <= b -> b <= a + 2 ^ k ->
  cmp_empty k (b mod cmod k) (a mod cmod k) = (b =? a).
Proof.
  intros H1 H2. pose proof (cmod_pos k) as HM. pose proof (pow2_pos k) as HK.
  rewrite cmp_empty_lt by (apply N.mod_upper_bound; lia).
  destruct (N.eqb_spec b a) as [->|Hne].
  - apply N.eqb_refl.
  - apply N.eqb_neq. intros E. apply Hne. symmetry.
    apply (mod_eq_close (cmod k)); try lia. rewrite cmod_eq. lia.
Qed.

Lemma cmp_full_spec k a b : a <= b -> b <= a + 2 ^ k ->
  cmp_full k (b mod cmod k) (a mod cmod k) = (b =? a + 2 ^ k).
Proof.
  intros H1 H2. pose proof (cmod_pos k) as HM. pose proof (pow2_pos k) as HK.
  rewrite cmp_full_lt by (apply N.mod_upper_bound; lia).
  rewrite N.add_mod_idemp_l by lia.
  destruct (N.eqb_spec b (a + 2 ^ k)) as [->|Hne].
  - apply N.eqb_refl.
  - apply N.eqb_neq. intros E. apply Hne.
    apply (mod_eq_close (cmod k)); try lia. rewrite cmod_eq. lia.
Qed.

Lemma csub_spec k a b : a <= b -> b <= a + 2 ^ k ->
  csub k (b mod cmod k) (a mod cmod k) = b - a.
Proof.
  intros H1 H2. pose proof (cmod_pos k) as HM. pose proof (pow2_pos k) as HK.
  unfold csub. rewrite N.mod_mod by lia.
  pose proof (N.mod_upper_bound a (cmod k) ltac:(lia)) as Ua.
  pose proof (N.mod_upper_bound b (cmod k) ltac:(lia)) as Ub.
  assert (Hd : b - a < cmod k) by (rewrite cmod_eq; lia).
  assert (Hb : b mod cmod k = (a mod cmod k + (b - a)) mod cmod k).
  { rewrite N.add_mod_idemp_l by lia. f_equal. lia. }
  destruct (N.lt_ge_cases (a mod cmod k + (b - a)) (cmod k)) as [L|L].
  - rewrite (N.mod_small (a mod cmod k + (b - a)) (cmod k)) in Hb by exact L. rewrite Hb.
    replace (a mod cmod k + (b - a) + cmod k - a mod cmod k) with ((b - a) + 1 * cmod k) by lia.
    rewrite N.mod_add by lia. apply N.mod_small. exact Hd.
  - assert (Hb' : b mod cmod k = a mod cmod k + (b - a) - cmod k).
    { rewrite Hb. symmetry. apply (N.mod_unique _ _ 1); lia. }
    rewrite Hb'.
    replace (a mod cmod k + (b - a) - cmod k + cmod k - a mod cmod k) with (b - a) by lia.
    apply N.mod_small. exact Hd.
Qed.

(* distinct live slots never share an address *)
Lemma slot_distinct K i p : 0 < K -> i < p -> p < i + K -> i mod K <> p mod K.
Proof.
  intros HK H1 H2 E. assert (i = p) by (apply (mod_eq_close K); lia). lia.
Qed.

(* ---------------- lists ---------------- *)
Lemma map_removelast {A B} (f : A -> B) l : map f (removelast l) = removelast (map f l).
Proof.
  induction l as [|a [|b t] IH]; try reflexivity.
  change (f a :: map f (removelast (b :: t)) = f a :: removelast (map f (b :: t))).
  f_equal. exact IH.
Qed.

Lemma last_map {A B} (f : A -> B) l d : last (map f l) (f d) = f (last l d).
Proof.
  induction l as [|a [|b t] IH]; try reflexivity. exact IH.
Qed.

Lemma removelast_cons_length {A} (x : A) l : length (removelast (x :: l)) = length l.
Proof.
  revert x. induction l as [|a t IH]; intros x; [reflexivity|].
  change (S (length (removelast (a :: t))) = S (length t)). f_equal. apply IH.
Qed.

Lemma last_nonempty_default {A} (l : list A) d d' : l <> [] -> last l d = last l d'.
Proof.
  induction l as [|a [|b t] IH]; intros H; [congruence | reflexivity |].
  apply IH. discriminate.
Qed.

Lemma last_In {A} (l : list A) d : l <> [] -> In (last l d) l.
Proof.
  induction l as [|a [|b t] IH]; intros H; [congruence | left; reflexivity |].
  right. apply IH. discriminate.
Qed.

(* descending (newest first) pointer histories *)
Fixpoint desc (l : list N) : Prop :=
  match l with
  | a :: (b :: _) as t => b <= a /\ desc t
  | _ => True
  end.

Lemma desc_tl a l : desc (a :: l) -> desc l.
Proof. destruct l; simpl; tauto. Qed.

Lemma desc_raise a a' l : a <= a' -> desc (a :: l) -> desc (a' :: l).
Proof. destruct l; simpl; [tauto|]. intros H [H1 H2]. split; [lia | exact H2]. Qed.

Lemma desc_cons_same a l : desc (a :: l) -> desc (a :: a :: l).
Proof. intros H. simpl. split; [lia | exact H]. Qed.

Lemma desc_last_le a l : desc (a :: l) -> last l a <= a.
Proof.
  revert a. induction l as [|b t IH]; intros a H; [simpl; lia|].
  destruct H as [H1 H2]. specialize (IH b H2).
  change (last (b :: t) a) with (match t with [] => b | _ => last t a end).
  destruct t as [|c t']; [exact H1|].
  rewrite (last_nonempty_default (c :: t') a b) by discriminate. lia.
Qed.

Lemma last_mono_default l d d' : d <= d' -> last l d <= last l d'.
Proof.
  intros H. destruct l as [|a t]; [exact H|].
  rewrite (last_nonempty_default (a :: t) d d') by discriminate. lia.
Qed.

Lemma desc_removelast l : desc l -> desc (removelast l).
Proof.
  induction l as [|a [|b [|c t]] IH]; intros H; try exact I.
  destruct H as [H1 H2]. specialize (IH H2).
  change (desc (a :: removelast (b :: c :: t))).
  change (removelast (b :: c :: t)) with (b :: removelast (c :: t)) in *.
  split; [exact H1 | exact IH].
Qed.

(* dropping the oldest element: the new oldest is at least the old oldest *)
Lemma last_removelast_ge a l x : desc (a :: l) -> l <> [] ->
  last l a <= last (removelast (a :: l)) x.
Proof.
  revert a x. induction l as [|b t IH]; intros a x H Hne; [congruence|].
  destruct t as [|c t'].
  - simpl. destruct H as [H _]. exact H.
  - destruct H as [H1 H2].
    change (removelast (a :: b :: c :: t')) with (a :: removelast (b :: c :: t')).
    change (last (b :: c :: t') a) with (last (c :: t') a).
    rewrite (last_nonempty_default (c :: t') a b) by discriminate.
    assert (Hr : removelast (b :: c :: t') <> []).
    { change (removelast (b :: c :: t')) with (b :: removelast (c :: t')). discriminate. }
    change (last (a :: removelast (b :: c :: t')) x) with
      (match removelast (b :: c :: t') with [] => a | _ => last (removelast (b :: c :: t')) x end).
    destruct (removelast (b :: c :: t')) eqn:E; [congruence|]. rewrite <- E.
    apply IH; [exact H2 | discriminate].
Qed.
