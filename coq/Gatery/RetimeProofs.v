(* C06 — proofs of the stream-level retiming steps (definitions: RetimeDefs.v). *)
From Coq Require Import List Arith Bool Lia.
From Gatery Require Import Bits NodeSemDefs NodeSemReg RetimeDefs.
Import ListNotations.

(* ------------------------------------------------------------------------------------------ *)
(* tie of [reg_step] to the register model used by the circuit semantics (NodeSemReg / NetDefs) *)
(* ------------------------------------------------------------------------------------------ *)
Lemma reg_step_matches_node_model_proof (c : reg_cfg) (d : bv) (e : tbit) (s : reg_state) :
  rs_in_reset s = false ->
  rs_out (reg_advance c (reg_latch c (Some d) (Some [e]) s)) =
  reg_step (all_X (rc_width c)) e (bv_resize (rc_width c) (bv_resize (rc_width c) d)) (rs_out s).
Proof.
  intro H. unfold reg_advance, reg_latch; simpl. rewrite H. unfold bv_get; simpl.
  destruct e; reflexivity.
Qed.

(* ------------------------------------------------------------------------------------------ *)
(* basics                                                                                      *)
(* ------------------------------------------------------------------------------------------ *)
Lemma defined_upto_S e t : defined_upto e (S t) -> defined_upto e t /\ e t <> BX.
Proof. intro H. split; [intros k Hk; apply H; lia | apply H; lia]. Qed.

Lemma defined_upto_le e t k : defined_upto e t -> k <= t -> defined_upto e k.
Proof. intros H Hk j Hj. apply H. lia. Qed.

(* a register only looks at its data input in the cycles before t *)
Lemma regs_ext_upto {V : Type} (xv r : V) e (d1 d2 : stream V) t :
  (forall k, k < t -> d1 k = d2 k) -> regs xv r e d1 t = regs xv r e d2 t.
Proof.
  induction t as [|t IH]; intro H; simpl; [reflexivity|].
  rewrite IH by (intros k Hk; apply H; lia). rewrite (H t) by lia. reflexivity.
Qed.

(* with a defined enable the all-undefined value of the register is irrelevant *)
Lemma regs_xv_irrelevant {V : Type} (xv xv' r : V) e d t :
  defined_upto e t -> regs xv r e d t = regs xv' r e d t.
Proof.
  induction t as [|t IH]; intro H; simpl; [reflexivity|].
  destruct (defined_upto_S _ _ H) as [H1 H2]. rewrite (IH H1).
  destruct (e t); try reflexivity. congruence.
Qed.

(* a bank of registers with one common enable is one register on the tuple *)
Lemma regs_pair_proof {A B : Type} (xa ra : A) (xb rb : B) e (da : stream A) (db : stream B) t :
  regs (xa, xb) (ra, rb) e (fun k => (da k, db k)) t = (regs xa ra e da t, regs xb rb e db t).
Proof.
  induction t as [|t IH]; simpl; [reflexivity|]. rewrite IH. destruct (e t); reflexivity.
Qed.

Lemma regs_bank_proof {V : Type} (l : list (V * V * stream V)) e t :
  regs (map (fun p => fst (fst p)) l) (map (fun p => snd (fst p)) l) e (fun k => map (fun p => snd p k) l) t
  = map (fun p => regs (fst (fst p)) (snd (fst p)) e (snd p) t) l.
Proof.
  induction t as [|t IH]; simpl; [reflexivity|]. rewrite IH. destruct (e t); simpl; reflexivity.
Qed.

(* ------------------------------------------------------------------------------------------ *)
(* forward retiming step                                                                       *)
(* ------------------------------------------------------------------------------------------ *)
Theorem forward_retime_step_proof {I O : Type} (f : I -> O) (xi : I) (xo : O) (r : I) e (d : stream I) t :
  defined_upto e t ->
  f (regs xi r e d t) = regs xo (f r) e (fun k => f (d k)) t.
Proof.
  induction t as [|t IH]; intro H; simpl; [reflexivity|].
  destruct (defined_upto_S _ _ H) as [H1 H2]. specialize (IH H1).
  destruct (e t); simpl; try congruence.
Qed.

Lemma bv_compat_all_X (x : bv) : bv_compat x (all_X (length x)).
Proof.
  unfold bv_compat, all_X. induction x as [|a x IH]; simpl; constructor; [right; left; reflexivity | exact IH].
Qed.

(* arbitrary (also undefined) enables: the moved register shows either exactly the value of the
   original circuit or nothing at all *)
Theorem forward_retime_step_any_enable_proof {I : Type} (f : I -> bv) (w : nat) (xi r : I) e (d : stream I) :
  (forall x, length (f x) = w) ->
  forall t, regs (all_X w) (f r) e (fun k => f (d k)) t = f (regs xi r e d t)
         \/ regs (all_X w) (f r) e (fun k => f (d k)) t = all_X w.
Proof.
  intros Hw t. induction t as [|t IH]; simpl; [left; reflexivity|].
  destruct (e t); simpl; [exact IH | left; reflexivity | right; reflexivity].
Qed.

Corollary forward_retime_step_compat_proof {I : Type} (f : I -> bv) (w : nat) (xi r : I) e (d : stream I) :
  (forall x, length (f x) = w) ->
  forall t, bv_compat (f (regs xi r e d t)) (regs (all_X w) (f r) e (fun k => f (d k)) t).
Proof.
  intros Hw t. destruct (forward_retime_step_any_enable_proof f w xi r e d Hw t) as [H|H]; rewrite H.
  - apply bv_compat_refl.
  - rewrite <- (Hw (regs xi r e d t)). apply bv_compat_all_X.
Qed.

(* ------------------------------------------------------------------------------------------ *)
(* backward retiming step                                                                      *)
(* ------------------------------------------------------------------------------------------ *)
(* reset value has a pre-image under f (includes "no reset value anywhere" when f maps the
   undefined input to the undefined output) *)
Theorem backward_retime_step_proof {I O : Type} (f : I -> O) (xi : I) (xo : O) (ri : I) (ro : O) e (d : stream I) t :
  f ri = ro -> defined_upto e t ->
  regs xo ro e (fun k => f (d k)) t = f (regs xi ri e d t).
Proof. intros <- H. symmetry. apply forward_retime_step_proof. exact H. Qed.

(* no pre-image needed when the output is overridden by the original reset value until the first
   enabled edge (the delayed-reset multiplexer gatery inserts) *)
Lemma backward_fix_invariant {I O : Type} (f : I -> O) (xi : I) (xo : O) (ri : I) (ro : O) e (d : stream I) t :
  defined_upto e t ->
  (delayed_reset e t = B0 /\ regs xo ro e (fun k => f (d k)) t = ro) \/
  (delayed_reset e t = B1 /\ f (regs xi ri e d t) = regs xo ro e (fun k => f (d k)) t).
Proof.
  unfold delayed_reset. induction t as [|t IH]; intro H; simpl; [left; split; reflexivity|].
  destruct (defined_upto_S _ _ H) as [H1 H2]. specialize (IH H1).
  destruct (e t); simpl; try congruence.
  right. split; reflexivity.
Qed.

Theorem backward_retime_step_fix_proof {I O : Type} (f : I -> O) (xi : I) (xo : O) (ri : I) (ro : O) e (d : stream I) t :
  defined_upto e t ->
  reset_fix xo (delayed_reset e t) ro (f (regs xi ri e d t)) = regs xo ro e (fun k => f (d k)) t.
Proof.
  intro H. destruct (backward_fix_invariant f xi xo ri ro e d t H) as [[Hs Hv]|[Hs Hv]]; rewrite Hs; simpl; congruence.
Qed.

(* ------------------------------------------------------------------------------------------ *)
(* negative registers                                                                          *)
(* ------------------------------------------------------------------------------------------ *)
Lemma regs_reg_like {V : Type} (xv r : V) e d : reg_like xv e (regs xv r e d).
Proof. intro t. split; intro H; simpl; rewrite H; reflexivity. Qed.

(* negreg o reg = id : the data input of a register is a negative-register output of the register *)
Theorem neg_reg_annihilate_proof {V : Type} (xv r : V) e (d : stream V) :
  is_negreg e (regs xv r e d) d.
Proof. intros t H. simpl. rewrite H. reflexivity. Qed.

(* reg o negreg = id on register-like signals: the partner register (same enable, reset value =
   value of the signal in the reset cycle) behind ANY negative register of s shows s, in every cycle *)
Theorem neg_reg_partner_wire_proof {V : Type} (xv : V) e (s n : stream V) :
  reg_like xv e s -> is_negreg e s n -> forall t, regs xv (s 0) e n t = s t.
Proof.
  intros Hl Hn t. induction t as [|t IH]; simpl; [reflexivity|].
  destruct (Hl t) as [H0 HX]. destruct (e t) eqn:E; simpl.
  - rewrite IH. symmetry. apply H0. reflexivity.
  - apply Hn. exact E.
  - symmetry. apply HX. reflexivity.
Qed.

(* with a partner register that is stalled differently the pair is NOT a wire *)
Theorem neg_reg_unequal_enable_refuted_proof :
  exists (e e' : stream tbit) (d : stream bool) (r : bool),
    is_negreg e (regs false r e d) d /\ exists t, regs false r e' d t <> regs false r e d t.
Proof.
  exists (fun _ => B1), (fun _ => B0), (fun _ => true), false. split.
  - apply neg_reg_annihilate_proof.
  - exists 1. simpl. discriminate.
Qed.

(* ------------------------------------------------------------------------------------------ *)
(* delay balance                                                                               *)
(* ------------------------------------------------------------------------------------------ *)
Theorem delay_balance_proof {I O : Type} (f : I -> O) (xi : I) (xo : O) (rs : list I) e (d : stream I) :
  forall t, defined_upto e t ->
  f (delay xi rs e d t) = delay xo (map f rs) e (fun k => f (d k)) t.
Proof.
  induction rs as [|r rs IH]; intros t H; simpl; [reflexivity|].
  rewrite (forward_retime_step_proof f xi xo r e (delay xi rs e d) t H).
  apply regs_ext_upto. intros k Hk. apply IH. apply (defined_upto_le e t k H). lia.
Qed.

(* always enabled: N registers in series show the input of N cycles ago ... *)
Theorem delay_always_enabled_proof {V : Type} (xv : V) (rs : list V) e (d : stream V) :
  (forall t, e t = B1) -> forall t, length rs <= t -> delay xv rs e d t = d (t - length rs).
Proof.
  intro He. induction rs as [|r rs IH]; intros t Ht; simpl in *.
  - f_equal. lia.
  - destruct t as [|t]; [lia|]. simpl. rewrite He. simpl. rewrite IH by lia. reflexivity.
Qed.

(* ... and the reset values one after the other while the pipeline fills *)
Theorem delay_always_enabled_fill_proof {V : Type} (xv : V) (rs : list V) e (d : stream V) :
  (forall t, e t = B1) -> forall t, t < length rs -> delay xv rs e d t = nth t rs xv.
Proof.
  intro He. induction rs as [|r rs IH]; intros t Ht; simpl in *; [lia|].
  destruct t as [|t]; simpl; [reflexivity|]. rewrite He. simpl. apply IH. lia.
Qed.

Theorem delay_always_enabled_both_proof {V : Type} (xv : V) (rs : list V) e (d : stream V) :
  (forall t, e t = B1) ->
  forall t, (t < length rs -> delay xv rs e d t = nth t rs xv) /\
            (length rs <= t -> delay xv rs e d t = d (t - length rs)).
Proof.
  intros He t. split.
  - exact (delay_always_enabled_fill_proof xv rs e d He t).
  - exact (delay_always_enabled_proof xv rs e d He t).
Qed.

(* an UNBALANCED spawner (one input delayed by one register less) makes an operation combine
   values of different cycles *)
Theorem unbalanced_delay_refuted_proof :
  exists (f : nat * nat -> nat) (e : stream tbit) (d : stream nat),
    (forall t, e t = B1) /\
    exists t, f (delay 0 [0; 0] e d t, delay 0 [0] e d t) <> f (delay 0 [0; 0] e d t, delay 0 [0; 0] e d t).
Proof.
  exists (fun p => fst p + 2 * snd p), (fun _ => B1), (fun t => t). split; [reflexivity|].
  exists 3. simpl. discriminate.
Qed.

(* ------------------------------------------------------------------------------------------ *)
(* "from the cycle the pipeline has filled"                                                    *)
(* ------------------------------------------------------------------------------------------ *)
Lemma regs_forget_reset {V : Type} (xv r1 r2 : V) e (d1 d2 : stream V) (n : nat) :
  (forall k, n <= enabled_before e k -> d1 k = d2 k) ->
  forall t, S n <= enabled_before e t -> regs xv r1 e d1 t = regs xv r2 e d2 t.
Proof.
  intros Hd t. induction t as [|t IH]; simpl; intro Ht; [lia|].
  destruct (e t) eqn:E; simpl in *.
  - apply IH. lia.
  - apply Hd. lia.
  - reflexivity.
Qed.

(* two pipelines of equal depth fed by the same stream differ only in their reset values, and
   those are gone once as many enabled cycles as the pipeline has stages have passed *)
Theorem delay_reset_forgotten_proof {V : Type} (xv : V) (rs1 rs2 : list V) e (d : stream V) :
  length rs1 = length rs2 ->
  forall t, length rs1 <= enabled_before e t -> delay xv rs1 e d t = delay xv rs2 e d t.
Proof.
  revert rs2. induction rs1 as [|r1 rs1 IH]; intros [|r2 rs2] Hl t Ht; simpl in *; try discriminate; [reflexivity|].
  apply (regs_forget_reset xv r1 r2 e _ _ (length rs1)); [|exact Ht].
  intros k Hk. apply IH; [lia | exact Hk].
Qed.

(* Forward retiming OVER an anchored (feed-forward) register a = reg(g(x)):
     reference : out = f (X, reg_ra (g X))           X = the group input delayed by one explicit register
     retimed   : out = reg_ro ( f (d, reg_ra (g d)) ) the spawned register moved to the output
   The two agree in every cycle from the second enabled cycle on (pipeline depth 1 + register
   depth 1), whatever reset value ro the moved register received. *)
Theorem retime_over_anchored_register_proof {I A O : Type} (f : I -> A -> O) (g : I -> A)
        (xi r : I) (xa ra : A) (xo ro : O) e (d : stream I) t :
  defined_upto e t -> 2 <= enabled_before e t ->
  regs xo ro e (fun k => f (d k) (regs xa ra e (fun j => g (d j)) k)) t
  = f (regs xi r e d t) (regs xa ra e (fun k => g (regs xi r e d k)) t).
Proof.
  intros Hdef Hen.
  set (A0 := regs xa ra e (fun j => g (d j))).
  (* 1: the reset value of the moved register is forgotten after one enabled cycle *)
  transitivity (regs xo (f r ra) e (fun k => f (d k) (A0 k)) t).
  { apply (regs_forget_reset xo ro (f r ra) e _ _ 0); [intros; reflexivity | lia]. }
  (* 2: move that register back to the inputs (d, A0) *)
  pose (F := fun p : I * A => f (fst p) (snd p)).
  change (f r ra) with (F (r, ra)).
  rewrite (regs_ext_upto xo (F (r, ra)) e (fun k => f (d k) (A0 k)) (fun k => F (d k, A0 k))) by reflexivity.
  rewrite <- (forward_retime_step_proof F (xi, xa) xo (r, ra) e (fun k => (d k, A0 k)) t Hdef).
  rewrite regs_pair_proof. unfold F; simpl. f_equal.
  (* 3: both second components are two registers behind g o d, with different reset values *)
  assert (H1 : regs xa ra e A0 t = delay xa [ra; ra] e (fun j => g (d j)) t) by reflexivity.
  assert (H2 : regs xa ra e (fun k => g (regs xi r e d k)) t = delay xa [ra; g r] e (fun j => g (d j)) t).
  { simpl. apply regs_ext_upto. intros k Hk.
    apply (forward_retime_step_proof g xi xa r e d k). apply (defined_upto_le e t k Hdef). lia. }
  rewrite H1, H2. apply delay_reset_forgotten_proof; [reflexivity | exact Hen].
Qed.

(* ------------------------------------------------------------------------------------------ *)
(* the warm-up mask                                                                            *)
(* ------------------------------------------------------------------------------------------ *)
Lemma warm_cnt_spec K e t : warm_cnt K e t = Nat.min K (true_before e t).
Proof.
  induction t as [|t IH]; simpl; [lia|].
  destruct (e t); [|lia].
  destruct (Nat.eqb_spec (warm_cnt K e t) K); lia.
Qed.

Theorem warm_filled_spec_proof K e t : warm_filled K e t = true <-> K <= true_before e t.
Proof. unfold warm_filled. rewrite Nat.eqb_eq, warm_cnt_spec. lia. Qed.

(* equality of the MASKED outputs in every cycle is exactly equality of the outputs in every cycle
   in which at least K enabled cycles have passed *)
Theorem warm_mask_sound_proof {V : Type} (zero : V) K e (a b : stream V) :
  (forall t, warm_mask zero K e a t = warm_mask zero K e b t) <->
  (forall t, K <= true_before e t -> a t = b t).
Proof.
  unfold warm_mask. split; intros H t.
  - intro Hk. specialize (H t). apply warm_filled_spec_proof in Hk. rewrite Hk in H. exact H.
  - destruct (warm_filled K e t) eqn:E; [|reflexivity]. apply H. apply warm_filled_spec_proof. exact E.
Qed.
