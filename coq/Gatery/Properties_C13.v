(* Property C13 — exported VHDL is lexically and statically well formed for any legal names.
   Only statements, `exact <lemma>` and Print Assumptions; proofs live in NamesProofs.v and
   VhdlLexProofs.v.  impl_keywords is REGENERATED from NamespaceScope.cpp on every run. *)
Require Import String Ascii List NArith Bool.
From Gatery.gen Require Import Keywords.
From Gatery Require Import Vhdl2008Reserved NamesDefs NamesProofs VhdlLexDefs VhdlLexProofs.
Import ListNotations.
Open Scope string_scope.
Open Scope list_scope.

(* ---- S3: the implementation's keyword table (regenerated) covers IEEE 1076-2008 15.10 ------- *)
Theorem keywords_complete : forall w, In w vhdl2008_reserved -> In w impl_keywords.
Proof. exact keywords_complete_proof. Qed.
Print Assumptions keywords_complete.

(* the table is compared against LOWER-CASED candidates, so its entries must be lower case *)
Theorem keywords_lowercase : forall w, In w impl_keywords -> lower w = w.
Proof. exact keywords_lowercase_proof. Qed.
Print Assumptions keywords_lowercase.

Example ex_keywords : In "restrict_guarantee" impl_keywords /\ In "sll" vhdl2008_reserved.
Proof. split; apply memb_In; vm_compute; reflexivity. Qed.

(* ---- S1: the allocator ------------------------------------------------------------------------ *)

(* The unbounded do/while of allocate* always leaves through its condition within
   1 + |names in use along the parent chain| iterations: the call succeeds whenever no HCL_ASSERT
   fires, and the returned name is not in use (pigeonhole; the model's fuel is never exhausted). *)
Theorem allocate_terminates : forall t s k d sc,
  nth_error t s = Some sc -> d <> "" ->
  (root_only k = true -> sc_parent sc = None) ->
  exists t' n, allocate t s k d = Some (t', n) /\ name_in_use t s (lower n) = false.
Proof. exact allocate_total. Qed.
Print Assumptions allocate_terminates.

(* For EVERY sequence of scope creations and allocations (any tree shape, any kinds, any names):
   each allocated name is, ignoring case, outside the implementation keyword table and different
   from every name handed out earlier in the same scope or one of its ancestors. *)
Theorem allocate_inv : forall ops,
  let st := run_state init_state ops in
  wf_parents (parents (st_tree st)) /\ hist_ok (parents (st_tree st)) (st_log st).
Proof. exact allocate_inv_proof. Qed.
Print Assumptions allocate_inv.

(* ... hence (keywords_complete) never a VHDL-2008 reserved word in any letter case *)
Theorem allocated_not_reserved : forall ops s n,
  In (s, n) (st_log (run_state init_state ops)) -> ~ In (lower n) vhdl2008_reserved.
Proof. exact allocated_not_reserved_proof. Qed.
Print Assumptions allocated_not_reserved.

(* All names visible in a declarative region r (allocated in r or an ancestor) are pairwise
   distinct ignoring case, PROVIDED allocations are made ancestors-first.  Without the proviso the
   statement is false for the implementation: isNameInUse never looks into child scopes, so an
   ancestor may later receive a name a descendant already holds (AST::convert allocates the
   root-scope clock names after all entities; those names are not emitted into the entities). *)
Theorem allocate_region_distinct : forall ps log r,
  wf_parents ps -> hist_ok ps log -> top_down ps log ->
  NoDup (map lower (visible ps log r)).
Proof. exact region_distinct_proof. Qed.
Print Assumptions allocate_region_distinct.

(* inside ONE scope no proviso is needed *)
Theorem allocate_scope_distinct : forall ps log r,
  hist_ok ps log -> nth_error ps r <> None ->
  NoDup (map lower (map snd (filter (fun e => Nat.eqb (fst e) r) log))).
Proof. exact scope_distinct_proof. Qed.
Print Assumptions allocate_scope_distinct.

(* prefixes (in_ out_ s_ v_ C_+upper ...), suffixes (_reg _comb) and the uniquifier (_2 _3 ...)
   keep a legal basic identifier legal *)
Theorem allocate_legal : forall t s k d t' n,
  legal_basic_ident d = true -> allocate t s k d = Some (t', n) -> legal_basic_ident n = true.
Proof. exact allocate_legal_proof. Qed.
Print Assumptions allocate_legal.

Example ex_run :
  snd (run init_state
        [OpNew None; OpAlloc 0 KEntity "Signal"; OpAlloc 0 KEntity "signal"; OpNew (Some 0);
         OpAlloc 1 KIoPin "SIGNAL"; OpAlloc 1 (KSignal SIG_LOCAL_SIGNAL) "x";
         OpAlloc 1 (KSignal SIG_LOCAL_SIGNAL) "x"; OpAlloc 1 KIoPin "s_X_2";
         OpAlloc 1 (KSignal SIG_CONSTANT) "x_2"; OpAlloc 1 (KProcess true) "default"])
  = [None; Some "Signal_2"; Some "signal_3"; None; Some "SIGNAL_4"; Some "s_x"; Some "s_x_2";
     Some "s_X_2_2"; Some "C_X_2"; Some "default_reg"].
Proof. vm_compute. reflexivity. Qed.

Example ex_top_down : top_down [None; Some 0] [(1, "b"); (0, "a")]
                      /\ ~ top_down [None; Some 0] [(0, "a"); (1, "b")].
Proof.
  split.
  - simpl. repeat split; try tauto.
    intros s' n' [H|[]]. inversion H; subst. intros [_ C]. vm_compute in C. destruct C as [C|[]]. discriminate.
  - simpl. intros [H _]. apply (H 1 "b"); [left; reflexivity|].
    split; [discriminate | vm_compute; right; left; reflexivity].
Qed.

Example ex_legal : legal_basic_ident "a_1" = true /\ legal_basic_ident "a__1" = false
                   /\ legal_basic_ident "a_" = false /\ legal_basic_ident "1a" = false.
Proof. vm_compute. repeat split. Qed.

(* ---- S2: the checker that is run on the real exported files ---------------------------------- *)

(* the tokenizer never classifies a reserved word, in any letter case, as an identifier *)
Theorem lexer_ids_not_reserved : forall a s, mk_word a = TId s -> ~ In (lower s) vhdl2008_reserved.
Proof. exact mk_word_not_reserved. Qed.
Print Assumptions lexer_ids_not_reserved.

(* an accepted region log: every declared name is a legal non-reserved identifier and differs,
   ignoring case, from every name declared so far in the same (innermost open) declarative region;
   an architecture re-opens the region of its entity (EReopen carries the port names) *)
Theorem events_ok_sound : forall evs stack,
  events_go stack evs = true ->
  forall pre n post, evs = pre ++ EDecl n :: post ->
  exists top stk, open_after stack pre = Some (top :: stk) /\ ident_ok n = true /\ ~ In (lower n) top.
Proof. exact events_go_sound. Qed.
Print Assumptions events_ok_sound.

(* If the checker accepts a set of exported files then (1) in every file, every identifier at a
   declaration site (decl_sites: SIGNAL/CONSTANT/VARIABLE/TYPE/SUBTYPE/COMPONENT/ATTRIBUTE
   declarations, entity and package names, interface elements with a mode, process / block /
   instance labels) is a legal basic identifier and not a VHDL-2008 reserved word in any letter
   case; (2) the validated region log declares exactly those identifiers, in order, and each one
   differs ignoring case from all names declared before it in its declarative region. *)
Theorem check_design_sound : forall files s,
  check_design_tokens files = Ok s ->
  (forall f, In f files ->
     exists sites, decl_sites None f = Some sites
       /\ forall x, In x sites -> legal_basic_ident x = true /\ ~ In (lower x) vhdl2008_reserved)
  /\ exists evs,
       event_decls evs = flat_map sites_of (order_files files)
       /\ forall pre n post, evs = pre ++ EDecl n :: post ->
            exists top stk, open_after [] pre = Some (top :: stk) /\ ~ In (lower n) top.
Proof. exact check_design_tokens_sound. Qed.
Print Assumptions check_design_sound.

(* ---- process variables: written before read on every control path --------------------------- *)

(* must-assign analysis of a process flow skeleton (straight-line code + IF/ELSIF/ELSE + CASE,
   arbitrarily nested): if it accepts, then along EVERY control path (one branch per IF/CASE, or
   none when there is no ELSE / WHEN OTHERS; ELSIF guards read on the way) every read of a process
   variable is preceded by a write of that variable in the same activation. *)
Theorem flow_sound : forall t a', must_t [] t = Some a' ->
  forall tr, In tr (paths_t t) -> trace_ok [] tr = true.
Proof. exact flow_sound_proof. Qed.
Print Assumptions flow_sound.

(* ... and an accepted design: this holds for the skeleton of every process the scanner recorded.
   (The extraction of the skeleton from the tokens - which identifiers are variable reads /
   writes, where branches begin - is the scanner's reading of the file and is trusted.) *)
Theorem check_design_flows_sound : forall files s,
  check_design_tokens files = Ok s ->
  forall vars t, In (vars, t) (sm_flows s) -> forall tr, In tr (paths_t t) -> trace_ok [] tr = true.
Proof. exact check_design_flows_sound. Qed.
Print Assumptions check_design_flows_sound.

Definition ex_vhdl_flow : string :=
  "ENTITY top IS PORT( a : IN STD_LOGIC; b : IN STD_LOGIC; o : OUT STD_LOGIC ); END top;
   ARCHITECTURE impl OF top IS BEGIN
   p_comb : PROCESS(all) VARIABLE v_s : STD_LOGIC; VARIABLE v_r : STD_LOGIC; BEGIN
     IF a = '1' THEN v_s := b; ELSE v_s := a; END IF;
     IF v_s = '1' THEN v_r := b; ELSIF v_s = '0' THEN v_r := a; ELSE v_r := v_s; END IF;
     o <= v_r; END PROCESS;
   END impl;".
Example ex_flow :
  match check_design [ex_vhdl_flow] with
  | Ok s => sm_flows s =
      [(["v_r"; "v_s"],
        TCons (SBranch (BCons [] (TCons (SWrite "v_s") TNil) (BCons [] (TCons (SWrite "v_s") TNil) BNil)) true)
       (TCons (SRead "v_s")
       (TCons (SBranch (BCons [] (TCons (SWrite "v_r") TNil)
                       (BCons ["v_s"] (TCons (SWrite "v_r") TNil)
                       (BCons [] (TCons (SRead "v_s") (TCons (SWrite "v_r") TNil)) BNil))) true)
       (TCons (SRead "v_r") TNil))))]
  | Err _ _ => False
  end.
Proof. vm_compute. reflexivity. Qed.

Definition ex_vhdl_good : string :=
  "ENTITY top IS PORT( a : IN STD_LOGIC; o : OUT STD_LOGIC ); END top;
   ARCHITECTURE impl OF top IS SIGNAL s_x : STD_LOGIC; BEGIN
   p_comb : PROCESS(all) VARIABLE v_y : STD_LOGIC; BEGIN v_y := a; s_x <= v_y; o <= s_x; END PROCESS;
   END impl;".
Definition ex_vhdl_reserved : string :=
  "ENTITY top IS PORT( signal : IN STD_LOGIC; o : OUT STD_LOGIC ); END top;
   ARCHITECTURE impl OF top IS BEGIN END impl;".
Definition ex_vhdl_dup : string :=
  "ENTITY top IS PORT( Foo : IN STD_LOGIC; o : OUT STD_LOGIC ); END top;
   ARCHITECTURE impl OF top IS SIGNAL FOO : STD_LOGIC; BEGIN END impl;".
Definition ex_vhdl_varread : string :=
  "ENTITY top IS PORT( a : IN STD_LOGIC; o : OUT STD_LOGIC ); END top;
   ARCHITECTURE impl OF top IS BEGIN
   p_comb : PROCESS(all) VARIABLE v_y : STD_LOGIC; BEGIN o <= v_y; v_y := a; END PROCESS;
   END impl;".
Example ex_check : check_ok [ex_vhdl_good] = true /\ check_ok [ex_vhdl_reserved] = false
                   /\ check_ok [ex_vhdl_dup] = false /\ check_ok [ex_vhdl_varread] = false.
Proof. vm_compute. repeat split. Qed.
