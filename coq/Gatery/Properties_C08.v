(* C08 (node level): a value the simulator reports as defined is never wrong.
   eval_compat is the congruence for EVERY node kind, width and parameter (including the
   multiplexer with undefined / out-of-range selector); eval_mono is monotonicity, which holds
   for every kind except multiplexers whose defined selector can be out of range (total_mux).
   Only statements, `exact`, and Print Assumptions in this file. *)
From Gatery Require Import Bits NodeSemDefs NodeSemBits NodeSemReg NodeSemRefine.
Import ListNotations.

Theorem eval_compat : forall k xs ys,
  ins_compat xs ys -> Forall2 bv_compat (eval k xs) (eval k ys).
Proof. exact NodeSemRefine.eval_compat. Qed.
Print Assumptions eval_compat.
(* non-vacuity: AND dominance (0 AND X = 0 stays 0 for both concretisations of X), and a multiplexer
   with undefined selector and agreeing inputs (the merged value is defined and equals every choice) *)
Example eval_compat_ex_and :
  ins_compat [Some [B0; BX]; Some [BX; B1]] [Some [B0; B1]; Some [B1; B1]]
  /\ eval (KLogic L_AND 2) [Some [B0; BX]; Some [BX; B1]] = [[B0; BX]]
  /\ eval (KLogic L_AND 2) [Some [B0; B1]; Some [B1; B1]] = [[B0; B1]].
Proof.
  split; [|split; reflexivity].
  repeat constructor; first [left; reflexivity | right; right; reflexivity | right; left; reflexivity].
Qed.
Example eval_compat_ex_mux :
  eval (KMux 2 2) [Some [BX]; Some [B1; B0]; Some [B1; B0]] = [[B1; B0]]
  /\ eval (KMux 2 2) [Some [B0]; Some [B1; B0]; Some [B1; B0]] = [[B1; B0]]
  /\ eval (KMux 2 2) [Some [B1]; Some [B1; B0]; Some [B1; B0]] = [[B1; B0]]
  /\ eval (KMux 2 2) [Some [BX]; Some [B1; B0]; Some [B1; B1]] = [[B1; BX]].
Proof. repeat split; reflexivity. Qed.
(* compat also covers the defined out-of-range selector (non-monotone, but never contradicting) *)
Example eval_compat_ex_mux_oor :
  ins_compat [Some [BX; BX]; Some [B1]; Some [B1]; Some [B1]] [Some [B1; B1]; Some [B1]; Some [B1]; Some [B1]]
  /\ eval (KMux 3 1) [Some [BX; BX]; Some [B1]; Some [B1]; Some [B1]] = [[B1]]
  /\ eval (KMux 3 1) [Some [B1; B1]; Some [B1]; Some [B1]; Some [B1]] = [[BX]].
Proof.
  split; [|split; reflexivity].
  repeat constructor; first [left; reflexivity | right; right; reflexivity].
Qed.

Theorem eval_mono : forall k xs ys,
  total_mux k xs -> ins_le xs ys -> Forall2 bv_le (eval k xs) (eval k ys).
Proof. exact NodeSemRefine.eval_mono. Qed.
Print Assumptions eval_mono.
Example eval_mono_ex :   (* total: 1-bit selector, 2 data inputs *)
  total_mux (KMux 2 1) [Some [BX]; Some [B1]; Some [BX]]
  /\ ins_le [Some [BX]; Some [B1]; Some [BX]] [Some [B0]; Some [B1]; Some [B0]].
Proof.
  split; [simpl; lia|].
  repeat constructor; first [left; reflexivity | right; reflexivity].
Qed.

(* the side condition cannot be dropped *)
Theorem eval_mono_mux_refuted :
  exists k xs ys, ins_le xs ys /\ ~ Forall2 bv_le (eval k xs) (eval k ys).
Proof. exact NodeSemRefine.eval_mono_mux_refuted. Qed.
Print Assumptions eval_mono_mux_refuted.

(* constant folding: a fully defined result obtained with some inputs replaced by all-X never
   contradicts the result under any concretisation ys of those inputs ... *)
Theorem C08_constfold : forall k xs_abs ys,
  ins_le xs_abs ys ->
  Forall (fun o => all_def o = true) (eval k xs_abs) ->
  Forall2 (fun folded real => length folded = length real /\
             forall i, is_def (bv_get real i) = true -> bv_get real i = bv_get folded i)
          (eval k xs_abs) (eval k ys).
Proof. exact NodeSemRefine.C08_constfold. Qed.
Print Assumptions C08_constfold.

(* ... and is equal to it when multiplexers are total *)
Theorem C08_constfold_total : forall k xs_abs ys,
  total_mux k xs_abs -> ins_le xs_abs ys ->
  Forall (fun o => all_def o = true) (eval k xs_abs) ->
  eval k ys = eval k xs_abs.
Proof. exact NodeSemRefine.C08_constfold_total. Qed.
Print Assumptions C08_constfold_total.
Example C08_constfold_ex :   (* x AND 0 folds to 0 whatever x is *)
  ins_le [Some [BX; BX]; Some [B0; B0]] [Some [B1; B0]; Some [B0; B0]]
  /\ eval (KLogic L_AND 2) [Some [BX; BX]; Some [B0; B0]] = [[B0; B0]].
Proof.
  split; [|reflexivity].
  repeat constructor; first [left; reflexivity | right; reflexivity].
Qed.

(* the wording of the property: making inputs more defined never flips a defined output bit *)
Theorem C08_no_flip : forall k xs ys o o' i,
  ins_le xs ys -> nth_error (eval k xs) o = Some o' ->
  is_def (bv_get o' i) = true ->
  exists r, nth_error (eval k ys) o = Some r /\ (bv_get r i = BX \/ bv_get r i = bv_get o' i).
Proof. exact NodeSemRefine.C08_no_flip. Qed.
Print Assumptions C08_no_flip.

(* registers: latch / advance (undefined enable poisons the output) / reset / power-on *)
Theorem reg_latch_compat : forall c d d' e e' s t,
  opt_rel compat d d' -> opt_rel compat e e' -> reg_rel compat s t ->
  reg_rel compat (reg_latch c d e s) (reg_latch c d' e' t).
Proof. exact NodeSemRefine.reg_latch_compat. Qed.
Print Assumptions reg_latch_compat.

Theorem reg_advance_compat : forall c s t,
  reg_wf c s -> reg_wf c t -> reg_rel compat s t -> reg_rel compat (reg_advance c s) (reg_advance c t).
Proof. exact NodeSemRefine.reg_advance_compat. Qed.
Print Assumptions reg_advance_compat.
Example reg_advance_compat_ex :   (* enable X vs enable 1 *)
  let c := mk_reg_cfg 1 None RST_NONE true in
  let s := mk_reg_state [B1] BX false [B0] in
  let t := mk_reg_state [B1] B1 false [B0] in
  reg_wf c s /\ reg_wf c t /\ reg_rel compat s t
  /\ rs_out (reg_advance c s) = [BX] /\ rs_out (reg_advance c t) = [B1].
Proof.
  repeat split; try reflexivity;
    repeat constructor; first [left; reflexivity | right; right; reflexivity].
Qed.

Theorem reg_reset_compat : forall c h s t,
  reg_rel compat s t -> reg_rel compat (reg_reset c h s) (reg_reset c h t).
Proof. exact NodeSemRefine.reg_reset_compat. Qed.
Print Assumptions reg_reset_compat.

Theorem reg_poweron_compat : forall c s t,
  reg_rel compat s t -> reg_rel compat (reg_poweron c s) (reg_poweron c t).
Proof. exact NodeSemRefine.reg_poweron_compat. Qed.
Print Assumptions reg_poweron_compat.

Theorem reg_latch_mono : forall c d d' e e' s t,
  opt_rel le_def d d' -> opt_rel le_def e e' -> reg_rel le_def s t ->
  reg_rel le_def (reg_latch c d e s) (reg_latch c d' e' t).
Proof. exact NodeSemRefine.reg_latch_mono. Qed.
Print Assumptions reg_latch_mono.

Theorem reg_advance_mono : forall c s t,
  reg_wf c s -> reg_wf c t -> reg_rel le_def s t -> reg_rel le_def (reg_advance c s) (reg_advance c t).
Proof. exact NodeSemRefine.reg_advance_mono. Qed.
Print Assumptions reg_advance_mono.

Theorem reg_reset_mono : forall c h s t,
  reg_rel le_def s t -> reg_rel le_def (reg_reset c h s) (reg_reset c h t).
Proof. exact NodeSemRefine.reg_reset_mono. Qed.
Print Assumptions reg_reset_mono.

Theorem reg_poweron_mono : forall c s t,
  reg_rel le_def s t -> reg_rel le_def (reg_poweron c s) (reg_poweron c t).
Proof. exact NodeSemRefine.reg_poweron_mono. Qed.
Print Assumptions reg_poweron_mono.

(* the register functions keep the widths, so reg_wf is an invariant from reg_init on *)
Theorem reg_wf_advance : forall c s, reg_wf c s -> reg_wf c (reg_advance c s).
Proof. exact NodeSemRefine.reg_wf_advance. Qed.
Print Assumptions reg_wf_advance.
Theorem reg_wf_latch : forall c d e s, reg_wf c s -> reg_wf c (reg_latch c d e s).
Proof. exact NodeSemRefine.reg_wf_latch. Qed.
Print Assumptions reg_wf_latch.

(* ------------------------------------------------------------------ *)
(* circuit level: the congruence lifted over the evaluation order and over cycles
   (NetRefine.v over the cycle semantics NetDefs.v that C01's trace tie validates against the
   real simulator) *)
From Gatery Require Import NetDefs NetRefine.

(* for EVERY netlist, schedule, initial register contents and stimulus sequences that never
   contradict each other, the pin values never contradict each other in any cycle *)
Theorem C08_circuit : forall nl sc s0 s0' sigma sigma',
  st_wf nl s0 -> st_wf nl s0' -> st_rel s0 s0' ->
  (forall t, ins_rel (sigma t) (sigma' t)) ->
  forall t, Forall2 bv_compat (out_from nl sc s0 sigma t) (out_from nl sc s0' sigma' t).
Proof. exact run_compat. Qed.
Print Assumptions C08_circuit.

(* the property's wording: making the stimuli more defined (a concretisation of the undefined
   input bits) can never flip a pin bit that the abstract run reports as defined *)
Theorem C08_concretisation : forall nl sc sigma sigma',
  (forall t, Forall2 bv_le (sigma t) (sigma' t)) ->
  forall t, Forall2 bv_compat (out_at nl sc sigma t) (out_at nl sc sigma' t).
Proof. exact run_concretisation. Qed.
Print Assumptions C08_concretisation.

(* the power-on state satisfies the width invariant the theorem asks of initial states *)
Theorem C08_power_on_wf : forall nl, st_wf nl (power_on nl).
Proof. exact power_on_wf. Qed.
Print Assumptions C08_power_on_wf.

(* ------------------------------------------------------------------ *)
(* circuit level WITH memories (NetMemDefs.v: NetDefs extended by Node_Memory / Node_MemPort with
   the port semantics of MemDefs.v; the tie of C07's certificates validates this cycle
   semantics against the real simulator) *)
From Gatery Require Import MemDefs MemProofsCompat MachineCert NetMemDefs NetMemRefine.

(* for EVERY netlist with memories whose ports are consistent, every schedule, and initial
   register AND memory contents and stimulus sequences that never contradict each other, the
   pin values never contradict each other in any cycle *)
Theorem C08_circuit_with_memories : forall mw nl sc s0 s0' sigma sigma',
  mnl_wf mw nl -> mst_wf mw nl s0 -> mst_wf mw nl s0' -> ms_rel s0 s0' ->
  (forall t, ins_rel (sigma t) (sigma' t)) ->
  forall t, Forall2 bv_compat (mout_from nl sc s0 sigma t) (mout_from nl sc s0' sigma' t).
Proof. exact mrun_compat. Qed.
Print Assumptions C08_circuit_with_memories.

(* the property's wording including "undefined initial ... memory contents": concretising
   undefined stimulus bits and undefined power-on memory words never flips a pin bit that the
   abstract run reports as defined *)
Theorem C08_concretisation_with_memories : forall mw nl sc mems0 mems0' sigma sigma',
  mnl_wf mw nl ->
  (forall mem, mem_wf (mw mem) (nth mem mems0 [])) -> (forall mem, mem_wf (mw mem) (nth mem mems0' [])) ->
  Forall2 (Forall2 bv_le) mems0 mems0' ->
  (forall t, Forall2 bv_le (sigma t) (sigma' t)) ->
  forall t, Forall2 bv_compat (mout_at sc sigma (machine_of nl mems0) t) (mout_at sc sigma' (machine_of nl mems0') t).
Proof. exact mrun_concretisation. Qed.
Print Assumptions C08_concretisation_with_memories.

(* the consistency hypothesis is decidable on a dumped netlist *)
Theorem C08_memory_netlist_wf_decidable : forall nl, mnl_wfb nl = true -> mnl_wf (port_width_of nl) nl.
Proof. exact mnl_wfb_sound. Qed.
Print Assumptions C08_memory_netlist_wf_decidable.

(* non-vacuity: a write port followed by a read port that forwards from it, on a 2-bit wide memory *)
Example ex_mem_netlist_wf :
  let cfg := MkCfg 2 1 UB_Undefined false in
  let nl := [ mk_mnode (MBase (NPinIn 1 0)) [];                       (* 0: address *)
              mk_mnode (MBase (NPinIn 2 1)) [];                       (* 1: write data *)
              mk_mnode (MBase (NPinIn 1 2)) [];                       (* 2: write enable *)
              mk_mnode MMemory [];                                    (* 3 *)
              mk_mnode (MMemPort 0 cfg false true []) [Some (2,0); Some (2,0); Some (0,0); Some (1,0)];   (* 4: write port *)
              mk_mnode (MMemPort 0 cfg true false [4]) [None; None; Some (0,0); None];                    (* 5: read port after the write *)
              mk_mnode (MBase (NPinOut 2)) [Some (5,0)] ] in
  mnl_wfb nl = true /\
  moutputs nl (mcomb_eval nl (mpower_on nl [[ [B0;B0]; [B1;B0] ]]) [[B1]; [B1;B1]; [B1]]) = [[B1;B1]] /\
  moutputs nl (mcomb_eval nl (mpower_on nl [[ [B0;B0]; [B1;B0] ]]) [[B1]; [B1;B1]; [B0]]) = [[B1;B0]].
Proof. vm_compute. repeat split. Qed.
