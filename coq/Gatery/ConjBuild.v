(* C14 — Conjunction::build yields a network equivalent to the analysed conjunction. *)
From Coq Require Import List Bool Arith Lia Permutation.
From Gatery Require Import Bits ConjDefs ConjProofs ConjPreds.
Import ListNotations.

Lemma consistent_app g ext rho u vals : consistent (g ++ ext) rho u vals -> consistent g rho u vals.
Proof.
  intros H i n Hn. apply H. rewrite nth_error_app1; auto. apply nth_error_Some. congruence.
Qed.

Lemma insert_sorted_perm t l : Permutation (insert_sorted t l) (t :: l).
Proof.
  induction l as [|x l IH]; simpl; auto.
  destruct (t_driver t <=? t_driver x); auto.
  rewrite IH. apply perm_swap.
Qed.

Lemma sort_terms_perm l : Permutation (sort_terms l) l.
Proof.
  induction l as [|x l IH]; simpl; auto. unfold sort_terms in *. simpl.
  rewrite insert_sorted_perm. auto.
Qed.

Lemma forallb_perm {A} (f : A -> bool) l l' : Permutation l l' -> forallb f l = forallb f l'.
Proof.
  induction 1; simpl; auto.
  - rewrite IHPermutation; auto.
  - rewrite !andb_assoc. f_equal. apply andb_comm.
  - congruence.
Qed.

Section Build.
Variable rho : nat -> bool.
Variable u : bool.

Lemma build_lits_spec : forall ts g g2 lits,
  build_lits g ts = (g2, lits) ->
  (exists ext, g2 = g ++ ext) /\
  forall vals, consistent g2 rho u vals ->
    (forall t, In t ts -> dval vals u (t_cdrv t) = nth (t_driver t) vals u) ->
    map (dval vals u) lits = map (lit vals u) ts.
Proof.
  induction ts as [|t ts IH]; intros g g2 lits H; simpl in H.
  - inversion H; subst. split; [exists []; rewrite app_nil_r; reflexivity|]. reflexivity.
  - destruct (t_neg t) eqn:En.
    + destruct (build_lits (g ++ [PNot (t_cdrv t)]) ts) as [g3 l] eqn:E. inversion H; subst; clear H.
      destruct (IH _ _ _ E) as [[ext Hext] Hmap]. split.
      * exists (PNot (t_cdrv t) :: ext). rewrite Hext. rewrite <- app_assoc. reflexivity.
      * intros vals Hc Hcd. simpl. rewrite (Hmap vals Hc) by (intros; apply Hcd; right; auto). f_equal.
        assert (Hn : nth_error g2 (length g) = Some (PNot (t_cdrv t))).
        { rewrite Hext. rewrite <- app_assoc. rewrite nth_error_app2 by lia. rewrite Nat.sub_diag. reflexivity. }
        rewrite (Hc _ _ Hn). simpl. rewrite (Hcd t) by (left; reflexivity).
        unfold lit. rewrite En. destruct (nth (t_driver t) vals u); reflexivity.
    + destruct (build_lits g ts) as [g3 l] eqn:E. inversion H; subst; clear H.
      destruct (IH _ _ _ E) as [[ext Hext] Hmap]. split; [exists ext; auto|].
      intros vals Hc Hcd. simpl. rewrite (Hmap vals Hc) by (intros; apply Hcd; right; auto). f_equal.
      rewrite (Hcd t) by (left; reflexivity). unfold lit. rewrite En. destruct (nth (t_driver t) vals u); reflexivity.
Qed.

Lemma build_chain_spec : forall l g last g2 out,
  build_chain g last l = (g2, out) ->
  (exists ext, g2 = g ++ ext) /\
  forall vals, consistent g2 rho u vals ->
    dval vals u out = dval vals u last && forallb (fun b => b) (map (dval vals u) l).
Proof.
  induction l as [|x l IH]; intros g last g2 out H; simpl in H.
  - inversion H; subst. split; [exists []; rewrite app_nil_r; reflexivity|]. intros. simpl. rewrite andb_true_r. reflexivity.
  - destruct (IH _ _ _ _ H) as [[ext Hext] Hv]. split.
    + exists (PAnd last x :: ext). rewrite Hext. rewrite <- app_assoc. reflexivity.
    + intros vals Hc. rewrite (Hv vals Hc). simpl.
      assert (Hn : nth_error g2 (length g) = Some (PAnd last x)).
      { rewrite Hext. rewrite <- app_assoc. rewrite nth_error_app2 by lia. rewrite Nat.sub_diag. reflexivity. }
      rewrite (Hc _ _ Hn). simpl. rewrite andb_assoc. reflexivity.
Qed.

Lemma forallb_id_map {A} (f : A -> bool) l : forallb (fun b => b) (map f l) = forallb f l.
Proof. induction l; simpl; congruence. Qed.

Theorem build_sound g c g2 out vals :
  build g c = (g2, out) ->
  consistent g2 rho u vals ->
  (forall t, In t (c_terms c) -> dval vals u (t_cdrv t) = nth (t_driver t) vals u) ->
  (exists ext, g2 = g ++ ext) /\
  dval vals u out = forallb (lit vals u) (c_terms c).
Proof.
  unfold build. intros H Hc Hcd.
  rewrite <- (forallb_perm _ _ _ (sort_terms_perm (c_terms c))).
  assert (Hcd' : forall t, In t (sort_terms (c_terms c)) -> dval vals u (t_cdrv t) = nth (t_driver t) vals u).
  { intros t Hin. apply Hcd. eapply Permutation_in; [apply sort_terms_perm|exact Hin]. }
  destruct (sort_terms (c_terms c)) as [|t ts] eqn:Es.
  - inversion H; subst. split; [eexists; reflexivity|]. simpl.
    assert (Hn : nth_error (g ++ [PConst B1]) (length g) = Some (PConst B1)).
    { rewrite nth_error_app2 by lia. rewrite Nat.sub_diag. reflexivity. }
    rewrite (Hc _ _ Hn). reflexivity.
  - destruct (build_lits g (t :: ts)) as [g1 lits] eqn:El.
    destruct (build_lits_spec _ _ _ _ El) as [[ext1 Hext1] Hmap].
    destruct lits as [|x r].
    + inversion H; subst. exfalso.
      assert (Hm := Hmap vals Hc Hcd'). simpl in Hm. discriminate.
    + destruct (build_chain_spec _ _ _ _ _ H) as [[ext2 Hext2] Hv]. split.
      * exists (ext1 ++ ext2). rewrite Hext2, Hext1. rewrite app_assoc. reflexivity.
      * rewrite (Hv vals Hc). rewrite forallb_id_map.
        assert (Hc1 : consistent g1 rho u vals) by (rewrite Hext2 in Hc; eapply consistent_app; eauto).
        assert (Hm := Hmap vals Hc1 Hcd'). simpl in Hm. inversion Hm as [[Hx Hr]].
        simpl. rewrite <- Hx. f_equal.
        rewrite <- (forallb_id_map (dval vals u) r), <- (forallb_id_map (lit vals u) ts). rewrite Hr. reflexivity.
Qed.

End Build.
