(* C19 -- model of the reference simulator's scheduling of simulation processes.
   Definitions only (no proofs); total, computable, extracted as it stands (coq/extract/Extract_C19.v).

   Sources followed (gatery, /repo/source/gatery):
     simulation/ReferenceSimulator.h     struct Event, Event::operator< (transcribed: ev_less), SignalWatch,
                                          ClockAwaitingSimProc, ClockDomain::awaitingSimProcs
     simulation/ReferenceSimulator.cpp   powerOn (l.606-745), reevaluate, commitState (read-only mode,
                                          m_processesAwaitingCommit), advanceMicroTick (clockPinTrigger /
                                          clockValueChange / simProcResume), checkSignalWatches,
                                          handleCurrentTimeStep (phases BEFORE/DURING/AFTER, micro ticks),
                                          advanceEvent, advance, simProcSetInputPin (read-only check),
                                          simulationProcessSuspending (WaitFor / WaitClock / WaitChange / WaitStable)
     simulation/simProc/SimulationProcess.{h,cpp}   SimulationCoroutineHandler::start / readyToResume / run
                                          (FIFO ready queue), forkFunc (runImmediate), Join,
                                          FinalSuspendAwaiter (joiners are enqueued at the back)
     simulation/simProc/SimulationFiber.h  awaitCoroutine (every fiber step = one wrapper coroutine through
                                          the ready queue)
     hlim/coreNodes/Node_Register.cpp    simulateEvaluate (latch D) / simulateAdvance (latch -> output)

   The circuit is fixed (harness/C19_proc.cpp builds exactly this one with the real frontend):
       PA, PB : 8 bit input pins        RA = reg(PA) @ clock A      RA2 = reg(RA) @ clock A
       RB = reg(PB) @ clock B (clock A when there is only one clock)          C = PA xor RA
   no reset, no enable; pins and registers start undefined.  A value is [option N] (None = undefined).

   Time is Coq's Q (exact).  Sums are normalised with Qred like boost::rational does.
   boost::rational<uint64_t> overflow is outside the model.

   Not determined by the source: which of two clockPinTrigger events of DIFFERENT pins with the same time
   std::priority_queue pops first (Event::operator< calls them equivalent).  The model keeps equivalent
   events in insertion order and, when the choice can be observed (a BEFORE-phase waiter exists),
   takes the decision from an explicit stream of booleans [s_tb] (true = pop the second one first). *)
From Coq Require Import List NArith ZArith QArith Qreduction Bool.
Import ListNotations.
Local Close Scope Q_scope.

(* ------------------------------------------------------------------------- *)
(** * Basic vocabulary *)

Inductive phase := BEFORE | DURING | AFTER.        (* WaitClock::TimingPhase, in enum order *)
Definition phase_idx (p : phase) : N := match p with BEFORE => 0 | DURING => 1 | AFTER => 2 end.
Definition phase_eqb (a b : phase) : bool := N.eqb (phase_idx a) (phase_idx b).

Inductive etype := ClockPinTrigger | SimProcResume | ClockValueChange | ResetValueChange.  (* Event::Type, enum order *)
Definition etype_idx (t : etype) : N :=
  match t with ClockPinTrigger => 0 | SimProcResume => 1 | ClockValueChange => 2 | ResetValueChange => 3 end.

Inductive clk := CA | CB.
Definition clk_eqb (a b : clk) : bool := match a, b with CA, CA | CB, CB => true | _, _ => false end.

(* SPA: output of pin PA (the first signal the simulator allocates: state offset 0); SZ: a zero-width input (all
   zero-width outputs are allocated at state offset 0 as well); SCLO / SCHI: the slices C[3:0] and C[7:4] *)
Inductive sig := SRA | SRA2 | SRB | SC | SPA | SZ | SCLO | SCHI.
Inductive pinid := PA | PB.

Definition val := option N.
Definition val_eqb (a b : val) : bool :=
  match a, b with None, None => true | Some x, Some y => N.eqb x y | _, _ => false end.
Definition val_xor (a b : val) : val :=
  match a, b with Some x, Some y => Some (N.lxor x y) | _, _ => None end.

(* unsigned rationals, as boost::rational<std::uint64_t> (hlim::ClockRational): durations are >= 0 and
   frequencies > 0 by construction *)
Definition uq := (N * positive)%type.
Definition uQ (u : uq) : Q := Z.of_N (fst u) # snd u.
Definition pq := (positive * positive)%type.
Definition pQ (f : pq) : Q := Zpos (fst f) # snd f.

(* what a suspended process is waiting for; travels with the pending resumption so that the log can
   say which wait ended (the C++ coroutine knows this by its program counter) *)
Inductive wake :=
| WkClk (c : clk) (ph : phase)
| WkFor (q : uq)
| WkChange (mask : list sig)
| WkStable
| WkJoin (k : nat)
| WkX (i : nat) (ph : phase).      (* WaitClock on the i-th clock that drives no clocked node *)

(* model-only bookkeeping that travels with a pending resumption (never inspected by the scheduler):
   time at which the wait began, insertion id that was assigned, and for a fired signal watch the snapshot
   and the values that were found different *)
Record ghost := mk_ghost { g_t0 : Q; g_id : N; g_refs : list val; g_cur : list val }.

Inductive step :=
| SWaitClk (c : clk) (ph : phase)
| SWaitFor (q : uq)
| SWaitChange (mask : list sig)
| SWaitStable
| SRead (s : sig)
| SWrite (p : pinid) (v : N)
| SFork (sid : nat)
| SJoin (k : nat)
| SWaitX (i : nat) (ph : phase).   (* co_await WaitClock(clock, ph) for a clock that is NOT part of the simulation program *)
Definition script := list step.

(* clocks without clocked nodes: a root clock with its own frequency or a clock derived from clock A / B with a
   frequency multiplier (DerivedClock: absoluteFrequency = parent * multiplier) *)
Inductive xclk := XRoot (f : pq) | XDerived (parent : clk) (mult : pq).

Record config := mk_config {
  c_two : bool;            (* two clocks?  otherwise every register is clocked by clock A *)
  c_fa : pq; c_fb : pq;    (* absolute frequencies *)
  c_subs : list script;    (* fork targets *)
  c_extra : list xclk      (* clocks that drive no clocked node (not in Program::m_clockDomains) *)
}.
Definition eff_clk (cfg : config) (c : clk) : clk := if c_two cfg then c else CA.
Definition half_period (f : Q) : Q := Qred ((1 # 2) / f).
Definition clk_half (cfg : config) (c : clk) : Q :=
  match c with CA => half_period (pQ (c_fa cfg)) | CB => half_period (pQ (c_fb cfg)) end.
Definition tadd (a b : Q) : Q := Qred (a + b).
Definition clk_freq (cfg : config) (c : clk) : Q := match c with CA => pQ (c_fa cfg) | CB => pQ (c_fb cfg) end.
Definition xfreq (cfg : config) (x : xclk) : Q :=
  match x with XRoot f => pQ f | XDerived p m => Qred (clk_freq cfg (eff_clk cfg p) * pQ m) end.
Definition extra_freq (cfg : config) (i : nat) : Q := xfreq cfg (nth i (c_extra cfg) (XRoot (1, 1)%positive)).
(* ticksSoFar = hlim::floor(now * f); nextTick = ticksSoFar + 1; nextTickTime = ClockRational(nextTick, 1) / f *)
Definition qfloor (v : Q) : Z := (Qnum v / Zpos (Qden v))%Z.       (* hlim::floor: numerator / denominator *)
Definition next_tick (f : Q) (now : Q) : Q := Qred (inject_Z (qfloor (now * f) + 1) / f).

(* ------------------------------------------------------------------------- *)
(** * Events and their order (ReferenceSimulator.h, struct Event) *)

Record event := mk_event {
  e_type : etype;
  e_time : Q;
  e_mt : N;
  e_phase : phase;
  e_pin : clk;          (* ClockValueChangeEvt::clockPinIdx *)
  e_rising : bool;      (* ClockValueChangeEvt::risingEdge *)
  e_pid : nat;          (* SimProcResumeEvt::handle *)
  e_id : N;             (* SimProcResumeEvt::insertionId *)
  e_why : wake;         (* model only: what the handle was waiting for *)
  e_g : ghost           (* model only *)
}.

Definition clock_less (a b : Q) : bool := Z.ltb (Qnum a * Zpos (Qden b)) (Qnum b * Zpos (Qden a)).
Definition clock_more (a b : Q) : bool := Z.ltb (Qnum b * Zpos (Qden a)) (Qnum a * Zpos (Qden b)).

(* bool operator<(const Event &rhs) const -- line by line; [ev_less a b = true] means b is served first *)
Definition ev_less (a b : event) : bool :=
  if clock_more (e_time a) (e_time b) then true else
  if clock_less (e_time a) (e_time b) then false else
  if N.ltb (phase_idx (e_phase b)) (phase_idx (e_phase a)) then true else
  if N.ltb (phase_idx (e_phase a)) (phase_idx (e_phase b)) then false else
  if N.ltb (e_mt b) (e_mt a) then true else
  if N.ltb (e_mt a) (e_mt b) then false else
  if N.ltb (etype_idx (e_type b)) (etype_idx (e_type a)) then true else
  if N.ltb (etype_idx (e_type a)) (etype_idx (e_type b)) then false else
  match e_type a with
  | SimProcResume => N.ltb (e_id b) (e_id a)
  | _ => false
  end.

(* std::priority_queue<Event>: the list is kept sorted, head = top().  A new element goes behind every
   element that is not served after it (i.e. behind the strictly earlier ones and behind equivalent ones). *)
Fixpoint q_insert (e : event) (q : list event) : list event :=
  match q with
  | [] => [e]
  | x :: r => if ev_less x e then e :: q else x :: q_insert e r
  end.

(* ------------------------------------------------------------------------- *)
(** * The circuit *)

Record circ := mk_circ {
  pi_a : val; pi_b : val;            (* Node_Pin internal state, written by simProcSetInputPin *)
  po_a : val; po_b : val;            (* pin outputs as of the last reevaluate *)
  lat_ra : val; lat_ra2 : val; lat_rb : val;   (* Node_Register INT_DATA, latched by simulateEvaluate *)
  r_a : val; r_a2 : val; r_b : val;  (* register outputs *)
  c_out : val                        (* PA xor RA as of the last reevaluate *)
}.
Definition circ0 : circ := mk_circ None None None None None None None None None None None.

Definition circ_write (p : pinid) (v : N) (c : circ) : circ :=
  match p with
  | PA => mk_circ (Some v) (pi_b c) (po_a c) (po_b c) (lat_ra c) (lat_ra2 c) (lat_rb c) (r_a c) (r_a2 c) (r_b c) (c_out c)
  | PB => mk_circ (pi_a c) (Some v) (po_a c) (po_b c) (lat_ra c) (lat_ra2 c) (lat_rb c) (r_a c) (r_a2 c) (r_b c) (c_out c)
  end.

(* ReferenceSimulator::reevaluate: pins first, then everything that depends on them; the registers latch
   their data input *)
Definition circ_reeval (c : circ) : circ :=
  mk_circ (pi_a c) (pi_b c) (pi_a c) (pi_b c) (pi_a c) (r_a c) (pi_b c) (r_a c) (r_a2 c) (r_b c)
          (val_xor (pi_a c) (r_a c)).

(* ClockedNode::advance of every register of one clock domain: output := latched data *)
Definition circ_advance (two : bool) (k : clk) (c : circ) : circ :=
  match k with
  | CA => mk_circ (pi_a c) (pi_b c) (po_a c) (po_b c) (lat_ra c) (lat_ra2 c) (lat_rb c)
                  (lat_ra c) (lat_ra2 c) (if two then r_b c else lat_rb c) (c_out c)
  | CB => mk_circ (pi_a c) (pi_b c) (po_a c) (po_b c) (lat_ra c) (lat_ra2 c) (lat_rb c)
                  (r_a c) (r_a2 c) (if two then lat_rb c else r_b c) (c_out c)
  end.

Definition circ_read (s : sig) (c : circ) : val :=
  match s with
  | SRA => r_a c | SRA2 => r_a2 c | SRB => r_b c | SC => c_out c
  | SPA => lat_ra c      (* the evaluated output of pin PA: the value RA's data input latched, both are copies of the
                            pin's internal state made by the same reevaluate() *)
  | SZ => Some 0%N       (* zero bits: always defined, never changes *)
  | SCLO => option_map (fun v => N.land v 15) (c_out c)
  | SCHI => option_map (fun v => N.shiftr v 4) (c_out c)
  end.

(* ------------------------------------------------------------------------- *)
(** * Log *)

Inductive action :=
| AStart | AEnd
| ASusp (w : wake) (id : N)        (* id: insertion id consumed by this suspension (not printed; 0 for WaitStable / join) *)
| AWake (w : wake) (g : ghost)     (* g: not printed *)
| ARead (s : sig) (v : val)
| AWatch (vs : list val)           (* values of the watched signals, logged after ASusp/AWake of a WaitChange *)
| AWrite (p : pinid) (v : N)
| AFork (sid : nat) (cpid : nat)
| AJoinSkip (k : nat) | AJoinDone (k : nat) | AJoinWait (k : nat).

Inductive entry :=
| LProc (t : Q) (ph : phase) (mt : N) (ro : bool) (pid : nat) (a : action)
| LEdge (t : Q) (c : clk) (rising : bool) (ra ra2 rb : val)    (* onClock, after the clocked nodes advanced *)
| LPhase (t : Q) (ph : phase)                                   (* onNewPhase *)
| LMicro (t : Q) (ph : phase) (mt : N)                          (* onAfterMicroTick *)
| LCommit (t : Q) (ra ra2 rb c : val)                           (* onCommitState *)
| LReeval                                                       (* reevaluate() (not printed) *)
| LTrigger (t : Q) (c : clk) (rising : bool)                    (* clockPinTrigger handled (not printed) *)
| LFire (pid : nat) (refs cur : list val)                       (* a signal watch fired (not printed) *)
| LErr.                                                         (* write in read-only mode: exception *)

(* ------------------------------------------------------------------------- *)
(** * Simulator state *)

Record awaiter := mk_awaiter { aw_id : N; aw_phase : phase; aw_pid : nat; aw_why : wake; aw_t0 : Q }.
Record watch := mk_watch { w_pid : nat; w_mask : list sig; w_refs : list val; w_id : N; w_t0 : Q }.
Record proc := mk_proc { p_script : script; p_fiber : bool; p_done : bool; p_joiners : list (nat * nat * Q) }.
Definition ghost0 (t0 : Q) : ghost := mk_ghost t0 0 [] [].
(* a joiner: (pid, index it joined on, time it began to wait) *)

Inductive task :=
| TStart (pid : nat)                          (* SimulationCoroutineHandler::start(coroutine, false) *)
| TWake (pid : nat) (w : wake) (g : ghost)    (* readyToResume(handle) of a suspended coroutine *)
| THop (pid : nat) (n : nat).                 (* fiber: n more wrapper coroutines pass before the next step runs *)

Inductive frame :=
| FStart (pid : nat)      (* a coroutine that has not run yet: logs "start", then runs *)
| FRun (pid : nat)        (* executing the script of pid *)
| FAfter (pid : nat).     (* fiber step coroutine finished (after a fork returned): hand back to the fiber *)

Record state := mk_state {
  s_now : Q; s_phase : phase; s_mt : N;
  s_queue : list event;                  (* m_nextEvents *)
  s_await_a : list awaiter; s_await_b : list awaiter;   (* ClockDomain::awaitingSimProcs *)
  s_watches : list watch;                (* m_signalWatches *)
  s_commitq : list (nat * Q);            (* m_processesAwaitingCommit *)
  s_nextid : N;                          (* m_nextSimProcInsertionId *)
  s_readonly : bool;                     (* m_readOnlyMode *)
  s_ready : list task;                   (* SimulationCoroutineHandler::m_coroutinesReadyToResume *)
  s_procs : list proc;                   (* index = pid *)
  s_forked : list nat;                   (* harness: handles returned by fork(), in fork order *)
  s_circ : circ;
  s_log : list entry;                    (* newest first *)
  s_err : bool;                          (* an exception left the simulator *)
  s_tb : list bool; s_ties : N;          (* tie-break stream for equivalent clockPinTrigger events, bits used *)
  s_oof : bool                           (* some loop ran out of fuel (the result is then not meaningful) *)
}.

(* --- field updates ------------------------------------------------------- *)
Definition set_time (t : Q) (s : state) : state :=
  mk_state t (s_phase s) (s_mt s) (s_queue s) (s_await_a s) (s_await_b s) (s_watches s) (s_commitq s) (s_nextid s)
    (s_readonly s) (s_ready s) (s_procs s) (s_forked s) (s_circ s) (s_log s) (s_err s) (s_tb s) (s_ties s) (s_oof s).
Definition set_phase (p : phase) (s : state) : state :=
  mk_state (s_now s) p (s_mt s) (s_queue s) (s_await_a s) (s_await_b s) (s_watches s) (s_commitq s) (s_nextid s)
    (s_readonly s) (s_ready s) (s_procs s) (s_forked s) (s_circ s) (s_log s) (s_err s) (s_tb s) (s_ties s) (s_oof s).
Definition set_mt (m : N) (s : state) : state :=
  mk_state (s_now s) (s_phase s) m (s_queue s) (s_await_a s) (s_await_b s) (s_watches s) (s_commitq s) (s_nextid s)
    (s_readonly s) (s_ready s) (s_procs s) (s_forked s) (s_circ s) (s_log s) (s_err s) (s_tb s) (s_ties s) (s_oof s).
Definition set_queue (q : list event) (s : state) : state :=
  mk_state (s_now s) (s_phase s) (s_mt s) q (s_await_a s) (s_await_b s) (s_watches s) (s_commitq s) (s_nextid s)
    (s_readonly s) (s_ready s) (s_procs s) (s_forked s) (s_circ s) (s_log s) (s_err s) (s_tb s) (s_ties s) (s_oof s).
Definition set_await (c : clk) (l : list awaiter) (s : state) : state :=
  match c with
  | CA => mk_state (s_now s) (s_phase s) (s_mt s) (s_queue s) l (s_await_b s) (s_watches s) (s_commitq s) (s_nextid s)
    (s_readonly s) (s_ready s) (s_procs s) (s_forked s) (s_circ s) (s_log s) (s_err s) (s_tb s) (s_ties s) (s_oof s)
  | CB => mk_state (s_now s) (s_phase s) (s_mt s) (s_queue s) (s_await_a s) l (s_watches s) (s_commitq s) (s_nextid s)
    (s_readonly s) (s_ready s) (s_procs s) (s_forked s) (s_circ s) (s_log s) (s_err s) (s_tb s) (s_ties s) (s_oof s)
  end.
Definition get_await (c : clk) (s : state) : list awaiter := match c with CA => s_await_a s | CB => s_await_b s end.
Definition set_watches (w : list watch) (s : state) : state :=
  mk_state (s_now s) (s_phase s) (s_mt s) (s_queue s) (s_await_a s) (s_await_b s) w (s_commitq s) (s_nextid s)
    (s_readonly s) (s_ready s) (s_procs s) (s_forked s) (s_circ s) (s_log s) (s_err s) (s_tb s) (s_ties s) (s_oof s).
Definition set_commitq (l : list (nat * Q)) (s : state) : state :=
  mk_state (s_now s) (s_phase s) (s_mt s) (s_queue s) (s_await_a s) (s_await_b s) (s_watches s) l (s_nextid s)
    (s_readonly s) (s_ready s) (s_procs s) (s_forked s) (s_circ s) (s_log s) (s_err s) (s_tb s) (s_ties s) (s_oof s).
Definition set_nextid (n : N) (s : state) : state :=
  mk_state (s_now s) (s_phase s) (s_mt s) (s_queue s) (s_await_a s) (s_await_b s) (s_watches s) (s_commitq s) n
    (s_readonly s) (s_ready s) (s_procs s) (s_forked s) (s_circ s) (s_log s) (s_err s) (s_tb s) (s_ties s) (s_oof s).
Definition set_readonly (b : bool) (s : state) : state :=
  mk_state (s_now s) (s_phase s) (s_mt s) (s_queue s) (s_await_a s) (s_await_b s) (s_watches s) (s_commitq s) (s_nextid s)
    b (s_ready s) (s_procs s) (s_forked s) (s_circ s) (s_log s) (s_err s) (s_tb s) (s_ties s) (s_oof s).
Definition set_ready (r : list task) (s : state) : state :=
  mk_state (s_now s) (s_phase s) (s_mt s) (s_queue s) (s_await_a s) (s_await_b s) (s_watches s) (s_commitq s) (s_nextid s)
    (s_readonly s) r (s_procs s) (s_forked s) (s_circ s) (s_log s) (s_err s) (s_tb s) (s_ties s) (s_oof s).
Definition set_procs (p : list proc) (s : state) : state :=
  mk_state (s_now s) (s_phase s) (s_mt s) (s_queue s) (s_await_a s) (s_await_b s) (s_watches s) (s_commitq s) (s_nextid s)
    (s_readonly s) (s_ready s) p (s_forked s) (s_circ s) (s_log s) (s_err s) (s_tb s) (s_ties s) (s_oof s).
Definition set_forked (f : list nat) (s : state) : state :=
  mk_state (s_now s) (s_phase s) (s_mt s) (s_queue s) (s_await_a s) (s_await_b s) (s_watches s) (s_commitq s) (s_nextid s)
    (s_readonly s) (s_ready s) (s_procs s) f (s_circ s) (s_log s) (s_err s) (s_tb s) (s_ties s) (s_oof s).
Definition set_circ (c : circ) (s : state) : state :=
  mk_state (s_now s) (s_phase s) (s_mt s) (s_queue s) (s_await_a s) (s_await_b s) (s_watches s) (s_commitq s) (s_nextid s)
    (s_readonly s) (s_ready s) (s_procs s) (s_forked s) c (s_log s) (s_err s) (s_tb s) (s_ties s) (s_oof s).
Definition set_log (l : list entry) (s : state) : state :=
  mk_state (s_now s) (s_phase s) (s_mt s) (s_queue s) (s_await_a s) (s_await_b s) (s_watches s) (s_commitq s) (s_nextid s)
    (s_readonly s) (s_ready s) (s_procs s) (s_forked s) (s_circ s) l (s_err s) (s_tb s) (s_ties s) (s_oof s).
Definition set_err (s : state) : state :=
  mk_state (s_now s) (s_phase s) (s_mt s) (s_queue s) (s_await_a s) (s_await_b s) (s_watches s) (s_commitq s) (s_nextid s)
    (s_readonly s) (s_ready s) (s_procs s) (s_forked s) (s_circ s) (s_log s) true (s_tb s) (s_ties s) (s_oof s).
Definition set_tb (tb : list bool) (n : N) (s : state) : state :=
  mk_state (s_now s) (s_phase s) (s_mt s) (s_queue s) (s_await_a s) (s_await_b s) (s_watches s) (s_commitq s) (s_nextid s)
    (s_readonly s) (s_ready s) (s_procs s) (s_forked s) (s_circ s) (s_log s) (s_err s) tb n (s_oof s).
Definition set_oof (s : state) : state :=
  mk_state (s_now s) (s_phase s) (s_mt s) (s_queue s) (s_await_a s) (s_await_b s) (s_watches s) (s_commitq s) (s_nextid s)
    (s_readonly s) (s_ready s) (s_procs s) (s_forked s) (s_circ s) (s_log s) (s_err s) (s_tb s) (s_ties s) true.

(* an exception left the simulator, or the model ran out of fuel: nothing runs any more *)
Definition halted (s : state) : bool := s_err s || s_oof s.

(* after an exception has left the simulator nothing is logged any more *)
Definition add_log (e : entry) (s : state) : state :=
  if s_err s then s else set_log (e :: s_log s) s.
Definition log_proc (pid : nat) (a : action) (s : state) : state :=
  add_log (LProc (s_now s) (s_phase s) (s_mt s) (s_readonly s) pid a) s.

Definition push_event (e : event) (s : state) : state := set_queue (q_insert e (s_queue s)) s.
Definition enqueue (t : task) (s : state) : state := set_ready (s_ready s ++ [t]) s.

(* in-place update of element i (no effect when i is out of range) *)
Fixpoint upd {A} (i : nat) (f : A -> A) (l : list A) : list A :=
  match l, i with
  | [], _ => []
  | x :: t, O => f x :: t
  | x :: t, S j => x :: upd j f t
  end.
Definition proc0 : proc := mk_proc [] false true [].
Definition get_proc (pid : nat) (s : state) : proc := nth pid (s_procs s) proc0.
Definition upd_proc (pid : nat) (f : proc -> proc) (s : state) : state := set_procs (upd pid f (s_procs s)) s.
Definition with_script (sc : script) (p : proc) : proc := mk_proc sc (p_fiber p) (p_done p) (p_joiners p).
Definition with_done (p : proc) : proc := mk_proc (p_script p) (p_fiber p) true [].
Definition add_joiner (j : nat * nat * Q) (p : proc) : proc := mk_proc (p_script p) (p_fiber p) (p_done p) (p_joiners p ++ [j]).

(* ------------------------------------------------------------------------- *)
(** * reevaluate, suspension bookkeeping *)

Definition reevaluate (s : state) : state := add_log LReeval (set_circ (circ_reeval (s_circ s)) s).

Definition fresh_id (s : state) : N * state := (s_nextid s, set_nextid (N.succ (s_nextid s)) s).

Definition resume_event (t : Q) (mt : N) (ph : phase) (pid : nat) (id : N) (w : wake) (g : ghost) : event :=
  mk_event SimProcResume t mt ph CA false pid id w g.

(* simulationProcessSuspending(handle, WaitFor&) *)
Definition suspend_waitfor (pid : nat) (q : uq) (s : state) : state :=
  let t := tadd (s_now s) (uQ q) in
  let mt := if Qeq_bool t (s_now s) && phase_eqb (s_phase s) AFTER then N.succ (s_mt s) else 0%N in
  let (id, s1) := fresh_id s in
  push_event (resume_event t mt AFTER pid id (WkFor q) (mk_ghost (s_now s) id [] [])) s1.

(* simulationProcessSuspending(handle, WaitClock&): both clocks have clocked nodes, so the clock is always
   part of the simulation (the "clock not part of the simulation" branch is not reachable in this circuit) *)
Definition suspend_waitclk (cfg : config) (pid : nat) (c : clk) (ph : phase) (s : state) : state :=
  let k := eff_clk cfg c in
  let (id, s1) := fresh_id s in
  set_await k (get_await k s1 ++ [mk_awaiter id ph pid (WkClk c ph) (s_now s)]) s1.

(* simulationProcessSuspending(handle, WaitClock&), branch `it == m_program.m_clockDomains.end()`: the clock is
   not part of the simulation; the process is resumed by an ordinary event at the next tick the clock would have
   (strictly after now), in the requested timing phase, micro tick 0 *)
Definition suspend_waitx (cfg : config) (pid : nat) (i : nat) (ph : phase) (s : state) : state :=
  let t := next_tick (extra_freq cfg i) (s_now s) in
  let (id, s1) := fresh_id s in
  push_event (resume_event t 0 ph pid id (WkX i ph) (mk_ghost (s_now s) id [] [])) s1.

(* simulationProcessSuspending(handle, WaitChange&): SignalWatch snapshots the watched signals *)
Definition suspend_waitchange (pid : nat) (mask : list sig) (s : state) : state :=
  let refs := map (fun x => circ_read x (s_circ s)) mask in
  let (id, s1) := fresh_id s in
  set_watches (s_watches s1 ++ [mk_watch pid mask refs id (s_now s)]) s1.

(* simulationProcessSuspending(handle, WaitStable&): no insertion id is consumed *)
Definition suspend_waitstable (pid : nat) (s : state) : state :=
  set_commitq (s_commitq s ++ [(pid, s_now s)]) s.

(* ------------------------------------------------------------------------- *)
(** * Running processes: call stack + FIFO ready queue *)

Definition read_mask (m : list sig) (s : state) : list val := map (fun x => circ_read x (s_circ s)) m.
Definition log_watch (pid : nat) (m : list sig) (s : state) : state := log_proc pid (AWatch (read_mask m s)) s.
Definition log_wake (pid : nat) (w : wake) (g : ghost) (s : state) : state :=
  let s1 := log_proc pid (AWake w g) s in
  match w with WkChange m => log_watch pid m s1 | _ => s1 end.

(* coroutine reached final_suspend (or the fiber thread left its body): FinalSuspendAwaiter enqueues every
   coroutine awaiting it, in the order in which they began to wait *)
Definition finish_proc (pid : nat) (s : state) : state :=
  let s1 := log_proc pid AEnd s in
  let js := p_joiners (get_proc pid s1) in
  let s2 := upd_proc pid with_done s1 in
  fold_left (fun st j => match j with (jp, k, t0) => enqueue (TWake jp (WkJoin k) (ghost0 t0)) st end) js s2.

(* what happens once the step coroutine of a FIBER has finished: the wrapper resumes the fiber thread, which
   either leaves its body (script exhausted) or hands the next step to the ready queue and suspends.
   Returns the frames that remain on the call stack. *)
Definition fiber_continue (pid : nat) (s : state) : list frame * state :=
  match p_script (get_proc pid s) with
  | [] => ([FRun pid], s)                      (* the FRun frame sees the empty script and finishes *)
  | _ => ([], enqueue (THop pid 0) s)
  end.

(* One step of the frame on top of the call stack; returns the frames replacing it. *)
Definition step_frame (cfg : config) (f : frame) (s : state) : list frame * state :=
  match f with
  | FStart pid => ([FRun pid], log_proc pid AStart s)
  | FAfter pid => fiber_continue pid s
  | FRun pid =>
    let p := get_proc pid s in
    match p_script p with
    | [] => ([], finish_proc pid s)
    | st :: rest =>
      let s0 := upd_proc pid (with_script rest) s in
      (* after a step that did not suspend: a coroutine simply goes on, a fiber's step coroutine is done *)
      let continue_ (s' : state) : list frame * state :=
        if p_fiber p then fiber_continue pid s' else ([FRun pid], s') in
      match st with
      | SRead x => continue_ (log_proc pid (ARead x (circ_read x (s_circ s0))) s0)
      | SWrite pn v =>
        let s1 := log_proc pid (AWrite pn v) s0 in
        if s_readonly s1
        then ([], set_err (add_log LErr s1))          (* HCL_DESIGNCHECK in simProcSetInputPin throws *)
        else continue_ (set_circ (circ_write pn v (s_circ s1)) s1)
      | SFork sid =>
        let cpid := length (s_procs s0) in
        let s1 := log_proc pid (AFork sid cpid) s0 in
        let child := mk_proc (nth sid (c_subs cfg) []) false false [] in
        let s2 := set_forked (s_forked s1 ++ [cpid]) (set_procs (s_procs s1 ++ [child]) s1) in
        (* forkFunc: handler->start(simFunc, runImmediate = true): the child runs nested, then the caller goes on *)
        ([FStart cpid; if p_fiber p then FAfter pid else FRun pid], s2)
      | SJoin k =>
        match nth_error (s_forked s0) k with
        | None => continue_ (log_proc pid (AJoinSkip k) s0)
        | Some cp =>
          if p_done (get_proc cp s0)
          then continue_ (log_proc pid (AJoinDone k) s0)        (* Join::await_ready *)
          else ([], upd_proc cp (add_joiner (pid, k, s_now s0)) (log_proc pid (AJoinWait k) s0))
        end
      | SWaitClk c ph => ([], suspend_waitclk cfg pid c ph (log_proc pid (ASusp (WkClk c ph) (s_nextid s0)) s0))
      | SWaitFor q => ([], suspend_waitfor pid q (log_proc pid (ASusp (WkFor q) (s_nextid s0)) s0))
      | SWaitChange m => ([], suspend_waitchange pid m (log_watch pid m (log_proc pid (ASusp (WkChange m) (s_nextid s0)) s0)))
      | SWaitStable => ([], suspend_waitstable pid (log_proc pid (ASusp WkStable 0) s0))
      | SWaitX i ph => ([], suspend_waitx cfg pid i ph (log_proc pid (ASusp (WkX i ph) (s_nextid s0)) s0))
      end
    end
  end.

Fixpoint run_stack (cfg : config) (fuel : nat) (stk : list frame) (s : state) : state :=
  match stk with
  | [] => s
  | f :: rest =>
    if halted s then s else
    match fuel with
    | O => set_oof s
    | S n => let (fs, s') := step_frame cfg f s in run_stack cfg n (fs ++ rest) s'
    end
  end.

(* resuming one entry of the ready queue: what happens before the coroutine's own code runs, and the call
   stack it then runs with *)
Definition task_head (t : task) (s : state) : list frame * state :=
  match t with
  | TStart pid => ([FStart pid], s)
  | TWake pid w g =>
    let s1 := log_wake pid w g s in
    if p_fiber (get_proc pid s1)
    then ([], enqueue (THop pid 1) s1)     (* the step coroutine finishes -> its wrapper is enqueued *)
    else ([FRun pid], s1)
  | THop pid (S n) =>                      (* the wrapper resumes the fiber thread: next awaitCoroutine or end of body *)
    match p_script (get_proc pid s) with
    | [] => ([FRun pid], s)
    | _ => ([], enqueue (THop pid n) s)
    end
  | THop pid O => ([FRun pid], s)
  end.

Definition exec_task (cfg : config) (fuel : nat) (t : task) (s : state) : state :=
  let (stk, s1) := task_head t s in run_stack cfg fuel stk s1.

(* SimulationCoroutineHandler::run *)
Fixpoint run_ready (cfg : config) (fuel : nat) (s : state) : state :=
  match s_ready s with
  | [] => s
  | t :: rest =>
    if halted s then s else
    match fuel with
    | O => set_oof s
    | S n => run_ready cfg n (exec_task cfg (S n) t (set_ready rest s))
    end
  end.

Definition resume_now (cfg : config) (fuel : nat) (t : task) (s : state) : state :=
  run_ready cfg fuel (enqueue t s).

(* ------------------------------------------------------------------------- *)
(** * Event handling (advanceMicroTick) *)

Definition has_before (l : list awaiter) : bool := existsb (fun a => phase_eqb (aw_phase a) BEFORE) l.

Definition equivalent (a b : event) : bool := negb (ev_less a b) && negb (ev_less b a).

(* top()/pop().  When the two first elements are equivalent clockPinTrigger events and one of them is an
   activating flank of a clock with a BEFORE-phase waiter, which one std::priority_queue yields is not
   determined by the source: one bit of [s_tb] decides (default: insertion order). *)
Definition tie_observable (s : state) (e : event) : bool :=
  e_rising e && has_before (match e_pin e with CA => s_await_a s | CB => s_await_b s end).

Definition pop_event (s : state) : option (event * state) :=
  match s_queue s with
  | [] => None
  | e1 :: [] => Some (e1, set_queue [] s)
  | e1 :: e2 :: r =>
    match e_type e1, e_type e2 with
    | ClockPinTrigger, ClockPinTrigger =>
      if equivalent e1 e2 && (tie_observable s e1 || tie_observable s e2) then
        match s_tb s with
        | true :: tb => Some (e2, set_tb tb (N.succ (s_ties s)) (set_queue (e1 :: r) s))
        | false :: tb => Some (e1, set_tb tb (N.succ (s_ties s)) (set_queue (e2 :: r) s))
        | [] => Some (e1, set_tb [] (N.succ (s_ties s)) (set_queue (e2 :: r) s))
        end
      else Some (e1, set_queue (e2 :: r) s)
    | _, _ => Some (e1, set_queue (e2 :: r) s)
    end
  end.

Definition awaiter_event (e : event) (a : awaiter) : event :=
  mk_event SimProcResume (e_time e) (e_mt e) (aw_phase a) (e_pin e) (e_rising e)
           (aw_pid a) (aw_id a) (aw_why a) (mk_ghost (aw_t0 a) (aw_id a) [] []).
Definition value_change_event (e : event) : event :=
  mk_event ClockValueChange (e_time e) (e_mt e) (e_phase e) (e_pin e) (e_rising e) (e_pid e) (e_id e) (e_why e) (e_g e).
Definition next_trigger_event (cfg : config) (e : event) : event :=
  mk_event ClockPinTrigger (tadd (e_time e) (clk_half cfg (e_pin e))) 0 (e_phase e) (e_pin e) (negb (e_rising e))
           (e_pid e) (e_id e) (e_why e) (e_g e).

Definition handle_trigger (cfg : config) (e : event) (s : state) : state :=
  let k := e_pin e in
  let s0 := add_log (LTrigger (e_time e) k (e_rising e)) s in
  (* trigger type RISING, no reset: the domain activates on the rising edge *)
  let s1 :=
    if e_rising e then
      set_await k [] (fold_left (fun st a => push_event (awaiter_event e a) st) (get_await k s0) s0)
    else s0 in
  (* the value change itself, after the processes that were just scheduled for BEFORE / DURING *)
  let s2 := push_event (value_change_event e) s1 in
  (* re-issue the next clock flank *)
  push_event (next_trigger_event cfg e) s2.

Definition handle_value_change (cfg : config) (e : event) (s : state) : state :=
  let k := e_pin e in
  let s1 := if e_rising e then set_circ (circ_advance (c_two cfg) k (s_circ s)) s else s in
  add_log (LEdge (s_now s1) k (e_rising e) (r_a (s_circ s1)) (r_a2 (s_circ s1)) (r_b (s_circ s1))) s1.

(* the part of the switch in advanceMicroTick that is not "run the ready queue" *)
Definition event_head (cfg : config) (e : event) (s : state) : state :=
  match e_type e with
  | ClockPinTrigger => handle_trigger cfg e s
  | ClockValueChange => handle_value_change cfg e s
  | ResetValueChange => s                                   (* no resets in this circuit *)
  | SimProcResume => enqueue (TWake (e_pid e) (e_why e) (e_g e)) s      (* m_coroutineHandler.readyToResume(handle) *)
  end.

Definition handle_event (cfg : config) (fuel : nat) (e : event) (s : state) : state :=
  let s1 := event_head cfg e s in
  match e_type e with
  | SimProcResume => run_ready cfg fuel s1                  (* m_coroutineHandler.run() *)
  | _ => s1
  end.

Definition top_matches (time_only : bool) (with_mt : bool) (s : state) : bool :=
  match s_queue s with
  | [] => false
  | e :: _ => Qeq_bool (e_time e) (s_now s)
              && (time_only || phase_eqb (e_phase e) (s_phase s))
              && (negb with_mt || N.eqb (e_mt e) (s_mt s))
  end.

(* ReferenceSimulator::advanceMicroTick *)
Fixpoint advance_micro_tick (cfg : config) (fuel : nat) (s : state) : state :=
  if halted s then s else
  if top_matches false true s then
    match fuel with
    | O => set_oof s
    | S n =>
      match pop_event s with
      | None => s
      | Some (e, s1) => advance_micro_tick cfg n (handle_event cfg (S n) e s1)
      end
    end
  else s.

(* ReferenceSimulator::checkSignalWatches *)
Definition watch_changed (c : circ) (w : watch) : bool :=
  negb (forallb (fun p => val_eqb (fst p) (snd p)) (combine (w_refs w) (map (fun x => circ_read x c) (w_mask w)))).

Definition watch_event (s : state) (w : watch) : event :=
  let mt := if phase_eqb (s_phase s) AFTER then N.succ (s_mt s) else 0%N in
  let cur := map (fun x => circ_read x (s_circ s)) (w_mask w) in
  resume_event (s_now s) mt AFTER (w_pid w) (w_id w) (WkChange (w_mask w)) (mk_ghost (w_t0 w) (w_id w) (w_refs w) cur).

Definition check_watches (s : state) : state :=
  let fired := filter (watch_changed (s_circ s)) (s_watches s) in
  let kept := filter (fun w => negb (watch_changed (s_circ s) w)) (s_watches s) in
  let s1 := fold_left (fun st w =>
              push_event (watch_event s w)
                (add_log (LFire (w_pid w) (w_refs w) (map (fun x => circ_read x (s_circ s)) (w_mask w))) st))
            fired s in
  set_watches kept s1.

(* what follows advanceMicroTick() inside the inner while loop of handleCurrentTimeStep *)
Definition micro_end (s : state) : state :=
  let s2 := reevaluate s in
  let s3 := check_watches s2 in
  let s4 := add_log (LMicro (s_now s3) (s_phase s3) (s_mt s3)) s3 in
  set_mt (N.succ (s_mt s4)) s4.

(* the inner while loop of handleCurrentTimeStep for one timing phase *)
Fixpoint phase_loop (cfg : config) (fuel : nat) (s : state) : state :=
  if halted s then s else
  if top_matches false false s then
    match fuel with
    | O => set_oof s
    | S n =>
      let s1 := advance_micro_tick cfg (S n) s in
      if halted s1 then s1 else phase_loop cfg n (micro_end s1)
    end
  else s.

Definition phase_begin (ph : phase) (s : state) : state :=
  let s1 := set_mt 0 (set_phase ph s) in add_log (LPhase (s_now s1) ph) s1.

Definition phase_pass (cfg : config) (fuel : nat) (ph : phase) (s : state) : state :=
  if halted s then s else phase_loop cfg fuel (phase_begin ph s).

(* ReferenceSimulator::commitState *)
Definition commit_begin (s : state) : state := set_commitq [] (set_readonly true s).
Definition commit_end (s : state) : state :=
  let c := s_circ s in
  set_readonly false (add_log (LCommit (s_now s) (r_a c) (r_a2 c) (r_b c) (c_out c)) s).

Fixpoint commit_resume (cfg : config) (fuel : nat) (waiting : list (nat * Q)) (s : state) : state :=
  match waiting with
  | [] => s
  | p :: r =>
    if halted s then s else
    commit_resume cfg fuel r (resume_now cfg fuel (TWake (fst p) WkStable (ghost0 (snd p))) s)
  end.

Definition commit_state (cfg : config) (fuel : nat) (s : state) : state :=
  let waiting := s_commitq s in
  let s3 := commit_resume cfg fuel waiting (commit_begin s) in
  if halted s3 then s3 else commit_end s3.

(* ReferenceSimulator::handleCurrentTimeStep *)
Fixpoint time_step_loop (cfg : config) (fuel : nat) (s : state) : state :=
  if halted s then s else
  if top_matches true false s then
    match fuel with
    | O => set_oof s
    | S n =>
      let s1 := phase_pass cfg (S n) BEFORE s in
      let s2 := phase_pass cfg (S n) DURING s1 in
      let s3 := phase_pass cfg (S n) AFTER s2 in
      time_step_loop cfg n s3
    end
  else s.

Definition handle_time_step (cfg : config) (fuel : nat) (s : state) : state :=
  let s1 := time_step_loop cfg fuel s in
  if halted s1 then s1 else commit_state cfg fuel s1.

(* ReferenceSimulator::advanceEvent *)
Definition advance_event (cfg : config) (fuel : nat) (s : state) : state :=
  match s_queue s with
  | [] => s
  | e :: _ => handle_time_step cfg fuel (set_mt 0 (set_time (e_time e) s))
  end.

(* ReferenceSimulator::advance(seconds) *)
Fixpoint advance_loop (cfg : config) (fuel : nat) (target : Q) (s : state) : state :=
  if halted s then s else
  if clock_less (s_now s) target then
    match s_queue s with
    | [] => set_time target s
    | e :: _ =>
      if clock_more (e_time e) target then set_time target s
      else match fuel with
           | O => set_oof s
           | S n => advance_loop cfg n target (advance_event cfg (S n) s)
           end
    end
  else s.

(* ------------------------------------------------------------------------- *)
(** * powerOn and the complete run *)

Definition trigger_event (t : Q) (k : clk) : event :=
  (* initial clock level for TriggerEvent::RISING is high, so the first event is the falling flank *)
  mk_event ClockPinTrigger t 0 DURING k false 0 0 WkStable (ghost0 0).

Definition init_state (procs : list script) (fiber : bool) (tb : list bool) : state :=
  mk_state 0 AFTER 0 [] [] [] [] [] 0 false []
    (map (fun sc => mk_proc sc fiber false []) procs) [] circ0 [] false tb 0 false.

(* powerOn up to (and including) the first reevaluate(): clock pins armed, nothing started yet *)
Definition boot (cfg : config) (procs : list script) (fiber : bool) (tb : list bool) : state :=
  let s0 := init_state procs fiber tb in
  let s1 := push_event (trigger_event (tadd 0 (clk_half cfg CA)) CA) s0 in
  let s2 := if c_two cfg then push_event (trigger_event (tadd 0 (clk_half cfg CB)) CB) s1 else s1 in
  reevaluate s2.

(* SimulationFiber::start(): the thread runs the body up to its first awaitCoroutine (or to its end) *)
Definition fiber_start (pid : nat) (s : state) : list frame * state :=
  fiber_continue pid (log_proc pid AStart s).

Fixpoint start_all (cfg : config) (fuel : nat) (fiber : bool) (pids : list nat) (s : state) : state :=
  match pids with
  | [] => s
  | pid :: r =>
    if halted s then s else
    start_all cfg fuel fiber r
      (if fiber then let (fs, s1) := fiber_start pid s in run_ready cfg fuel (run_stack cfg fuel fs s1)
       else resume_now cfg fuel (TStart pid) s)
  end.

Definition power_on (cfg : config) (fuel : nat) (procs : list script) (fiber : bool) (tb : list bool) : state :=
  let s3 := boot cfg procs fiber tb in
  let s4 := start_all cfg fuel fiber (seq 0 (length procs)) s3 in
  if halted s4 then s4 else
  let s5 := reevaluate s4 in          (* if (m_stateNeedsReevaluating) reevaluate(): idempotent when not needed *)
  handle_time_step cfg fuel s5.

Record result := mk_result { res_log : list entry; res_ties : N; res_oof : bool }.

Definition run (cfg : config) (procs : list script) (fiber : bool) (until : Q) (tb : list bool) (fuel : nat) : state :=
  let s := power_on cfg fuel procs fiber tb in
  advance_loop cfg fuel (tadd (s_now s) until) s.

Definition simulate (cfg : config) (procs : list script) (fiber : bool) (until : Q) (tb : list bool) (fuel : nat) : result :=
  let s' := run cfg procs fiber until tb fuel in
  mk_result (rev (s_log s')) (s_ties s') (s_oof s').
