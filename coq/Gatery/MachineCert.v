(* The product-reachability certificate checker of ProductCert.v, generalised from NetDefs
   netlists to abstract synchronous MACHINES (state with decidable equality, power-on state,
   event step, pin outputs, "everything defined" test).  ProductCert.v is the instance for
   register-only netlists (kept as it is: C01/C11/C06/C10/C02 depend on it); NetMemDefs.v
   provides the instance for netlists with memories (C07's post-processing clause).  *)
From Coq Require Import List Bool Arith Lia.
From Gatery Require Import Bits NodeSemDefs NetDefs ProductCert.
Import ListNotations.

Record machine := mk_machine {
  m_state : Type;
  m_eqb : m_state -> m_state -> bool;
  m_eqb_eq : forall a b, m_eqb a b = true <-> a = b;
  m_init : m_state;                                          (* after power-on, before any event *)
  m_events : list event -> list bv -> m_state -> m_state;    (* events between two samples; edge latches under the PREVIOUS inputs *)
  m_out : m_state -> list bv -> list bv;                     (* pin values under the current inputs *)
  m_clean : m_state -> list bv -> bool                       (* no undefined value anywhere under the current inputs *)
}.

Section GProduct.
Variable mode : cmode.
Variable A B : machine.

Record gpstate := mk_gp { g1 : m_state A; g2 : m_state B; gclean : bool }.

Definition gp_eqb (x y : gpstate) : bool :=
  m_eqb A (g1 x) (g1 y) && m_eqb B (g2 x) (g2 y) && Bool.eqb (gclean x) (gclean y).
Lemma gp_eqb_eq x y : gp_eqb x y = true <-> x = y.
Proof.
  destruct x as [a1 a2 ac], y as [b1 b2 bc]; unfold gp_eqb; simpl. split; intro H.
  - apply andb_prop in H as [H H3]. apply andb_prop in H as [H1 H2].
    apply (m_eqb_eq A) in H1. apply (m_eqb_eq B) in H2. apply Bool.eqb_prop in H3. congruence.
  - inversion H; subst. repeat (apply andb_true_intro; split);
      [apply (m_eqb_eq A); reflexivity | apply (m_eqb_eq B); reflexivity | apply Bool.eqb_reflx].
Qed.
Definition gp_mem (s : gpstate) (l : list gpstate) : bool := existsb (gp_eqb s) l.
Lemma gp_mem_In s l : gp_mem s l = true -> In s l.
Proof. unfold gp_mem. intro H. apply existsb_exists in H as [x [Hin He]]. apply gp_eqb_eq in He. subst. exact Hin. Qed.

Definition gobs (s : gpstate) (ins : list bv) : bool * bool :=
  let o1 := m_out A (g1 s) ins in
  let o2 := m_out B (g2 s) ins in
  let clean' := gclean s && ins_def ins && m_clean A (g1 s) ins in
  (match mode with
   | MStrict => bvl_eqb o1 o2
   | MRefine => bvl_compatb o1 o2 && (if clean' then bvl_eqb o1 o2 else true)
   | MCompat => bvl_compatb o1 o2
   end, clean').

Definition gnext (evs : list event) (s : gpstate) (ins : list bv) : gpstate :=
  mk_gp (m_events A evs ins (g1 s)) (m_events B evs ins (g2 s)) (snd (gobs s ins)).

Definition gcheck_set (ws : list nat) (evs_next : list event) (cur next : list gpstate) : bool :=
  forallb (fun s => forallb (fun ins => fst (gobs s ins) && gp_mem (gnext evs_next s ins) next) (all_ins ws)) cur.

Variable sc : schedule.
Variable ws : list nat.

Definition g_init : gpstate :=
  mk_gp (m_events A (sched_at sc 0) [] (m_init A)) (m_events B (sched_at sc 0) [] (m_init B)) true.

Definition glayer (layers : list (list gpstate)) (t : nat) : list gpstate :=
  nth (Nat.min t (length (sc_prefix sc))) layers [].

Definition gcheck_cert (layers : list (list gpstate)) : bool :=
  (length layers =? S (length (sc_prefix sc))) &&
  gp_mem g_init (glayer layers 0) &&
  forallb (fun t => gcheck_set ws (sched_at sc (S t)) (glayer layers t) (glayer layers (S t)))
          (seq 0 (S (length (sc_prefix sc)))).

(* ---- runs ---- *)
Variable sigma : nat -> list bv.

Fixpoint mstate_at (M : machine) (t : nat) : m_state M :=
  match t with
  | O => m_events M (sched_at sc 0) [] (m_init M)
  | S t' => m_events M (sched_at sc t) (sigma t') (mstate_at M t')
  end.
Definition mout_at (M : machine) (t : nat) : list bv := m_out M (mstate_at M t) (sigma t).

Fixpoint gclean_upto (t : nat) : bool :=
  (ins_def (sigma t) && m_clean A (mstate_at A t) (sigma t)) &&
  match t with O => true | S t' => gclean_upto t' end.

Definition gpstate_at (t : nat) : gpstate :=
  mk_gp (mstate_at A t) (mstate_at B t) (match t with O => true | S t' => gclean_upto t' end).

Lemma gnext_at t : gnext (sched_at sc (S t)) (gpstate_at t) (sigma t) = gpstate_at (S t).
Proof.
  unfold gnext, gpstate_at. simpl mstate_at. f_equal.
  unfold gobs; simpl. destruct t; simpl; [rewrite andb_true_r|]; rewrite ?andb_assoc; try reflexivity.
  rewrite (andb_comm (ins_def (sigma (S t)) && m_clean A (mstate_at A (S t)) (sigma (S t)))).
  rewrite andb_assoc. reflexivity.
Qed.

Hypothesis Hsig : forall t, ins_wf ws (sigma t).

Lemma glayer_step layers t :
  forallb (fun t => gcheck_set ws (sched_at sc (S t)) (glayer layers t) (glayer layers (S t)))
          (seq 0 (S (length (sc_prefix sc)))) = true ->
  gcheck_set ws (sched_at sc (S t)) (glayer layers t) (glayer layers (S t)) = true.
Proof.
  intro H. rewrite forallb_forall in H.
  set (m := length (sc_prefix sc)) in *.
  destruct (Nat.le_gt_cases t m) as [Hle|Hgt].
  - apply H. apply in_seq. lia.
  - assert (Hm := H m ltac:(apply in_seq; lia)).
    unfold glayer in *. fold m in Hm |- *.
    replace (Nat.min t m) with m by lia. replace (Nat.min (S t) m) with m by lia.
    replace (Nat.min m m) with m in Hm by lia. replace (Nat.min (S m) m) with m in Hm by lia.
    unfold sched_at in *. rewrite (nth_overflow (sc_prefix sc)) by (fold m; lia).
    rewrite (nth_overflow (sc_prefix sc)) in Hm by (fold m; lia). exact Hm.
Qed.

Theorem gcert_invariant layers :
  gcheck_cert layers = true -> forall t, In (gpstate_at t) (glayer layers t).
Proof.
  unfold gcheck_cert. intro H. apply andb_prop in H as [H Hsteps]. apply andb_prop in H as [_ Hinit].
  induction t as [|t IH].
  - apply gp_mem_In in Hinit. exact Hinit.
  - assert (Hc := glayer_step layers t Hsteps). unfold gcheck_set in Hc.
    rewrite forallb_forall in Hc. specialize (Hc _ IH). rewrite forallb_forall in Hc.
    specialize (Hc (sigma t) (all_ins_complete _ _ (Hsig t))).
    apply andb_prop in Hc as [_ Hm]. apply gp_mem_In in Hm. rewrite gnext_at in Hm. exact Hm.
Qed.

Lemma gcert_obs layers :
  gcheck_cert layers = true -> forall t, fst (gobs (gpstate_at t) (sigma t)) = true.
Proof.
  intros H t. assert (Hin := gcert_invariant layers H t).
  unfold gcheck_cert in H. apply andb_prop in H as [_ Hsteps].
  assert (Hc := glayer_step layers t Hsteps). unfold gcheck_set in Hc.
  rewrite forallb_forall in Hc. specialize (Hc _ Hin). rewrite forallb_forall in Hc.
  specialize (Hc (sigma t) (all_ins_complete _ _ (Hsig t))).
  apply andb_prop in Hc as [Ho _]. exact Ho.
Qed.

Lemma gclean_flag t :
  gclean_upto t = true ->
  (match t with O => true | S t' => gclean_upto t' end) && ins_def (sigma t) &&
  m_clean A (mstate_at A t) (sigma t) = true.
Proof.
  intro Hclean. destruct t; simpl in Hclean |- *.
  - rewrite andb_true_r in Hclean. exact Hclean.
  - apply andb_prop in Hclean as [Ha Hb]. rewrite Hb. simpl. exact Ha.
Qed.

Theorem gcert_sound layers :
  mode = MRefine -> gcheck_cert layers = true ->
  forall t, Forall2 bv_compat (mout_at A t) (mout_at B t) /\
            (gclean_upto t = true -> mout_at B t = mout_at A t).
Proof.
  intros Hm H t. assert (Ho := gcert_obs layers H t). unfold gobs in Ho. rewrite Hm in Ho. simpl in Ho.
  apply andb_prop in Ho as [Hcompat Heq]. split.
  - apply bvl_compatb_sound. exact Hcompat.
  - intro Hclean. unfold mout_at. rewrite (gclean_flag t Hclean) in Heq.
    symmetry. apply (list_eqb_eq _ bv_eqb_eq). exact Heq.
Qed.

Theorem gcert_sound_strict layers :
  mode = MStrict -> gcheck_cert layers = true -> forall t, mout_at B t = mout_at A t.
Proof.
  intros Hm H t. assert (Ho := gcert_obs layers H t). unfold gobs in Ho. rewrite Hm in Ho. simpl in Ho.
  symmetry. apply (list_eqb_eq _ bv_eqb_eq). exact Ho.
Qed.

Theorem gcert_sound_compat layers :
  mode = MCompat -> gcheck_cert layers = true -> forall t, Forall2 bv_compat (mout_at A t) (mout_at B t).
Proof.
  intros Hm H t. assert (Ho := gcert_obs layers H t). unfold gobs in Ho. rewrite Hm in Ho. simpl in Ho.
  apply bvl_compatb_sound. exact Ho.
Qed.

End GProduct.
