(* C13 — a checker that is run on the REAL exported .vhd files (definitions only).

   Structure (S2, proof-carrying):
     lex            : string -> list token          tokenizer (identifiers / reserved words /
                                                    literals / delimiters / comments)
     ident_ok       : legal basic identifier that is not a VHDL-2008 reserved word (any case)
     decl_sites     : INDEPENDENT, purely local (sliding window) reading of "which identifiers
                      does this token stream declare" — the specification of declaration sites
     scan           : a region-tracking scanner (chunk splitter + handlers).  It is NOT trusted:
                      it only has to emit an event log  EOpen / EReopen / EClose / EDecl
     events_ok      : small validator of that log (proved sound in VhdlLexProofs.v): every
                      declared name is ident_ok and differs, ignoring case, from every name
                      declared in the same declarative region (an inner region may hide an
                      outer name: legal VHDL; such hidings are counted, and a USE that resolves
                      to a hiding label is an error of the scanner's static part)
     check_design   : per file  decl_sites = names of the EDecl events (the scanner cannot drop
                      a declaration), all sites ident_ok, events_ok, scanner found no static
                      error (use of undeclared name, width mismatch in the simple forms,
                      variable read before written).
   The static checks of the scanner beyond identifiers (declared-before-use, widths,
   variable dataflow) are executable Gallina WITHOUT a soundness theorem. *)
Require Import String Ascii List NArith Bool Arith.
From Gatery Require Import Vhdl2008Reserved NamesDefs.
Import ListNotations.
Open Scope string_scope.

(* ------------------------------------------------------------------ tokens *)

(* reserved words the scanner dispatches on are constructors (pattern matching on string
   literals is very expensive to compile and extract); all others are Kother *)
Inductive kw :=
| Kentity
| Karchitecture
| Kpackage
| Kbody
| Kis
| Kof
| Kend
| Kport
| Kgeneric
| Kmap
| Kprocess
| Kblock
| Kbegin
| Kif
| Kthen
| Kelse
| Kelsif
| Kcase
| Kwhen
| Kothers
| Ksignal
| Kconstant
| Kvariable
| Kattribute
| Ksubtype
| Ktype
| Kcomponent
| Kfunction
| Klibrary
| Kuse
| Kin
| Kout
| Kinout
| Kbuffer
| Klinkage
| Kdownto
| Kall
| Kopen
| Kassert
| Kreport
| Kreturn
| Knull
| Kwait
| Kother (s : string).

Definition kw_table : list (string * kw) :=
  [("entity", Kentity);
   ("architecture", Karchitecture);
   ("package", Kpackage);
   ("body", Kbody);
   ("is", Kis);
   ("of", Kof);
   ("end", Kend);
   ("port", Kport);
   ("generic", Kgeneric);
   ("map", Kmap);
   ("process", Kprocess);
   ("block", Kblock);
   ("begin", Kbegin);
   ("if", Kif);
   ("then", Kthen);
   ("else", Kelse);
   ("elsif", Kelsif);
   ("case", Kcase);
   ("when", Kwhen);
   ("others", Kothers);
   ("signal", Ksignal);
   ("constant", Kconstant);
   ("variable", Kvariable);
   ("attribute", Kattribute);
   ("subtype", Ksubtype);
   ("type", Ktype);
   ("component", Kcomponent);
   ("function", Kfunction);
   ("library", Klibrary);
   ("use", Kuse);
   ("in", Kin);
   ("out", Kout);
   ("inout", Kinout);
   ("buffer", Kbuffer);
   ("linkage", Klinkage);
   ("downto", Kdownto);
   ("all", Kall);
   ("open", Kopen);
   ("assert", Kassert);
   ("report", Kreport);
   ("return", Kreturn);
   ("null", Knull);
   ("wait", Kwait)].

Definition kw_name (k : kw) : string :=
  match k with
  | Kentity => "entity"
  | Karchitecture => "architecture"
  | Kpackage => "package"
  | Kbody => "body"
  | Kis => "is"
  | Kof => "of"
  | Kend => "end"
  | Kport => "port"
  | Kgeneric => "generic"
  | Kmap => "map"
  | Kprocess => "process"
  | Kblock => "block"
  | Kbegin => "begin"
  | Kif => "if"
  | Kthen => "then"
  | Kelse => "else"
  | Kelsif => "elsif"
  | Kcase => "case"
  | Kwhen => "when"
  | Kothers => "others"
  | Ksignal => "signal"
  | Kconstant => "constant"
  | Kvariable => "variable"
  | Kattribute => "attribute"
  | Ksubtype => "subtype"
  | Ktype => "type"
  | Kcomponent => "component"
  | Kfunction => "function"
  | Klibrary => "library"
  | Kuse => "use"
  | Kin => "in"
  | Kout => "out"
  | Kinout => "inout"
  | Kbuffer => "buffer"
  | Klinkage => "linkage"
  | Kdownto => "downto"
  | Kall => "all"
  | Kopen => "open"
  | Kassert => "assert"
  | Kreport => "report"
  | Kreturn => "return"
  | Knull => "null"
  | Kwait => "wait"
  | Kother s => s
  end.

Fixpoint assoc_find {A} (x : string) (l : list (string * A)) : option A :=
  match l with
  | [] => None
  | (y, a) :: r => if String.eqb x y then Some a else assoc_find x r
  end.

Definition kw_of (lc : string) : kw :=
  match assoc_find lc kw_table with Some k => k | None => Kother lc end.

Inductive sym :=
| SLp
| SRp
| SSemi
| SColon
| SComma
| SDot
| STick
| SArrow
| SLe
| SAssign
| SMinus
| Sother (s : string).

Definition sym_table : list (string * sym) :=
  [("(", SLp);
   (")", SRp);
   (";", SSemi);
   (":", SColon);
   (",", SComma);
   (".", SDot);
   ("'", STick);
   ("=>", SArrow);
   ("<=", SLe);
   (":=", SAssign);
   ("-", SMinus)].

Definition sym_name (y : sym) : string :=
  match y with
  | SLp => "("
  | SRp => ")"
  | SSemi => ";"
  | SColon => ":"
  | SComma => ","
  | SDot => "."
  | STick => "'"
  | SArrow => "=>"
  | SLe => "<="
  | SAssign => ":="
  | SMinus => "-"
  | Sother s => s
  end.

Definition sym_of (s : string) : sym :=
  match assoc_find s sym_table with Some y => y | None => Sother s end.

Inductive token :=
| TId  (s : string)      (* identifier-shaped word that is not reserved *)
| TKw  (k : kw)          (* reserved word *)
| TNum (s : string)
| TStr (s : string)
| TChr (c : ascii)
| TSym (y : sym)
| TBad (c : ascii).

Fixpoint srev_app (s acc : string) : string :=
  match s with EmptyString => acc | String c r => srev_app r (String c acc) end.
Definition srev (s : string) : string := srev_app s EmptyString.

Inductive lmode :=
| MNone | MWord (acc : string) | MNum (acc : string) | MStr (acc : string)
| MComment | MTick0 | MTick1 (c : ascii) | MSym (c : ascii).

Definition ch (n : N) : ascii := ascii_of_N n.
Definition aeq (a b : ascii) : bool := Ascii.eqb a b.
Definition is_space (c : ascii) : bool :=
  let n := N_of_ascii c in N.eqb n 32 || N.eqb n 9 || N.eqb n 10 || N.eqb n 13.
Definition is_nl (c : ascii) : bool := N.eqb (N_of_ascii c) 10.
Definition is_symchar (c : ascii) : bool :=
  existsb (aeq c) (list_ascii_of_string "();:,.&+-*/=<>|").

Definition mk_word (racc : string) : token :=
  let s := srev racc in
  let l := lower s in
  if memb l vhdl2008_reserved then TKw (kw_of l) else TId s.

Definition s1 (c : ascii) : string := String c EmptyString.
Definition s2 (c d : ascii) : string := String c (String d EmptyString).

Definition compound (c d : ascii) : bool :=
  memb (s2 c d) ["<="; "=>"; ":="; ">="; "/="; "**"; "<>"].

(* what a character does when no token is in progress: tokens emitted, new mode, new
   "a following ' is an attribute tick" flag *)
Definition from_none (pt : bool) (c : ascii) : list token * lmode * bool :=
  if is_letter c then ([], MWord (s1 c), pt)
  else if is_digit c then ([], MNum (s1 c), pt)
  else if aeq c """"%char then ([], MStr EmptyString, pt)
  else if aeq c "'"%char then (if pt then ([TSym STick], MNone, false) else ([], MTick0, false))
  else if is_space c then ([], MNone, pt)
  else if is_symchar c then ([], MSym c, pt)
  else ([TBad c], MNone, false).

Definition flush (m : lmode) : list token :=
  match m with
  | MNone | MComment => []
  | MWord a => [mk_word a]
  | MNum a => [TNum (srev a)]
  | MStr _ => [TBad """"%char]
  | MTick0 | MTick1 _ => [TBad "'"%char]
  | MSym c => [TSym (sym_of (s1 c))]
  end.

Fixpoint lex_go (m : lmode) (pt : bool) (s : string) : list token :=
  match s with
  | EmptyString => flush m
  | String c r =>
      match m with
      | MNone => let '(t, m', pt') := from_none pt c in t ++ lex_go m' pt' r
      | MWord a =>
          if is_idchar c then lex_go (MWord (String c a)) pt r
          else let w := mk_word a in
               let '(t, m', pt') := from_none (match w with TId _ => true | _ => false end) c in
               w :: t ++ lex_go m' pt' r
      | MNum a =>
          if is_digit c || is_us c then lex_go (MNum (String c a)) pt r
          else let '(t, m', pt') := from_none false c in TNum (srev a) :: t ++ lex_go m' pt' r
      | MStr a =>
          if aeq c """"%char then TStr (srev a) :: lex_go MNone false r
          else lex_go (MStr (String c a)) pt r
      | MComment => if is_nl c then lex_go MNone false r else lex_go MComment pt r
      | MTick0 => lex_go (MTick1 c) pt r
      | MTick1 x =>
          if aeq c "'"%char then TChr x :: lex_go MNone false r
          else TBad "'"%char :: lex_go MNone false r
      | MSym x =>
          if aeq x "-"%char && aeq c "-"%char then lex_go MComment false r
          else if compound x c then TSym (sym_of (s2 x c)) :: lex_go MNone false r
          else let '(t, m', pt') := from_none (aeq x ")"%char) c in
               TSym (sym_of (s1 x)) :: t ++ lex_go m' pt' r
      end
  end.

Definition lex (s : string) : list token := lex_go MNone false s.

(* ------------------------------------------------------------------ identifiers *)

Definition ident_ok (s : string) : bool :=
  legal_basic_ident s && negb (memb (lower s) vhdl2008_reserved).

Definition is_kw (k : string) (t : token) : bool :=
  match t with TKw s => String.eqb (kw_name s) k | _ => false end.
Definition is_sym (k : string) (t : token) : bool :=
  match t with TSym s => String.eqb (sym_name s) k | _ => false end.
Definition kw_in (ks : list string) (t : token) : bool :=
  match t with TKw s => memb (kw_name s) ks | _ => false end.

Definition no_bad (toks : list token) : bool :=
  forallb (fun t => match t with TBad _ => false | _ => true end) toks.

Definition all_ids (toks : list token) : list string :=
  flat_map (fun t => match t with TId s => [s] | _ => [] end) toks.

(* ------------------------------------------------------------------ declaration sites
   The specification of "identifier declared here", by local patterns only:
     D1  at a statement start (previous token one of ; is begin ) process block, or file
         start):  signal|constant|variable|subtype|type|component  <id>
                  attribute <id> :
     D2  entity <id> is            package <id> (not after `end`, not `package body`)
     D3  <id> : in|out|inout|buffer|linkage                 (interface element with a mode)
     D4  <id> : process | <id> : block | <id> : entity | <id> : <id> port|generic   (labels)
   If a reserved word stands where the <id> is required the result is None. *)

Definition stmt_start (prev : option token) : bool :=
  match prev with
  | None => true
  | Some t => is_sym ";" t || is_sym ")" t || kw_in ["is"; "begin"; "process"; "block"] t
  end.

Definition decl_kws : list string := ["signal"; "constant"; "variable"; "subtype"; "type"; "component"].
Definition mode_kws : list string := ["in"; "out"; "inout"; "buffer"; "linkage"].

Fixpoint decl_sites (prev : option token) (toks : list token) : option (list string) :=
  match toks with
  | [] => Some []
  | t :: r =>
      let rest := decl_sites (Some t) r in
      let add (x : string) := option_map (cons x) rest in
      match t, r with
      (* D1 *)
      | TKw k, TId x :: TSym c :: _ =>
          if stmt_start prev && memb (kw_name k) decl_kws then add x
          else if stmt_start prev && String.eqb (kw_name k) "attribute" && String.eqb (sym_name c) ":" then add x
          else if String.eqb (kw_name k) "entity" then rest     (* entity work . x *)
          else if String.eqb (kw_name k) "package" && negb (match prev with Some p => is_kw "end" p | None => false end)
               then add x
          else rest
      | TKw k, TId x :: TKw k2 :: _ =>
          if stmt_start prev && memb (kw_name k) decl_kws then add x
          else if String.eqb (kw_name k) "entity" && String.eqb (kw_name k2) "is" then add x
          else if String.eqb (kw_name k) "package" && String.eqb (kw_name k2) "is"
                  && negb (match prev with Some p => is_kw "end" p | None => false end) then add x
          else rest
      | TKw k, TKw k2 :: _ =>
          if stmt_start prev && memb (kw_name k) decl_kws then None
          else if stmt_start prev && String.eqb (kw_name k) "attribute" then None
          else if String.eqb (kw_name k) "entity" && negb (memb (kw_name k2) ["is"]) && stmt_start prev then None
          else if String.eqb (kw_name k) "package" && negb (String.eqb (kw_name k2) "body")
                  && negb (match prev with Some p => is_kw "end" p | None => false end) then None
          else rest
      (* D3 / D4 *)
      | TId x, TSym c :: TKw k :: _ =>
          if String.eqb (sym_name c) ":" && (memb (kw_name k) mode_kws || memb (kw_name k) ["process"; "block"; "entity"]) then add x
          else rest
      | TId x, TSym c :: TId _ :: TKw k :: _ =>
          if String.eqb (sym_name c) ":" && memb (kw_name k) ["port"; "generic"] then add x else rest
      | TKw _, TSym c :: TKw k :: _ =>
          if String.eqb (sym_name c) ":" && (memb (kw_name k) mode_kws || memb (kw_name k) ["process"; "block"; "entity"])
             && negb (match prev with Some p => is_kw "of" p | None => false end)
          then None else rest
      | _, _ => rest
      end
  end.

(* ------------------------------------------------------------------ event log + validator *)

Inductive event :=
| EOpen                         (* a new, empty declarative region *)
| EReopen (names : list string) (* region continuing an earlier one (architecture of an entity) *)
| EClose
| EDecl (name : string).

(* stack of open regions, innermost first; names lower-cased *)
Fixpoint events_go (stack : list (list string)) (evs : list event) : bool :=
  match evs with
  | [] => true
  | EOpen :: r => events_go ([] :: stack) r
  | EReopen ns :: r => events_go (map lower ns :: stack) r
  | EClose :: r => match stack with [] => false | _ :: st => events_go st r end
  | EDecl n :: r =>
      match stack with
      | [] => false
      | top :: st =>
          ident_ok n && negb (memb (lower n) top) && events_go ((lower n :: top) :: st) r
      end
  end.

Definition events_ok (evs : list event) : bool := events_go [] evs.

(* specification side: the stack of open regions after a prefix of the log *)
Fixpoint open_after (stack : list (list string)) (evs : list event) : option (list (list string)) :=
  match evs with
  | [] => Some stack
  | EOpen :: r => open_after ([] :: stack) r
  | EReopen ns :: r => open_after (map lower ns :: stack) r
  | EClose :: r => match stack with [] => None | _ :: st => open_after st r end
  | EDecl n :: r =>
      match stack with [] => None | top :: st => open_after ((lower n :: top) :: st) r end
  end.

Definition event_decls (evs : list event) : list string :=
  flat_map (fun e => match e with EDecl n => [n] | _ => [] end) evs.

(* ------------------------------------------------------------------ the scanner *)

Inductive dclass := CPortIn | CPortOut | CPortInout | CSignal | CVariable | CConstant | CLabel | COther.
Inductive width := WBit | WVec (n : N) | WUnknown.
Record decl := mkDecl { d_name : string; d_class : dclass; d_width : width }.

Inductive fkind := FLib | FEntity | FArch | FProcess | FBlock | FPackage | FPackageBody
                 | FComponent | FIf | FCase.

Record frame := mkFrame {
  f_kind : fkind; f_name : string; f_decls : list decl; f_begun : bool;
  f_pre : list string;            (* FIf/FCase: definitely-assigned variables before the statement *)
  f_join : option (list string);  (* meet over the branches closed so far *)
  f_else : bool;                  (* an ELSE / WHEN OTHERS branch was seen *)
  f_first : bool                  (* FCase: no WHEN seen yet *)
}.

Record inst := mkInst { i_label : string; i_entity : string;
                        i_assoc : list (string * width) }.   (* formal name, width of the actual *)

(* ---- flow skeleton of a process body (for the verified must-assign analysis) -----------------
   Only accesses to process VARIABLES are recorded.  IF c1 THEN A ELSIF c2 THEN B ELSE C END IF is
   SBranch [([],A); (reads c2, B); ([],C)] true : the reads of c1 precede the SBranch, the guard of a
   later branch is evaluated on the way to every branch behind it.  CASE: one branch per WHEN,
   total iff WHEN OTHERS is present. *)
Inductive stmt :=
| SRead (x : string)
| SWrite (x : string)
| SBranch (b : branches) (total : bool)
with branches :=
| BNil
| BCons (guard : list string) (body : stmts) (r : branches)
with stmts :=
| TNil
| TCons (s : stmt) (r : stmts).

Fixpoint stmts_of (l : list stmt) : stmts :=
  match l with [] => TNil | x :: r => TCons x (stmts_of r) end.
Fixpoint branches_of (l : list (list string * list stmt)) : branches :=
  match l with [] => BNil | (g, b) :: r => BCons g (stmts_of b) (branches_of r) end.

(* must-assign analysis; a = variables definitely written so far; None = some read may be unwritten *)
Definition meet_opt (j : option (list string)) (a : list string) : option (list string) :=
  match j with None => Some a | Some b => Some (filter (fun x => memb x a) b) end.

Fixpoint must_s (a : list string) (s : stmt) : option (list string) :=
  match s with
  | SRead x => if memb x a then Some a else None
  | SWrite x => Some (x :: a)
  | SBranch b total =>
      match must_b a b with
      | None => None
      | Some j => if total then (match j with Some r => Some r | None => Some a end) else Some a
      end
  end
with must_b (a : list string) (b : branches) : option (option (list string)) :=
  match b with
  | BNil => Some None
  | BCons g body r =>
      if forallb (fun x => memb x a) g then
        match must_t a body with
        | None => None
        | Some a1 =>
            match must_b a r with
            | None => None
            | Some j => Some (meet_opt j a1)
            end
        end
      else None
  end
with must_t (a : list string) (t : stmts) : option (list string) :=
  match t with
  | TNil => Some a
  | TCons s r => match must_s a s with None => None | Some a1 => must_t a1 r end
  end.

(* specification side: the access traces of all control paths *)
Inductive act := ARead (x : string) | AWrite (x : string).

Fixpoint paths_s (s : stmt) : list (list act) :=
  match s with
  | SRead x => [[ARead x]]
  | SWrite x => [[AWrite x]]
  | SBranch b total => paths_b [] b total
  end
with paths_b (gpre : list string) (b : branches) (total : bool) : list (list act) :=
  match b with
  | BNil => if total then [] else [map ARead gpre]      (* no branch taken: only the guards were read *)
  | BCons g body r =>
      (map (fun p => (map ARead (gpre ++ g)%list ++ p)%list) (paths_t body) ++ paths_b (gpre ++ g)%list r total)%list
  end
with paths_t (t : stmts) : list (list act) :=
  match t with
  | TNil => [[]]
  | TCons s r => flat_map (fun p1 => map (fun p2 => (p1 ++ p2)%list) (paths_t r)) (paths_s s)
  end.

(* along a trace every read of a variable is preceded by a write of it *)
Fixpoint trace_ok (a : list string) (tr : list act) : bool :=
  match tr with
  | [] => true
  | ARead x :: r => memb x a && trace_ok a r
  | AWrite x :: r => trace_ok (x :: a) r
  end.

Record fframe := mkFF { ff_cur : list stmt; ff_brs : list (list string * list stmt); ff_guard : list string }.
Record flowst := mkFl { fl_stack : list fframe; fl_done : list (list string * stmts) }.

Record sstate := mkS {
  frames : list frame;
  assigned : list string;                 (* lower-cased variables definitely assigned *)
  entities : list (string * list decl);   (* lower-cased entity name -> ports *)
  exported : list string;                 (* lower-cased names declared in packages *)
  insts : list inst;
  events : list event;                    (* newest first *)
  n_uses : N; n_assign : N; n_widthchk : N; n_varreads : N; hides : list string;
  fl : flowst
}.

Inductive res (A : Type) := Ok (a : A) | Err (code : string) (ctx : list token).
Arguments Ok {A} a. Arguments Err {A} code ctx.
Definition bind {A B} (r : res A) (f : A -> res B) : res B :=
  match r with Ok a => f a | Err c x => Err c x end.
Notation "'do' x <- r ; f" := (bind r (fun x => f)) (at level 200, x name, r at level 100, f at level 200).

Definition predefined : list string :=
  ["std_logic"; "std_ulogic"; "std_logic_vector"; "std_ulogic_vector"; "unsigned"; "signed"; "bit";
   "bit_vector"; "boolean"; "integer"; "natural"; "positive"; "real"; "string"; "true"; "false";
   "resize"; "to_integer"; "to_unsigned"; "to_signed"; "rising_edge"; "falling_edge"; "shift_left";
   "shift_right"; "rotate_left"; "rotate_right"; "to_bit"; "to_bitvector"; "to_stdlogicvector";
   "to_stdulogicvector"; "to_stdulogic"; "to_x01"; "is_x"; "now"; "ieee"; "work"; "std";
   "std_logic_1164"; "numeric_std"; "error"; "warning"; "note"; "failure"; "textio"; "time"; "ns"; "ps"].

Definition conv_names : list string :=
  ["std_logic_vector"; "std_ulogic_vector"; "unsigned"; "signed"; "bit_vector"; "to_stdlogicvector";
   "to_bitvector"; "portmap_to_stdlogicvector"; "portmap_to_unsigned"; "std_logic"; "std_ulogic";
   "portmap_to_stdlogic"; "portmap_to_stdulogic"; "portmap_to_bit"].

Definition new_frame (k : fkind) (n : string) (ds : list decl) : frame :=
  mkFrame k n ds false [] None false true.

Definition upd_frames (st : sstate) (fs : list frame) : sstate :=
  mkS fs (assigned st) (entities st) (exported st) (insts st) (events st)
      (n_uses st) (n_assign st) (n_widthchk st) (n_varreads st) (hides st) (fl st).
Definition upd_assigned (st : sstate) (a : list string) : sstate :=
  mkS (frames st) a (entities st) (exported st) (insts st) (events st)
      (n_uses st) (n_assign st) (n_widthchk st) (n_varreads st) (hides st) (fl st).
Definition add_event (st : sstate) (e : event) : sstate :=
  mkS (frames st) (assigned st) (entities st) (exported st) (insts st) (e :: events st)
      (n_uses st) (n_assign st) (n_widthchk st) (n_varreads st) (hides st) (fl st).


Definition upd_fl (st : sstate) (f : flowst) : sstate :=
  mkS (frames st) (assigned st) (entities st) (exported st) (insts st) (events st)
      (n_uses st) (n_assign st) (n_widthchk st) (n_varreads st) (hides st) f.

Definition flow_push (st : sstate) : sstate :=
  upd_fl st (mkFl (mkFF [] [] [] :: fl_stack (fl st)) (fl_done (fl st))).
Definition flow_add (st : sstate) (l : list stmt) : sstate :=   (* l in program order *)
  match fl_stack (fl st) with
  | f :: r => upd_fl st (mkFl (mkFF (rev l ++ ff_cur f)%list (ff_brs f) (ff_guard f) :: r) (fl_done (fl st)))
  | [] => st
  end.
(* close the current branch, open the next one with the given guard reads *)
Definition flow_next (st : sstate) (guard : list string) : sstate :=
  match fl_stack (fl st) with
  | f :: r => upd_fl st (mkFl (mkFF [] ((ff_guard f, rev (ff_cur f)) :: ff_brs f) guard :: r) (fl_done (fl st)))
  | [] => st
  end.
Definition flow_end (st : sstate) (total : bool) : sstate :=
  match fl_stack (fl st) with
  | f :: p :: r =>
      let brs := rev ((ff_guard f, rev (ff_cur f)) :: ff_brs f) in
      upd_fl st (mkFl (mkFF (SBranch (branches_of brs) total :: ff_cur p) (ff_brs p) (ff_guard p) :: r)
                      (fl_done (fl st)))
  | _ => st
  end.
Definition flow_finish (st : sstate) (vars : list string) : sstate :=
  match fl_stack (fl st) with
  | f :: r => upd_fl st (mkFl r ((vars, stmts_of (rev (ff_cur f))) :: fl_done (fl st)))
  | [] => st
  end.

Fixpoint find_decl (lc : string) (ds : list decl) : option decl :=
  match ds with
  | [] => None
  | d :: r => if String.eqb (lower (d_name d)) lc then Some d else find_decl lc r
  end.
Fixpoint find_frames (lc : string) (fs : list frame) : option decl :=
  match fs with
  | [] => None
  | f :: r => match find_decl lc (f_decls f) with Some d => Some d | None => find_frames lc r end
  end.

Definition known (st : sstate) (x : string) : bool :=
  let lc := lower x in
  match find_frames lc (frames st) with
  | Some _ => true
  | None => memb lc (exported st) || memb lc predefined
  end.

Definition push (st : sstate) (f : frame) : sstate :=
  add_event (upd_frames st (f :: frames st)) EOpen.
Definition push_reopen (st : sstate) (f : frame) : sstate :=
  add_event (upd_frames st (f :: frames st)) (EReopen (map d_name (f_decls f))).

Definition declare (st : sstate) (d : decl) (ctx : list token) : res sstate :=
  match frames st with
  | [] => Err "declaration outside any region" ctx
  | f :: fs =>
      let lc := lower (d_name d) in
      if negb (ident_ok (d_name d)) then Err "declared identifier is illegal or reserved" ctx
      else match find_decl lc (f_decls f) with
      | Some _ => Err "identifier declared twice (ignoring case) in one declarative region" ctx
      | None =>
          let f' := mkFrame (f_kind f) (f_name f) (d :: f_decls f) (f_begun f) (f_pre f) (f_join f)
                            (f_else f) (f_first f) in
          let st1 := add_event (upd_frames st (f' :: fs)) (EDecl (d_name d)) in
          let hide := memb lc (exported st) || memb lc predefined in
          let shadow := match find_frames lc fs with Some _ => true | None => false end in
          let h1 := if hide then ("predefined:" ++ d_name d) :: hides st1 else hides st1 in
          let h2 := if shadow then ("outer:" ++ d_name d) :: h1 else h1 in
          let st2 := mkS (frames st1) (assigned st1) (entities st1)
                         (match f_kind f with FPackage => lc :: exported st1 | _ => exported st1 end)
                         (insts st1) (events st1) (n_uses st1) (n_assign st1) (n_widthchk st1)
                         (n_varreads st1) h2 (fl st1) in
          Ok st2
      end
  end.

(* --- token list helpers ---------------------------------------------- *)

(* split at TSym sep on parenthesis depth 0 *)
Fixpoint split_top (sep : string) (depth : nat) (cur : list token) (toks : list token)
  : list (list token) :=
  match toks with
  | [] => [rev cur]
  | t :: r =>
      if is_sym "(" t then split_top sep (S depth) (t :: cur) r
      else if is_sym ")" t then split_top sep (pred depth) (t :: cur) r
      else if Nat.eqb depth 0 && is_sym sep t then rev cur :: split_top sep 0 [] r
      else split_top sep depth (t :: cur) r
  end.

(* tokens before / after the first TSym sep at depth 0 *)
Fixpoint break_top (sep : string) (depth : nat) (cur : list token) (toks : list token)
  : option (list token * list token) :=
  match toks with
  | [] => None
  | t :: r =>
      if is_sym "(" t then break_top sep (S depth) (t :: cur) r
      else if is_sym ")" t then break_top sep (pred depth) (t :: cur) r
      else if Nat.eqb depth 0 && is_sym sep t then Some (rev cur, r)
      else break_top sep depth (t :: cur) r
  end.

(* "( ... )" at the head: contents and remainder *)
Fixpoint take_group (depth : nat) (cur : list token) (toks : list token)
  : option (list token * list token) :=
  match toks with
  | [] => None
  | t :: r =>
      if is_sym "(" t then take_group (S depth) (t :: cur) r
      else if is_sym ")" t then
        match depth with
        | 1 => Some (rev cur, r)
        | _ => take_group (pred depth) (t :: cur) r
        end
      else take_group depth (t :: cur) r
  end.
Definition paren_group (toks : list token) : option (list token * list token) :=
  match toks with
  | t :: r => if is_sym "(" t then take_group 1 [] r else None
  | [] => None
  end.

Fixpoint num_go (s : string) (acc : N) : option N :=
  match s with
  | EmptyString => Some acc
  | String c r =>
      if is_digit c then num_go r (acc * 10 + (N_of_ascii c - 48))
      else if is_us c then num_go r acc else None
  end.
Definition num_of (s : string) : option N := num_go s 0.

Definition bit_types : list string := ["std_logic"; "std_ulogic"; "bit"; "boolean"].
Definition vec_types : list string :=
  ["std_logic_vector"; "std_ulogic_vector"; "unsigned"; "signed"; "bit_vector"].

Definition parse_type (toks : list token) : width :=
  match toks with
  | [TId t] => if memb (lower t) bit_types then WBit else WUnknown
  | TId t :: TSym SLp :: TNum n :: TKw Kdownto :: TNum z :: TSym SRp :: [] =>
      if memb (lower t) vec_types then
        match num_of n, num_of z with
        | Some a, Some 0%N => WVec (a + 1)
        | _, _ => WUnknown
        end
      else WUnknown
  | TId t :: TSym SLp :: TSym SMinus :: TNum n :: TKw Kdownto :: TNum z :: TSym SRp :: [] =>
      if memb (lower t) vec_types then
        match num_of n, num_of z with
        | Some 1%N, Some 0%N => WVec 0
        | _, _ => WUnknown
        end
      else WUnknown
  | _ => WUnknown
  end.

Definition width_compat (a b : width) : bool :=
  match a, b with
  | WBit, WBit => true
  | WVec n, WVec m => N.eqb n m
  | WUnknown, _ | _, WUnknown => true
  | _, _ => false
  end.

(* identifiers used in an expression: every TId that is not a selected-name suffix (after .)
   or an attribute name (after ') *)
Fixpoint used_ids (prev : option token) (toks : list token) : list string :=
  match toks with
  | [] => []
  | t :: r =>
      match t with
      | TId x =>
          if match prev with Some p => is_sym "." p || is_sym "'" p | None => false end
          then used_ids (Some t) r else x :: used_ids (Some t) r
      | _ => used_ids (Some t) r
      end
  end.

Definition is_variable (st : sstate) (x : string) : bool :=
  match find_frames (lower x) (frames st) with
  | Some d => match d_class d with CVariable => true | _ => false end
  | None => false
  end.

Definition bump_uses (st : sstate) (n v : N) : sstate :=
  mkS (frames st) (assigned st) (entities st) (exported st) (insts st) (events st)
      (n_uses st + n) (n_assign st) (n_widthchk st) (n_varreads st + v) (hides st) (fl st).

(* all identifiers known; variables among them already assigned *)
Definition check_reads_core (st : sstate) (toks : list token) (ctx : list token) : res sstate :=
  let ids := used_ids None toks in
  match find (fun x => negb (known st x)) ids with
  | Some _ => Err "use of an identifier that is not declared (declared-before-use)" ctx
  | None =>
      if existsb (fun x => match find_frames (lower x) (frames st) with
                           | Some d => match d_class d with CLabel => true | _ => false end
                           | None => false end) ids
      then Err "object name resolves to a label that hides it" ctx else
      let vars := filter (is_variable st) ids in
      match find (fun x => negb (memb (lower x) (assigned st))) vars with
      | Some _ => Err "process variable read before it is written" ctx
      | None => Ok (bump_uses st (N.of_nat (length ids)) (N.of_nat (length vars)))
      end
  end.

Definition var_reads (st : sstate) (toks : list token) : list string :=
  map lower (filter (is_variable st) (used_ids None toks)).

Definition check_reads (st : sstate) (toks : list token) (ctx : list token) : res sstate :=
  do st1 <- check_reads_core st toks ctx;
  Ok (flow_add st1 (map SRead (var_reads st toks))).

Definition width_of (st : sstate) (x : string) : width :=
  match find_frames (lower x) (frames st) with Some d => d_width d | None => WUnknown end.

(* width of an expression of one of the simple forms  name | conv(name) ; else unknown *)
Definition simple_width (st : sstate) (toks : list token) : width :=
  match toks with
  | [TId m] => width_of st m
  | [TId f; TSym SLp; TId m; TSym SRp] =>
      if memb (lower f) conv_names then width_of st m else WUnknown
  | [TStr s] => WVec (N.of_nat (String.length s))
  | [TChr _] => WBit
  | _ => WUnknown
  end.

(* --- interface lists --------------------------------------------------- *)

Definition parse_port (toks : list token) : option decl :=
  match toks with
  | TId n :: TSym SColon :: TKw m :: ty =>
      let c := if String.eqb (kw_name m) "in" then Some CPortIn
               else if String.eqb (kw_name m) "out" then Some CPortOut
               else if memb (kw_name m) ["inout"; "buffer"; "linkage"] then Some CPortInout else None in
      match c with Some c => Some (mkDecl n c (parse_type ty)) | None => None end
  | _ => None
  end.

Fixpoint declare_all (st : sstate) (items : list (list token)) (ctx : list token) : res sstate :=
  match items with
  | [] => Ok st
  | it :: r =>
      match parse_port it with
      | None => Err "interface element is not  <identifier> : <mode> <type>" it
      | Some d => do st1 <- declare st d it; declare_all st1 r ctx
      end
  end.

(* PORT ( ... ) chunk *)
Definition handle_ports (st : sstate) (chunk : list token) : res sstate :=
  match chunk with
  | TKw Kport :: rest =>
      match paren_group rest with
      | Some (inner, []) => declare_all st (split_top ";" 0 [] inner) chunk
      | _ => Err "malformed PORT clause" chunk
      end
  | _ => Err "PORT clause expected" chunk
  end.

(* --- statements --------------------------------------------------------- *)

Definition meet (a b : list string) : list string := filter (fun x => memb x b) a.
Definition join_with (j : option (list string)) (cur : list string) : list string :=
  match j with None => cur | Some a => meet a cur end.

Definition bump_assign (st : sstate) (w : bool) : sstate :=
  mkS (frames st) (assigned st) (entities st) (exported st) (insts st) (events st)
      (n_uses st) (n_assign st + 1) (if w then n_widthchk st + 1 else n_widthchk st)
      (n_varreads st) (hides st) (fl st).

(* target <= expr   |   target := expr   (target = name or name(index...)) *)
Definition handle_assign (st : sstate) (chunk : list token) : res sstate :=
  match chunk with
  | TId n :: rest =>
      let '(idx, rest1) := match paren_group rest with
                           | Some (g, r) => (g, r)
                           | None => ([], rest)
                           end in
      match rest1 with
      | TSym op :: expr =>
          if negb (String.eqb (sym_name op) "<=" || String.eqb (sym_name op) ":=") then Err "statement not understood" chunk
          else match find_frames (lower n) (frames st) with
          | None => Err "assignment target is not declared (declared-before-use)" chunk
          | Some d =>
              let isvar := match d_class d with CVariable => true | _ => false end in
              let okcls := match d_class d with
                           | CVariable => String.eqb (sym_name op) ":="
                           | CSignal | CPortOut | CPortInout => String.eqb (sym_name op) "<="
                           | _ => false
                           end in
              if negb okcls then Err "assignment operator does not fit the class of the target" chunk
              else
                do st1 <- check_reads st (idx ++ expr) chunk;
                let wt := match idx with [] => d_width d | _ => WUnknown end in
                let we := simple_width st1 expr in
                if negb (width_compat wt we) then Err "assignment connects objects of different width" chunk
                else
                  let chk := match wt, we with WUnknown, _ | _, WUnknown => false | _, _ => true end in
                  let st2 := bump_assign st1 chk in
                  Ok (if isvar && match idx with [] => true | _ => false end
                      then flow_add (upd_assigned st2 (lower n :: assigned st2)) [SWrite (lower n)] else st2)
          end
      | _ => Err "statement not understood" chunk
      end
  | _ => Err "statement not understood" chunk
  end.

Definition handle_simple_stmt (st : sstate) (chunk : list token) : res sstate :=
  match chunk with
  | [] => Ok st
  | TKw k :: rest =>
      if memb (kw_name k) ["assert"; "report"; "return"; "null"; "wait"] then check_reads st rest chunk
      else Err "statement not understood" chunk
  | _ => handle_assign st chunk
  end.

Definition top_frame (st : sstate) : option frame :=
  match frames st with f :: _ => Some f | [] => None end.

Definition set_top (st : sstate) (f : frame) : sstate :=
  match frames st with _ :: r => upd_frames st (f :: r) | [] => st end.

(* close the current branch of the innermost IF/CASE: join := meet join assigned; assigned := pre *)
Definition next_branch (st : sstate) (is_else : bool) (ctx : list token) : res sstate :=
  match top_frame st with
  | Some f =>
      match f_kind f with
      | FIf | FCase =>
          let j := if f_first f then f_join f else Some (join_with (f_join f) (assigned st)) in
          let f' := mkFrame (f_kind f) (f_name f) (f_decls f) (f_begun f) (f_pre f) j
                            (f_else f || is_else) false in
          let st' := upd_assigned (set_top st f') (f_pre f) in
          Ok (match f_kind f, f_first f with FCase, true => st' | _, _ => flow_next st' [] end)
      | _ => Err "ELSE/ELSIF/WHEN outside IF/CASE" ctx
      end
  | None => Err "ELSE/ELSIF/WHEN outside IF/CASE" ctx
  end.

Definition pop (st : sstate) : sstate :=
  match frames st with _ :: r => add_event (upd_frames st r) EClose | [] => st end.
(* IF/CASE frames are not declarative regions: no events *)
Definition pop_quiet (st : sstate) : sstate :=
  match frames st with _ :: r => upd_frames st r | [] => st end.

Definition end_branching (st : sstate) (k : fkind) (ctx : list token) : res sstate :=
  match top_frame st with
  | Some f =>
      if match f_kind f, k with FIf, FIf | FCase, FCase => true | _, _ => false end then
        let j := join_with (f_join f) (assigned st) in
        let a := if f_else f then j else f_pre f in
        Ok (flow_end (upd_assigned (pop_quiet st) a) (f_else f))
      else Err "END IF / END CASE does not match" ctx
  | None => Err "END IF / END CASE does not match" ctx
  end.

Definition push_quiet (st : sstate) (f : frame) : sstate := upd_frames st (f :: frames st).

(* --- instantiations ------------------------------------------------------ *)

(* one association  formal => actual ; formal may be  conv(formal) *)
Definition parse_assoc (st : sstate) (toks : list token) : res (string * width * list token) :=
  match break_top "=>" 0 [] toks with
  | Some (formal, actual) =>
      let fname := match formal with
                   | [TId f] => Some f
                   | [TId c; TSym SLp; TId f; TSym SRp] => Some f
                   | _ => None
                   end in
      match fname with
      | Some f => Ok (f, (match actual with [TKw Kopen] => WUnknown | _ => simple_width st actual end), actual)
      | None => Err "port map formal not understood" toks
      end
  | None => Err "positional port association" toks
  end.

Fixpoint assoc_all (st : sstate) (items : list (list token)) (acc : list (string * width))
  : res (sstate * list (string * width)) :=
  match items with
  | [] => Ok (st, rev acc)
  | it :: r =>
      do p <- parse_assoc st it;
      let '(f, w, actual) := p in
      do st1 <- (match actual with [TKw Kopen] => Ok st | _ => check_reads st actual it end);
      assoc_all st1 r ((f, w) :: acc)
  end.

Definition add_inst (st : sstate) (i : inst) : sstate :=
  mkS (frames st) (assigned st) (entities st) (exported st) (i :: insts st) (events st)
      (n_uses st) (n_assign st) (n_widthchk st) (n_varreads st) (hides st) (fl st).

Fixpoint find_entity (lc : string) (es : list (string * list decl)) : option (list decl) :=
  match es with
  | [] => None
  | (n, ds) :: r => if String.eqb n lc then Some ds else find_entity lc r
  end.

(* label : [entity work .] name [generic map (...)] port map (...) *)
Definition handle_inst (st : sstate) (label : string) (rest : list token) (chunk : list token)
  : res sstate :=
  let '(ename, rest1) :=
    match rest with
    | TKw Kentity :: TId _ :: TSym SDot :: TId e :: r => (Some e, r)
    | TId e :: r => (Some e, r)
    | _ => (None, rest)
    end in
  match ename with
  | None => Err "instantiation not understood" chunk
  | Some e =>
      (* analysis order: a direct instantiation `entity work.X` needs X to be analysed before the
         instantiating architecture, i.e. declared earlier in this file or in a file that precedes it
         in the compile order the files are handed over in (project script order) *)
      if match rest with TKw Kentity :: _ => true | _ => false end
         && match find_entity (lower e) (entities st) with None => true | Some _ => false end
      then Err "entity instantiated before it is analysed (design-unit order)" chunk else
      do st1 <- declare st (mkDecl label CLabel WUnknown) chunk;
      let rest2 := match rest1 with
                   | TKw Kgeneric :: TKw Kmap :: r =>
                       match paren_group r with Some (_, r') => r' | None => r end
                   | _ => rest1
                   end in
      match rest2 with
      | TKw Kport :: TKw Kmap :: r =>
          match paren_group r with
          | Some (inner, []) =>
              do p <- assoc_all st1 (split_top "," 0 [] inner) [];
              let '(st2, assoc) := p in
              Ok (add_inst st2 (mkInst label (lower e) assoc))
          | _ => Err "malformed PORT MAP" chunk
          end
      | [] => Ok (add_inst st1 (mkInst label (lower e) []))
      | _ => Err "instantiation not understood" chunk
      end
  end.

(* --- declarations --------------------------------------------------------- *)

Definition handle_decl (st : sstate) (chunk : list token) : res sstate :=
  match chunk with
  | [] => Ok st
  | TKw k :: TId n :: TSym SColon :: rest =>
      if memb (kw_name k) ["signal"; "constant"; "variable"] then
        let '(ty, init) := match break_top ":=" 0 [] rest with
                           | Some (a, b) => (a, b)
                           | None => (rest, [])
                           end in
        do st1 <- check_reads st (ty ++ init) chunk;
        let c := if String.eqb (kw_name k) "signal" then CSignal
                 else if String.eqb (kw_name k) "variable" then CVariable else CConstant in
        let wt := parse_type ty in
        let wi := simple_width st1 init in
        if negb (match init with [] => true | _ => width_compat wt wi end)
        then Err "initial value has a different width" chunk
        else declare st1 (mkDecl n c wt) chunk
      else if String.eqb (kw_name k) "attribute" then
        do st1 <- check_reads st rest chunk; declare st1 (mkDecl n COther WUnknown) chunk
      else Err "declaration not understood" chunk
  | TKw Kattribute :: TId a :: TKw Kof :: TId x :: TSym SColon :: _ :: TKw Kis :: v =>
      do st1 <- check_reads st [TId a; TId x] chunk; check_reads st1 v chunk
  | TKw k :: TId n :: TKw Kis :: rest =>
      if memb (kw_name k) ["subtype"; "type"] then
        do st1 <- check_reads st rest chunk; declare st1 (mkDecl n COther WUnknown) chunk
      else Err "declaration not understood" chunk
  | TKw Kcomponent :: TId n :: rest =>
      do st1 <- declare st (mkDecl n COther WUnknown) chunk;
      let st2 := push st1 (new_frame FComponent n []) in
      (match rest with
       | [] => Ok st2
       | TKw Kis :: [] => Ok st2
       | _ => handle_ports st2 (match rest with TKw Kis :: r => r | _ => rest end)
       end)
  | TKw Kfunction :: TId f :: _ =>      (* package declarations of the fixed helper functions *)
      if negb (ident_ok f) then Err "declared identifier is illegal or reserved" chunk
      else Ok (mkS (frames st) (assigned st) (entities st) (lower f :: exported st) (insts st) (events st)
                   (n_uses st) (n_assign st) (n_widthchk st) (n_varreads st) (hides st) (fl st))
  | _ => Err "declaration not understood" chunk
  end.

(* label : PROCESS [(sens)]  <first declaration, if any> *)
Definition handle_process (st : sstate) (label : option string) (rest : list token)
  (chunk : list token) : res sstate :=
  do st1 <- (match label with
             | Some l => declare st (mkDecl l CLabel WUnknown) chunk
             | None => Ok st
             end);
  let '(sens, rest1) := match paren_group rest with
                        | Some (g, r) => (g, r)
                        | None => ([], rest)
                        end in
  let sens' := match sens with [TKw Kall] => [] | _ => sens end in
  do st2 <- check_reads st1 sens' chunk;
  let st3 := flow_push (upd_assigned (push st2 (new_frame FProcess (match label with Some l => l | None => "" end) [])) []) in
  handle_decl st3 rest1.

Definition set_begun (st : sstate) : sstate :=
  match top_frame st with
  | Some f => set_top st (mkFrame (f_kind f) (f_name f) (f_decls f) true (f_pre f) (f_join f)
                                   (f_else f) (f_first f))
  | None => st
  end.

Definition add_entity (st : sstate) (n : string) (ds : list decl) : sstate :=
  mkS (frames st) (assigned st) ((lower n, ds) :: entities st) (exported st) (insts st) (events st)
      (n_uses st) (n_assign st) (n_widthchk st) (n_varreads st) (hides st) (fl st).

Definition handle_end (st : sstate) (rest : list token) (chunk : list token) : res sstate :=
  match rest with
  | [TKw Kif] => end_branching st FIf chunk
  | [TKw Kcase] => end_branching st FCase chunk
  | _ =>
      match top_frame st with
      | None => Err "END without open region" chunk
      | Some f =>
          let ok := match f_kind f, rest with
                    | FProcess, [TKw Kprocess] => true
                    | FProcess, [TKw Kprocess; TId _] => true
                    | FBlock, [TKw Kblock] => true
                    | FBlock, [TKw Kblock; TId _] => true
                    | FComponent, [TKw Kcomponent] => true
                    | FComponent, [TKw Kcomponent; TId _] => true
                    | FEntity, [TId n] => String.eqb (lower n) (lower (f_name f))
                    | FEntity, [] => true
                    | FArch, [TId n] => String.eqb (lower n) (lower (f_name f))
                    | FArch, [] => true
                    | FPackage, [TKw Kpackage; TId n] => String.eqb (lower n) (lower (f_name f))
                    | FPackage, [TId n] => String.eqb (lower n) (lower (f_name f))
                    | FPackageBody, [TKw Kpackage; TKw Kbody; TId n] => String.eqb (lower n) (lower (f_name f))
                    | _, _ => false
                    end in
          if negb ok then Err "END does not match the open region" chunk
          else
            let st1 := match f_kind f with
                       | FEntity => add_entity st (f_name f) (f_decls f)
                       | _ => st
                       end in
            let st2 := pop st1 in
            Ok (match f_kind f with
                | FProcess =>
                    flow_finish (upd_assigned st2 [])
                      (map (fun d => lower (d_name d))
                           (filter (fun d => match d_class d with CVariable => true | _ => false end) (f_decls f)))
                | _ => st2
                end)
      end
  end.

Definition in_statements (st : sstate) : bool :=
  match top_frame st with
  | Some f => match f_kind f with
              | FIf | FCase => true
              | FArch | FProcess | FBlock => f_begun f
              | _ => false
              end
  | None => false
  end.

Definition in_process (st : sstate) : bool :=
  existsb (fun f => match f_kind f with FProcess => true | _ => false end) (frames st).

(* one chunk (tokens up to, not including, the terminator `term`) *)
Definition handle (st : sstate) (chunk : list token) (term : token) : res sstate :=
  match top_frame st with
  | None => Err "no open region" chunk
  | Some f =>
    match f_kind f with
    | FPackageBody =>
        (* bodies of the fixed helper functions are skipped *)
        match chunk with
        | TKw Kend :: TKw Kpackage :: rest => handle_end st (TKw Kpackage :: rest) chunk
        | _ => Ok st
        end
    | _ =>
    if is_kw "begin" term then
      match chunk with
      | [] => Ok (set_begun st)
      | TId l :: TSym SColon :: TKw Kprocess :: rest =>
          do st1 <- handle_process st (Some l) rest chunk; Ok (set_begun st1)
      | TKw Kprocess :: rest =>
          do st1 <- handle_process st None rest chunk; Ok (set_begun st1)
      | TId l :: TSym SColon :: TKw Kblock :: rest =>
          do st1 <- declare st (mkDecl l CLabel WUnknown) chunk;
          do st2 <- handle_decl (push st1 (new_frame FBlock l [])) rest; Ok (set_begun st2)
      | _ => Err "unexpected tokens before BEGIN" chunk
      end
    else if is_kw "then" term then
      match chunk with
      | TKw Kif :: cond =>
          if negb (in_statements st) then Err "IF outside statement part" chunk else
          do st1 <- check_reads st cond chunk;
          Ok (flow_push (push_quiet st1 (mkFrame FIf "" [] true (assigned st1) None false true)))
      | TKw Kelsif :: cond =>
          do st1 <- next_branch st false chunk;
          do st2 <- check_reads_core st1 cond chunk;
          Ok (match fl_stack (fl st2) with
              | f :: r => upd_fl st2 (mkFl (mkFF (ff_cur f) (ff_brs f) (var_reads st2 cond) :: r) (fl_done (fl st2)))
              | [] => st2
              end)
      | _ => Err "unexpected tokens before THEN" chunk
      end
    else if is_kw "else" term then
      match chunk with
      | [] => next_branch st true chunk
      | _ => Err "unexpected tokens before ELSE" chunk
      end
    else if is_kw "is" term then
      match chunk with
      | [TKw Kentity; TId n] =>
          do st1 <- declare st (mkDecl n COther WUnknown) chunk; Ok (push st1 (new_frame FEntity n []))
      | [TKw Karchitecture; TId a; TKw Kof; TId e] =>
          if negb (ident_ok a) then Err "declared identifier is illegal or reserved" chunk else
          match find_entity (lower e) (entities st) with
          | Some ports => Ok (push_reopen st (new_frame FArch a ports))
          | None => Err "architecture of an entity that was not seen before" chunk
          end
      | [TKw Kpackage; TId n] =>
          do st1 <- declare st (mkDecl n COther WUnknown) chunk; Ok (push st1 (new_frame FPackage n []))
      | [TKw Kpackage; TKw Kbody; TId n] => Ok (push st (new_frame FPackageBody n []))
      | TKw Kcase :: e =>
          if negb (in_statements st) then Err "CASE outside statement part" chunk else
          do st1 <- check_reads st e chunk;
          Ok (flow_push (push_quiet st1 (mkFrame FCase "" [] true (assigned st1) None false true)))
      | _ => Err "unexpected tokens before IS" chunk
      end
    else (* terminator ; *)
      match chunk with
      | [] => Ok st
      | TKw Klibrary :: _ => Ok st
      | TKw Kuse :: _ => Ok st
      | TKw Kend :: rest => handle_end st rest chunk
      | TKw Kport :: _ =>
          match f_kind f with
          | FEntity | FComponent => handle_ports st chunk
          | _ => Err "PORT clause outside entity/component" chunk
          end
      | TKw Kwhen :: rest =>
          match break_top "=>" 0 [] rest with
          | Some (choice, stmt) =>
              do st1 <- next_branch st (match choice with [TKw Kothers] => true | _ => false end) chunk;
              do st2 <- check_reads st1 (match choice with [TKw Kothers] => [] | _ => choice end) chunk;
              handle_simple_stmt st2 stmt
          | None => Err "WHEN without =>" chunk
          end
      | TId l :: TSym SColon :: TKw Kprocess :: rest => handle_process st (Some l) rest chunk
      | TKw Kprocess :: rest => handle_process st None rest chunk
      | TId l :: TSym SColon :: TKw Kblock :: rest =>
          do st1 <- declare st (mkDecl l CLabel WUnknown) chunk;
          handle_decl (push st1 (new_frame FBlock l [])) rest
      | TId l :: TSym SColon :: rest =>
          if in_statements st && negb (in_process st) then handle_inst st l rest chunk
          else Err "label not understood" chunk
      | _ =>
          if in_statements st then handle_simple_stmt st chunk
          else handle_decl st chunk
      end
    end
  end.

Definition is_terminator (head : option token) (t : token) : bool :=
  is_sym ";" t || kw_in ["begin"; "then"; "else"] t
  || (is_kw "is" t && match head with
                      | Some h => kw_in ["entity"; "architecture"; "package"; "case"] h
                      | None => false
                      end).

Fixpoint scan (st : sstate) (head : option token) (cur : list token) (depth : nat)
  (toks : list token) : res sstate :=
  match toks with
  | [] => match cur with [] => Ok st | _ => Err "file ends inside a statement" (rev cur) end
  | t :: r =>
      if is_sym "(" t then scan st (match head with None => Some t | h => h end) (t :: cur) (S depth) r
      else if is_sym ")" t then scan st head (t :: cur) (pred depth) r
      else if Nat.eqb depth 0 && is_terminator head t then
        match handle st (rev cur) t with
        | Err c x => Err c x
        | Ok st' => scan st' None [] 0 r
        end
      else scan st (match head with None => Some t | h => h end) (t :: cur) depth r
  end.

(* ------------------------------------------------------------------ whole designs *)

Definition init_sstate : sstate :=
  mkS [new_frame FLib "" []] [] [] [] [] [EOpen] 0 0 0 0 [] (mkFl [] []).

Definition has_package (toks : list token) : bool := existsb (is_kw "package") toks.

Fixpoint list_eqb (a b : list string) : bool :=
  match a, b with
  | [], [] => true
  | x :: r, y :: q => String.eqb x y && list_eqb r q
  | _, _ => false
  end.

(* events newly produced by one file = the prefix of the (newest-first) log *)
Definition new_events (before after : list event) : list event :=
  rev (firstn (length after - length before) after).

Definition check_file_tokens (st : sstate) (toks : list token) : res sstate :=
  if negb (no_bad toks) then Err "illegal character / unterminated literal" []
  else if negb (forallb legal_basic_ident (all_ids toks))
  then Err "identifier token is not a legal basic identifier"
           (map TId (filter (fun x => negb (legal_basic_ident x)) (all_ids toks)))
  else match decl_sites None toks with
  | None => Err "reserved word at a declaration site" []
  | Some sites =>
      if negb (forallb ident_ok sites) then Err "declared identifier is illegal or reserved" (map TId sites)
      else
        do st1 <- scan st None [] 0 toks;
        match frames st1 with
        | [f] =>
            let evs := new_events (events st) (events st1) in
            if list_eqb (event_decls evs) sites then Ok st1
            else Err "declaration sites and scanner log differ"
                     (map TId sites ++ [TSym (Sother "|")] ++ map TId (event_decls evs))
        | _ => Err "file ends with an open region" []
        end
  end.

Fixpoint check_files (st : sstate) (files : list (list token)) : res sstate :=
  match files with
  | [] => Ok st
  | f :: r => do st1 <- check_file_tokens st f; check_files st1 r
  end.

(* deferred: port maps against the entity tables collected from all files *)
Fixpoint check_assoc (ports : list decl) (assoc : list (string * width)) : bool :=
  match assoc with
  | [] => true
  | (f, w) :: r =>
      match find_decl (lower f) ports with
      | Some d => width_compat (d_width d) w && check_assoc ports r
      | None => false
      end
  end.

Definition check_insts (st : sstate) : res (N * N) :=   (* (checked, unknown entity) *)
  fold_left (fun acc i =>
    do p <- acc;
    let '(a, b) := p in
    match find_entity (i_entity i) (entities st) with
    | None => Ok (a, (b + 1)%N)
    | Some ports =>
        if check_assoc ports (i_assoc i) then Ok ((a + 1)%N, b)
        else Err "port association: unknown formal or different width" [TId (i_label i); TId (i_entity i)]
    end) (insts st) (Ok (0%N, 0%N)).

Record summary := mkSummary {
  sm_decls : N; sm_regions : N; sm_uses : N; sm_assign : N; sm_widthchk : N; sm_varreads : N;
  sm_insts : N; sm_insts_unknown : N; sm_hides : list string;
  sm_flows : list (list string * stmts)
}.

Definition order_files (files : list (list token)) : list (list token) :=
  let '(pk, others) := partition has_package files in pk ++ others.

Definition sites_of (toks : list token) : list string :=
  match decl_sites None toks with Some l => l | None => [] end.

Definition sites_ok (files : list (list token)) : bool :=
  forallb (fun f => match decl_sites None f with Some l => forallb ident_ok l | None => false end) files.

Definition flows_ok (fs : list (list string * stmts)) : bool :=
  forallb (fun vp => match must_t [] (snd vp) with Some _ => true | None => false end) fs.

Definition check_design_tokens (files : list (list token)) : res summary :=
  do st <- check_files init_sstate (order_files files);
  let evs := rev (events st) in
  if negb (sites_ok files) then Err "declared identifier is illegal or reserved" []
  else if negb (events_ok evs) then Err "event log rejected (duplicate / illegal identifier in a region)" []
  else if negb (list_eqb (event_decls evs) (flat_map sites_of (order_files files)))
  then Err "declaration sites and scanner log differ" []
  else if negb (flows_ok (fl_done (fl st)))
  then Err "process variable read before it is written (flow skeleton rejected)" []
  else
    do p <- check_insts st;
    let '(a, b) := p in
    Ok (mkSummary (N.of_nat (length (event_decls evs)))
                  (N.of_nat (length (filter (fun e => match e with EOpen | EReopen _ => true | _ => false end) evs)))
                  (n_uses st) (n_assign st) (n_widthchk st) (n_varreads st) a b (hides st) (fl_done (fl st))).

Definition check_design (files : list string) : res summary :=
  check_design_tokens (map lex files).

Definition check_ok (files : list string) : bool :=
  match check_design files with Ok _ => true | Err _ _ => false end.
