(* Verified certificate checker for "circuit B shows the same pin behaviour as circuit A"
   (DESIGN.md section 10: product-reachability validation, used by C01/C06/C07/C11).

   The untrusted side (OCaml BFS) proposes, per cycle of the schedule prefix and for the
   steady phase, a finite set of PRODUCT states (state of A, state of B, "A's run has been
   free of undefined values so far").  [check_cert] verifies that the sets contain the
   power-on pair and are closed under every input vector of the pins' widths, and that in
   every member state and under every input the observation condition of property C01
   holds.  [cert_sound] lifts that, by induction over cycles, to ALL stimulus sequences
   of ALL lengths.  *)
From Coq Require Import List Bool Arith Lia.
From Gatery Require Import Bits NodeSemDefs NodeSemReg NetDefs.
Import ListNotations.

(* ---------- decidable equality on states ---------- *)
Fixpoint bv_eqb (x y : bv) : bool :=
  match x, y with
  | [], [] => true
  | a :: x', b :: y' => tbit_eqb a b && bv_eqb x' y'
  | _, _ => false
  end.
Lemma bv_eqb_eq x y : bv_eqb x y = true <-> x = y.
Proof.
  revert y; induction x as [|a x IH]; intros [|b y]; simpl; split; intro H; try discriminate; auto.
  - apply andb_prop in H as [H1 H2]. apply tbit_eqb_eq in H1. apply IH in H2. congruence.
  - inversion H; subst. apply andb_true_intro. split; [apply tbit_eqb_eq; auto|apply IH; auto].
Qed.

Fixpoint list_eqb {A} (eqb : A -> A -> bool) (x y : list A) : bool :=
  match x, y with
  | [], [] => true
  | a :: x', b :: y' => eqb a b && list_eqb eqb x' y'
  | _, _ => false
  end.
Lemma list_eqb_eq {A} (eqb : A -> A -> bool) :
  (forall a b, eqb a b = true <-> a = b) -> forall x y, list_eqb eqb x y = true <-> x = y.
Proof.
  intros He x. induction x as [|a x IH]; intros [|b y]; simpl; split; intro H; try discriminate; auto.
  - apply andb_prop in H as [H1 H2]. apply He in H1. apply IH in H2. congruence.
  - inversion H; subst. apply andb_true_intro. split; [apply He; auto|apply IH; auto].
Qed.

Definition rstate_eqb (a b : rstate) : bool := bv_eqb (r_out a) (r_out b) && Bool.eqb (r_in_reset a) (r_in_reset b).
Lemma rstate_eqb_eq a b : rstate_eqb a b = true <-> a = b.
Proof.
  destruct a as [o1 r1], b as [o2 r2]; unfold rstate_eqb; simpl. split; intro H.
  - apply andb_prop in H as [H1 H2]. apply bv_eqb_eq in H1. apply Bool.eqb_prop in H2. congruence.
  - inversion H; subst. apply andb_true_intro. split; [apply bv_eqb_eq; auto|apply Bool.eqb_reflx].
Qed.

Record pstate := mk_pstate { p1 : state; p2 : state; pclean : bool }.
Definition pstate_eqb (a b : pstate) : bool :=
  list_eqb rstate_eqb (p1 a) (p1 b) && list_eqb rstate_eqb (p2 a) (p2 b) && Bool.eqb (pclean a) (pclean b).
Lemma pstate_eqb_eq a b : pstate_eqb a b = true <-> a = b.
Proof.
  destruct a as [a1 a2 ac], b as [b1 b2 bc]; unfold pstate_eqb; simpl. split; intro H.
  - apply andb_prop in H as [H H3]. apply andb_prop in H as [H1 H2].
    apply (list_eqb_eq _ rstate_eqb_eq) in H1. apply (list_eqb_eq _ rstate_eqb_eq) in H2.
    apply Bool.eqb_prop in H3. congruence.
  - inversion H; subst. repeat (apply andb_true_intro; split);
      try (apply (list_eqb_eq _ rstate_eqb_eq); reflexivity). apply Bool.eqb_reflx.
Qed.

Definition pmem (s : pstate) (l : list pstate) : bool := existsb (pstate_eqb s) l.
Lemma pmem_In s l : pmem s l = true -> In s l.
Proof.
  unfold pmem. intro H. apply existsb_exists in H as [x [Hin He]]. apply pstate_eqb_eq in He. subst. exact Hin.
Qed.

(* ---------- enumeration of all 4-state input vectors of given widths ---------- *)
Fixpoint all_bv (w : nat) : list bv :=
  match w with
  | O => [[]]
  | S w' => flat_map (fun r => [B0 :: r; B1 :: r; BX :: r]) (all_bv w')
  end.
Lemma all_bv_complete : forall w x, length x = w -> In x (all_bv w).
Proof.
  induction w as [|w IH]; intros x Hl.
  - destruct x; [left; reflexivity|discriminate].
  - destruct x as [|b x]; [discriminate|]. simpl in Hl. simpl. apply in_flat_map.
    exists x. split; [apply IH; lia|]. destruct b; simpl; auto.
Qed.

Fixpoint all_ins (ws : list nat) : list (list bv) :=
  match ws with
  | [] => [[]]
  | w :: r => flat_map (fun x => map (cons x) (all_ins r)) (all_bv w)
  end.
Definition ins_wf (ws : list nat) (ins : list bv) : Prop := map (@length tbit) ins = ws.
Lemma all_ins_complete : forall ws ins, ins_wf ws ins -> In ins (all_ins ws).
Proof.
  unfold ins_wf. induction ws as [|w ws IH]; intros ins H.
  - destruct ins; [left; reflexivity|discriminate].
  - destruct ins as [|x ins]; [discriminate|]. simpl in H. inversion H; subst. simpl.
    apply in_flat_map. exists x. split; [apply all_bv_complete; reflexivity|].
    apply in_map. apply IH. reflexivity.
Qed.

(* ---------- observation condition and product step ---------- *)
Definition bvl_compatb (a b : list bv) : bool :=
  list_eqb (fun x y => (length x =? length y) && forallb (fun p => compatb (fst p) (snd p)) (combine x y)) a b.
Definition bvl_eqb (a b : list bv) : bool := list_eqb bv_eqb a b.

(* what is demanded of the two pin valuations:
   MStrict : identical (including which bits are undefined)           -- decoration twins as constructed (C11)
   MRefine : property C01: compatible, and identical while A's run has been free of undefined values
   MCompat : never contradict                                           -- two refinements of one design (C11) *)
Inductive cmode := MStrict | MRefine | MCompat.

Section Product.
Variable mode : cmode.
Variable nl1 nl2 : netlist.

Definition obs (s : pstate) (ins : list bv) : bool * bool :=
  let v1 := comb_eval nl1 (p1 s) ins in
  let v2 := comb_eval nl2 (p2 s) ins in
  let o1 := outputs nl1 v1 in
  let o2 := outputs nl2 v2 in
  let clean' := pclean s && ins_def ins && vals_def v1 in
  (match mode with
   | MStrict => bvl_eqb o1 o2
   | MRefine => bvl_compatb o1 o2 && (if clean' then bvl_eqb o1 o2 else true)
   | MCompat => bvl_compatb o1 o2
   end, clean').

Definition pnext (evs : list event) (s : pstate) (ins : list bv) : pstate :=
  mk_pstate (apply_events nl1 ins (p1 s) evs) (apply_events nl2 ins (p2 s) evs) (snd (obs s ins)).

Definition check_set (ws : list nat) (evs_next : list event) (cur next : list pstate) : bool :=
  forallb (fun s => forallb (fun ins => fst (obs s ins) && pmem (pnext evs_next s ins) next) (all_ins ws)) cur.

Variable sc : schedule.
Variable ws : list nat.

Definition p_init : pstate :=
  mk_pstate (apply_events nl1 [] (power_on nl1) (sched_at sc 0))
            (apply_events nl2 [] (power_on nl2) (sched_at sc 0)) true.

Definition layer (layers : list (list pstate)) (t : nat) : list pstate :=
  nth (Nat.min t (length (sc_prefix sc))) layers [].

(* layers has length (prefix length + 1); layer m is the steady set *)
Definition check_cert (layers : list (list pstate)) : bool :=
  (length layers =? S (length (sc_prefix sc))) &&
  pmem p_init (layer layers 0) &&
  forallb (fun t => check_set ws (sched_at sc (S t)) (layer layers t) (layer layers (S t)))
          (seq 0 (S (length (sc_prefix sc)))).

(* ---------- the run of the product ---------- *)
Variable sigma : nat -> list bv.

Fixpoint clean_upto (t : nat) : bool :=
  (ins_def (sigma t) && vals_def (vals_at nl1 sc sigma t)) &&
  match t with O => true | S t' => clean_upto t' end.

Definition pstate_at (t : nat) : pstate :=
  mk_pstate (state_at nl1 sc sigma t) (state_at nl2 sc sigma t)
            (match t with O => true | S t' => clean_upto t' end).

Lemma pnext_at t :
  pnext (sched_at sc (S t)) (pstate_at t) (sigma t) = pstate_at (S t).
Proof.
  unfold pnext, pstate_at. simpl state_at. f_equal.
  unfold obs; simpl. unfold vals_at. destruct t; simpl; [rewrite andb_true_r|]; rewrite ?andb_assoc;
    try reflexivity.
  rewrite (andb_comm (ins_def (sigma (S t)) && vals_def (comb_eval nl1 (state_at nl1 sc sigma (S t)) (sigma (S t))))).
  rewrite andb_assoc. reflexivity.
Qed.

Hypothesis Hsig : forall t, ins_wf ws (sigma t).

Lemma layer_step layers t :
  forallb (fun t => check_set ws (sched_at sc (S t)) (layer layers t) (layer layers (S t)))
          (seq 0 (S (length (sc_prefix sc)))) = true ->
  check_set ws (sched_at sc (S t)) (layer layers t) (layer layers (S t)) = true.
Proof.
  intro H. rewrite forallb_forall in H.
  set (m := length (sc_prefix sc)) in *.
  destruct (Nat.le_gt_cases t m) as [Hle|Hgt].
  - apply H. apply in_seq. lia.
  - (* beyond the prefix: same layers, same (steady) events as at t = m *)
    assert (Hm := H m ltac:(apply in_seq; lia)).
    unfold layer in *. fold m in Hm |- *.
    replace (Nat.min t m) with m by lia. replace (Nat.min (S t) m) with m by lia.
    replace (Nat.min m m) with m in Hm by lia. replace (Nat.min (S m) m) with m in Hm by lia.
    unfold sched_at in *. rewrite (nth_overflow (sc_prefix sc)) by (fold m; lia).
    rewrite (nth_overflow (sc_prefix sc)) in Hm by (fold m; lia). exact Hm.
Qed.

Theorem cert_invariant layers :
  check_cert layers = true -> forall t, In (pstate_at t) (layer layers t).
Proof.
  unfold check_cert. intro H. apply andb_prop in H as [H Hsteps]. apply andb_prop in H as [_ Hinit].
  induction t as [|t IH].
  - apply pmem_In in Hinit. exact Hinit.
  - assert (Hc := layer_step layers t Hsteps). unfold check_set in Hc.
    rewrite forallb_forall in Hc. specialize (Hc _ IH). rewrite forallb_forall in Hc.
    specialize (Hc (sigma t) (all_ins_complete _ _ (Hsig t))).
    apply andb_prop in Hc as [_ Hm]. apply pmem_In in Hm. rewrite pnext_at in Hm. exact Hm.
Qed.

Lemma bvl_compatb_sound a b : bvl_compatb a b = true -> Forall2 bv_compat a b.
Proof.
  revert b; induction a as [|x a IH]; intros [|y b]; simpl; intro H; try discriminate; constructor.
  - apply andb_prop in H as [H _]. apply andb_prop in H as [Hl Hc]. apply Nat.eqb_eq in Hl.
    clear - Hl Hc. revert y Hl Hc. induction x as [|p x IH]; intros [|q y] Hl Hc; simpl in *; try discriminate; constructor.
    + apply andb_prop in Hc as [Hc _]. apply compatb_spec in Hc. exact Hc.
    + apply IH; [lia|]. apply andb_prop in Hc as [_ Hc]. exact Hc.
  - apply IH. apply andb_prop in H as [_ H]. exact H.
Qed.

Lemma cert_obs layers :
  check_cert layers = true -> forall t, fst (obs (pstate_at t) (sigma t)) = true.
Proof.
  intros H t. assert (Hin := cert_invariant layers H t).
  unfold check_cert in H. apply andb_prop in H as [_ Hsteps].
  assert (Hc := layer_step layers t Hsteps). unfold check_set in Hc.
  rewrite forallb_forall in Hc. specialize (Hc _ Hin). rewrite forallb_forall in Hc.
  specialize (Hc (sigma t) (all_ins_complete _ _ (Hsig t))).
  apply andb_prop in Hc as [Ho _]. exact Ho.
Qed.

Lemma clean_flag t :
  clean_upto t = true ->
  (match t with O => true | S t' => clean_upto t' end) && ins_def (sigma t) &&
  vals_def (comb_eval nl1 (state_at nl1 sc sigma t) (sigma t)) = true.
Proof.
  intro Hclean. destruct t; simpl in Hclean |- *.
  - rewrite andb_true_r in Hclean. exact Hclean.
  - apply andb_prop in Hclean as [Ha Hb]. rewrite Hb. simpl. exact Ha.
Qed.

Theorem cert_sound layers :
  mode = MRefine -> check_cert layers = true ->
  forall t, Forall2 bv_compat (out_at nl1 sc sigma t) (out_at nl2 sc sigma t) /\
            (clean_upto t = true -> out_at nl2 sc sigma t = out_at nl1 sc sigma t).
Proof.
  intros Hm H t. assert (Ho := cert_obs layers H t). unfold obs in Ho. rewrite Hm in Ho. simpl in Ho.
  apply andb_prop in Ho as [Hcompat Heq]. split.
  - apply bvl_compatb_sound. exact Hcompat.
  - intro Hclean. unfold out_at, vals_at. rewrite (clean_flag t Hclean) in Heq.
    symmetry. apply (list_eqb_eq _ bv_eqb_eq). exact Heq.
Qed.

Theorem cert_sound_strict layers :
  mode = MStrict -> check_cert layers = true ->
  forall t, out_at nl2 sc sigma t = out_at nl1 sc sigma t.
Proof.
  intros Hm H t. assert (Ho := cert_obs layers H t). unfold obs in Ho. rewrite Hm in Ho. simpl in Ho.
  symmetry. apply (list_eqb_eq _ bv_eqb_eq). exact Ho.
Qed.

Theorem cert_sound_compat layers :
  mode = MCompat -> check_cert layers = true ->
  forall t, Forall2 bv_compat (out_at nl1 sc sigma t) (out_at nl2 sc sigma t).
Proof.
  intros Hm H t. assert (Ho := cert_obs layers H t). unfold obs in Ho. rewrite Hm in Ho. simpl in Ho.
  apply bvl_compatb_sound. exact Ho.
Qed.

End Product.
