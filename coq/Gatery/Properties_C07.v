(* C07 -- Memories behave as arrays with program-order port semantics at any latency.
   Model: MemDefs.v (transcription of Node_MemPort.cpp:168-339, tied to the real simulator by
   checks/C07.py on every run).  Proofs: MemProofsArray.v MemProofsCompat.v MemProofsLat.v
   MemProofsPost.v.

   Quantifiers: any number / order / role of ports, any depth (power of two or not) and any
   width >= 1 (Node_MemPort itself divides by the width), any number of cycles, any data words
   (4-state, arbitrary bits), any initial contents (4-state).
   NOT proved here (differential runs of checks/C07.py only): that MemoryDetector.cpp /
   RegisterRetiming.cpp / the device patterns actually emit the networks modelled below
   (rbw mux chain, pairwise write-order resolution, register-mode bypass), the ring-buffer
   variant of the bypass (latency compensation > 2), reset-time initialisation logic. *)
From Coq Require Import Permutation.
From Gatery Require Import Bits MemDefs MemProofsArray MemProofsCompat MemProofsLat MemProofsPost.
Import ListNotations.
Open Scope N_scope.

(* ------------------------------------------------------------------ examples (hypotheses are satisfiable) *)

Definition ex_c : mem_cfg := MkCfg 3 3 UB_Undefined false.
Definition w3 (n : N) : bv := bv_of_N 3 n.
(* depth 5 (not a power of two): words 1,2,3,4,5 *)
Definition ex_m : memory := [w3 1; w3 2; w3 3; w3 4; w3 5].
(* declaration order: read a, write b, read c, write d, read e *)
Definition ex_ps : list port := [MkPort true false; MkPort false true; MkPort true false; MkPort false true; MkPort true false].
Definition rdp (a : N) := MkApin a true true [].
Definition wrp (a : N) (en : bool) (d : N) := MkApin a true en (w3 d).
Definition ex_pin (pt : port) (i : aport_in) : port_in :=
  MkPin (Some (bv_of_N 3 (ai_addr i))) None (if p_write pt then Some (of_bool (ai_wen i)) else None) (Some (ai_wdata i)).
(* cycle 1: read 2, write 2:=7, read 2, write 2:=6, read 2;   cycle 2: read 2, disabled write 2:=0, read 4, write 4:=1, read 4 *)
Definition ex_cycles : list (list aport_in) :=
  [[rdp 2; wrp 2 true 7; rdp 2; wrp 2 true 6; rdp 2];
   [rdp 2; wrp 2 false 0; rdp 4; wrp 4 true 1; rdp 4]].
Definition ex_pcycles := map (fun ins => map (fun '(pt, i) => ex_pin pt i) (combine ex_ps ins)) ex_cycles.

Example ex_hyps : Forall2 (cycle_ok ex_c 5 ex_ps) ex_cycles ex_pcycles.
Proof.
  repeat (apply Forall2_cons || apply Forall2_nil); unfold cycle_ok;
    (split; [reflexivity | split]);
    [ repeat (apply Forall_cons || apply Forall_nil); unfold ain_ok; simpl; lia
    | repeat (apply Forall2_cons || apply Forall2_nil); unfold pin_rel, en_rel; simpl; repeat split; auto
    | repeat (apply Forall_cons || apply Forall_nil); unfold ain_ok; simpl; lia
    | repeat (apply Forall2_cons || apply Forall2_nil); unfold pin_rel, en_rel; simpl; repeat split; auto ].
Qed.
(* read after write sees new data, later write wins, disabled write does not write, next cycle reads the committed word *)
Example ex_run :
  fst (run ex_c ex_ps ex_m ex_pcycles) =
    [[Some (w3 3); None; Some (w3 7); None; Some (w3 6)];
     [Some (w3 6); None; Some (w3 5); None; Some (w3 1)]] /\
  snd (run ex_c ex_ps ex_m ex_pcycles) = [w3 1; w3 2; w3 6; w3 4; w3 1].
Proof. vm_compute. split; reflexivity. Qed.

(* For any number/order of ports, any depth/width, any sequence of cycles with defined in-range
   addresses and defined enables: every asynchronous read returns exactly what the sequential array
   program returns (a read declared after a write to the same address sees the new data, a later
   write wins, disabled writes do not write), the depth never changes and the final contents equal
   the array's (so words other than the addressed ones are unchanged). *)
Theorem memports_refine_array : forall c ps cycles pcycles m f,
  c_noconf c = false -> (0 < c_width c)%nat ->
  Forall2 (cycle_ok c (N.of_nat (length m)) ps) cycles pcycles ->
  (forall a, a < N.of_nat (length m) -> f a = arr_of (c_width c) m a) ->
  let '(outs, m') := run c ps m pcycles in
  let '(souts, f') := spec_run (c_width c) ps f cycles in
  outs = souts /\ length m' = length m /\
  (forall a, a < N.of_nat (length m) -> f' a = arr_of (c_width c) m' a).
Proof. exact memports_refine_array_proof. Qed.
Print Assumptions memports_refine_array.

(* depth 5, 3 address bits: addresses 5..7 are out of range *)
Example ex_oor_read :
  mem_read ex_c ex_m [] (MkPin (Some (bv_of_N 3 7)) None None None) = all_X 3 /\
  mem_commit ex_c ex_m (MkLatch (bv_of_N 3 7) (w3 0) true) = ex_m.
Proof. vm_compute. split; reflexivity. Qed.

(* Out-of-range read: never returns stored data -- the result is the forwarding fold over an
   undefined word (independent of the memory contents), and it is entirely undefined unless an
   earlier write port of the same cycle is writing to the very same out-of-range address. *)
Theorem mem_out_of_range_read : forall c m prev pin addr,
  (0 < c_width c)%nat -> pi_addr pin = Some addr -> all_def addr = true ->
  N.of_nat (length m) <= addr_val addr ->
  mem_read c m prev pin = (if en_sure (pi_en pin)
                           then fold_left (fwd_one (c_width c) addr) (rev prev) (all_X (c_width c))
                           else all_X (c_width c)) /\
  (Forall (fun l => l_wr l = false \/ (all_def (l_addr l) = true /\ can_collide (l_addr l) addr = false)) prev ->
   mem_read c m prev pin = all_X (c_width c)).
Proof. exact read_out_of_range_proof. Qed.
Print Assumptions mem_out_of_range_read.

(* Out-of-range write: dropped, no word changes (finding F3, repaired by commit 2be7ea7). *)
Theorem mem_out_of_range_write : forall c m l,
  (0 < c_width c)%nat -> all_def (l_addr l) = true ->
  N.of_nat (length m) <= addr_val (l_addr l) -> mem_commit c m l = m.
Proof. exact write_out_of_range_proof. Qed.
Print Assumptions mem_out_of_range_write.

(* In-range enabled write: exactly the addressed word is replaced, every other word is unchanged. *)
Theorem mem_write_touches_one_word : forall c m l,
  (0 < c_width c)%nat -> all_def (l_addr l) = true -> l_wr l = true ->
  addr_val (l_addr l) < N.of_nat (length m) ->
  let m' := mem_commit c m l in
  length m' = length m /\
  word_at (c_width c) m' (addr_val (l_addr l)) = l_data l /\
  forall a, a <> addr_val (l_addr l) -> word_at (c_width c) m' a = word_at (c_width c) m a.
Proof. exact write_in_range_proof. Qed.
Print Assumptions mem_write_touches_one_word.

(* A write port whose enable or write-enable is a defined 0 leaves the memory untouched. *)
Theorem mem_write_disabled : forall c m pin,
  pi_en pin = Some B0 \/ pi_wren pin = Some B0 ->
  mem_commit c m (mem_latch_write c pin) = m.
Proof. exact write_disabled_proof. Qed.
Print Assumptions mem_write_disabled.

(* two runs that differ only in undefined bits: address 01X vs 010, enable X vs 1 *)
Example ex_compat_hyps :
  Forall2 pin_compat [MkPin (Some [BX; B1; B0]) None (Some BX) (Some (w3 5))]
                     [MkPin (Some [B0; B1; B0]) None (Some B1) (Some (w3 5))].
Proof.
  apply Forall2_cons; [|apply Forall2_nil]. unfold pin_compat; simpl. repeat split; auto.
  - repeat (apply Forall2_cons || apply Forall2_nil); unfold compat; auto.
  - unfold compat; auto.
  - apply bv_compat_refl.
Qed.

(* C08 for memories: undefined address / enable / data bits (and undefined memory bits) can only
   make read data and the stored words undefined, never wrong: runs on pointwise compatible inputs
   and contents produce pointwise compatible read data in every cycle and compatible final contents.
   (Take the second run fully defined: every defined bit the first run reports is the true bit.) *)
Theorem mem_compat : forall c ps cycles cycles' m m',
  mem_wf (c_width c) m -> mem_wf (c_width c) m' -> Forall2 bv_compat m m' ->
  Forall (Forall (pin_wf c)) cycles -> Forall (Forall (pin_wf c)) cycles' ->
  Forall2 (Forall2 pin_compat) cycles cycles' ->
  Forall2 (Forall2 ocompat_bv) (fst (run c ps m cycles)) (fst (run c ps m' cycles')) /\
  Forall2 bv_compat (snd (run c ps m cycles)) (snd (run c ps m' cycles')).
Proof. exact run_compat_proof. Qed.
Print Assumptions mem_compat.

(* the same for a single asynchronous read with its forwarding list *)
Theorem mem_read_compat : forall c m m' prev prev' pin pin',
  mem_wf (c_width c) m -> mem_wf (c_width c) m' -> Forall2 bv_compat m m' ->
  Forall2 (latch_rel (c_width c)) prev prev' -> pin_compat pin pin' ->
  bv_compat (mem_read c m prev pin) (mem_read c m' prev' pin').
Proof. exact mem_read_compat_proof. Qed.
Print Assumptions mem_read_compat.

Example ex_latency : pipe_run [w3 0; w3 0] [w3 1; w3 2; w3 3; w3 4] = [w3 0; w3 0; w3 1; w3 2].
Proof. reflexivity. Qed.

(* Read latency L = L registers behind the asynchronous read (un-postprocessed circuit): the data
   of the asynchronous read of cycle t appears at the output in cycle t + L, exactly. *)
Theorem latency_L : forall c ps m cycles (L k t : nat) (p : pipe) (d : bv),
  length p = L -> (t + L < length cycles)%nat ->
  let async := col k (fst (run c ps m cycles)) (c_width c) in
  nth (t + L) (pipe_run p async) d = nth t async d.
Proof. exact latency_L_proof. Qed.
Print Assumptions latency_L.

(* ... and not earlier: during the first L cycles the initial register contents come out. *)
Theorem latency_L_not_earlier : forall (L : nat) (p : pipe) (xs : list bv) (t : nat) (d : bv),
  length p = L -> (t < L)%nat -> (t < length xs)%nat ->
  nth t (pipe_run p xs) d = nth (L - 1 - t) p d.
Proof. exact pipe_initial_proof. Qed.
Print Assumptions latency_L_not_earlier.

(* one write port, K = 2, contents 7 everywhere: write 1 to address 1 in cycle 0, read address 1 in cycles 0,1,2 *)
Definition ex_lw : stream (list wr) := fun t => match t with O => [MkWr 1 true (w3 1)] | _ => [] end.
Example ex_bypass :
  let out := bypass_out 2 (fun _ => 0) (fun _ => None) (fun _ => w3 0) (fun _ => w3 7) (fun _ => 1) (delay_writes 2 ex_lw) in
  (out 2%nat, out 3%nat, out 4%nat) = (w3 7, w3 1, w3 1).
Proof. vm_compute. reflexivity. Qed.

(* Hazard bypass generated by post-processing (ReadModifyWriteHazardLogicBuilder::build, register
   mode = what MemoryGroup::attemptRegisterRetiming requests for latency compensation <= 2, any K
   here): a memory with K-cycle read latency whose write ports were delayed by K cycles (enable low
   during the first K cycles), followed by the K-stage conflict/override pipeline and the final mux,
   returns K cycles after an address was presented exactly what an asynchronous read of the array
   -- subject to the user's undelayed writes in port order -- returns in the cycle the address was
   presented; for any number of write ports, all address/enable/data sequences and arbitrary
   initial contents of every register. *)
Theorem rmw_bypass_correct : forall K ainit cinit rinit f0 ra lw t, (1 <= K)%nat ->
  bypass_out K ainit cinit rinit f0 ra (delay_writes K lw) (t + K)%nat = phys f0 lw t (ra t).
Proof. exact rmw_bypass_correct_proof. Qed.
Print Assumptions rmw_bypass_correct.

(* the same without assuming how the physical write streams arise: the corrected output sees every
   physical write up to the cycle before it appears *)
Theorem rmw_bypass_sees_all_writes : forall K ainit cinit rinit f0 ra pw t, (1 <= K)%nat ->
  bypass_out K ainit cinit rinit f0 ra pw (t + K)%nat = phys f0 pw (t + K)%nat (ra t).
Proof. exact bypass_out_phys_proof. Qed.
Print Assumptions rmw_bypass_sees_all_writes.

(* convertToReadBeforeWrite: a read-before-write port followed by the forwarding mux chain (one mux
   per earlier write port, the closest one deciding last) equals reading after those writes *)
Theorem rbw_mux_chain_correct : forall (ws : list wr) (f : arr) (ra : N),
  fold_left (rbw_mux ra) ws (f ra) = fold_left apply_wr ws f ra.
Proof. exact rbw_mux_chain_proof. Qed.
Print Assumptions rbw_mux_chain_correct.

Example ex_resolve :
  map w_en (resolve [MkWr 2 true (w3 1); MkWr 3 true (w3 2); MkWr 2 true (w3 3)]) = [false; true; true].
Proof. reflexivity. Qed.

(* resolveWriteOrder (all ordered pairs visited): disabling every earlier write that meets a later
   enabled write of the same address keeps the array result, ... *)
Theorem write_order_resolution_same_array : forall ws (f : arr) a,
  fold_left apply_wr (resolve ws) f a = fold_left apply_wr ws f a.
Proof. exact resolve_same_array_proof. Qed.
Print Assumptions write_order_resolution_same_array.

(* ... leaves no two enabled write ports on one address, ... *)
Theorem write_order_resolution_no_collision : forall ws, NoDup (enabled_addrs (resolve ws)).
Proof. exact resolve_no_collision_proof. Qed.
Print Assumptions write_order_resolution_no_collision.

(* ... and then the order in which the write ports commit no longer matters. *)
Theorem collision_free_writes_order_independent : forall ws ws' (f : arr) a,
  Permutation ws ws' -> NoDup (enabled_addrs ws) ->
  fold_left apply_wr ws f a = fold_left apply_wr ws' f a.
Proof. exact writes_order_independent_proof. Qed.
Print Assumptions collision_free_writes_order_independent.

(* the tolerant specification the check evaluates on post-processed circuits is the plain array
   specification whenever the address is in range and the memory is ordered *)
Theorem tspec_agrees : forall w depth start cw f pt i,
  ai_addr i < depth ->
  tspec_step w depth false start cw f pt i =
  (if p_read pt then Some (if ai_en i then f (ai_addr i) else all_X w) else None,
   if p_write pt && ai_en i && ai_wen i then arr_upd f (ai_addr i) (ai_wdata i) else f).
Proof. exact tspec_agrees_proof. Qed.
Print Assumptions tspec_agrees.

(* ------------------------------------------------------------------ *)
(* post-processing clause, per design: circuits WITH memories (NetMemDefs.v: Node_Memory /
   Node_MemPort evaluated with mem_read / mem_latch_write / mem_commit of MemDefs.v inside the
   netlist cycle semantics) validated by the machine-generic certificate checker
   (MachineCert.v).  If the extracted checker accepts a certificate for the constructed
   circuit A and the post-processed circuit B, then for ALL stimulus sequences and ALL cycles
   B's pins never contradict A's and are identical while A's run (all node values and all
   memory words) is free of undefined values. *)
From Gatery Require Import NodeSemDefs NetDefs ProductCert MachineCert NetMemDefs.

Theorem C07_postprocess_cert_sound :
  forall (a b : mnetlist) (ma mb : list memory) (sc : schedule) (ws : list nat) (sigma : nat -> list bv),
  (forall t, ins_wf ws (sigma t)) ->
  forall layers, gcheck_cert MRefine (machine_of a ma) (machine_of b mb) sc ws layers = true ->
  forall t, Forall2 bv_compat (mout_at sc sigma (machine_of a ma) t) (mout_at sc sigma (machine_of b mb) t) /\
            (gclean_upto (machine_of a ma) sc sigma t = true ->
             mout_at sc sigma (machine_of b mb) t = mout_at sc sigma (machine_of a ma) t).
Proof.
  intros a b ma mb sc ws sigma Hs layers H.
  exact (gcert_sound MRefine (machine_of a ma) (machine_of b mb) sc ws sigma Hs layers eq_refl H).
Qed.
Print Assumptions C07_postprocess_cert_sound.
