(* C20 -- the test-vector stream (`<name>.testvectors`) written by
   export/vhdl/FileBasedTestbenchRecorder.cpp, as a function of the simulator callbacks it receives.

   Followed branch by branch:
     onPowerOn            m_writtenSimulationTime = 0; m_flushIntervalStart = 0; m_phases.push_back({})
     onNewPhase(AFTER)    flush(now); m_phases.back() = std::move(m_postDuringPhase); m_phases.push_back({})
     onAfterMicroTick     m_phases.push_back({})
     onCommitState        nothing
     onReset              resetOverrides[name] of m_postDuringPhase (simulator in DURING) or of m_phases.back()
     onSimProcOutputOverridden   signalOverrides[name] = text, same choice of phase record
     onSimProcOutputRead  CHECK text appended to m_phases.back().assertStatements (never the post-during record),
                          only if the bit / any bit of the vector is defined
     flush(end)           interval = (end - start) / (2 + #phases); every non empty phase i:
                            advanceTimeTo(start + interval*(1+i)); its CHECKs; its SETs; its RSTs
     advanceTimeTo(t)     ps = floor((t - written) * 10^12); "ADV ps"; written += ps/10^12
     ~FileBasedTestbenchRecorder  flush(now)

   Not modelled: the resolution of the read output to an IO pin name (exploreOutput walk,
   simulation-only pins), the VHDL / Verilog interpreter files, file system effects.
   m_writtenSimulationTime is kept as a whole number of picoseconds (it only ever receives
   Seconds{n, 10^12} increments starting from 0).

   No proofs in this file. *)
From Coq Require Import List Bool Arith NArith ZArith QArith Qround String Ascii DecimalString.
From Gatery Require Import Bits VcdDefs.
Import ListNotations.
Local Open Scope string_scope.

Inductive tphase := PhBefore | PhDuring | PhAfter.      (* sim::WaitClock::TimingPhase *)

Definition tphase_eqb (a b : tphase) : bool :=
  match a, b with PhBefore, PhBefore | PhDuring, PhDuring | PhAfter, PhAfter => true | _, _ => false end.

(* ---- std::map<std::string, std::string>: ordered by operator< of std::string, operator[] = insert or assign ---- *)

Fixpoint str_ltb (a b : string) : bool :=
  match a, b with
  | _, EmptyString => false
  | EmptyString, String _ _ => true
  | String c r, String c' r' =>
      if (N_of_ascii c <? N_of_ascii c')%N then true
      else if (N_of_ascii c' <? N_of_ascii c)%N then false
      else str_ltb r r'
  end.

Definition smap := list (string * string).

Fixpoint smap_set (k v : string) (m : smap) : smap :=
  match m with
  | [] => [(k, v)]
  | (k', v') :: r =>
      if String.eqb k k' then (k, v) :: r
      else if str_ltb k k' then (k, v) :: m
      else (k', v') :: smap_set k v r
  end.

(* ---- the stream ---- *)

Inductive titem :=
| TAdv (ps : N)
| TCheck (name v : string)
| TSet (name v : string)
| TRst (name v : string).

Definition is_adv (i : titem) : bool := match i with TAdv _ => true | _ => false end.
Definition is_check (i : titem) : bool := match i with TCheck _ _ => true | _ => false end.

Definition item_lines (i : titem) : list string :=
  match i with
  | TAdv n => ["ADV"; dec n]
  | TCheck n v => ["CHECK"; n; v]
  | TSet n v => ["SET"; n; v]
  | TRst n v => ["RST"; n; v]
  end.
Definition tv_lines (s : list titem) : list string := flat_map item_lines s.

(* ---- one phase record (BaseTestbenchRecorder::Phase) ---- *)

Record phase := { ph_chk : list (string * string); ph_set : smap; ph_rst : smap }.   (* CHECKs in call order *)
Definition ph_empty : phase := {| ph_chk := []; ph_set := []; ph_rst := [] |}.

Definition is_nil {A} (l : list A) : bool := match l with [] => true | _ => false end.
Definition phase_is_empty (p : phase) : bool := is_nil (ph_chk p) && is_nil (ph_set p) && is_nil (ph_rst p).

Definition phase_items (p : phase) : list titem :=
  map (fun kv => TCheck (fst kv) (snd kv)) (ph_chk p)
  ++ map (fun kv => TSet (fst kv) (snd kv)) (ph_set p) ++ map (fun kv => TRst (fst kv) (snd kv)) (ph_rst p).

Definition ph_add_chk (k v : string) (p : phase) : phase :=
  {| ph_chk := ph_chk p ++ [(k, v)]; ph_set := ph_set p; ph_rst := ph_rst p |}.
Definition ph_add_set (k v : string) (p : phase) : phase :=
  {| ph_chk := ph_chk p; ph_set := smap_set k v (ph_set p); ph_rst := ph_rst p |}.
Definition ph_add_rst (k v : string) (p : phase) : phase :=
  {| ph_chk := ph_chk p; ph_set := ph_set p; ph_rst := smap_set k v (ph_rst p) |}.

(* m_phases.back() = f(m_phases.back()) ; on an empty vector back() is undefined behaviour: the model
   creates the record (never reached after onPowerOn) *)
Fixpoint upd_last (f : phase -> phase) (l : list phase) : list phase :=
  match l with
  | [] => [f ph_empty]
  | [p] => [f p]
  | p :: r => p :: upd_last f r
  end.

(* ---- callbacks ---- *)

Inductive cb :=
| CbPowerOn
| CbNewPhase (p : tphase) (now : Q)       (* onNewPhase; now = m_simulator.getCurrentSimulationTime() *)
| CbAfterMicroTick
| CbCommit                                (* onCommitState *)
| CbReset (name : string) (asserted : bool)
| CbSet (name : string) (v : bv)          (* onSimProcOutputOverridden of a non simulation-only pin; v LSB first *)
| CbRead (name : string) (isBool : bool) (v : rvec)   (* onSimProcOutputRead resolved to an IO pin *)
| CbDestroy (now : Q).                    (* destructor *)

(* operator<<(ExtendedBitVectorState): MSB first, X for every bit whose DEFINED plane is clear *)
Definition set_text (v : bv) : string := string_of_bits (rev v).

Definition dashchar (r : rbit) : ascii := if fst r then (if snd r then "1"%char else "0"%char) else "-"%char.
Definition dash_text (v : rvec) : string := fold_right (fun r s => String (dashchar r) s) EmptyString (rev v).

Definition check_text (isBool : bool) (v : rvec) : option string :=
  if isBool then (if fst (hd rzero v) then Some (string_of_bits (rev (viewv v))) else None)
  else if existsb fst v then Some (dash_text v) else None.

Record tvst := {
  tv_phases : list phase;          (* m_phases *)
  tv_post : phase;                 (* m_postDuringPhase *)
  tv_written : N;                  (* m_writtenSimulationTime in ps *)
  tv_fstart : Q;                   (* m_flushIntervalStart *)
  tv_cur : tphase;                 (* Simulator::getCurrentPhase() *)
  tv_out : list titem              (* the file so far *)
}.

Definition tv_init : tvst :=
  {| tv_phases := []; tv_post := ph_empty; tv_written := 0; tv_fstart := 0; tv_cur := PhAfter; tv_out := [] |}.

(* advanceTimeTo: (simulationTime - m_writtenSimulationTime) * 10^12, numerator / denominator *)
Definition adv_ps (target : Q) (written : N) : N :=
  Z.to_N (Qfloor ((target - inject_Z (Z.of_N written) / PS_PER_S) * PS_PER_S)).

Definition phase_target (fstart interval : Q) (idx : nat) : Q :=
  fstart + interval * inject_Z (Z.of_nat (1 + idx)).

Fixpoint flush_phases (fstart interval : Q) (idx : nat) (ps : list phase) (w : N) : N * list titem :=
  match ps with
  | [] => (w, [])
  | p :: r =>
      if phase_is_empty p then flush_phases fstart interval (S idx) r w
      else
        let d := adv_ps (phase_target fstart interval idx) w in
        let (w', o) := flush_phases fstart interval (S idx) r (w + d)%N in
        (w', TAdv d :: phase_items p ++ o)
  end.

Definition flush_interval (fstart fend : Q) (n : nat) : Q :=
  (fend - fstart) / inject_Z (Z.of_nat (2 + n)).

Definition flush (fend : Q) (s : tvst) : tvst :=
  let interval := flush_interval (tv_fstart s) fend (length (tv_phases s)) in
  let (w, o) := flush_phases (tv_fstart s) interval 0 (tv_phases s) (tv_written s) in
  {| tv_phases := [ph_empty]; tv_post := tv_post s; tv_written := w; tv_fstart := fend;
     tv_cur := tv_cur s; tv_out := tv_out s ++ o |}.

Definition on_back (f : phase -> phase) (s : tvst) : tvst :=
  {| tv_phases := upd_last f (tv_phases s); tv_post := tv_post s; tv_written := tv_written s;
     tv_fstart := tv_fstart s; tv_cur := tv_cur s; tv_out := tv_out s |}.
Definition on_post (f : phase -> phase) (s : tvst) : tvst :=
  {| tv_phases := tv_phases s; tv_post := f (tv_post s); tv_written := tv_written s;
     tv_fstart := tv_fstart s; tv_cur := tv_cur s; tv_out := tv_out s |}.
Definition push_phase (s : tvst) : tvst :=
  {| tv_phases := tv_phases s ++ [ph_empty]; tv_post := tv_post s; tv_written := tv_written s;
     tv_fstart := tv_fstart s; tv_cur := tv_cur s; tv_out := tv_out s |}.

Definition bool_text (b : bool) : string := if b then "1" else "0".

Definition tv_step (s : tvst) (c : cb) : tvst :=
  match c with
  | CbPowerOn =>
      {| tv_phases := tv_phases s ++ [ph_empty]; tv_post := tv_post s; tv_written := 0; tv_fstart := 0;
         tv_cur := PhAfter; tv_out := tv_out s |}
  | CbNewPhase p now =>
      let s0 := {| tv_phases := tv_phases s; tv_post := tv_post s; tv_written := tv_written s;
                   tv_fstart := tv_fstart s; tv_cur := p; tv_out := tv_out s |} in
      if tphase_eqb p PhAfter then
        let s1 := flush now s0 in
        (* back() = std::move(post): the moved-from record is empty afterwards *)
        let s2 := on_back (fun _ => tv_post s1) s1 in
        push_phase (on_post (fun _ => ph_empty) s2)
      else s0
  | CbAfterMicroTick => push_phase s
  | CbCommit => s
  | CbReset name a =>
      if tphase_eqb (tv_cur s) PhDuring then on_post (ph_add_rst name (bool_text a)) s
      else on_back (ph_add_rst name (bool_text a)) s
  | CbSet name v =>
      if tphase_eqb (tv_cur s) PhDuring then on_post (ph_add_set name (set_text v)) s
      else on_back (ph_add_set name (set_text v)) s
  | CbRead name isBool v =>
      match check_text isBool v with
      | Some t => on_back (ph_add_chk name t) s
      | None => s
      end
  | CbDestroy now => flush now s
  end.

Definition tv_run_from (s : tvst) (cbs : list cb) : tvst := fold_left tv_step cbs s.
Definition tv_stream (cbs : list cb) : list titem := tv_out (tv_run_from tv_init cbs).
Definition tv_file (cbs : list cb) : list string := tv_lines (tv_stream cbs).

(* ---- the documented replay semantics (the interpreter loop the recorder writes into <name>.vhd):
        ADV n waits n ps, every other record acts at the current time, in file order ---- *)
Fixpoint tv_schedule (now : N) (s : list titem) : list (N * titem) :=
  match s with
  | [] => []
  | TAdv n :: r => tv_schedule (now + n) r
  | i :: r => (now, i) :: tv_schedule now r
  end.

(* RST records: the record carries the LEVEL of the reset signal (onReset's parameter is the new level of the pin,
   ReferenceSimulator passes rs.resetHigh); the interpreter assigns it to the reset port as it is.  Whether that
   level means "in reset" depends on the polarity of the clock's registers: *)
Definition rst_asserted (activeHigh level : bool) : bool := Bool.eqb level activeHigh.

(* level text of reset [name] after replaying the records [s], starting from [cur] (the declared initial value) *)
Fixpoint tv_rst_level (name : string) (s : list titem) (cur : option string) : option string :=
  match s with
  | [] => cur
  | TRst n v :: r => tv_rst_level name r (if String.eqb n name then Some v else cur)
  | _ :: r => tv_rst_level name r cur
  end.

(* text -> records (used by the driver to hand the REAL file to tv_schedule) *)
Fixpoint tv_parse (fuel : nat) (ls : list string) : option (list titem) :=
  match fuel with
  | O => match ls with [] => Some [] | _ => None end
  | S f =>
      match ls with
      | [] => Some []
      | k :: r =>
          if String.eqb k "ADV" then
            match r with
            | n :: r' => match NilEmpty.uint_of_string n, tv_parse f r' with
                         | Some u, Some s => Some (TAdv (N.of_uint u) :: s)
                         | _, _ => None
                         end
            | _ => None
            end
          else match r with
               | n :: v :: r' =>
                   match tv_parse f r' with
                   | Some s =>
                       if String.eqb k "CHECK" then Some (TCheck n v :: s)
                       else if String.eqb k "SET" then Some (TSet n v :: s)
                       else if String.eqb k "RST" then Some (TRst n v :: s)
                       else None
                   | None => None
                   end
               | _ => None
               end
      end
  end.
