(* C05 -- lemmas about the node table: evaluation is stable under extension, elaborated
   expressions / slice writes evaluate to what the interpreter computes on values. *)
From Gatery Require Import Bits FrontendDefs.
Import ListNotations.

(* ------------------------------------------------------------------------- *)
(** * Value level facts                                                       *)
(* ------------------------------------------------------------------------- *)

Lemma cand_B0_r a : cand a [B0] = [B0].
Proof. unfold cand; simpl. destruct (bit_of a); reflexivity. Qed.
Lemma cand_B0_l a : cand [B0] a = [B0].
Proof. reflexivity. Qed.
Lemma cand_B1_r a b : cond_val a = Some b -> cand a [B1] = a.
Proof. destruct a as [|[] [|? ?]]; simpl; intro H; inversion H; reflexivity. Qed.
Lemma cnot_B1 : cnot [B1] = [B0].  Proof. reflexivity. Qed.
Lemma cnot_B0 : cnot [B0] = [B1].  Proof. reflexivity. Qed.
Lemma cor_B1_l a : cor [B1] a = [B1].
Proof. reflexivity. Qed.
Lemma cor_B0_l a b : cond_val a = Some b -> cor [B0] a = a.
Proof. destruct a as [|[] [|? ?]]; simpl; intro H; inversion H; reflexivity. Qed.

Lemma cond_val_true v : cond_val v = Some true -> v = [B1].
Proof. destruct v as [|[] [|? ?]]; simpl; intro H; inversion H; reflexivity. Qed.
Lemma cond_val_false v : cond_val v = Some false -> v = [B0].
Proof. destruct v as [|[] [|? ?]]; simpl; intro H; inversion H; reflexivity. Qed.

(* on single defined-width bits the scope logic is the ordinary vector logic *)
Lemma cand_is_bv_and a b : length a = 1 -> length b = 1 -> cand a b = bv_and a b.
Proof. destruct a as [|x [|? ?]], b as [|y [|? ?]]; simpl; intros; try discriminate; reflexivity. Qed.
Lemma cor_is_bv_or a b : length a = 1 -> length b = 1 -> cor a b = bv_or a b.
Proof. destruct a as [|x [|? ?]], b as [|y [|? ?]]; simpl; intros; try discriminate; reflexivity. Qed.
Lemma cnot_is_bv_not a : length a = 1 -> cnot a = bv_not a.
Proof. destruct a as [|x [|? ?]]; simpl; intros; try discriminate; reflexivity. Qed.

Lemma mux2_B1 a b : mux_sem [B1] [a; b] = b.  Proof. reflexivity. Qed.
Lemma mux2_B0 a b : mux_sem [B0] [a; b] = a.  Proof. reflexivity. Qed.

(* ------------------------------------------------------------------------- *)
(** * Lists                                                                   *)
(* ------------------------------------------------------------------------- *)

Lemma lastn_length {A} n (l : list A) : length (lastn n l) = Nat.min n (length l).
Proof. unfold lastn. rewrite skipn_length. lia. Qed.

Lemma lastn_all {A} (l : list A) : lastn (length l) l = l.
Proof. unfold lastn. rewrite Nat.sub_diag. reflexivity. Qed.

Lemma lastn_app {A} (l1 l2 : list A) : lastn (length l2) (l1 ++ l2) = l2.
Proof.
  unfold lastn. rewrite app_length.
  replace (length l1 + length l2 - length l2) with (length l1 + 0) by lia.
  rewrite skipn_app. rewrite Nat.add_0_r, skipn_all.
  replace (length l1 - length l1) with 0 by lia. reflexivity.
Qed.

Lemma lastn_cons {A} n (a : A) l : n <= length l -> lastn n (a :: l) = lastn n l.
Proof.
  intro H. unfold lastn. simpl length.
  replace (S (length l) - n) with (S (length l - n)) by lia. reflexivity.
Qed.

Lemma skipn_skipn' {A} x y (l : list A) : skipn x (skipn y l) = skipn (y + x) l.
Proof.
  revert l. induction y; intro l; simpl; auto. destruct l; simpl; auto. destruct x; reflexivity.
Qed.

Lemma lastn_lastn {A} n m (l : list A) : n <= m -> lastn n (lastn m l) = lastn n l.
Proof.
  intro H. unfold lastn. rewrite skipn_length, skipn_skipn'.
  f_equal. lia.
Qed.

Lemma Forall2_skipn {A B} (R : A -> B -> Prop) k l1 l2 :
  Forall2 R l1 l2 -> Forall2 R (skipn k l1) (skipn k l2).
Proof.
  intro H. revert k. induction H; intro k; destruct k; simpl; auto.
Qed.

Lemma Forall2_len {A B} (R : A -> B -> Prop) l1 l2 : Forall2 R l1 l2 -> length l1 = length l2.
Proof. induction 1; simpl; auto. Qed.

Lemma Forall2_lastn {A B} (R : A -> B -> Prop) n l1 l2 :
  Forall2 R l1 l2 -> Forall2 R (lastn n l1) (lastn n l2).
Proof.
  intro H. unfold lastn. rewrite (Forall2_len _ _ _ H). apply Forall2_skipn; exact H.
Qed.

Lemma Forall_skipn {A} (P : A -> Prop) k l : Forall P l -> Forall P (skipn k l).
Proof. intro H. revert k. induction H; intro k; destruct k; simpl; auto. Qed.

Lemma Forall_lastn {A} (P : A -> Prop) n l : Forall P l -> Forall P (lastn n l).
Proof. apply Forall_skipn. Qed.

Lemma Forall2_trans' {A} (R1 R2 R3 : A -> A -> Prop) l1 l2 l3 :
  (forall a b c, R1 a b -> R2 b c -> R3 a c) ->
  Forall2 R1 l1 l2 -> Forall2 R2 l2 l3 -> Forall2 R3 l1 l3.
Proof.
  intros HR H12. revert l3. induction H12; intros l3 H23; inversion H23; subst; constructor; eauto.
Qed.

Lemma Forall2_impl {A B} (R1 R2 : A -> B -> Prop) l1 l2 :
  (forall a b, R1 a b -> R2 a b) -> Forall2 R1 l1 l2 -> Forall2 R2 l1 l2.
Proof. intros HR H. induction H; constructor; auto. Qed.

(* ------------------------------------------------------------------------- *)
(** * Evaluation of the node table                                            *)
(* ------------------------------------------------------------------------- *)

Section Graph.
Variable inp : list bv.

Definition step (vs : list bv) (n : gnode) : list bv := vs ++ [eval_node inp vs n].

Lemma fold_step_prefix G vs : exists T, fold_left step G vs = vs ++ T /\ length T = length G.
Proof.
  revert vs. induction G as [|n G IH]; intro vs; simpl.
  - exists []. rewrite app_nil_r. auto.
  - destruct (IH (step vs n)) as [T [HT HL]].
    exists (eval_node inp vs n :: T). rewrite HT. unfold step at 1. rewrite <- app_assoc. simpl. auto.
Qed.

Lemma eval_all_app G M : eval_all inp (G ++ M) = fold_left step M (eval_all inp G).
Proof. unfold eval_all. fold step. apply fold_left_app. Qed.

Lemma eval_all_length G : length (eval_all inp G) = length G.
Proof.
  unfold eval_all. fold step. destruct (fold_step_prefix G []) as [T [HT HL]].
  rewrite HT. simpl. exact HL.
Qed.

Lemma eval_all_snoc G n : eval_all inp (G ++ [n]) = eval_all inp G ++ [eval_node inp (eval_all inp G) n].
Proof. rewrite eval_all_app. reflexivity. Qed.

(* value of node k in graph G *)
Definition V (G : list gnode) (k : nid) : bv := getv (eval_all inp G) k.

Definition ext (G G' : list gnode) : Prop := exists M, G' = G ++ M.

Lemma ext_refl G : ext G G.
Proof. exists []. rewrite app_nil_r. reflexivity. Qed.
Lemma ext_trans G1 G2 G3 : ext G1 G2 -> ext G2 G3 -> ext G1 G3.
Proof. intros [M1 H1] [M2 H2]. exists (M1 ++ M2). subst. rewrite app_assoc. reflexivity. Qed.
Lemma ext_length G G' : ext G G' -> length G <= length G'.
Proof. intros [M H]. subst. rewrite app_length. lia. Qed.
Lemma ext_emit G n : ext G (G ++ [n]).
Proof. exists [n]. reflexivity. Qed.

Lemma V_ext G G' k : ext G G' -> k < length G -> V G' k = V G k.
Proof.
  intros [M H] Hk. subst. unfold V, getv. rewrite eval_all_app.
  destruct (fold_step_prefix M (eval_all inp G)) as [T [HT _]]. rewrite HT.
  apply app_nth1. rewrite eval_all_length. exact Hk.
Qed.

Lemma V_emit G n : V (G ++ [n]) (length G) = eval_node inp (eval_all inp G) n.
Proof.
  unfold V, getv. rewrite eval_all_snoc.
  rewrite app_nth2; rewrite eval_all_length; [|lia]. rewrite Nat.sub_diag. reflexivity.
Qed.

Lemma map_V_ext G G' l : ext G G' -> Forall (fun k => k < length G) l -> map (V G') l = map (V G) l.
Proof.
  intros He H. induction H; simpl; auto. rewrite IHForall. f_equal. apply V_ext; auto.
Qed.

(* ------------------------------------------------------------------------- *)
(** * Signal tables                                                           *)
(* ------------------------------------------------------------------------- *)

Definition sigs_bounded (k : nat) (S : list (sig * sigrec)) : Prop :=
  Forall (fun xr => sr_drv (snd xr) < k) S.

(* the circuit's signals carry exactly the interpreter's values, variable by variable *)
Definition rel (G : list gnode) (S : list (sig * sigrec)) (E : env) : Prop :=
  Forall2 (fun xr yv => fst xr = fst yv /\ V G (sr_drv (snd xr)) = snd yv) S E.

Lemma sigs_bounded_mono k k' S : k <= k' -> sigs_bounded k S -> sigs_bounded k' S.
Proof. intros Hk H. eapply Forall_impl; [|exact H]. simpl. intros; lia. Qed.

Lemma lookup_bounded k S x r : sigs_bounded k S -> lookup x S = Some r -> sr_drv r < k.
Proof.
  induction 1 as [|[y r'] S Hy HS IH]; simpl; [discriminate|].
  destruct (Nat.eqb x y); intro H; [inversion H; subst; exact Hy | auto].
Qed.

Lemma rel_lookup_some G S E x r : rel G S E -> lookup x S = Some r -> lookup x E = Some (V G (sr_drv r)).
Proof.
  unfold rel; induction 1 as [|[y r'] [z v] S E [Hk Hv] HR IH]; simpl in *; [discriminate|].
  subst z. destruct (Nat.eqb x y); intro H; [inversion H; subst; reflexivity | auto].
Qed.

Lemma rel_lookup_none G S E x : rel G S E -> lookup x S = None -> lookup x E = None.
Proof.
  unfold rel; induction 1 as [|[y r'] [z v] S E [Hk Hv] HR IH]; simpl in *; auto.
  subst z. destruct (Nat.eqb x y); intro H; [discriminate | auto].
Qed.

Lemma rel_ext G G' S E : ext G G' -> sigs_bounded (length G) S -> rel G S E -> rel G' S E.
Proof.
  intros He Hb HR. induction HR as [|a b S E [Hk Hv] HR IH]; constructor.
  - inversion Hb as [|? ? Ha Hb']; subst. simpl in Ha. split; [exact Hk|].
    rewrite (V_ext G G' _ He Ha). exact Hv.
  - inversion Hb; subst. apply IH. assumption.
Qed.

Lemma rel_update G S E x r v :
  rel G S E -> V G (sr_drv r) = v -> rel G (update x r S) (update x v E).
Proof.
  intros HR Hv. induction HR as [|[y r'] [z w] S E [Hk Hw] HR IH]; simpl in *; [constructor|].
  subst z. destruct (Nat.eqb x y); constructor; simpl; auto.
Qed.

Lemma rel_length G S E : rel G S E -> length S = length E.
Proof. apply Forall2_len. Qed.

(* ------------------------------------------------------------------------- *)
(** * Expressions                                                             *)
(* ------------------------------------------------------------------------- *)


(* ---- dynamic reads ---- *)
Arguments elab_dyn_read : simpl never.

Lemma emit_extracts_struct a mul w ks : forall G os G',
  emit_extracts a mul w ks G = (os, G') -> ext G G' /\ Forall (fun k => k < length G') os.
Proof.
  induction ks as [|k ks IH]; intros G os G' H; simpl in H.
  - inversion H; subst. split; [apply ext_refl|constructor].
  - unfold emit in H. destruct (emit_extracts a mul w ks (G ++ [NExtract a (k * mul) w])) as [os' G2] eqn:H1.
    inversion H; subst. apply IH in H1 as [E1 F1].
    pose proof (ext_length _ _ E1) as L1. rewrite app_length in L1. simpl in L1.
    split; [eapply ext_trans; [apply ext_emit|exact E1]|]. constructor; auto. lia.
Qed.

Lemma emit_extracts_sem a mul w ks : forall G os G',
  a < length G -> emit_extracts a mul w ks G = (os, G') ->
  map (V G') os = map (fun k => extract_sem (V G a) (k * mul) w) ks.
Proof.
  induction ks as [|k ks IH]; intros G os G' Ha H; simpl in H.
  - inversion H; subst. reflexivity.
  - unfold emit in H. destruct (emit_extracts a mul w ks (G ++ [NExtract a (k * mul) w])) as [os' G2] eqn:H1.
    inversion H; subst. clear H.
    destruct (emit_extracts_struct _ _ _ _ _ _ _ H1) as [E1 _].
    simpl. f_equal.
    + rewrite (V_ext (G ++ [NExtract a (k * mul) w]) G' (length G) E1) by (rewrite app_length; simpl; lia).
      rewrite V_emit. reflexivity.
    + assert (Ha' : a < length (G ++ [NExtract a (k * mul) w])) by (rewrite app_length; simpl; lia).
      rewrite (IH _ _ _ Ha' H1).
      rewrite (V_ext G (G ++ [NExtract a (k * mul) w]) a (ext_emit _ _) Ha). reflexivity.
Qed.

Lemma elab_dyn_read_struct na ni prm G n G' :
  elab_dyn_read na ni prm G = (n, G') -> ext G G' /\ n < length G'.
Proof.
  unfold elab_dyn_read. destruct prm as [[maxi mul] w].
  destruct (emit_extracts na mul w (seq 0 (S maxi)) G) as [opts G1] eqn:H1. unfold emit. intro H. inversion H; subst.
  destruct (emit_extracts_struct _ _ _ _ _ _ _ H1) as [E1 _].
  split; [eapply ext_trans; [exact E1|apply ext_emit]|rewrite app_length; simpl; lia].
Qed.

Lemma elab_dyn_read_sem na ni prm G n G' :
  na < length G -> ni < length G -> elab_dyn_read na ni prm G = (n, G') ->
  V G' n = dyn_read (V G na) (V G ni) prm.
Proof.
  unfold elab_dyn_read, dyn_read. destruct prm as [[maxi mul] w]. intros Ha Hi.
  destruct (emit_extracts na mul w (seq 0 (S maxi)) G) as [opts G1] eqn:H1. unfold emit. intro H. inversion H; subst.
  destruct (emit_extracts_struct _ _ _ _ _ _ _ H1) as [E1 _].
  rewrite V_emit. simpl. fold (V G1 ni).
  replace (map (getv (eval_all inp G1)) opts) with (map (V G1) opts) by reflexivity.
  rewrite (emit_extracts_sem _ _ _ _ _ _ _ Ha H1). rewrite (V_ext G G1 ni E1 Hi). reflexivity.
Qed.

Lemma elab_dyn_read_fresh na ni prm G n G' : elab_dyn_read na ni prm G = (n, G') -> length G <= n.
Proof.
  unfold elab_dyn_read. destruct prm as [[maxi mul] w].
  destruct (emit_extracts na mul w (seq 0 (S maxi)) G) as [opts G1] eqn:H1. unfold emit. intro H. inversion H; subst.
  destruct (emit_extracts_struct _ _ _ _ _ _ _ H1) as [E1 _]. apply ext_length; exact E1.
Qed.

Lemma elab_expr_struct S e : forall G n G',
  sigs_bounded (length G) S -> elab_expr S e G = (n, G') -> ext G G' /\ n < length G'.
Proof.
  induction e; intros G n G' Hb H; simpl in H;
    try (inversion H; subst; split; [apply ext_emit | rewrite app_length; simpl; lia]).
  - (* ESig *)
    destruct (lookup x S) as [r|] eqn:Hl.
    + inversion H; subst. split; [apply ext_refl | eapply lookup_bounded; eauto].
    + inversion H; subst. split; [apply ext_emit | rewrite app_length; simpl; lia].
  - destruct (elab_expr S e G) as [na G1] eqn:H1. apply IHe in H1 as [E1 B1]; auto.
    inversion H; subst. split; [eapply ext_trans; [exact E1|apply ext_emit] | rewrite app_length; simpl; lia].
  - destruct (elab_expr S e1 G) as [na G1] eqn:H1. apply IHe1 in H1 as [E1 B1]; auto.
    destruct (elab_expr S e2 G1) as [nb G2] eqn:H2.
    apply IHe2 in H2 as [E2 B2]; [|eapply sigs_bounded_mono; [apply ext_length; exact E1|exact Hb]].
    inversion H; subst. split; [eapply ext_trans; [exact E1|eapply ext_trans; [exact E2|apply ext_emit]] | rewrite app_length; simpl; lia].
  - destruct (elab_expr S e1 G) as [na G1] eqn:H1. apply IHe1 in H1 as [E1 B1]; auto.
    destruct (elab_expr S e2 G1) as [nb G2] eqn:H2.
    apply IHe2 in H2 as [E2 B2]; [|eapply sigs_bounded_mono; [apply ext_length; exact E1|exact Hb]].
    inversion H; subst. split; [eapply ext_trans; [exact E1|eapply ext_trans; [exact E2|apply ext_emit]] | rewrite app_length; simpl; lia].
  - destruct (elab_expr S e1 G) as [na G1] eqn:H1. apply IHe1 in H1 as [E1 B1]; auto.
    destruct (elab_expr S e2 G1) as [nb G2] eqn:H2.
    apply IHe2 in H2 as [E2 B2]; [|eapply sigs_bounded_mono; [apply ext_length; exact E1|exact Hb]].
    inversion H; subst. split; [eapply ext_trans; [exact E1|eapply ext_trans; [exact E2|apply ext_emit]] | rewrite app_length; simpl; lia].
  - destruct (elab_expr S e1 G) as [na G1] eqn:H1. apply IHe1 in H1 as [E1 B1]; auto.
    destruct (elab_expr S e2 G1) as [nb G2] eqn:H2.
    apply IHe2 in H2 as [E2 B2]; [|eapply sigs_bounded_mono; [apply ext_length; exact E1|exact Hb]].
    inversion H; subst. split; [eapply ext_trans; [exact E1|eapply ext_trans; [exact E2|apply ext_emit]] | rewrite app_length; simpl; lia].
  - destruct (elab_expr S e1 G) as [na G1] eqn:H1. apply IHe1 in H1 as [E1 B1]; auto.
    destruct (elab_expr S e2 G1) as [nb G2] eqn:H2.
    apply IHe2 in H2 as [E2 B2]; [|eapply sigs_bounded_mono; [apply ext_length; exact E1|exact Hb]].
    inversion H; subst. split; [eapply ext_trans; [exact E1|eapply ext_trans; [exact E2|apply ext_emit]] | rewrite app_length; simpl; lia].
  - destruct (elab_expr S e G) as [na G1] eqn:H1. apply IHe in H1 as [E1 B1]; auto.
    inversion H; subst. split; [eapply ext_trans; [exact E1|apply ext_emit] | rewrite app_length; simpl; lia].
  - destruct (elab_expr S e1 G) as [na G1] eqn:H1. apply IHe1 in H1 as [E1 B1]; auto.
    destruct (elab_expr S e2 G1) as [nb G2] eqn:H2.
    apply IHe2 in H2 as [E2 B2]; [|eapply sigs_bounded_mono; [apply ext_length; exact E1|exact Hb]].
    apply elab_dyn_read_struct in H as [E3 B3].
    split; [eapply ext_trans; [exact E1|eapply ext_trans; [exact E2|exact E3]] | exact B3].
  - destruct (elab_expr S e1 G) as [na G1] eqn:H1. apply IHe1 in H1 as [E1 B1]; auto.
    destruct (elab_expr S e2 G1) as [nb G2] eqn:H2.
    apply IHe2 in H2 as [E2 B2]; [|eapply sigs_bounded_mono; [apply ext_length; exact E1|exact Hb]].
    apply elab_dyn_read_struct in H as [E3 B3].
    split; [eapply ext_trans; [exact E1|eapply ext_trans; [exact E2|exact E3]] | exact B3].
  - destruct (elab_expr S e1 G) as [na G1] eqn:H1. apply IHe1 in H1 as [E1 B1]; auto.
    destruct (elab_expr S e2 G1) as [nb G2] eqn:H2.
    apply IHe2 in H2 as [E2 B2]; [|eapply sigs_bounded_mono; [apply ext_length; exact E1|exact Hb]].
    apply elab_dyn_read_struct in H as [E3 B3].
    split; [eapply ext_trans; [exact E1|eapply ext_trans; [exact E2|exact E3]] | exact B3].
Qed.

Lemma elab_expr_sem S E e : forall G n G',
  sigs_bounded (length G) S -> rel G S E -> elab_expr S e G = (n, G') -> V G' n = eval_expr inp E e.
Proof.
  induction e; intros G n G' Hb HR H; simpl in H.
  - inversion H; subst. rewrite V_emit. reflexivity.
  - inversion H; subst. rewrite V_emit. reflexivity.
  - simpl. destruct (lookup x S) as [r|] eqn:Hl.
    + inversion H; subst. rewrite (rel_lookup_some _ _ _ _ _ HR Hl). reflexivity.
    + inversion H; subst. rewrite (rel_lookup_none _ _ _ _ HR Hl). rewrite V_emit. reflexivity.
  - destruct (elab_expr S e G) as [na G1] eqn:H1.
    pose proof (elab_expr_struct _ _ _ _ _ Hb H1) as [E1 B1].
    inversion H; subst. rewrite V_emit. simpl. fold (V G1 na). rewrite (IHe _ _ _ Hb HR H1). reflexivity.
  - destruct (elab_expr S e1 G) as [na G1] eqn:H1. destruct (elab_expr S e2 G1) as [nb G2] eqn:H2.
    pose proof (elab_expr_struct _ _ _ _ _ Hb H1) as [E1 B1].
    assert (Hb1 : sigs_bounded (length G1) S) by (eapply sigs_bounded_mono; [apply ext_length; exact E1|exact Hb]).
    pose proof (elab_expr_struct _ _ _ _ _ Hb1 H2) as [E2 B2].
    inversion H; subst. rewrite V_emit. simpl. fold (V G2 na) (V G2 nb).
    rewrite (V_ext G1 G2 na E2 B1). rewrite (IHe1 _ _ _ Hb HR H1). rewrite (IHe2 _ _ _ Hb1 (rel_ext _ _ _ _ E1 Hb HR) H2). reflexivity.
  - destruct (elab_expr S e1 G) as [na G1] eqn:H1. destruct (elab_expr S e2 G1) as [nb G2] eqn:H2.
    pose proof (elab_expr_struct _ _ _ _ _ Hb H1) as [E1 B1].
    assert (Hb1 : sigs_bounded (length G1) S) by (eapply sigs_bounded_mono; [apply ext_length; exact E1|exact Hb]).
    pose proof (elab_expr_struct _ _ _ _ _ Hb1 H2) as [E2 B2].
    inversion H; subst. rewrite V_emit. simpl. fold (V G2 na) (V G2 nb).
    rewrite (V_ext G1 G2 na E2 B1). rewrite (IHe1 _ _ _ Hb HR H1). rewrite (IHe2 _ _ _ Hb1 (rel_ext _ _ _ _ E1 Hb HR) H2). reflexivity.
  - destruct (elab_expr S e1 G) as [na G1] eqn:H1. destruct (elab_expr S e2 G1) as [nb G2] eqn:H2.
    pose proof (elab_expr_struct _ _ _ _ _ Hb H1) as [E1 B1].
    assert (Hb1 : sigs_bounded (length G1) S) by (eapply sigs_bounded_mono; [apply ext_length; exact E1|exact Hb]).
    pose proof (elab_expr_struct _ _ _ _ _ Hb1 H2) as [E2 B2].
    inversion H; subst. rewrite V_emit. simpl. fold (V G2 na) (V G2 nb).
    rewrite (V_ext G1 G2 na E2 B1). rewrite (IHe1 _ _ _ Hb HR H1). rewrite (IHe2 _ _ _ Hb1 (rel_ext _ _ _ _ E1 Hb HR) H2). reflexivity.
  - destruct (elab_expr S e1 G) as [na G1] eqn:H1. destruct (elab_expr S e2 G1) as [nb G2] eqn:H2.
    pose proof (elab_expr_struct _ _ _ _ _ Hb H1) as [E1 B1].
    assert (Hb1 : sigs_bounded (length G1) S) by (eapply sigs_bounded_mono; [apply ext_length; exact E1|exact Hb]).
    pose proof (elab_expr_struct _ _ _ _ _ Hb1 H2) as [E2 B2].
    inversion H; subst. rewrite V_emit. simpl. fold (V G2 na) (V G2 nb).
    rewrite (V_ext G1 G2 na E2 B1). rewrite (IHe1 _ _ _ Hb HR H1). rewrite (IHe2 _ _ _ Hb1 (rel_ext _ _ _ _ E1 Hb HR) H2). reflexivity.
  - destruct (elab_expr S e1 G) as [na G1] eqn:H1. destruct (elab_expr S e2 G1) as [nb G2] eqn:H2.
    pose proof (elab_expr_struct _ _ _ _ _ Hb H1) as [E1 B1].
    assert (Hb1 : sigs_bounded (length G1) S) by (eapply sigs_bounded_mono; [apply ext_length; exact E1|exact Hb]).
    pose proof (elab_expr_struct _ _ _ _ _ Hb1 H2) as [E2 B2].
    inversion H; subst. rewrite V_emit. simpl. fold (V G2 na) (V G2 nb).
    rewrite (V_ext G1 G2 na E2 B1). rewrite (IHe1 _ _ _ Hb HR H1). rewrite (IHe2 _ _ _ Hb1 (rel_ext _ _ _ _ E1 Hb HR) H2). reflexivity.
  - destruct (elab_expr S e G) as [na G1] eqn:H1.
    pose proof (elab_expr_struct _ _ _ _ _ Hb H1) as [E1 B1].
    inversion H; subst. rewrite V_emit. simpl. fold (V G1 na). rewrite (IHe _ _ _ Hb HR H1). reflexivity.
  - destruct (elab_expr S e1 G) as [na G1] eqn:H1. destruct (elab_expr S e2 G1) as [nb G2] eqn:H2.
    pose proof (elab_expr_struct _ _ _ _ _ Hb H1) as [E1 B1].
    assert (Hb1 : sigs_bounded (length G1) S) by (eapply sigs_bounded_mono; [apply ext_length; exact E1|exact Hb]).
    pose proof (elab_expr_struct _ _ _ _ _ Hb1 H2) as [E2 B2].
    pose proof (ext_length _ _ E2) as L2.
    assert (B1' : na < length G2) by lia.
    rewrite (elab_dyn_read_sem _ _ _ _ _ _ B1' B2 H).
    rewrite (V_ext G1 G2 na E2 B1). rewrite (IHe1 _ _ _ Hb HR H1). rewrite (IHe2 _ _ _ Hb1 (rel_ext _ _ _ _ E1 Hb HR) H2). reflexivity.
  - destruct (elab_expr S e1 G) as [na G1] eqn:H1. destruct (elab_expr S e2 G1) as [nb G2] eqn:H2.
    pose proof (elab_expr_struct _ _ _ _ _ Hb H1) as [E1 B1].
    assert (Hb1 : sigs_bounded (length G1) S) by (eapply sigs_bounded_mono; [apply ext_length; exact E1|exact Hb]).
    pose proof (elab_expr_struct _ _ _ _ _ Hb1 H2) as [E2 B2].
    pose proof (ext_length _ _ E2) as L2.
    assert (B1' : na < length G2) by lia.
    rewrite (elab_dyn_read_sem _ _ _ _ _ _ B1' B2 H).
    rewrite (V_ext G1 G2 na E2 B1). rewrite (IHe1 _ _ _ Hb HR H1). rewrite (IHe2 _ _ _ Hb1 (rel_ext _ _ _ _ E1 Hb HR) H2). reflexivity.
  - destruct (elab_expr S e1 G) as [na G1] eqn:H1. destruct (elab_expr S e2 G1) as [nb G2] eqn:H2.
    pose proof (elab_expr_struct _ _ _ _ _ Hb H1) as [E1 B1].
    assert (Hb1 : sigs_bounded (length G1) S) by (eapply sigs_bounded_mono; [apply ext_length; exact E1|exact Hb]).
    pose proof (elab_expr_struct _ _ _ _ _ Hb1 H2) as [E2 B2].
    pose proof (ext_length _ _ E2) as L2.
    assert (B1' : na < length G2) by lia.
    rewrite (elab_dyn_read_sem _ _ _ _ _ _ B1' B2 H).
    rewrite (V_ext G1 G2 na E2 B1). rewrite (IHe1 _ _ _ Hb HR H1). rewrite (IHe2 _ _ _ Hb1 (rel_ext _ _ _ _ E1 Hb HR) H2). reflexivity.
Qed.

End Graph.
