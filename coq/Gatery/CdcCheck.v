(* C12 -- the per-node rule (checkValidInputClocks) has a declarative meaning, and clocks that
   share a pin source are interchangeable. *)
From Coq Require Import List NArith Bool Arith Lia.
From Gatery Require Import CdcDefs.
Import ListNotations.

(* ------------------------------------------------------------------ *)
(* small facts                                                          *)

Lemma scd_eqb_eq : forall a b, scd_eqb a b = true <-> a = b.
Proof.
  destruct a, b; simpl; split; intro H; try congruence; try discriminate.
  - apply Nat.eqb_eq in H; congruence.
  - inversion H; apply Nat.eqb_refl.
Qed.

Lemma oscd_eqb_eq : forall a b, oscd_eqb a b = true <-> a = b.
Proof.
  destruct a, b; simpl; split; intro H; try congruence; try discriminate.
  - apply scd_eqb_eq in H; congruence.
  - inversion H; apply scd_eqb_eq; reflexivity.
Qed.

Lemma port_eqb_eq : forall a b, port_eqb a b = true <-> a = b.
Proof.
  intros [a1 a2] [b1 b2]; unfold port_eqb; simpl.
  rewrite andb_true_iff, !N.eqb_eq. split; [intros [-> ->]; reflexivity | intro H; inversion H; auto].
Qed.

Lemma port_eq_dec : forall a b : port, {a = b} + {a <> b}.
Proof. intros; destruct (port_eqb a b) eqn:E; [left; apply port_eqb_eq; auto | right; intro H; apply port_eqb_eq in H; congruence]. Qed.

Lemma src_eqb_eq : forall a b, src_eqb a b = true <-> a = b.
Proof.
  destruct a, b; simpl; split; intro H; try congruence; try discriminate; auto.
  - apply Nat.eqb_eq in H; congruence.
  - inversion H; apply Nat.eqb_refl.
Qed.

(* ------------------------------------------------------------------ *)
(* declarative reading of the base rule                                 *)

Definition clocks_of (ins : list scd) : list clockid :=
  flat_map (fun x => match x with SClock c => [c] | _ => [] end) ins.

Definition count_unk (ins : list scd) : nat :=
  length (filter (fun x => match x with SUnknown => true | _ => false end) ins).

Lemma base_loop_some : forall ps l c0 k,
  base_loop ps l (Some c0) k =
  if forallb (fun c => Nat.eqb c0 (ps c)) (clocks_of l) then Some (Some c0, k + count_unk l) else None.
Proof.
  induction l as [|x l IH]; intros c0 k; simpl.
  - f_equal; f_equal; unfold count_unk; simpl; lia.
  - destruct x; simpl.
    + rewrite IH. unfold count_unk; simpl. destruct (forallb _ _); auto. do 2 f_equal; lia.
    + rewrite IH. unfold count_unk; simpl. reflexivity.
    + destruct (Nat.eqb c0 (ps c)); simpl; auto.
Qed.

Lemma base_loop_none : forall ps l k,
  base_loop ps l None k =
  match clocks_of l with
  | [] => Some (None, k + count_unk l)
  | c :: _ => if forallb (fun c' => Nat.eqb (ps c) (ps c')) (clocks_of l)
              then Some (Some (ps c), k + count_unk l) else None
  end.
Proof.
  induction l as [|x l IH]; intros k; simpl.
  - f_equal; f_equal; unfold count_unk; simpl; lia.
  - destruct x; simpl.
    + rewrite IH. unfold count_unk; simpl. destruct (clocks_of l); [do 2 f_equal; lia|].
      destruct (forallb _ _); auto. do 2 f_equal; lia.
    + rewrite IH. unfold count_unk; simpl. reflexivity.
    + rewrite base_loop_some, Nat.eqb_refl; simpl. reflexivity.
Qed.

(* the node's own clock behaves like an additional, first input *)
Definition own_l (nd : node) : list scd :=
  match own_clock nd with Some c => [SClock c] | None => [] end.

Lemma base_check_own : forall ps nd ins,
  base_check ps nd ins =
  match base_loop ps (own_l nd ++ ins) None 0 with
  | None => false
  | Some (clock, k) => negb ((1 <? k) || ((0 <? k) && match clock with Some _ => true | None => false end))
  end.
Proof.
  intros. unfold base_check, own_l. destruct (own_clock nd); reflexivity.
Qed.

Definition base_ok (ps : clockid -> clockid) (nd : node) (ins : list scd) : Prop :=
  let L := own_l nd ++ ins in
  (forall a b, In a (clocks_of L) -> In b (clocks_of L) -> ps a = ps b)
  /\ count_unk L <= 1
  /\ (count_unk L = 0 \/ clocks_of L = []).

Lemma all_same_forallb : forall (ps : clockid -> clockid) c l,
  forallb (fun c' => Nat.eqb (ps c) (ps c')) l = true <-> (forall a, In a l -> ps c = ps a).
Proof.
  intros. rewrite forallb_forall. split; intros H a Ha; specialize (H a Ha); apply Nat.eqb_eq; auto.
Qed.

Theorem base_check_spec : forall ps nd ins, base_check ps nd ins = true <-> base_ok ps nd ins.
Proof.
  intros. rewrite base_check_own. unfold base_ok. set (L := own_l nd ++ ins). clearbody L.
  rewrite base_loop_none. simpl.
  destruct (clocks_of L) as [|c cl] eqn:E.
  - rewrite negb_true_iff, orb_false_iff, andb_false_r. split.
    + intros [H _]. apply Nat.ltb_ge in H. split; [intros a b []|]. split; [lia | right; reflexivity].
    + intros (_ & H & _). split; auto. apply Nat.ltb_ge; lia.
  - destruct (forallb (fun c' => Nat.eqb (ps c) (ps c')) (c :: cl)) eqn:F.
    + rewrite negb_true_iff, orb_false_iff, andb_true_r.
      pose proof (proj1 (all_same_forallb ps c (c :: cl)) F) as F'. clear F. rename F' into F. split.
      * intros [H1 H2]. apply Nat.ltb_ge in H1, H2. split; [|split; [lia | left; lia]].
        intros a b Ha Hb. rewrite <- (F a Ha), <- (F b Hb). reflexivity.
      * intros (_ & H1 & [H2 | H2]); [|discriminate]. split; apply Nat.ltb_ge; lia.
    + split; [discriminate|]. intros (H & _).
      assert (forallb (fun c' => Nat.eqb (ps c) (ps c')) (c :: cl) = true); [|congruence].
      apply (proj2 (all_same_forallb ps c (c :: cl))). intros a Ha. apply H; [left; reflexivity | exact Ha].
Qed.

(* position based consequences *)

Lemma in_clocks_of : forall l a, In a (clocks_of l) <-> In (SClock a) l.
Proof.
  intros. unfold clocks_of. rewrite in_flat_map. split.
  - intros (x & Hx & Ha). destruct x; simpl in Ha; try contradiction. destruct Ha as [->|[]]. exact Hx.
  - intros H. exists (SClock a). split; [exact H | left; reflexivity].
Qed.

Lemma clocks_of_app : forall a b, clocks_of (a ++ b) = clocks_of a ++ clocks_of b.
Proof. intros. unfold clocks_of. apply flat_map_app. Qed.

Lemma count_unk_app : forall a b, count_unk (a ++ b) = count_unk a + count_unk b.
Proof. intros. unfold count_unk. rewrite filter_app, app_length. reflexivity. Qed.

Lemma count_unk_own : forall nd, count_unk (own_l nd) = 0.
Proof. intros. unfold own_l. destruct (own_clock nd); reflexivity. Qed.

Lemma count_unk_two : forall l i j,
  i <> j -> nth_error l i = Some SUnknown -> nth_error l j = Some SUnknown -> 2 <= count_unk l.
Proof.
  induction l as [|x l IH]; intros i j Hij Hi Hj.
  - destruct i; discriminate.
  - destruct i, j; simpl in *; try congruence.
    + inversion Hi; subst. unfold count_unk; simpl.
      assert (1 <= count_unk l); [|unfold count_unk in *; lia].
      clear - Hj. revert j Hj. induction l as [|y l IH]; intros j Hj; [destruct j; discriminate|].
      destruct j; simpl in *.
      * inversion Hj; subst. unfold count_unk; simpl; lia.
      * specialize (IH _ Hj). unfold count_unk in *; simpl. destruct y; simpl; lia.
    + inversion Hj; subst. unfold count_unk; simpl.
      assert (1 <= count_unk l); [|unfold count_unk in *; lia].
      clear - Hi. revert i Hi. induction l as [|y l IH]; intros i Hi; [destruct i; discriminate|].
      destruct i; simpl in *.
      * inversion Hi; subst. unfold count_unk; simpl; lia.
      * specialize (IH _ Hi). unfold count_unk in *; simpl. destruct y; simpl; lia.
    + assert (i <> j) by congruence. specialize (IH i j H Hi Hj).
      unfold count_unk in *; simpl. destruct x; simpl; lia.
Qed.

Lemma count_unk_pos : forall l i, nth_error l i = Some SUnknown -> 1 <= count_unk l.
Proof.
  induction l as [|y l IH]; intros i Hi; [destruct i; discriminate|].
  destruct i; simpl in *.
  - inversion Hi; subst. unfold count_unk; simpl; lia.
  - specialize (IH _ Hi). unfold count_unk in *; simpl. destruct y; simpl; lia.
Qed.

Lemma count_unk_pos_inv : forall l, 1 <= count_unk l -> exists i, nth_error l i = Some SUnknown.
Proof.
  induction l as [|y l IH]; intros H; [unfold count_unk in H; simpl in H; lia|].
  destruct y.
  - exists 0; reflexivity.
  - unfold count_unk in *; simpl in H. destruct (IH H) as [i Hi]. exists (S i); exact Hi.
  - unfold count_unk in *; simpl in H. destruct (IH H) as [i Hi]. exists (S i); exact Hi.
Qed.

Lemma count_unk_two_inv : forall l, 2 <= count_unk l ->
  exists i j, i <> j /\ nth_error l i = Some SUnknown /\ nth_error l j = Some SUnknown.
Proof.
  induction l as [|y l IH]; intros H; [unfold count_unk in H; simpl in H; lia|].
  destruct y.
  - unfold count_unk in H; simpl in H.
    destruct (count_unk_pos_inv l) as [j Hj]; [unfold count_unk; lia|].
    exists 0, (S j). repeat split; auto.
  - unfold count_unk in *; simpl in H. destruct (IH H) as (i & j & Hij & Hi & Hj).
    exists (S i), (S j). repeat split; auto.
  - unfold count_unk in *; simpl in H. destruct (IH H) as (i & j & Hij & Hi & Hj).
    exists (S i), (S j). repeat split; auto.
Qed.

Definition scd_equiv (ps : clockid -> clockid) (x y : scd) : Prop :=
  match x, y with
  | SUnknown, SUnknown => True
  | SConst, SConst => True
  | SClock a, SClock b => ps a = ps b
  | _, _ => False
  end.

(* what a passing base rule guarantees about individual inputs *)
Lemma base_ok_clocks : forall ps nd ins i j a b,
  base_ok ps nd ins -> nth_error ins i = Some (SClock a) -> nth_error ins j = Some (SClock b) -> ps a = ps b.
Proof.
  intros ps nd ins i j a b (H & _) Hi Hj. apply H; rewrite clocks_of_app; apply in_or_app; right;
    apply in_clocks_of; eapply nth_error_In; eauto.
Qed.

Lemma base_ok_unk : forall ps nd ins i j x,
  base_ok ps nd ins -> i <> j -> nth_error ins i = Some SUnknown -> nth_error ins j = Some x -> x = SConst.
Proof.
  intros ps nd ins i j x (_ & H1 & H2) Hij Hi Hj.
  rewrite count_unk_app, count_unk_own in *. simpl in *.
  destruct x; auto.
  - pose proof (count_unk_two _ _ _ Hij Hi Hj). lia.
  - pose proof (count_unk_pos _ _ Hi). destruct H2 as [H2|H2]; [lia|].
    rewrite clocks_of_app in H2. apply app_eq_nil in H2. destruct H2 as [_ H2].
    assert (Hc : In c (clocks_of ins)) by (apply in_clocks_of; eapply nth_error_In; eauto).
    rewrite H2 in Hc. contradiction.
Qed.

Lemma base_ok_own : forall ps nd ins c i x,
  base_ok ps nd ins -> own_clock nd = Some c -> nth_error ins i = Some x ->
  x = SConst \/ exists a, x = SClock a /\ ps a = ps c.
Proof.
  intros ps nd ins c i x (H0 & H1 & H2) Hc Hi.
  assert (Hown : own_l nd = [SClock c]) by (unfold own_l; rewrite Hc; reflexivity).
  rewrite Hown in *. destruct x; auto.
  - exfalso. pose proof (count_unk_pos _ _ Hi). rewrite count_unk_app in *. destruct H2 as [H2|H2]; [lia|].
    simpl in H2. discriminate.
  - right. exists c0. split; auto. apply H0.
    + rewrite clocks_of_app. apply in_or_app; right. apply in_clocks_of. eapply nth_error_In; eauto.
    + simpl. left; reflexivity.
Qed.

Lemma base_ok_agree : forall ps nd ins i j x y,
  base_ok ps nd ins -> nth_error ins i = Some x -> nth_error ins j = Some y ->
  x <> SConst -> y <> SConst -> scd_equiv ps x y.
Proof.
  intros ps nd ins i j x y H Hi Hj Hx Hy.
  destruct (Nat.eq_dec i j) as [->|Hij].
  - rewrite Hi in Hj. inversion Hj; subst. destruct y; simpl; auto.
  - destruct x, y; simpl; auto; try congruence.
    + exfalso. apply Hy. eapply base_ok_unk; eauto.
    + exfalso. apply Hx. eapply (base_ok_unk ps nd ins j i); eauto.
    + eapply base_ok_clocks; eauto.
Qed.

(* ... and what a failing base rule means *)
Lemma base_not_ok : forall ps nd ins,
  base_check ps nd ins = false ->
  (exists i j a b, nth_error ins i = Some (SClock a) /\ nth_error ins j = Some (SClock b) /\ ps a <> ps b)
  \/ (exists i j x, i <> j /\ nth_error ins i = Some SUnknown /\ nth_error ins j = Some x /\ x <> SConst)
  \/ (exists c i x, own_clock nd = Some c /\ nth_error ins i = Some x /\
                    (x = SUnknown \/ exists a, x = SClock a /\ ps a <> ps c)).
Proof.
  intros ps nd ins H.
  rewrite base_check_own, base_loop_none in H.
  assert (Hin : forall a, In a (clocks_of (own_l nd ++ ins)) ->
                (own_clock nd = Some a) \/ exists i, nth_error ins i = Some (SClock a)).
  { intros a Ha. rewrite clocks_of_app in Ha. apply in_app_or in Ha. destruct Ha as [Ha|Ha].
    - left. unfold own_l in Ha. destruct (own_clock nd); simpl in Ha; [destruct Ha as [->|[]]; auto | contradiction].
    - right. apply in_clocks_of in Ha. apply In_nth_error in Ha. exact Ha. }
  assert (Hcnt : count_unk (own_l nd ++ ins) = count_unk ins) by (rewrite count_unk_app, count_unk_own; reflexivity).
  destruct (clocks_of (own_l nd ++ ins)) as [|c cl] eqn:E.
  - (* no clock at all: more than one unknown *)
    simpl in H. rewrite andb_false_r, orb_false_r, negb_false_iff in H. apply Nat.ltb_lt in H.
    rewrite Hcnt in H. destruct (count_unk_two_inv ins) as (i & j & Hij & Hi & Hj); [lia|].
    right; left. exists i, j, SUnknown. repeat split; auto. discriminate.
  - destruct (forallb (fun c' => Nat.eqb (ps c) (ps c')) (c :: cl)) eqn:F.
    + (* clocks agree: an unknown is present *)
      simpl in H. rewrite andb_true_r, negb_false_iff in H.
      assert (1 <= count_unk ins).
      { rewrite Hcnt in H. apply orb_true_iff in H. destruct H as [H|H]; apply Nat.ltb_lt in H; lia. }
      destruct (count_unk_pos_inv ins H0) as [i Hi].
      destruct (Hin c (or_introl eq_refl)) as [Hown | [j Hj]].
      * right; right. exists c, i, SUnknown. repeat split; auto.
      * right; left. exists i, j, (SClock c). repeat split; auto; try discriminate.
        intro; subst. rewrite Hi in Hj; discriminate.
    + (* two clocks with different pin sources *)
      assert (exists a, In a (c :: cl) /\ ps c <> ps a) as (a & Ha & Hne).
      { clear - F. induction (c :: cl) as [|y l IH]; simpl in F; [discriminate|].
        apply andb_false_iff in F. destruct F as [F|F].
        - exists y. split; [left; reflexivity | apply Nat.eqb_neq; exact F].
        - destruct (IH F) as (a & Ha & Hne). exists a. split; [right; exact Ha | exact Hne]. }
      destruct (Hin c (or_introl eq_refl)) as [Hc | [i Hi]]; destruct (Hin a Ha) as [Ha' | [j Hj]].
      * rewrite Hc in Ha'. inversion Ha'; subst. congruence.
      * right; right. exists c, j, (SClock a). repeat split; auto. right. exists a. split; auto.
      * right; right. exists a, i, (SClock c). repeat split; auto. right. exists c. split; auto.
      * left. exists i, j, c, a. auto.
Qed.

(* ------------------------------------------------------------------ *)
(* declarative reading of the external-module rule                      *)

Definition port_ok (ps : clockid -> clockid) (x : scd) (c : option clockid) : bool :=
  match x with
  | SUnknown => false
  | SConst => true
  | SClock k => match c with Some d => Nat.eqb (ps k) (ps d) | None => false end
  end.

Lemma ext_port_spec : forall ps ret x c, ext_port ps ret x c = ret && port_ok ps x c.
Proof. intros. destruct x; simpl; [rewrite andb_false_r | rewrite andb_true_r |]; reflexivity. Qed.

Lemma ext_loop_spec : forall ps ins inclk ret,
  ext_loop ps ins inclk ret = ret && forallb (fun xc => port_ok ps (fst xc) (snd xc)) (combine ins inclk).
Proof.
  induction ins as [|x r IH]; intros inclk ret; simpl; [rewrite andb_true_r; reflexivity|].
  destruct inclk as [|c rc]; simpl; [rewrite andb_true_r; reflexivity|].
  rewrite IH, ext_port_spec, andb_assoc. reflexivity.
Qed.

Lemma nth_combine : forall (A B : Type) (l1 : list A) (l2 : list B) i x c,
  nth_error l1 i = Some x -> nth_error l2 i = Some c -> In (x, c) (combine l1 l2).
Proof.
  induction l1 as [|a l1 IH]; intros l2 i x c H1 H2; [destruct i; discriminate|].
  destruct l2 as [|b l2]; [destruct i; discriminate|].
  destruct i; simpl in *.
  - inversion H1; inversion H2; subst. left; reflexivity.
  - right. eapply IH; eauto.
Qed.

Lemma in_combine_nth : forall (A B : Type) (l1 : list A) (l2 : list B) x c,
  In (x, c) (combine l1 l2) -> exists i, nth_error l1 i = Some x /\ nth_error l2 i = Some c.
Proof.
  induction l1 as [|a l1 IH]; intros l2 x c H; [contradiction|].
  destruct l2 as [|b l2]; [contradiction|]. simpl in H. destruct H as [H|H].
  - inversion H; subst. exists 0. auto.
  - destruct (IH _ _ _ H) as (i & H1 & H2). exists (S i). auto.
Qed.

(* a passing check: every port's signal is constant or of the pin source of the port's clock *)
Lemma ext_check_true : forall ps nd ins i x,
  ext_check ps nd ins = true -> nth_error ins i = Some x ->
  exists c, nth_error (ninclk nd) i = Some c /\ port_ok ps x c = true.
Proof.
  intros ps nd ins i x H Hi. unfold ext_check in H.
  destruct (Nat.eqb (length ins) (length (ninclk nd))) eqn:El; [|discriminate].
  apply Nat.eqb_eq in El. rewrite ext_loop_spec in H. simpl in H.
  assert (Hlt : i < length (ninclk nd)) by (rewrite <- El; apply nth_error_Some; congruence).
  destruct (nth_error (ninclk nd) i) as [c|] eqn:Ec; [|apply nth_error_None in Ec; lia].
  exists c. split; auto. rewrite forallb_forall in H.
  exact (H (x, c) (nth_combine _ _ _ _ _ _ _ Hi Ec)).
Qed.

Lemma ext_check_false : forall ps nd ins,
  ext_check ps nd ins = false -> length ins = length (ninclk nd) ->
  exists i x c, nth_error ins i = Some x /\ nth_error (ninclk nd) i = Some c /\ port_ok ps x c = false.
Proof.
  intros ps nd ins H El. unfold ext_check in H. rewrite El, Nat.eqb_refl in H.
  rewrite ext_loop_spec in H. simpl in H.
  assert (exists xc, In xc (combine ins (ninclk nd)) /\ port_ok ps (fst xc) (snd xc) = false) as ([x c] & Hin & Hf).
  { revert H. generalize (combine ins (ninclk nd)). intro l. induction l as [|y l IH]; simpl; [discriminate|].
    intro H. apply andb_false_iff in H. destruct H as [H|H].
    - exists y. auto.
    - destruct (IH H) as (xc & Hin & Hf). exists xc. auto. }
  destruct (in_combine_nth _ _ _ _ _ _ Hin) as (i & H1 & H2). exists i, x, c. auto.
Qed.

Definition ext_ok (ps : clockid -> clockid) (nd : node) (ins : list scd) : Prop :=
  length ins = length (ninclk nd)
  /\ forall i x c, nth_error ins i = Some x -> nth_error (ninclk nd) i = Some c -> port_ok ps x c = true.

(* EVERY port counts: the rule passes exactly when each port's signal is constant or of the pin
   source of the clock declared for that port (an unknown domain is refused on any port) *)
Theorem ext_check_spec : forall ps nd ins, ext_check ps nd ins = true <-> ext_ok ps nd ins.
Proof.
  intros ps nd ins. split.
  - intros H. split.
    + unfold ext_check in H. destruct (Nat.eqb (length ins) (length (ninclk nd))) eqn:El; [|discriminate].
      apply Nat.eqb_eq. exact El.
    + intros i x c Hi Hc. destruct (ext_check_true _ _ _ _ _ H Hi) as (c' & Ec & Hp). congruence.
  - intros [El Hall]. destruct (ext_check ps nd ins) eqn:E; auto.
    destruct (ext_check_false _ _ _ E El) as (i & x & c & Hi & Hc & Hp).
    rewrite (Hall i x c Hi Hc) in Hp. discriminate.
Qed.

(* ------------------------------------------------------------------ *)
(* clocks that share the pin source are one domain                      *)

Definition oclk_equiv (ps : clockid -> clockid) (a b : option clockid) : Prop :=
  match a, b with
  | None, None => True
  | Some x, Some y => ps x = ps y
  | _, _ => False
  end.

Lemma base_loop_equiv : forall ps l l',
  Forall2 (scd_equiv ps) l l' -> forall clk k, base_loop ps l clk k = base_loop ps l' clk k.
Proof.
  induction 1 as [|x y l l' Hxy _ IH]; intros clk k; simpl; auto.
  destruct x, y; simpl in Hxy; try contradiction; auto.
  rewrite Hxy. destruct clk; auto. destruct (Nat.eqb c1 (ps c0)); auto.
Qed.

Lemma forall2_length : forall (A B : Type) (R : A -> B -> Prop) l l', Forall2 R l l' -> length l = length l'.
Proof. induction 1; simpl; auto. Qed.

Lemma ext_loop_equiv : forall ps l l',
  Forall2 (scd_equiv ps) l l' -> forall ic ic', Forall2 (oclk_equiv ps) ic ic' ->
  forall ret, ext_loop ps l ic ret = ext_loop ps l' ic' ret.
Proof.
  induction 1 as [|x y l l' Hxy _ IH]; intros ic ic' Hc ret; simpl; auto.
  inversion Hc as [|a b la lb Hab Hrest]; subst; auto.
  replace (ext_port ps ret y b) with (ext_port ps ret x a); [apply IH; exact Hrest|].
  destruct x, y; simpl in Hxy; try contradiction; auto. simpl.
  destruct a, b; simpl in Hab; try contradiction; auto. rewrite Hxy, Hab. reflexivity.
Qed.

Theorem check_valid_equiv : forall ps nd nd' ins ins',
  nkind nd = nkind nd' ->
  Forall2 (oclk_equiv ps) (nclocks nd) (nclocks nd') ->
  Forall2 (oclk_equiv ps) (ninclk nd) (ninclk nd') ->
  Forall2 (scd_equiv ps) ins ins' ->
  check_valid ps nd ins = check_valid ps nd' ins'.
Proof.
  intros ps nd nd' ins ins' Hk Hc Hic Hi.
  assert (Hext : ext_check ps nd ins = ext_check ps nd' ins').
  { unfold ext_check. rewrite (forall2_length _ _ _ _ _ Hi), (forall2_length _ _ _ _ _ Hic).
    rewrite (ext_loop_equiv _ _ _ Hi _ _ Hic). reflexivity. }
  unfold check_valid. rewrite <- Hk.
  assert (Hbase : base_check ps nd ins = base_check ps nd' ins').
  { unfold base_check, own_clock.
    destruct (nclocks nd) as [|a la], (nclocks nd') as [|b lb]; inversion Hc as [|? ? ? ? Hab Hrest]; subst; simpl.
    - rewrite (base_loop_equiv _ _ _ Hi). reflexivity.
    - destruct a, b; simpl in Hab; try contradiction.
      + rewrite Hab. rewrite (base_loop_equiv _ _ _ Hi). reflexivity.
      + rewrite (base_loop_equiv _ _ _ Hi). reflexivity. }
  assert (Hcdc : cdc_check ps nd ins = cdc_check ps nd' ins').
  { unfold cdc_check. inversion Hi as [|x y l l' Hxy Hrest E1 E2]; [reflexivity|].
    destruct x, y; simpl in Hxy; try contradiction; try reflexivity.
    destruct (nclocks nd) as [|a la], (nclocks nd') as [|b lb]; inversion Hc as [|? ? ? ? Hab Hr]; subst; simpl; [reflexivity|].
    destruct a, b; simpl in Hab; try contradiction; try reflexivity.
    rewrite Hxy, Hab. reflexivity. }
  destruct (nkind nd); auto.
Qed.
